(* CoverTree_Proof_Audit.v — the audit flag of the cover-tree batch query model is always true:
   whenever upper_bound[0] is read (descend, the final filter, copy_zero_set, copy_cover_sets) at least K
   samples lie within it of the query node's point.

   Why.  The k-vector is only ever changed by update(d(q, y)) for node points y that are pairwise distinct
   samples ("fresh"): the reference frontier (zero set + cover sets from the current scale on) consists of
   subtrees with pairwise disjoint leaf sets, every point that was fed is either the point of a frontier
   element or lies under no frontier element any more, and descend feeds only the points of the non-first
   children of a frontier node, which lie strictly inside that node's subtree.  A vector re-initialised for a
   query child (setter(upper_bound[0] + parent_dist)) is backed by the parent's K witnesses.
   Disjointness is kept as a COUNT (every sample occurs at most once among the leaves below the frontier), which
   makes every re-arrangement of the sets a matter of arithmetic.

   Main result  ct_query_audit_true: for a metric d, a tree satisfying ct_inv_b whose leaves are pairwise
   distinct, every result of ct_query (either copy radius) carries the flag true. *)
From Coq Require Import List ZArith Bool Lia.
From TK Require Import Knn_Spec Knn_CoverSel_Model CoverTree_Model CoverTree_Proof Knn_CoverQuery_Proof.
Import ListNotations.
Local Open Scope Z_scope.

Section Audit.
Variable oc : bool.
Variable d : dist.
Variable pts : list Z.
Variable K : nat.
Variable dom : Z -> Prop.
Hypothesis Hsym : forall x y, dom x -> dom y -> dd d x y = dd d y x.
Hypothesis Htri : forall x y z, dom x -> dom y -> dom z -> dd d x z <= dd d x y + dd d y z.
Hypothesis Hpts : forall x, In x pts -> dom x.

Notation lp := leaf_points.
Notation au := (valid_b d pts K).
Notation nok := (node_ok d pts).

(* ---------- counting leaves ---------- *)
Definition cnt (l : list Z) (x : Z) : nat := count_occ Z.eq_dec l x.
Definition lvs (F : list ctree) : list Z := flat_map lp F.
Definition nd (e : centry) : ctree := snd (snd e).
Definition zn (zero : list dnode) : list ctree := map snd zero.
Definition cn (p : centry -> bool) (cover : list centry) : list ctree := map nd (filter p cover).

Lemma cnt_app : forall l1 l2 x, cnt (l1 ++ l2) x = (cnt l1 x + cnt l2 x)%nat.
Proof. intros. apply count_occ_app. Qed.

Lemma lvs_app : forall F G, lvs (F ++ G) = lvs F ++ lvs G.
Proof. intros. apply flat_map_app. Qed.

Lemma lvs_cons : forall e F, lvs (e :: F) = lp e ++ lvs F.
Proof. reflexivity. Qed.

Lemma cnt_lvs_app : forall F G x, cnt (lvs (F ++ G)) x = (cnt (lvs F) x + cnt (lvs G) x)%nat.
Proof. intros. rewrite lvs_app. apply cnt_app. Qed.

Lemma cnt_lvs_cons : forall e F x, cnt (lvs (e :: F)) x = (cnt (lp e) x + cnt (lvs F) x)%nat.
Proof. intros. rewrite lvs_cons. apply cnt_app. Qed.

Lemma cnt_pos : forall l x, In x l <-> (0 < cnt l x)%nat.
Proof. intros. unfold cnt. rewrite (count_occ_In Z.eq_dec). lia. Qed.

Lemma cnt_zero : forall l x, ~ In x l <-> cnt l x = 0%nat.
Proof. intros. apply count_occ_not_In. Qed.

Lemma cnt_lvs_in : forall F e x, In e F -> In x (lp e) -> (0 < cnt (lvs F) x)%nat.
Proof. intros F e x He Hx. apply cnt_pos. apply in_flat_map. now exists e. Qed.

(* two members of a frontier that share a leaf are the same member *)
Lemma cnt_unique : forall F e1 e2 x, (cnt (lvs F) x <= 1)%nat ->
  In e1 F -> In e2 F -> In x (lp e1) -> In x (lp e2) -> e1 = e2.
Proof.
  induction F as [|a F IH]; intros e1 e2 x Hc H1 H2 X1 X2; [destruct H1|].
  rewrite cnt_lvs_cons in Hc.
  destruct H1 as [<-|H1]; destruct H2 as [<-|H2].
  - reflexivity.
  - exfalso. apply cnt_pos in X1. pose proof (cnt_lvs_in F e2 x H2 X2). lia.
  - exfalso. apply cnt_pos in X2. pose proof (cnt_lvs_in F e1 x H1 X1). lia.
  - apply (IH e1 e2 x); try assumption. lia.
Qed.

Lemma lp_children : forall n, is_leaf n = false -> lp n = lvs (c_ch n).
Proof.
  intros [p m pd sc ch] H. unfold is_leaf in H. cbn [c_ch] in *. destruct ch as [|c0 rest]; [discriminate|].
  reflexivity.
Qed.

(* ---------- count_within is monotone ---------- *)
Lemma cw_mono : forall l q v w, v <= w -> (count_within d l q v <= count_within d l q w)%nat.
Proof.
  intros l q v w H. unfold count_within. apply filter_length_le. intros y _ Hy.
  apply Z.leb_le in Hy. apply Z.leb_le. lia.
Qed.

Lemma cw_sub : forall S q v, NoDup S -> incl S pts -> (count_within d S q v <= count_within d pts q v)%nat.
Proof.
  intros S q v Hnd Hin. unfold count_within. apply NoDup_incl_length.
  - now apply NoDup_filter.
  - intros y Hy. apply filter_In in Hy. apply filter_In. split; [apply Hin|]; apply Hy.
Qed.

Lemma cw_cons : forall S q y v, count_within d (y :: S) q v =
  ((if (dd d q y <=? v)%Z then 1 else 0) + count_within d S q v)%nat.
Proof. intros. unfold count_within. cbn [filter]. destruct (dd d q y <=? v); reflexivity. Qed.

(* ---------- the k-vector is backed by distinct samples ---------- *)
Definition w0le (w0 : ext) (u : Z) : Prop := exists w, w0 = Some w /\ w <= u.

Definition backed (q : Z) (S : list Z) (w0 : ext) (n : nat) (x : ext) : Prop :=
  match x with None => True | Some u => (n <= count_within d S q u)%nat \/ w0le w0 u end.

Fixpoint ub_ok (q : Z) (S : list Z) (w0 : ext) (l : list ext) : Prop :=
  match l with
  | [] => True
  | x :: r => backed q S w0 (length l) x /\ ub_ok q S w0 r
  end.

Definition w0_ok (q : Z) (w0 : ext) : Prop :=
  match w0 with None => True | Some w => (K <= count_within d pts q w)%nat end.

Lemma backed_mono : forall q S y w0 n x, backed q S w0 n x -> backed q (y :: S) w0 n x.
Proof.
  intros q S y w0 n [u|] H; [|exact I]. destruct H as [H|H]; [left | now right].
  rewrite cw_cons. destruct (dd d q y <=? u); lia.
Qed.

Lemma ub_ok_mono : forall q S y w0 l, ub_ok q S w0 l -> ub_ok q (y :: S) w0 l.
Proof.
  intros q S y w0 l. induction l as [|x r IH]; intros H; [exact I|].
  destruct H as [H1 H2]. split; [now apply backed_mono | now apply IH].
Qed.

Lemma ub_update_length : forall l dn, length (ub_update l dn) = length l.
Proof.
  induction l as [|x r IH]; intros dn; [reflexivity|]. cbn [ub_update].
  destruct r as [|y r']; [reflexivity|]. destruct (lt_e dn y).
  - cbn [length]. f_equal. apply (IH dn).
  - reflexivity.
Qed.

Lemma lt_e_true : forall z e, lt_e z e = true <-> (match e with None => True | Some v => z < v end).
Proof. intros z [v|]; cbn [lt_e]; [apply Z.ltb_lt | tauto]. Qed.

Lemma lt_e_false : forall z e, lt_e z e = false <-> exists v, e = Some v /\ v <= z.
Proof.
  intros z [v|]; cbn [lt_e].
  - rewrite Z.ltb_ge. split; [intros H; exists v; now split | intros [w [E H]]; injection E as ->; exact H].
  - split; [discriminate | intros [w [E _]]; discriminate].
Qed.

(* update with the distance to one more sample *)
Lemma ub_update_ok : forall q S w0 y l,
  ub_ok q S w0 l -> ub_ok q (y :: S) w0 (ub_update l (dd d q y)).
Proof.
  intros q S w0 y l. induction l as [|x r IH]; intros H; [exact I|].
  cbn [ub_update]. destruct r as [|x1 r'].
  - cbn [ub_ok length backed]. split; [|exact I]. left. rewrite cw_cons. rewrite Z.leb_refl. cbv iota. lia.
  - destruct H as [_ Hr]. pose proof Hr as Hr0. destruct Hr as [Hb1 _].
    destruct (lt_e (dd d q y) x1) eqn:Hlt.
    + cbn [ub_ok]. split.
      * cbn [length]. rewrite ub_update_length. cbn [length].
        destruct x1 as [u1|]; [|exact I]. cbn [backed] in *. apply lt_e_true in Hlt.
        destruct Hb1 as [Hb1|Hb1]; [left | now right].
        rewrite cw_cons. assert (E : (dd d q y <=? u1) = true) by (apply Z.leb_le; lia). rewrite E. cbv iota.
        cbn [length] in Hb1. lia.
      * apply IH. exact Hr0.
    + apply lt_e_false in Hlt. destruct Hlt as [u1 [-> Hle]]. cbn [ub_ok]. split.
      * cbn [backed length] in *. destruct Hb1 as [Hb1|[w [Hw Hwu]]].
        -- left. rewrite cw_cons. rewrite Z.leb_refl. cbv iota.
           pose proof (cw_mono S q u1 (dd d q y) Hle). lia.
        -- right. exists w. split; [assumption | lia].
      * apply (ub_ok_mono q S y w0 (Some u1 :: r')). exact Hr0.
Qed.

Lemma ub_ok_setter : forall q w0 n, ub_ok q [] w0 (repeat w0 n).
Proof.
  intros q w0 n. induction n as [|n IH]; [exact I|]. cbn [repeat ub_ok]. split; [|exact IH].
  destruct w0 as [w|]; [|exact I]. cbn [backed]. right. exists w. split; [reflexivity | lia].
Qed.

(* what a backed vector gives: the audited fact *)
Lemma ub_valid : forall site qn S w0 ub,
  length ub = K -> ub_ok (c_p qn) S w0 ub -> w0_ok (c_p qn) w0 -> NoDup S -> incl S pts ->
  au site qn ub = true.
Proof.
  intros site qn S w0 ub Hlen Hok Hw Hnd Hin. unfold valid_b.
  destruct ub as [|x r]; [reflexivity|]. cbn [ub0 hd]. destruct x as [v|]; [|reflexivity].
  apply Nat.leb_le. destruct Hok as [Hb _]. cbn [backed] in Hb. rewrite Hlen in Hb.
  destruct Hb as [Hb|[w [-> Hwv]]].
  - pose proof (cw_sub S (c_p qn) v Hnd Hin). lia.
  - cbn [w0_ok] in Hw. pose proof (cw_mono pts (c_p qn) w v Hwv). lia.
Qed.

(* the bound inherited by a query child *)
Lemma w0_child : forall Q S w0 ub chi,
  length ub = K -> ub_ok (c_p Q) S w0 ub -> w0_ok (c_p Q) w0 -> NoDup S -> incl S pts ->
  dom (c_p Q) -> dom (c_p chi) -> dd d (c_p Q) (c_p chi) <= c_pard chi ->
  w0_ok (c_p chi) (eadd (ub0 ub) (c_pard chi)).
Proof.
  intros Q S w0 ub chi Hlen Hok Hw Hnd Hin HdQ Hdc Hpd.
  pose proof (ub_valid false Q S w0 ub Hlen Hok Hw Hnd Hin) as Hv. unfold valid_b in Hv.
  destruct (ub0 ub) as [v|]; [|exact I]. cbn [eadd w0_ok]. apply Nat.leb_le in Hv.
  pose proof (count_within_shift d pts dom Hsym Htri Hpts (c_p Q) (c_p chi) v HdQ Hdc).
  pose proof (cw_mono pts (c_p chi) (v + dd d (c_p Q) (c_p chi)) (v + c_pard chi) ltac:(lia)). lia.
Qed.

(* ---------- the vector together with the samples that back it ---------- *)
Definition seen_ok (q : Z) (S : list Z) (w0 : ext) (ub : list ext) : Prop :=
  length ub = K /\ ub_ok q S w0 ub /\ w0_ok q w0 /\ NoDup S /\ incl S pts.

Lemma seen_valid : forall site qn S w0 ub, seen_ok (c_p qn) S w0 ub -> au site qn ub = true.
Proof. intros site qn S w0 ub [H1 [H2 [H3 [H4 H5]]]]. now apply (ub_valid site qn S w0 ub). Qed.

(* one more (fresh) sample seen; the vector is updated only when the distance improves it *)
Lemma seen_feed : forall q S w0 ub y,
  seen_ok q S w0 ub -> ~ In y S -> In y pts ->
  seen_ok q (y :: S) w0 (if lt_e (dd d q y) (ub0 ub) then ub_update ub (dd d q y) else ub).
Proof.
  intros q S w0 ub y [H1 [H2 [H3 [H4 H5]]]] Hy Hp.
  assert (Hnd : NoDup (y :: S)) by (constructor; assumption).
  assert (Hin : incl (y :: S) pts) by (intros z [<-|Hz]; [assumption | now apply H5]).
  destruct (lt_e (dd d q y) (ub0 ub)).
  - split; [now rewrite ub_update_length|]. split; [now apply ub_update_ok|]. now repeat split.
  - split; [assumption|]. split; [now apply ub_ok_mono|]. now repeat split.
Qed.

Lemma nok_point_in : forall e, nok e -> In (c_p e) (lp e) /\ In (c_p e) pts.
Proof.
  intros e [Hi Hl]. pose proof (lp_nonempty_p d e Hi) as H. split; [assumption | now apply Hl].
Qed.

(* the point of the head element of a list of pairwise disjoint subtrees is not under the others *)
Lemma head_point_fresh : forall e F later S,
  nok e -> (forall x, (cnt (lvs (e :: F)) x + cnt later x <= 1)%nat) ->
  (forall y, In y S -> cnt (lvs (e :: F)) y = 0%nat /\ cnt later y = 0%nat) ->
  ~ In (c_p e) S /\ cnt (lvs F) (c_p e) = 0%nat /\ cnt later (c_p e) = 0%nat.
Proof.
  intros e F later S He Hc HS. destruct (nok_point_in e He) as [Hin _].
  apply cnt_pos in Hin. specialize (Hc (c_p e)). rewrite cnt_lvs_cons in Hc.
  split; [|lia]. intros Hy. destruct (HS _ Hy) as [H0 _]. rewrite cnt_lvs_cons in H0. lia.
Qed.

(* ---------- copy_zero_set ---------- *)
Lemma copy_zero_set_audit : forall qc zero ub ok ub' out ok' S w0 later,
  copy_zero_set oc d au qc ub zero ok = (ub', out, ok') ->
  seen_ok (c_p qc) S w0 ub ->
  (forall e, In e (zn zero) -> nok e) ->
  (forall x, (cnt (lvs (zn zero)) x + cnt later x <= 1)%nat) ->
  (forall y, In y S -> cnt (lvs (zn zero)) y = 0%nat /\ cnt later y = 0%nat) ->
  ok' = ok /\ exists S',
    seen_ok (c_p qc) S' w0 ub' /\ incl S S' /\
    (forall y, In y S' -> In y S \/ exists e, In e (zn out) /\ y = c_p e) /\
    (forall y, In y S' -> cnt later y = 0%nat) /\
    (forall e, In e (zn out) -> In e (zn zero)) /\
    (forall x, (cnt (lvs (zn out)) x <= cnt (lvs (zn zero)) x)%nat).
Proof.
  intros qc zero. induction zero as [|[edist en] rest IH]; intros ub ok ub' out ok' S w0 later E Hs Hn Hc HS.
  - cbn [copy_zero_set] in E. injection E as <- <- <-. split; [reflexivity|]. exists S.
    split; [assumption|]. split; [apply incl_refl|]. split; [intros y Hy; now left|].
    split; [intros y Hy; apply (HS y Hy)|]. split; [intros e []|]. intros x. lia.
  - assert (Hau : au true qc ub = true) by (apply (seen_valid true qc S w0 ub Hs)).
    assert (Hok1 : ok && au true qc ub = ok) by (rewrite Hau; apply andb_true_r).
    assert (Hen : nok en) by (apply Hn; now left).
    assert (Hn' : forall e, In e (zn rest) -> nok e) by (intros e He; apply Hn; now right).
    assert (Hc' : forall x, (cnt (lvs (zn rest)) x + cnt later x <= 1)%nat).
    { intros x. specialize (Hc x). unfold zn in Hc. cbn [map snd] in Hc. rewrite cnt_lvs_cons in Hc. unfold zn. lia. }
    assert (Hskip : forall y, In y S -> cnt (lvs (zn rest)) y = 0%nat /\ cnt later y = 0%nat).
    { intros y Hy. destruct (HS y Hy) as [H0 H1]. unfold zn in H0. cbn [map snd] in H0.
      rewrite cnt_lvs_cons in H0. unfold zn. split; lia. }
    assert (Hdrop : forall ub2 out2 ok2, copy_zero_set oc d au qc ub rest (ok && au true qc ub) = (ub2, out2, ok2) ->
      ok2 = ok /\ exists S', seen_ok (c_p qc) S' w0 ub2 /\ incl S S' /\
        (forall y, In y S' -> In y S \/ exists e, In e (zn out2) /\ y = c_p e) /\
        (forall y, In y S' -> cnt later y = 0%nat) /\
        (forall e, In e (zn out2) -> In e (zn ((edist, en) :: rest))) /\
        (forall x, (cnt (lvs (zn out2)) x <= cnt (lvs (zn ((edist, en) :: rest))) x)%nat)).
    { intros ub2 out2 ok2 E2. rewrite Hok1 in E2.
      destruct (IH _ _ _ _ _ S w0 later E2 Hs Hn' Hc' Hskip) as [-> [S' [G1 [G2 [G3 [G4 [G5 G6]]]]]]].
      split; [reflexivity|]. exists S'. repeat (split; [assumption|]). split.
      - intros e He. right. now apply G5.
      - intros x. specialize (G6 x). unfold zn. cbn [map snd]. rewrite cnt_lvs_cons. unfold zn in G6. lia. }
    cbn [copy_zero_set] in E.
    destruct (shell edist (c_pard qc) (eadd (ub0 ub) (qmd oc qc))); [|now apply Hdrop].
    destruct (le_e (dd d (c_p qc) (c_p en)) (eadd (ub0 ub) (qmd oc qc))); [|now apply Hdrop].
    destruct (copy_zero_set oc d au qc _ rest (ok && au true qc ub)) as [[ub2 out2] ok2] eqn:E2.
    injection E as <- <- <-. rewrite Hok1 in E2.
    destruct (head_point_fresh en (zn rest) later S Hen) as [Hfresh [Hr0 Hl0]].
    { intros x. specialize (Hc x). unfold zn in Hc. cbn [map snd] in Hc. exact Hc. }
    { intros y Hy. destruct (HS y Hy) as [H0 H1]. unfold zn in H0. cbn [map snd] in H0. now split. }
    pose proof (seen_feed (c_p qc) S w0 ub (c_p en) Hs Hfresh (proj2 (nok_point_in en Hen))) as Hs1.
    assert (HS1 : forall y, In y (c_p en :: S) -> cnt (lvs (zn rest)) y = 0%nat /\ cnt later y = 0%nat).
    { intros y [<-|Hy]; [now split | now apply Hskip]. }
    destruct (IH _ _ _ _ _ (c_p en :: S) w0 later E2 Hs1 Hn' Hc' HS1) as [-> [S' [G1 [G2 [G3 [G4 [G5 G6]]]]]]].
    split; [reflexivity|]. exists S'. split; [assumption|].
    split; [intros y Hy; apply G2; now right|]. split.
    { intros y Hy. destruct (G3 y Hy) as [[<-|H]|[e [He Hye]]].
      - right. exists en. split; [now left | reflexivity].
      - now left.
      - right. exists e. split; [now right | assumption]. }
    split; [assumption|]. split.
    + intros e [<-|He]; [now left | right; now apply G5].
    + intros x. specialize (G6 x). unfold zn in *. cbn [map snd]. rewrite !cnt_lvs_cons. lia.
Qed.

(* ---------- copy_slot / copy_cover_sets ---------- *)
Lemma cn_cons : forall p e l, cn p (e :: l) = if p e then nd e :: cn p l else cn p l.
Proof. intros p e l. unfold cn. cbn [filter]. destruct (p e); reflexivity. Qed.

Lemma cn_slot_cons : forall s es edist en rest,
  cn (in_slot s) ((es, (edist, en)) :: rest) = if Nat.eqb es s then en :: cn (in_slot s) rest else cn (in_slot s) rest.
Proof. intros. rewrite cn_cons. unfold in_slot at 1, slot_of, nd. cbn [fst snd]. reflexivity. Qed.

Lemma copy_slot_audit : forall qc s cover ub ok ub' out ok' S w0 later,
  copy_slot oc d au qc ub s cover ok = (ub', out, ok') ->
  seen_ok (c_p qc) S w0 ub ->
  (forall e, In e (cn (in_slot s) cover) -> nok e) ->
  (forall x, (cnt (lvs (cn (in_slot s) cover)) x + cnt later x <= 1)%nat) ->
  (forall y, In y S -> cnt (lvs (cn (in_slot s) cover)) y = 0%nat /\ cnt later y = 0%nat) ->
  ok' = ok /\ exists S',
    seen_ok (c_p qc) S' w0 ub' /\ incl S S' /\
    (forall y, In y S' -> In y S \/ exists e, In e (map nd out) /\ y = c_p e) /\
    (forall y, In y S' -> cnt later y = 0%nat) /\
    (forall e, In e (map nd out) -> In e (cn (in_slot s) cover)) /\
    (forall x, (cnt (lvs (map nd out)) x <= cnt (lvs (cn (in_slot s) cover)) x)%nat) /\
    (forall e, In e out -> fst e = s).
Proof.
  intros qc s cover. induction cover as [|[es [edist en]] rest IH]; intros ub ok ub' out ok' S w0 later E Hs Hn Hc HS.
  - cbn [copy_slot] in E. injection E as <- <- <-. split; [reflexivity|]. exists S.
    split; [assumption|]. split; [apply incl_refl|]. split; [intros y Hy; now left|].
    split; [intros y Hy; apply (HS y Hy)|]. split; [intros e []|]. split; [intros x; cbn; lia | intros e []].
  - cbn [copy_slot] in E. rewrite cn_slot_cons in Hn, Hc, HS. rewrite cn_slot_cons.
    destruct (Nat.eqb es s) eqn:Hes.
    + (* an entry of the slot *)
      apply Nat.eqb_eq in Hes. subst es.
      assert (Hau : au true qc ub = true) by (apply (seen_valid true qc S w0 ub Hs)).
      assert (Hok1 : ok && au true qc ub = ok) by (rewrite Hau; apply andb_true_r).
      assert (Hen : nok en) by (apply Hn; now left).
      assert (Hn' : forall e, In e (cn (in_slot s) rest) -> nok e) by (intros e He; apply Hn; now right).
      assert (Hc' : forall x, (cnt (lvs (cn (in_slot s) rest)) x + cnt later x <= 1)%nat).
      { intros x. specialize (Hc x). rewrite cnt_lvs_cons in Hc. lia. }
      assert (Hskip : forall y, In y S -> cnt (lvs (cn (in_slot s) rest)) y = 0%nat /\ cnt later y = 0%nat).
      { intros y Hy. destruct (HS y Hy) as [H0 H1]. rewrite cnt_lvs_cons in H0. split; lia. }
      assert (Hdrop : forall ub2 out2 ok2, copy_slot oc d au qc ub s rest (ok && au true qc ub) = (ub2, out2, ok2) ->
        ok2 = ok /\ exists S', seen_ok (c_p qc) S' w0 ub2 /\ incl S S' /\
          (forall y, In y S' -> In y S \/ exists e, In e (map nd out2) /\ y = c_p e) /\
          (forall y, In y S' -> cnt later y = 0%nat) /\
          (forall e, In e (map nd out2) -> In e (en :: cn (in_slot s) rest)) /\
          (forall x, (cnt (lvs (map nd out2)) x <= cnt (lvs (en :: cn (in_slot s) rest)) x)%nat) /\
          (forall e, In e out2 -> fst e = s)).
      { intros ub2 out2 ok2 E2. rewrite Hok1 in E2.
        destruct (IH _ _ _ _ _ S w0 later E2 Hs Hn' Hc' Hskip) as [-> [S' [G1 [G2 [G3 [G4 [G5 [G6 G7]]]]]]]].
        split; [reflexivity|]. exists S'. repeat (split; [assumption|]). split.
        - intros e He. right. now apply G5.
        - split; [|assumption]. intros x. specialize (G6 x). rewrite cnt_lvs_cons. lia. }
      destruct (shell edist (c_pard qc) (eadd (eadd (ub0 ub) (qmd oc qc)) (c_maxd en))); [|now apply Hdrop].
      destruct (le_e (dd d (c_p qc) (c_p en)) (eadd (eadd (ub0 ub) (qmd oc qc)) (c_maxd en))); [|now apply Hdrop].
      destruct (copy_slot oc d au qc _ s rest (ok && au true qc ub)) as [[ub2 out2] ok2] eqn:E2.
      injection E as <- <- <-. rewrite Hok1 in E2.
      destruct (head_point_fresh en (cn (in_slot s) rest) later S Hen Hc HS) as [Hfresh [Hr0 Hl0]].
      pose proof (seen_feed (c_p qc) S w0 ub (c_p en) Hs Hfresh (proj2 (nok_point_in en Hen))) as Hs1.
      assert (HS1 : forall y, In y (c_p en :: S) -> cnt (lvs (cn (in_slot s) rest)) y = 0%nat /\ cnt later y = 0%nat).
      { intros y [<-|Hy]; [now split | now apply Hskip]. }
      destruct (IH _ _ _ _ _ (c_p en :: S) w0 later E2 Hs1 Hn' Hc' HS1) as [-> [S' [G1 [G2 [G3 [G4 [G5 [G6 G7]]]]]]]].
      split; [reflexivity|]. exists S'. split; [assumption|].
      split; [intros y Hy; apply G2; now right|]. split.
      { intros y Hy. destruct (G3 y Hy) as [[<-|H]|[e [He Hye]]].
        - right. exists en. split; [now left | reflexivity].
        - now left.
        - right. exists e. split; [now right | assumption]. }
      split; [assumption|]. split.
      * cbn [map]. unfold nd at 1. cbn [snd]. intros e [<-|He]; [now left | right; now apply G5].
      * split.
        -- intros x. specialize (G6 x). cbn [map]. unfold nd at 1. cbn [snd]. rewrite !cnt_lvs_cons. lia.
        -- intros e [<-|He]; [reflexivity | now apply G7].
    + (* another slot *)
      apply (IH _ _ _ _ _ S w0 later E Hs Hn Hc HS).
Qed.

Lemma cnt_cn_split : forall (p q r : centry -> bool) l x,
  (forall e, p e = q e || r e) -> (forall e, q e && r e = false) ->
  cnt (lvs (cn p l)) x = (cnt (lvs (cn q l)) x + cnt (lvs (cn r l)) x)%nat.
Proof.
  intros p q r l x Hp Hd. induction l as [|e l IH]; [reflexivity|].
  rewrite !cn_cons. rewrite (Hp e). specialize (Hd e).
  destruct (q e); destruct (r e); cbn [orb]; try discriminate; rewrite ?cnt_lvs_cons; lia.
Qed.

Lemma in_cn_imp : forall (p q : centry -> bool) l e,
  (forall c, p c = true -> q c = true) -> In e (cn p l) -> In e (cn q l).
Proof.
  intros p q l e H. unfold cn. intros He. apply in_map_iff in He. destruct He as [c [<- Hc]].
  apply in_map. apply filter_In in Hc. apply filter_In. split; [apply Hc | apply H, Hc].
Qed.

Lemma cnt_cn_le : forall (p q : centry -> bool) l x,
  (forall c, p c = true -> q c = true) -> (cnt (lvs (cn p l)) x <= cnt (lvs (cn q l)) x)%nat.
Proof.
  intros p q l x H. induction l as [|e l IH]; [cbn; lia|]. rewrite !cn_cons.
  destruct (p e) eqn:Hpe.
  - rewrite (H e Hpe). rewrite !cnt_lvs_cons. lia.
  - destruct (q e); rewrite ?cnt_lvs_cons; lia.
Qed.

Definition rngp (s n : nat) (e : centry) : bool := Nat.leb s (fst e) && Nat.ltb (fst e) (s + n).

Lemma rngp_split : forall s n e, rngp s (S n) e = in_slot s e || rngp (S s) n e.
Proof.
  intros s n e. unfold rngp, in_slot, slot_of.
  destruct (Nat.leb_spec s (fst e)); destruct (Nat.ltb_spec (fst e) (s + S n));
  destruct (Nat.eqb_spec (fst e) s); destruct (Nat.leb_spec (S s) (fst e));
  destruct (Nat.ltb_spec (fst e) (S s + n)); cbn; try reflexivity; lia.
Qed.

Lemma rngp_disj : forall s n e, in_slot s e && rngp (S s) n e = false.
Proof.
  intros s n e. unfold rngp, in_slot, slot_of.
  destruct (Nat.eqb_spec (fst e) s); destruct (Nat.leb_spec (S s) (fst e)); cbn; try reflexivity; lia.
Qed.

Lemma copy_cover_sets_audit : forall n qc cover s ub ok ub' out ok' Sn w0 later,
  copy_cover_sets oc d au qc ub s n cover ok = (ub', out, ok') ->
  seen_ok (c_p qc) Sn w0 ub ->
  (forall e, In e (cn (rngp s n) cover) -> nok e) ->
  (forall x, (cnt (lvs (cn (rngp s n) cover)) x + cnt later x <= 1)%nat) ->
  (forall y, In y Sn -> cnt (lvs (cn (rngp s n) cover)) y = 0%nat /\ cnt later y = 0%nat) ->
  ok' = ok /\ exists S',
    seen_ok (c_p qc) S' w0 ub' /\ incl Sn S' /\
    (forall y, In y S' -> In y Sn \/ exists e, In e (map nd out) /\ y = c_p e) /\
    (forall y, In y S' -> cnt later y = 0%nat) /\
    (forall e, In e (map nd out) -> In e (cn (rngp s n) cover)) /\
    (forall x, (cnt (lvs (map nd out)) x <= cnt (lvs (cn (rngp s n) cover)) x)%nat) /\
    (forall e, In e out -> (s <= fst e)%nat).
Proof.
  induction n as [|n IH]; intros qc cover s ub ok ub' out ok' Sn w0 later E Hs Hn Hc HS.
  - cbn [copy_cover_sets] in E. injection E as <- <- <-. split; [reflexivity|]. exists Sn.
    split; [assumption|]. split; [apply incl_refl|]. split; [intros y Hy; now left|].
    split; [intros y Hy; apply (HS y Hy)|]. split; [intros e []|]. split; [intros x; cbn; lia | intros e []].
  - cbn [copy_cover_sets] in E.
    destruct (copy_slot oc d au qc ub s cover ok) as [[ub1 out1] ok1] eqn:E1.
    destruct (copy_cover_sets oc d au qc ub1 (S s) n cover ok1) as [[ub2 out2] ok2] eqn:E2.
    injection E as <- <- <-.
    assert (Hsp : forall x, cnt (lvs (cn (rngp s (S n)) cover)) x =
                    (cnt (lvs (cn (in_slot s) cover)) x + cnt (lvs (cn (rngp (S s) n) cover)) x)%nat).
    { intros x. apply cnt_cn_split; [apply rngp_split | apply rngp_disj]. }
    assert (Hi1 : forall c, in_slot s c = true -> rngp s (S n) c = true).
    { intros c H. rewrite rngp_split, H. reflexivity. }
    assert (Hi2 : forall c, rngp (S s) n c = true -> rngp s (S n) c = true).
    { intros c H. rewrite rngp_split, H. apply orb_true_r. }
    destruct (copy_slot_audit qc s cover ub ok ub1 out1 ok1 Sn w0 (lvs (cn (rngp (S s) n) cover) ++ later) E1 Hs)
      as [-> [S1 [G1 [G2 [G3 [G4 [G5 [G6 G7]]]]]]]].
    { intros e He. apply Hn. now apply (in_cn_imp (in_slot s)). }
    { intros x. rewrite cnt_app. specialize (Hc x). rewrite Hsp in Hc. lia. }
    { intros y Hy. destruct (HS y Hy) as [H0 H1]. rewrite Hsp in H0. rewrite cnt_app. split; lia. }
    destruct (IH qc cover (S s) ub1 ok ub2 out2 ok2 S1 w0 later E2 G1) as [-> [S2 [F1 [F2 [F3 [F4 [F5 [F6 F7]]]]]]]].
    { intros e He. apply Hn. now apply (in_cn_imp (rngp (S s) n)). }
    { intros x. specialize (Hc x). rewrite Hsp in Hc. lia. }
    { intros y Hy. specialize (G4 y Hy). rewrite cnt_app in G4. split; lia. }
    split; [reflexivity|]. exists S2. split; [assumption|].
    split; [eapply incl_tran; eassumption|]. split.
    { intros y Hy. destruct (F3 y Hy) as [H|[e [He Hye]]].
      - destruct (G3 y H) as [H'|[e [He Hye]]]; [now left|]. right. exists e. split; [|assumption].
        rewrite map_app. apply in_or_app. now left.
      - right. exists e. split; [|assumption]. rewrite map_app. apply in_or_app. now right. }
    split; [assumption|]. split.
    + intros e He. rewrite map_app in He. apply in_app_or in He. destruct He as [He|He].
      * apply (in_cn_imp (in_slot s)); [exact Hi1 | now apply G5].
      * apply (in_cn_imp (rngp (S s) n)); [exact Hi2 | now apply F5].
    + split.
      * intros x. rewrite map_app, cnt_lvs_app, Hsp. specialize (G6 x). specialize (F6 x). lia.
      * intros e He. apply in_app_or in He. destruct He as [He|He]; [rewrite (G7 e He); lia|].
        specialize (F7 e He). lia.
Qed.

(* ---------- the invariant of a query node with its reference frontier ---------- *)
Definition AInv (Q : ctree) (Sn : list Z) (w0 : ext) (ub : list ext) (F : list ctree) : Prop :=
  seen_ok (c_p Q) Sn w0 ub /\
  (forall x, (cnt (lvs F) x <= 1)%nat) /\ (forall e, In e F -> nok e) /\
  (forall y e, In y Sn -> In e F -> In y (lp e) -> y = c_p e).

Lemma AInv_sub : forall Q Sn w0 ub F F', AInv Q Sn w0 ub F ->
  (forall x, (cnt (lvs F') x <= cnt (lvs F) x)%nat) -> (forall e, In e F' -> In e F) -> AInv Q Sn w0 ub F'.
Proof.
  intros Q Sn w0 ub F F' [H1 [H2 [H3 H4]]] Hc Hi. split; [assumption|]. split.
  - intros x. specialize (Hc x). specialize (H2 x). lia.
  - split; [intros e He; apply H3; now apply Hi|]. intros y e Hy He. apply H4; [assumption | now apply Hi].
Qed.

Definition geq (cs : nat) (e : centry) : bool := Nat.leb cs (fst e).
Definition Fst (cs : nat) (cover : list centry) (zero : list dnode) : list ctree := zn zero ++ cn (geq cs) cover.
Definition inner (F : list ctree) : Prop := forall e, In e F -> is_leaf e = false.

Lemma filter_all : forall {A} (f : A -> bool) l, (forall x, In x l -> f x = true) -> filter f l = l.
Proof.
  intros A f l. induction l as [|a l IH]; intros H; [reflexivity|]. cbn [filter].
  rewrite (H a (or_introl eq_refl)). f_equal. apply IH. intros x Hx. apply H. now right.
Qed.

Lemma rngp_geq : forall s n c, rngp s n c = true -> geq s c = true.
Proof. intros s n c H. unfold rngp in H. apply andb_true_iff in H. apply H. Qed.

(* the sets and the vector handed to a query child *)
Lemma copy_child_audit : forall Q Sn w0 ub cs cover zero chi n okk nub1 nzero ok1 nub2 ncover ok2,
  AInv Q Sn w0 ub (Fst cs cover zero) -> inner (cn (geq cs) cover) ->
  nok Q -> nok chi -> dd d (c_p Q) (c_p chi) <= c_pard chi ->
  copy_zero_set oc d au chi (setter K (eadd (ub0 ub) (c_pard chi))) zero okk = (nub1, nzero, ok1) ->
  copy_cover_sets oc d au chi nub1 cs n cover ok1 = (nub2, ncover, ok2) ->
  ok1 = okk /\ ok2 = okk /\ exists S1 S2,
    AInv chi S1 (eadd (ub0 ub) (c_pard chi)) nub1 (zn nzero) /\
    AInv chi S2 (eadd (ub0 ub) (c_pard chi)) nub2 (Fst cs ncover nzero) /\ inner (cn (geq cs) ncover).
Proof.
  intros Q Sn w0 ub cs cover zero chi n okk nub1 nzero ok1 nub2 ncover ok2 [Hs [Hc [Hn Hii]]] Hinn HQ Hchi Hpd E1 E2.
  set (w1 := eadd (ub0 ub) (c_pard chi)) in *.
  assert (Hs0 : seen_ok (c_p chi) [] w1 (setter K w1)).
  { destruct Hs as [G1 [G2 [G3 [G4 G5]]]]. split; [apply repeat_length|]. split; [apply ub_ok_setter|].
    split; [|split; [constructor | intros y []]].
    apply (w0_child Q Sn w0 ub chi G1 G2 G3 G4 G5); [| |assumption]; apply (node_ok_dom d pts dom Hpts); assumption. }
  assert (HcF : forall x, (cnt (lvs (zn zero)) x + cnt (lvs (cn (rngp cs n) cover)) x <= 1)%nat).
  { intros x. specialize (Hc x). unfold Fst in Hc. rewrite cnt_lvs_app in Hc.
    pose proof (cnt_cn_le (rngp cs n) (geq cs) cover x (rngp_geq cs n)). lia. }
  destruct (copy_zero_set_audit chi zero _ okk nub1 nzero ok1 [] w1 (lvs (cn (rngp cs n) cover)) E1 Hs0)
    as [-> [S1 [G1 [_ [G3 [G4 [G5 G6]]]]]]].
  { intros e He. apply Hn. unfold Fst. apply in_or_app. now left. }
  { exact HcF. }
  { intros y []. }
  destruct (copy_cover_sets_audit n chi cover cs nub1 okk nub2 ncover ok2 S1 w1 [] E2 G1)
    as [-> [S2 [F1 [F2 [F3 [_ [F5 [F6 F7]]]]]]]].
  { intros e He. apply Hn. unfold Fst. apply in_or_app. right. now apply (in_cn_imp (rngp cs n) (geq cs) cover e (rngp_geq cs n)). }
  { intros x. specialize (HcF x). cbn. lia. }
  { intros y Hy. split; [now apply G4 | reflexivity]. }
  split; [reflexivity|]. split; [reflexivity|]. exists S1, S2.
  assert (Hall : cn (geq cs) ncover = map nd ncover).
  { unfold cn. f_equal. apply filter_all. intros e He. unfold geq. apply Nat.leb_le. now apply F7. }
  assert (Hzsub : forall x, (cnt (lvs (zn nzero)) x <= 1)%nat).
  { intros x. specialize (G6 x). specialize (HcF x). lia. }
  assert (Hzn : forall e, In e (zn nzero) -> nok e).
  { intros e He. apply Hn. unfold Fst. apply in_or_app. left. now apply G5. }
  assert (Hpt : forall F y e0 e, (forall x, (cnt (lvs F) x <= 1)%nat) -> (forall e', In e' F -> nok e') ->
                 In e0 F -> y = c_p e0 -> In e F -> In y (lp e) -> y = c_p e).
  { intros F y e0 e HF HnF He0 -> He Hy. destruct (nok_point_in e0 (HnF e0 He0)) as [Hp _].
    now rewrite (cnt_unique F e0 e (c_p e0) (HF (c_p e0)) He0 He Hp Hy). }
  split; [|split].
  - split; [assumption|]. split; [assumption|]. split; [assumption|].
    intros y e Hy He Hye. destruct (G3 y Hy) as [[]|[e0 [He0 Hy0]]].
    apply (Hpt (zn nzero) y e0 e); assumption.
  - assert (HF : forall x, (cnt (lvs (Fst cs ncover nzero)) x <= 1)%nat).
    { intros x. unfold Fst. rewrite cnt_lvs_app, Hall. specialize (G6 x). specialize (F6 x). specialize (HcF x). lia. }
    assert (HnF : forall e, In e (Fst cs ncover nzero) -> nok e).
    { intros e He. unfold Fst in He. apply in_app_or in He. destruct He as [He|He]; [now apply Hzn|].
      rewrite Hall in He. apply Hn. unfold Fst. apply in_or_app. right.
      apply (in_cn_imp (rngp cs n) (geq cs) cover e (rngp_geq cs n)). now apply F5. }
    split; [assumption|]. split; [assumption|]. split; [assumption|].
    intros y e Hy He Hye. destruct (F3 y Hy) as [Hy1|[e0 [He0 Hy0]]].
    + destruct (G3 y Hy1) as [[]|[e0 [He0 Hy0]]].
      apply (Hpt (Fst cs ncover nzero) y e0 e); try assumption. unfold Fst. apply in_or_app. now left.
    + apply (Hpt (Fst cs ncover nzero) y e0 e); try assumption. unfold Fst. apply in_or_app. right. now rewrite Hall.
  - intros e He. rewrite Hall in He. apply Hinn.
    apply (in_cn_imp (rngp cs n) (geq cs) cover e (rngp_geq cs n)). now apply F5.
Qed.

(* ---------- descend ---------- *)
Definition gt (cs : nat) (e : centry) : bool := Nat.ltb cs (fst e).
Definition FD (cs : nat) (zero : list dnode) (cover rest : list centry) : list ctree :=
  zn zero ++ cn (gt cs) cover ++ map nd rest.

Lemma cnt_FD : forall cs zero cover rest x,
  cnt (lvs (FD cs zero cover rest)) x =
  (cnt (lvs (zn zero)) x + cnt (lvs (cn (gt cs) cover)) x + cnt (lvs (map nd rest)) x)%nat.
Proof. intros. unfold FD. rewrite !cnt_lvs_app. lia. Qed.

Lemma in_FD : forall cs zero cover rest e,
  In e (FD cs zero cover rest) <-> In e (zn zero) \/ In e (cn (gt cs) cover) \/ In e (map nd rest).
Proof. intros. unfold FD. rewrite !in_app_iff. tauto. Qed.

Lemma zn_app1 : forall zero e, zn (zero ++ [e]) = zn zero ++ [snd e].
Proof. intros. unfold zn. now rewrite map_app. Qed.

Lemma cn_app1 : forall p cover e, cn p (cover ++ [e]) = cn p cover ++ (if p e then [nd e] else []).
Proof. intros. unfold cn. rewrite filter_app, map_app. cbn [filter]. destruct (p e); reflexivity. Qed.

Lemma lvs_one : forall e x, cnt (lvs [e]) x = cnt (lp e) x.
Proof. intros. unfold lvs. cbn [flat_map]. now rewrite app_nil_r. Qed.

(* the state during descend: rest = parents still to be expanded, pend = non-first children of the current parent
   still to be looked at (their subtrees contain no point seen so far) *)
Definition DInv (Q : ctree) (cs : nat) (Sn : list Z) (w0 : ext) (st : dstate) (rest : list centry)
                (pend : list ctree) : Prop :=
  seen_ok (c_p Q) Sn w0 (ds_ub st) /\
  (forall x, (cnt (lvs (FD cs (ds_zero st) (ds_cover st) rest)) x + cnt (lvs pend) x <= 1)%nat) /\
  (forall e, In e (FD cs (ds_zero st) (ds_cover st) rest) \/ In e pend -> nok e) /\
  (forall y e, In y Sn -> In e (FD cs (ds_zero st) (ds_cover st) rest) -> In y (lp e) -> y = c_p e) /\
  (forall y c, In y Sn -> In c pend -> ~ In y (lp c)) /\
  inner (cn (gt cs) (ds_cover st) ++ map nd rest).

Lemma descend_child_shape : forall Q pdist chi st,
  ds_ok (descend_child d au Q pdist chi st) = ds_ok st && au false Q (ds_ub st) /\
  (ds_ub (descend_child d au Q pdist chi st) = ds_ub st \/
   ds_ub (descend_child d au Q pdist chi st) =
     (if lt_e (dd d (c_p Q) (c_p chi)) (ub0 (ds_ub st)) then ub_update (ds_ub st) (dd d (c_p Q) (c_p chi))
      else ds_ub st)) /\
  ((ds_zero (descend_child d au Q pdist chi st) = ds_zero st /\
    ds_cover (descend_child d au Q pdist chi st) = ds_cover st) \/
   (ds_zero (descend_child d au Q pdist chi st) = ds_zero st ++ [(dd d (c_p Q) (c_p chi), chi)] /\
    ds_cover (descend_child d au Q pdist chi st) = ds_cover st /\ is_leaf chi = true) \/
   (ds_zero (descend_child d au Q pdist chi st) = ds_zero st /\
    ds_cover (descend_child d au Q pdist chi st) =
      ds_cover st ++ [(c_scale chi, (dd d (c_p Q) (c_p chi), chi))] /\ is_leaf chi = false)).
Proof.
  intros Q pdist chi st. unfold descend_child.
  destruct (shell pdist (c_pard chi) _); [|cbn [ds_ok ds_ub ds_zero ds_cover]; auto].
  destruct (le_e (dd d (c_p Q) (c_p chi)) _); [|cbn [ds_ok ds_ub ds_zero ds_cover]; auto].
  destruct (is_leaf chi) eqn:Hl; cbn [negb].
  - destruct (le_e (dd d (c_p Q) (c_p chi)) _); cbn [ds_ok ds_ub ds_zero ds_cover].
    + split; [reflexivity|]. split; [now right|]. right. left. auto.
    + split; [reflexivity|]. split; [now right|]. left. auto.
  - cbn [ds_ok ds_ub ds_zero ds_cover]. split; [reflexivity|]. split; [now right|]. right. right. auto.
Qed.

Lemma seen_skip : forall q Sn w0 ub y, seen_ok q Sn w0 ub -> ~ In y Sn -> In y pts -> seen_ok q (y :: Sn) w0 ub.
Proof.
  intros q Sn w0 ub y [H1 [H2 [H3 [H4 H5]]]] Hy Hp. split; [assumption|]. split; [now apply ub_ok_mono|].
  split; [assumption|]. split; [now constructor|]. intros z [<-|Hz]; [assumption | now apply H5].
Qed.

Lemma descend_child_audit : forall Q cs Sn w0 st rest chi pend pdist,
  DInv Q cs Sn w0 st rest (chi :: pend) ->
  ds_ok (descend_child d au Q pdist chi st) = ds_ok st /\
  exists S', incl Sn S' /\ DInv Q cs S' w0 (descend_child d au Q pdist chi st) rest pend.
Proof.
  intros Q cs Sn w0 st rest chi pend pdist [Hs [Hc [Hn [Hii [Hfr Hinn]]]]].
  destruct (descend_child_shape Q pdist chi st) as [Hok [Hub Hsets]].
  set (st' := descend_child d au Q pdist chi st) in *.
  set (dq := dd d (c_p Q) (c_p chi)) in *.
  rewrite (seen_valid false Q Sn w0 (ds_ub st) Hs), andb_true_r in Hok. split; [assumption|].
  assert (Hchi : nok chi) by (apply Hn; right; now left).
  destruct (nok_point_in chi Hchi) as [Hpin Hppts].
  assert (Hfresh : ~ In (c_p chi) Sn) by (intros Hy; apply (Hfr (c_p chi) chi Hy (or_introl eq_refl) Hpin)).
  exists (c_p chi :: Sn). split; [intros y Hy; now right|].
  (* what the frontier became *)
  assert (Hcnt : forall x, (cnt (lvs (FD cs (ds_zero st') (ds_cover st') rest)) x <=
                            cnt (lvs (FD cs (ds_zero st) (ds_cover st) rest)) x + cnt (lp chi) x)%nat).
  { intros x. rewrite !cnt_FD. destruct Hsets as [[-> ->]|[[-> [-> _]]|[-> [-> _]]]].
    - lia.
    - rewrite zn_app1, cnt_lvs_app, lvs_one. cbn [snd]. lia.
    - rewrite cn_app1, cnt_lvs_app. destruct (gt cs _); [rewrite lvs_one; unfold nd; cbn [snd]; lia | cbn; lia]. }
  assert (Hmem : forall e, In e (FD cs (ds_zero st') (ds_cover st') rest) ->
                           In e (FD cs (ds_zero st) (ds_cover st) rest) \/ e = chi).
  { intros e He. apply in_FD in He. rewrite in_FD. destruct Hsets as [[Ez Ec]|[[Ez [Ec _]]|[Ez [Ec _]]]];
      rewrite Ez, Ec in He.
    - now left.
    - rewrite zn_app1, in_app_iff in He. cbn [snd In] in He. intuition (subst; auto).
    - rewrite cn_app1, in_app_iff in He. destruct (gt cs _); cbn [In nd snd] in He; intuition (subst; auto). }
  split.
  { destruct Hub as [->| ->]; [now apply seen_skip | now apply seen_feed]. }
  split.
  { intros x. specialize (Hc x). specialize (Hcnt x). rewrite cnt_lvs_cons in Hc. lia. }
  split.
  { intros e [He|He]; [destruct (Hmem e He) as [H| ->]; [apply Hn; now left | assumption] | apply Hn; right; now right]. }
  split.
  { intros y e [<-|Hy] He Hye.
    - destruct (Hmem e He) as [H| ->]; [|reflexivity]. exfalso.
      pose proof (cnt_lvs_in _ e (c_p chi) H Hye) as H1. apply cnt_pos in Hpin.
      specialize (Hc (c_p chi)). rewrite cnt_lvs_cons in Hc. lia.
    - destruct (Hmem e He) as [H| ->]; [now apply Hii|]. exfalso. apply (Hfr y chi Hy (or_introl eq_refl) Hye). }
  split.
  { intros y c [<-|Hy] Hcp Hyc.
    - apply cnt_pos in Hpin. pose proof (cnt_lvs_in pend c (c_p chi) Hcp Hyc) as H1.
      specialize (Hc (c_p chi)). rewrite cnt_lvs_cons in Hc. lia.
    - apply (Hfr y c Hy (or_intror Hcp) Hyc). }
  intros e He. apply in_app_or in He. destruct He as [He|He]; [|apply Hinn; apply in_or_app; now right].
  destruct Hsets as [[_ Ec]|[[_ [Ec _]]|[_ [Ec Hl]]]]; rewrite Ec in He.
  - apply Hinn. apply in_or_app. now left.
  - apply Hinn. apply in_or_app. now left.
  - rewrite cn_app1, in_app_iff in He. destruct He as [He|He]; [apply Hinn; apply in_or_app; now left|].
    destruct (gt cs _); cbn [In nd snd] in He; [destruct He as [<-|[]]; assumption | destruct He].
Qed.

Lemma descend_children_audit : forall Q cs pdist rest chs Sn w0 st,
  DInv Q cs Sn w0 st rest chs ->
  ds_ok (descend_children d au Q pdist chs st) = ds_ok st /\
  exists S', incl Sn S' /\ DInv Q cs S' w0 (descend_children d au Q pdist chs st) rest [].
Proof.
  intros Q cs pdist rest chs. induction chs as [|chi chs IH]; intros Sn w0 st H.
  - cbn [descend_children]. split; [reflexivity|]. exists Sn. split; [apply incl_refl | assumption].
  - cbn [descend_children]. destruct (descend_child_audit Q cs Sn w0 st rest chi chs pdist H) as [Hok [S1 [Hi H1]]].
    destruct (IH S1 w0 _ H1) as [Hok2 [S2 [Hi2 H2]]]. split; [congruence|].
    exists S2. split; [eapply incl_tran; eassumption | assumption].
Qed.

Lemma descend_first_shape : forall Q pdist ud chi st ok1,
  ds_ok (descend_first Q pdist ud chi st ok1) = ok1 /\
  ds_ub (descend_first Q pdist ud chi st ok1) = ds_ub st /\
  ((ds_zero (descend_first Q pdist ud chi st ok1) = ds_zero st /\
    ds_cover (descend_first Q pdist ud chi st ok1) = ds_cover st) \/
   (ds_zero (descend_first Q pdist ud chi st ok1) = ds_zero st ++ [(pdist, chi)] /\
    ds_cover (descend_first Q pdist ud chi st ok1) = ds_cover st /\ is_leaf chi = true) \/
   (ds_zero (descend_first Q pdist ud chi st ok1) = ds_zero st /\
    ds_cover (descend_first Q pdist ud chi st ok1) = ds_cover st ++ [(c_scale chi, (pdist, chi))] /\
    is_leaf chi = false)).
Proof.
  intros Q pdist ud chi st ok1. unfold descend_first.
  destruct (le_e pdist (eadd ud (c_maxd chi))); [|cbn [ds_ok ds_ub ds_zero ds_cover]; auto].
  destruct (is_leaf chi) eqn:Hl; cbn [negb].
  - destruct (le_e pdist ud); cbn [ds_ok ds_ub ds_zero ds_cover].
    + split; [reflexivity|]. split; [reflexivity|]. right. left. auto.
    + split; [reflexivity|]. split; [reflexivity|]. left. auto.
  - cbn [ds_ok ds_ub ds_zero ds_cover]. split; [reflexivity|]. split; [reflexivity|]. right. right. auto.
Qed.

Lemma cnt_lvs_map_cons : forall (e : centry) rest x,
  cnt (lvs (map nd (e :: rest))) x = (cnt (lp (nd e)) x + cnt (lvs (map nd rest)) x)%nat.
Proof. intros. cbn [map]. apply cnt_lvs_cons. Qed.

Lemma descend_parent_audit : forall Q cs Sn w0 st s pdist par rest,
  DInv Q cs Sn w0 st ((s, (pdist, par)) :: rest) [] ->
  ds_ok (descend_parent d au Q pdist par st) = ds_ok st /\
  exists S', incl Sn S' /\ DInv Q cs S' w0 (descend_parent d au Q pdist par st) rest [].
Proof.
  intros Q cs Sn w0 st s pdist par rest [Hs [Hc [Hn [Hii [Hfr Hinn]]]]].
  assert (Hau : au false Q (ds_ub st) = true) by (apply (seen_valid false Q Sn w0 _ Hs)).
  assert (Hpar : In par (FD cs (ds_zero st) (ds_cover st) ((s, (pdist, par)) :: rest))).
  { apply in_FD. right. right. now left. }
  assert (Hnpar : nok par) by (apply Hn; now left).
  assert (Hlf : is_leaf par = false) by (apply Hinn; apply in_or_app; right; now left).
  assert (Hsub : forall x, (cnt (lvs (FD cs (ds_zero st) (ds_cover st) rest)) x + cnt (lp par) x =
                            cnt (lvs (FD cs (ds_zero st) (ds_cover st) ((s, (pdist, par)) :: rest))) x)%nat).
  { intros x. rewrite !cnt_FD, cnt_lvs_map_cons. change (nd (s, (pdist, par))) with par. lia. }
  assert (Hmem : forall e, In e (FD cs (ds_zero st) (ds_cover st) rest) ->
                           In e (FD cs (ds_zero st) (ds_cover st) ((s, (pdist, par)) :: rest))).
  { intros e He. apply in_FD in He. apply in_FD. cbn [map In]. tauto. }
  unfold descend_parent. rewrite Hau, andb_true_r.
  destruct (le_e pdist _).
  - (* the parent is expanded *)
    destruct par as [p m pd sc ch]. unfold is_leaf in Hlf. cbn [c_ch] in *. destruct ch as [|c0 others]; [discriminate|].
    destruct (inv_children d _ _ _ _ _ _ (proj1 Hnpar)) as [Hp0 Hch].
    assert (Hnch : forall c, In c (c0 :: others) -> nok c).
    { intros c Hcin. apply (node_ok_child d pts (CN p m pd sc (c0 :: others)) c Hnpar). exact Hcin. }
    set (ud := eadd (eadd (ub0 (ds_ub st)) (c_maxd Q)) (c_maxd Q)).
    destruct (descend_first_shape Q pdist ud c0 st (ds_ok st)) as [Hok1 [Hub1 Hsets]].
    set (st1 := descend_first Q pdist ud c0 st (ds_ok st)) in *.
    assert (Hlp : forall x, cnt (lp (CN p m pd sc (c0 :: others))) x = (cnt (lp c0) x + cnt (lvs others) x)%nat).
    { intros x. rewrite lp_inner. change (flat_map lp (c0 :: others)) with (lvs (c0 :: others)). apply cnt_lvs_cons. }
    assert (Hcnt1 : forall x, (cnt (lvs (FD cs (ds_zero st1) (ds_cover st1) rest)) x <=
                               cnt (lvs (FD cs (ds_zero st) (ds_cover st) rest)) x + cnt (lp c0) x)%nat).
    { intros x. rewrite !cnt_FD. destruct Hsets as [[-> ->]|[[-> [-> _]]|[-> [-> _]]]].
      - lia.
      - rewrite zn_app1, cnt_lvs_app, lvs_one. cbn [snd]. lia.
      - rewrite cn_app1, cnt_lvs_app. destruct (gt cs _); [rewrite lvs_one; unfold nd; cbn [snd]; lia | cbn; lia]. }
    assert (Hmem1 : forall e, In e (FD cs (ds_zero st1) (ds_cover st1) rest) ->
                              In e (FD cs (ds_zero st) (ds_cover st) rest) \/ e = c0).
    { intros e He. apply in_FD in He. rewrite in_FD. destruct Hsets as [[Ez Ec]|[[Ez [Ec _]]|[Ez [Ec _]]]];
        rewrite Ez, Ec in He.
      - now left.
      - rewrite zn_app1, in_app_iff in He. cbn [snd In] in He. intuition (subst; auto).
      - rewrite cn_app1, in_app_iff in He. destruct (gt cs _); cbn [In nd snd] in He; intuition (subst; auto). }
    assert (Hlpin : forall c y, In c (c0 :: others) -> In y (lp c) -> In y (lp (CN p m pd sc (c0 :: others)))).
    { intros c y Hcin Hy. apply (lp_child (CN p m pd sc (c0 :: others)) c y); assumption. }
    assert (H1 : DInv Q cs Sn w0 st1 rest others).
    { split; [now rewrite Hub1|]. split.
      { intros x. specialize (Hc x). specialize (Hcnt1 x). specialize (Hsub x). specialize (Hlp x). cbn in Hc. lia. }
      split.
      { intros e [He|He].
        - destruct (Hmem1 e He) as [H| ->]; [apply Hn; left; now apply Hmem | apply Hnch; now left].
        - apply Hnch. now right. }
      split.
      { intros y e Hy He Hye. destruct (Hmem1 e He) as [H| ->]; [apply Hii; [assumption | now apply Hmem | assumption]|].
        rewrite Hp0. apply (Hii y (CN p m pd sc (c0 :: others)) Hy Hpar). apply (Hlpin c0); [now left | assumption]. }
      split.
      { intros y c Hy Hcin Hyc.
        assert (Hyp : y = p).
        { apply (Hii y (CN p m pd sc (c0 :: others)) Hy Hpar). apply (Hlpin c); [now right | assumption]. }
        subst y. destruct (nok_point_in c0 (Hnch c0 (or_introl eq_refl))) as [Hp0in _]. rewrite Hp0 in Hp0in.
        apply cnt_pos in Hp0in. pose proof (cnt_lvs_in others c p Hcin Hyc) as H2.
        specialize (Hc p). specialize (Hsub p). specialize (Hlp p). cbn in Hc. lia. }
      intros e He. apply in_app_or in He. destruct He as [He|He]; [|apply Hinn; apply in_or_app; right; now right].
      destruct Hsets as [[_ Ec]|[[_ [Ec _]]|[_ [Ec Hl]]]]; rewrite Ec in He.
      - apply Hinn. apply in_or_app. now left.
      - apply Hinn. apply in_or_app. now left.
      - rewrite cn_app1, in_app_iff in He. destruct He as [He|He]; [apply Hinn; apply in_or_app; now left|].
        destruct (gt cs _); cbn [In nd snd] in He; [destruct He as [<-|[]]; assumption | destruct He]. }
    destruct (descend_children_audit Q cs pdist rest others Sn w0 st1 H1) as [Hok2 [S' [Hi H2]]].
    split; [congruence|]. exists S'. split; assumption.
  - (* the parent is pruned *)
    cbn [ds_ok]. split; [reflexivity|]. exists Sn. split; [apply incl_refl|].
    split; [exact Hs|]. cbn [ds_zero ds_cover ds_ub]. split.
    { intros x. specialize (Hc x). specialize (Hsub x). lia. }
    split; [intros e [He|[]]; apply Hn; left; now apply Hmem|].
    split; [intros y e Hy He; apply Hii; [assumption | now apply Hmem]|].
    split; [intros y c _ []|].
    intros e He. apply Hinn. apply in_app_or in He. apply in_or_app. cbn [map In]. tauto.
Qed.

Lemma descend_loop_audit : forall Q cs parents Sn w0 st,
  DInv Q cs Sn w0 st parents [] ->
  ds_ok (descend_loop d au Q parents st) = ds_ok st /\
  exists S', incl Sn S' /\ DInv Q cs S' w0 (descend_loop d au Q parents st) [] [].
Proof.
  intros Q cs parents. induction parents as [|[s [pdist par]] rest IH]; intros Sn w0 st H.
  - cbn [descend_loop]. split; [reflexivity|]. exists Sn. split; [apply incl_refl | assumption].
  - cbn [descend_loop]. destruct (descend_parent_audit Q cs Sn w0 st s pdist par rest H) as [Hok [S1 [Hi H1]]].
    destruct (IH S1 w0 _ H1) as [Hok2 [S2 [Hi2 H2]]]. split; [congruence|].
    exists S2. split; [eapply incl_tran; eassumption | assumption].
Qed.

Lemma geq_split : forall cs e, geq cs e = in_slot cs e || gt cs e.
Proof.
  intros cs e. unfold geq, in_slot, slot_of, gt.
  destruct (Nat.leb_spec cs (fst e)); destruct (Nat.eqb_spec (fst e) cs); destruct (Nat.ltb_spec cs (fst e));
    cbn; try reflexivity; lia.
Qed.

Lemma slot_gt_disj : forall cs e, in_slot cs e && gt cs e = false.
Proof.
  intros cs e. unfold in_slot, slot_of, gt.
  destruct (Nat.eqb_spec (fst e) cs); destruct (Nat.ltb_spec cs (fst e)); cbn; try reflexivity; lia.
Qed.

Lemma cnt_cn_filter_le : forall (p f : centry -> bool) l x,
  (cnt (lvs (cn p (filter f l))) x <= cnt (lvs (cn p l)) x)%nat.
Proof.
  intros p f l x. induction l as [|e l IH]; [cbn; lia|]. cbn [filter]. destruct (f e).
  - rewrite !cn_cons. destruct (p e); rewrite ?cnt_lvs_cons; lia.
  - rewrite cn_cons. destruct (p e); rewrite ?cnt_lvs_cons; lia.
Qed.

Lemma in_cn_filter : forall (p f : centry -> bool) l e, In e (cn p (filter f l)) -> In e (cn p l).
Proof.
  intros p f l e He. unfold cn in *. apply in_map_iff in He. destruct He as [c [<- Hc]]. apply in_map.
  apply filter_In in Hc. destruct Hc as [Hc Hp]. apply filter_In in Hc. apply filter_In. split; [apply Hc | assumption].
Qed.

Lemma descend_audit : forall Q cs Sn w0 ub ms cover zero ok,
  AInv Q Sn w0 ub (Fst cs cover zero) -> inner (cn (geq cs) cover) ->
  ds_ok (descend d au Q cs (DS ub ms cover zero ok)) = ok /\
  exists S', AInv Q S' w0 (ds_ub (descend d au Q cs (DS ub ms cover zero ok)))
                  (Fst (S cs) (ds_cover (descend d au Q cs (DS ub ms cover zero ok)))
                              (ds_zero (descend d au Q cs (DS ub ms cover zero ok)))) /\
             inner (cn (geq (S cs)) (ds_cover (descend d au Q cs (DS ub ms cover zero ok)))).
Proof.
  intros Q cs Sn w0 ub ms cover zero ok [Hs [Hc [Hn Hii]]] Hinn.
  unfold descend. cbn [ds_cover]. set (parents := filter (in_slot cs) cover).
  assert (Hpar : map nd parents = cn (in_slot cs) cover) by reflexivity.
  assert (Hsp : forall x, cnt (lvs (cn (geq cs) cover)) x =
                  (cnt (lvs (cn (in_slot cs) cover)) x + cnt (lvs (cn (gt cs) cover)) x)%nat).
  { intros x. apply cnt_cn_split; [apply geq_split | apply slot_gt_disj]. }
  assert (Hi1 : forall c, in_slot cs c = true -> geq cs c = true) by (intros c H; rewrite geq_split, H; reflexivity).
  assert (Hi2 : forall c, gt cs c = true -> geq cs c = true) by (intros c H; rewrite geq_split, H; apply orb_true_r).
  assert (Hmem0 : forall e, In e (FD cs zero cover parents) -> In e (Fst cs cover zero)).
  { intros e He. apply in_FD in He. unfold Fst. apply in_or_app. destruct He as [He|[He|He]]; [now left | |].
    - right. now apply (in_cn_imp (gt cs) (geq cs)).
    - right. rewrite Hpar in He. now apply (in_cn_imp (in_slot cs) (geq cs)). }
  assert (H0 : DInv Q cs Sn w0 (DS ub ms cover zero ok) parents []).
  { split; [exact Hs|]. cbn [ds_zero ds_cover ds_ub]. split.
    { intros x. specialize (Hc x). unfold Fst in Hc. rewrite cnt_lvs_app, Hsp in Hc. rewrite cnt_FD, Hpar. cbn. lia. }
    split; [intros e [He|[]]; apply Hn; now apply Hmem0|].
    split; [intros y e Hy He; apply Hii; [assumption | now apply Hmem0]|].
    split; [intros y c _ []|].
    intros e He. apply Hinn. apply in_app_or in He. destruct He as [He|He].
    - now apply (in_cn_imp (gt cs) (geq cs)).
    - rewrite Hpar in He. now apply (in_cn_imp (in_slot cs) (geq cs)). }
  destruct (descend_loop_audit Q cs parents Sn w0 _ H0) as [Hok [S' [_ [Hs1 [Hc1 [Hn1 [Hii1 [_ Hinn1]]]]]]]].
  set (st1 := descend_loop d au Q parents (DS ub ms cover zero ok)) in *.
  cbn [ds_ok ds_ub ds_zero ds_cover]. split; [exact Hok|]. exists S'.
  assert (Heq : forall e, geq (S cs) e = gt cs e) by reflexivity.
  assert (Hcn : cn (geq (S cs)) (filter (fun e => negb (in_slot cs e)) (ds_cover st1)) =
                cn (gt cs) (filter (fun e => negb (in_slot cs e)) (ds_cover st1))) by reflexivity.
  assert (Hmem2 : forall e, In e (Fst (S cs) (filter (fun e0 => negb (in_slot cs e0)) (ds_cover st1)) (ds_zero st1)) ->
                            In e (FD cs (ds_zero st1) (ds_cover st1) [])).
  { intros e He. unfold Fst in He. apply in_app_or in He. apply in_FD. destruct He as [He|He]; [now left|].
    right. left. rewrite Hcn in He. now apply in_cn_filter in He. }
  split.
  - split; [exact Hs1|]. split.
    { intros x. specialize (Hc1 x). rewrite cnt_FD in Hc1. unfold Fst. rewrite cnt_lvs_app, Hcn.
      pose proof (cnt_cn_filter_le (gt cs) (fun e => negb (in_slot cs e)) (ds_cover st1) x). cbn in Hc1. lia. }
    split; [intros e He; apply Hn1; left; now apply Hmem2|].
    intros y e Hy He. apply Hii1; [assumption | now apply Hmem2].
  - intros e He. rewrite Hcn in He. apply in_cn_filter in He. apply Hinn1. apply in_or_app. now left.
Qed.

(* ---------- the recursion over the query tree ---------- *)
Lemma AInv_point : forall Q Q' Sn w0 ub F, c_p Q' = c_p Q -> AInv Q Sn w0 ub F -> AInv Q' Sn w0 ub F.
Proof. intros Q Q' Sn w0 ub F E [H1 H2]. split; [now rewrite E | assumption]. Qed.

(* the rows: duplicate-free lists of samples *)
Definition shape (rows : list row) : Prop := forall q cands, In (q, cands) rows -> NoDup cands /\ incl cands pts.

Lemma shape_app : forall r1 r2, shape r1 -> shape r2 -> shape (r1 ++ r2).
Proof. intros r1 r2 H1 H2 q c Hin. apply in_app_or in Hin. destruct Hin as [H|H]; [exact (H1 q c H) | exact (H2 q c H)]. Qed.

Lemma shape_nil : shape [].
Proof. intros q c []. Qed.

Lemma zero_points : forall zero (f : dnode -> bool),
  (forall x, (cnt (lvs (zn zero)) x <= 1)%nat) -> (forall e, In e (zn zero) -> nok e) ->
  NoDup (map (fun e => c_p (snd e)) (filter f zero)) /\ incl (map (fun e => c_p (snd e)) (filter f zero)) pts /\
  forall y, In y (map (fun e => c_p (snd e)) (filter f zero)) -> In y (lvs (zn zero)).
Proof.
  intros zero f. induction zero as [|e rest IH]; intros Hc Hn.
  - cbn. split; [constructor|]. split; intros y [].
  - assert (Hc' : forall x, (cnt (lvs (zn rest)) x <= 1)%nat).
    { intros x. specialize (Hc x). unfold zn in *. cbn [map] in Hc. rewrite cnt_lvs_cons in Hc. lia. }
    assert (Hn' : forall e0, In e0 (zn rest) -> nok e0) by (intros e0 He0; apply Hn; now right).
    destruct (IH Hc' Hn') as [H1 [H2 H3]].
    assert (Hstep : forall y, In y (map (fun e0 => c_p (snd e0)) (filter f rest)) -> In y (lvs (zn (e :: rest)))).
    { intros y Hy. unfold zn. cbn [map]. rewrite lvs_cons. apply in_or_app. right. now apply H3. }
    cbn [filter]. destruct (f e); [|split; [assumption | split; assumption]].
    assert (He : nok (snd e)) by (apply Hn; now left).
    destruct (nok_point_in (snd e) He) as [Hpin Hppts].
    cbn [map]. split; [|split].
    + constructor; [|assumption]. intros Hy. apply H3 in Hy. apply cnt_pos in Hy. apply cnt_pos in Hpin.
      specialize (Hc (c_p (snd e))). unfold zn in Hc. cbn [map] in Hc. rewrite cnt_lvs_cons in Hc. unfold zn in Hy. lia.
    + intros y [<-|Hy]; [assumption | now apply H2].
    + intros y [<-|Hy]; [|now apply Hstep]. unfold zn. cbn [map]. rewrite lvs_cons. apply in_or_app. now left.
Qed.

Definition bn_t := ctree -> list dnode -> list ext -> bool -> list row * bool.
Definition bn_aud (bn : bn_t) (chi : ctree) : Prop :=
  forall z u o Sn w0 rows ok', bn chi z u o = (rows, ok') -> AInv chi Sn w0 u (zn z) -> ok' = o /\ shape rows.

Lemma bn_others_audit : forall (bn : bn_t) Q Sn w0 ub zero l,
  (forall chi, In chi l -> bn_aud bn chi) ->
  AInv Q Sn w0 ub (zn zero) -> nok Q ->
  (forall chi, In chi l -> nok chi /\ dd d (c_p Q) (c_p chi) <= c_pard chi) ->
  forall acc okk rows ok', bn_others oc d K au bn ub zero l acc okk = (rows, ok') -> shape acc ->
  ok' = okk /\ shape rows.
Proof.
  intros bn Q Sn w0 ub zero l. induction l as [|chi l IH]; intros Hbn HA HQ Hl acc okk rows ok' E Hacc.
  - cbn in E. injection E as <- <-. now split.
  - change (bn_others oc d K au bn ub zero (chi :: l) acc okk) with
      (let nub := setter K (eadd (ub0 ub) (c_pard chi)) in
       let '(nub1, nzero, ok1) := copy_zero_set oc d au chi nub zero okk in
       let '(rows1, ok2) := bn chi nzero nub1 ok1 in
       bn_others oc d K au bn ub zero l (acc ++ rows1) ok2) in E.
    cbv zeta in E.
    destruct (copy_zero_set oc d au chi _ zero okk) as [[nub1 nzero] ok1] eqn:E1.
    destruct (bn chi nzero nub1 ok1) as [rows1 ok2] eqn:E2.
    destruct (Hl chi (or_introl eq_refl)) as [Hchi Hpd].
    assert (HA' : AInv Q Sn w0 ub (Fst 0 [] zero)).
    { apply (AInv_sub Q Sn w0 ub (zn zero)); [assumption | |]; unfold Fst, cn; cbn [filter map]; rewrite app_nil_r;
        [intros x; lia | auto]. }
    destruct (copy_child_audit Q Sn w0 ub 0 [] zero chi 0 okk nub1 nzero ok1 nub1 [] ok1 HA' ltac:(intros e []) HQ Hchi Hpd
                E1 eq_refl) as [-> [_ [S1 [_ [H1 _]]]]].
    destruct (Hbn chi (or_introl eq_refl) _ _ _ _ _ _ _ E2 H1) as [-> Hsh1].
    apply (IH (fun c Hc => Hbn c (or_intror Hc)) HA HQ (fun c Hc => Hl c (or_intror Hc)) _ _ _ _ E).
    now apply shape_app.
Qed.

Lemma size_child_le_a : forall chi l, In chi l -> (size chi <= fold_right (fun c a => (size c + a)%nat) O l)%nat.
Proof.
  intros chi l. induction l as [|a l IHl]; intros Hin; [destruct Hin|]. cbn [fold_right].
  destruct Hin as [->|Hin]; [lia | specialize (IHl Hin); lia].
Qed.

Lemma children_facts : forall p m pd sc c0 rest, nok (CN p m pd sc (c0 :: rest)) ->
  c_p c0 = p /\ forall c, In c (c0 :: rest) -> nok c /\ dd d p (c_p c) <= c_pard c.
Proof.
  intros p m pd sc c0 rest HQ. destruct (inv_children d _ _ _ _ _ _ (proj1 HQ)) as [Hp Hch]. split; [assumption|].
  intros c Hc. split; [apply (node_ok_child d pts (CN p m pd sc (c0 :: rest)) c HQ Hc) | apply (Hch c Hc)].
Qed.

Lemma brute_nearest_audit : forall n Q, (size Q <= n)%nat -> nok Q -> bn_aud (brute_nearest oc d K au) Q.
Proof.
  induction n as [|n IH]; intros Q Hsz HQ; [destruct Q; cbn [size] in Hsz; lia|].
  intros zero ub ok Sn w0 rows ok' E HA. destruct Q as [p m pd sc ch]. destruct ch as [|c0 rest].
  - cbn [brute_nearest] in E. injection E as <- <-. destruct HA as [Hs [Hc [Hn _]]]. split.
    + rewrite (seen_valid false _ Sn w0 ub Hs). apply andb_true_r.
    + intros q cands [Hin|[]]. unfold final_row in Hin. injection Hin as _ <-.
      destruct (zero_points zero (fun e => le_e (fst e) (ub0 ub)) Hc Hn) as [H1 [H2 _]]. now split.
  - cbn [brute_nearest] in E. cbn [size fold_right] in Hsz.
    destruct (brute_nearest oc d K au c0 zero ub ok) as [rows0 ok0] eqn:E0.
    destruct (children_facts p m pd sc c0 rest HQ) as [Hp0 Hch].
    assert (H0 : ok0 = ok /\ shape rows0).
    { apply (IH c0 ltac:(lia) (proj1 (Hch c0 (or_introl eq_refl))) zero ub ok Sn w0 rows0 ok0 E0).
      apply (AInv_point (CN p m pd sc (c0 :: rest))); [exact Hp0 | assumption]. }
    destruct H0 as [-> Hsh0].
    apply (bn_others_audit (fun c z u o => brute_nearest oc d K au c z u o) (CN p m pd sc (c0 :: rest)) Sn w0 ub zero rest)
      with (acc := rows0); try assumption.
    + intros chi Hc. apply IH; [pose proof (size_child_le_a chi rest Hc); lia | apply (Hch chi); now right].
    + intros chi Hc. apply (Hch chi). now right.
Qed.

Definition rec_ta := ctree -> list centry -> list dnode -> nat -> nat -> list ext -> bool -> option (list row * bool).
Definition rec_aud (rec : rec_ta) (chi : ctree) : Prop :=
  forall cv z cs ms u o Sn w0 rows ok', rec chi cv z cs ms u o = Some (rows, ok') ->
    AInv chi Sn w0 u (Fst cs cv z) -> inner (cn (geq cs) cv) -> ok' = o /\ shape rows.

Lemma ib_loop_audit : forall (rec : rec_ta) Q Sn w0 ub cover zero cs ms l,
  (forall chi, In chi l -> rec_aud rec chi) ->
  AInv Q Sn w0 ub (Fst cs cover zero) -> inner (cn (geq cs) cover) -> nok Q ->
  (forall chi, In chi l -> nok chi /\ dd d (c_p Q) (c_p chi) <= c_pard chi) ->
  forall acc okk rows ok', ib_loop oc d K au rec ub cover zero cs ms l acc okk = Some (rows, ok') -> shape acc ->
  ok' = okk /\ shape rows.
Proof.
  intros rec Q Sn w0 ub cover zero cs ms l. induction l as [|chi l IH]; intros Hrec HA Hinn HQ Hl acc okk rows ok' E Hacc.
  - cbn in E. injection E as <- <-. now split.
  - change (ib_loop oc d K au rec ub cover zero cs ms (chi :: l) acc okk) with
      (let nub := setter K (eadd (ub0 ub) (c_pard chi)) in
       let '(nub1, nzero, ok1) := copy_zero_set oc d au chi nub zero okk in
       let '(nub2, ncover, ok2) := copy_cover_sets oc d au chi nub1 cs (S ms - cs) cover ok1 in
       match rec chi ncover nzero cs ms nub2 ok2 with
       | None => None
       | Some (rows1, ok3) => ib_loop oc d K au rec ub cover zero cs ms l (acc ++ rows1) ok3
       end) in E.
    cbv zeta in E.
    destruct (copy_zero_set oc d au chi _ zero okk) as [[nub1 nzero] ok1] eqn:E1.
    destruct (copy_cover_sets oc d au chi nub1 cs (S ms - cs) cover ok1) as [[nub2 ncover] ok2] eqn:E2.
    destruct (rec chi ncover nzero cs ms nub2 ok2) as [[rows1 ok3]|] eqn:E3; [|discriminate].
    destruct (Hl chi (or_introl eq_refl)) as [Hchi Hpd].
    destruct (copy_child_audit Q Sn w0 ub cs cover zero chi (S ms - cs) okk nub1 nzero ok1 nub2 ncover ok2 HA Hinn HQ Hchi Hpd
                E1 E2) as [-> [-> [S1 [S2 [_ [H2 Hinn2]]]]]].
    destruct (Hrec chi (or_introl eq_refl) _ _ _ _ _ _ _ _ _ _ E3 H2 Hinn2) as [-> Hsh1].
    apply (IH (fun c Hc => Hrec c (or_intror Hc)) HA Hinn HQ (fun c Hc => Hl c (or_intror Hc)) _ _ _ _ E).
    now apply shape_app.
Qed.

Lemma internal_batch_audit : forall fuel Q, nok Q -> rec_aud (internal_batch oc d K au fuel) Q.
Proof.
  induction fuel as [|f IH]; intros Q HQ cover zero cs ms ub ok Sn w0 rows ok' E HA Hinn; [discriminate|].
  cbn [internal_batch] in E.
  destruct (Nat.ltb ms cs).
  - injection E as E. apply (brute_nearest_audit (size Q) Q (Nat.le_refl _) HQ zero ub ok Sn w0 rows ok' E).
    apply (AInv_sub Q Sn w0 ub (Fst cs cover zero)); [assumption | |].
    + intros x. unfold Fst. rewrite cnt_lvs_app. lia.
    + intros e He. unfold Fst. apply in_or_app. now left.
  - destruct (Nat.leb (c_scale Q) cs && negb (Nat.eqb (c_scale Q) 100)).
    + destruct Q as [p m pd sc ch]. cbn [c_ch] in E. destruct ch as [|c0 rest]; [discriminate|].
      destruct (ib_loop oc d K au (internal_batch oc d K au f) ub cover zero cs ms rest [] ok) as [[rows1 ok1]|] eqn:E1;
        [|discriminate].
      destruct (internal_batch oc d K au f c0 cover zero cs ms ub ok1) as [[rows0 ok2]|] eqn:E0; [|discriminate].
      injection E as <- <-.
      destruct (children_facts p m pd sc c0 rest HQ) as [Hp0 Hch].
      assert (H1 : ok1 = ok /\ shape rows1).
      { apply (ib_loop_audit (internal_batch oc d K au f) (CN p m pd sc (c0 :: rest)) Sn w0 ub cover zero cs ms rest)
          with (acc := []); try assumption.
        - intros chi Hc. apply IH. apply (Hch chi). now right.
        - intros chi Hc. apply (Hch chi). now right.
        - apply shape_nil. }
      destruct H1 as [-> Hsh1].
      assert (H0 : ok2 = ok /\ shape rows0).
      { apply (IH c0 (proj1 (Hch c0 (or_introl eq_refl))) cover zero cs ms ub ok Sn w0 rows0 ok2 E0); [|assumption].
        apply (AInv_point (CN p m pd sc (c0 :: rest))); [exact Hp0 | assumption]. }
      destruct H0 as [-> Hsh0]. split; [reflexivity | now apply shape_app].
    + destruct (descend_audit Q cs Sn w0 ub ms cover zero ok HA Hinn) as [Hok [S' [HA' Hinn']]].
      rewrite <- Hok. apply (IH Q HQ _ _ _ _ _ _ S' w0 rows ok' E HA' Hinn').
Qed.

Lemma ct_query_audit : forall fuel top rows ok,
  ct_query oc d K au fuel top = Some (rows, ok) ->
  nok top -> NoDup (lp top) -> is_leaf top = false -> ok = true /\ shape rows.
Proof.
  intros fuel top rows ok E Htop Hnd Hnl. unfold ct_query in E.
  set (p := c_p top) in *. set (d0 := dd d p p) in *.
  apply (internal_batch_audit fuel top Htop _ _ _ _ _ _ [p] None rows ok E).
  - destruct (nok_point_in top Htop) as [Hpin Hppts].
    assert (HF : Fst 0 [(O, (d0, top))] [] = [top]) by reflexivity. rewrite HF.
    split.
    + split; [rewrite ub_update_length; apply repeat_length|]. split.
      * unfold d0. apply (ub_update_ok p [] None p). apply ub_ok_setter.
      * split; [exact I|]. split; [constructor; [intros []|constructor]|]. intros y [<-|[]]. exact Hppts.
    + split.
      * intros x. unfold lvs. cbn [flat_map]. rewrite app_nil_r. unfold cnt. now apply NoDup_count_occ.
      * split; [intros e [<-|[]]; assumption|]. intros y e [<-|[]] [<-|[]] _. reflexivity.
  - intros e He. assert (HF : cn (geq 0) [(O, (d0, top))] = [top]) by reflexivity. rewrite HF in He.
    destruct He as [<-|[]]. assumption.
Qed.

End Audit.

(* ---------- closed statements ---------- *)
Theorem ct_query_audit_true_lemma : forall oc d dom top K fuel rows ok,
  metric_on dom d -> (forall x, In x (leaf_points top) -> dom x) ->
  ct_inv_b d top = true -> NoDup (leaf_points top) -> is_leaf top = false ->
  ct_query oc d K (valid_b d (leaf_points top) K) fuel top = Some (rows, ok) -> ok = true.
Proof.
  intros oc d dom top K fuel rows ok Hm Hdom Hinv Hnd Hnl E.
  destruct (dd_metric dom d Hm) as [Hs Ht].
  refine (proj1 _). apply (ct_query_audit oc d (leaf_points top) K dom Hs Ht Hdom fuel top rows ok E); try assumption.
  split; [assumption | apply incl_refl].
Qed.

(* every row of the result is a duplicate-free list of samples of the tree *)
Theorem ct_query_rows_shape_lemma : forall oc d dom top K fuel rows ok,
  metric_on dom d -> (forall x, In x (leaf_points top) -> dom x) ->
  ct_inv_b d top = true -> NoDup (leaf_points top) -> is_leaf top = false ->
  ct_query oc d K (valid_b d (leaf_points top) K) fuel top = Some (rows, ok) ->
  forall q cands, In (q, cands) rows -> NoDup cands /\ incl cands (leaf_points top).
Proof.
  intros oc d dom top K fuel rows ok Hm Hdom Hinv Hnd Hnl E.
  destruct (dd_metric dom d Hm) as [Hs Ht].
  apply (ct_query_audit oc d (leaf_points top) K dom Hs Ht Hdom fuel top rows ok E); try assumption.
  split; [assumption | apply incl_refl].
Qed.

(* completeness of the repaired batch query without any audited hypothesis *)
Theorem ct_query_complete_lemma : forall d dom top K fuel rows ok,
  metric_on dom d -> (forall x, In x (leaf_points top) -> dom x) ->
  ct_inv_b d top = true -> NoDup (leaf_points top) -> is_leaf top = false ->
  ct_query false d K (valid_b d (leaf_points top) K) fuel top = Some (rows, ok) ->
  forall q cands, In (q, cands) rows ->
    In q (leaf_points top) /\
    forall x, In x (leaf_points top) ->
      (length (filter (fun y => (dd d q y <? dd d q x)%Z) (leaf_points top)) < K)%nat -> In x cands.
Proof.
  intros d dom top K fuel rows ok Hm Hdom Hinv Hnd Hnl E.
  pose proof (ct_query_audit_true_lemma false d dom top K fuel rows ok Hm Hdom Hinv Hnd Hnl E) as ->.
  apply (ct_query_complete_partial_lemma d dom top K fuel rows Hm Hdom Hinv Hnl E).
Qed.

(* the cover-tree method end to end on the model: query (repaired radius) + repaired selection give exactly the k
   nearest other samples for every row, on any tree that passes the two checkers ct_inv_b and ct_holds_b.  Nothing
   about the query itself is left to a run-time check. *)
Theorem covertree_model_exact_lemma : forall d N top k fuel rows ok q cands,
  metric_on (in_range N) d -> (k < N)%nat ->
  ct_inv_b d top = true -> ct_holds_b N top = true -> is_leaf top = false ->
  ct_query false d (S k) (valid_b d (leaf_points top) (S k)) fuel top = Some (rows, ok) ->
  In (q, cands) rows ->
  exists l, ct_select_fixed d (q :: cands) k = Some l /\ is_knn d N q k l.
Proof.
  intros d N top k fuel rows ok q cands Hm Hk Hinv Hholds Hnl E Hin.
  pose proof (ct_holds_b_sound N top Hholds) as Hperm.
  assert (Hdom : forall x, In x (leaf_points top) -> in_range N x).
  { intros x Hx. apply (Permutation.Permutation_in _ Hperm) in Hx. now apply samples_In in Hx. }
  assert (Hndl : NoDup (leaf_points top)).
  { unfold ct_holds_b in Hholds. rewrite !andb_true_iff in Hholds. destruct Hholds as [[H _] _]. now apply nodup_b_spec. }
  destruct (ct_query_rows_shape_lemma false d (in_range N) top (S k) fuel rows ok Hm Hdom Hinv Hndl Hnl E q cands Hin)
    as [Hnd Hinc].
  pose proof (ct_query_audit_true_lemma false d (in_range N) top (S k) fuel rows ok Hm Hdom Hinv Hndl Hnl E) as ->.
  apply (covertree_model_exact_partial_lemma d N top k fuel rows q cands Hm Hk Hinv Hholds Hnl E Hin).
  - now apply nodup_b_spec.
  - apply forallb_forall. intros j Hj. specialize (Hdom j (Hinc j Hj)). unfold in_range in Hdom.
    apply andb_true_iff. split; [apply Z.leb_le | apply Z.ltb_lt]; lia.
Qed.
