(* FibHeap_Proof_Main.v — insert / clear, one step, whole histories.
   Assembles decrease_key_spec, extract_min_spec, size_fib and the Dn lemmas
   into the statements of Properties_C16.v:
     * every history keeps Inv and is accepted, output by output, by the
       executable abstract specification spec_run_b (refinement to a finite map);
     * a history can only leave A[] when Dn is below the Fibonacci bound
       dn_req cap, hence never with the repaired constructor;
     * the shipped 1 + floor(log2 cap) does leave A[] (concrete history). *)
From Coq Require Import List ZArith Bool Lia Permutation Arith.
From TK Require Import FibHeap_Model FibHeap_Dn FibHeap_SpecExec FibHeap_Proof_Basics
  FibHeap_Proof_Consolidate FibHeap_Proof_Decrease FibHeap_Proof_Degree FibHeap_Proof_Extract.
Import ListNotations.
Local Open Scope Z_scope.

(* ---------- stored <-> present in the abstraction ---------- *)
Lemma abs_nodup : forall h, Inv h -> NoDup (map fst (abs h)).
Proof. intros h HI. exact (inv_nodup h HI). Qed.

Lemma stored_true : forall i h, Inv h -> stored i h = true -> exists k, a_get i (abs h) = Some k.
Proof.
  intros i h HI. unfold stored. destruct (forest_find i (h_roots h)) as [n|] eqn:E; [|discriminate].
  intros _. destruct (forest_find_some _ _ _ E) as [_ Hin]. exists (t_key n).
  apply a_get_in; [apply abs_nodup; exact HI|exact Hin].
Qed.

Lemma stored_false : forall i h, stored i h = false -> a_get i (abs h) = None.
Proof.
  intros i h. unfold stored. destruct (forest_find i (h_roots h)) eqn:E; [discriminate|].
  intros _. apply a_get_none. exact (forest_find_none _ _ E).
Qed.

(* ---------- insert ---------- *)
Theorem insert_spec : forall i k h, Inv h ->
  Inv (insert i k h) /\ h_cap (insert i k h) = h_cap h /\ h_dn (insert i k h) = h_dn h /\
  agree (abs (insert i k h)) (spec_insert (h_cap h) i k (abs h)).
Proof.
  intros i k h HI. unfold insert, spec_insert.
  destruct ((Z.leb (h_cap h) i) || (Z.ltb i 0)) eqn:Erange.
  { split; [exact HI|]. split; [reflexivity|]. split; [reflexivity|]. intros j; reflexivity. }
  destruct (stored i h) eqn:Est.
  { destruct (stored_true _ _ HI Est) as [k0 Hk0]. rewrite Hk0.
    split; [exact HI|]. split; [reflexivity|]. split; [reflexivity|]. intros j; reflexivity. }
  pose proof (stored_false _ _ Est) as Hnone. rewrite Hnone.
  apply orb_false_iff in Erange. destruct Erange as [E1 E2].
  apply Z.leb_gt in E1. apply Z.ltb_ge in E2.
  cbn [add_to_roots h_cap h_dn h_roots h_num_nodes h_num_trees].
  set (u := Node i k false []).
  pose proof (add_root_perm u (h_roots h)) as Hp.
  assert (Hpi : Permutation (forest_items (add_root_list u (h_roots h))) ((i, k) :: abs h)).
  { eapply Permutation_trans; [apply forest_items_perm; exact Hp|]. reflexivity. }
  assert (Hpx : Permutation (forest_idxs (add_root_list u (h_roots h))) (i :: forest_idxs (h_roots h))).
  { eapply Permutation_trans; [apply forest_idxs_perm; exact Hp|]. reflexivity. }
  assert (Hni : ~ In i (forest_idxs (h_roots h))).
  { apply a_get_none in Hnone. exact Hnone. }
  split; [|split; [reflexivity|split; [reflexivity|]]].
  - constructor; cbn [h_cap h_dn h_roots h_num_nodes h_num_trees].
    + eapply Permutation_NoDup; [apply Permutation_sym; exact Hpx|].
      constructor; [exact Hni|exact (inv_nodup h HI)].
    + eapply Forall_perm; [apply Permutation_sym; exact Hpx|].
      constructor; [lia|exact (inv_range h HI)].
    + eapply Forall_perm; [apply Permutation_sym; exact Hp|].
      constructor; [apply wf_leaf|exact (inv_wf h HI)].
    + apply add_root_head_min. exact (inv_min h HI).
    + rewrite (forest_size_perm _ _ Hp). cbn [forest_size]. unfold u. rewrite tree_size_eq.
      cbn [forest_size]. rewrite (inv_nn h HI). lia.
    + rewrite (Permutation_length Hp). cbn [length]. rewrite (inv_nt h HI). lia.
  - intros j. unfold abs at 1. cbn [h_roots].
    assert (Hnd : NoDup (map fst ((i, k) :: abs h))).
    { cbn [map fst]. constructor; [exact Hni|exact (inv_nodup h HI)]. }
    rewrite <- (a_get_perm _ _ Hnd (Permutation_sym Hpi) j).
    rewrite a_get_set. cbn [a_get]. destruct (Z.eqb j i); reflexivity.
Qed.

(* the guards of insert: nothing at all changes *)
Lemma insert_noop : forall i k h, Inv h ->
  (h_cap h <= i \/ i < 0 \/ (exists k0, a_get i (abs h) = Some k0)) -> insert i k h = h.
Proof.
  intros i k h HI H. unfold insert.
  destruct (Z.leb_spec (h_cap h) i) as [E1|E1]; [reflexivity|].
  destruct (Z.ltb_spec i 0) as [E2|E2]; [reflexivity|]. cbn [orb].
  destruct H as [H|[H|[k0 H]]]; try lia.
  destruct (stored i h) eqn:Est; [reflexivity|].
  rewrite (stored_false _ _ Est) in H. discriminate.
Qed.

Lemma clear_spec : forall h, Inv (clear h) /\ abs (clear h) = [].
Proof. intros h. split; [apply (Inv_empty (h_cap h) (h_dn h))|reflexivity]. Qed.

(* ---------- the simulation relation between heap states and spec maps ---------- *)
Definition R (h : heap) (m : amap) : Prop :=
  Inv h /\ NoDup (map fst m) /\ agree (abs h) m.

Lemma R_length : forall h m, R h m -> h_num_nodes h = Z.of_nat (length m).
Proof.
  intros h m (HI & Hnd & Ha). rewrite (inv_nn h HI), forest_size_items. f_equal.
  apply agree_length; [apply abs_nodup; exact HI|exact Hnd|exact Ha].
Qed.

Lemma a_set_nodup : forall m i k, NoDup (map fst m) -> NoDup (map fst (a_set i k m)).
Proof.
  intros m i k H. unfold a_set. cbn [map fst]. constructor.
  - intros Hin. apply a_remove_fst_in in Hin. destruct Hin as [_ Hne]. congruence.
  - apply a_remove_nodup. exact H.
Qed.

Lemma spec_insert_nodup : forall cap i k m, NoDup (map fst m) -> NoDup (map fst (spec_insert cap i k m)).
Proof.
  intros cap i k m H. unfold spec_insert.
  destruct ((cap <=? i) || (i <? 0)); [exact H|].
  destruct (a_get i m); [exact H|apply a_set_nodup; exact H].
Qed.

Lemma spec_decrease_nodup : forall cap i k m, NoDup (map fst m) -> NoDup (map fst (spec_decrease cap i k m)).
Proof.
  intros cap i k m H. unfold spec_decrease.
  destruct ((cap <=? i) || (i <? 0)); [exact H|].
  destruct (a_get i m) as [k0|]; [|exact H].
  destruct (k0 <? k); [exact H|apply a_set_nodup; exact H].
Qed.

Lemma agree_spec_insert : forall cap i k m m', agree m m' ->
  agree (spec_insert cap i k m) (spec_insert cap i k m').
Proof.
  intros cap i k m m' Ha. unfold spec_insert.
  destruct ((cap <=? i) || (i <? 0)); [exact Ha|]. rewrite (Ha i).
  destruct (a_get i m'); [exact Ha|]. intros j. rewrite !a_get_set, (Ha j). reflexivity.
Qed.

Lemma agree_spec_decrease : forall cap i k m m', agree m m' ->
  agree (spec_decrease cap i k m) (spec_decrease cap i k m').
Proof.
  intros cap i k m m' Ha. unfold spec_decrease.
  destruct ((cap <=? i) || (i <? 0)); [exact Ha|]. rewrite (Ha i).
  destruct (a_get i m') as [k0|]; [|exact Ha].
  destruct (k0 <? k); [exact Ha|]. intros j. rewrite !a_get_set, (Ha j). reflexivity.
Qed.

Lemma agree_trans : forall m1 m2 m3, agree m1 m2 -> agree m2 m3 -> agree m1 m3.
Proof. intros m1 m2 m3 H1 H2 j. rewrite (H1 j). apply H2. Qed.

(* the executable acceptance test of extract_min agrees with the relational one *)
Lemma forallb_min : forall (m : amap) k, NoDup (map fst m) ->
  (forall j kj, a_get j m = Some kj -> k <= kj) -> forallb (fun p => Z.leb k (snd p)) m = true.
Proof.
  intros m k Hnd H. apply forallb_forall. intros [j kj] Hin. cbn [snd]. apply Z.leb_le.
  apply (H j). apply a_get_in; assumption.
Qed.

Lemma spec_extract_b_complete : forall m0 m r m', NoDup (map fst m0) -> NoDup (map fst m) ->
  agree m0 m -> spec_extract_ok m0 r m' ->
  exists m1, spec_extract_b m r = Some m1 /\ NoDup (map fst m1) /\ agree m' m1.
Proof.
  intros m0 m r m' Hnd0 Hnd Ha Hok. destruct r as [[i k]|]; cbn [spec_extract_ok spec_extract_b] in *.
  - destruct Hok as (Hget & Hmin & Hrem). rewrite <- (Ha i), Hget, Z.eqb_refl.
    rewrite forallb_min.
    + cbn [andb]. eexists; split; [reflexivity|]. split; [apply a_remove_nodup; exact Hnd|].
      intros j. rewrite Hrem, a_get_remove, (Ha j). reflexivity.
    + exact Hnd.
    + intros j kj Hj. apply (Hmin j). rewrite (Ha j). exact Hj.
  - destruct Hok as [-> ->]. destruct m as [|[j kj] m].
    + exists []. split; [reflexivity|]. split; [constructor|intros j; reflexivity].
    + exfalso. specialize (Ha j). cbn [a_get] in Ha. rewrite Z.eqb_refl in Ha. discriminate.
Qed.

(* soundness of the executable test: what it accepts is a correct extract_min answer *)
Theorem spec_extract_b_sound : forall m r m1, NoDup (map fst m) -> spec_extract_b m r = Some m1 ->
  spec_extract_ok m r m1.
Proof.
  intros m r m1 Hnd. destruct r as [[i k]|]; cbn [spec_extract_b spec_extract_ok].
  - destruct (a_get i m) as [k'|] eqn:Eg; [|discriminate].
    destruct (Z.eqb_spec k' k) as [->|Hne]; [|discriminate]. cbn [andb].
    destruct (forallb (fun p => k <=? snd p) m) eqn:Ef; [|discriminate].
    intros H; inversion H; subst. split; [reflexivity|]. split.
    + intros j kj Hj. rewrite forallb_forall in Ef. apply a_get_some_in in Hj.
      specialize (Ef _ Hj). cbn [snd] in Ef. apply Z.leb_le. exact Ef.
    + intros j. apply a_get_remove.
  - destruct m; [|discriminate]. intros H; inversion H. split; reflexivity.
Qed.

(* ---------- one step ---------- *)
Theorem step_spec : forall h m o, 0 <= h_cap h -> R h m ->
  match step h o with
  | Ok (h', x) => h_cap h' = h_cap h /\ h_dn h' = h_dn h /\
                  exists m', spec_step_b (h_cap h) m o x = Some m' /\ R h' m'
  | OOB d s => s = h_dn h /\ (h_dn h <= d)%nat /\ (Z.of_nat (fib (d + 2)) < h_cap h)
  | OutOfFuel => False
  end.
Proof.
  intros h m o Hcap HR. pose proof HR as (HI & Hnd & Ha).
  assert (Hfin : forall h' m', R h' m' ->
            (Z.eqb (h_num_nodes h') (Z.of_nat (length m')) &&
             Bool.eqb (Z.eqb (h_num_nodes h') 0) (Nat.eqb (length m') 0)) = true).
  { intros h' m' HR'. rewrite (R_length _ _ HR'), Z.eqb_refl. cbn [andb].
    destruct m'; cbn [length Nat.eqb]; [reflexivity|].
    destruct (Z.eqb_spec (Z.of_nat (S (length m'))) 0); [lia|reflexivity]. }
  destruct o as [i k|i k| |]; cbn [step].
  - (* insert *)
    destruct (insert_spec i k h HI) as (HI' & Hc & Hd & Hag).
    split; [exact Hc|]. split; [exact Hd|]. exists (spec_insert (h_cap h) i k m).
    assert (HR' : R (insert i k h) (spec_insert (h_cap h) i k m)).
    { split; [exact HI'|]. split; [apply spec_insert_nodup; exact Hnd|].
      eapply agree_trans; [exact Hag|apply agree_spec_insert; exact Ha]. }
    split; [|exact HR']. unfold spec_step_b. cbn [o_ext o_n o_empty].
    rewrite (Hfin _ _ HR'). reflexivity.
  - (* decrease_key *)
    destruct (decrease_key_spec i k h HI) as (HI' & Hc & Hd & Hag).
    split; [exact Hc|]. split; [exact Hd|]. exists (spec_decrease (h_cap h) i k m).
    assert (HR' : R (decrease_key i k h) (spec_decrease (h_cap h) i k m)).
    { split; [exact HI'|]. split; [apply spec_decrease_nodup; exact Hnd|].
      eapply agree_trans; [exact Hag|apply agree_spec_decrease; exact Ha]. }
    split; [|exact HR']. unfold spec_step_b. cbn [o_ext o_n o_empty].
    rewrite (Hfin _ _ HR'). reflexivity.
  - (* extract_min *)
    pose proof (extract_min_spec h HI) as He.
    destruct (extract_min h) as [[h' r]|d s|].
    + destruct He as (HI' & Hc & Hd & Hok).
      split; [exact Hc|]. split; [exact Hd|].
      destruct (spec_extract_b_complete (abs h) m r (abs h') (abs_nodup _ HI) Hnd Ha Hok)
        as (m1 & Hm1 & Hnd1 & Ha1).
      exists m1. assert (HR' : R h' m1) by (split; [exact HI'|split; assumption]).
      split; [|exact HR']. unfold spec_step_b. cbn [o_ext o_n o_empty]. rewrite Hm1.
      rewrite (Hfin _ _ HR'). reflexivity.
    + destruct He as (H1 & H2 & H3). split; [exact H1|]. split; [exact H2|].
      pose proof (Inv_size_le_cap h Hcap HI). lia.
    + exact He.
  - (* clear *)
    destruct (clear_spec h) as [HI' Habs].
    split; [reflexivity|]. split; [reflexivity|]. exists [].
    assert (HR' : R (clear h) []).
    { split; [exact HI'|]. split; [constructor|]. rewrite Habs. intros j; reflexivity. }
    split; [|exact HR']. unfold spec_step_b. cbn [o_ext o_n o_empty].
    rewrite (Hfin _ _ HR'). reflexivity.
Qed.

(* ---------- whole histories ---------- *)
Theorem run_spec : forall ops h m n, 0 <= h_cap h -> R h m ->
  match run h ops with
  | Ok (h', xs) => h_cap h' = h_cap h /\ h_dn h' = h_dn h /\ Inv h' /\
                   spec_run_b (h_cap h) m ops xs n = None
  | OOB d s => s = h_dn h /\ (h_dn h <= d)%nat /\ (Z.of_nat (fib (d + 2)) < h_cap h)
  | OutOfFuel => False
  end.
Proof.
  induction ops as [|o ops IH]; intros h m n Hcap HR; cbn [run].
  - split; [reflexivity|]. split; [reflexivity|]. split; [apply HR|reflexivity].
  - pose proof (step_spec h m o Hcap HR) as Hs.
    destruct (step h o) as [[h1 x]|d s|]; [|exact Hs|exact Hs].
    destruct Hs as (Hc & Hd & m1 & Hm1 & HR1).
    assert (Hcap1 : 0 <= h_cap h1) by lia.
    specialize (IH h1 m1 (S n) Hcap1 HR1).
    destruct (run h1 ops) as [[h2 xs]|d s|].
    + destruct IH as (Hc2 & Hd2 & HI2 & Hrun). split; [congruence|]. split; [congruence|].
      split; [exact HI2|]. cbn [spec_run_b]. rewrite Hm1. rewrite <- Hc. exact Hrun.
    + rewrite Hc, Hd in IH. exact IH.
    + exact IH.
Qed.

Lemma R_empty : forall cap dn, R (empty_heap cap dn) [].
Proof.
  intros cap dn. split; [apply Inv_empty|]. split; [constructor|intros j; reflexivity].
Qed.

(* T1: refinement — every history that completes is accepted by the abstract specification,
   operation by operation, and ends in a state satisfying the invariant *)
Theorem fh_refines_map : forall cap dn ops h' xs, 0 <= cap ->
  run (empty_heap cap dn) ops = Ok (h', xs) ->
  Inv h' /\ spec_run_b cap [] ops xs 0 = None.
Proof.
  intros cap dn ops h' xs Hcap Hrun.
  pose proof (run_spec ops (empty_heap cap dn) [] 0%nat Hcap (R_empty cap dn)) as H.
  rewrite Hrun in H. cbn [empty_heap h_cap] in H. tauto.
Qed.

(* T2: a history leaves A[] only when Dn is below the Fibonacci bound *)
Theorem fh_oob_only_below_req : forall cap dn ops d s, 0 <= cap ->
  run (empty_heap cap dn) ops = OOB d s -> s = dn /\ (dn <= d < dn_req cap)%nat.
Proof.
  intros cap dn ops d s Hcap Hrun.
  pose proof (run_spec ops (empty_heap cap dn) [] 0%nat Hcap (R_empty cap dn)) as H.
  rewrite Hrun in H. cbn [empty_heap h_cap h_dn] in H. destruct H as (H1 & H2 & H3).
  split; [exact H1|]. split; [exact H2|]. apply dn_req_bound. lia.
Qed.

Theorem fh_no_oob : forall cap dn ops, 0 <= cap -> (dn_req cap <= dn)%nat ->
  exists h' xs, run (empty_heap cap dn) ops = Ok (h', xs).
Proof.
  intros cap dn ops Hcap Hdn.
  pose proof (run_spec ops (empty_heap cap dn) [] 0%nat Hcap (R_empty cap dn)) as H.
  destruct (run (empty_heap cap dn) ops) as [[h' xs]|d s|] eqn:E.
  - eauto.
  - exfalso. destruct (fh_oob_only_below_req cap dn ops d s Hcap E) as [_ Hd]. lia.
  - contradiction.
Qed.

(* T3: the constructor as repaired in /repo (integer Fibonacci loop) is always large enough *)
Theorem fh_fixed_no_oob : forall cap ops, 0 <= cap ->
  exists h' xs, run (empty_heap cap (dn_fixed cap)) ops = Ok (h', xs).
Proof. intros cap ops Hcap. apply fh_no_oob; [exact Hcap|apply dn_fixed_ge_req]. Qed.

(* the clauses of the property, read off the specification ---------------------------- *)
(* a stored or out-of-range index is not inserted; an absent index, or a larger key, is not
   decreased: the heap state does not change at all *)
Theorem fh_guards_noop : forall h i k, Inv h ->
  ((h_cap h <= i \/ i < 0 \/ (exists k0, a_get i (abs h) = Some k0)) -> insert i k h = h) /\
  ((h_cap h <= i \/ i < 0 \/ a_get i (abs h) = None \/ (exists k0, a_get i (abs h) = Some k0 /\ k0 < k)) ->
   decrease_key i k h = h).
Proof.
  intros h i k HI. split; [apply insert_noop; exact HI|].
  intros H. apply decrease_key_noop.
  destruct H as [H|[H|[H|(k0 & Hk0 & Hlt)]]]; [left; exact H|right; left; exact H| |].
  - right; right; left. destruct (forest_find i (h_roots h)) as [n|] eqn:E; [|reflexivity].
    destruct (forest_find_some _ _ _ E) as [_ Hin].
    rewrite (a_get_in _ _ _ (abs_nodup _ HI) Hin) in H. discriminate.
  - right; right; right. destruct (forest_find i (h_roots h)) as [n|] eqn:E.
    + exists n. split; [reflexivity|]. destruct (forest_find_some _ _ _ E) as [_ Hin].
      rewrite (a_get_in _ _ _ (abs_nodup _ HI) Hin) in Hk0. inversion Hk0; subst. exact Hlt.
    + apply forest_find_none in E. apply a_get_none in E. unfold abs in Hk0. congruence.
Qed.
