(* ====================================================================== *)
(*  Pencil_Proof_Rot.v — property C10, rotation clause: replacing the      *)
(*  feature matrix X by R X conjugates every pencil by R (any R); when     *)
(*  R^T R = I a solution P of the pencil of X gives the solution R P of    *)
(*  the pencil of R X, the Gram matrix of the samples (hence every kernel  *)
(*  callback value, hence W) is unchanged, the mean becomes R mean and     *)
(*  the embedding  P^T (x - mean)  is unchanged.                           *)
(*  Translation clause (used by the LLTSA finding F25): X M X^T does not   *)
(*  change under x -> x + c when the rows and columns of M sum to zero.    *)
(* ====================================================================== *)

Require Import Field Ring Arith Lia List Bool.
From TK Require Import Mat_Sums Mat_Core Pencil_Model Pencil_Spec Pencil_Proof_Sums Pencil_Proof.
Import ListNotations.

Section PencilRot.
  Context {F : Type} {Fo : FieldOps F} {Ff : IsField F}.
  Add Field PencilRotField : (@Fth F Fo Ff).
  Local Open Scope F_scope.

  (* (R X) M (R X)^T = R (X M X^T) R^T — no hypothesis on R *)
  Lemma XMXt_rot D N (R X M : mat F) i j :
    XMXt N (mmul D R X) M i j = conj_by D R (XMXt N X M) i j.
  Proof.
    unfold conj_by, XMXt.
    set (XM := mmul N X M).
    transitivity (sumn D (fun u => sumn N (fun t => mmul D R XM i t * X u t * R j u))).
    - transitivity (sumn N (fun t => sumn D (fun u => mmul D R XM i t * X u t * R j u))).
      + unfold mmul at 1. apply sumn_ext. intros t _.
        rewrite (mmul_assoc N D R X M i t). fold XM.
        unfold mtrans. unfold mmul at 2. rewrite <- sumn_mul_l.
        apply sumn_ext. intros u _. ring.
      + apply sumn_swap.
    - symmetry. unfold mmul at 1. apply sumn_ext. intros u _.
      rewrite <- (mmul_assoc N D R XM (mtrans X) i u).
      unfold mmul at 1. rewrite <- sumn_mul_r.
      apply sumn_ext. intros t _. unfold mtrans. ring.
  Qed.

  Lemma orth_cancel D (R Z : mat F) t j :
    orthogonal D R -> t < D -> mmul D (mtrans R) (mmul D R Z) t j = Z t j.
  Proof.
    intros HR Ht. rewrite <- (mmul_assoc D D (mtrans R) R Z t j).
    rewrite (mmul_ext_l D _ mI Z t j).
    - apply mmul_I_l. assumption.
    - intros u Hu. apply HR; assumption.
  Qed.

  (* (R A R^T)(R P) = R (A P) *)
  Lemma conj_mul D (R A P : mat F) i j :
    orthogonal D R ->
    mmul D (conj_by D R A) (mmul D R P) i j = mmul D R (mmul D A P) i j.
  Proof.
    intros HR. unfold conj_by.
    rewrite (mmul_assoc D D (mmul D R A) (mtrans R) (mmul D R P) i j).
    rewrite (mmul_ext_r D (mmul D R A) _ P i j)
      by (intros t Ht; apply orth_cancel; assumption).
    apply mmul_assoc.
  Qed.

  Lemma mmul_diag_r_assoc D d (R Z : mat F) lam i j :
    j < d -> mmul D R (mmul d Z (mdiag lam)) i j = mmul D R Z i j * lam j.
  Proof.
    intros Hj. unfold mmul at 1 3. rewrite <- sumn_mul_r. apply sumn_ext. intros t _.
    rewrite mmul_diag_r by assumption. ring.
  Qed.

  Theorem rot_solution D d (R A B P : mat F) lam :
    orthogonal D R -> gen_eig_solution D d A B P lam ->
    gen_eig_solution D d (conj_by D R A) (conj_by D R B) (mmul D R P) lam.
  Proof.
    intros HR [H1 H2]. split.
    - intros i j Hi Hj.
      rewrite conj_mul by assumption.
      rewrite mmul_diag_r by assumption. rewrite conj_mul by assumption.
      rewrite <- (mmul_diag_r_assoc D d R (mmul D B P) lam i j Hj).
      apply mmul_ext_r. intros t Ht. apply H1; assumption.
    - intros i j Hi Hj. rewrite <- (H2 i j Hi Hj).
      rewrite (mmul_ext_r D _ _ (mmul D R (mmul D B P)) i j)
        by (intros t _; apply conj_mul; assumption).
      rewrite (mmul_ext_l D _ (mmul D (mtrans P) (mtrans R)) _ i j)
        by (intros t _; apply mtrans_mmul).
      rewrite (mmul_assoc D D (mtrans P) (mtrans R) _ i j).
      apply mmul_ext_r. intros t Ht. apply orth_cancel; assumption.
  Qed.

  (* inner products of samples (every value the kernel callback returns) do not change *)
  Theorem gram_rotation_invariant D (R X : mat F) a b :
    orthogonal D R ->
    mmul D (mtrans (mmul D R X)) (mmul D R X) a b = mmul D (mtrans X) X a b.
  Proof.
    intros HR.
    rewrite (mmul_ext_l D _ (mmul D (mtrans X) (mtrans R)) _ a b)
      by (intros t _; apply mtrans_mmul).
    rewrite (mmul_assoc D D (mtrans X) (mtrans R) _ a b).
    apply mmul_ext_r. intros t Ht. apply orth_cancel; assumption.
  Qed.

  Theorem mean_rotation D N (R X : mat F) f :
    compute_mean (mmul D R X) N f = mv D R (compute_mean X N) f.
  Proof.
    rewrite compute_mean_is_mean. unfold mv.
    rewrite (sumn_ext D _ (fun t => R f t * sumn N (fun s => X t s) * / of_nat N)).
    2:{ intros t _. rewrite compute_mean_is_mean, (Fdiv_def Fth). ring. }
    rewrite sumn_mul_r, (Fdiv_def Fth). f_equal.
    unfold mmul. rewrite sumn_swap. apply sumn_ext. intros t _.
    rewrite sumn_mul_l. reflexivity.
  Qed.

  Theorem embedding_rotation_invariant D (R P X : mat F) (m : vec F) s j :
    orthogonal D R ->
    project D (mmul D R P) (mv D R m) (mmul D R X) s j = project D P m X s j.
  Proof.
    intros HR. set (Xc := fun u s' => X u s' - m u).
    transitivity (mmul D (mtrans (mmul D R P)) (mmul D R Xc) j s).
    - unfold project. unfold mmul at 3. apply sumn_ext. intros f _.
      unfold mtrans. f_equal. unfold mmul, mv, Xc. rewrite <- sumn_sub.
      apply sumn_ext. intros u _. ring.
    - rewrite (mmul_ext_l D _ (mmul D (mtrans P) (mtrans R)) _ j s)
        by (intros t _; apply mtrans_mmul).
      rewrite (mmul_assoc D D (mtrans P) (mtrans R) _ j s).
      rewrite (mmul_ext_r D (mtrans P) _ Xc j s)
        by (intros t Ht; apply orth_cancel; assumption).
      reflexivity.
  Qed.

  Lemma project_ext_mean D (P X : mat F) (m m' : vec F) s j :
    (forall f, f < D -> m f = m' f) -> project D P m X s j = project D P m' X s j.
  Proof.
    intros H. unfold project. apply sumn_ext. intros f Hf. rewrite (H f Hf). reflexivity.
  Qed.

  (* the rotation clause of the property, for the model of all three methods *)
  Theorem rotation_equivariance_gen D d N (R X P : mat F) (A B : mat F) lam :
    orthogonal D R ->
    gen_eig_solution D d A B P lam ->
    gen_eig_solution D d (conj_by D R A) (conj_by D R B) (mmul D R P) lam /\
    (forall s j, project D (mmul D R P) (compute_mean (mmul D R X) N) (mmul D R X) s j =
                 project D P (compute_mean X N) X s j).
  Proof.
    intros HR Hs. split.
    - apply rot_solution; assumption.
    - intros s j.
      rewrite (project_ext_mean D _ _ _ (mv D R (compute_mean X N)) s j)
        by (intros f _; apply mean_rotation).
      apply embedding_rotation_invariant. assumption.
  Qed.

  (* centring commutes with the rotation *)
  Lemma centred_rotation D N (R X : mat F) f s :
    centred (mmul D R X) N f s = mmul D R (centred X N) f s.
  Proof.
    unfold centred. change (compute_mean0 (mmul D R X) N f) with (compute_mean (mmul D R X) N f).
    rewrite mean_rotation. unfold mmul, mv. rewrite <- sumn_sub.
    apply sumn_ext. intros u _. unfold compute_mean. ring.
  Qed.

  (* pencils of the rotated data = conjugated pencils (reference objects) *)
  Theorem pencils_conjugate D N (R X : mat F) (W : sparse F) (dv : vec F) i j :
    npe_lhs N (mmul D R X) W i j = conj_by D R (npe_lhs N X W) i j /\
    npe_rhs N (mmul D R X) i j = conj_by D R (npe_rhs N X) i j /\
    lltsa_lhs N (mmul D R X) W i j = conj_by D R (lltsa_lhs N X W) i j /\
    lltsa_rhs N (mmul D R X) i j = conj_by D R (lltsa_rhs N X) i j /\
    lpp_lhs N (mmul D R X) W i j = conj_by D R (lpp_lhs N X W) i j /\
    lpp_rhs N (mmul D R X) dv i j = conj_by D R (lpp_rhs N X dv) i j.
  Proof.
    repeat split; try apply XMXt_rot.
    unfold lltsa_lhs. rewrite <- XMXt_rot. apply XMXt_ext_X.
    intros f s _. apply centred_rotation.
  Qed.

  (* ---------------- translation ---------------- *)
  Definition shift_by (X : mat F) (c : vec F) : mat F := fun f s => X f s + c f.

  Definition zero_sums (N : nat) (M : mat F) : Prop :=
    (forall s, s < N -> sumn N (fun t => M s t) = 0) /\
    (forall t, t < N -> sumn N (fun s => M s t) = 0).

  Theorem XMXt_translation N (X M : mat F) (c : vec F) i j :
    zero_sums N M -> XMXt N (shift_by X c) M i j = XMXt N X M i j.
  Proof.
    intros [Hr Hc]. rewrite !XMXt_entry. unfold shift_by.
    transitivity (sumn N (fun t => sumn N (fun s => X i s * M s t * X j t))
                  + sumn N (fun t => sumn N (fun s => M s t) * (c i * X j t))
                  + sumn N (fun s => sumn N (fun t => M s t) * ((X i s + c i) * c j))).
    - assert (E3 : sumn N (fun s => sumn N (fun t => M s t) * ((X i s + c i) * c j)) =
                   sumn N (fun t => sumn N (fun s => M s t * ((X i s + c i) * c j)))).
      { rewrite sumn_swap. apply sumn_ext. intros s _. symmetry. apply sumn_mul_r. }
      assert (E2 : sumn N (fun t => sumn N (fun s => M s t) * (c i * X j t)) =
                   sumn N (fun t => sumn N (fun s => M s t * (c i * X j t)))).
      { apply sumn_ext. intros t _. symmetry. apply sumn_mul_r. }
      rewrite E3, E2. rewrite <- !sumn_add. apply sumn_ext. intros t _.
      rewrite <- !sumn_add. apply sumn_ext. intros s _. ring.
    - rewrite (sumn_zero' N (fun t => sumn N (fun s => M s t) * (c i * X j t)))
        by (intros t Ht; rewrite Hc by assumption; ring).
      rewrite (sumn_zero' N (fun s => sumn N (fun t => M s t) * ((X i s + c i) * c j)))
        by (intros s Hs; rewrite Hr by assumption; ring).
      ring.
  Qed.

  Lemma Jn_zero_sums N : of_nat N <> 0 -> zero_sums N (@Jn F Fo N).
  Proof.
    intros HN. split; intros s Hs.
    - apply Jn_row_sum; assumption.
    - apply Jn_col_sum; assumption.
  Qed.

  Lemma sym2_zero_sums N (M : mat F) : zero_sums N M -> zero_sums N (sym2 M).
  Proof.
    intros [Hr Hc]. split; intros s Hs; unfold sym2, madd, mtrans; rewrite sumn_add.
    - rewrite Hr, Hc by assumption. ring.
    - rewrite Hc, Hr by assumption. ring.
  Qed.

  (* between F25 and F42 the LLTSA pencil was translation invariant only for W with zero sums *)
  Theorem lltsa_f25_translation_invariant N (X : mat F) (W : sparse F) (c : vec F) i j :
    indices_ok N W -> zero_sums N (dense_of W) -> of_nat N <> 0 ->
    p_lhs (lltsa_fixed (shift_by X c) N W) i j = p_lhs (lltsa_fixed X N W) i j /\
    p_rhs (lltsa_fixed (shift_by X c) N W) i j = p_rhs (lltsa_fixed X N W) i j.
  Proof.
    intros Hok Hz HN.
    destruct (lltsa_f25_pencil_gen (S (i + j)) N (shift_by X c) W Hok) as [HA' HB'].
    destruct (lltsa_f25_pencil_gen (S (i + j)) N X W Hok) as [HA HB].
    rewrite (HA' i j), (HB' i j), (HA i j), (HB i j) by lia.
    unfold lltsa_lhs_f25, lltsa_rhs. split; apply XMXt_translation.
    - apply sym2_zero_sums. assumption.
    - apply Jn_zero_sums. assumption.
  Qed.

  (* centring removes a translation *)
  Lemma centred_shift N (X : mat F) (c : vec F) f s :
    of_nat N <> 0 -> centred (shift_by X c) N f s = centred X N f s.
  Proof.
    intros HN. unfold centred. rewrite !compute_mean0_eq. unfold shift_by.
    rewrite sumn_add, sumn_const. change (fun s0 : nat => X f s0) with (X f). field. assumption.
  Qed.

  (* CURRENT code (after F42): the LLTSA pencil does not depend on the origin of the feature
     space, for EVERY sparse matrix W (nullspace shift on its diagonal included) *)
  Theorem lltsa_centred_translation_invariant N (X : mat F) (W : sparse F) (c : vec F) i j :
    indices_ok N W -> of_nat N <> 0 ->
    p_lhs (lltsa_centred (shift_by X c) N W) i j = p_lhs (lltsa_centred X N W) i j /\
    p_rhs (lltsa_centred (shift_by X c) N W) i j = p_rhs (lltsa_centred X N W) i j.
  Proof.
    intros Hok HN.
    destruct (lltsa_problem_gen (S (i + j)) N (shift_by X c) W HN Hok) as [HA' HB'].
    destruct (lltsa_problem_gen (S (i + j)) N X W HN Hok) as [HA HB].
    rewrite (HA' i j), (HB' i j), (HA i j), (HB i j) by lia.
    split.
    - unfold lltsa_lhs. apply XMXt_ext_X. intros f s _. apply centred_shift. assumption.
    - unfold lltsa_rhs. apply XMXt_translation. apply Jn_zero_sums. assumption.
  Qed.

  (* the lhs on centred features IS the property's X M X^T whenever the rows and columns of M
     sum to zero (what an alignment matrix does) *)
  Theorem lltsa_lhs_is_XMXt N (X : mat F) (W : sparse F) i j :
    zero_sums N (dense_of W) ->
    lltsa_lhs N X W i j = XMXt N X (sym2 (dense_of W)) i j.
  Proof.
    intros Hz. unfold lltsa_lhs.
    rewrite <- (XMXt_translation N X (sym2 (dense_of W)) (fun f => - compute_mean0 X N f) i j)
      by (apply sym2_zero_sums; assumption).
    apply XMXt_ext_X. intros f s _. unfold centred, shift_by. ring.
  Qed.

End PencilRot.
