(* ====================================================================== *)
(*  Landmark_Proof_Euclid.v — the "Hence" clause of C11 for Landmark MDS:  *)
(*  for Euclidean input whose centred landmark Gram matrix is carried by   *)
(*  the d selected eigenpairs, and landmarks that span the data, the       *)
(*  embedding produced by lmds_embed reproduces ALL pairwise distances.    *)
(*  Abstract field; all sizes; hypotheses = the eigen/sqrt oracle contract *)
(*  (DESIGN 1.3) + the geometric assumptions the property itself names.    *)
(*  The centring lemmas (lm_double_center_...) follow Mds_Proof.v (C05); they   *)
(*  are re-proved here so that this slice depends on Mat_* only.           *)
(* ====================================================================== *)
Require Import Field Ring Arith Lia List Bool.
From TK Require Import Mat_Sums Mat_Core Landmark_Model Landmark_Spec Landmark_Proof_Trace.
Import ListNotations.

Section Euclid.
  Context {F : Type} {Fo : FieldOps F} {Ff : IsField F}.
  Add Field LandmarkEuclidField : (@Fth F Fo Ff).
  Local Open Scope nat_scope.
  Local Open Scope F_scope.

  (* ---------------- generic centring algebra ---------------- *)
  Definition lm_centered (n : nat) (X : mat F) : mat F := fun i t => X i t - colmean n X t.

  Lemma lm_double_center_meq n A B :
    meq n n A B -> meq n n (double_center n A) (double_center n B).
  Proof.
    intros H. unfold double_center. apply mmul_meq; [apply meq_refl|].
    apply mmul_meq; [assumption|apply meq_refl].
  Qed.

  Lemma lm_double_center_madd n A B i j :
    double_center n (madd A B) i j = double_center n A i j + double_center n B i j.
  Proof.
    unfold double_center.
    rewrite (mmul_ext_r n (Jn n) _ (madd (mmul n A (Jn n)) (mmul n B (Jn n))))
      by (intros; apply mmul_madd_l).
    apply mmul_madd_r.
  Qed.

  Lemma lm_double_center_mscale n c A i j :
    double_center n (mscale c A) i j = c * double_center n A i j.
  Proof.
    unfold double_center.
    rewrite (mmul_ext_r n (Jn n) _ (mscale c (mmul n A (Jn n))))
      by (intros; apply mmul_mscale_l).
    apply mmul_mscale_r.
  Qed.

  Lemma lm_double_center_rowfun n (a : vec F) i j :
    of_nat n <> 0 -> i < n -> j < n -> double_center n (fun i _ => a i) i j = 0.
  Proof.
    intros Hn Hi Hj. unfold double_center.
    rewrite (mmul_ext_r n (Jn n) _ (fun _ _ => 0)).
    - unfold mmul. apply sumn_zero'. intros; ring.
    - intros t Ht. rewrite mmul_Jn_r by assumption. unfold rowsum. cbv beta.
      rewrite sumn_const. field. assumption.
  Qed.

  Lemma lm_double_center_colfun n (a : vec F) i j :
    of_nat n <> 0 -> i < n -> j < n -> double_center n (fun _ j => a j) i j = 0.
  Proof.
    intros Hn Hi Hj. unfold double_center.
    rewrite mmul_Jn_l by assumption. unfold colsum.
    rewrite (sumn_ext n _ (fun _ => a j - / of_nat n * sumn n a)).
    2:{ intros s Hs. rewrite mmul_Jn_r by assumption. reflexivity. }
    rewrite mmul_Jn_r by assumption. unfold rowsum. cbv beta.
    change (sumn n (fun j0 => a j0)) with (sumn n a).
    rewrite sumn_const. field. assumption.
  Qed.

  Lemma lm_double_center_gram n D (X : mat F) i j :
    of_nat n <> 0 -> i < n -> j < n ->
    double_center n (mmul D X (mtrans X)) i j =
      dot D (lm_centered n X i) (lm_centered n X j).
  Proof.
    intros Hn Hi Hj. unfold double_center.
    rewrite (mmul_ext_r n (Jn n) _ (mmul D X (mmul n (mtrans X) (Jn n))))
      by (intros; apply mmul_assoc).
    rewrite <- mmul_assoc.
    unfold mmul at 1. unfold dot. apply sumn_ext. intros t Ht.
    rewrite mmul_Jn_l, mmul_Jn_r by assumption.
    unfold lm_centered, colmean, rowsum, colsum, mtrans. field. assumption.
  Qed.

  Lemma lm_sqdist_expand D (X : mat F) i j :
    lm_sqdist D X i j =
      mmul D X (mtrans X) i i + mmul D X (mtrans X) j j - two * mmul D X (mtrans X) i j.
  Proof.
    unfold lm_sqdist, mmul, mtrans, two. rewrite <- sumn_add, <- sumn_mul_l, <- sumn_sub.
    apply sumn_ext. intros; ring.
  Qed.

  Lemma lm_sqdist_sym D (X : mat F) i j : lm_sqdist D X i j = lm_sqdist D X j i.
  Proof. unfold lm_sqdist. apply sumn_ext. intros; ring. Qed.

  Lemma full_dist_sq_sym n (dist : mat F) : msym n (full_dist_sq dist).
  Proof.
    intros i j _ _. unfold full_dist_sq.
    destruct (Nat.leb i j) eqn:E1; destruct (Nat.leb j i) eqn:E2; try reflexivity.
    - apply Nat.leb_le in E1. apply Nat.leb_le in E2. assert (i = j) by lia. subst. reflexivity.
    - apply Nat.leb_gt in E1. apply Nat.leb_gt in E2. lia.
  Qed.

  (* -1/2 J D2 J is the Gram matrix of the centred configuration (classical MDS identity) *)
  Lemma lm_mds_identity n D (X : mat F) (dist : mat F) :
    of_nat n <> 0 -> two <> 0 ->
    (forall i j, i < n -> j < n -> i <= j -> dist i j * dist i j = lm_sqdist D X i j) ->
    forall i j, i < n -> j < n ->
      mds_matrix_full n dist i j = dot D (lm_centered n X i) (lm_centered n X j).
  Proof.
    intros Hn H2 Hd i j Hi Hj. unfold mds_matrix_full.
    rewrite (center_matrix_sym n _ Hn (full_dist_sq_sym n dist) i j Hi Hj).
    set (G := mmul D X (mtrans X)).
    assert (HD2 : meq n n (full_dist_sq dist)
                    (madd (madd (fun i _ => G i i) (fun _ j => G j j)) (mscale (- two) G))).
    { intros a b Ha Hb. unfold full_dist_sq, madd, mscale.
      destruct (Nat.leb a b) eqn:E.
      - apply Nat.leb_le in E. rewrite Hd by assumption. rewrite lm_sqdist_expand. fold G. ring.
      - apply Nat.leb_gt in E. rewrite Hd by (try assumption; lia).
        rewrite lm_sqdist_sym, lm_sqdist_expand. fold G. ring. }
    rewrite (lm_double_center_meq n _ _ HD2 i j Hi Hj).
    rewrite !lm_double_center_madd, lm_double_center_mscale.
    rewrite lm_double_center_rowfun, lm_double_center_colfun by assumption.
    unfold G. rewrite lm_double_center_gram by assumption.
    unfold lm_neg_half, two in *. field. assumption.
  Qed.

  (* columns of the matrix handed to the solver sum to zero *)
  Lemma mds_matrix_full_col_sum n (dist : mat F) j :
    of_nat n <> 0 -> j < n -> sumn n (fun i => mds_matrix_full n dist i j) = 0.
  Proof.
    intros Hn Hj. unfold mds_matrix_full.
    rewrite (sumn_ext n _ (fun i => double_center n (full_dist_sq dist) i j * lm_neg_half)).
    2:{ intros i Hi. rewrite (center_matrix_sym n _ Hn (full_dist_sq_sym n dist) i j Hi Hj).
        reflexivity. }
    rewrite sumn_mul_r, double_center_col_sum by assumption. ring.
  Qed.

  Lemma fcancel_l (a x : F) : a <> 0 -> a * x = 0 -> x = 0.
  Proof.
    intros Ha H. assert (E : x = (a * x) / a) by (field; assumption).
    rewrite E, H. field. assumption.
  Qed.

  Lemma dot_sq_expand D (p q : vec F) :
    sumn D (fun k => (p k - q k) * (p k - q k)) = dot D p p - two * dot D p q + dot D q q.
  Proof.
    unfold dot, two. rewrite <- sumn_mul_l, <- sumn_sub, <- sumn_add.
    apply sumn_ext. intros; ring.
  Qed.

  (* (sum_i e_i a_i)(sum_j e_j b_j) as a double sum *)
  Lemma bilinear_expand n (e a b : vec F) :
    sumn n (fun i => e i * a i) * sumn n (fun j => e j * b j) =
    sumn n (fun i => sumn n (fun j => e i * e j * (a i * b j))).
  Proof.
    rewrite sumn_mul_sumn. apply sumn_ext. intros i _. apply sumn_ext. intros j _. ring.
  Qed.

  (* ---------------- the configuration ---------------- *)
  Variables (N D d : nat) (lm : list nat) (X : mat F) (dist : mat F).
  Variables (V : mat F) (lam s : vec F) (keep : nat -> bool).
  Let L := length lm.
  Let XL : mat F := fun i k => X (lmk lm i) k.
  Let Z : mat F := lm_centered L XL.
  Let B : mat F := lmds_matrix lm dist.
  Let mu : vec F := landmark_mu L (landmark_dist_sq lm dist).

  Hypothesis HL : of_nat L <> 0.
  Hypothesis H2 : @two F Fo <> 0.
  Hypothesis Hlm : Forall (fun l => l < N) lm.
  (* Euclidean input: the callback's values are the distances of the rows of X *)
  Hypothesis Hdist : forall a b, a < N -> b < N -> dist a b * dist a b = lm_sqdist D X a b.
  (* eigen / sqrt oracle contract for the d selected pairs of B *)
  Hypothesis HBV : meq L d (mmul L B V) (mmul d V (mdiag lam)).
  Hypothesis Hrank : lm_rank_d L d B V lam.
  Hypothesis Hs : forall c, c < d -> s c * s c = lam c.
  (* a kept column has a non-zero eigenvalue; a dropped one (null eigenvalue) has s = sqrt 0 = 0 *)
  Hypothesis Hkeep : forall c, c < d -> keep c = true -> lam c <> 0.
  Hypothesis Hdrop : forall c, c < d -> keep c = false -> s c = 0.

  Lemma lmk_lt i : i < L -> lmk lm i < N.
  Proof.
    intros Hi. rewrite Forall_forall in Hlm. apply Hlm. apply nth_In. exact Hi.
  Qed.

  Lemma B_is_sub_mds i j : B i j = mds_matrix_full L (fun a b => dist (lmk lm a) (lmk lm b)) i j.
  Proof. reflexivity. Qed.

  Lemma B_gram i j : i < L -> j < L -> B i j = dot D (Z i) (Z j).
  Proof.
    intros Hi Hj. rewrite B_is_sub_mds. apply (lm_mds_identity L D XL); try assumption.
    intros a b Ha Hb _. cbv beta. rewrite Hdist by (apply lmk_lt; assumption). reflexivity.
  Qed.

  Lemma B_sym i j : i < L -> j < L -> B i j = B j i.
  Proof. intros Hi Hj. rewrite !B_gram by assumption. apply dot_comm. Qed.

  Lemma BV_entry i c : i < L -> c < d -> sumn L (fun t => B i t * V t c) = V i c * lam c.
  Proof.
    intros Hi Hc. pose proof (HBV i c Hi Hc) as H. rewrite mmul_diag_r in H by assumption. exact H.
  Qed.

  Lemma rank_entry i j : i < L -> j < L -> B i j = sumn d (fun c => V i c * lam c * V j c).
  Proof.
    intros Hi Hj. rewrite (Hrank i j Hi Hj). unfold mmul at 1. apply sumn_ext. intros c Hc.
    rewrite mmul_diag_l by assumption. unfold mtrans. ring.
  Qed.

  Lemma Z_col_sum k : sumn L (fun i => Z i k) = 0.
  Proof.
    unfold Z, lm_centered. rewrite sumn_sub, sumn_const. unfold colmean, colsum. field. exact HL.
  Qed.

  Lemma V_col_sum c : c < d -> lam c <> 0 -> sumn L (fun t => V t c) = 0.
  Proof.
    intros Hc Hl. apply (fcancel_l (lam c)); [assumption|].
    rewrite <- sumn_mul_l.
    rewrite (sumn_ext L _ (fun t => sumn L (fun j => B t j * V j c))).
    2:{ intros t Ht. rewrite BV_entry by assumption. ring. }
    rewrite sumn_swap. apply sumn_zero'. intros j Hj. rewrite sumn_mul_r.
    rewrite (sumn_ext L _ (fun i => mds_matrix_full L (fun a b => dist (lmk lm a) (lmk lm b)) i j))
      by (intros; apply B_is_sub_mds).
    rewrite mds_matrix_full_col_sum by assumption. ring.
  Qed.

  (* mean squared landmark distance to landmark t *)
  Lemma mu_identity t :
    t < L -> mu t = sumn L (fun i => dot D (Z i) (Z i)) / of_nat L + dot D (Z t) (Z t).
  Proof.
    intros Ht. unfold mu, landmark_mu, colmean, colsum.
    rewrite (sumn_ext L _ (fun i => dot D (Z i) (Z i) - two * dot D (Z i) (Z t) + dot D (Z t) (Z t))).
    2:{ intros i Hi. rewrite <- dot_sq_expand.
        assert (E : landmark_dist_sq lm dist i t = lm_sqdist D XL i t).
        { unfold landmark_dist_sq. destruct (Nat.leb i t).
          - rewrite Hdist by (apply lmk_lt; assumption). reflexivity.
          - rewrite Hdist by (apply lmk_lt; assumption). apply (lm_sqdist_sym D XL t i). }
        rewrite E. unfold lm_sqdist. apply sumn_ext. intros k _. unfold Z, lm_centered. ring. }
    rewrite sumn_add, sumn_sub, sumn_mul_l, sumn_const.
    assert (E0 : sumn L (fun i => dot D (Z i) (Z t)) = 0).
    { unfold dot. rewrite sumn_swap. apply sumn_zero'. intros k _. rewrite sumn_mul_r.
      rewrite Z_col_sum. ring. }
    rewrite E0. field. exact HL.
  Qed.

  (* squared distance of any sample to landmark t, around the landmark mean *)
  Lemma delta_identity a t :
    a < N -> t < L ->
    dist a (lmk lm t) * dist a (lmk lm t) =
      dot D (fun k => X a k - colmean L XL k) (fun k => X a k - colmean L XL k)
      - two * dot D (fun k => X a k - colmean L XL k) (Z t) + dot D (Z t) (Z t).
  Proof.
    intros Ha Ht. rewrite Hdist by (try assumption; apply lmk_lt; assumption).
    rewrite <- dot_sq_expand. unfold lm_sqdist. apply sumn_ext. intros k _.
    unfold Z, lm_centered, XL. ring.
  Qed.

  (* the triangulated row of a sample whose centred position is  sum_i coef_i Z_i *)
  Lemma tri_row_of_span a (coef : vec F) c :
    a < N -> c < d -> lam c <> 0 ->
    (forall k, k < D -> X a k - colmean L XL k = sumn L (fun i => coef i * Z i k)) ->
    tri_spec_row L lm dist mu (scale_by V s) lam a c = s c * sumn L (fun i => coef i * V i c).
  Proof.
    intros Ha Hc Hl Hspan. unfold tri_spec_row.
    set (u := fun k => X a k - colmean L XL k).
    set (Q := sumn L (fun i => dot D (Z i) (Z i)) / of_nat L).
    (* u . Z_t = sum_i coef_i B_it *)
    assert (HuZ : forall t, t < L -> dot D u (Z t) = sumn L (fun i => coef i * B i t)).
    { intros t Ht. unfold dot.
      rewrite (sumn_ext D _ (fun k => sumn L (fun i => coef i * Z i k * Z t k))).
      2:{ intros k Hk. unfold u. rewrite Hspan by assumption. rewrite sumn_mul_r. reflexivity. }
      rewrite sumn_swap. apply sumn_ext. intros i Hi. rewrite B_gram by assumption.
      unfold dot. rewrite <- sumn_mul_l. apply sumn_ext. intros; ring. }
    rewrite (sumn_ext L _ (fun t => (dot D u u - Q) * s c * V t c
                                    - two * s c * (V t c * sumn L (fun i => coef i * B i t)))).
    2:{ intros t Ht. rewrite delta_identity, mu_identity by assumption. fold u. fold Q.
        rewrite HuZ by assumption. unfold scale_by. ring. }
    rewrite sumn_sub, !sumn_mul_l, V_col_sum by assumption.
    (* sum_t V_tc sum_i coef_i B_it = sum_i coef_i V_ic lam_c *)
    assert (E : sumn L (fun t => V t c * sumn L (fun i => coef i * B i t)) =
                lam c * sumn L (fun i => coef i * V i c)).
    { rewrite (sumn_ext L _ (fun t => sumn L (fun i => coef i * (B i t * V t c)))).
      2:{ intros t Ht. rewrite <- sumn_mul_l. apply sumn_ext. intros; ring. }
      rewrite sumn_swap. rewrite <- sumn_mul_l. apply sumn_ext. intros i Hi.
      rewrite sumn_mul_l, BV_entry by assumption. ring. }
    rewrite E. unfold lm_neg_half, two in *. field.
    repeat split; first [assumption | exact H2].
  Qed.

  (* the quadratic form: e^T V diag(lam) V^T e = |Z^T e|^2 *)
  Lemma span_isometry (e : vec F) :
    sumn d (fun c => (s c * sumn L (fun i => e i * V i c)) * (s c * sumn L (fun i => e i * V i c))) =
    sumn D (fun k => sumn L (fun i => e i * Z i k) * sumn L (fun i => e i * Z i k)).
  Proof.
    transitivity (sumn L (fun i => sumn L (fun j => e i * e j * B i j))).
    - rewrite (sumn_ext d _ (fun c => sumn L (fun i => sumn L (fun j =>
                 e i * e j * (V i c * lam c * V j c))))).
      2:{ intros c Hc.
          replace (s c * sumn L (fun i => e i * V i c) * (s c * sumn L (fun i => e i * V i c)))
            with (lam c * (sumn L (fun i => e i * V i c) * sumn L (fun j => e j * V j c)))
            by (rewrite <- (Hs c Hc); ring).
          rewrite bilinear_expand, <- sumn_mul_l. apply sumn_ext. intros i _.
          rewrite <- sumn_mul_l. apply sumn_ext. intros j _. ring. }
      rewrite (sumn_swap d L). apply sumn_ext. intros i Hi.
      rewrite (sumn_swap d L). apply sumn_ext. intros j Hj.
      rewrite rank_entry by assumption. rewrite <- sumn_mul_l. reflexivity.
    - symmetry.
      rewrite (sumn_ext D _ (fun k => sumn L (fun i => sumn L (fun j =>
                 e i * e j * (Z i k * Z j k))))) by (intros; apply bilinear_expand).
      rewrite (sumn_swap D L). apply sumn_ext. intros i Hi.
      rewrite (sumn_swap D L). apply sumn_ext. intros j Hj.
      rewrite B_gram by assumption. unfold dot. rewrite <- sumn_mul_l. reflexivity.
  Qed.

  (* the landmarks span the data: every non-landmark sample, centred at the landmark mean, is a
     combination of the centred landmarks *)
  Definition landmarks_span : Prop :=
    forall a, a < N -> ~ In a lm ->
      exists coef : vec F, forall k, k < D -> X a k - colmean L XL k = sumn L (fun i => coef i * Z i k).

  (* any embedding whose landmark rows are the scaled eigenvectors and whose other rows are the
     triangulation reproduces every pairwise distance *)
  Theorem rows_reproduce (y : nat -> vec F) :
    landmarks_span ->
    (forall i c, i < L -> c < d -> y (lmk lm i) c = scale_by V s i c) ->
    (forall a c, a < N -> ~ In a lm -> c < d ->
        y a c = if keep c then tri_spec_row L lm dist mu (scale_by V s) lam a c else 0) ->
    forall a b, a < N -> b < N ->
      sumn d (fun c => (y a c - y b c) * (y a c - y b c)) = dist a b * dist a b.
  Proof.
    intros Hspan Hyl Hyt.
    (* every sample has coefficients *)
    assert (Hcoef : forall a, a < N -> exists coef : vec F,
               (forall k, k < D -> X a k - colmean L XL k = sumn L (fun i => coef i * Z i k)) /\
               (forall c, c < d -> y a c = s c * sumn L (fun i => coef i * V i c))).
    { intros a Ha. destruct (in_dec Nat.eq_dec a lm) as [Hin|Hnin].
      - destruct (In_nth lm a 0%nat Hin) as [i [Hi Hai]]. fold L in Hi.
        exists (fun t => delta i t). split.
        + intros k Hk. rewrite sumn_delta_l by assumption. unfold Z, lm_centered, XL, lmk.
          rewrite Hai. reflexivity.
        + intros c Hc. rewrite sumn_delta_l by assumption.
          change a with a in *. rewrite <- Hai. fold (lmk lm i). rewrite Hyl by assumption.
          unfold scale_by. ring.
      - destruct (Hspan a Ha Hnin) as [coef Hco]. exists coef. split; [exact Hco|].
        intros c Hc. rewrite Hyt by assumption. destruct (keep c) eqn:Ek.
        + apply tri_row_of_span; try assumption. apply Hkeep; assumption.
        + rewrite (Hdrop c Hc Ek). ring. }
    intros a b Ha Hb.
    destruct (Hcoef a Ha) as [ca [Hxa Hya]]. destruct (Hcoef b Hb) as [cb [Hxb Hyb]].
    rewrite Hdist by assumption. unfold lm_sqdist.
    set (e := fun i => ca i - cb i).
    rewrite (sumn_ext d _ (fun c => (s c * sumn L (fun i => e i * V i c)) *
                                    (s c * sumn L (fun i => e i * V i c)))).
    2:{ intros c Hc. rewrite Hya, Hyb by assumption.
        assert (E : sumn L (fun i => e i * V i c) =
                    sumn L (fun i => ca i * V i c) - sumn L (fun i => cb i * V i c)).
        { rewrite <- sumn_sub. apply sumn_ext. intros; unfold e; ring. }
        rewrite E. ring. }
    rewrite span_isometry. apply sumn_ext. intros k Hk.
    assert (E : sumn L (fun i => e i * Z i k) = X a k - X b k).
    { rewrite (sumn_ext L _ (fun i => ca i * Z i k - cb i * Z i k)) by (intros; unfold e; ring).
      rewrite sumn_sub, <- Hxa, <- Hxb by assumption. ring. }
    rewrite E. reflexivity.
  Qed.
End Euclid.
