(* ====================================================================== *)
(*  Properties_C09.v — Laplacian Eigenmaps and Diffusion Map solve their   *)
(*  stated spectral problems.  Statements only; proofs live in             *)
(*  Lap_Proof_Lap.v, Lap_Proof_Embed.v, Lap_Proof_Dm.v, Mat_EigSelect*.v.  *)
(*  Generic theorems quantify over EVERY field (F, Fo, Ff), every size,    *)
(*  every input and every value of the oracles exp / sqrt / pow.           *)
(*  `_partial`: what is left to cited mathematics is said at the theorem.  *)
(* ====================================================================== *)
Require Import Arith Lia List Bool ZArith QArith Qcanon Permutation.
From TK Require Import Mat_Sums Mat_Core Mat_Qc Spectral_KyFan Mat_EigSelect EigSelect Mat_EigSelect_Tie
                       Lap_Model Lap_Spec Lap_Exec Lap_Proof_Lap Lap_Proof_Embed Lap_Proof_Dm
                       Lap_Proof_Total Lap_Proof_Complete Lap_Proof_Order Lap_Proof_DmOrder Lap_Proof_Exec
                       Lap_Proof_Method Lap_Proof_KyFan Lap_Proof_KyFanQc Lap_Proof_AbsEps Lap_Proof_NbOrder.
Import ListNotations.
Local Open Scope list_scope.
Local Open Scope nat_scope.

(* 1. compute_laplacian: whenever the model of the routine returns (no access outside a container),
      the triplet sum is L = D - W with W = A + A^T (A = heat weights on (i, N_i(p)), p < k), D = W 1,
      every triplet is inside the n x n matrix and every neighbour id used is < n *)
Theorem Lap_laplacian_matrix :
  forall (F : Type) (Fo : FieldOps F) (Ff : IsField F)
         (dist : nat -> nat -> F) (width : F) (expo : F -> F)
         (n : nat) (nbrs : list (list nat)) (k : nat) (ts : list (@triplet F)) (D : list F),
    k = length (hd [] nbrs) ->
    compute_laplacian dist width expo n nbrs = LOk (ts, D) ->
    let heat := heat_of dist width expo in
    length D = n /\
    triplets_in_range n ts = true /\
    (forall i q, i < n -> q < k -> nb_at nbrs i q < n) /\
    (forall r c, r < n -> c < n -> mat_of_triplets ts r c = matL heat k nbrs n r c) /\
    (forall r, r < n -> nth r D 0%F = degD heat k nbrs n r).
Proof. exact @compute_laplacian_spec_k. Qed.
Print Assumptions Lap_laplacian_matrix.

Definition ex_dist : list (list Qc) :=
  [[qz 0; qz 1; qz 2]; [qz 1; qz 0; qz 1]; [qz 2; qz 1; qz 0]].
Definition ex_expo (x : Qc) : Qc :=
  if qeqb x (qz 0) then qz 1 else if qeqb x (qz (-1)) then qfrac 1 2 else qfrac 1 4.
Definition ex_nbrs : list (list nat) := [[1; 2]; [0; 2]; [0; 1]].

Example Lap_laplacian_matrix_nonvacuous :
  exists ts D, compute_laplacian (mof ex_dist) (qz 1) ex_expo 3 ex_nbrs = LOk (ts, D) /\
    mlist_eqb (mtab 3 3 (mat_of_triplets ts))
      [[qfrac 3 2; qz (-1); qfrac (-1) 2]; [qz (-1); qz 2; qz (-1)]; [qfrac (-1) 2; qz (-1); qfrac 3 2]] = true /\
    vlist_eqb D [qfrac 3 2; qz 2; qfrac 3 2] = true.
Proof. eexists. eexists. split; [vm_compute; reflexivity|]. split; vm_compute; reflexivity. Qed.

(* the checked accesses are not decoration: a neighbour id >= n is an out-of-range write to D *)
Example Lap_laplacian_oob_witness :
  compute_laplacian (mof ex_dist) (qz 1) ex_expo 3 [[1; 2]; [0; 3]; [0; 1]] = LOOB 4 3 3.
Proof. vm_compute. reflexivity. Qed.

(* 2. L is symmetric and L 1 = 0 (the constant vector is the trivial eigenvector that skip = 1 drops) *)
Theorem Lap_L_symmetric :
  forall (F : Type) (Fo : FieldOps F) (Ff : IsField F) (heat : nat -> nat -> F)
         (n : nat) (nbrs : list (list nat)) (k : nat),
    msym n (matL heat k nbrs n).
Proof. exact @matL_sym_gen. Qed.
Print Assumptions Lap_L_symmetric.

Theorem Lap_L_ones_zero :
  forall (F : Type) (Fo : FieldOps F) (Ff : IsField F) (heat : nat -> nat -> F)
         (n : nat) (nbrs : list (list nat)) (k : nat) (i : nat),
    i < n -> sumn n (fun j => matL heat k nbrs n i j) = 0%F.
Proof. exact @matL_row_sum_gen. Qed.
Print Assumptions Lap_L_ones_zero.

(* 3. selection: with the selector table generated from the current source and skip(SmallestEigenvalues)
      from the generated skip table, columns 1 .. d of the solver's answer are returned *)
Theorem Lap_select_skip_one :
  forall N d, d + 1 <= N -> le_select N d = Some (1, d).
Proof. exact le_select_ok. Qed.
Print Assumptions Lap_select_skip_one.

Example Lap_select_nonvacuous : le_select 5 2 = Some (1, 2) /\ le_select 2 2 = None.
Proof. split; vm_compute; reflexivity. Qed.

(* 4. normalisation: from ANY answer of the generalised solver meeting its contract
      (L V = Dm V Lambda, V^T Dm V = I), the returned columns satisfy L y = lambda Dm y,
      Y^T Dm Y = I and Y^T Dm 1 = 0.
      _partial: that lam(1) .. lam(d) are the d SMALLEST NON-ZERO eigenvalues needs the solver's ascending
      order and the simplicity of the eigenvalue 0 (connected graph); no order is available on an abstract
      field, so this part is measured by the check against a reference decomposition, not proved. *)
Theorem Lap_embedding_partial :
  forall (F : Type) (Fo : FieldOps F) (Ff : IsField F) (N d : nat) (L Dm V : mat F) (lam : vec F),
    d + 1 <= N ->
    msym N L -> (forall i, i < N -> sumn N (fun j => L i j) = 0%F) ->
    msym N Dm ->
    gen_contract N L Dm V lam ->
    (forall c, c < d -> lam (1 + c) <> 0%F) ->
    exists Y, le_embedding N d V = Some Y /\
              (forall r c, Y r c = V r (1 + c)) /\
              le_spec N d L Dm Y (fun c => lam (1 + c)).
Proof. exact @le_embedding_normalised. Qed.
Print Assumptions Lap_embedding_partial.

(* path graph on 3 nodes, unit weights: L = [[1,-1,0],[-1,2,-1],[0,-1,1]], D = diag(1,2,1);
   generalised eigenvalues 0, 1, 2 *)
Definition ex_L : mat Qc := mof [[qz 1; qz (-1); qz 0]; [qz (-1); qz 2; qz (-1)]; [qz 0; qz (-1); qz 1]].
Definition ex_D : mat Qc := mdiag (vof [qz 1; qz 2; qz 1]).
(* the pair (1, (1,0,-1)/sqrt 2) is irrational: the example lists the pairs in the order 0, 2, 1 and uses the
   first two columns (the contract clauses are checked on them) *)
Definition ex_V2 : mat Qc :=
  mof [[qfrac 1 2; qfrac 1 2; qz 1]; [qfrac 1 2; qfrac (-1) 2; qz 0]; [qfrac 1 2; qfrac 1 2; qz (-1)]].
Definition ex_lam2 : vec Qc := vof [qz 0; qz 2; qz 1].

Example Lap_embedding_nonvacuous :
  msym 3 ex_L /\ (forall i, i < 3 -> sumn 3 (fun j => ex_L i j) = 0%F) /\ msym 3 ex_D /\
  meq 3 2 (mmul 3 ex_L ex_V2) (mmul 3 ex_D (mmul 3 ex_V2 (mdiag ex_lam2))) /\
  meq 2 2 (mmul 3 (mtrans ex_V2) (mmul 3 ex_D ex_V2)) mI /\
  ex_lam2 1 <> 0%F.
Proof.
  split; [apply read_msym_by_compute; vm_compute; reflexivity|].
  split.
  { intros i Hi. destruct i as [|[|[|i]]]; try lia; apply Qc_is_canon; vm_compute; reflexivity. }
  split; [apply read_msym_by_compute; vm_compute; reflexivity|].
  split; [apply meq_by_compute; vm_compute; reflexivity|].
  split; [apply meq_by_compute; vm_compute; reflexivity|].
  intros H. vm_compute in H. discriminate.
Qed.

(* 5. y^T L y = sum over the directed neighbour pairs of heat * (y_i - y_j)^2 : L is positive
      semi-definite whenever the heat weights are non-negative (what makes 0 the smallest eigenvalue) *)
Theorem Lap_quadratic_form :
  forall (F : Type) (Fo : FieldOps F) (Ff : IsField F) (heat : nat -> nat -> F)
         (n : nat) (nbrs : list (list nat)) (k : nat),
    (forall i q, i < n -> q < k -> nb_at nbrs i q < n) ->
    forall y : vec F,
    dot n y (mv n (matL heat k nbrs n) y) =
    sumn n (fun i => sumn k (fun q =>
      (heat i (nb_at nbrs i q) * ((y i - y (nb_at nbrs i q)) * (y i - y (nb_at nbrs i q))))%F)).
Proof. exact @matL_quadratic_form. Qed.
Print Assumptions Lap_quadratic_form.

(* ---------------------------------------------------------------------- *)
(*  Diffusion Map                                                          *)
(* ---------------------------------------------------------------------- *)

(* 6. the list program that is extracted and run IS the entrywise function the theorems are about *)
Theorem Dm_exec_model_ok :
  forall (F : Type) (Fo : FieldOps F) (Ff : IsField F)
         (dist : nat -> nat -> F) (width : F) (expo sqrto : F -> F) (n : nat),
    compute_diffusion_matrix dist width expo sqrto n = mtab n n (dm_matrix dist width expo sqrto n) /\
    dm_sqrt_args dist width expo n = vtab n (colsum n (dm_k1 dist width expo n)).
Proof. exact dm_exec_model_ok_both. Qed.
Print Assumptions Dm_exec_model_ok.

(* 7. the two normalisation passes: M = S^-1 (P^-1 K P^-1) S^-1 with K the (symmetric) kernel written by the
      (i, j >= i) loop, p = K 1 and s_j = sqrt-oracle(q_j), q = (P^-1 K P^-1) 1 *)
Theorem Dm_diffusion_matrix :
  forall (F : Type) (Fo : FieldOps F) (Ff : IsField F)
         (dist : nat -> nat -> F) (width : F) (expo sqrto : F -> F) (n : nat),
    let K := dm_kernel dist width expo in
    (forall i j, K i j = K j i) /\
    ((forall i, i < n -> dm_P K n i <> 0%F) ->
     let s := dm_p2 dist width expo sqrto n in
     (forall i, i < n -> s i <> 0%F) ->
     (forall j, j < n -> s j = sqrto (dm_Q K n j)) /\
     meq n n (dm_matrix dist width expo sqrto n) (dm_sym K n s)).
Proof. exact dm_diffusion_matrix_full. Qed.
Print Assumptions Dm_diffusion_matrix.

Definition exd_dist : nat -> nat -> Qc := mof [[qz 0; qz 1]; [qz 7; qz 0]].
Definition exd_expo (x : Qc) : Qc := if qeqb x (qz 0) then qz 3 else qz 1.
Definition exd_sqrt (x : Qc) : Qc := if qeqb x (qfrac 1 4) then qfrac 1 2 else qz 0.

Example Dm_diffusion_matrix_nonvacuous :
  (forall i, i < 2 -> dm_P (dm_kernel exd_dist (qz 1) exd_expo) 2 i <> 0%F) /\
  (forall i, i < 2 -> dm_p2 exd_dist (qz 1) exd_expo exd_sqrt 2 i <> 0%F) /\
  mlist_eqb (compute_diffusion_matrix exd_dist (qz 1) exd_expo exd_sqrt 2)
            [[qfrac 3 4; qfrac 1 4]; [qfrac 1 4; qfrac 3 4]] = true.
Proof.
  split.
  { intros i Hi H. destruct i as [|[|i]]; try lia; vm_compute in H; discriminate. }
  split.
  { intros i Hi H. destruct i as [|[|i]]; try lia; vm_compute in H; discriminate. }
  vm_compute. reflexivity.
Qed.

(* 8. the normalised kernel M has the eigenpair (1, s); T = Q^-1 K1 is row-stochastic (the diffusion
      operator); M = S T S^-1, so eigenvectors of M divided by s are right eigenvectors of T *)
Theorem Dm_operator_facts :
  forall (F : Type) (Fo : FieldOps F) (Ff : IsField F) (K : mat F) (n : nat) (s : vec F),
    (forall i, i < n -> (s i * s i)%F = dm_Q K n i) ->
    (forall i, i < n -> s i <> 0%F) ->
    eigvec n (dm_sym K n s) 1%F s /\
    (forall i, i < n -> rowsum n (dm_markov K n) i = 1%F) /\
    (forall l psi, eigvec n (dm_sym K n s) l psi ->
                   eigvec n (dm_markov K n) l (fun i => (psi i / s i)%F)).
Proof. exact dm_operator_facts. Qed.
Print Assumptions Dm_operator_facts.

Definition exo_K : mat Qc := mof [[qz 3; qz 1]; [qz 1; qz 3]].
Definition exo_s : vec Qc := vof [qfrac 1 2; qfrac 1 2].

Example Dm_operator_facts_nonvacuous :
  (forall i, i < 2 -> (exo_s i * exo_s i)%F = dm_Q exo_K 2 i) /\
  (forall i, i < 2 -> exo_s i <> 0%F).
Proof.
  split.
  - intros i Hi. destruct i as [|[|i]]; try lia; apply Qc_is_canon; vm_compute; reflexivity.
  - intros i Hi H. destruct i as [|[|i]]; try lia; vm_compute in H; discriminate.
Qed.

(* 9. embed(): with the generated selector table (LargestEigenvalues, request d+1) the returned column c is
      V(:, N-d-1+c) * pow(lam(N-d-1+c), t) / V(:, N-1) — for every pow oracle *)
Theorem Dm_embedding_columns :
  forall (F : Type) (Fo : FieldOps F) (N d t : nat) (V : mat F) (lam : vec F)
         (powo : F -> nat -> F),
    d + 1 <= N ->
    dm_embedding N d t V lam powo =
      Some (fun r c => ((V r (N - (d + 1) + c)%nat * powo (lam (N - (d + 1) + c)%nat) t)
                        / V r (N - (d + 1) + d)%nat)%F).
Proof. exact @dm_embedding_ok. Qed.
Print Assumptions Dm_embedding_columns.

Example Dm_embedding_columns_nonvacuous :
  dm_select 5 3 = Some ((2, 3), (2, 3)) /\ dm_select 2 3 = None.
Proof. split; vm_compute; reflexivity. Qed.

(* 10. the coordinates are lambda_c^t psi_c / psi_top for the d pairs ranked just below the top one, and
       each returned column is a right eigenvector of the diffusion operator T for lambda_c.
       _partial: that the solver's last column is a multiple of s (the eigenvalue 1 of M is simple and is the
       largest: Perron-Frobenius for a positive kernel) and that the d pairs are the LEADING non-trivial ones
       (ascending order of the solver) are hypotheses here, measured by the check, not proved. *)
Theorem Dm_columns_partial :
  forall (F : Type) (Fo : FieldOps F) (Ff : IsField F) (N d t : nat) (Kern : mat F) (s : vec F)
         (V : mat F) (lam : vec F) (powo : F -> nat -> F) (alpha : F),
    d + 1 <= N ->
    (forall i, i < N -> (s i * s i)%F = dm_Q Kern N i) ->
    (forall i, i < N -> s i <> 0%F) ->
    (forall c, c < d ->
       eigvec N (dm_sym Kern N s) (lam (N - (d + 1) + c)) (mcol V (N - (d + 1) + c))) ->
    (forall x, powo x t = fpow x t) ->
    alpha <> 0%F -> (forall i, i < N -> V i (N - 1) = (alpha * s i)%F) ->
    exists Y, dm_embedding N d t V lam powo = Some Y /\
      (forall r c, r < N -> c < d ->
         Y r c = dm_spec d t (fun x c0 => V x (N - (d + 1) + c0))
                         (fun c0 => lam (N - (d + 1) + c0))
                         (fun x => V x (N - 1)) r c) /\
      (forall c, c < d ->
         exists Y', veq N (mcol Y c) Y' /\
                    eigvec N (dm_markov Kern N) (lam (N - (d + 1) + c)) Y').
Proof. exact @dm_columns. Qed.
Print Assumptions Dm_columns_partial.

(* K = [[3,1],[1,3]]: p = (4,4), K1 = K/16, q = (1/4,1/4), s = (1/2,1/2), M = K/4 with eigenpairs
   (1/2, (1,-1)), (1, (1,1));  d = 1, alpha = 1... V = [[1, 1/2],[-1, 1/2]] (columns need not be unit here) *)
Definition exc_V : mat Qc := mof [[qz 1; qfrac 1 2]; [qz (-1); qfrac 1 2]].
Definition exc_lam : vec Qc := vof [qfrac 1 2; qz 1].

Example Dm_columns_nonvacuous :
  (forall c, c < 1 ->
     eigvec 2 (dm_sym exo_K 2 exo_s) (exc_lam (2 - (1 + 1) + c)) (mcol exc_V (2 - (1 + 1) + c))) /\
  (forall i, i < 2 -> exc_V i (2 - 1) = (qz 1 * exo_s i)%F) /\
  (* and the conclusion, computed for t = 3: (1/2)^3 * (1,-1) / (1/2, 1/2) = (1/4, -1/4) *)
  (match dm_embedding 2 1 3 exc_V exc_lam (@fpow Qc _) with
   | Some Y => mlist_eqb (mtab 2 1 Y) [[qfrac 1 4]; [qfrac (-1) 4]]
   | None => false end) = true.
Proof.
  split.
  { intros c Hc. assert (c = 0) by lia. subst c. apply veq_by_compute. vm_compute. reflexivity. }
  split.
  { intros i Hi. destruct i as [|[|i]]; try lia; apply Qc_is_canon; vm_compute; reflexivity. }
  vm_compute. reflexivity.
Qed.

(* 12. compute_laplacian never leaves a container on well-formed neighbour lists: at least n lists, each of
       the first n with at least k = |neighbors[0]| entries, the first k entries of each < n — and ONLY then
       (Lap_laplacian_ok_iff: the model returns OOB exactly when this precondition fails). *)
Theorem Lap_laplacian_ok_iff :
  forall (F : Type) (Fo : FieldOps F) (Ff : IsField F) (dist : nat -> nat -> F) (width : F) (expo : F -> F)
         (n : nat) (nbrs : list (list nat)) (k : nat),
    k = length (hd [] nbrs) -> nbrs <> [] ->
    ((exists ts D, compute_laplacian dist width expo n nbrs = LOk (ts, D)) <->
     (n <= length nbrs /\
      (forall i, i < n -> k <= length (nth i nbrs [])) /\
      (forall i q, i < n -> q < k -> nb_at nbrs i q < n))).
Proof. exact @compute_laplacian_ok_iff. Qed.
Print Assumptions Lap_laplacian_ok_iff.

Theorem Lap_laplacian_total :
  forall (F : Type) (Fo : FieldOps F) (dist : nat -> nat -> F) (width : F) (expo : F -> F)
         (n : nat) (nbrs : list (list nat)) (k : nat),
    n <= length nbrs ->
    (forall i, i < n -> k <= length (nth i nbrs [])) ->
    (forall i q, i < n -> q < k -> nb_at nbrs i q < n) ->
    k = length (hd [] nbrs) -> nbrs <> [] ->
    exists ts D, compute_laplacian dist width expo n nbrs = LOk (ts, D).
Proof. exact @compute_laplacian_total. Qed.
Print Assumptions Lap_laplacian_total.

Example Lap_laplacian_total_nonvacuous :
  3 <= length ex_nbrs /\ (forall i, i < 3 -> 2 <= length (nth i ex_nbrs [])) /\
  (forall i q, i < 3 -> q < 2 -> nb_at ex_nbrs i q < 3) /\ 2 = length (hd [] ex_nbrs) /\ ex_nbrs <> [].
Proof.
  split; [cbn; lia|]. split.
  { intros i Hi. destruct i as [|[|[|i]]]; cbn; lia. }
  split.
  { intros i q Hi Hq. destruct i as [|[|[|i]]]; destruct q as [|[|q]]; cbn; lia. }
  split; [reflexivity|discriminate].
Qed.

(* 13. the ORDER part, at the ordered field Qc (the instance that is run): with non-negative heat weights L is
       positive semi-definite; with positive weights on a connected neighbourhood graph its kernel is the
       constant vectors *)
Theorem Lap_psd_Qc :
  forall (heat : nat -> nat -> Qc) (n : nat) (nbrs : list (list nat)) (k : nat),
    (forall i q, i < n -> q < k -> nb_at nbrs i q < n) ->
    forall y : vec Qc,
    (forall i q, i < n -> q < k -> (0 <= heat i (nb_at nbrs i q))%Qc) ->
    (0 <= dot n y (mv n (matL heat k nbrs n) y))%Qc.
Proof. exact lap_psd. Qed.
Print Assumptions Lap_psd_Qc.

Theorem Lap_kernel_connected_Qc :
  forall (heat : nat -> nat -> Qc) (n : nat) (nbrs : list (list nat)) (k : nat),
    (forall i q, i < n -> q < k -> nb_at nbrs i q < n) ->
    (forall i q, i < n -> q < k -> (0 < heat i (nb_at nbrs i q))%Qc) ->
    forall y : vec Qc,
    lconnected n nbrs k ->
    dot n y (mv n (matL heat k nbrs n) y) = 0%Qc ->
    forall i, i < n -> y i = y 0.
Proof. exact lap_kernel_connected. Qed.
Print Assumptions Lap_kernel_connected_Qc.

(* 14. Laplacian Eigenmaps, full statement at Qc: from ANY answer of the generalised solver that meets its
       contract and lists its eigenvalues in ascending order, on a connected graph with positive weights: all
       eigenvalues are >= 0, every one but lam_0 is > 0, the returned columns are generalised eigenvectors for
       lam_1 .. lam_d, D-orthonormal, D-orthogonal to 1, and no eigenvalue of the answer beyond lam_d is
       smaller than a kept one: the d smallest non-zero eigenvalues of the answer.
       _partial: that the answer is COMPLETE (its N pairs exhaust the spectrum of the pencil) is the solver's
       contract plus finite-dimensional linear algebra (N D-orthonormal vectors form a basis), cited. *)
Theorem Lap_smallest_nonzero_Qc_partial :
  forall (heat : nat -> nat -> Qc) (n : nat) (nbrs : list (list nat)) (k d : nat)
         (Dm V : mat Qc) (lam : vec Qc),
    d + 1 <= n ->
    (forall i q, i < n -> q < k -> nb_at nbrs i q < n) ->
    (forall i q, i < n -> q < k -> (0 < heat i (nb_at nbrs i q))%Qc) ->
    lconnected n nbrs k ->
    msym n Dm ->
    gen_contract n (matL heat k nbrs n) Dm V lam ->
    (forall a b, a <= b -> b < n -> (lam a <= lam b)%Qc) ->
    (forall c, c < n -> (0 <= lam c)%Qc) /\
    (forall c, 1 <= c -> c < n -> (0 < lam c)%Qc) /\
    (exists Y, le_embedding n d V = Some Y /\
               (forall r c, Y r c = V r (1 + c)) /\
               le_spec n d (matL heat k nbrs n) Dm Y (fun c => lam (1 + c))) /\
    (forall c c', c < d -> d < c' -> c' < n -> (lam (1 + c)%nat <= lam c')%Qc).
Proof. exact le_smallest_nonzero. Qed.
Print Assumptions Lap_smallest_nonzero_Qc_partial.

(* complete rational instance: 4-cycle with unit weights and one neighbour list per node = both cycle
   neighbours.  W = 2 * adjacency, D = 4 I, L = 4 I - 2 Adj; generalised eigenvalues 0, 1, 1, 2 with the
   Hadamard vectors / 4 ... columns scaled so that V^T D V = I (entries +-1/4). *)
Definition c4_nbrs : list (list nat) := [[1; 3]; [0; 2]; [1; 3]; [0; 2]].
Definition c4_heat : nat -> nat -> Qc := fun _ _ => qz 1.
Definition q4 : Qc := qfrac 1 4.
Definition c4_V : mat Qc :=
  mof [[q4; q4; q4; q4]; [q4; q4; (-q4)%Qc; (-q4)%Qc]; [q4; (-q4)%Qc; (-q4)%Qc; q4]; [q4; (-q4)%Qc; q4; (-q4)%Qc]].
Definition c4_lam : vec Qc := vof [qz 0; qz 1; qz 1; qz 2].
Definition c4_D : mat Qc := mdiag (degD c4_heat 2 c4_nbrs 4).

Example Lap_smallest_nonzero_nonvacuous :
  (forall i q, i < 4 -> q < 2 -> nb_at c4_nbrs i q < 4) /\
  (forall i q, i < 4 -> q < 2 -> (0 < c4_heat i (nb_at c4_nbrs i q))%Qc) /\
  lconnected 4 c4_nbrs 2 /\
  msym 4 c4_D /\
  gen_contract 4 (matL c4_heat 2 c4_nbrs 4) c4_D c4_V c4_lam /\
  (forall a b, a <= b -> b < 4 -> (c4_lam a <= c4_lam b)%Qc).
Proof.
  split.
  { intros i q Hi Hq. destruct i as [|[|[|[|i]]]]; destruct q as [|[|q]]; cbn; lia. }
  split.
  { intros i q Hi Hq. reflexivity. }
  split.
  { intros i Hi. destruct i as [|[|[|[|i]]]]; try lia.
    - apply lr_refl.
    - apply (lr_fwd 4 c4_nbrs 2 0 0 0); [apply lr_refl|lia|lia].
    - apply (lr_fwd 4 c4_nbrs 2 0 1 1); [|lia|lia].
      apply (lr_fwd 4 c4_nbrs 2 0 0 0); [apply lr_refl|lia|lia].
    - apply (lr_fwd 4 c4_nbrs 2 0 0 1); [apply lr_refl|lia|lia]. }
  split; [apply mdiag_sym|].
  split.
  { split; apply meq_by_compute; vm_compute; reflexivity. }
  intros a b Hab Hb.
  destruct a as [|[|[|[|a]]]]; destruct b as [|[|[|[|b]]]]; try lia; vm_compute; discriminate.
Qed.

(* 16. the answer exhausts the spectrum of the pencil: with the completeness relation V (V^T Dm) = I (the other
       half of "V is square and Dm-orthonormal"; measured on the reference decomposition by the check), a scalar
       different from every lam_c has only the trivial generalised eigenvector.  Any field. *)
Theorem Lap_spectrum_complete :
  forall (F : Type) (Fo : FieldOps F) (Ff : IsField F) (N : nat) (L Dm V : mat F) (lam : vec F),
    msym N L -> msym N Dm ->
    gen_contract N L Dm V lam ->
    meq N N (mmul N V (mmul N (mtrans V) Dm)) mI ->
    forall (mu : F) (y : vec F),
      gen_eigvec N L Dm mu y ->
      (forall c, c < N -> lam c <> mu) ->
      forall i, i < N -> y i = 0%F.
Proof. exact @spectrum_complete. Qed.
Print Assumptions Lap_spectrum_complete.

(* 17. hence, at Qc, relative to the PENCIL (L, Dm) itself: lam_0 = 0 and every non-zero eigenvalue mu of the
       pencil (with a non-zero eigenvector) is some lam_c, c >= 1; if it is not among the kept lam_1 .. lam_d it is
       at least as large as each of them.  So the returned columns belong to the d smallest non-zero eigenvalues
       of L y = lambda D y.
       _partial only in that ascending order and the completeness relation are the solver's contract. *)
Theorem Lap_pencil_spectrum_Qc_partial :
  forall (heat : nat -> nat -> Qc) (n : nat) (nbrs : list (list nat)) (k d : nat)
         (Dm V : mat Qc) (lam : vec Qc),
    d + 1 <= n ->
    (forall i q, i < n -> q < k -> nb_at nbrs i q < n) ->
    (forall i q, i < n -> q < k -> (0 < heat i (nb_at nbrs i q))%Qc) ->
    lconnected n nbrs k ->
    msym n Dm ->
    gen_contract n (matL heat k nbrs n) Dm V lam ->
    meq n n (mmul n V (mmul n (mtrans V) Dm)) mI ->
    (forall a b, a <= b -> b < n -> (lam a <= lam b)%Qc) ->
    lam 0 = 0%Qc /\
    forall (mu : Qc) (y : vec Qc),
      gen_eigvec n (matL heat k nbrs n) Dm mu y -> (exists i, i < n /\ y i <> 0%Qc) -> mu <> 0%Qc ->
      exists c, 1 <= c /\ c < n /\ lam c = mu /\
                (d < c -> forall c', c' < d -> (lam (1 + c')%nat <= mu)%Qc).
Proof. exact le_pencil_spectrum. Qed.
Print Assumptions Lap_pencil_spectrum_Qc_partial.

Example Lap_pencil_spectrum_nonvacuous :
  meq 4 4 (mmul 4 c4_V (mmul 4 (mtrans c4_V) c4_D)) mI /\
  msym 4 (matL c4_heat 2 c4_nbrs 4) /\
  (* hypotheses of theorem 16 for mu = 3 (not an eigenvalue of the 4-cycle pencil) and the zero vector *)
  gen_eigvec 4 (matL c4_heat 2 c4_nbrs 4) c4_D (qz 3) (fun _ => qz 0) /\
  (forall c, c < 4 -> c4_lam c <> qz 3).
Proof.
  split; [apply meq_by_compute; vm_compute; reflexivity|].
  split; [apply read_msym_by_compute; vm_compute; reflexivity|].
  split.
  { apply veq_by_compute. vm_compute. reflexivity. }
  intros c Hc H. destruct c as [|[|[|[|c]]]]; try lia; vm_compute in H; discriminate.
Qed.

(* 19. Diffusion Map, the ORDER part at Qc.  For a positive symmetric kernel the diffusion operator T is a positive
       Markov matrix; every eigenvalue of a positive Markov matrix lies in [-1, 1] and T phi = phi forces phi to be
       constant (maximum principle).  Hence for ANY answer (V, lam) of the self-adjoint solver for
       M = S^-1 K1 S^-1 that meets its contract (M V = V Lambda, V^T V = I, V V^T = I) in ascending order:
       lam_(n-1) = 1, the last column is alpha * s with alpha <> 0 (the TRIVIAL pair: psi_0 = sqrt q normalised),
       every other eigenvalue is < 1 (the eigenvalue 1 is simple) and >= -1. *)
Theorem Dm_markov_spectrum_Qc :
  forall (T : mat Qc) (n : nat),
    (forall i j, i < n -> j < n -> (0 < T i j)%Qc) ->
    (forall i, i < n -> sumn n (fun j => T i j) = 1%Qc) ->
    (forall phi : vec Qc, 0 < n -> eigvec n T 1%Qc phi -> forall i, i < n -> phi i = phi 0) /\
    (forall (l : Qc) (phi : vec Qc), eigvec n T l phi -> (exists i, i < n /\ phi i <> 0%Qc) ->
       (- (1) <= l)%Qc /\ (l <= 1)%Qc).
Proof. exact markov_spectrum. Qed.
Print Assumptions Dm_markov_spectrum_Qc.

Theorem Dm_top_is_trivial_Qc_partial :
  forall (K : mat Qc) (n : nat) (s : vec Qc) (V : mat Qc) (lam : vec Qc),
    0 < n ->
    (forall i j, i < n -> j < n -> (0 < K i j)%Qc) ->
    (forall i j, i < n -> j < n -> K i j = K j i) ->
    (forall i, i < n -> (s i * s i)%F = dm_Q K n i) ->
    (forall i, i < n -> s i <> 0%Qc) ->
    sym_contract n (dm_sym K n s) V lam ->
    meq n n (mmul n V (mtrans V)) mI ->
    (forall a b, a <= b -> b < n -> (lam a <= lam b)%Qc) ->
    lam (n - 1) = 1%Qc /\
    (exists al, al <> 0%Qc /\ forall i, i < n -> V i (n - 1) = (al * s i)%Qc) /\
    (forall c, c < n - 1 -> (lam c < 1)%Qc) /\
    (forall c, c < n -> (- (1) <= lam c)%Qc).
Proof. exact dm_top_is_trivial. Qed.
Print Assumptions Dm_top_is_trivial_Qc_partial.

(* 20. Diffusion Map, full statement at Qc: the pair dropped by embed() is the trivial one, the d kept pairs are the
       leading non-trivial ones (each below 1, each at least as large as every pair that is not kept), and the output
       is lambda_c^t psi_c / psi_0, column by column a right eigenvector of the diffusion operator.
       _partial only in that the solver's contract (incl. completeness V V^T = I and ascending order) and
       pow(x, t) = x^t are oracle hypotheses (measured on every run), and exp, sqrt are uninterpreted values. *)
Theorem Dm_map_Qc_partial :
  forall (K : mat Qc) (n d t : nat) (s : vec Qc) (V : mat Qc) (lam : vec Qc) (powo : Qc -> nat -> Qc),
    d + 1 <= n ->
    (forall i j, i < n -> j < n -> (0 < K i j)%Qc) ->
    (forall i j, i < n -> j < n -> K i j = K j i) ->
    (forall i, i < n -> (s i * s i)%F = dm_Q K n i) ->
    (forall i, i < n -> s i <> 0%Qc) ->
    sym_contract n (dm_sym K n s) V lam ->
    meq n n (mmul n V (mtrans V)) mI ->
    (forall a b, a <= b -> b < n -> (lam a <= lam b)%Qc) ->
    (forall x, powo x t = fpow x t) ->
    lam (n - 1) = 1%Qc /\
    (forall c, c < d -> (lam (n - (d + 1) + c)%nat < 1)%Qc) /\
    (forall c c', c < d -> c' < n - (d + 1) -> (lam c' <= lam (n - (d + 1) + c)%nat)%Qc) /\
    exists Y, dm_embedding n d t V lam powo = Some Y /\
      (forall r c, r < n -> c < d ->
         Y r c = dm_spec d t (fun x c0 => V x (n - (d + 1) + c0))
                         (fun c0 => lam (n - (d + 1) + c0))
                         (fun x => V x (n - 1)) r c) /\
      (forall c, c < d ->
         exists Y', veq n (mcol Y c) Y' /\
                    eigvec n (dm_markov K n) (lam (n - (d + 1) + c)) Y').
Proof. exact dm_map_full. Qed.
Print Assumptions Dm_map_Qc_partial.

(* complete rational instance: K i j = f(i xor j) on 4 points with f = (1, 3/2, 1, 1/2): positive, symmetric,
   p = 4, q = 1/4, s = 1/2, M = K/4 with the Walsh-Hadamard vectors / 2 as orthonormal eigenbasis and
   eigenvalues -1/4, 0, 1/4, 1 *)
Definition exm_K : mat Qc :=
  mof [[qz 1; qfrac 3 2; qz 1; qfrac 1 2]; [qfrac 3 2; qz 1; qfrac 1 2; qz 1];
       [qz 1; qfrac 1 2; qz 1; qfrac 3 2]; [qfrac 1 2; qz 1; qfrac 3 2; qz 1]].
Definition hq : Qc := qfrac 1 2.
Definition exm_s : vec Qc := fun _ => hq.
Definition exm_V : mat Qc :=
  mof [[hq; hq; hq; hq]; [(-hq)%Qc; (-hq)%Qc; hq; hq]; [(-hq)%Qc; hq; (-hq)%Qc; hq]; [hq; (-hq)%Qc; (-hq)%Qc; hq]].
Definition exm_lam : vec Qc := vof [qfrac (-1) 4; qz 0; qfrac 1 4; qz 1].

Example Dm_map_nonvacuous :
  (forall i j, i < 4 -> j < 4 -> (0 < exm_K i j)%Qc) /\
  (forall i j, i < 4 -> j < 4 -> exm_K i j = exm_K j i) /\
  (forall i, i < 4 -> (exm_s i * exm_s i)%F = dm_Q exm_K 4 i) /\
  (forall i, i < 4 -> exm_s i <> 0%Qc) /\
  sym_contract 4 (dm_sym exm_K 4 exm_s) exm_V exm_lam /\
  meq 4 4 (mmul 4 exm_V (mtrans exm_V)) mI /\
  (forall a b, a <= b -> b < 4 -> (exm_lam a <= exm_lam b)%Qc) /\
  (* and the conclusion, computed for d = 2, t = 2: columns lambda^2 psi / psi_top for lambda = 0 and 1/4 *)
  (match dm_embedding 4 2 2 exm_V exm_lam (@fpow Qc _) with
   | Some Y => mlist_eqb (mtab 4 2 Y)
                 [[qz 0; qfrac 1 16]; [qz 0; qfrac 1 16]; [qz 0; qfrac (-1) 16]; [qz 0; qfrac (-1) 16]]
   | None => false end) = true.
Proof.
  split.
  { intros i j Hi Hj. destruct i as [|[|[|[|i]]]]; destruct j as [|[|[|[|j]]]]; try lia; reflexivity. }
  split.
  { intros i j Hi Hj. destruct i as [|[|[|[|i]]]]; destruct j as [|[|[|[|j]]]]; try lia; reflexivity. }
  split.
  { intros i Hi. destruct i as [|[|[|[|i]]]]; try lia; apply Qc_is_canon; vm_compute; reflexivity. }
  split.
  { intros i Hi H. vm_compute in H. discriminate. }
  split.
  { split; apply meq_by_compute; vm_compute; reflexivity. }
  split; [apply meq_by_compute; vm_compute; reflexivity|].
  split.
  { intros a b Hab Hb.
    destruct a as [|[|[|[|a]]]]; destruct b as [|[|[|[|b]]]]; try lia; vm_compute; discriminate. }
  vm_compute. reflexivity.
Qed.

(* 22. what the check RUNS is what the theorems are about: the boolean decision procedures decide the spec, and
       the output of the extracted model is accepted by the extracted spec procedure (closed instance Qc, every
       oracle function) *)
Theorem Lap_decision_procedure_ok :
  forall (heat : nat -> nat -> Qc) (k : nat) (nbrs : list (list nat)) (n : nat) (L : list (list Qc)) (D : list Qc),
    lap_matrix_b heat k nbrs qeqb n L D = true <->
    (wf_mat n n L /\ length D = n /\
     meq n n (mof L) (matL heat k nbrs n) /\ veq n (vof D) (degD heat k nbrs n)).
Proof. exact (lap_matrix_b_ok qeqb qeqb_ok). Qed.
Print Assumptions Lap_decision_procedure_ok.

Theorem Dm_decision_procedure_ok :
  forall (K : mat Qc) (n : nat) (M : list (list Qc)) (s : list Qc),
    dm_matrix_b K n qeqb M s = true <->
    (wf_mat n n M /\ length s = n /\ meq n n (mof M) (dm_sym K n (vof s))).
Proof. exact (dm_matrix_b_ok qeqb qeqb_ok). Qed.
Print Assumptions Dm_decision_procedure_ok.

Theorem Lap_run_accepted_Qc :
  forall (dist : list (list Qc)) (width : Qc) (expo : Qc -> Qc) (n : nat)
         (nbrs : list (list nat)) (L : list (list Qc)) (D : list Qc),
    lap_run dist width expo n nbrs = LOk (L, D) ->
    lap_spec_run dist width expo n nbrs L D = true.
Proof. exact lap_run_accepted. Qed.
Print Assumptions Lap_run_accepted_Qc.

Theorem Dm_run_accepted_Qc :
  forall (dist : list (list Qc)) (width : Qc) (expo sqrto : Qc -> Qc) (n : nat),
    let K := dm_kernel (mof dist) width expo in
    let s := map sqrto (dm_sqrt_args_run dist width expo n) in
    (forall i, i < n -> dm_P K n i <> 0%F) ->
    (forall i, i < n -> vof s i <> 0%F) ->
    dm_spec_run dist width expo n (dm_run dist width expo sqrto n) s = true.
Proof. exact dm_run_accepted. Qed.
Print Assumptions Dm_run_accepted_Qc.

Example Lap_run_accepted_nonvacuous :
  exists L D, lap_run ex_dist (qz 1) ex_expo 3 ex_nbrs = LOk (L, D).
Proof. eexists. eexists. vm_compute. reflexivity. Qed.

(* 23. the eigenvalue slice of the smallest-eigenvalue site (defect F7, known finding): for whichever form the
       generated table of the tree has, either the refutation with witness or the in-range theorem *)
Theorem Lap_eig_segment_table :
  (f7_present = true /\
   exists b, In b eig_table /\ b_largest b = false /\
     exists N d skip, d + skip <= N /\ 1 <= d /\ eval_ops d skip N (b_vals b) = None)
  \/
  (f7_present = false /\
   forall b, In b eig_table -> b_largest b = false -> b_base b = BaseN ->
   forall N d skip, d + skip <= N -> eval_ops d skip N (b_vals b) = Some (skip, d)).
Proof. exact eig_segment_table. Qed.
Print Assumptions Lap_eig_segment_table.

(* 24. METHOD level (methods/laplacian_eigenmaps.hpp embed()): the neighbour search is an oracle of the requested
       num_neighbors; whatever was requested, the Laplacian handed to the solver is that of the FULL lists the
       search returned (W holds a weight for EVERY entry of EVERY returned list), provided the lists have one
       common length (the search's contract).  With check_connectivity the lists are longer than the request
       whenever the requested-k graph is not strongly connected. *)
Theorem Lap_method_full_lists :
  forall (F : Type) (Fo : FieldOps F) (Ff : IsField F)
         (dist : nat -> nat -> F) (width : F) (expo : F -> F)
         (search : nat -> list (list nat)) (kreq n : nat) (ts : list (@triplet F)) (D : list F),
    le_method_laplacian dist width expo search kreq n = LOk (ts, D) ->
    uniform_lists (search kreq) n ->
    let heat := heat_of dist width expo in
    length D = n /\
    (forall i q, i < n -> q < length (nth i (search kreq) []) -> nb_at (search kreq) i q < n) /\
    (forall r c, r < n -> c < n -> mat_of_triplets ts r c = matL_full heat (search kreq) n r c) /\
    (forall r, r < n -> nth r D 0%F = degD_full heat (search kreq) n r).
Proof. exact @le_method_full_lists. Qed.
Print Assumptions Lap_method_full_lists.

Example Lap_method_full_lists_nonvacuous :
  exists ts D,
    le_method_laplacian reqk_dist (qz 1) reqk_expo reqk_search 1 4 = LOk (ts, D) /\
    mat_of_triplets ts 0 2 = matL_full (heat_of reqk_dist (qz 1) reqk_expo) (reqk_search 1) 4 0 2 /\
    mat_of_triplets ts 0 2 = qz (-2).
Proof. exact le_method_full_lists_witness. Qed.

(* regression (seeded change C09_1): a routine that takes the neighbour count as an argument builds the graph of
   the first k entries of each list ... *)
Theorem Lap_explicit_k_variant :
  forall (F : Type) (Fo : FieldOps F) (Ff : IsField F)
         (dist : nat -> nat -> F) (width : F) (expo : F -> F)
         (k n : nat) (nbrs : list (list nat)) (ts : list (@triplet F)) (D : list F),
    compute_laplacian_k dist width expo k n nbrs = LOk (ts, D) ->
    let heat := heat_of dist width expo in
    length D = n /\
    (forall r c, r < n -> c < n -> mat_of_triplets ts r c = matL heat k nbrs n r c) /\
    (forall r, r < n -> nth r D 0%F = degD heat k nbrs n r).
Proof. exact @compute_laplacian_k_spec. Qed.
Print Assumptions Lap_explicit_k_variant.

(* ... so a method that feeds it the REQUESTED count does not build the Laplacian of the neighbourhood graph as
   soon as the search raised k: witness with 4 samples, request 1, returned lists of length 2 *)
Theorem Lap_method_requested_k_refuted :
  exists (search : nat -> list (list nat)) (kreq n : nat) (ts : list (@triplet Qc)) (D : list Qc),
    uniform_lists (search kreq) n /\
    kreq < length (hd [] (search kreq)) /\
    le_method_laplacian_reqk reqk_dist (qz 1) reqk_expo search kreq n = LOk (ts, D) /\
    exists r c, r < n /\ c < n /\
      mat_of_triplets ts r c <> matL_full (heat_of reqk_dist (qz 1) reqk_expo) (search kreq) n r c.
Proof. exact le_method_reqk_refuted. Qed.
Print Assumptions Lap_method_requested_k_refuted.

(* 25. OPTIMALITY (Ky Fan's trace inequality, Spectral_KyFan.v), every ordered field: if the generalised solver's
       answer is a full decomposition of the pencil (contract + completeness) in ascending order and the skipped
       column is constant, the returned columns 1..d have cost lam_1 + ... + lam_d and MINIMISE tr(Y^T L Y) among
       ALL N x d matrices with Y^T Dm Y = I and Y^T Dm 1 = 0 — the variational meaning of "the target_dimension
       smallest non-zero eigenvalues". *)
Theorem Lap_ky_fan_optimal :
  forall (F : Type) (Fo : FieldOps F) (Ff : IsField F) (Fle : OrderedField F)
         (N d : nat) (L Dm V : mat F) (lam : vec F) (c0 : F),
    d + 1 <= N -> msym N Dm ->
    gen_full N L Dm V lam -> ascending N lam ->
    (forall i, i < N -> V i 0 = c0) ->
    quad N d L (fun i c => V i (1 + c)) = sumn d (fun c => lam (1 + c)) /\
    forall Q : mat F,
      meq d d (mmul N (mtrans Q) (mmul N Dm Q)) mI ->
      (forall c, c < d -> dot N (mcol Q c) (mv N Dm (fun _ => 1%F)) = 0%F) ->
      fle (quad N d L (fun i c => V i (1 + c))) (quad N d L Q).
Proof. exact @le_optimal_gen. Qed.
Print Assumptions Lap_ky_fan_optimal.

(* ... and at Qc with the hypothesis on the skipped column DISCHARGED (connected graph, positive weights): the
   embedding embed() returns satisfies the generalised eigenproblem with the normalisation of the property AND is a
   minimiser of tr(Y^T L Y) under those constraints.  What remains an oracle hypothesis is only the solver's
   contract itself (residual, Dm-orthonormality, completeness, ascending order — measured on every run). *)
Theorem Lap_embedding_optimal_Qc :
  forall (heat : nat -> nat -> Qc) (n : nat) (nbrs : list (list nat)) (k d : nat)
         (Dm V : mat Qc) (lam : vec Qc),
    d + 1 <= n ->
    (forall i q, i < n -> q < k -> nb_at nbrs i q < n) ->
    (forall i q, i < n -> q < k -> (0 < heat i (nb_at nbrs i q))%Qc) ->
    lconnected n nbrs k ->
    msym n Dm ->
    gen_contract n (matL heat k nbrs n) Dm V lam ->
    meq n n (mmul n V (mmul n (mtrans V) Dm)) mI ->
    (forall a b, a <= b -> b < n -> (lam a <= lam b)%Qc) ->
    exists Y, le_embedding n d V = Some Y /\
      le_spec n d (matL heat k nbrs n) Dm Y (fun c => lam (1 + c)) /\
      quad n d (matL heat k nbrs n) Y = sumn d (fun c => lam (1 + c)) /\
      forall Q : mat Qc,
        meq d d (mmul n (mtrans Q) (mmul n Dm Q)) mI ->
        (forall c, c < d -> dot n (mcol Q c) (mv n Dm (fun _ => 1%Qc)) = 0%Qc) ->
        (quad n d (matL heat k nbrs n) Y <= quad n d (matL heat k nbrs n) Q)%Qc.
Proof. exact le_optimal_Qc. Qed.
Print Assumptions Lap_embedding_optimal_Qc.

(* hypotheses: Lap_smallest_nonzero_nonvacuous + Lap_pencil_spectrum_nonvacuous (4-cycle).  A competitor for d = 1:
   the column of the eigenvalue 2 is Dm-normalised and Dm-orthogonal to 1; its cost 2 is above the optimum 1 *)
Example Lap_embedding_optimal_nonvacuous :
  let L := matL c4_heat 2 c4_nbrs 4 in
  let Q : mat Qc := fun i _ => c4_V i 3 in
  meq 1 1 (mmul 4 (mtrans Q) (mmul 4 c4_D Q)) mI /\
  dot 4 (mcol Q 0) (mv 4 c4_D (fun _ => 1%Qc)) = 0%Qc /\
  quad 4 1 L (fun i c => c4_V i (1 + c)) = qz 1 /\ quad 4 1 L Q = qz 2.
Proof.
  split; [apply meq_by_compute; vm_compute; reflexivity|].
  split; [apply Qc_is_canon; vm_compute; reflexivity|].
  split; apply Qc_is_canon; vm_compute; reflexivity.
Qed.

(* 26. Diffusion Map, every ordered field: for a full orthonormal ascending decomposition of the symmetric conjugate
       M whose top column is a multiple of s = sqrt q (the trivial pair), the d kept eigenvectors have
       tr = lam_(N-1-d) + ... + lam_(N-2) and MAXIMISE tr(Q^T M Q) among all orthonormal d-frames orthogonal to s:
       the leading NON-TRIVIAL eigenpairs.  The eigenvalues may be negative (non-Euclidean distance inputs). *)
Theorem Dm_ky_fan_optimal :
  forall (F : Type) (Fo : FieldOps F) (Ff : IsField F) (Fle : OrderedField F)
         (N d : nat) (M V : mat F) (lam : vec F) (s : vec F) (al : F),
    d + 1 <= N ->
    sym_contract N M V lam -> meq N N (mmul N V (mtrans V)) mI -> ascending N lam ->
    (forall i, i < N -> V i (N - 1) = (al * s i)%F) ->
    quad N d M (fun i c => V i (N - (d + 1) + c)) = sumn d (fun c => lam (N - (d + 1) + c)) /\
    forall Q : mat F,
      meq d d (mmul N (mtrans Q) Q) mI ->
      (forall c, c < d -> dot N (mcol Q c) s = 0%F) ->
      fle (quad N d M Q) (quad N d M (fun i c => V i (N - (d + 1) + c))).
Proof. exact @dm_optimal_gen. Qed.
Print Assumptions Dm_ky_fan_optimal.

Theorem Dm_leading_pairs_optimal_Qc :
  forall (K : mat Qc) (n d : nat) (s : vec Qc) (V : mat Qc) (lam : vec Qc),
    d + 1 <= n ->
    (forall i j, i < n -> j < n -> (0 < K i j)%Qc) ->
    (forall i j, i < n -> j < n -> K i j = K j i) ->
    (forall i, i < n -> (s i * s i)%F = dm_Q K n i) ->
    (forall i, i < n -> s i <> 0%Qc) ->
    sym_contract n (dm_sym K n s) V lam ->
    meq n n (mmul n V (mtrans V)) mI ->
    (forall a b, a <= b -> b < n -> (lam a <= lam b)%Qc) ->
    quad n d (dm_sym K n s) (fun i c => V i (n - (d + 1) + c)) = sumn d (fun c => lam (n - (d + 1) + c)) /\
    forall Q : mat Qc,
      meq d d (mmul n (mtrans Q) Q) mI ->
      (forall c, c < d -> dot n (mcol Q c) s = 0%Qc) ->
      (quad n d (dm_sym K n s) Q <= quad n d (dm_sym K n s) (fun i c => V i (n - (d + 1) + c)%nat))%Qc.
Proof. exact dm_optimal_Qc. Qed.
Print Assumptions Dm_leading_pairs_optimal_Qc.

(* hypotheses: Dm_map_nonvacuous (Walsh-Hadamard instance).  Competitor for d = 1: the eigenvector of the NEGATIVE
   eigenvalue -1/4 is a unit vector orthogonal to s; its cost -1/4 is below the optimum 1/4.  And the map itself on
   that instance with d = 3, t = 3 (odd): the column of the negative eigenvalue is (-1/4)^3 psi / psi_top, sign
   included *)
Example Dm_leading_pairs_optimal_nonvacuous :
  let M := dm_sym exm_K 4 exm_s in
  let Q : mat Qc := fun i _ => exm_V i 0 in
  meq 1 1 (mmul 4 (mtrans Q) Q) mI /\
  dot 4 (mcol Q 0) exm_s = 0%Qc /\
  quad 4 1 M Q = qfrac (-1) 4 /\ quad 4 1 M (fun i c => exm_V i (4 - (1 + 1) + c)) = qfrac 1 4 /\
  (match dm_embedding 4 3 3 exm_V exm_lam (@fpow Qc _) with
   | Some Y => mlist_eqb (mtab 4 3 Y)
                 [[qfrac (-1) 64; qz 0; qfrac 1 64]; [qfrac 1 64; qz 0; qfrac 1 64];
                  [qfrac 1 64; qz 0; qfrac (-1) 64]; [qfrac (-1) 64; qz 0; qfrac (-1) 64]]
   | None => false end) = true.
Proof.
  split; [apply meq_by_compute; vm_compute; reflexivity|].
  split; [apply Qc_is_canon; vm_compute; reflexivity|].
  split; [apply Qc_is_canon; vm_compute; reflexivity|].
  split; [apply Qc_is_canon; vm_compute; reflexivity|].
  vm_compute. reflexivity.
Qed.

(* 27. The two embed() bodies as SINGLE functions of their oracles.
       Laplacian Eigenmaps: neighbour search (oracle of the requested k) -> compute_laplacian -> generalised solver
       (oracle; its contract is stated on the matrices it is HANDED: the triplet sum and diag(D)) -> columns 1..d.
       The result satisfies the property's le_spec for the Laplacian / degree matrix of the FULL returned lists. *)
Theorem Lap_method_embed :
  forall (F : Type) (Fo : FieldOps F) (Ff : IsField F)
         (dist : nat -> nat -> F) (width : F) (expo : F -> F)
         (search : nat -> list (list nat)) (kreq n d : nat)
         (solver : mat F -> vec F -> mat F * vec F)
         (ts : list (@triplet F)) (D : list F) (V : mat F) (lam : vec F),
    le_method_laplacian dist width expo search kreq n = LOk (ts, D) ->
    uniform_lists (search kreq) n ->
    d + 1 <= n ->
    solver (mat_of_triplets ts) (vof D) = (V, lam) ->
    gen_contract n (mat_of_triplets ts) (mdiag (vof D)) V lam ->
    (forall c, c < d -> lam (1 + c) <> 0%F) ->
    let heat := heat_of dist width expo in
    exists Y, le_method_embed dist width expo search kreq n d solver = Some Y /\
              (forall r c, Y r c = V r (1 + c)) /\
              le_spec n d (matL_full heat (search kreq) n) (mdiag (degD_full heat (search kreq) n)) Y
                      (fun c => lam (1 + c)).
Proof. exact @le_method_embed_spec. Qed.
Print Assumptions Lap_method_embed.

Definition c4_search (kreq : nat) : list (list nat) := c4_nbrs.
Definition c4_solver (L : mat Qc) (D : vec Qc) : mat Qc * vec Qc := (c4_V, c4_lam).

Example Lap_method_embed_nonvacuous :
  exists ts D,
    le_method_laplacian reqk_dist (qz 1) reqk_expo c4_search 2 4 = LOk (ts, D) /\
    uniform_lists (c4_search 2) 4 /\
    c4_solver (mat_of_triplets ts) (vof D) = (c4_V, c4_lam) /\
    gen_contract 4 (mat_of_triplets ts) (mdiag (vof D)) c4_V c4_lam /\
    (forall c, c < 2 -> c4_lam (1 + c) <> 0%F) /\
    (match le_method_embed reqk_dist (qz 1) reqk_expo c4_search 2 4 2 c4_solver with
     | Some Y => mlist_eqb (mtab 4 2 Y) [[q4; q4]; [q4; (-q4)%Qc]; [(-q4)%Qc; (-q4)%Qc]; [(-q4)%Qc; q4]]
     | None => false end) = true.
Proof.
  eexists. eexists. split; [vm_compute; reflexivity|].
  split.
  { intros i Hi. destruct i as [|[|[|[|i]]]]; try lia; reflexivity. }
  split; [reflexivity|].
  split.
  { split; apply meq_by_compute; vm_compute; reflexivity. }
  split.
  { intros c Hc H. destruct c as [|[|c]]; try lia; vm_compute in H; discriminate. }
  vm_compute. reflexivity.
Qed.


(*     Diffusion Map: compute_diffusion_matrix -> self-adjoint solver (oracle, contract on the matrix it is HANDED)
       -> lambda^t scaling and division by the top column.  sqrt contract: sqrto(q_i)^2 = q_i on the arguments used. *)
Theorem Dm_method_embed :
  forall (F : Type) (Fo : FieldOps F) (Ff : IsField F)
         (dist : nat -> nat -> F) (width : F) (expo sqrto : F -> F)
         (n d t : nat) (solver : mat F -> mat F * vec F) (powo : F -> nat -> F)
         (V : mat F) (lam : vec F) (alpha : F),
    d + 1 <= n ->
    let K := dm_kernel dist width expo in
    let s := dm_p2 dist width expo sqrto n in
    (forall i, i < n -> dm_P K n i <> 0%F) ->
    (forall i, i < n -> s i <> 0%F) ->
    (forall i, i < n -> (sqrto (dm_Q K n i) * sqrto (dm_Q K n i))%F = dm_Q K n i) ->
    solver (dm_matrix dist width expo sqrto n) = (V, lam) ->
    (forall c, c < d ->
       eigvec n (dm_matrix dist width expo sqrto n) (lam (n - (d + 1) + c)) (mcol V (n - (d + 1) + c))) ->
    (forall x, powo x t = fpow x t) ->
    alpha <> 0%F -> (forall i, i < n -> V i (n - 1) = (alpha * s i)%F) ->
    exists Y, dm_method_embed dist width expo sqrto n d t solver powo = Some Y /\
      (forall r c, r < n -> c < d ->
         Y r c = dm_spec d t (fun x c0 => V x (n - (d + 1) + c0))
                         (fun c0 => lam (n - (d + 1) + c0))
                         (fun x => V x (n - 1)) r c) /\
      (forall c, c < d ->
         exists Y', veq n (mcol Y c) Y' /\
                    eigvec n (dm_markov K n) (lam (n - (d + 1) + c)) Y').
Proof. exact @dm_method_embed_spec. Qed.
Print Assumptions Dm_method_embed.

(* Walsh-Hadamard instance through the whole Diffusion Map method: distances i xor j, width 1, exp oracle
   0 -> 1, -1 -> 3/2, -4 -> 1, -9 -> 1/2 (this is exm_K), sqrt oracle 1/4 -> 1/2 *)
Definition exm_dist : nat -> nat -> Qc :=
  mof [[qz 0; qz 1; qz 2; qz 3]; [qz 1; qz 0; qz 3; qz 2]; [qz 2; qz 3; qz 0; qz 1]; [qz 3; qz 2; qz 1; qz 0]].
Definition exm_expo (x : Qc) : Qc :=
  if qeqb x (qz 0) then qz 1 else if qeqb x (qz (-1)) then qfrac 3 2 else if qeqb x (qz (-4)) then qz 1 else qfrac 1 2.
Definition exm_sqrt (x : Qc) : Qc := if qeqb x (qfrac 1 4) then qfrac 1 2 else qz 0.
Definition exm_solver (M : mat Qc) : mat Qc * vec Qc := (exm_V, exm_lam).

Example Dm_method_embed_nonvacuous :
  let K := dm_kernel exm_dist (qz 1) exm_expo in
  let s := dm_p2 exm_dist (qz 1) exm_expo exm_sqrt 4 in
  (forall i, i < 4 -> dm_P K 4 i <> 0%F) /\
  (forall i, i < 4 -> s i <> 0%F) /\
  (forall i, i < 4 -> (exm_sqrt (dm_Q K 4 i) * exm_sqrt (dm_Q K 4 i))%F = dm_Q K 4 i) /\
  (forall c, c < 3 -> eigvec 4 (dm_matrix exm_dist (qz 1) exm_expo exm_sqrt 4) (exm_lam (4 - (3 + 1) + c))
                             (mcol exm_V (4 - (3 + 1) + c))) /\
  (forall i, i < 4 -> exm_V i (4 - 1) = (qz 1 * s i)%F) /\
  (match dm_method_embed exm_dist (qz 1) exm_expo exm_sqrt 4 3 3 exm_solver (@fpow Qc _) with
   | Some Y => mlist_eqb (mtab 4 3 Y)
                 [[qfrac (-1) 64; qz 0; qfrac 1 64]; [qfrac 1 64; qz 0; qfrac 1 64];
                  [qfrac 1 64; qz 0; qfrac (-1) 64]; [qfrac (-1) 64; qz 0; qfrac (-1) 64]]
   | None => false end) = true.
Proof.
  split.
  { intros i Hi H. destruct i as [|[|[|[|i]]]]; try lia; vm_compute in H; discriminate. }
  split.
  { intros i Hi H. destruct i as [|[|[|[|i]]]]; try lia; vm_compute in H; discriminate. }
  split.
  { intros i Hi. destruct i as [|[|[|[|i]]]]; try lia; apply Qc_is_canon; vm_compute; reflexivity. }
  split.
  { intros c Hc. destruct c as [|[|[|c]]]; try lia; apply veq_by_compute; vm_compute; reflexivity. }
  split.
  { intros i Hi. destruct i as [|[|[|[|i]]]]; try lia; apply Qc_is_canon; vm_compute; reflexivity. }
  vm_compute. reflexivity.
Qed.

(* 28. WAVE 3 — the clause "the target_dimension smallest NON-ZERO eigenvalues" against an ABSOLUTE null-space
       threshold (regression variant le_embedding_abs_eps of Lap_Model.v = seeded change C09_3: the dense generalised
       front-end keeps skipping while eigenvalues[skip] < eps).
       (a) every scalar type, every comparison ltb, every N, d, V, lam, eps: when the eigenvalue at offset 1 is NOT
           below eps the variant returns exactly the shipped selection — the two can differ ONLY on pencils with a
           non-zero eigenvalue below eps (weakly coupled clusters; this is the input class the check generates and
           judges by exact eigenvalue ranks);
       (b) refuted on such a pencil: weighted 4-cycle with bridging weights 10^-12 (connected, positive weights,
           contract and ascending order hold: ALL hypotheses of Lap_smallest_nonzero_Qc_partial), lam = (0, 10^-12,
           2 - 10^-12, 2), eps = 10^-9, d = 1: the variant returns the column of lam_2 although 0 < lam_1 < lam_2,
           and its output violates le_spec for the d smallest non-zero eigenvalues; the shipped selection returns the
           column of lam_1 (for which Lap_smallest_nonzero_Qc_partial gives le_spec). *)
Theorem Lap_abs_eps_skip_agrees :
  forall (F : Type) (ltb : F -> F -> bool) (N d : nat) (V : mat F) (lam : vec F) (eps : F),
    d + 1 <= N -> ltb (lam 1) eps = false ->
    exists Y Y', le_embedding_abs_eps ltb N d V lam eps = Some Y /\ le_embedding N d V = Some Y' /\
                 forall r c, Y r c = Y' r c.
Proof. exact (@le_abs_eps_agrees). Qed.
Print Assumptions Lap_abs_eps_skip_agrees.

Example Lap_abs_eps_skip_agrees_nonvacuous :
  1 + 1 <= 4 /\ qc_ltb (c4_lam 1) wk_eps = false /\ (forall x y : Qc, qc_ltb x y = true <-> (x < y)%Qc).
Proof. split; [lia|]. split; [vm_compute; reflexivity|]. exact qc_ltb_lt. Qed.

Theorem Lap_abs_eps_skip_refuted :
  exists (heat : nat -> nat -> Qc) (n : nat) (nbrs : list (list nat)) (k d : nat) (Dm V : mat Qc) (lam : vec Qc)
         (eps : Qc) (Y Y' : mat Qc),
    d + 1 <= n /\
    (forall i q, i < n -> q < k -> nb_at nbrs i q < n) /\
    (forall i q, i < n -> q < k -> (0 < heat i (nb_at nbrs i q))%Qc) /\
    lconnected n nbrs k /\
    msym n Dm /\
    gen_contract n (matL heat k nbrs n) Dm V lam /\
    (forall a b, a <= b -> b < n -> (lam a <= lam b)%Qc) /\
    (0 < eps)%Qc /\
    le_embedding_abs_eps qc_ltb n d V lam eps = Some Y /\
    le_embedding n d V = Some Y' /\
    (forall r, Y r 0 = V r 2) /\ (forall r, Y' r 0 = V r 1) /\
    (0 < lam 1%nat)%Qc /\ (lam 1%nat < lam 2%nat)%Qc /\
    ~ le_spec n d (matL heat k nbrs n) Dm Y (fun c => lam (1 + c)).
Proof. exact le_abs_eps_refuted. Qed.
Print Assumptions Lap_abs_eps_skip_refuted.

(* 29. WAVE 4 — the ORDER of a neighbour list is free.  The three neighbour searches list the k neighbours of a sample
       in different orders (cover tree nearest first, brute force std::nth_element order, VP-tree farthest first); the
       property speaks of "neighbour pairs", not of an order.
       (a) specification: when every sample's first k entries are the same neighbours in any order (repetitions
           included: Permutation), W, the degrees and L = D - W are the same, entry by entry (every field);
       (b) model of the routine (which walks each list in the order given): two successful runs on such lists give the
           same matrix (triplets summed) and the same degree vector;
       (c) regression variant compute_laplacian_brk of Lap_Model.v = seeded change C09_4 (`if (heat == 0.0) break;`
           inside the neighbour loop, "the neighbours are ordered by distance"): every field, every zero test isz,
           every input on which NO used weight tests zero: the variant IS the shipped routine (same triplet list,
           same degrees) — the two can differ only on inputs with an exactly vanishing weight, the input class the
           check now generates (oracle grid without floor, tables with zeros / denormals, kernels whose farthest
           listed neighbours underflow);
       (d) refuted on such an input: 3 samples on a line, the far pair's weight is exactly 0; with the lists of
           sample 2 given farthest first the variant drops the non-zero weight of the near pair: its result differs
           from its own result on the nearest-first lists (same neighbours), and from L = D - W; on the nearest-first
           lists it agrees with L: the variant depends on an order that the search interface does not promise. *)
Theorem Lap_neighbour_order_free :
  forall (F : Type) (Fo : FieldOps F) (Ff : IsField F) (heat : nat -> nat -> F)
         (k n : nat) (nbrs nbrs' : list (list nat)),
    (forall i, i < n -> k <= length (nth i nbrs []) /\
                        Permutation (firstn k (nth i nbrs [])) (firstn k (nth i nbrs' []))) ->
    forall r c, r < n -> c < n ->
      matW heat k nbrs r c = matW heat k nbrs' r c /\
      degD heat k nbrs n r = degD heat k nbrs' n r /\
      matL heat k nbrs n r c = matL heat k nbrs' n r c.
Proof.
  intros F Fo Ff heat k n nbrs nbrs' H r c Hr Hc.
  split; [exact (matW_order_free heat k n nbrs nbrs' H r c Hr Hc)|].
  split; [exact (degD_order_free heat k n nbrs nbrs' H r Hr)|].
  exact (matL_order_free heat k n nbrs nbrs' H r c Hr Hc).
Qed.
Print Assumptions Lap_neighbour_order_free.

Theorem Lap_compute_laplacian_order_free :
  forall (F : Type) (Fo : FieldOps F) (Ff : IsField F)
         (dist : nat -> nat -> F) (width : F) (expo : F -> F)
         (n : nat) (nbrs nbrs' : list (list nat)) (ts ts' : list (@triplet F)) (D D' : list F),
    length (hd [] nbrs) = length (hd [] nbrs') ->
    (forall i, i < n -> length (hd [] nbrs) <= length (nth i nbrs []) /\
                        Permutation (firstn (length (hd [] nbrs)) (nth i nbrs []))
                                    (firstn (length (hd [] nbrs)) (nth i nbrs' []))) ->
    compute_laplacian dist width expo n nbrs = LOk (ts, D) ->
    compute_laplacian dist width expo n nbrs' = LOk (ts', D') ->
    (forall r c, r < n -> c < n -> mat_of_triplets ts r c = mat_of_triplets ts' r c) /\
    (forall r, r < n -> nth r D 0%F = nth r D' 0%F).
Proof. exact @compute_laplacian_order_free. Qed.
Print Assumptions Lap_compute_laplacian_order_free.

Example Lap_compute_laplacian_order_free_nonvacuous :
  exists ts D ts' D',
    length (hd [] brk_far_first) = length (hd [] brk_near_first) /\
    (forall i, i < 3 -> length (hd [] brk_far_first) <= length (nth i brk_far_first []) /\
                        Permutation (firstn (length (hd [] brk_far_first)) (nth i brk_far_first []))
                                    (firstn (length (hd [] brk_far_first)) (nth i brk_near_first []))) /\
    compute_laplacian brk_dist (qz 1) brk_expo 3 brk_far_first = LOk (ts, D) /\
    compute_laplacian brk_dist (qz 1) brk_expo 3 brk_near_first = LOk (ts', D') /\
    brk_far_first <> brk_near_first /\
    mlist_eqb (mtab 3 3 (mat_of_triplets ts))
      [[qz 1; qz (-1); qz 0]; [qz (-1); qz 2; qz (-1)]; [qz 0; qz (-1); qz 1]] = true.
Proof.
  eexists. eexists. eexists. eexists.
  split; [reflexivity|]. split; [exact brk_same_neighbours|].
  split; [vm_compute; reflexivity|]. split; [vm_compute; reflexivity|].
  split; [discriminate|]. vm_compute. reflexivity.
Qed.

Theorem Lap_zero_break_agrees :
  forall (F : Type) (Fo : FieldOps F) (dist : nat -> nat -> F) (width : F) (expo : F -> F) (isz : F -> bool)
         (n : nat) (nbrs : list (list nat)),
    (forall i q, i < n -> q < length (hd [] nbrs) ->
       isz (heat_of dist width expo i (nb_at nbrs i q)) = false) ->
    compute_laplacian_brk dist width expo isz n nbrs = compute_laplacian dist width expo n nbrs.
Proof. exact @brk_agrees. Qed.
Print Assumptions Lap_zero_break_agrees.

Example Lap_zero_break_agrees_nonvacuous :
  (forall i q, i < 3 -> q < length (hd [] ex_nbrs) ->
     brk_isz (heat_of (mof ex_dist) (qz 1) ex_expo i (nb_at ex_nbrs i q)) = false) /\
  exists ts D, compute_laplacian_brk (mof ex_dist) (qz 1) ex_expo brk_isz 3 ex_nbrs = LOk (ts, D).
Proof.
  split.
  - intros i q Hi Hq. cbn in Hq.
    destruct i as [|[|[|i]]]; try lia; destruct q as [|[|q]]; try lia; vm_compute; reflexivity.
  - eexists. eexists. vm_compute. reflexivity.
Qed.

Theorem Lap_zero_break_refuted :
  exists (nbrs nbrs' : list (list nat)) (n : nat) (ts ts' : list (@triplet Qc)) (D D' : list Qc),
    length (hd [] nbrs) = length (hd [] nbrs') /\
    (forall i, i < n -> length (hd [] nbrs) <= length (nth i nbrs []) /\
                        Permutation (firstn (length (hd [] nbrs)) (nth i nbrs []))
                                    (firstn (length (hd [] nbrs)) (nth i nbrs' []))) /\
    compute_laplacian_brk brk_dist (qz 1) brk_expo brk_isz n nbrs = LOk (ts, D) /\
    compute_laplacian_brk brk_dist (qz 1) brk_expo brk_isz n nbrs' = LOk (ts', D') /\
    (exists r c, r < n /\ c < n /\ mat_of_triplets ts r c <> mat_of_triplets ts' r c) /\
    (exists r c, r < n /\ c < n /\
       mat_of_triplets ts r c <> matL (heat_of brk_dist (qz 1) brk_expo) (length (hd [] nbrs)) nbrs n r c) /\
    (forall r c, r < n -> c < n ->
       mat_of_triplets ts' r c = matL (heat_of brk_dist (qz 1) brk_expo) (length (hd [] nbrs)) nbrs n r c).
Proof. exact brk_refuted. Qed.
Print Assumptions Lap_zero_break_refuted.
