(* ====================================================================== *)
(*  Mds_Model_Range.v — C05, wave 4: WHERE the samples of                  *)
(*  compute_distance_matrix come from.  Definitions only (NO proofs).      *)
(*                                                                          *)
(*  The interface takes a random-access iterator `with no specific          *)
(*  capabilities` and a callback; the routine asks                          *)
(*      callback.distance(begin[i], begin[j])       (i <= j).               *)
(*  A container kind is a map  addr : position -> address  into a memory    *)
(*  mem : address -> sample id  (std::vector: addr p = a0 + p; strided      *)
(*  adaptor: a0 + 3p; reversing adaptor: a0 - 2p; std::deque: block table). *)
(*  `begin[p]` is  mem (addr p); everything else in the memory is a decoy.  *)
(*  The callback is a table  cb a b  over sample ids.                       *)
(*                                                                          *)
(*  cdm_range      the shipped routine: begin[i], begin[j];                 *)
(*  cdm_contig     the variant that takes  samples = &*begin  and reads     *)
(*                 samples[i] = mem (addr 0 + i)   (assumes contiguity);    *)
(*  cdm_fastpath   the variant with a `the ids are 0..n-1, square the       *)
(*                 stored table` fast path behind a guard (sorted, first    *)
(*                 id 0, last id n-1), the guard being a parameter:         *)
(*                 sorted_nonstrict_b (std::is_sorted) or sorted_strict_b.  *)
(* ====================================================================== *)
Require Import Arith List Bool.
From TK Require Import Mat_Sums Mat_Core Mds_Model.
Import ListNotations.

Section MdsModelRange.
  Context {F : Type} {Fo : FieldOps F}.

  (* the answers of the callback on the sequence of samples the range denotes *)
  Definition range_table (mem : nat -> nat) (addr : nat -> nat) (cb : mat F) : mat F :=
    fun p q => cb (mem (addr p)) (mem (addr q)).

  Definition cdm_range (mem : nat -> nat) (addr : nat -> nat) (cb : mat F) : mat F :=
    dist_sq_matrix (range_table mem addr cb).

  (* const auto* samples = address of the element begin points to;  ... callback.distance(samples[i], samples[j]) *)
  Definition cdm_contig (mem : nat -> nat) (addr : nat -> nat) (cb : mat F) : mat F :=
    dist_sq_matrix (fun p q => cb (mem (addr 0 + p)) (mem (addr 0 + q))).

  (* the id sequence of a range: ids p = mem (addr p) *)
  Fixpoint sorted_nonstrict_b (ids : nat -> nat) (n : nat) : bool :=
    match n with
    | 0 => true
    | S k => match k with
             | 0 => true
             | S _ => sorted_nonstrict_b ids k && Nat.leb (ids (k - 1)) (ids k)
             end
    end.

  Fixpoint sorted_strict_b (ids : nat -> nat) (n : nat) : bool :=
    match n with
    | 0 => true
    | S k => match k with
             | 0 => true
             | S _ => sorted_strict_b ids k && Nat.ltb (ids (k - 1)) (ids k)
             end
    end.

  (* n == table size is the premise of the caller; guard = sorted && begin[0] == 0 && begin[n-1] == n-1 *)
  Definition identity_guard (sorted_b : (nat -> nat) -> nat -> bool) (ids : nat -> nat) (n : nat) : bool :=
    sorted_b ids n && Nat.eqb (ids 0) 0 && Nat.eqb (ids (n - 1)) (n - 1).

  Definition cdm_fastpath (sorted_b : (nat -> nat) -> nat -> bool) (n : nat) (ids : nat -> nat) (cb : mat F) : mat F :=
    if identity_guard sorted_b ids n
    then dist_sq_matrix cb                                   (* positions used as sample ids *)
    else dist_sq_matrix (fun p q => cb (ids p) (ids q)).
End MdsModelRange.
