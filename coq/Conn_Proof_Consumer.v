(* Conn_Proof_Consumer.v — the consumer-side obligation of property C03.

   find_neighbors(..., check_connectivity = true) guarantees that the graph of the FULL
   lists it returns (length k' >= requested k) is strongly connected.  "Isomap-type methods
   never fail because parts of the data are mutually unreachable" is a statement about the
   graph the consumer WALKS.  compute_shortest_distances_matrix walks, for every settled
   vertex, the entries 0 .. n_neighbors-1 of its list (Dijkstra_Model.nbr_row: firstn K).
   Here:
     * walking the first K entries of lists that are at least K long is exactly running on
       the truncated graph map (firstn K) g                       (row_fl_trunc);
     * hence every entry of the result is finite iff the TRUNCATED graph is strongly
       connected                                                   (consumer_finite_iff);
     * the committed pipeline (methods/isomap.hpp: n_neighbors = neighbors[0].size() = k')
       walks the full lists: all entries finite                    (isomap_pipeline_finite);
     * a consumer that is handed the REQUESTED k instead (walks only the first k entries of
       the longer lists) walks a graph nobody checked: on the 8-point witness entry (3,0)
       stays infinite, for both heaps and every admissible queue   (isomap_requested_k_refuted).
   Only C04's model and theorems are used. *)
From Coq Require Import List Arith Bool ZArith Lia Permutation.
From TK Require Import Conn_Model Conn_Spec Conn_Proof_Graph Conn_Proof_Dfs
     Conn_Proof_Strong Conn_Proof_Warshall Conn_Proof Conn_Proof_Main Conn_Proof_Dijkstra.
From TK Require Dijkstra_Model Dijkstra_Spec Dijkstra_Proof_Base Dijkstra_Proof.
Import ListNotations.

Module DM := Dijkstra_Model.
Module DS := Dijkstra_Spec.
Module DB := Dijkstra_Proof_Base.
Module DP := Dijkstra_Proof.

Definition long_enough (K : nat) (g : graph) : Prop := forall row, In row g -> K <= length row.

Definition truncate (K : nat) (g : graph) : graph := map (firstn K) g.

(* the geodesic matrix computed by a consumer that walks K entries of every list
   (compute_shortest_distances_matrix with n_neighbors = K, first overload) *)
Definition geodesics_K (fl : DM.flavour) (g : graph) (w : nat -> nat -> Z)
           (pick : list DM.entry -> option DM.entry) (N K : nat)
  : DM.dres (list (list (option Z))) :=
  DM.sequence (map (fun s => DM.row_fl fl g w pick N K s s) (seq 0 N)).

Lemma full_matrix_is_geodesics_K : forall fl r0 rest w pick N,
  DM.full_matrix fl (r0 :: rest) w pick N = geodesics_K fl (r0 :: rest) w pick N (length r0).
Proof. reflexivity. Qed.

(* ------------------------------------------------------------ only the first K entries *)
Lemma nbr_row_trunc : forall g K u, long_enough K g ->
  DM.nbr_row g K u = DM.nbr_row (truncate K g) K u.
Proof.
  intros g K u Hl. unfold DM.nbr_row, truncate.
  rewrite nth_error_map.
  destruct (nth_error g u) as [row|] eqn:E; cbn [option_map]; auto.
  assert (Hrow : K <= length row) by (apply Hl; eapply nth_error_In; eauto).
  rewrite firstn_length. rewrite Nat.min_l by auto.
  destruct (Nat.ltb (length row) K) eqn:E1; [apply Nat.ltb_lt in E1; lia|].
  rewrite Nat.ltb_irrefl. rewrite firstn_firstn. rewrite Nat.min_id. reflexivity.
Qed.

Lemma step_pq_trunc : forall g w pick K st, long_enough K g ->
  DM.step_pq g w pick K st = DM.step_pq (truncate K g) w pick K st.
Proof.
  intros g w pick K st Hl. unfold DM.step_pq.
  destruct (DM.d_heap st) as [|e h]; auto.
  destruct (pick (e :: h)) as [[u d]|]; auto.
  destruct (nth_error (DM.d_dist st) u) as [du|]; auto.
  destruct (DM.gt_inf d du); auto.
  unfold DM.expand. rewrite (nbr_row_trunc g K u Hl). reflexivity.
Qed.

Lemma step_fib_trunc : forall g w pick K st, long_enough K g ->
  DM.step_fib g w pick K st = DM.step_fib (truncate K g) w pick K st.
Proof.
  intros g w pick K st Hl. unfold DM.step_fib.
  destruct (DM.d_heap st) as [|e h]; auto.
  destruct (pick (e :: h)) as [[u d]|]; auto.
  destruct (nth_error (DM.d_s st) u) as [su|]; auto.
  unfold DM.expand. rewrite (nbr_row_trunc g K u Hl). reflexivity.
Qed.

Lemma loop_ext : forall s1 s2, (forall st, s1 st = s2 st) ->
  forall fuel st, DM.loop s1 fuel st = DM.loop s2 fuel st.
Proof.
  intros s1 s2 H. induction fuel as [|fuel IH]; intros st; cbn [DM.loop]; auto.
  rewrite H. destruct (s2 st) as [[st'| |]|]; auto.
Qed.

Lemma row_fl_trunc : forall fl g w pick N K src fidx, long_enough K g ->
  DM.row_fl fl g w pick N K src fidx = DM.row_fl fl (truncate K g) w pick N K src fidx.
Proof.
  intros fl g w pick N K src fidx Hl.
  destruct fl; cbn [DM.row_fl]; unfold DM.row_pq, DM.row_fib, DM.row_of;
    destruct (DM.init_state N src fidx) as [st0| |]; auto.
  - rewrite (loop_ext _ _ (fun st => step_pq_trunc g w pick K st Hl)). reflexivity.
  - rewrite (loop_ext _ _ (fun st => step_fib_trunc g w pick K st Hl)). reflexivity.
Qed.

Lemma geodesics_K_trunc : forall fl g w pick N K, long_enough K g ->
  geodesics_K fl g w pick N K = geodesics_K fl (truncate K g) w pick N K.
Proof.
  intros fl g w pick N K Hl. unfold geodesics_K. f_equal.
  apply map_ext. intros s. apply row_fl_trunc; auto.
Qed.

(* ------------------------------------------------------------ the truncated graph *)
Lemma in_firstn_in : forall (A : Type) n (l : list A) x, In x (firstn n l) -> In x l.
Proof.
  induction n as [|n IH]; intros l x H; [destruct H|].
  destruct l as [|h t]; [destruct H|]. cbn in H. destruct H as [->|H]; [left|right]; auto.
Qed.

Lemma truncate_edge : forall K g i j, edge (truncate K g) i j -> edge g i j.
Proof.
  intros K g i j H. apply edge_inv in H. destruct H as [row [E Hin]].
  unfold truncate in E. rewrite nth_error_map in E.
  destruct (nth_error g i) as [r|] eqn:Er; cbn in E; [|discriminate].
  inversion E; subst. eapply edge_of_nth_error; eauto.
  eapply in_firstn_in; eauto.
Qed.

Lemma truncate_dwf : forall N K g, wf_graph N g -> long_enough K g ->
  DS.wf_graph (truncate K g) N K.
Proof.
  intros N K g [Hlen Hrows] Hl. split.
  - unfold truncate. rewrite map_length. exact Hlen.
  - apply Forall_forall. intros row Hin. unfold truncate in Hin.
    apply in_map_iff in Hin. destruct Hin as [r [<- Hr]]. split.
    + rewrite firstn_length. apply Nat.min_l. apply Hl; auto.
    + apply Forall_forall. intros v Hv. eapply Hrows; eauto. eapply in_firstn_in; eauto.
Qed.

Lemma truncate_full : forall K g, (forall row, In row g -> length row = K) -> truncate K g = g.
Proof.
  intros K g H. unfold truncate. rewrite <- (map_id g) at 2. apply map_ext_in.
  intros row Hin. rewrite <- (H row Hin). apply firstn_all.
Qed.

(* ------------------------------------------------------------ what such a consumer gets *)
Lemma main_consumer_finite_iff : forall fl g w pick N K,
  0 < N -> wf_graph N g -> long_enough K g -> DS.nonneg_w g w -> DB.pick_ok pick ->
  exists m, geodesics_K fl g w pick N K = DM.DOk m /\
    forall i j, i < N -> j < N ->
      (DS.entry_of m i j <> None <-> reach (truncate K g) i j).
Proof.
  intros fl g w pick N K HN Hwf Hl Hnn Hp.
  pose proof (truncate_dwf N K g Hwf Hl) as Hdwf.
  assert (Hnn' : DS.nonneg_w (truncate K g) w).
  { intros u v He. apply Hnn. apply edge_conn_dijkstra. apply truncate_edge with (K := K).
    apply edge_conn_dijkstra. exact He. }
  exists (DS.sp_matrix (truncate K g) w N). split.
  - rewrite geodesics_K_trunc by auto.
    pose proof (DP.full_matrix_correct (truncate K g) w N K Hdwf Hnn' fl pick Hp HN) as Hfm.
    destruct (truncate K g) as [|r0 rest] eqn:Eg.
    { destruct Hdwf as [Hlen _]. cbn in Hlen. lia. }
    rewrite full_matrix_is_geodesics_K in Hfm.
    assert (Hr0 : length r0 = K).
    { destruct Hdwf as [_ Hall]. rewrite Forall_forall in Hall.
      apply (Hall r0). left; auto. }
    rewrite Hr0 in Hfm. exact Hfm.
  - intros i j Hi Hj. rewrite entry_sp_matrix by auto.
    rewrite (DP.sp_finite_iff_reach (truncate K g) w N K Hdwf Hnn' i j Hi Hj).
    split.
    + intros [W HW]. eapply path_reach; eauto.
    + intros Hr. apply reach_path. exact Hr.
Qed.

(* ------------------------------------------------------------ the Isomap pipeline
   methods/isomap.hpp embed():
       Neighbors neighbors = find_neighbors_with(plain_distance);          // check_connectivity
       ... = compute_shortest_distances_matrix(begin, end, neighbors, distance);
                                         // inside: n_neighbors = neighbors[0].size()        *)
Definition isomap_geodesics (fl : DM.flavour) (knn : nat -> graph) (w : nat -> nat -> Z)
           (pick : list DM.entry -> option DM.entry) (N k : nat)
  : cres (DM.dres (list (list (option Z)))) :=
  match find_neighbors is_connected_fixed knn N N k true with
  | COk (_, g) => COk (DM.full_matrix fl g w pick N)
  | COOB s i z => COOB s i z
  | CFuel => CFuel
  end.

(* the consumer is handed the REQUESTED number of neighbours (seeded change C03_2):
       compute_shortest_distances_matrix(begin, end, neighbors, parameters[num_neighbors], distance) *)
Definition isomap_geodesics_requested_k (fl : DM.flavour) (knn : nat -> graph) (w : nat -> nat -> Z)
           (pick : list DM.entry -> option DM.entry) (N k : nat)
  : cres (DM.dres (list (list (option Z)))) :=
  match find_neighbors is_connected_fixed knn N N k true with
  | COk (_, g) => COk (geodesics_K fl g w pick N k)
  | COOB s i z => COOB s i z
  | CFuel => CFuel
  end.

Lemma main_isomap_pipeline_finite : forall dist knn N,
  (forall k, k <= N - 1 -> is_knn_graph dist N k (knn k)) -> 1 <= N ->
  forall k fl w pick, 1 <= k ->
  (forall u v, (0 <= w u v)%Z) -> DB.pick_ok pick ->
  exists m, isomap_geodesics fl knn w pick N k = COk (DM.DOk m) /\
    forall i j, i < N -> j < N -> exists z, DS.entry_of m i j = Some z.
Proof.
  intros dist knn N Hknn HN k fl w pick Hk Hw Hp.
  destruct (main_cc_terminates dist knn N Hknn HN k Hk) as [k' [g E]].
  assert (Hnn : DS.nonneg_w g w) by (intros u v _; apply Hw).
  destruct (main_cc_dijkstra_finite dist knn N Hknn HN k k' g Hk E fl w pick Hnn Hp) as [m [Em Hm]].
  exists m. split; auto. unfold isomap_geodesics. rewrite E. rewrite Em. reflexivity.
Qed.

Lemma main_isomap_requested_k_refuted :
  exists pts k,
    let N := length pts in
    let knn := knn_brute pts in
    NoDup pts /\ 3 <= k /\ k <= N - 1 /\
    (forall k', k' <= N - 1 -> is_knn_graph (pdist pts) N k' (knn k')) /\
    forall fl pick, DB.pick_ok pick ->
    exists m i j, i < N /\ j < N /\
      isomap_geodesics_requested_k fl knn (pdist pts) pick N k = COk (DM.DOk m) /\
      DS.entry_of m i j = None.
Proof.
  exists w8_pts, 3. cbv zeta. change (length w8_pts) with 8.
  split.
  { unfold w8_pts. repeat constructor; cbn; intuition congruence. }
  split; [lia|]. split; [lia|]. split; [apply w8_knn_exact|].
  intros fl pick Hp.
  destruct w8_fixed as [Efn _].
  set (g := knn_brute w8_pts 6) in *.
  assert (Hwf : wf_graph 8 g) by (apply wf_b_spec; vm_compute; reflexivity).
  assert (Hl : long_enough 3 g).
  { intros row Hin.
    assert (Hall : forallb (fun r => 3 <=? length r) g = true) by (vm_compute; reflexivity).
    rewrite forallb_forall in Hall. apply Nat.leb_le. apply Hall; auto. }
  assert (Hnn : DS.nonneg_w g (pdist w8_pts)) by (intros u v _; unfold pdist, l1; lia).
  assert (HN : 0 < 8) by lia.
  destruct (main_consumer_finite_iff fl g (pdist w8_pts) pick 8 3 HN Hwf Hl Hnn Hp) as [m [Em Hm]].
  exists m, 3, 0. split; [lia|]. split; [lia|]. split.
  - unfold isomap_geodesics_requested_k. rewrite Efn. rewrite Em. reflexivity.
  - destruct (DS.entry_of m 3 0) as [z|] eqn:E; auto. exfalso.
    assert (Hne : DS.entry_of m 3 0 <> None) by (rewrite E; discriminate).
    apply (Hm 3 0) in Hne; try lia.
    assert (Et : truncate 3 g = knn_brute w8_pts 3) by (vm_compute; reflexivity).
    rewrite Et in Hne.
    destruct w8_shipped as [_ [_ Hnr]]. apply Hnr. exact Hne.
Qed.

(* non-vacuity of main_consumer_finite_iff *)
Lemma nv_consumer :
  0 < 8 /\ wf_graph 8 (knn_brute w8_pts 6) /\ long_enough 3 (knn_brute w8_pts 6) /\
  DS.nonneg_w (knn_brute w8_pts 6) (pdist w8_pts) /\ DB.pick_ok DM.pick_first_min.
Proof.
  split; [lia|]. split; [apply wf_b_spec; vm_compute; reflexivity|]. split.
  { intros row Hin.
    assert (Hall : forallb (fun r => 3 <=? length r) (knn_brute w8_pts 6) = true)
      by (vm_compute; reflexivity).
    rewrite forallb_forall in Hall. apply Nat.leb_le. apply Hall; auto. }
  split; [intros u v _; unfold pdist, l1; lia|apply DB.pick_first_min_ok].
Qed.
