(* ====================================================================== *)
(*  Lle_Loop.v — the column bookkeeping loop of hessian_weight_matrix as   *)
(*  a TABLE of integer-linear forms (generated from the source by          *)
(*  translate/t_hlle.py into gen/HlleLoop.v) and a generic evaluator.      *)
(*                                                                         *)
(*    lin         c_ct*ct + c_p*p + c_j*j + c_d*target_dimension + c_dp*dp *)
(*                + c_1  (coefficients in Z)                               *)
(*    hlle_loop   ct0, j0, jbound, p0, pbound, col, src1, src2, upd (the   *)
(*                NEW value of ct after an outer iteration), ncols, and    *)
(*                whether dp is the triangular number                      *)
(*    loop_writes L d   runs                                               *)
(*                  ct = ct0; for (j = j0; j < jbound; ++j) {              *)
(*                    for (p = p0; p < pbound; ++p) emit (j,p,col,src1,src2)*)
(*                    ct = upd; }                                          *)
(*                over Z for target_dimension = d (fuel d + 1 per loop)    *)
(*    loop_repaired / loop_shipped   the two tables this development knows *)
(*    loop_kind L       Some false / Some true / None                      *)
(*  Theorems (Lle_Proof_Loop.v): for the known tables loop_writes is       *)
(*  exactly Lle_Model.hlle_writes with sources j+1 and j+p+1.              *)
(*  NO PROOFS HERE.                                                        *)
(* ====================================================================== *)
Require Import ZArith List Bool.
Import ListNotations.
Local Open Scope Z_scope.

Record lin : Type := mk_lin { l_ct : Z; l_p : Z; l_j : Z; l_d : Z; l_dp : Z; l_c : Z }.

Definition leval (e : lin) (ct p j d dp : Z) : Z :=
  l_ct e * ct + l_p e * p + l_j e * j + l_d e * d + l_dp e * dp + l_c e.

Record hlle_loop : Type := mk_hlle_loop {
  hl_ct0 : lin; hl_j0 : lin; hl_jbound : lin; hl_p0 : lin; hl_pbound : lin;
  hl_col : lin; hl_src1 : lin; hl_src2 : lin; hl_upd : lin; hl_ncols : lin;
  hl_dp_tri : bool }.

Definition lin_eqb (a b : lin) : bool :=
  Z.eqb (l_ct a) (l_ct b) && Z.eqb (l_p a) (l_p b) && Z.eqb (l_j a) (l_j b) &&
  Z.eqb (l_d a) (l_d b) && Z.eqb (l_dp a) (l_dp b) && Z.eqb (l_c a) (l_c b).

Definition hlle_loop_eqb (a b : hlle_loop) : bool :=
  lin_eqb (hl_ct0 a) (hl_ct0 b) && lin_eqb (hl_j0 a) (hl_j0 b) && lin_eqb (hl_jbound a) (hl_jbound b) &&
  lin_eqb (hl_p0 a) (hl_p0 b) && lin_eqb (hl_pbound a) (hl_pbound b) && lin_eqb (hl_col a) (hl_col b) &&
  lin_eqb (hl_src1 a) (hl_src1 b) && lin_eqb (hl_src2 a) (hl_src2 b) && lin_eqb (hl_upd a) (hl_upd b) &&
  lin_eqb (hl_ncols a) (hl_ncols b) && Bool.eqb (hl_dp_tri a) (hl_dp_tri b).

Definition write5 : Type := (Z * Z * Z * Z * Z)%type.   (* j, p, column written, source 1, source 2 *)

Fixpoint p_loop (L : hlle_loop) (fuel : nat) (ct p j d dp : Z) : list write5 :=
  match fuel with
  | O => []
  | S f =>
      if Z.ltb p (leval (hl_pbound L) ct p j d dp)
      then (j, p, leval (hl_col L) ct p j d dp, leval (hl_src1 L) ct p j d dp, leval (hl_src2 L) ct p j d dp)
             :: p_loop L f ct (p + 1) j d dp
      else []
  end.

Fixpoint j_loop (L : hlle_loop) (fuel pfuel : nat) (ct j d dp : Z) : list write5 :=
  match fuel with
  | O => []
  | S f =>
      if Z.ltb j (leval (hl_jbound L) ct 0 j d dp)
      then p_loop L pfuel ct (leval (hl_p0 L) ct 0 j d dp) j d dp
             ++ j_loop L f pfuel (leval (hl_upd L) ct 0 j d dp) (j + 1) d dp
      else []
  end.

Definition tri (d : Z) : Z := d * (d + 1) / 2.

Definition loop_writes (L : hlle_loop) (d : nat) : list write5 :=
  let dz := Z.of_nat d in
  let dp := tri dz in
  j_loop L (S d) (S d) (leval (hl_ct0 L) 0 0 0 dz dp) (leval (hl_j0 L) 0 0 0 dz dp) dz dp.

Definition loop_ncols (L : hlle_loop) (d : nat) : Z :=
  let dz := Z.of_nat d in leval (hl_ncols L) 0 0 0 dz (tri dz).

(* the two tables this development has theorems for *)
Definition loop_common (upd : lin) : hlle_loop :=
  mk_hlle_loop
    (mk_lin 0 0 0 0 0 0)      (* ct = 0 *)
    (mk_lin 0 0 0 0 0 0)      (* j = 0 *)
    (mk_lin 0 0 0 1 0 0)      (* j < target_dimension *)
    (mk_lin 0 0 0 0 0 0)      (* p = 0 *)
    (mk_lin 0 0 (-1) 1 0 0)   (* p < target_dimension - j *)
    (mk_lin 1 1 0 1 0 1)      (* Yi.col(ct + p + 1 + target_dimension) *)
    (mk_lin 0 0 1 0 0 1)      (* Yi.col(j + 1) *)
    (mk_lin 0 1 1 0 0 1)      (* Yi.col(j + p + 1) *)
    upd
    (mk_lin 0 0 0 1 1 1)      (* Yi(k, 1 + target_dimension + dp) *)
    true.
Definition loop_repaired : hlle_loop := loop_common (mk_lin 1 0 (-1) 1 0 0).  (* ct += target_dimension - j *)
Definition loop_shipped : hlle_loop := loop_common (mk_lin 2 0 (-1) 1 0 0).   (* ct += ct + target_dimension - j *)

Definition loop_kind (L : hlle_loop) : option bool :=
  if hlle_loop_eqb L loop_repaired then Some false
  else if hlle_loop_eqb L loop_shipped then Some true else None.
