(* ====================================================================== *)
(*  Pca_Proof_Opt.v — variance optimality of PCA (C06) from Ky Fan's       *)
(*  inequality (Spectral_KyFan.v), over every ORDERED field.               *)
(*  What is assumed: the solver's answer is part of a FULL orthonormal     *)
(*  eigendecomposition of the covariance with ascending eigenvalues        *)
(*  (oracle contract of DESIGN 1.3, validated at run time by the check).   *)
(* ====================================================================== *)
Require Import Field Ring Arith Lia List Bool.
From TK Require Import Mat_Sums Mat_Core Proj_Model Proj_Spec Proj_Proof Pca_Model Pca_Spec Pca_Proof
                       Spectral_KyFan.

Section PcaOpt.
  Context {F : Type} {Fo : FieldOps F} {Ff : IsField F} {Fle : OrderedField F}.
  Add Field PcaOptField : (@Fth F Fo Ff).
  Local Open Scope nat_scope.
  Local Open Scope F_scope.

  Lemma retained_is_quad D d (C Q : mat F) : retained D d C Q = quad D d C Q.
  Proof. reflexivity. Qed.

  (* trace (Q^T C Q) IS the variance of the data projected by Q (about the training mean),
     summed over the d output coordinates *)
  Theorem retained_is_projected_variance N D d (X Q : mat F) :
    of_nat N <> 0 ->
    retained D d (cov_spec N X) Q =
    sumn d (fun c => sumn N (fun k => pca_embedding N D X Q k c * pca_embedding N D X Q k c) / of_nat N).
  Proof.
    intros HN. unfold retained. apply sumn_ext. intros c _.
    rewrite embedding_moment by assumption.
    transitivity (sumn D (fun s => Q s c * sumn D (fun t => cov_spec N X s t * Q t c))).
    - apply sumn_ext. intros s _. rewrite <- sumn_mul_l. apply sumn_ext. intros t _. ring.
    - field. assumption.
  Qed.

  (* THEOREM pca_variance_optimal: no D x d matrix with orthonormal columns retains more
     variance than the last d eigenvector columns; and what those retain is the sum of the d
     largest eigenvalues *)
  Theorem pca_variance_optimal N D d (X V Q : mat F) (Lam : vec F) :
    d <= D ->
    full_contract D (cov_spec N X) V Lam ->
    ascending D Lam ->
    meq d d (mmul D (mtrans Q) Q) mI ->
    let P := select_cols V ((D - d)%nat, d) in
    fle (retained D d (cov_spec N X) Q) (retained D d (cov_spec N X) P) /\
    retained D d (cov_spec N X) P = sumn d (fun c => Lam (D - d + c)%nat).
  Proof.
    intros Hd [HVtV [HVVt HCV]] Hasc HQ P.
    assert (E : retained D d (cov_spec N X) P = sumn d (fun c => Lam (D - d + c)%nat)).
    { unfold P, select_cols. cbn [fst]. rewrite retained_is_quad.
      apply (ky_fan_attained D d (D - d) (cov_spec N X) V Lam); try assumption. lia. }
    split; [|exact E]. rewrite E, retained_is_quad.
    apply (ky_fan_max D d (cov_spec N X) V Q Lam); assumption.
  Qed.

  (* the same bound from below, for completeness: nothing retains less than the first d *)
  Theorem pca_variance_lower_bound N D d (X V Q : mat F) (Lam : vec F) :
    d <= D ->
    full_contract D (cov_spec N X) V Lam ->
    ascending D Lam ->
    meq d d (mmul D (mtrans Q) Q) mI ->
    fle (sumn d Lam) (retained D d (cov_spec N X) Q).
  Proof.
    intros Hd [HVtV [HVVt HCV]] Hasc HQ. rewrite retained_is_quad.
    apply (ky_fan_min D d (cov_spec N X) V Q Lam); assumption.
  Qed.
End PcaOpt.
