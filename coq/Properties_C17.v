(* Properties_C17.v — property C17: t-SNE similarities and gradient.
   Only statements; every proof is `exact <lemma>`.

   Models: Tsne_Model.v (dense algebra over an abstract field, closed at Qc; perplexity
   search over Q with exp/log as value oracles; K by PrimFloat), Tsne_Vp_Model.v
   (tsne::VpTree + the neighbour loop), Tsne_Sym_Model.v (symmetrizeMatrix, CSR lists with
   bounds-checked accesses).  Spec: Tsne_Spec.v, Knn_Spec.v (shared with C02).
   `_refuted` theorems are about the code BEFORE fixes F10 / F11 (regression theorems) or
   about an input class where the current code deviates (coincident samples). *)
From Coq Require Import List ZArith QArith Qcanon Floats Permutation.
From TK Require Import Mat_Sums Mat_Qc Knn_Spec Tsne_Model Tsne_Vp_Model Tsne_Sym_Model Tsne_Spec
  Tsne_Proof_Dense Tsne_Proof_KL Tsne_Proof_Perp Tsne_Proof_K Tsne_Proof_Vp Tsne_Proof_Sym Tsne_Proof_Sym2 Tsne_Proof_SymSpec Tsne_Proof_Csr Tsne_BH_Model Tsne_Proof_BH
  Tsne_PerpRed_Model Tsne_Proof_PerpRed Tsne_Proof_Converge Tsne_Race_Model Tsne_Proof_Race Tsne_Run_Model Tsne_Proof_Run.
From TK Require QuadTree_Model QuadTree_Spec QuadTree_SpecExec QuadTree_Proof_Gradient QuadTree_Proof_Final.
Import ListNotations.

(* ---------------------------------------------------------------- dense algebra (Qc) *)

(* zeroMean(X, N, D): afterwards every coordinate sums to zero over the samples (input
   features and, every iteration, the map) *)
Theorem zero_mean_centres : forall N D (X : @buf Qc),
  N <> 0%nat -> centred N D (zero_mean N X).
Proof. exact zero_mean_centres_Qc. Qed.
Print Assumptions zero_mean_centres.
Example zero_mean_centres_nonvacuous : (@of_nat Qc _ 3%nat) <> 0%Qc.
Proof. exact Tsne_Proof_Dense.zero_mean_centres_nonvacuous. Qed.

(* centring does not change differences between samples (hence no distance, no similarity) *)
Theorem zero_mean_keeps_differences : forall N (X : @buf Qc) n m d,
  (zero_mean N X n d - zero_mean N X m d = X n d - X m d)%F.
Proof. exact (@zero_mean_diff Qc _ _). Qed.
Print Assumptions zero_mean_keeps_differences.

(* computeSquaredEuclideanDistance after F10 (`+=`): DD[n,m] = |x_n - x_m|^2 *)
Theorem sqdist_correct : forall D (X : @buf Qc) n m,
  sqdist_fixed D X n m = true_sqdist D X n m.
Proof. exact (@sqdist_correct_thm Qc _ _). Qed.
Print Assumptions sqdist_correct.

(* before F10 (`=`): DD[n,m] = -2 <x_n, x_m>, which is not the squared distance *)
Theorem sqdist_shipped_value : forall D (X : @buf Qc) n m,
  sqdist_shipped D X n m = (- (two * sumn D (fun d => X n d * X m d)))%F.
Proof. exact (@sqdist_shipped_value_thm Qc _ _). Qed.
Print Assumptions sqdist_shipped_value.

Theorem sqdist_refuted :
  exists (D : nat) (X : @buf Qc) (n m : nat), sqdist_shipped D X n m <> true_sqdist D X n m.
Proof. exact sqdist_refuted_thm. Qed.
Print Assumptions sqdist_refuted.

(* run(), exact branch: P := (P + P^T) / sum is symmetric and sums to one *)
Theorem dense_symmetrise : forall N (P : @buf Qc),
  total N (dsym P) <> 0%F -> is_joint N (dense_joint N P).
Proof. exact (@dense_symmetrise_thm Qc _ _). Qed.
Print Assumptions dense_symmetrise.

Example dense_symmetrise_nonvacuous : total 3%nat (dsym wP) <> 0%Qc.
Proof. exact Tsne_Proof_Dense.dense_symmetrise_nonvacuous. Qed.

(* computeExactGradient (with the repaired distance) is the published closed form
   dC_n = sum_{m<>n} (p_nm - q_nm) w_nm (y_n - y_m); that this is 1/4 grad KL(P||Q) is the
   derivation of van der Maaten & Hinton — not mechanised: hence _partial; the harness
   measures it against central finite differences of KL *)
Theorem exact_gradient_closed_form_partial : forall N D (P Y : @buf Qc) n d,
  exact_grad_fixed N D P Y n d = grad_spec N D P Y n d.
Proof. exact (@exact_gradient_closed_form_thm Qc _ _). Qed.
Print Assumptions exact_gradient_closed_form_partial.

(* the algebraic half of that derivation, for every field: with the FORMAL derivative
     dC = sum_{k<>l} p_kl (dZ/Z - dw_kl/w_kl),  dZ = sum_{k<>l} dw_kl,
     dw_kl = -2 w_kl^2 (y_kd - y_ld)(delta_kn - delta_ln)
   (what d log u = du/u and the derivative of 1/(1+|y_k-y_l|^2) give for
   C = sum_{k<>l} p_kl (log p_kl - log w_kl + log Z)), symmetric P with sum_{k<>l} p_kl = 1:
   dC = 4 * closed form.  Only those two analytic facts remain outside Coq. *)
Theorem kl_formal_derivative : forall (N D : nat) (P Y : @buf Qc) (n d : nat),
  (n < N)%nat ->
  (forall k l, (k < N)%nat -> (l < N)%nat -> P k l = P l k) ->
  offd N P = 1%F ->
  (forall k l, (k < N)%nat -> (l < N)%nat -> w_t D Y k l <> 0%F) ->
  Z_t N D Y <> 0%F ->
  dC N D P Y n d = ((two * two) * grad_spec N D P Y n d)%F.
Proof. exact kl_formal_derivative_Qc. Qed.
Print Assumptions kl_formal_derivative.

Example kl_formal_derivative_nonvacuous :
  (0 < 3)%nat /\
  (forall k l, (k < 3)%nat -> (l < 3)%nat -> wP k l = wP l k) /\
  offd 3 wP = 1%Qc /\
  (forall k l, (k < 3)%nat -> (l < 3)%nat -> w_t 1 wY k l <> 0%Qc) /\
  Z_t 3 1 wY <> 0%Qc.
Proof. exact kl_formal_derivative_nonvacuous_ex. Qed.

Theorem exact_gradient_refuted :
  exists (N D : nat) (P Y : @buf Qc) (n d : nat),
    exact_grad_shipped N D P Y n d <> grad_spec N D P Y n d.
Proof. exact exact_gradient_refuted_thm. Qed.
Print Assumptions exact_gradient_refuted.

(* X.array() /= X.maxCoeff(): when the largest SIGNED entry is positive all entries end up
   <= 1 and 1 is attained; entries below -1 are possible (max_normalise_signed) *)
Theorem max_normalise_ok : forall l mx l',
  max_coeff l = Some mx -> (0 < mx)%Q -> max_normalise l = Some l' -> max_normalised l'.
Proof. exact max_normalise_spec. Qed.
Print Assumptions max_normalise_ok.

(* constant data (maximum <= 0 after centring) is left alone (F43); before that fix it was
   divided by its zero maximum *)
Theorem max_normalise_constant_data : forall l mx,
  max_coeff l = Some mx -> (mx <= 0)%Q -> max_normalise l = Some l.
Proof. exact max_normalise_nonpositive. Qed.
Print Assumptions max_normalise_constant_data.

Example max_normalise_constant_data_nonvacuous : max_coeff [0; 0; 0]%Q = Some 0%Q /\ (0 <= 0)%Q.
Proof. exact max_normalise_constant_nonvacuous. Qed.

Theorem max_normalise_refuted :
  max_normalise_shipped [0; 0; 0]%Q = Some (map (fun x => x / 0)%Q [0; 0; 0]%Q).
Proof. exact max_normalise_shipped_div0. Qed.
Print Assumptions max_normalise_refuted.

Example max_normalise_ok_nonvacuous : max_coeff [-3; 1; 2]%Q = Some 2%Q /\ (0 < 2)%Q.
Proof. exact max_normalise_nonvacuous. Qed.

(* ---------------------------------------------------------------- perplexity search *)

(* both computeGaussianPerplexity overloads: if the loop is left with found = true, the row in
   memory was evaluated at some beta and its entropy H is within tol of log(perplexity) —
   for every exp / log oracle, every DBL_MIN, every tol *)
Theorem perplexity_exit : forall (expf logf : Q -> Q) (dbl_min tol : Q) self dd perp ev,
  perp_search expf logf dbl_min tol self dd perp = (true, Some ev) ->
  (exists beta, ev = evaluate expf logf dbl_min self dd beta) /\ entropy_within logf tol perp ev.
Proof. exact perplexity_exit_thm. Qed.
Print Assumptions perplexity_exit.

Example perplexity_exit_nonvacuous :
  exists ev, perp_search (fun _ => 1%Q) (fun _ => 0%Q) 0 (1 # 100000) (Some 0%nat) [0; 0; 0]%Q 2 = (true, Some ev).
Proof. exact Tsne_Proof_Perp.perplexity_exit_nonvacuous. Qed.

(* the loop always leaves an evaluated row behind (it is normalised and stored even when
   found = false after 200 steps; convergence itself is analysis and only measured) *)
Theorem perplexity_row_defined_partial : forall (expf logf : Q -> Q) (dbl_min tol : Q) self dd perp,
  exists b ev beta, perp_search expf logf dbl_min tol self dd perp = (b, Some ev) /\
                    ev = evaluate expf logf dbl_min self dd beta.
Proof. exact perp_search_some. Qed.
Print Assumptions perplexity_row_defined_partial.

(* the stored row sums to 1 - DBL_MIN / sum_P *)
Theorem perplexity_row_sum : forall (expf logf : Q -> Q) (dbl_min : Q) self dd beta,
  let ev := evaluate expf logf dbl_min self dd beta in
  ~ (e_sum ev == 0)%Q ->
  (qsum (normalised ev) == 1 - dbl_min / e_sum ev)%Q.
Proof. exact normalised_sum. Qed.
Print Assumptions perplexity_row_sum.
Example perplexity_row_sum_nonvacuous :
  ~ (e_sum (evaluate (fun _ => 1%Q) (fun _ => 0%Q) 0 None [0; 0]%Q 1) == 0)%Q.
Proof. exact normalised_sum_nonvacuous. Qed.

(* H is the Shannon entropy of the stored row; the only fact used about the oracles is, at the kernel
   values of this row, log(exp(-beta d)/S) = -beta d - log S; DBL_MIN counted as 0; K-NN overload *)
Theorem perplexity_H_is_entropy : forall (expf logf : Q -> Q) (dbl_min : Q) dd beta,
  (dbl_min == 0)%Q ->
  let ev := evaluate expf logf dbl_min None dd beta in
  ~ (e_sum ev == 0)%Q ->
  log_of_kernel expf logf beta (e_sum ev) dd ->
  (e_H ev == shannon expf logf beta (e_sum ev) dd)%Q.
Proof. exact H_is_shannon_entropy. Qed.
Print Assumptions perplexity_H_is_entropy.

Example perplexity_H_is_entropy_nonvacuous :
  (0 == 0)%Q /\ ~ (e_sum (evaluate (fun _ => 1%Q) ex_logf 0 None [0; 0]%Q 1) == 0)%Q /\
  log_of_kernel (fun _ => 1%Q) ex_logf 1 (e_sum (evaluate (fun _ => 1%Q) ex_logf 0 None [0; 0]%Q 1)) [0; 0]%Q.
Proof. exact H_is_shannon_entropy_nonvacuous. Qed.

(* the bisection keeps 0 < min_beta <= beta <= max_beta *)
Theorem perplexity_bracket : forall lp ev st,
  bracket st -> e_beta ev = fst (fst st) -> bracket (next lp ev st).
Proof. exact bracket_inv. Qed.
Print Assumptions perplexity_bracket.

(* once both ends are known the search IS a bisection: beta is the midpoint and the width halves
   every step (so 200 steps shrink it by 2^-200); that the target entropy lies inside needs the
   monotonicity of the entropy in beta, which is analysis and is not proved *)
Theorem perplexity_bisection_halves : forall lp ev beta a b,
  (beta == (a + b) / 2)%Q ->
  let '(beta', mi, ma) := next lp ev (beta, Some a, Some b) in
  exists a' b', mi = Some a' /\ ma = Some b' /\ (b' - a' == (b - a) / 2)%Q /\ (beta' == (a' + b') / 2)%Q.
Proof. exact bisection_halves. Qed.
Print Assumptions perplexity_bisection_halves.

Example perplexity_bracket_nonvacuous : bracket (1%Q, None, None).
Proof. exact bracket_init. Qed.

(* CONVERGENCE of the search (wave 2; the half that perplexity_row_defined_partial leaves open), for every exp / log
   oracle under which the row entropy h(beta) = e_H (evaluate self dd beta) is non-increasing in beta (0 < b1 <= b2 ->
   h b2 <= h b1) and within tol of log(perplexity) on a window [lo, hi], 0 < lo <= hi: if the window's octave is
   reached by k doublings / halvings from 1 (lo <= 2^k, 1 <= hi 2^k), nb + 1 bisection steps shrink a bracket of
   width < lo below the window's width (lo <= (hi - lo) 2^(nb+1)) and k + nb + 4 <= 200, the loop exits with found =
   true and the row in memory has entropy within tol of log(perplexity).  Monotonicity and the window are the
   oracle contract (for the true exp / log: analysis), exactly as everywhere else in this slice. *)
Theorem perplexity_converges : forall (expf logf : Q -> Q) (dbl_min tol : Q) self dd perp (lo hi : Q),
  (0 < tol)%Q -> (0 < lo)%Q -> (lo <= hi)%Q ->
  (forall b1 b2, 0 < b1 -> b1 <= b2 ->
     hfun expf logf dbl_min self dd b2 <= hfun expf logf dbl_min self dd b1)%Q ->
  (forall b, (lo <= b)%Q -> (b <= hi)%Q -> Qabs_lt (hfun expf logf dbl_min self dd b - logf perp) tol) ->
  forall nb, (lo <= (hi - lo) * p2 (S nb))%Q ->
  forall k, (lo <= p2 k)%Q -> (1 <= hi * p2 k)%Q -> (k + nb + 4 <= 200)%nat ->
  exists ev, perp_search expf logf dbl_min tol self dd perp = (true, Some ev) /\
             (exists beta, ev = evaluate expf logf dbl_min self dd beta) /\ entropy_within logf tol perp ev.
Proof. exact perp_search_converges_thm. Qed.
Print Assumptions perplexity_converges.

Example perplexity_converges_nonvacuous :
  (0 < (1 # 4) /\ 0 < 3 - (1 # 8) /\ 3 - (1 # 8) <= 3 + (1 # 8) /\
  (forall b1 b2, 0 < b1 -> b1 <= b2 ->
     hfun (fun _ => 1) cv_logf 0 None [- (1); - (1)] b2 <= hfun (fun _ => 1) cv_logf 0 None [- (1); - (1)] b1) /\
  (forall b, 3 - (1 # 8) <= b -> b <= 3 + (1 # 8) ->
     Qabs_lt (hfun (fun _ => 1) cv_logf 0 None [- (1); - (1)] b - cv_logf 5) (1 # 4)) /\
  3 - (1 # 8) <= ((3 + (1 # 8)) - (3 - (1 # 8))) * p2 (S 3) /\
  3 - (1 # 8) <= p2 2 /\ 1 <= (3 + (1 # 8)) * p2 2 /\ (2 + 3 + 4 <= 200)%nat /\
  fst (perp_search (fun _ => 1) cv_logf 0 (1 # 4) None [- (1); - (1)] 5) = true)%Q.
Proof. exact perp_search_converges_nonvacuous. Qed.

(* the search the check RUNS (extracted; every kept number passed through Qred so that 200 bisection steps fit in
   memory) is the search the theorems above are about: same `found`, same row up to Qeq, for every oracle that is a
   function of the value of its argument *)
Theorem perplexity_reduced_model_equiv : forall (expf logf : Q -> Q) (dbl_min tol : Q),
  (forall x y, (x == y)%Q -> (expf x == expf y)%Q) -> (forall x y, (x == y)%Q -> (logf x == logf y)%Q) ->
  forall self dd perp,
  fst (perp_row_r expf logf dbl_min tol self dd perp) = fst (perp_search expf logf dbl_min tol self dd perp) /\
  match snd (perp_row_r expf logf dbl_min tol self dd perp), perp_row expf logf dbl_min tol self dd perp with
  | Some (_, r), Some r' => Forall2 Qeq r r'
  | None, None => True
  | _, _ => False
  end.
Proof. exact perp_row_r_equiv_thm. Qed.
Print Assumptions perplexity_reduced_model_equiv.

Example perplexity_reduced_model_equiv_nonvacuous :
  (forall x y : Q, (x == y)%Q -> ((fun _ : Q => 1) x == (fun _ : Q => 1) y)%Q) /\
  (forall x y : Q, (x == y)%Q -> ((fun _ : Q => 0) x == (fun _ : Q => 0) y)%Q).
Proof. exact perp_red_oracles_nonvacuous. Qed.

(* ---------------------------------------------------------------- K *)

(* K = (int)(3 * perplexity) is the floor of the rounded product, and K + 1 <= N for every
   perplexity in [0, (N-1)/3] — any monotone rounding that is exact on integers *)
Theorem K_is_floor : forall fl : Q -> Q,
  (forall x y, x <= y -> fl x <= fl y)%Q -> (forall z : Z, fl (inject_Z z) == inject_Z z)%Q ->
  forall perp, (0 <= perp)%Q ->
  (inject_Z (K_of_Q fl perp) <= fl (3 * perp) /\ fl (3 * perp) < inject_Z (K_of_Q fl perp + 1))%Q.
Proof. exact K_is_floor_thm. Qed.
Print Assumptions K_is_floor.

Theorem K_fits : forall fl : Q -> Q,
  (forall x y, x <= y -> fl x <= fl y)%Q -> (forall z : Z, fl (inject_Z z) == inject_Z z)%Q ->
  forall perp (N : Z), (0 <= perp)%Q -> (3 * perp <= inject_Z (N - 1))%Q ->
  (0 <= K_of_Q fl perp <= N - 1)%Z.
Proof. exact K_fits_thm. Qed.
Print Assumptions K_fits.
Example K_fits_nonvacuous :
  (forall x y, x <= y -> (fun q : Q => q) x <= (fun q : Q => q) y)%Q /\
  (forall z : Z, (fun q : Q => q) (inject_Z z) == inject_Z z)%Q /\
  (0 <= 10)%Q /\ (3 * 10 <= inject_Z (31 - 1))%Q /\ K_of_Q (fun q => q) 10 = 30%Z.
Proof. exact Tsne_Proof_K.K_fits_nonvacuous. Qed.

(* binary64 (PrimFloat): the largest perplexity validate() accepts, fl((N-1)/3.0), gives
   exactly K = N - 1 for every N up to 5000 (finite domain, enumerated completely) *)
Theorem K_max_perplexity : forall n : Z, (1 <= n <= 5000)%Z ->
  K_of (max_perplexity n) = Some (n - 1)%Z.
Proof. exact K_max_perplexity_thm. Qed.
Print Assumptions K_max_perplexity.

(* ---------------------------------------------------------------- Barnes-Hut neighbours *)

(* tsne::VpTree::search on ANY tree satisfying the build invariant, under a metric: the k
   nearest items, nearest first *)
Theorem vp_search_exact : forall d dom t q k,
  metric_on dom d -> dom q -> (forall x, In x (items t) -> dom x) ->
  vp_inv d t -> NoDup (items t) -> (1 <= k)%nat ->
  exists l, vp_search d t q k = Some l /\
            knn_of d q (items t) (Nat.min k (length (items t))) l /\ asc_from d q l.
Proof. exact vp_search_exact_thm. Qed.
Print Assumptions vp_search_exact.

(* buildFromPoints establishes the invariant for every answer of uniform_random() and
   std::nth_element that meets the contract *)
Theorem vp_build_inv : forall d piv nth,
  piv_ok piv -> nth_oracle_ok d nth ->
  forall fuel lower its, (length its < fuel)%nat ->
  exists t, build d piv nth fuel lower its = Built t /\ vp_inv d t /\ Permutation its (items t).
Proof. exact build_inv_thm. Qed.
Print Assumptions vp_build_inv.

Example vp_build_inv_nonvacuous : piv_ok piv_first /\ forall d, nth_oracle_ok d (nth_sort d).
Proof. exact (conj piv_first_ok nth_sort_ok). Qed.

(* consumer before F45 (row = positions 1..K of the search result): the K nearest OTHER samples when
   no other sample coincides with sample n (after F11: the distance is a metric) *)
Theorem bh_neighbours_exact : forall d N t q K,
  metric_on (in_range N) d -> in_range N q -> (K + 1 <= N)%nat ->
  vp_inv d t -> Permutation (items t) (samples N) ->
  (forall x, in_range N x -> x <> q -> (d q q < d q x)%Z) ->
  exists l, bh_row d t q K = Some l /\ is_knn d N q K l.
Proof. exact bh_neighbours_exact_thm. Qed.
Print Assumptions bh_neighbours_exact.

Example bh_neighbours_exact_nonvacuous :
  let d := d_abs_1d f11_xs in
  exists t, build d piv_first (nth_sort d) 6 0 (samples 5) = Built t /\
    metric_on (in_range 5) d /\ vp_inv d t /\ Permutation (items t) (samples 5) /\
    (forall x, in_range 5 x -> x <> 3%Z -> (d 3 3 < d 3 x)%Z) /\
    bh_row d t 3%Z 2 = Some [2; 1]%Z.
Proof. exact Tsne_Proof_Vp.bh_neighbours_exact_nonvacuous. Qed.

(* before F11: squared distance, not a metric; a legitimately built tree returns a wrong row *)
Theorem bh_neighbours_refuted :
  exists (d : dist) (N : nat) (t : vpt) (q : Z) (K : nat) (l : list Z),
    build d piv_first (nth_sort d) (S N) 0 (samples N) = Built t /\
    vp_inv d t /\ Permutation (items t) (samples N) /\ in_range N q /\ (K + 1 <= N)%nat /\
    (forall x, in_range N x -> x <> q -> (d q q < d q x)%Z) /\
    bh_row d t q K = Some l /\ ~ is_knn d N q K l.
Proof. exact bh_neighbours_refuted_thm. Qed.
Print Assumptions bh_neighbours_refuted.

(* before F45, coincident samples: the row of a sample may contain the sample itself *)
Theorem bh_row_coincident_refuted :
  exists (d : dist) (N : nat) (t : vpt) (q : Z) (K : nat) (l : list Z),
    metric_on (in_range N) d /\ vp_inv d t /\ Permutation (items t) (samples N) /\
    in_range N q /\ (K + 1 <= N)%nat /\ bh_row d t q K = Some l /\ In q l.
Proof. exact bh_row_coincident_refuted_thm. Qed.
Print Assumptions bh_row_coincident_refuted.

(* CURRENT code (F45, commit f79b9b7: query dropped by index, else the farthest result): row n is
   over the K nearest OTHER samples for ALL data, coincident or not *)
Theorem bh_neighbours_exact_fixed : forall d N t q K,
  metric_on (in_range N) d -> in_range N q -> (K + 1 <= N)%nat ->
  vp_inv d t -> Permutation (items t) (samples N) ->
  exists l, bh_row_fixed d t q K = Some l /\ is_knn d N q K l.
Proof. exact bh_neighbours_exact_fixed_thm. Qed.
Print Assumptions bh_neighbours_exact_fixed.

(* create + search + consumer end to end: whatever uniform_random() and std::nth_element answer
   (within their contracts), row q is over the K nearest other samples *)
Theorem bh_rows_exact_built : forall d piv nth N q K,
  metric_on (in_range N) d -> piv_ok piv -> nth_oracle_ok d nth ->
  in_range N q -> (K + 1 <= N)%nat ->
  exists t l, build d piv nth (S N) 0 (samples N) = Built t /\
              bh_row_fixed d t q K = Some l /\ is_knn d N q K l.
Proof. exact bh_rows_exact_built_thm. Qed.
Print Assumptions bh_rows_exact_built.

(* ---------------------------------------------------------------- sparse symmetrisation *)

(* whatever symmetrizeMatrix returns (any input, any value type): N + 1 row pointers from 0,
   non-decreasing, ending at no_elem = length of both new arrays *)
Theorem sparse_symmetrise_shape : forall V (vadd : V -> V -> V) (vhalf : V -> V) (p : csr V) N s,
  symmetrize V vadd vhalf p N = Ok s ->
  length (row_P s) = (N + 1)%nat /\ nth 0 (row_P s) 0%nat = 0%nat /\
  (forall n, (n < N)%nat -> (nth n (row_P s) 0 <= nth (n + 1) (row_P s) 0)%nat) /\
  nth N (row_P s) 0%nat = length (col_P s) /\ length (val_P s) = length (col_P s).
Proof. exact symmetrize_shape_thm. Qed.
Print Assumptions sparse_symmetrise_shape.

(* on a well-formed CSR input (N+1 non-decreasing row pointers from 0 to nnz, columns < N,
   distinct columns per row — what the K-NN overload produces) symmetrizeMatrix reads and
   writes nothing out of range and leaves no slot of the malloc'ed arrays unwritten *)
Theorem sparse_symmetrise_safe : forall V (vadd : V -> V -> V) (vhalf : V -> V) (p : csr V) N,
  wf_csr N p -> exists s, symmetrize V vadd vhalf p N = Ok s.
Proof. exact symmetrize_safe. Qed.
Print Assumptions sparse_symmetrise_safe.

Example sparse_symmetrise_safe_nonvacuous : wf_csr 3 (mkCsr [0; 1; 2; 3]%nat [1; 2; 0]%nat [1; 2; 3]%nat).
Proof. exact wf_csr_example. Qed.

(* ... and the result IS (P + P^T)/2: a well-formed CSR whose entry (r, x) is present exactly
   when P(r,x) or P(x,r) is, with value half of their sum (operands in the order the code adds
   them), each unordered pair in both rows *)
Theorem sparse_symmetrise : forall V (vadd : V -> V -> V) (vhalf : V -> V) (p : csr V) N,
  wf_csr N p ->
  exists s, symmetrize V vadd vhalf p N = Ok s /\ sym_spec vadd vhalf N p s.
Proof. exact symmetrize_represents. Qed.
Print Assumptions sparse_symmetrise.

(* the CSR triple the K-NN overload builds (row_P[n+1] = row_P[n] + |row n|, rows laid out one after
   the other) is well formed as soon as every row has distinct columns below N — which
   bh_neighbours_exact_fixed gives (is_knn: NoDup, in range): the hypothesis of the three theorems above *)
Theorem knn_csr_wf : forall V (rows : list (list (nat * V))),
  (forall row, In row rows -> NoDup (map fst row) /\ forall c, In c (map fst row) -> (c < length rows)%nat) ->
  wf_csr (length rows) (csr_of_rows V rows).
Proof. exact csr_of_rows_wf. Qed.
Print Assumptions knn_csr_wf.

Example knn_csr_wf_nonvacuous :
  forall row, In row [[(1%nat, 1%nat)]; [(0%nat, 1%nat)]] ->
    NoDup (map fst row) /\ forall c, In c (map fst row) -> (c < length [[(1%nat, 1%nat)]; [(0%nat, 1%nat)]])%nat.
Proof. exact knn_csr_wf_example. Qed.

(* the counting behind it: row_counts[x] (first pass) is exactly the number of times offset[x]
   is advanced (second pass), so every store sym_*_P[sym_row_P[x] + offset[x]] stays below
   sym_row_P[x + 1] *)
Theorem sparse_symmetrise_counts : forall V (p : csr V) N, wf_csr N p ->
  forall x, (x < N)%nat -> SC V p N x = SF V p N x.
Proof. exact SC_eq_SF. Qed.
Print Assumptions sparse_symmetrise_counts.

(* the decision procedure the check runs on the IMPLEMENTATION's output (extracted sym_spec_b) is
   sound: acceptance means a well-formed CSR whose entries are those of (P + P^T)/2 up to Qeq;
   and complete: a result meeting the specification is accepted *)
Theorem sparse_spec_decision_sound : forall N (p s : csr Q),
  sym_spec_b N p s = true ->
  wf_csr N s /\
  forall r x, (r < N)%nat -> (x < N)%nat -> oq_eq (lookup s r x) (sym_entry Qplus qhalf p r x).
Proof. exact sym_spec_b_sound. Qed.
Print Assumptions sparse_spec_decision_sound.
Example sparse_spec_decision_sound_nonvacuous : sym_spec_b 3 ex_p ex_s = true.
Proof. exact sym_spec_b_accepts. Qed.

Theorem sparse_spec_decision_complete : forall N (p s : csr Q),
  sym_spec Qplus qhalf N p s -> sym_spec_b N p s = true.
Proof. exact sym_spec_b_complete. Qed.
Print Assumptions sparse_spec_decision_complete.

(* run(), Barnes-Hut branch, after symmetrizeMatrix: sum_P += val_P[i]; val_P[i] /= sum_P — the stored joint
   similarities sum to one (wave 2; with sparse_symmetrise they are the entries of (P + P^T)/2, each divided by the total) *)
Theorem sparse_joint_sums_to_one : forall vals,
  ~ (sparse_total vals == 0)%Q -> (sparse_total (sparse_normalise vals) == 1)%Q.
Proof. exact sparse_normalise_sums_to_one_thm. Qed.
Print Assumptions sparse_joint_sums_to_one.
Example sparse_joint_sums_to_one_nonvacuous : ~ (sparse_total [1 # 4; 1 # 4; 1 # 2] == 0)%Q.
Proof. exact sparse_normalise_nonvacuous. Qed.

(* ---------------------------------------------------------------- Barnes-Hut gradient *)

(* computeGradient (model on top of agent c18's quadtree model): for every map without coincident
   points, every tree built over it and every sparse P there is theta0 > 0 such that for all
   0 <= theta < theta0 the Barnes-Hut gradient IS  edge forces - exact repulsion / exact sum_Q
   (composition of C18's forces_eventually_exact and nonedge_loop_theta0) *)
Theorem bh_gradient_limit : forall fuel data root ok t (rows : list (list (nat * Q))),
  let N := length rows in
  QuadTree_Proof_Final.in_root data root (seq 0 N) -> QuadTree_Spec.NoCo data (seq 0 N) ->
  (N <= length data)%nat ->
  QuadTree_Model.fill_order true fuel data (seq 0 N) (QuadTree_Model.init root) = QuadTree_Model.Done ok t ->
  ~ (QuadTree_Proof_Gradient.total_sq data (seq 0 N) (seq 0 N) == 0)%Q ->
  exists theta0, (0 < theta0)%Q /\
    forall theta, (0 <= theta)%Q -> (theta < theta0)%Q ->
      exists g, bh_gradient data rows theta t = Some g /\
                rows_eq g (closed_rows 0 data (seq 0 N) rows
                                       (QuadTree_Proof_Gradient.total_sq data (seq 0 N) (seq 0 N))).
Proof. exact bh_gradient_limit_thm. Qed.
Print Assumptions bh_gradient_limit.

Example bh_gradient_limit_nonvacuous :
  QuadTree_Proof_Final.in_root QuadTree_Proof_Final.ex_data2 QuadTree_Proof_Final.ex_root (seq 0 (length ex_rows)) /\
  QuadTree_Spec.NoCo QuadTree_Proof_Final.ex_data2 (seq 0 (length ex_rows)) /\
  (length ex_rows <= length QuadTree_Proof_Final.ex_data2)%nat /\
  (exists t, QuadTree_Model.fill_order true 6 QuadTree_Proof_Final.ex_data2 (seq 0 (length ex_rows))
               (QuadTree_Model.init QuadTree_Proof_Final.ex_root) = QuadTree_Model.Done true t) /\
  ~ (QuadTree_Proof_Gradient.total_sq QuadTree_Proof_Final.ex_data2 (seq 0 (length ex_rows)) (seq 0 (length ex_rows)) == 0)%Q.
Proof. exact bh_gradient_limit_nonvacuous_ex. Qed.

(* the same for exactly the tree the check executes through extraction (GM stream): QuadTree(Y, N) = tsne_tree,
   root box computed from the data (mean +/- largest deviation + slack), then fill(N) *)
Theorem bh_gradient_limit_tsne_tree : forall slack fuel data ok t (rows : list (list (nat * Q))),
  let N := length rows in
  (0 <= slack)%Q -> (N <= length data)%nat -> QuadTree_Spec.NoCo data (seq 0 N) ->
  QuadTree_SpecExec.tsne_tree slack fuel data N = Some (QuadTree_Model.Done ok t) ->
  ~ (QuadTree_Proof_Gradient.total_sq data (seq 0 N) (seq 0 N) == 0)%Q ->
  exists theta0, (0 < theta0)%Q /\
    forall theta, (0 <= theta)%Q -> (theta < theta0)%Q ->
      exists g, bh_gradient data rows theta t = Some g /\
                rows_eq g (closed_rows 0 data (seq 0 N) rows
                                       (QuadTree_Proof_Gradient.total_sq data (seq 0 N) (seq 0 N))).
Proof. exact bh_gradient_limit_tsne_tree_thm. Qed.
Print Assumptions bh_gradient_limit_tsne_tree.

Example bh_gradient_limit_tsne_tree_nonvacuous :
  (0 <= (1 # 100000))%Q /\ (length ex_rows <= length QuadTree_Proof_Final.ex_data2)%nat /\
  QuadTree_Spec.NoCo QuadTree_Proof_Final.ex_data2 (seq 0 (length ex_rows)) /\
  (exists ok t, QuadTree_SpecExec.tsne_tree (1 # 100000) 12 QuadTree_Proof_Final.ex_data2 (length ex_rows)
                = Some (QuadTree_Model.Done ok t)) /\
  ~ (QuadTree_Proof_Gradient.total_sq QuadTree_Proof_Final.ex_data2 (seq 0 (length ex_rows)) (seq 0 (length ex_rows)) == 0)%Q.
Proof. exact bh_gradient_limit_tsne_tree_nonvacuous_ex. Qed.

(* ---------------------------------------------------------------- the quadtree's scratch buffer (wave 2)
   c18's model computes a node's contribution from the point directly; the C++ goes through the node's MEMBER
   buff[2] (written, then read back).  Tsne_Race_Model.v makes the buffer explicit: callers t (own point pts t,
   own accumulators) issue Wr t (buff := pts t - com) and Rd t (accumulate from buff) on one node.
   (1) any schedule in which every caller finishes a call before the next call starts — what the serial loops of
   TSNE::computeGradient / evaluateError do — gives every caller exactly c18's add_summary, once per call: the
   abstraction under bh_gradient_limit is sound for the code as it is (no parallel region in these headers; the
   check scans for that on every run). *)
Theorem nonedge_forces_serial_schedule : forall (com : QuadTree_Model.pt) (cum : nat) (pts : nat -> QuadTree_Model.pt)
  (ts : list nat) (s : rstate) (u : nat),
  facc_eq (r_acc (rrun com cum pts s (atomic ts)) u)
          (iter_summary com cum (count_occ Nat.eq_dec ts u) (pts u) (r_acc s u)).
Proof. exact atomic_schedule_is_serial_thm. Qed.
Print Assumptions nonedge_forces_serial_schedule.

(* (2) interleaved callers are NOT covered: Wr 0; Wr 1; Rd 0; Rd 1 on one node makes caller 0 accumulate the force
   and the sum_Q term of caller 1's point (what `#pragma omp parallel for` over the non-edge loop does: seeded
   change C17_1_r2; the check's TG stream observes it at N >= 1000 with >= 2 threads) *)
Theorem nonedge_forces_not_reentrant_refuted :
  exists (com : QuadTree_Model.pt) (cum : nat) (pts : nat -> QuadTree_Model.pt),
    let serial := r_acc (rrun com cum pts race_init [Wr 0; Rd 0; Wr 1; Rd 1]%nat) 0%nat in
    let raced  := r_acc (rrun com cum pts race_init [Wr 0; Wr 1; Rd 0; Rd 1]%nat) 0%nat in
    facc_eq serial (QuadTree_Model.add_summary (pts 0%nat) cum com (0, 0, 0)%Q) /\
    ~ (fst (fst raced) == fst (fst serial))%Q /\ ~ (snd raced == snd serial)%Q.
Proof. exact nonedge_forces_not_reentrant_refuted_thm. Qed.
Print Assumptions nonedge_forces_not_reentrant_refuted.
