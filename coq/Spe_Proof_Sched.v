(* Spe_Proof_Sched.v — the iteration schedule of spe_embedding (Spe_Sched_Model.v):
   * for EVERY max_iteration, 0 (= automatic schedule) included, and both strategies the loop bound and the
     divisor of the annealing line are the same number and it is at least 1 (at least 2000 for the automatic
     schedule): the hypothesis "T >= 1" of lambda_schedule is discharged for the shipped code;
   * the variant that bounds the loop by a new constant but still divides by the parameter (seeded change
     C19_3) satisfies the specification iff max_iteration <> 0, and is refuted at max_iteration = 0;
   * binary64 evaluation of floor(0.04 * N * N): equals N*N/25 for every N <= 204 (complete enumeration),
     and differs from it at N = 205 (double rounding);
   * lambda over the whole run: lambda_t = (1 - 1/T)^t step by step, stays in (0, 1], strictly decreases,
     1 - t/T <= lambda_t <= T/(T + t); at the end of the schedule lambda_T <= 1/2;
   * the run as a function of max_iteration refines spe_embedding_run (so the centroid theorems carry over). *)
Require Import List Arith Lia Bool ZArith QArith Qcanon Lqa.
From TK Require Import Mat_Sums Mat_Core Mat_Qc Spe_Model Spe_Spec Spe_Proof_Lists Spe_Proof_Index Spe_Proof_Coord
     Spe_Run_Model Spe_Proof_Run Spe_Des_Model Spe_Proof_Des Spe_Proof_Closed Spe_Sched_Model.
Import ListNotations.
Local Open Scope nat_scope.

(* ---------------- the schedule ---------------- *)
Lemma auto_iterations_ge_proof (global : bool) (N : nat) : 2000 <= auto_iterations global N.
Proof. unfold auto_iterations. destruct global; lia. Qed.

Lemma auto_iterations_local_is_triple_proof (N : nat) :
  auto_iterations false N = 3 * auto_iterations true N.
Proof. unfold auto_iterations. lia. Qed.

Lemma spe_iterations_cases (global : bool) (N m : nat) :
  (m = 0 -> spe_iterations global N m = auto_iterations global N) /\
  (m <> 0 -> spe_iterations global N m = m).
Proof.
  unfold spe_iterations. destruct (Nat.eqb_spec m 0) as [E|E]; split; intros H; try reflexivity; lia.
Qed.

Theorem spe_schedule_ok_proof (global : bool) (N m : nat) :
  schedule_ok (spe_schedule global N m) /\
  (m = 0 -> sc_div (spe_schedule global N m) = auto_iterations global N /\
            2000 <= sc_div (spe_schedule global N m)) /\
  (m <> 0 -> sc_div (spe_schedule global N m) = m).
Proof.
  destruct (spe_iterations_cases global N m) as [H0 H1].
  pose proof (auto_iterations_ge_proof global N) as Hge.
  unfold schedule_ok, spe_schedule. cbn [sc_loop sc_div].
  split; [split; [reflexivity|]|split].
  - destruct (Nat.eq_dec m 0) as [E|E]; [rewrite (H0 E)|rewrite (H1 E)]; lia.
  - intros E. rewrite (H0 E). split; [reflexivity|exact Hge].
  - exact H1.
Qed.

Lemma schedule_ok_b_ok (s : schedule) : schedule_ok_b s = true <-> schedule_ok s.
Proof.
  unfold schedule_ok_b, schedule_ok. rewrite andb_true_iff, Nat.eqb_eq, Nat.leb_le. reflexivity.
Qed.

(* the split variant meets the specification exactly when an explicit iteration count is given *)
Theorem spe_schedule_split_ok_iff_proof (global : bool) (N m : nat) :
  schedule_ok (spe_schedule_split global N m) <-> m <> 0.
Proof.
  destruct (spe_iterations_cases global N m) as [H0 H1].
  unfold schedule_ok, spe_schedule_split. cbn [sc_loop sc_div]. split.
  - intros [_ H] E. lia.
  - intros E. rewrite (H1 E). lia.
Qed.

Theorem spe_schedule_split_refuted_proof :
  exists global N m, ~ schedule_ok (spe_schedule_split global N m) /\
                     2000 <= sc_loop (spe_schedule_split global N m) /\
                     sc_div (spe_schedule_split global N m) = 0.
Proof.
  exists true, 4, 0. split; [|split].
  - intros H. apply spe_schedule_split_ok_iff_proof in H. apply H. reflexivity.
  - cbn [spe_schedule_split sc_loop]. unfold spe_iterations. cbn [Nat.eqb].
    apply auto_iterations_ge_proof.
  - reflexivity.
Qed.

Theorem schedule_check_ok_proof (global : bool) (N m shuffles : nat) :
  schedule_check global N m shuffles = true <-> shuffles = spe_iterations global N m.
Proof. unfold schedule_check, spe_schedule. cbn [sc_loop]. apply Nat.eqb_eq. Qed.

(* ---------------- binary64 evaluation of floor(0.04 * N * N) ---------------- *)
Theorem sched_q_small_proof (N : nat) : N <= 204 -> sched_q N = N * N / 25.
Proof.
  intros H.
  assert (A : forallb (fun n => sched_q n =? n * n / 25) (seq 0 205) = true) by (vm_compute; reflexivity).
  rewrite forallb_forall in A. apply Nat.eqb_eq. apply A. apply in_seq. lia.
Qed.

Theorem sched_q_double_rounding_proof : sched_q 205 = 1680 /\ 205 * 205 / 25 = 1681.
Proof. split; vm_compute; reflexivity. Qed.

Theorem auto_iterations_small_proof (N : nat) : N <= 204 ->
  auto_iterations true N = 2000 + N * N / 25 /\ auto_iterations false N = 3 * (2000 + N * N / 25).
Proof.
  intros H. unfold auto_iterations. rewrite (sched_q_small_proof N H). lia.
Qed.

(* ---------------- lambda over the whole run ---------------- *)
Local Open Scope Q_scope.

Lemma lam_seq_S (T t : nat) :
  lam_seq T (S t) == lam_seq T t - lam_seq T t / inject_Z (Z.of_nat T).
Proof. unfold lam_seq. cbn [Nat.iter nat_rect]. reflexivity. Qed.

Lemma inject_nat_S (t : nat) : inject_Z (Z.of_nat (S t)) == inject_Z (Z.of_nat t) + 1.
Proof. rewrite Nat2Z.inj_succ. unfold Z.succ. rewrite inject_Z_plus. reflexivity. Qed.

Lemma inject_nat_nonneg (t : nat) : 0 <= inject_Z (Z.of_nat t).
Proof. change 0 with (inject_Z 0). rewrite <- Zle_Qle. lia. Qed.

Lemma inject_nat_ge (T n : nat) : (n <= T)%nat -> inject_Z (Z.of_nat n) <= inject_Z (Z.of_nat T).
Proof. intros H. rewrite <- Zle_Qle. lia. Qed.

Section Lam.
  Variable T : nat.
  Hypothesis HT : (1 <= T)%nat.
  Let w := inject_Z (Z.of_nat T).
  Let y := / w.

  Lemma w_ge1 : 1 <= w.
  Proof. unfold w. change 1 with (inject_Z 1). rewrite <- Zle_Qle. lia. Qed.

  Lemma y_pos : 0 < y.
  Proof. unfold y. apply Qinv_lt_0_compat. pose proof w_ge1. lra. Qed.

  Lemma wy : w * y == 1.
  Proof. unfold y. apply Qmult_inv_r. pose proof w_ge1. lra. Qed.

  Lemma y_le1 : y <= 1.
  Proof. pose proof w_ge1 as H. pose proof y_pos as Hy. pose proof wy as E. nra. Qed.

  Lemma lam_step (t : nat) : lam_seq T (S t) == lam_seq T t * (1 - y).
  Proof. rewrite lam_seq_S. unfold y, w, Qdiv. ring. Qed.

  (* 0 <= lambda_t <= 1, never increasing *)
  Lemma lam_range (t : nat) : 0 <= lam_seq T t /\ lam_seq T t <= 1.
  Proof.
    induction t as [|t [I0 I1]].
    - unfold lam_seq. cbn [Nat.iter nat_rect]. lra.
    - rewrite lam_step. pose proof y_pos. pose proof y_le1. split; nra.
  Qed.

  Lemma lam_mono (t : nat) : lam_seq T (S t) <= lam_seq T t.
  Proof. rewrite lam_step. destruct (lam_range t). pose proof y_pos. pose proof y_le1. nra. Qed.

  (* Bernoulli from below: 1 - t/T <= lambda_t *)
  Lemma lam_lower (t : nat) : 1 - inject_Z (Z.of_nat t) * y <= lam_seq T t.
  Proof.
    induction t as [|t IH].
    - unfold lam_seq. cbn [Nat.iter nat_rect Z.of_nat]. change (inject_Z 0) with 0. lra.
    - rewrite lam_step, inject_nat_S. pose proof y_pos. pose proof y_le1.
      pose proof (inject_nat_nonneg t). destruct (lam_range t).
      set (n := inject_Z (Z.of_nat t)) in *. set (l := lam_seq T t) in *.
      assert (0 <= n * (y * y)) by (apply Qmult_le_0_compat; [assumption|nra]).
      assert (l * (1 - y) >= (1 - n * y) * (1 - y)) by nra.
      nra.
  Qed.

  (* and from above: lambda_t (1 + t/T) <= 1, i.e. lambda_t <= T / (T + t) *)
  Lemma lam_upper (t : nat) : lam_seq T t * (1 + inject_Z (Z.of_nat t) * y) <= 1.
  Proof.
    induction t as [|t IH].
    - unfold lam_seq. cbn [Nat.iter nat_rect Z.of_nat]. change (inject_Z 0) with 0. lra.
    - rewrite lam_step, inject_nat_S. pose proof y_pos. pose proof y_le1.
      pose proof (inject_nat_nonneg t). destruct (lam_range t).
      set (n := inject_Z (Z.of_nat t)) in *. set (l := lam_seq T t) in *.
      assert (E : l * (1 - y) * (1 + (n + 1) * y) == l * (1 + n * y) - l * ((n + 1) * (y * y))) by ring.
      rewrite E.
      assert (0 <= l * ((n + 1) * (y * y))).
      { apply Qmult_le_0_compat; [assumption|]. apply Qmult_le_0_compat; [lra|nra]. }
      lra.
  Qed.

  (* at the end of the schedule lambda has at least halved *)
  Lemma lam_final : lam_seq T T <= 1 # 2.
  Proof.
    pose proof (lam_upper T) as H. fold w in H. rewrite wy in H. lra.
  Qed.

  (* during the first half of the schedule lambda is still at least one half *)
  Lemma lam_first_half (t : nat) : (2 * t <= T)%nat -> 1 # 2 <= lam_seq T t.
  Proof.
    intros H. pose proof (lam_lower t) as L.
    assert (A : 2 * inject_Z (Z.of_nat t) <= w).
    { unfold w. change 2 with (inject_Z 2). rewrite <- inject_Z_mult, <- Zle_Qle. lia. }
    pose proof y_pos. pose proof wy.
    assert (2 * inject_Z (Z.of_nat t) * y <= 1) by nra.
    lra.
  Qed.
End Lam.

Section Lam2.
  Variable T : nat.
  Hypothesis HT : (2 <= T)%nat.

  Lemma y_lt1 : / inject_Z (Z.of_nat T) < 1.
  Proof.
    assert (H : 2 <= inject_Z (Z.of_nat T)).
    { change 2 with (inject_Z 2). rewrite <- Zle_Qle. lia. }
    assert (HT1 : (1 <= T)%nat) by lia.
    pose proof (y_pos T HT1) as Hy. pose proof (wy T HT1) as E. nra.
  Qed.

  (* for T >= 2 lambda never reaches zero and strictly decreases *)
  Lemma lam_pos (t : nat) : 0 < lam_seq T t.
  Proof.
    assert (HT1 : (1 <= T)%nat) by lia.
    induction t as [|t IH].
    - unfold lam_seq. cbn [Nat.iter nat_rect]. lra.
    - rewrite (lam_step T t). pose proof y_lt1. nra.
  Qed.

  Lemma lam_strict (t : nat) : lam_seq T (S t) < lam_seq T t.
  Proof.
    assert (HT1 : (1 <= T)%nat) by lia.
    rewrite (lam_step T t). pose proof (lam_pos t). pose proof (y_pos T HT1). nra.
  Qed.
End Lam2.

(* lambda is multiplicative in the iteration count, hence bounded away from zero at the end of the schedule *)
Lemma lam_add (T a b : nat) : lam_seq T (a + b) == lam_seq T a * lam_seq T b.
Proof.
  induction a as [|a IH].
  - cbn [Nat.add]. unfold lam_seq at 2. cbn [Nat.iter nat_rect]. ring.
  - cbn [Nat.add]. rewrite !lam_step, IH. ring.
Qed.

Lemma lam_final_lower (T : nat) : (2 <= T)%nat -> 2 # 9 <= lam_seq T T.
Proof.
  intros HT. assert (HT1 : (1 <= T)%nat) by lia.
  set (a := (T / 2)%nat). set (b := (T - a)%nat).
  assert (Hab : (a + b = T)%nat).
  { unfold b, a. pose proof (Nat.div_lt_upper_bound T 2 T). lia. }
  assert (Ha1 : (1 <= a)%nat).
  { unfold a. apply (Nat.div_le_lower_bound T 2 1); lia. }
  assert (Hb : (b = a \/ b = a + 1)%nat).
  { unfold b, a. pose proof (Nat.div_mod T 2). pose proof (Nat.mod_upper_bound T 2). lia. }
  rewrite <- Hab at 2. rewrite lam_add.
  pose proof (lam_lower T HT1 a) as La. pose proof (lam_lower T HT1 b) as Lb.
  pose proof (y_pos T HT1) as Hy. pose proof (wy T HT1) as Hwy.
  set (y := / inject_Z (Z.of_nat T)) in *.
  set (qa := inject_Z (Z.of_nat a)) in *. set (qb := inject_Z (Z.of_nat b)) in *.
  assert (Hw : inject_Z (Z.of_nat T) == qa + qb).
  { unfold qa, qb. rewrite <- inject_Z_plus, <- Nat2Z.inj_add, Hab. reflexivity. }
  rewrite Hw in Hwy.
  assert (Ea : 1 - qa * y == qb * y) by (rewrite <- Hwy; ring).
  assert (Eb : 1 - qb * y == qa * y) by (rewrite <- Hwy; ring).
  rewrite Ea in La. rewrite Eb in Lb.
  assert (Hqa : 1 <= qa).
  { unfold qa. change 1 with (inject_Z 1). rewrite <- Zle_Qle. lia. }
  assert (Hqb : qa <= qb /\ qb <= qa + 1).
  { unfold qa, qb. change 1 with (inject_Z 1). rewrite <- inject_Z_plus, <- !Zle_Qle. lia. }
  destruct Hqb as [Hqb1 Hqb2].
  assert (P : 0 <= qb * y) by nra. assert (P' : 0 <= qa * y) by nra.
  assert (M : (qb * y) * (qa * y) <= lam_seq T a * lam_seq T b) by nra.
  (* 9 qa qb >= 2 (qa + qb)^2 and (qa + qb) y = 1 *)
  assert (K : 2 * ((qa + qb) * (qa + qb)) <= 9 * (qa * qb)) by nra.
  assert (Y2 : ((qa + qb) * y) * ((qa + qb) * y) == 1) by (rewrite Hwy; ring).
  assert (0 <= y * y) by nra.
  assert (2 * (((qa + qb) * (qa + qb)) * (y * y)) <= 9 * ((qa * qb) * (y * y))) by nra.
  assert (((qa + qb) * (qa + qb)) * (y * y) == 1) by (rewrite <- Y2; ring).
  nra.
Qed.

(* `lambda_schedule_every_max_iteration`: for every max_iteration (0 included), both strategies, every N,
   with T = the divisor the shipped code uses: lambda stays in [0,1] and never increases, it is bounded by
   1 - t/T <= lambda_t <= T/(T+t), and after the T iterations of the loop lambda_T <= 1/2 *)
Theorem lambda_schedule_all_proof (global : bool) (N m t : nat) :
  let T := sc_div (spe_schedule global N m) in
  sc_loop (spe_schedule global N m) = T /\ (1 <= T)%nat /\
  0 <= lam_seq T t /\ lam_seq T t <= 1 /\ lam_seq T (S t) <= lam_seq T t /\
  1 - inject_Z (Z.of_nat t) / inject_Z (Z.of_nat T) <= lam_seq T t /\
  lam_seq T t * (1 + inject_Z (Z.of_nat t) / inject_Z (Z.of_nat T)) <= 1 /\
  lam_seq T T <= 1 # 2.
Proof.
  intros T. destruct (spe_schedule_ok_proof global N m) as [[E H1] _]. fold T in E, H1.
  destruct (lam_range T H1 t) as [A B].
  repeat split; try assumption.
  - apply lam_mono; assumption.
  - apply (lam_lower T H1 t).
  - apply (lam_upper T H1 t).
  - apply lam_final; assumption.
Qed.

(* `lambda_schedule_automatic`: max_iteration = 0: T >= 2000, lambda_t in (0, 1], strictly decreasing, at
   least 1/2 during the first half of the schedule and at most 1/2 at its end *)
Theorem lambda_schedule_automatic_proof (global : bool) (N t : nat) :
  let T := sc_div (spe_schedule global N 0) in
  T = auto_iterations global N /\ (2000 <= T)%nat /\ sc_loop (spe_schedule global N 0) = T /\
  0 < lam_seq T t /\ lam_seq T t <= 1 /\ lam_seq T (S t) < lam_seq T t /\
  ((2 * t <= T)%nat -> 1 # 2 <= lam_seq T t) /\ 2 # 9 <= lam_seq T T /\ lam_seq T T <= 1 # 2.
Proof.
  intros T. destruct (spe_schedule_ok_proof global N 0) as [[E _] [H0 _]]. fold T in E, H0.
  destruct (H0 eq_refl) as [Ea Hge].
  assert (H1 : (1 <= T)%nat) by lia. assert (H2 : (2 <= T)%nat) by lia.
  repeat split; try assumption.
  - apply lam_pos; assumption.
  - apply (lam_range T H1 t).
  - apply lam_strict; assumption.
  - apply lam_first_half; assumption.
  - apply lam_final_lower; assumption.
  - apply lam_final; assumption.
Qed.

(* `pair_update_scheduled`: in EVERY iteration t of EVERY schedule (any max_iteration, 0 included, both
   strategies, any N) the lambda the shipped code uses makes a pair update a monotone approach: the
   multiplier of the pair distance is non-negative and the new distance lies between the old one and the target *)
Theorem pair_update_scheduled_proof (global : bool) (N m t : nat) (tol r d : Q) :
  0 <= d -> 0 < tol -> 0 <= r ->
  let lam := lam_seq (sc_div (spe_schedule global N m)) t in
  let d' := d * (1 + lam * (r - d - tol) / (d + tol)) in
  (0 < d + tol) /\ (0 <= 1 + lam * (r - d - tol) / (d + tol)) /\
  ((d + tol <= r) -> (d <= d') /\ (d' <= r)) /\
  ((r <= d + tol) -> (r * d / (d + tol) <= d') /\ (d' <= d)).
Proof.
  intros Hd Ht Hr lam d'.
  destruct (lambda_schedule_all_proof global N m t) as [_ [_ [L0 [L1 _]]]]. fold lam in L0, L1.
  split; [lra|]. split; [apply pair_factor_nonneg_proof; assumption|].
  apply pair_update_no_overshoot_proof; assumption.
Qed.
Local Close Scope Q_scope.

(* ---------------- the run as a function of max_iteration ---------------- *)
Section FullProof.
  Context {F : Type} {Fo : FieldOps F} {Ff : IsField F}.

  (* with oracle streams for exactly the scheduled number of iterations the run is spe_embedding_run *)
  Theorem spe_embedding_full_is_run_proof old global nbrs nupd N m its (norms : list (list F))
          tol alpha R (Y0 : pts) :
    length its = spe_iterations global N m ->
    spe_embedding_full old global nbrs nupd N m its norms tol alpha R Y0 =
    spe_embedding_run old global nbrs nupd N its norms tol alpha R Y0.
  Proof.
    intros E. unfold spe_embedding_full, spe_embedding_sched, spe_schedule. cbn [sc_loop sc_div].
    rewrite <- E, Nat.eqb_refl. reflexivity.
  Qed.

  (* and with any other number of oracle answers it is not a run of spe_embedding at all *)
  Theorem spe_embedding_full_needs_schedule_proof old global nbrs nupd N m its (norms : list (list F))
          tol alpha R (Y0 : pts) Y :
    spe_embedding_full old global nbrs nupd N m its norms tol alpha R Y0 = Ok Y ->
    length its = spe_iterations global N m /\ (1 <= length its)%nat.
  Proof.
    unfold spe_embedding_full, spe_embedding_sched, spe_schedule. cbn [sc_loop sc_div].
    destruct (Nat.eqb_spec (length its) (spe_iterations global N m)) as [E|E]; [|discriminate].
    intros _. split; [exact E|]. rewrite E.
    destruct (spe_schedule_ok_proof global N m) as [[_ H] _]. exact H.
  Qed.

  (* the centroid invariant of the complete run for every max_iteration, 0 included (global strategy) *)
  Theorem spe_full_centroid_global_proof (old : bool) nbrs nupd N m its (norms : list (list F))
          tol alpha R (Y0 : pts) t :
    length its = spe_iterations true N m ->
    Forall (fun i => is_perm N (it_from i)) its ->
    exists Y, spe_embedding_full old true nbrs nupd N m its norms tol alpha R Y0 = Ok Y /\
              sumn N (fun i => Y i t) = sumn N (fun i => Y0 i t).
  Proof.
    intros E Hf. rewrite (spe_embedding_full_is_run_proof _ _ _ _ _ _ _ _ _ _ _ _ E).
    apply spe_run_centroid_global_proof. exact Hf.
  Qed.

  Theorem spe_full_centroid_local_proof nbrs nupd N m its (norms : list (list F)) tol alpha R (Y0 : pts) t :
    let k := length (nth 0 nbrs []) in
    let nu := Nat.min nupd (N / 2) in
    length its = spe_iterations false N m ->
    (0 < N)%nat -> (0 < k)%nat -> nbrs_ok N k nbrs -> nbrs_below N nbrs ->
    Forall (fun i => is_perm N (it_from i) /\ us_ok nu (it_us i)) its ->
    exists Y, spe_embedding_full false false nbrs nupd N m its norms tol alpha R Y0 = Ok Y /\
              sumn N (fun i => Y i t) = sumn N (fun i => Y0 i t).
  Proof.
    intros k nu E HN Hk Hnb Hbel Hf. rewrite (spe_embedding_full_is_run_proof _ _ _ _ _ _ _ _ _ _ _ _ E).
    apply spe_run_centroid_local_proof; assumption.
  Qed.
End FullProof.

(* ---------------- the lambda of the model's run IS lam_seq ---------------- *)
Section LamLink.
  Context {F : Type} {Fo : FieldOps F} {Ff : IsField F}.

  (* spe_coords is the loop with the explicit list of lambdas run_lambdas T (#iterations) lambda_0 *)
  Theorem spe_coords_uses_run_lambdas_proof (T : nat) (tol alpha : F) R : forall steps lam (Y : pts),
    spe_coords T tol alpha R steps lam Y =
    spe_coords_lams tol alpha R steps (run_lambdas T (length steps) lam) Y.
  Proof.
    induction steps as [|s rest IH]; intros lam Y; [reflexivity|].
    cbn [spe_coords length run_lambdas spe_coords_lams]. apply IH.
  Qed.

  Lemma iter_shift {A} (f : A -> A) : forall t x, Nat.iter t f (f x) = f (Nat.iter t f x).
  Proof.
    induction t as [|t IH]; intros x; [reflexivity|].
    change (Nat.iter (S t) f (f x)) with (f (Nat.iter t f (f x))). rewrite IH. reflexivity.
  Qed.

  Theorem run_lambdas_nth_proof (T : nat) : forall n t (lam : F), t < n ->
    nth t (run_lambdas T n lam) fzero = Nat.iter t (lambda_next T) lam.
  Proof.
    induction n as [|n IH]; intros t lam Ht; [lia|].
    destruct t as [|t]; [reflexivity|].
    cbn [run_lambdas nth]. rewrite IH by lia. rewrite iter_shift. reflexivity.
  Qed.

  Lemma run_lambdas_length (T : nat) : forall n (lam : F), length (run_lambdas T n lam) = n.
  Proof. induction n as [|n IH]; intros lam; [reflexivity|]. cbn [run_lambdas length]. rewrite IH. reflexivity. Qed.
End LamLink.

(* at Qc (the field the extracted model runs at) the lambda of iteration t, read as a rational, is lam_seq T t *)
Lemma Qc_lambda_next_this (T : nat) (x : Qc) :
  (this (@lambda_next Qc QcOps T x) == this x - this x / inject_Z (Z.of_nat T))%Q.
Proof.
  unfold lambda_next. rewrite Qc_of_nat.
  change (@fsub Qc QcOps) with Qcminus. change (@fdiv Qc QcOps) with Qcdiv.
  unfold Qcminus, Qcdiv, Qcplus, Qcopp, Qcmult, Qcinv, Q2Qc. cbn [this].
  repeat rewrite Qred_correct. unfold Qdiv, Qminus, inject_Z. reflexivity.
Qed.

Theorem Qc_run_lambda_is_lam_seq_proof (T t : nat) :
  (this (Nat.iter t (@lambda_next Qc QcOps T) (@fone Qc QcOps)) == lam_seq T t)%Q.
Proof.
  induction t as [|t IH].
  - unfold lam_seq. cbn [Nat.iter nat_rect]. reflexivity.
  - rewrite lam_seq_S. cbn [Nat.iter nat_rect]. rewrite Qc_lambda_next_this.
    change (nat_rect (fun _ => Qc) fone (fun _ => lambda_next T) t) with (Nat.iter t (@lambda_next Qc QcOps T) fone).
    rewrite IH. reflexivity.
Qed.

(* `spe_run_lambda_is_lam_seq`: in the run of the extracted model (Qc) with schedule divisor T, iteration t < n uses
   a lambda whose rational value is lam_seq T t - so every bound proved for lam_seq holds for the lambda of the run *)
Theorem spe_run_lambda_is_lam_seq_proof (T n t : nat) : t < n ->
  (this (nth t (@run_lambdas Qc QcOps T n fone) fzero) == lam_seq T t)%Q.
Proof. intros H. rewrite run_lambdas_nth_proof by exact H. apply Qc_run_lambda_is_lam_seq_proof. Qed.
