(* ====================================================================== *)
(*  Mds_Proof_Randomized.v — C05, wave 2: the randomized front-end         *)
(*  (eigendecomposition_impl_randomized) STEP BY STEP on MDS / Kernel PCA  *)
(*  input, and why "rank <= target_dimension" is exactly what it needs.    *)
(*                                                                         *)
(*  The loop itself (test matrix, column-by-column modified Gram-Schmidt   *)
(*  with its `norm < 1e-4` branch, least-squares solve, small eigen-       *)
(*  problem) is c06's executable model Spectral_Randomized.v (reused       *)
(*  read-only).  New here:                                                 *)
(*   - in_span / gram_schmidt_in_span: every column the loop produces is a *)
(*     linear combination of the columns of Z whenever B = Z Z^T           *)
(*     (loop invariant, by induction over the loop);                       *)
(*   - range_captured: k orthonormal vectors inside the column space of an *)
(*     n x r matrix Z with r <= k capture the range of B = Z Z^T           *)
(*     (Y Y^T B = B) — a dimension argument from Mds_Proof_Rank's          *)
(*     `underdetermined` (no rank theory in the library);                  *)
(*   - mds_randomized_path: composition — from the model of the loop, the  *)
(*     norm-oracle contract, the threshold branch not taken, the normal    *)
(*     equations of the QR solve and the small solver's contract:          *)
(*     (Y W, Theta) meets the SAME contract as the dense solver's answer,  *)
(*     and B = (Y W) Theta (Y W)^T;                                        *)
(*   - mds_randomized_gram: after the sqrt scaling the embedding's Gram    *)
(*     matrix IS B (so every distance is reproduced when B comes from      *)
(*     points with r <= d coordinates: Properties_C05).                    *)
(*  Any field with decidable equality; axiom free.                         *)
(* ====================================================================== *)
Require Import Field Ring Arith Lia List Bool.
From TK Require Import Mat_Sums Mat_Core Mds_Model Mds_Spec Mds_Proof Mds_Proof_Solver
                       Spectral_Randomized Mds_Model_Randomized Mds_Proof_Rank.

Section MdsRandomized.
  Context {F : Type} {Fo : FieldOps F} {Ff : IsField F}.
  Add Field MdsRandomizedField : (@Fth F Fo Ff).
  Variable eq_dec : forall x y : F, {x = y} + {x <> y}.
  Local Open Scope nat_scope.
  Local Open Scope F_scope.

  (* ---------------- column space of Z ---------------- *)
  Definition in_span (n r : nat) (Z : mat F) (v : vec F) : Prop :=
    exists a : vec F, forall t, t < n -> v t = sumn r (fun j => Z t j * a j).

  Lemma in_span_comb n r Z (v w : vec F) (al be : F) :
    in_span n r Z v -> in_span n r Z w -> in_span n r Z (fun t => al * v t + be * w t).
  Proof.
    intros [a Ha] [b Hb]. exists (fun j => al * a j + be * b j). intros t Ht.
    rewrite (Ha t Ht), (Hb t Ht). rewrite <- !sumn_mul_l, <- sumn_add.
    apply sumn_ext. intros; ring.
  Qed.

  Lemma in_span_ext n r Z (v w : vec F) :
    (forall t, t < n -> v t = w t) -> in_span n r Z v -> in_span n r Z w.
  Proof. intros E [a Ha]. exists a. intros t Ht. rewrite <- (E t Ht). apply Ha. exact Ht. Qed.

  Lemma gs_subtract_in_span n r Z (Y : mat F) i j (col : vec F) :
    (forall c, c < j -> in_span n r Z (fun t => Y t c)) ->
    in_span n r Z col ->
    in_span n r Z (gs_subtract n Y i j col).
  Proof.
    induction j as [|j IH]; intros HY Hc; [exact Hc|].
    cbn [gs_subtract]. cbv zeta.
    assert (H1 : in_span n r Z (gs_subtract n Y i j col)) by (apply IH; [intros c Hc'; apply HY; lia|exact Hc]).
    assert (H2 : in_span n r Z (fun t => Y t j)) by (apply HY; lia).
    set (rr := dot n (gs_subtract n Y i j col) (fun t => Y t j)).
    apply (in_span_ext n r Z (fun t => 1 * gs_subtract n Y i j col t + (- rr) * Y t j)).
    - intros t _. ring.
    - apply in_span_comb; assumption.
  Qed.

  (* loop invariant: all K columns stay inside the column space *)
  Lemma gram_schmidt_in_span n r Z (Y0 : mat F) K (s : nat -> F) i :
    i <= K ->
    (forall c, c < K -> in_span n r Z (fun t => Y0 t c)) ->
    forall c, c < K -> in_span n r Z (fun t => gram_schmidt n Y0 i s t c).
  Proof.
    induction i as [|i IH]; intros Hi H0 c Hc; [apply H0; exact Hc|].
    cbn [gram_schmidt].
    assert (Hprev : forall c', c' < K -> in_span n r Z (fun t => gram_schmidt n Y0 i s t c'))
      by (apply IH; [lia|exact H0]).
    destruct (Nat.eq_dec c i) as [->|Hne].
    - apply (in_span_ext n r Z
               (fun t => (1 / s i) * gs_subtract n (gram_schmidt n Y0 i s) i i
                                       (fun u => gram_schmidt n Y0 i s u i) t
                         + 0 * gram_schmidt n Y0 i s t i)).
      + intros t _. rewrite gs_step_self. ring.
      + apply in_span_comb.
        * apply gs_subtract_in_span; [intros c' Hc'; apply Hprev; lia|apply Hprev; lia].
        * apply Hprev. lia.
    - apply (in_span_ext n r Z (fun t => gram_schmidt n Y0 i s t c)).
      + intros t _. symmetry. apply gs_step_other. exact Hne.
      + apply Hprev. exact Hc.
  Qed.

  (* the columns of B O lie in the column space of Z when B = Z Z^T *)
  Lemma gram_times_in_span n r (Z B O : mat F) c :
    (forall i i', i < n -> i' < n -> B i i' = sumn r (fun j => Z i j * Z i' j)) ->
    in_span n r Z (fun t => mmul n B O t c).
  Proof.
    intros HB. exists (fun j => sumn n (fun u => Z u j * O u c)). intros t Ht. unfold mmul.
    rewrite (sumn_ext n _ (fun u => sumn r (fun j => Z t j * (Z u j * O u c)))).
    2:{ intros u Hu. rewrite (HB t u Ht Hu). rewrite <- sumn_mul_r. apply sumn_ext. intros; ring. }
    rewrite sumn_swap. apply sumn_ext. intros j _. rewrite <- sumn_mul_l. reflexivity.
  Qed.

  (* ---------------- the dimension argument ----------------
     r+1 vectors of the column space of an n x r matrix are linearly dependent; if r of them are
     orthonormal and the last one is orthogonal to those, the last one is zero. *)
  Lemma span_orthogonal_vanishes n r (Z Y : mat F) (w : vec F) :
    (forall c, c < r -> in_span n r Z (fun t => Y t c)) ->
    (forall a b, a < r -> b < r -> dot n (fun t => Y t a) (fun t => Y t b) = delta a b) ->
    in_span n r Z w ->
    (forall c, c < r -> dot n w (fun t => Y t c) = 0) ->
    forall t, t < n -> w t = 0.
  Proof.
    intros HY Horth [aw Haw] Hperp.
    (* coefficient vectors: a_c for c < r (chosen by induction on r is awkward: use a table) *)
    assert (Hcoef : forall m, m <= r ->
              exists Acf : nat -> nat -> F,
                forall c, c < m -> forall t, t < n -> Y t c = sumn r (fun j => Z t j * Acf c j)).
    { induction m as [|m IHm]; intros Hm.
      - exists (fun _ _ => 0). intros c Hc. lia.
      - destruct (IHm ltac:(lia)) as [Acf HA]. destruct (HY m ltac:(lia)) as [am Ham].
        exists (fun c j => if Nat.eqb c m then am j else Acf c j). intros c Hc t Ht.
        destruct (Nat.eqb c m) eqn:E.
        + apply Nat.eqb_eq in E. subst c. apply Ham. exact Ht.
        + apply Nat.eqb_neq in E. apply HA; [lia|exact Ht]. }
    destruct (Hcoef r (Nat.le_refl r)) as [Acf HA].
    (* unknown kappa < r: vector y_kappa; unknown r: w *)
    set (coef := fun kap j => if Nat.ltb kap r then Acf kap j else aw j).
    destruct (underdetermined eq_dec r (fun j kap => coef kap j)) as [c [[l [Hl Hcl]] Hsol]].
    (* the combination vanishes on every row t < n *)
    assert (Hcomb : forall t, t < n ->
              sumn r (fun kap => c kap * Y t kap) + c r * w t = 0).
    { intros t Ht.
      transitivity (sumn r (fun j => Z t j * sumn (S r) (fun kap => coef kap j * c kap))).
      - rewrite (sumn_ext r (fun j => Z t j * sumn (S r) (fun kap => coef kap j * c kap))
                   (fun j => sumn (S r) (fun kap => c kap * (Z t j * coef kap j))))
          by (intros j _; rewrite <- sumn_mul_l; apply sumn_ext; intros; ring).
        rewrite sumn_swap. rewrite sumn_S.
        f_equal.
        + apply sumn_ext. intros kap Hk. rewrite sumn_mul_l. f_equal.
          rewrite (HA kap Hk t Ht). apply sumn_ext. intros j _. unfold coef.
          assert (E : Nat.ltb kap r = true) by (apply Nat.ltb_lt; exact Hk). rewrite E. reflexivity.
        + rewrite sumn_mul_l. f_equal. rewrite (Haw t Ht). apply sumn_ext. intros j _. unfold coef.
          assert (E : Nat.ltb r r = false) by (apply Nat.ltb_ge; lia). rewrite E. reflexivity.
      - apply sumn_zero'. intros j Hj. rewrite (Hsol j Hj). ring. }
    (* dot with y_i, i < r: c_i = 0 *)
    assert (Hci : forall i, i < r -> c i = 0).
    { intros i Hi.
      assert (E : dot n (fun t => sumn r (fun kap => c kap * Y t kap) + c r * w t) (fun t => Y t i) = 0).
      { unfold dot. apply sumn_zero'. intros t Ht. rewrite (Hcomb t Ht). ring. }
      rewrite dot_add_l in E.
      rewrite (dot_scale_l n (c r) w) in E. rewrite (Hperp i Hi) in E.
      assert (E2 : dot n (fun t => sumn r (fun kap => c kap * Y t kap)) (fun t => Y t i) = c i).
      { unfold dot.
        rewrite (sumn_ext n _ (fun t => sumn r (fun kap => c kap * (Y t kap * Y t i))))
          by (intros t _; rewrite <- sumn_mul_r; apply sumn_ext; intros; ring).
        rewrite sumn_swap. rewrite (sumn_single r i).
        - rewrite sumn_mul_l. pose proof (Horth i i Hi Hi) as Hii. unfold dot in Hii.
          rewrite Hii, delta_eq. ring.
        - exact Hi.
        - intros kap Hk Hne. rewrite sumn_mul_l.
          pose proof (Horth kap i Hk Hi) as Hki. unfold dot in Hki.
          rewrite Hki, delta_neq by exact Hne. ring. }
      rewrite E2 in E. rewrite <- E. ring. }
    (* hence the non-zero coefficient is c_r *)
    assert (Hcr : c r <> 0).
    { destruct (Nat.eq_dec l r) as [->|Hne]; [exact Hcl|].
      exfalso. apply Hcl. apply Hci. lia. }
    intros t Ht. pose proof (Hcomb t Ht) as E.
    rewrite (sumn_zero' r) in E by (intros kap Hk; rewrite (Hci kap Hk); ring).
    assert (K : w t = (0 + c r * w t) / c r) by (field; exact Hcr).
    rewrite K, E. field. exact Hcr.
  Qed.

  (* k orthonormal vectors in the column space of Z (n x r, r <= k) capture the range of
     B = Z Z^T :  Y (Y^T B) = B *)
  Theorem range_captured n r k (Z B Y : mat F) :
    r <= k ->
    (forall i i', i < n -> i' < n -> B i i' = sumn r (fun j => Z i j * Z i' j)) ->
    (forall c, c < k -> in_span n r Z (fun t => Y t c)) ->
    orthonormal_cols n k Y ->
    meq n n (mmul k Y (mmul n (mtrans Y) B)) B.
  Proof.
    intros Hrk HB HY Horth i j0 Hi Hj0.
    apply cols_orthonormal_is_meq in Horth.
    set (b := fun t => B t j0).
    set (w := fun t => b t - sumn k (fun c => Y t c * dot n (fun u => Y u c) b)).
    assert (Hb : in_span n r Z b).
    { exists (fun j => Z j0 j). intros t Ht. unfold b. apply HB; assumption. }
    assert (Hw : in_span n r Z w).
    { (* fold the sum over c < k: induction *)
      assert (G : forall m, m <= k ->
                in_span n r Z (fun t => sumn m (fun c => Y t c * dot n (fun u => Y u c) b))).
      { induction m as [|m IHm]; intros Hm.
        - exists (fun _ => 0). intros t _. cbn [sumn]. symmetry. apply sumn_zero'. intros; ring.
        - apply (in_span_ext n r Z
                   (fun t => 1 * sumn m (fun c => Y t c * dot n (fun u => Y u c) b)
                             + dot n (fun u => Y u m) b * Y t m)).
          + intros t _. cbn [sumn]. ring.
          + apply in_span_comb; [apply IHm; lia|apply HY; lia]. }
      apply (in_span_ext n r Z
               (fun t => 1 * b t + (- (1)) * sumn k (fun c => Y t c * dot n (fun u => Y u c) b))).
      - intros t _. unfold w. ring.
      - apply in_span_comb; [exact Hb|apply G; lia]. }
    assert (Hperp : forall c, c < k -> dot n w (fun t => Y t c) = 0).
    { intros c Hc. unfold w. rewrite dot_sub_l.
      assert (E : dot n (fun t => sumn k (fun c' => Y t c' * dot n (fun u => Y u c') b)) (fun t => Y t c)
                  = dot n (fun u => Y u c) b).
      { unfold dot at 1.
        rewrite (sumn_ext n _ (fun t => sumn k (fun c' => dot n (fun u => Y u c') b * (Y t c' * Y t c))))
          by (intros t _; rewrite <- sumn_mul_r; apply sumn_ext; intros; ring).
        rewrite sumn_swap. rewrite (sumn_single k c).
        - rewrite sumn_mul_l. pose proof (Horth c c Hc Hc) as Hcc. unfold dot in Hcc at 1.
          rewrite Hcc, delta_eq. ring.
        - exact Hc.
        - intros c' Hc' Hne. rewrite sumn_mul_l.
          pose proof (Horth c' c Hc' Hc) as Hcc. unfold dot in Hcc at 1.
          rewrite Hcc, delta_neq by exact Hne. ring. }
      rewrite E. rewrite (dot_comm n b). ring. }
    assert (Hzero : w i = 0).
    { apply (span_orthogonal_vanishes n r Z Y w); try assumption.
      - intros c Hc. apply HY. lia.
      - intros a b' Ha Hb'. apply Horth; lia.
      - intros c Hc. apply Hperp. lia. }
    unfold w, b in Hzero.
    assert (E : mmul k Y (mmul n (mtrans Y) B) i j0 =
                sumn k (fun c => Y i c * dot n (fun u => Y u c) (fun t => B t j0))) by reflexivity.
    rewrite E.
    assert (K : B i j0 = (B i j0 - sumn k (fun c => Y i c * dot n (fun u => Y u c) (fun t => B t j0)))
                         + sumn k (fun c => Y i c * dot n (fun u => Y u c) (fun t => B t j0))) by ring.
    symmetry. rewrite K. rewrite Hzero. ring.
  Qed.

  (* ---------------- the whole front end ---------------- *)
  (* B symmetric (MDS / Kernel PCA hand over a symmetric matrix: mds_matrix_msym / kpca_matrix_msym),
     B = Z Z^T with Z n x r, r <= k (the input has rank <= target_dimension + skip);
     O ANY test matrix; s the norm (sqrt) oracle answers of the loop, none zero, none below the
     cut-off (the branch `norm < 1e-4` is not taken);  Bs ANY solution of the normal equations of
     the QR solve; (W, Theta) ANY answer of the small solver meeting its contract.
     Then (Y W, Theta) is an orthonormal eigen-answer for B and B = (Y W) Theta (Y W)^T. *)
  Theorem mds_randomized_path (below : F -> bool) n r k (Z B O Bs W : mat F) (s : nat -> F) (theta : vec F) :
    r <= k ->
    msym n B ->
    (forall i i', i < n -> i' < n -> B i i' = sumn r (fun j => Z i j * Z i' j)) ->
    (forall i, i < k -> below (s i) = false) ->
    (forall i, i < k ->
       s i <> 0 /\
       s i * s i = (let Yi := gram_schmidt n (rand_Y0 n B O) i s in
                    let col := gs_subtract n Yi i i (fun t => Yi t i) in dot n col col)) ->
    let Y := rand_basis below n k B O s in
    rand_normal_eq n k Y (rand_B1 n B Y) Bs ->
    eig_pairs k k Bs W theta ->
    let P := rand_vectors k Y W in
    eig_contract n k B P theta /\
    (forall i j, i < n -> j < n -> B i j = sumn k (fun c => P i c * theta c * P j c)).
  Proof.
    intros Hrk Hsym HB Hnb Hs Y Hne HW P.
    set (Yp := gram_schmidt n (rand_Y0 n B O) k s).
    assert (EY : forall t c, Y t c = Yp t c)
      by (intros t c; apply gram_schmidt_thr_no_branch; exact Hnb).
    assert (Hseen : meq n n (seen_randomized B) B) by (apply seen_randomized_of_sym; exact Hsym).
    assert (HYo : orthonormal_cols n k Yp)
      by (apply cols_orthonormal_is_meq; apply gram_schmidt_orthonormal; exact Hs).
    assert (HYo' : orthonormal_cols n k Y).
    { intros a b Ha Hb. rewrite <- (HYo a b Ha Hb). unfold mmul, mtrans.
      apply sumn_ext. intros t _. rewrite !EY. reflexivity. }
    (* columns in the span of Z *)
    assert (Hspan : forall c, c < k -> in_span n r Z (fun t => Y t c)).
    { intros c Hc. apply (in_span_ext n r Z (fun t => Yp t c)); [intros; symmetry; apply EY|].
      apply (gram_schmidt_in_span n r Z (rand_Y0 n B O) k s k (Nat.le_refl k)); [|exact Hc].
      intros c' Hc'. unfold rand_Y0.
      apply (in_span_ext n r Z (fun t => mmul n B O t c')).
      - intros t Ht. apply mmul_ext_l. intros u Hu. symmetry. apply Hseen; assumption.
      - apply gram_times_in_span. exact HB. }
    assert (Hrange : meq n n (mmul k Y (mmul n (mtrans Y) B)) B)
      by (apply (range_captured n r k Z B Y); assumption).
    (* least squares: Bs = Y^T B1 = Y^T B Y *)
    assert (HBs : meq k k Bs (mmul n (mtrans Y) (mmul n B Y))).
    { intros a b Ha Hb.
      rewrite (ls_solution_orthonormal n k Y Bs (rand_B1 n B Y) HYo' Hne a b Ha Hb).
      apply mmul_ext_r. intros t Ht. unfold rand_B1. apply mmul_ext_l. intros u Hu.
      apply Hseen; assumption. }
    destruct (randomized_contract n k B Y Bs W theta HYo' Hrange HBs HW) as [H1 H2].
    split; [split; assumption|].
    (* B = Y Y^T B = Y (Y^T B Y) Y^T (B symmetric) = Y Bs Y^T = P Theta P^T *)
    intros i j Hi Hj.
    destruct HW as [HWo HWe].
    (* first: B = P (P^T B)   since P P^T = Y W W^T Y^T and W W^T = I needs a full inverse;
       instead use  B P = P Theta  and  P^T-side range capture:  B_ij = sum_c P_ic (P^T B)_cj
       with (P^T B)_cj = (B P)_jc = P_jc theta_c  by symmetry. *)
    assert (HPo : orthonormal_cols n k P) by exact H1.
    assert (HPspan : forall c, c < k -> in_span n r Z (fun t => P t c)).
    { intros c Hc. unfold P, rand_vectors, mmul.
      assert (G : forall m, m <= k -> in_span n r Z (fun t => sumn m (fun a => Y t a * W a c))).
      { induction m as [|m IHm]; intros Hm.
        - exists (fun _ => 0). intros t _. cbn [sumn]. symmetry. apply sumn_zero'. intros; ring.
        - apply (in_span_ext n r Z (fun t => 1 * sumn m (fun a => Y t a * W a c) + W m c * Y t m)).
          + intros t _. cbn [sumn]. ring.
          + apply in_span_comb; [apply IHm; lia|apply Hspan; lia]. }
      apply G. lia. }
    pose proof (range_captured n r k Z B P Hrk HB HPspan HPo i j Hi Hj) as HR.
    rewrite <- HR. unfold mmul at 1. apply sumn_ext. intros c Hc.
    assert (E : mmul n (mtrans P) B c j = mmul n B P j c).
    { unfold mmul, mtrans. apply sumn_ext. intros t Ht. rewrite (Hsym t j Ht Hj). ring. }
    rewrite E.
    assert (E2 : mmul n B P j c = P j c * theta c).
    { unfold P, rand_vectors. rewrite (H2 j c Hj Hc). rewrite mmul_diag_r by exact Hc. reflexivity. }
    rewrite E2. ring.
  Qed.

  (* after the methods' scaling by sqrt(max(theta, 0)) (answers sq with sq_c^2 = theta_c: the
     eigenvalues of a Gram matrix are >= 0 in an ordered field, so max(theta,0) = theta):
     the embedding's Gram matrix is B itself *)
  Theorem mds_randomized_gram n k (B P : mat F) (theta sq : vec F) :
    (forall i j, i < n -> j < n -> B i j = sumn k (fun c => P i c * theta c * P j c)) ->
    (forall c, c < k -> sq c * sq c = theta c) ->
    forall i j, i < n -> j < n ->
      mmul k (scale_cols P sq) (mtrans (scale_cols P sq)) i j = B i j.
  Proof.
    intros HB Hsq i j Hi Hj. rewrite (HB i j Hi Hj). unfold mmul, mtrans, scale_cols.
    apply sumn_ext. intros c Hc. rewrite <- (Hsq c Hc). ring.
  Qed.
End MdsRandomized.

(* ---------------- closed at Qc: the consequence clause for the randomized solver ---------------- *)
Require Import ZArith QArith Qcanon.
From TK Require Import Mat_Qc Mds_Proof_Qc.
Import ListNotations.
Local Open Scope nat_scope.

(* the eigenvalues the small solver reports for a Gram matrix are >= 0 *)
Lemma rand_theta_nonneg n r k (Z B P : mat Qc) (theta : vec Qc) :
  (forall i i', i < n -> i' < n -> B i i' = sumn r (fun j => (Z i j * Z i' j)%F)) ->
  eig_contract n k B P theta ->
  forall c, c < k -> (0 <= theta c)%Qc.
Proof.
  intros HB [H1 H2] c Hc.
  assert (E1 : sumn n (fun i => (P i c * mmul n B P i c)%F) = theta c).
  { rewrite (@sumn_ext Qc QcOps n _ (fun i => ((mtrans P c i * P i c) * theta c)%F)).
    2:{ intros i Hi. rewrite (H2 i c Hi Hc). rewrite (@mmul_diag_r Qc QcOps QcField) by exact Hc.
        unfold mtrans. cbn [fmul QcOps]. ring. }
    rewrite (@sumn_mul_r Qc QcOps QcField). pose proof (H1 c c Hc Hc) as E. unfold mmul in E. rewrite E.
    unfold mI. rewrite (@delta_eq Qc QcOps). cbn [fmul fone QcOps]. ring. }
  assert (E2 : sumn n (fun i => (P i c * mmul n B P i c)%F) =
               sumn r (fun j => (sumn n (fun i => (Z i j * P i c)%F) * sumn n (fun i => (Z i j * P i c)%F))%F)).
  { rewrite (@sumn_ext Qc QcOps r _ (fun j => sumn n (fun i => sumn n (fun i' =>
               ((Z i j * P i c) * (Z i' j * P i' c))%F))))
      by (intros j _; apply (@sumn_mul_sumn Qc QcOps QcField)).
    rewrite (@sumn_swap Qc QcOps QcField). apply (@sumn_ext Qc QcOps). intros i Hi.
    rewrite (@sumn_swap Qc QcOps QcField). unfold mmul. rewrite <- (@sumn_mul_l Qc QcOps QcField).
    apply (@sumn_ext Qc QcOps). intros i' Hi'.
    rewrite (HB i i' Hi Hi'). rewrite <- (@sumn_mul_r Qc QcOps QcField), <- (@sumn_mul_l Qc QcOps QcField).
    apply (@sumn_ext Qc QcOps). intros j _. cbn [fmul QcOps]. ring. }
  rewrite <- E1, E2.
  apply (Mds_Proof_Rank.Qc_sumsq_nonneg r (fun j => sumn n (fun i => (Z i j * P i c)%F))).
Qed.

(* X: N points with r <= d coordinates; dist their distances; MDS with eigen_method = Randomized
   (skip = 0, so k = d): test matrix O arbitrary, loop as modelled, branch not taken, norm oracle
   contract, normal equations, small-solver contract, sqrt answers for max(theta, 0).
   Then the embedding reproduces every pairwise distance. *)
Theorem mds_randomized_recovers_euclidean_Qc (below : Qc -> bool) N r d
        (X dist O Bs W : mat Qc) (s : nat -> Qc) (theta sq : vec Qc) :
  N <> 0 -> r <= d ->
  (forall i j, i < N -> j < N -> i <= j -> (dist i j * dist i j)%Qc = sqdist r X i j) ->
  let B := mds_matrix N dist in
  (forall i, i < d -> below (s i) = false) ->
  (forall i, i < d ->
     s i <> Q2Qc 0 /\
     (s i * s i)%Qc = (let Yi := gram_schmidt N (rand_Y0 N B O) i s in
                      let col := gs_subtract N Yi i i (fun t => Yi t i) in dot N col col)) ->
  let Y := rand_basis below N d B O s in
  rand_normal_eq N d Y (rand_B1 N B Y) Bs ->
  eig_pairs d d Bs W theta ->
  (forall c, c < d -> (sq c * sq c)%Qc = qmax0 (theta c)) ->
  let E := scale_cols (rand_vectors d Y W) sq in
  forall i j, i < N -> j < N -> sqdist d E i j = sqdist r X i j.
Proof.
  intros HN Hrd Hdist B Hnb Hs Y Hne HW Hsq E i j Hi Hj.
  assert (HB : forall a b, a < N -> b < N ->
             B a b = sumn r (fun t => (centered N X a t * centered N X b t)%F)).
  { intros a b Ha Hb.
    exact (@mds_identity Qc QcOps QcField N r X dist (Qc_of_nat_neq0 N HN) Qc_two_neq0 Hdist a b Ha Hb). }
  assert (Hsym : msym N B) by (apply (@mds_matrix_msym Qc QcOps QcField)).
  destruct (@mds_randomized_path Qc QcOps QcField Qc_eq_dec below N r d (centered N X) B O Bs W s theta
              Hrd Hsym HB Hnb Hs Hne HW) as [HC HBP].
  fold Y in HC, HBP.
  pose proof (rand_theta_nonneg N r d (centered N X) B (rand_vectors d Y W) theta HB HC) as Hpos.
  assert (Hsq' : forall c, c < d -> (sq c * sq c)%F = theta c).
  { intros c Hc. cbn [fmul QcOps]. rewrite (Hsq c Hc). apply qmax0_nonneg. apply Hpos. exact Hc. }
  pose proof (@mds_randomized_gram Qc QcOps QcField N d B (rand_vectors d Y W) theta sq HBP Hsq') as HG.
  fold E in HG.
  rewrite (@sqdist_from_gram Qc QcOps QcField d E i j). rewrite !HG by assumption.
  rewrite !HB by assumption.
  unfold sqdist, centered.
  rewrite <- (@sumn_add Qc QcOps QcField), <- !(@sumn_sub Qc QcOps QcField).
  apply (@sumn_ext Qc QcOps). intros t _. cbn [fmul fsub fadd QcOps]. ring.
Qed.

(* non-vacuity witness: the four points +1,-1,+1,-1 on a line (r = d = 1, N = 4), test matrix e_1:
   Y0 = B e_1 = (1,-1,1,-1), norm 2 (above the cut-off), Bs = (4), W = (1), theta = (4), sqrt 2 *)
Definition exq_below : Qc -> bool := fun s => negb (qleb (qfrac 1 10000) s).
Definition exq_O : mat Qc := mof [[qz 1]; [qz 0]; [qz 0]; [qz 0]].
Definition exq_s : nat -> Qc := fun _ => qz 2.
Definition exq_Bs : mat Qc := mof [[qz 4]].
Definition exq_W : mat Qc := mof [[qz 1]].
Definition exq_theta : vec Qc := vof [qz 4].
Definition exq_sq : vec Qc := vof [qz 2].

Lemma exq_ok :
  let B := mds_matrix 4 exr_dist in
  (forall i, i < 1 -> exq_below (exq_s i) = false) /\
  (forall i, i < 1 ->
     exq_s i <> Q2Qc 0 /\
     (exq_s i * exq_s i)%Qc = (let Yi := gram_schmidt 4 (rand_Y0 4 B exq_O) i exq_s in
                              let col := gs_subtract 4 Yi i i (fun t => Yi t i) in dot 4 col col)) /\
  (let Y := rand_basis exq_below 4 1 B exq_O exq_s in
   rand_normal_eq 4 1 Y (rand_B1 4 B Y) exq_Bs) /\
  eig_pairs 1 1 exq_Bs exq_W exq_theta /\
  (forall c, c < 1 -> (exq_sq c * exq_sq c)%Qc = qmax0 (exq_theta c)) /\
  mtab 4 1 (scale_cols (rand_vectors 1 (rand_basis exq_below 4 1 B exq_O exq_s) exq_W) exq_sq)
    = [[qz 1]; [qz (-1)]; [qz 1]; [qz (-1)]].
Proof.
  cbv zeta. split; [|split; [|split; [|split; [|split]]]].
  - intros i Hi. assert (i = 0) by lia. subst. vm_compute. reflexivity.
  - intros i Hi. assert (i = 0) by lia. subst. split.
    + intros H. apply (f_equal this) in H. vm_compute in H. discriminate.
    + apply Qc_is_canon. vm_compute. reflexivity.
  - apply meq_by_compute. vm_compute. reflexivity.
  - split; apply meq_by_compute; vm_compute; reflexivity.
  - intros c Hc. assert (c = 0) by lia. subst. apply Qc_is_canon. vm_compute. reflexivity.
  - apply mlist_eqb_ok. vm_compute. reflexivity.
Qed.

(* ---------------- the cut-off is ABSOLUTE: the front-end is not scale equivariant ----------------
   (known finding F36, scale variant).  Same four points, same test matrix; the table scaled by 2^-20, so
   B -> 2^-40 B and the norm the loop asks for is 2 * 2^-40 < 1e-4: the branch fires and the basis is the zero
   column (the C++ then divides: NaN / eigendecomposition_error), whereas at scale 1 the basis is (1,-1,1,-1)/2.
   Mds_scale_equivariance holds for the dense front-end only. *)
Definition exq_c2 : Qc := qfrac 1 (2 ^ 40).
Lemma exq_scale_refuted :
  let B := mds_matrix 4 exr_dist in
  mtab 4 1 (rand_basis exq_below 4 1 B exq_O exq_s)
    = [[qfrac 1 2]; [qfrac (-1) 2]; [qfrac 1 2]; [qfrac (-1) 2]] /\
  exq_below (exq_c2 * qz 2)%Qc = true /\
  ((exq_c2 * qz 2) * (exq_c2 * qz 2))%Qc =
     (let Y0 := rand_Y0 4 (mscale exq_c2 B) exq_O in dot 4 (fun t => Y0 t 0) (fun t => Y0 t 0)) /\
  mtab 4 1 (rand_basis exq_below 4 1 (mscale exq_c2 B) exq_O (fun _ => (exq_c2 * qz 2)%Qc))
    = [[Q2Qc 0]; [Q2Qc 0]; [Q2Qc 0]; [Q2Qc 0]].
Proof.
  cbv zeta. split; [|split; [|split]].
  - apply mlist_eqb_ok. vm_compute. reflexivity.
  - vm_compute. reflexivity.
  - apply Qc_is_canon. vm_compute. reflexivity.
  - apply mlist_eqb_ok. vm_compute. reflexivity.
Qed.
