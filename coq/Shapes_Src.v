(* ====================================================================== *)
(*  Shapes_Src.v — property C01: the types of the SOURCE-DERIVED tables   *)
(*  the index-obligation model is tied to, and their evaluators.  NO      *)
(*  PROOFS in this file (they are in Shapes_Proof_Tie.v).                 *)
(*                                                                         *)
(*  Three generated tables are read:                                       *)
(*   gen/ShapesSrc.v    (translate/t_shapes.py, owned by C01) `facts`:     *)
(*        sizing / index expressions of spe.hpp, neighbors.hpp,            *)
(*        locally_linear.hpp, tsne.hpp as integer expressions `sx`         *)
(*   gen/Validate_C01.v (translate/t_val.py of C14, C01's own copy):       *)
(*        `td_gen` interprets the clauses on target_dimension and          *)
(*        num_neighbors of every method's validate()/embed() over a `cfg`  *)
(*   gen/EigSelect_C01.v (translate/t_eig.py of C05, C01's own copy):      *)
(*        `eig_of_table` evaluates the block selectors with `blk`          *)
(*  `facts_agree F` states what the hand-written model assumes of each     *)
(*  expression (for ALL sizes); `facts_differ_cfg` is the executable       *)
(*  point-wise comparison the check's search phase uses.                   *)
(* ====================================================================== *)
From Coq Require Import ZArith List Bool String QArith.
From TK Require Import Shapes_Model Validate_Model Mat_EigSelect.
Import ListNotations.
Open Scope Z_scope.

(* ---------------------------------------------------------------- integer expressions *)
Inductive var := VN | VD | Vd | Vk | VK | Vnu | Vj | Vkk | Vdp.

Inductive sx :=
| XV (v : var)
| XC (z : Z)
| XAdd (a b : sx) | XSub (a b : sx) | XMul (a b : sx)
| XDiv (a b : sx).                 (* C++ int / int: truncation toward zero *)

Record senv := { s_N : Z; s_D : Z; s_d : Z; s_k : Z; s_K : Z; s_nu : Z; s_j : Z; s_kk : Z; s_dp : Z }.

Definition s_get (E : senv) (v : var) : Z :=
  match v with
  | VN => s_N E | VD => s_D E | Vd => s_d E | Vk => s_k E | VK => s_K E
  | Vnu => s_nu E | Vj => s_j E | Vkk => s_kk E | Vdp => s_dp E
  end.

Fixpoint sx_eval (E : senv) (e : sx) : Z :=
  match e with
  | XV v => s_get E v
  | XC z => z
  | XAdd a b => sx_eval E a + sx_eval E b
  | XSub a b => sx_eval E a - sx_eval E b
  | XMul a b => sx_eval E a * sx_eval E b
  | XDiv a b => Z.quot (sx_eval E a) (sx_eval E b)
  end.

Record facts := {
  f_spe_clamp : sx;      (* spe.hpp: nupdates is capped at this value (while / if / std::min) *)
  f_spe_ind2 : sx;       (* ind2 = indices.begin() + <this> *)
  f_spe_sel : sx;        (* indices[<this>] = ind1Neighbors[r] *)
  f_spe_nbsize : sx;     (* ind1Neighbors.resize(<this>) *)
  f_spe_nbwrite : sx;    (* ind1Neighbors[<this>] = current_neighbors[kk] *)
  f_spe_rscale : sx;     (* r = floor(uniform_random() * <this>) + ... *)
  f_spe_roff : sx;       (*                                     ... + <this> *)
  f_spe_bufs : sx;       (* Yd(target_dimension, <this>), Rt(<this>), scale(<this>), D(<this>) *)
  f_spe_indices : sx;    (* Indices indices(<this>) *)
  f_nb_clamp : sx;       (* neighbors.hpp find_neighbors: k is capped at this value *)
  f_nb_retry_reclamps : bool;   (* the connectivity retry with 2k passes through that cap again *)
  f_ltsa_cols : sx;      (* locally_linear.hpp: G = Zero(k, <this>) *)
  f_hlle_dp : sx;        (* dp = <this> *)
  f_hlle_cols : sx;      (* Yi(k, <this>) *)
  f_hlle_ct : sx;        (* ct += <this> *)
  f_tsne_kfactor : Z;    (* tsne.hpp: K = (int)(<this> * perplexity) *)
  f_tsne_rowp : sx;      (* *_row_P = malloc(<this> * sizeof(int)) *)
  f_tsne_colp : sx;      (* *_col_P = calloc(<this>, sizeof(int)) *)
  f_tsne_curp : sx;      (* cur_P = malloc(<this> * sizeof(ScalarType))  (K-NN overload) *)
  (* wave 3: calling-context / exception-safety facts read by the same translator *)
  f_omp_throws : list (string * Z);    (* (file, line) of every `throw` lexically inside an `omp parallel` region and
                                          not inside a try { } catch (...) of that region: it cannot leave the
                                          structured block -> std::terminate *)
  f_omp_orphans : list (string * Z);   (* (file, line) of every work-sharing construct (`omp for`, sections, single)
                                          that is not lexically inside a parallel region: it binds to the CALLER's team *)
  f_recursive : list (string * string);   (* (file, function) of every function whose body calls a function of its own
                                          name (self-recursion, directly or through a child object / an overload) *)
  f_spe_anneal_div_is_bound : bool;    (* spe.hpp: the divisor of `lambda = lambda - lambda / X` is the bound of the
                                          main loop `for (i = 0; i < X; ++i)` that contains the statement *)
  (* wave 4: the row order of what landmarks.hpp triangulate() returns *)
  f_tri_returns : list string;         (* the expression of every `return` statement of triangulate() (whitespace removed) *)
  f_tri_scatter : bool                 (* triangulate() has a loop `for (J = 0; J < n_landmarks; ..)` whose body is
                                          `embedding.row(landmarks[J]) = landmarks_embedding.first.row(J)` *)
}.

(* Self-recursive functions of the source the model was written from.  Recursion DEPTH is what C01's "never terminates
   the process" needs: each entry is either bounded by a C01 termination theorem or does not grow with N:
     find_neighbors                  <= log2 N + 1 nested calls (kdouble: c01_kdouble_terminates)
     vptree buildFromPoints / search depth of a median-split tree, <= log2 N + 1 (c01_vp_build)
     covertree batch_insert, internal_batch_nearest_neighbor, *_dist, max_scale_of, brute_nearest
                                     depth = number of scales (c01_ct_descend_terminates, c01_bi_chain_terminates)
     quadtree insert / computeNonEdgeForces / getDepth / getAllIndices / isCorrect / print
                                     depth of the tree (c01_qt_depth_terminates; F24's count[] for duplicates)
     fibonacci_heap cascading_cut    <= rank bound (property C16)
     distance / kernel / embedRange / begin / capacity / clear / reserve / compute / new_leaf
                                     forwarding to a member or an overload of the same name: depth 1
   A function that is not in this list (e.g. a depth-first search written recursively: depth ~ N) re-opens
   `facts_agree`. *)
Definition rec_allowed : list (string * string) :=
  [("callbacks/virtual_callbacks.hpp"%string, "distance"%string); ("callbacks/virtual_callbacks.hpp"%string, "kernel"%string); ("chain_interface.hpp"%string, "embedRange"%string); ("external/barnes_hut_sne/quadtree.hpp"%string, "computeNonEdgeForces"%string); ("external/barnes_hut_sne/quadtree.hpp"%string, "getAllIndices"%string); ("external/barnes_hut_sne/quadtree.hpp"%string, "getDepth"%string); ("external/barnes_hut_sne/quadtree.hpp"%string, "insert"%string); ("external/barnes_hut_sne/quadtree.hpp"%string, "isCorrect"%string); ("external/barnes_hut_sne/quadtree.hpp"%string, "print"%string); ("external/barnes_hut_sne/vptree.hpp"%string, "buildFromPoints"%string); ("external/barnes_hut_sne/vptree.hpp"%string, "search"%string); ("neighbors/covertree.hpp"%string, "batch_insert"%string); ("neighbors/covertree.hpp"%string, "breadth_dist"%string); ("neighbors/covertree.hpp"%string, "brute_nearest"%string); ("neighbors/covertree.hpp"%string, "depth_dist"%string); ("neighbors/covertree.hpp"%string, "height_dist"%string); ("neighbors/covertree.hpp"%string, "internal_batch_nearest_neighbor"%string); ("neighbors/covertree.hpp"%string, "max_scale_of"%string); ("neighbors/covertree/structures.hpp"%string, "new_leaf"%string); ("neighbors/covertree_point.hpp"%string, "begin"%string); ("neighbors/neighbors.hpp"%string, "distance"%string); ("neighbors/neighbors.hpp"%string, "find_neighbors"%string); ("neighbors/vptree.hpp"%string, "buildFromPoints"%string); ("neighbors/vptree.hpp"%string, "search"%string); ("utils/arpack_wrapper.hpp"%string, "compute"%string); ("utils/fibonacci_heap.hpp"%string, "cascading_cut"%string); ("utils/reservable_priority_queue.hpp"%string, "capacity"%string); ("utils/reservable_priority_queue.hpp"%string, "clear"%string); ("utils/reservable_priority_queue.hpp"%string, "reserve"%string)].

Definition pair_eqb (a b : string * string) : bool := String.eqb (fst a) (fst b) && String.eqb (snd a) (snd b).
Definition rec_ok (l : list (string * string)) : bool := forallb (fun x => existsb (pair_eqb x) rec_allowed) l.

(* the expressions Shapes_Model.v was written from (/repo HEAD f79b9b7) *)
Definition ref_facts : facts :=
  {| f_spe_clamp := XDiv (XV VN) (XC 2);
     f_spe_ind2 := XV Vnu;
     f_spe_sel := XAdd (XV Vnu) (XV Vj);
     f_spe_nbsize := XMul (XV Vk) (XV Vnu);
     f_spe_nbwrite := XAdd (XV Vkk) (XMul (XV Vj) (XV Vk));
     f_spe_rscale := XV Vk;
     f_spe_roff := XMul (XV Vk) (XV Vj);
     f_spe_bufs := XV Vnu;
     f_spe_indices := XV VN;
     f_nb_clamp := XSub (XV VN) (XC 1);
     f_nb_retry_reclamps := true;
     f_ltsa_cols := XAdd (XV Vd) (XC 1);
     f_hlle_dp := XDiv (XMul (XV Vd) (XAdd (XV Vd) (XC 1))) (XC 2);
     f_hlle_cols := XAdd (XAdd (XC 1) (XV Vd)) (XV Vdp);
     f_hlle_ct := XSub (XV Vd) (XV Vj);
     f_tsne_kfactor := 3;
     f_tsne_rowp := XAdd (XV VN) (XC 1);
     f_tsne_colp := XMul (XV VN) (XV VK);
     f_tsne_curp := XSub (XV VN) (XC 1);
     f_omp_throws := [];
     f_omp_orphans := [];
     f_recursive := rec_allowed;
     f_spe_anneal_div_is_bound := true;
     f_tri_returns := ["embedding"%string];
     f_tri_scatter := true |}.

Definition nonneg (E : senv) : Prop :=
  0 <= s_N E /\ 0 <= s_D E /\ 0 <= s_d E /\ 0 <= s_k E /\ 0 <= s_K E /\ 0 <= s_nu E /\
  0 <= s_j E /\ 0 <= s_kk E /\ 0 <= s_dp E.

Definition is_nil {A : Type} (l : list A) : bool := match l with [] => true | _ => false end.

(* ---------------------------------------------------------------- wave 3: three small models the new facts feed *)
(* (1) An OpenMP structured block may not be left by an exception.  `fails site` = the throw statement at that site
   executes on this input.  With a throw statement inside the region the process ends in std::terminate (whatever
   the number of threads: GCC wraps the region body in a must-not-throw handler). *)
Inductive region_end := RegionDone | RegionTerminate.
Definition region_run (throws_inside : list (string * Z)) (fails : string * Z -> bool) : region_end :=
  if existsb fails throws_inside then RegionTerminate else RegionDone.

(* (2) Iterations of a tapkee work-sharing loop of n iterations that are complete when the calling thread goes on:
   all n when the loop sits in a parallel region of tapkee's own (its team joins at the end of that region); only
   the static share of the calling thread when the construct is orphaned and the application calls tapkee from its
   own team of T threads (the rest of the buffer stays uninitialised in this thread's private output). *)
Definition ws_done (orphaned : bool) (T n : Z) : Z :=
  if orphaned && (1 <? T) then (n + T - 1) / T else n.

(* (3) SPE's learning-rate annealing `lambda = lambda - lambda / div`, executed once per iteration of the main loop
   `for (i = 0; i < bound; ++i)`; None = a non-finite double (x / 0). *)
Definition anneal_step (div : Z) (lam : Q) : option Q :=
  if div =? 0 then None else Some (lam - lam / inject_Z div)%Q.
Fixpoint spe_anneal (iters : nat) (div : Z) (lam : Q) : option Q :=
  match iters with
  | O => Some lam
  | S n => match anneal_step div lam with None => None | Some l => spe_anneal n div l end
  end.
Definition spe_lambda_final (bound div : Z) : option Q := spe_anneal (Z.to_nat bound) div 1%Q.
(* the divisor as the source has it: the loop bound itself, or a different variable whose value is `other` *)
Definition spe_lambda_src (F : facts) (bound other : Z) : option Q :=
  spe_lambda_final bound (if f_spe_anneal_div_is_bound F then bound else other).

(* (4) wave 4 -- the ROW ORDER of landmark triangulation (routines/landmarks.hpp).  The landmarks are a shuffled
   prefix of the sample indices; `le` = rows of the landmark embedding IN LANDMARK ORDER (row j belongs to sample
   lm[j]); `tri i` = the coordinates triangulate() computes for a non-landmark sample i from its distances to the
   landmarks.  The matrix `embedding` and the flags `to_process` are total maps here (that every index is in range
   is c01_triangulate).
     for (j = 0; j < n_landmarks; ++j) { to_process[landmarks[j]] = false; embedding.row(landmarks[j]) = le.row(j); }
     for (i = 0; i < n_vectors; ++i)   { if (!to_process[i]) continue; embedding.row(i) = tri(i); }
     return embedding; *)
Definition fupd {A : Type} (f : nat -> A) (i : nat) (v : A) : nat -> A := fun x => if Nat.eqb x i then v else f x.

Fixpoint tri_scatter {A : Type} (lm : list nat) (le : list A) (emb : nat -> A) (tp : nat -> bool)
  : (nat -> A) * (nat -> bool) :=
  match lm, le with
  | i :: lm', r :: le' => tri_scatter lm' le' (fupd emb i r) (fupd tp i false)
  | _, _ => (emb, tp)
  end.

Definition tri_rows {A : Type} (N : nat) (lm : list nat) (le : list A) (tri : nat -> A) (dflt : A) : list A :=
  let '(emb, tp) := tri_scatter lm le (fun _ => dflt) (fun _ => true) in
  map (fun i => if tp i then tri i else emb i) (List.seq 0%nat N).

(* what "row i describes input sample i" means here: the landmark coordinates of sample i if it is landmark number j,
   its triangulation otherwise *)
Fixpoint lm_pos (i : nat) (lm : list nat) : option nat :=
  match lm with
  | [] => None
  | x :: t => if Nat.eqb x i then Some O else option_map S (lm_pos i t)
  end.
Definition sample_row {A : Type} (lm : list nat) (le : list A) (tri : nat -> A) (dflt : A) (i : nat) : A :=
  match lm_pos i lm with Some j => nth j le dflt | None => tri i end.

(* triangulate() as the SOURCE has it: when every return statement returns the matrix `embedding` built by the two
   loops above, the caller gets tri_rows; a return statement with another expression hands the caller that other
   matrix `alt` whenever its guard `g` holds (both arbitrary: the theorem quantifies over them) *)
Definition strs_eqb (a b : list string) : bool :=
  (Nat.eqb (List.length a) (List.length b)) && forallb (fun p => String.eqb (fst p) (snd p)) (combine a b).
Definition tri_returns_ok (F : facts) : bool := strs_eqb (f_tri_returns F) ["embedding"%string].
Definition tri_rows_ret {A : Type} (returns_ok : bool) (g : bool) (alt : list A)
  (N : nat) (lm : list nat) (le : list A) (tri : nat -> A) (dflt : A) : list A :=
  if negb returns_ok && g then alt else tri_rows N lm le tri dflt.
Definition tri_rows_src {A : Type} (F : facts) := @tri_rows_ret A (tri_returns_ok F).

(* what the model assumes of each expression, for ALL non-negative sizes: the right-hand sides are the
   expressions written in Shapes_Model.v (site numbers in brackets) *)
Definition facts_agree (F : facts) : Prop :=
  (forall E, nonneg E ->
     Z.min (s_nu E) (sx_eval E (f_spe_clamp F)) = spe_clamp_step (s_N E) (s_nu E) /\      (* spe_clamp *)
     sx_eval E (f_spe_ind2 F) = s_nu E /\                                                  (* [306 309] *)
     sx_eval E (f_spe_sel F) = s_nu E + s_j E /\                                           (* [306] *)
     sx_eval E (f_spe_nbsize F) = s_k E * s_nu E /\                                        (* [303 305] *)
     sx_eval E (f_spe_nbwrite F) = s_kk E + s_j E * s_k E /\                               (* [303] *)
     sx_eval E (f_spe_rscale F) = s_k E /\                                                 (* rs in [0,k) *)
     sx_eval E (f_spe_roff F) = s_k E * s_j E /\                                           (* [305] *)
     sx_eval E (f_spe_bufs F) = s_nu E /\                                                  (* [310] *)
     sx_eval E (f_spe_indices F) = s_N E /\                                                (* [306 309] *)
     Z.min (s_k E) (sx_eval E (f_nb_clamp F)) = (if s_N E - 1 <? s_k E then s_N E - 1 else s_k E) /\
     sx_eval E (f_ltsa_cols F) = s_d E + 1 /\                                              (* [221 222] *)
     sx_eval E (f_hlle_dp F) = s_d E * (s_d E + 1) / 2 /\                                  (* dp *)
     sx_eval E (f_hlle_cols F) = 1 + s_d E + s_dp E /\                                     (* [231-239] *)
     sx_eval E (f_hlle_ct F) = s_d E - s_j E /\                                            (* hlle_cols *)
     sx_eval E (f_tsne_rowp F) = s_N E + 1 /\
     sx_eval E (f_tsne_colp F) = s_N E * s_K E /\                                          (* [327] *)
     sx_eval E (f_tsne_curp F) = s_N E - 1) /\
  f_nb_retry_reclamps F = true /\                                                          (* kdouble *)
  f_tsne_kfactor F = 3 /\                                                                  (* c_K, [325] *)
  f_omp_throws F = [] /\                                                                   (* region_run *)
  f_omp_orphans F = [] /\                                                                  (* ws_done *)
  rec_ok (f_recursive F) = true /\                                                         (* depth bounds above *)
  f_spe_anneal_div_is_bound F = true /\                                                    (* spe_lambda_final *)
  f_tri_returns F = ["embedding"%string] /\                                                (* tri_rows_src *)
  f_tri_scatter F = true.                                                                  (* tri_scatter *)

(* executable point-wise comparison of two tables *)
Definition facts_differ_at (F G : facts) (E : senv) : bool :=
  negb (
    (Z.min (s_nu E) (sx_eval E (f_spe_clamp F)) =? Z.min (s_nu E) (sx_eval E (f_spe_clamp G))) &&
    (sx_eval E (f_spe_ind2 F) =? sx_eval E (f_spe_ind2 G)) &&
    (sx_eval E (f_spe_sel F) =? sx_eval E (f_spe_sel G)) &&
    (sx_eval E (f_spe_nbsize F) =? sx_eval E (f_spe_nbsize G)) &&
    (sx_eval E (f_spe_nbwrite F) =? sx_eval E (f_spe_nbwrite G)) &&
    (sx_eval E (f_spe_rscale F) =? sx_eval E (f_spe_rscale G)) &&
    (sx_eval E (f_spe_roff F) =? sx_eval E (f_spe_roff G)) &&
    (sx_eval E (f_spe_bufs F) =? sx_eval E (f_spe_bufs G)) &&
    (sx_eval E (f_spe_indices F) =? sx_eval E (f_spe_indices G)) &&
    (Z.min (s_k E) (sx_eval E (f_nb_clamp F)) =? Z.min (s_k E) (sx_eval E (f_nb_clamp G))) &&
    (sx_eval E (f_ltsa_cols F) =? sx_eval E (f_ltsa_cols G)) &&
    (sx_eval E (f_hlle_dp F) =? sx_eval E (f_hlle_dp G)) &&
    (sx_eval E (f_hlle_cols F) =? sx_eval E (f_hlle_cols G)) &&
    (sx_eval E (f_hlle_ct F) =? sx_eval E (f_hlle_ct G)) &&
    (sx_eval E (f_tsne_rowp F) =? sx_eval E (f_tsne_rowp G)) &&
    (sx_eval E (f_tsne_colp F) =? sx_eval E (f_tsne_colp G)) &&
    (sx_eval E (f_tsne_curp F) =? sx_eval E (f_tsne_curp G)) &&
    Bool.eqb (f_nb_retry_reclamps F) (f_nb_retry_reclamps G) &&
    (f_tsne_kfactor F =? f_tsne_kfactor G) &&
    Bool.eqb (is_nil (f_omp_throws F)) (is_nil (f_omp_throws G)) &&
    Bool.eqb (is_nil (f_omp_orphans F)) (is_nil (f_omp_orphans G)) &&
    Bool.eqb (rec_ok (f_recursive F)) (rec_ok (f_recursive G)) &&
    Bool.eqb (f_spe_anneal_div_is_bound F) (f_spe_anneal_div_is_bound G) &&
    Bool.eqb (strs_eqb (f_tri_returns F) ["embedding"%string]) (strs_eqb (f_tri_returns G) ["embedding"%string]) &&
    Bool.eqb (f_tri_scatter F) (f_tri_scatter G)).

(* the sizes of a request, with the loop variables at both ends of their ranges *)
Definition envs_of (c : cfg) (keff : Z) : list senv :=
  let nu := spe_clamp_step (c_N c) (c_nupd c) in
  let dp := c_d c * (c_d c + 1) / 2 in
  let mk j kk := {| s_N := c_N c; s_D := c_D c; s_d := c_d c; s_k := keff; s_K := c_K c;
                    s_nu := c_nupd c; s_j := j; s_kk := kk; s_dp := dp |} in
  [mk 0 0; mk (Z.max 0 (nu - 1)) (Z.max 0 (keff - 1)); mk (Z.max 0 (c_d c - 1)) 0].

Definition facts_differ_cfg (F : facts) (c : cfg) (keff : Z) : bool :=
  existsb (facts_differ_at F ref_facts) (envs_of c keff).

(* ---------------------------------------------------------------- validate() tables (t_val) *)
(* t_val's fixed method numbering (METHOD_IDS) *)
Definition meth_id (m : meth) : nat :=
  match m with
  | KLLE => 0 | KLTSA => 1 | DM => 2 | MDS => 3 | LMDS => 4 | ISOMAP => 5 | LISOMAP => 6 | NPE => 7
  | LLTSA => 8 | HLLE => 9 | LA => 10 | LPP => 11 | PCA => 12 | KPCA => 13 | RP => 14 | SPE => 15
  | PASSTHRU => 16 | FA => 17 | TSNE => 18 | MS => 19
  end%nat.

Definition kw_num_neighbors : nat := 4.
Definition kw_target_dimension : nat := 5.
Definition kw_spe_global : nat := 9.
Definition kw_landmark_ratio : nat := 12.
Definition kw_sne_theta : nat := 20.

(* The tables are first NORMALISED by closed functions (no request involved: `vm_compute` evaluates them
   completely) into the small language below, then evaluated on a cfg. *)
Inductive zx :=
| ZC (z : Z) | ZvN | ZvDim | Zvk | Zvd
| ZvL                               (* static_cast<IndexType>(n_vectors * landmark_ratio): the model's c_L *)
| ZAdd (a b : zx) | ZSub (a b : zx) | ZMul (a b : zx).

Fixpoint norm_b (b : bexpr) : option zx :=
  match b with
  | BInt z => Some (ZC z)
  | BN => Some ZvN
  | BDim => Some ZvDim
  | BParam k TIndex =>
      if Nat.eqb k kw_num_neighbors then Some Zvk
      else if Nat.eqb k kw_target_dimension then Some Zvd else None
  | BTrunc (BMul BN (BParam k TScalar)) => if Nat.eqb k kw_landmark_ratio then Some ZvL else None
  | BAdd a e => match norm_b a, norm_b e with Some x, Some y => Some (ZAdd x y) | _, _ => None end
  | BSub a e => match norm_b a, norm_b e with Some x, Some y => Some (ZSub x y) | _, _ => None end
  | BMul a e => match norm_b a, norm_b e with Some x, Some y => Some (ZMul x y) | _, _ => None end
  | _ => None
  end.

(* guards the C01 clauses sit under *)
Inductive zg :=
| GBarnesHut (pos : bool)           (* (sne_theta > 0) == pos *)
| GSpeLocal (pos : bool).           (* spe_global_strategy.is(false) == pos *)

Definition norm_g (g : guard) : option zg :=
  match g with
  | GGt k TScalar q pos => if Nat.eqb k kw_sne_theta && Qeq_bool q 0 then Some (GBarnesHut pos) else None
  | GIs k (VBool false) pos => if Nat.eqb k kw_spe_global then Some (GSpeLocal pos) else None
  | GIs k (VBool true) pos => if Nat.eqb k kw_spe_global then Some (GSpeLocal (negb pos)) else None
  | _ => None
  end.

Fixpoint norm_gs (gs : list guard) : option (list zg) :=
  match gs with
  | [] => Some []
  | g :: r => match norm_g g, norm_gs r with Some a, Some b => Some (a :: b) | _, _ => None end
  end.

Definition norm_bound (o : option (bool * bexpr)) : option (option (bool * zx)) :=
  match o with
  | None => Some None
  | Some (strict, b) => match norm_b b with Some x => Some (Some (strict, x)) | None => None end
  end.

Record zclause := { zc_guards : list zg; zc_lo : option (bool * zx); zc_hi : option (bool * zx) }.

(* the checks on keyword kw in a list of steps, in order; None = a shape this reader does not know *)
Fixpoint norm_steps (kw : nat) (steps : list step) : option (list zclause) :=
  match steps with
  | [] => Some []
  | (gs, BCheck ck) :: r =>
      if Nat.eqb (c_kw ck) kw then
        match norm_gs gs, norm_bound (p_lo (c_pred ck)), norm_bound (p_hi (c_pred ck)), norm_steps kw r with
        | Some g, Some lo, Some hi, Some rest => Some ({| zc_guards := g; zc_lo := lo; zc_hi := hi |} :: rest)
        | _, _, _, _ => None
        end
      else norm_steps kw r
  | _ :: r => norm_steps kw r
  end.

Fixpoint norm_stages (kw : nat) (st : list stage) : option (list zclause) :=
  match st with
  | [] => Some []
  | SCheck ck :: r =>
      if Nat.eqb (c_kw ck) kw then
        match norm_bound (p_lo (c_pred ck)), norm_bound (p_hi (c_pred ck)), norm_stages kw r with
        | Some lo, Some hi, Some rest => Some ({| zc_guards := []; zc_lo := lo; zc_hi := hi |} :: rest)
        | _, _, _ => None
        end
      else norm_stages kw r
  | _ :: r => norm_stages kw r
  end.

(* closed in (T, m) *)
Definition td_clauses (T : tables) (m : meth) : option (list zclause) :=
  match find_method T (meth_id m) with
  | None => None
  | Some mi => norm_steps kw_target_dimension (m_validate mi)
  end.
Definition nn_clauses (T : tables) (m : meth) : option (list zclause) :=
  match find_method T (meth_id m) with
  | None => None
  | Some mi => norm_steps kw_num_neighbors (m_embed mi)
  end.
Definition base_clauses (T : tables) : option (list zclause) :=
  norm_stages kw_target_dimension (t_stages T).

(* evaluation on a request *)
Fixpoint zx_eval (c : cfg) (e : zx) : Z :=
  match e with
  | ZC z => z | ZvN => c_N c | ZvDim => c_D c | Zvk => c_k c | Zvd => c_d c | ZvL => c_L c
  | ZAdd a b => zx_eval c a + zx_eval c b
  | ZSub a b => zx_eval c a - zx_eval c b
  | ZMul a b => zx_eval c a * zx_eval c b
  end.

Definition zg_eval (c : cfg) (g : zg) : bool :=
  match g with
  | GBarnesHut pos => Bool.eqb (negb (c_exact c)) pos
  | GSpeLocal pos => Bool.eqb (negb (c_global c)) pos
  end.

Definition zlo_eval (c : cfg) (lo : option (bool * zx)) (x : Z) : bool :=
  match lo with
  | None => true
  | Some (strict, b) => if strict then zx_eval c b <? x else zx_eval c b <=? x
  end.
Definition zhi_eval (c : cfg) (hi : option (bool * zx)) (x : Z) : bool :=
  match hi with
  | None => true
  | Some (strict, b) => if strict then x <? zx_eval c b else x <=? zx_eval c b
  end.

Definition zclause_active (c : cfg) (cl : zclause) : bool := forallb (zg_eval c) (zc_guards cl).

Definition zclause_eval (c : cfg) (x : Z) (cl : zclause) : bool :=
  negb (zclause_active c cl) || (zlo_eval c (zc_lo cl) x && zhi_eval c (zc_hi cl) x).

Definition zclauses_eval (c : cfg) (x : Z) (cls : list zclause) : bool := forallb (zclause_eval c x) cls.

(* the generated counterpart of Shapes_Model.validate (scalar predicates apart): target_dimension
   against every clause of the selected method's validate() *)
Definition td_gen (T : tables) (c : cfg) : option bool :=
  option_map (zclauses_eval c (c_d c)) (td_clauses T (c_m c)).

(* ... of the base constructor's range check (stage SCheck on target_dimension) *)
Definition base_td_gen (T : tables) (c : cfg) : option bool :=
  option_map (zclauses_eval c (c_d c)) (base_clauses T).

(* ... of neighbors_stage: num_neighbors against the clauses of embed() (find_neighbors_with);
   Some None = no clause is active for this request: the method does not look at num_neighbors *)
Definition nn_gen (T : tables) (c : cfg) : option (option bool) :=
  match nn_clauses T (c_m c) with
  | None => None
  | Some cls => Some (if existsb (zclause_active c) cls then Some (zclauses_eval c (c_k c) cls) else None)
  end.

Definition with_scalars_ok (c : cfg) : cfg :=
  {| c_m := c_m c; c_N := c_N c; c_D := c_D c; c_d := c_d c; c_k := c_k c; c_dense := c_dense c;
     c_scalars_ok := true; c_L := c_L c; c_exact := c_exact c; c_K := c_K c; c_global := c_global c;
     c_nupd := c_nupd c |}.

(* the model's own view of whether the method checks num_neighbors *)
Definition nn_model (c : cfg) : option bool :=
  if uses_neighbors c then Some ((3 <=? c_k c) && (c_k c <? c_N c)) else None.

Definition opt_bool_eqb (a b : option bool) : bool :=
  match a, b with Some x, Some y => Bool.eqb x y | None, None => true | _, _ => false end.

(* executable: does the generated validation table decide this request differently from the model? *)
Definition validate_differs_cfg (T : tables) (c : cfg) : bool :=
  negb (opt_bool_eqb (td_gen T c) (Some (validate head (with_scalars_ok c)))) ||
  negb (opt_bool_eqb (base_td_gen T c) (Some ((1 <=? c_d c) && (c_d c <? c_N c)))) ||
  match nn_gen T c with Some o => negb (opt_bool_eqb o (nn_model c)) | None => true end.

(* ---------------------------------------------------------------- eigen slices (t_eig) *)
Fixpoint ixz (d skip : Z) (e : iexpr) : Z :=
  match e with
  | ETarget => d
  | ESkip => skip
  | EConst n => Z.of_nat n
  | EAdd a b => ixz d skip a + ixz d skip b
  end.

(* one selector applied to a view of `len` entries: the range check and the new length *)
Definition op_z (site : nat) (d skip len : Z) (op : blockop) : res * Z :=
  match op with
  | BRight k => let k' := ixz d skip k in (blk site (len - k') k' len, k')
  | BLeft k => let k' := ixz d skip k in (blk site 0 k' len, k')
  | BSegment s l => let s' := ixz d skip s in let l' := ixz d skip l in (blk site s' l' len, l')
  end.

Fixpoint ops_z (site : nat) (d skip len : Z) (ops : list blockop) : res :=
  match ops with
  | [] => Ok
  | op :: r => let '(chk, len') := op_z site d skip len op in chk ;; ops_z (S site) d skip len' r
  end.

Definition base_z (n d skip : Z) (b : basesize) : Z :=
  match b with BaseN => n | BaseExpr e => ixz d skip e end.

Definition find_branch (T : list branch) (file fn : string) (largest : bool) : option branch :=
  find (fun b => String.eqb (b_file b) file && String.eqb (b_fn b) fn && Bool.eqb (b_largest b) largest) T.

Definition eig_of_table (T : list branch) (file fn : string) (largest : bool) (n d skip : Z) : option res :=
  match find_branch T file fn largest with
  | None => None
  | Some b => let len := base_z n d skip (b_base b) in
              Some (ops_z 501 d skip len (b_cols b) ;; ops_z 511 d skip len (b_vals b))
  end.

Definition eig_file : string := "eigendecomposition.hpp".
Definition geig_file : string := "generalized_eigendecomposition.hpp".
Definition fn_dense : string := "eigendecomposition_impl_dense".
Definition fn_rand : string := "eigendecomposition_impl_randomized".
Definition fn_gdense : string := "generalized_eigendecomposition_impl_dense".

Definition str_largest : string := "LargestEigenvalues".
Definition str_squared_largest : string := "SquaredLargestEigenvalues".
Definition str_smallest : string := "SmallestEigenvalues".

Definition res_ok (r : res) : bool := match r with Ok => true | _ => false end.

(* skip value of an eigendecomposition strategy in the generated skip table *)
Definition skip_of (S : list (string * nat)) (name : string) : option nat :=
  match find (fun p => String.eqb (fst p) name) S with Some p => Some (snd p) | None => None end.

(* executable: does a generated eigen slice accept/reject (n, d, skip) differently from the model? *)
Definition eig_differs_at (T : list branch) (n d skip : Z) : bool :=
  let cmp o r := match o with Some g => negb (Bool.eqb (res_ok g) (res_ok r)) | None => true end in
  cmp (eig_of_table T eig_file fn_dense true n d skip) (eig_dense false true n d skip) ||
  cmp (eig_of_table T eig_file fn_dense false n d skip) (eig_dense false false n d skip) ||
  cmp (eig_of_table T geig_file fn_gdense true n d skip) (eig_dense false true n d skip) ||
  cmp (eig_of_table T geig_file fn_gdense false n d skip) (eig_dense false false n d skip) ||
  cmp (eig_of_table T eig_file fn_rand true n d skip)
      (blk 114 (d + skip - d) d (d + skip)) ||
  cmp (eig_of_table T eig_file fn_rand false n d skip)
      (blk 115 0 (d + skip) (d + skip) ;; blk 116 ((d + skip) - d) d (d + skip)).

(* the (n, d, skip) triples a request sends to the eigensolver front-ends *)
Definition eig_points (c : cfg) : list (Z * Z * Z) :=
  match c_m c with
  | KLLE | KLTSA | HLLE | LA => [(c_N c, c_d c, 1)]
  | NPE | LLTSA | LPP => [(c_D c, c_d c, 0)]
  | DM => [(c_N c, c_d c + 1, 0)]
  | ISOMAP | MDS | KPCA => [(c_N c, c_d c, 0)]
  | LISOMAP | LMDS => [(c_L c, c_d c, 0)]
  | PCA => [(c_D c, c_d c, 0)]
  | _ => []
  end.

Definition eig_differs_cfg (T : list branch) (c : cfg) : bool :=
  existsb (fun p => let '(n, d, s) := p in eig_differs_at T n d s) (eig_points c).
