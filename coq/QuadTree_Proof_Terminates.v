(* QuadTree_Proof_Terminates.v — insert()'s recursion ends on EVERY input (over the rationals): any finite set of
   rational points lies on a common grid 1/M, every root box is at most 2^d grid steps wide for some d, and
   insert_fuel bounds the recursion depth on a grid.  So for all data, root boxes and insertion orders inside the
   root box there is a fuel with which the model run ends in `Done true`: the "runs that end" in the other
   theorems are all runs. *)
From Coq Require Import List Arith Bool ZArith QArith Permutation Lia Lqa.
From TK Require Import QuadTree_Model QuadTree_Spec QuadTree_SpecExec QuadTree_Proof_Base
                       QuadTree_Proof_Insert QuadTree_Proof_Main QuadTree_Proof_Fuel.
Import ListNotations.
Local Open Scope Q_scope.

Lemma pow2_ge : forall d, Qn d + 1 <= pow2 d.
Proof.
  induction d as [|d IH]; cbn [pow2].
  - rewrite Qn_0. lra.
  - rewrite Qn_S. pose proof (Qn_nonneg d). lra.
Qed.

Lemma pow2_ge1 : forall d, 1 <= pow2 d.
Proof. intro d. pose proof (pow2_ge d). pose proof (Qn_nonneg d). lra. Qed.

Lemma pow2_add : forall a b, pow2 (a + b) == pow2 a * pow2 b.
Proof. induction a as [|a IH]; intro b; cbn [pow2 Nat.add]; [ring | rewrite IH; ring]. Qed.

Lemma Q_le_nat : forall y : Q, exists n : nat, y <= Qn n.
Proof.
  intros [a b]. exists (Z.to_nat a). unfold Qn, Qle. cbn [Qnum Qden inject_Z].
  destruct (Z.le_gt_cases a 0) as [H|H].
  - replace (Z.of_nat (Z.to_nat a)) with 0%Z by lia. lia.
  - rewrite Z2Nat.id by lia. nia.
Qed.

Lemma arch : forall x g, 0 < g -> exists d : nat, x <= pow2 d * g.
Proof.
  intros x g Hg. destruct (Q_le_nat (x / g)) as (n & Hn). exists n.
  pose proof (pow2_ge n) as P.
  assert (E : x == (x / g) * g) by (field; lra).
  rewrite E. apply Qmult_le_compat_r; lra.
Qed.

(* ---------- a common grid ---------- *)

Lemma on_grid_refine : forall (M k : positive) p, on_grid (1 # M) p -> on_grid (1 # (M * k)) p.
Proof.
  intros M k p (a & b & Ha & Hb).
  exists (a * Zpos k)%Z, (b * Zpos k)%Z.
  assert (E : forall z : Z, inject_Z (z * Zpos k) * (1 # (M * k)) == inject_Z z * (1 # M)).
  { intro z. unfold Qeq, inject_Z, Qmult. cbn [Qnum Qden]. rewrite !Pos2Z.inj_mul. ring. }
  rewrite !E. split; assumption.
Qed.

Lemma on_grid_own : forall (p : pt) (M : positive),
  on_grid (1 # (M * (Qden (fst p) * Qden (snd p)))) p.
Proof.
  intros [[n1 d1] [n2 d2]] M. cbn [fst snd Qden].
  exists (n1 * Zpos M * Zpos d2)%Z, (n2 * Zpos M * Zpos d1)%Z. cbn [fst snd].
  split; unfold Qeq, inject_Z, Qmult; cbn [Qnum Qden]; rewrite !Pos2Z.inj_mul; ring.
Qed.

Lemma common_grid : forall data : list pt,
  exists M : positive, forall p, In p data -> on_grid (1 # M) p.
Proof.
  induction data as [|p data (M & HM)].
  - exists 1%positive. intros p [].
  - exists (M * (Qden (fst p) * Qden (snd p)))%positive. intros q [<-|Hq].
    + apply on_grid_own.
    + apply on_grid_refine. apply HM. exact Hq.
Qed.

(* ---------- termination ---------- *)

Theorem insert_terminates_gen : forall fx data order root,
  (forall i, In i order -> inside data root i) ->
  mode fx data order ->
  exists fuel t, fill_order fx fuel data order (init root) = Done true t.
Proof.
  intros fx data order root Hin Hm.
  destruct (common_grid data) as (M & HM).
  assert (Hg : 0 < 1 # M) by reflexivity.
  destruct (arch (chw root) (1 # M) Hg) as (d1 & H1). destruct (arch (chh root) (1 # M) Hg) as (d2 & H2).
  pose proof (pow2_ge1 d1) as P1. pose proof (pow2_ge1 d2) as P2.
  pose proof (pow2_pos d1) as Q1. pose proof (pow2_pos d2) as Q2.
  assert (E : pow2 (d1 + d2) == pow2 d1 * pow2 d2) by apply pow2_add.
  assert (G1 : pow2 d1 * (1 # M) <= pow2 (d1 + d2) * (1 # M)).
  { apply Qmult_le_compat_r; [|lra]. rewrite E.
    assert (K : pow2 d1 * 1 <= pow2 d1 * pow2 d2).
    { rewrite (Qmult_comm (pow2 d1) 1), (Qmult_comm (pow2 d1) (pow2 d2)). apply Qmult_le_compat_r; lra. }
    lra. }
  assert (G2 : pow2 d2 * (1 # M) <= pow2 (d1 + d2) * (1 # M)).
  { apply Qmult_le_compat_r; [|lra]. rewrite E.
    assert (K : 1 * pow2 d2 <= pow2 d1 * pow2 d2) by (apply Qmult_le_compat_r; lra).
    lra. }
  exists (d1 + d2 + 3)%nat.
  apply (insert_fuel_gen fx (d1 + d2 + 3) data order root (1 # M) (d1 + d2)%nat Hg Hin); try lra; try lia; try exact Hm.
  intros i p _ Hp. apply HM. apply (nth_error_In _ _ Hp).
Qed.
