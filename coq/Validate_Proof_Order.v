(* Validate_Proof_Order.v — property C14: order and multiplicity of the keywords in the comma
   expression.  A keyword given twice (anywhere) always ends in multiple_parameter_error, and the
   outcome does not depend on the order in which the keywords are written. *)

From Coq Require Import ZArith QArith List Bool Arith Lia Permutation.
Import ListNotations.
From TK Require Import Validate_Model Validate_Spec Validate_Proof Validate_Proof_Steps
  Validate_Proof_Main Validate Validate_Proof_Gen.
Local Open Scope nat_scope.

(* requests the documented specification cannot tell apart *)
Record same_request (r1 r2 : request) : Prop := {
  sr_n : rq_n r1 = rq_n r2;
  sr_dim : rq_dim r1 = rq_dim r2;
  sr_k : rq_kernel r1 = rq_kernel r2;
  sr_d : rq_distance r1 = rq_distance r2;
  sr_f : rq_features r1 = rq_features r2;
  sr_dup : nodupb (map fst (rq_kws r1)) = nodupb (map fst (rq_kws r2));
  sr_ty : existsb (wrong_type_vs doc_defaults) (rq_kws r1) =
          existsb (wrong_type_vs doc_defaults) (rq_kws r2);
  sr_eff : forall k, effective r1 k = effective r2 k
}.

Lemma find_ext_eq : forall (A : Type) (p q : A -> bool) l,
  (forall x, p x = q x) -> find p l = find q l.
Proof. intros A p q l H. induction l as [|a l IH]; cbn; auto. now rewrite H, IH. Qed.

Section Same.
  Variables r1 r2 : request.
  Hypothesis SR : same_request r1 r2.

  Lemma has_cb_same : forall cb, has_cb r1 cb = has_cb r2 cb.
  Proof. intros cb. destruct cb; cbn [has_cb]; [apply (sr_k _ _ SR) | apply (sr_d _ _ SR) | apply (sr_f _ _ SR)]. Qed.

  Lemma guards_same : forall gs, forallb (spec_guard r1) gs = forallb (spec_guard r2) gs.
  Proof.
    induction gs as [|g gs IH]; cbn [forallb]; auto. rewrite IH. f_equal.
    unfold spec_guard. apply guard_on_ext. exact (sr_eff _ _ SR).
  Qed.

  Lemma spec_method_same : spec_method r1 = spec_method r2.
  Proof. unfold spec_method. now rewrite (sr_eff _ _ SR). Qed.

  Lemma out_of_range_same : forall c, out_of_range r1 c = out_of_range r2 c.
  Proof.
    intros c. unfold out_of_range. rewrite (sr_eff _ _ SR).
    destruct (effective r2 (c_kw c)) as [v|]; auto. destruct (value_Q v) as [x|]; auto.
    rewrite (pred_holds_ext (spec_env r1) (spec_env r2)); auto.
    - apply (sr_n _ _ SR).
    - cbn [spec_env e_dim]. unfold cur_dim. now rewrite (sr_f _ _ SR), (sr_dim _ _ SR).
    - exact (sr_eff _ _ SR).
  Qed.

  Lemma violated_same : forall c, violated r1 c = violated r2 c.
  Proof.
    intros c. destruct c; cbn [violated].
    - now rewrite (sr_dup _ _ SR).
    - apply (sr_ty _ _ SR).
    - now rewrite (sr_eff _ _ SR).
    - now rewrite (sr_eff _ _ SR).
    - now rewrite (sr_n _ _ SR).
    - now rewrite guards_same, out_of_range_same.
    - now rewrite (sr_eff _ _ SR).
    - rewrite spec_method_same. destruct (spec_method r2); auto. now rewrite has_cb_same.
    - now rewrite guards_same, has_cb_same.
  Qed.

  Lemma spec_decide_same : spec_decide r1 = spec_decide r2.
  Proof.
    unfold spec_decide, documented_order, method_clauses. rewrite spec_method_same.
    apply find_ext_eq. exact violated_same.
  Qed.
End Same.

(* ------------------------------------------------------------------ permutations *)
Lemma nodupb_perm : forall l1 l2 : list kwid, Permutation l1 l2 -> nodupb l1 = nodupb l2.
Proof.
  intros l1 l2 P. destruct (nodupb l1) eqn:E1; destruct (nodupb l2) eqn:E2; auto.
  - apply nodupb_NoDup in E1. assert (N : NoDup l2) by (eapply Permutation_NoDup; eauto).
    apply nodupb_NoDup in N. congruence.
  - apply nodupb_NoDup in E2. assert (N : NoDup l1).
    { eapply Permutation_NoDup; [apply Permutation_sym|]; eauto. }
    apply nodupb_NoDup in N. congruence.
Qed.

Lemma existsb_perm : forall (A : Type) (f : A -> bool) l1 l2,
  Permutation l1 l2 -> existsb f l1 = existsb f l2.
Proof.
  intros A f l1 l2 P. induction P; cbn [existsb]; auto.
  - now rewrite IHP.
  - destruct (f x), (f y); reflexivity.
  - congruence.
Qed.

Lemma lookup_of_In : forall k v pm, NoDup (map fst pm) -> In (k, v) pm -> pm_lookup k pm = Some v.
Proof.
  induction pm as [|[k' v'] t IH]; intros ND I; [destruct I|].
  cbn [map fst] in ND. inversion ND as [|? ? Hn ND']; subst. cbn [pm_lookup].
  destruct I as [E|I].
  - injection E as -> ->. now rewrite Nat.eqb_refl.
  - destruct (Nat.eqb k k') eqn:E; auto.
    apply Nat.eqb_eq in E. subst. exfalso. apply Hn.
    change k' with (fst (k', v)). now apply in_map.
Qed.

Lemma lookup_perm : forall l1 l2 k, NoDup (map fst l1) -> Permutation l1 l2 ->
  pm_lookup k l1 = pm_lookup k l2.
Proof.
  intros l1 l2 k ND P.
  assert (ND2 : NoDup (map fst l2)).
  { eapply Permutation_NoDup; [|exact ND]. now apply Permutation_map. }
  destruct (pm_lookup k l1) as [v|] eqn:L.
  - apply pm_lookup_In in L. symmetry. apply lookup_of_In; auto.
    eapply Permutation_in; eauto.
  - symmetry. apply pm_lookup_none_notin. apply pm_lookup_none_notin in L.
    intros C. apply L. eapply Permutation_in; [apply Permutation_sym, Permutation_map|]; eauto.
Qed.

Lemma duplicate_first : forall r, nodupb (map fst (rq_kws r)) = false -> spec_decide r = Some CDuplicate.
Proof.
  intros r H. unfold spec_decide, documented_order. cbn [app find violated]. now rewrite H.
Qed.

Lemma gen_duplicate_throws : forall r,
  nodupb (map fst (rq_kws r)) = false ->
  decide gen_tables r = RThrow Multiple /\ evaluates gen_tables r = false.
Proof.
  intros r H. assert (D : decide gen_tables r = RThrow Multiple).
  { rewrite gen_decide, (duplicate_first r H). reflexivity. }
  split; auto. exact (gen_before_any_evaluation r Multiple D).
Qed.

Lemma gen_order_irrelevant : forall r1 r2,
  Permutation (rq_kws r1) (rq_kws r2) ->
  rq_n r1 = rq_n r2 -> rq_dim r1 = rq_dim r2 -> rq_kernel r1 = rq_kernel r2 ->
  rq_distance r1 = rq_distance r2 -> rq_features r1 = rq_features r2 ->
  outcome_of (decide gen_tables r1) = outcome_of (decide gen_tables r2).
Proof.
  intros r1 r2 P Hn Hd Hk Hdi Hf. rewrite !gen_outcome. unfold spec_outcome.
  assert (DUP : nodupb (map fst (rq_kws r1)) = nodupb (map fst (rq_kws r2))).
  { apply nodupb_perm. now apply Permutation_map. }
  destruct (nodupb (map fst (rq_kws r1))) eqn:E1.
  - f_equal. apply spec_decide_same. constructor; auto.
    + congruence.
    + now apply existsb_perm.
    + intros k. unfold effective, explicit.
      assert (ND : NoDup (map fst (rq_kws r1))) by now apply nodupb_NoDup.
      rewrite (lookup_perm (rq_kws r1) (rq_kws r2) k ND P). reflexivity.
  - rewrite (duplicate_first r1 E1). rewrite (duplicate_first r2) by congruence. reflexivity.
Qed.
