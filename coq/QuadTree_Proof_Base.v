(* QuadTree_Proof_Base.v — arithmetic and geometric facts about the model:
   comparison reflection, closed boxes, child boxes cover the parent, the online
   centre-of-mass update is the arithmetic mean, the sqrt-free summary test. *)
From Coq Require Import List Arith Bool ZArith QArith Qminmax Permutation Lia Lqa.
From TK Require Import QuadTree_Model QuadTree_Spec.
Import ListNotations.
Local Open Scope Q_scope.

(* ---------- comparisons ---------- *)

Lemma Qltb_true : forall a b, Qltb a b = true <-> a < b.
Proof.
  intros a b. unfold Qltb. rewrite negb_true_iff.
  split; intro H.
  - apply Qnot_le_lt. intro Hle. apply Qle_bool_iff in Hle. congruence.
  - destruct (Qle_bool b a) eqn:E; [|reflexivity].
    apply Qle_bool_iff in E. exfalso. apply (Qlt_not_le _ _ H E).
Qed.

Lemma Qltb_false : forall a b, Qltb a b = false <-> b <= a.
Proof.
  intros a b. unfold Qltb. rewrite negb_false_iff. apply Qle_bool_iff.
Qed.

Lemma qmax_spec : forall a b, (a < b /\ qmax a b = b) \/ (b <= a /\ qmax a b = a).
Proof.
  intros a b. unfold qmax. destruct (Qltb a b) eqn:E.
  - left. split; [apply Qltb_true; exact E | reflexivity].
  - right. split; [apply Qltb_false; exact E | reflexivity].
Qed.

Lemma qmax_ge_l : forall a b, a <= qmax a b.
Proof. intros a b. destruct (qmax_spec a b) as [[H ->]|[H ->]]; lra. Qed.
Lemma qmax_ge_r : forall a b, b <= qmax a b.
Proof. intros a b. destruct (qmax_spec a b) as [[H ->]|[H ->]]; lra. Qed.

(* ---------- points ---------- *)

Lemma pt_eq_refl : forall p, pt_eq p p.
Proof. intro p. split; reflexivity. Qed.
Lemma pt_eq_sym : forall p q, pt_eq p q -> pt_eq q p.
Proof. intros p q [H1 H2]. split; symmetry; assumption. Qed.
Lemma pt_eq_trans : forall p q r, pt_eq p q -> pt_eq q r -> pt_eq p r.
Proof. intros p q r [H1 H2] [H3 H4]. split; etransitivity; eassumption. Qed.

Lemma pt_eqb_iff : forall p q, pt_eqb p q = true <-> pt_eq p q.
Proof.
  intros p q. unfold pt_eqb, pt_eq. rewrite andb_true_iff, !Qeq_bool_iff. tauto.
Qed.

Lemma pt_eqb_false : forall p q, pt_eqb p q = false <-> ~ pt_eq p q.
Proof.
  intros p q. rewrite <- pt_eqb_iff. destruct (pt_eqb p q); split; congruence.
Qed.

(* ---------- closed boxes ---------- *)

Lemma contains_iff : forall c p,
  contains c p = true <->
  (cx c - chw c <= fst p /\ fst p <= cx c + chw c /\
   cy c - chh c <= snd p /\ snd p <= cy c + chh c).
Proof.
  intros c p. unfold contains.
  destruct (Qltb (fst p) (cx c - chw c)) eqn:E1.
  { apply Qltb_true in E1. split; [discriminate | intros (H & _); lra]. }
  destruct (Qltb (cx c + chw c) (fst p)) eqn:E2.
  { apply Qltb_true in E2. split; [discriminate | intros (_ & H & _); lra]. }
  destruct (Qltb (snd p) (cy c - chh c)) eqn:E3.
  { apply Qltb_true in E3. split; [discriminate | intros (_ & _ & H & _); lra]. }
  destruct (Qltb (cy c + chh c) (snd p)) eqn:E4.
  { apply Qltb_true in E4. split; [discriminate | intros (_ & _ & _ & H); lra]. }
  apply Qltb_false in E1, E2, E3, E4. split; [intros _; repeat split; assumption | reflexivity].
Qed.

Lemma contains_pt_eq : forall c p q, pt_eq p q -> contains c p = contains c q.
Proof.
  intros c p q [H1 H2].
  destruct (contains c p) eqn:Ep; destruct (contains c q) eqn:Eq; try reflexivity.
  - apply contains_iff in Ep. assert (contains c q = true) by (apply contains_iff; lra). congruence.
  - apply contains_iff in Eq. assert (contains c p = true) by (apply contains_iff; lra). congruence.
Qed.

Lemma contains_halfwidths_nonneg : forall c p, contains c p = true -> 0 <= chw c /\ 0 <= chh c.
Proof. intros c p H. apply contains_iff in H. lra. Qed.

(* child boxes, values *)
Lemma nwc_val : forall c,
  cx (nwc c) == cx c - (1#2) * chw c /\ cy (nwc c) == cy c - (1#2) * chh c /\
  chw (nwc c) == (1#2) * chw c /\ chh (nwc c) == (1#2) * chh c.
Proof. intro c. unfold nwc, half; cbn [cx cy chw chh]. rewrite !Qred_correct. repeat split; reflexivity. Qed.
Lemma nec_val : forall c,
  cx (nec c) == cx c + (1#2) * chw c /\ cy (nec c) == cy c - (1#2) * chh c /\
  chw (nec c) == (1#2) * chw c /\ chh (nec c) == (1#2) * chh c.
Proof. intro c. unfold nec, half; cbn [cx cy chw chh]. rewrite !Qred_correct. repeat split; reflexivity. Qed.
Lemma swc_val : forall c,
  cx (swc c) == cx c - (1#2) * chw c /\ cy (swc c) == cy c + (1#2) * chh c /\
  chw (swc c) == (1#2) * chw c /\ chh (swc c) == (1#2) * chh c.
Proof. intro c. unfold swc, half; cbn [cx cy chw chh]. rewrite !Qred_correct. repeat split; reflexivity. Qed.
Lemma sec_val : forall c,
  cx (sec c) == cx c + (1#2) * chw c /\ cy (sec c) == cy c + (1#2) * chh c /\
  chw (sec c) == (1#2) * chw c /\ chh (sec c) == (1#2) * chh c.
Proof. intro c. unfold sec, half; cbn [cx cy chw chh]. rewrite !Qred_correct. repeat split; reflexivity. Qed.

(* children_cover: in exact arithmetic the four closed half-size boxes cover the closed
   parent box, so a point that passed the parent's test passes at least one child's. *)
Lemma children_cover_base : forall c p,
  contains c p = true ->
  contains (nwc c) p = true \/ contains (nec c) p = true \/
  contains (swc c) p = true \/ contains (sec c) p = true.
Proof.
  intros c p H. apply contains_iff in H.
  destruct (nwc_val c) as (A1 & A2 & A3 & A4).
  destruct (nec_val c) as (B1 & B2 & B3 & B4).
  destruct (swc_val c) as (C1 & C2 & C3 & C4).
  destruct (sec_val c) as (D1 & D2 & D3 & D4).
  destruct (Qlt_le_dec (cx c) (fst p)) as [Hx|Hx];
  destruct (Qlt_le_dec (cy c) (snd p)) as [Hy|Hy].
  - right; right; right. apply contains_iff. rewrite D1, D2, D3, D4. lra.
  - right; left. apply contains_iff. rewrite B1, B2, B3, B4. lra.
  - right; right; left. apply contains_iff. rewrite C1, C2, C3, C4. lra.
  - left. apply contains_iff. rewrite A1, A2, A3, A4. lra.
Qed.

(* conversely the children lie inside the parent *)
Lemma child_in_parent : forall c k p,
  0 <= chw c -> 0 <= chh c ->
  k = nwc c \/ k = nec c \/ k = swc c \/ k = sec c ->
  contains k p = true -> contains c p = true.
Proof.
  intros c k p Hw Hh Hk H. apply contains_iff in H. apply contains_iff.
  destruct (nwc_val c) as (A1 & A2 & A3 & A4).
  destruct (nec_val c) as (B1 & B2 & B3 & B4).
  destruct (swc_val c) as (C1 & C2 & C3 & C4).
  destruct (sec_val c) as (D1 & D2 & D3 & D4).
  destruct Hk as [ -> | [ -> | [ -> | -> ] ] ].
  - rewrite A1, A2, A3, A4 in H. lra.
  - rewrite B1, B2, B3, B4 in H. lra.
  - rewrite C1, C2, C3, C4 in H. lra.
  - rewrite D1, D2, D3, D4 in H. lra.
Qed.

(* two different points in one closed box: the box is not degenerate *)
Lemma two_points_qmax_pos : forall c p q,
  contains c p = true -> contains c q = true -> ~ pt_eq p q -> 0 < qmax (chh c) (chw c).
Proof.
  intros c p q Hp Hq Hne. apply contains_iff in Hp. apply contains_iff in Hq.
  destruct (Qlt_le_dec 0 (qmax (chh c) (chw c))) as [H|H]; [exact H|].
  exfalso. apply Hne.
  pose proof (qmax_ge_l (chh c) (chw c)). pose proof (qmax_ge_r (chh c) (chw c)).
  split; lra.
Qed.

(* ---------- Qn ---------- *)

Lemma Qn_S : forall n, Qn (S n) == Qn n + 1.
Proof.
  intro n. unfold Qn. rewrite Nat2Z.inj_succ. unfold Z.succ. rewrite inject_Z_plus. reflexivity.
Qed.

Lemma Qn_nonneg : forall n, 0 <= Qn n.
Proof.
  intro n. unfold Qn. change 0 with (inject_Z 0). rewrite <- Zle_Qle. lia.
Qed.

Lemma Qn_0 : Qn 0 == 0.
Proof. reflexivity. Qed.

Lemma Qn_S_pos : forall n, 0 < Qn (S n).
Proof. intro n. rewrite Qn_S. pose proof (Qn_nonneg n). lra. Qed.

(* ---------- com_is_mean: the online update is the arithmetic mean ---------- *)

Lemma pt_at_nth_error : forall data i p, nth_error data i = Some p -> pt_at data i = p.
Proof. intros data i p H. unfold pt_at. apply nth_error_nth. exact H. Qed.

Lemma com_update_fst : forall com n p,
  Qn (S n) * fst (com_update com (S n) p) == Qn n * fst com + fst p.
Proof.
  intros com n p. unfold com_update. cbn [fst]. rewrite Qred_correct.
  replace (S n - 1)%nat with n by lia.
  pose proof (Qn_S_pos n). field. lra.
Qed.

Lemma com_update_snd : forall com n p,
  Qn (S n) * snd (com_update com (S n) p) == Qn n * snd com + snd p.
Proof.
  intros com n p. unfold com_update. cbn [snd]. rewrite Qred_correct.
  replace (S n - 1)%nat with n by lia.
  pose proof (Qn_S_pos n). field. lra.
Qed.

Lemma agg_ok_nil : forall data com, agg_ok data [] 0 com.
Proof. intros. unfold agg_ok. cbn. repeat split; rewrite Qn_0; lra. Qed.

Lemma agg_step : forall data l cum com i p,
  agg_ok data l cum com -> nth_error data i = Some p ->
  agg_ok data (i :: l) (S cum) (com_update com (S cum) p).
Proof.
  intros data l cum com i p (Hc & Hx & Hy) Hi. unfold agg_ok. cbn [length sumx sumy].
  rewrite (pt_at_nth_error _ _ _ Hi).
  split; [congruence|]. split.
  - rewrite com_update_fst, Hx. lra.
  - rewrite com_update_snd, Hy. lra.
Qed.

(* the division form *)
Lemma agg_ok_mean : forall data l cum com,
  agg_ok data l cum com -> l <> [] ->
  fst com == sumx data l / Qn (length l) /\ snd com == sumy data l / Qn (length l).
Proof.
  intros data l cum com (Hc & Hx & Hy) Hne. subst cum.
  destruct l as [|a l]; [congruence|]. cbn [length] in *.
  pose proof (Qn_S_pos (length l)).
  split; [rewrite <- Hx | rewrite <- Hy]; field; lra.
Qed.

(* sums are invariant under permutation and under pointwise coincidence *)
Lemma sumx_perm : forall data l l', Permutation l l' -> sumx data l == sumx data l'.
Proof. intros data l l' H. induction H; cbn [sumx]; lra. Qed.
Lemma sumy_perm : forall data l l', Permutation l l' -> sumy data l == sumy data l'.
Proof. intros data l l' H. induction H; cbn [sumy]; lra. Qed.
Lemma sumx_app : forall data l l', sumx data (l ++ l') == sumx data l + sumx data l'.
Proof. intros data l l'. induction l; cbn [sumx app]; lra. Qed.
Lemma sumy_app : forall data l l', sumy data (l ++ l') == sumy data l + sumy data l'.
Proof. intros data l l'. induction l; cbn [sumy app]; lra. Qed.

Lemma agg_ok_perm : forall data l l' cum com,
  Permutation l l' -> agg_ok data l cum com -> agg_ok data l' cum com.
Proof.
  intros data l l' cum com HP (Hc & Hx & Hy). unfold agg_ok.
  rewrite <- (sumx_perm _ _ _ HP), <- (sumy_perm _ _ _ HP), <- (Permutation_length HP). auto.
Qed.
