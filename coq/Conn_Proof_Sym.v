(* Conn_Proof_Sym.v — why the defect of the old test was invisible to the unit tests: on a
   SYMMETRIC neighbourhood graph (j in list i  <->  i in list j, e.g. a uniformly sampled
   swiss roll with a generous k is close to it, or any graph after symmetrisation)
   reachability from sample 0 IS strong connectivity, so old and new test agree there.
   Also: with check_connectivity = false the recursion returns the (clamped) k-lists
   untouched. *)
From Coq Require Import List Arith Bool ZArith Lia Permutation.
From TK Require Import Conn_Model Conn_Spec Conn_Proof_Graph Conn_Proof_Dfs
     Conn_Proof_Strong Conn_Proof.
Import ListNotations.

Definition symmetric_graph (nb : graph) : Prop := forall i j, edge nb i j -> edge nb j i.

Lemma sym_reach : forall nb, symmetric_graph nb -> forall i j, reach nb i j -> reach nb j i.
Proof.
  intros nb Hs i j H. induction H as [|i m j He Hr IH].
  - apply reach_refl.
  - eapply reach_step_r; eauto.
Qed.

Lemma sym_first_iff_strong : forall N nb, 0 < N -> symmetric_graph nb ->
  (all_from_first N nb <-> strongly_connected N nb).
Proof.
  intros N nb HN Hs. split.
  - intros Hf i j Hi Hj. eapply reach_trans; [|apply Hf; auto].
    apply sym_reach; auto.
  - intros H j Hj. apply H; auto.
Qed.

Lemma main_old_new_agree_if_symmetric : forall N nb,
  0 < N -> wf_graph N nb -> uniform nb -> symmetric_graph nb ->
  is_connected N nb = is_connected_fixed N nb.
Proof.
  intros N nb HN Hwf Hu Hs.
  destruct (is_connected_correct N nb HN Hwf Hu) as [b [E H]].
  destruct (is_connected_fixed_correct N nb HN Hwf) as [b' [E' H']].
  rewrite E, E'. f_equal.
  pose proof (sym_first_iff_strong N nb HN Hs) as Hiff.
  destruct b, b'; auto.
  - symmetry. apply H'. apply Hiff. apply H. reflexivity.
  - apply H. apply Hiff. apply H'. reflexivity.
Qed.

Lemma main_cc_off : forall (knn : nat -> graph) N fuel k,
  find_neighbors is_connected_fixed knn N (S fuel) k false
  = COk (Nat.min k (N - 1), knn (Nat.min k (N - 1))).
Proof. intros. apply fn_no_check. Qed.

(* non-vacuity: the 2-NN graph of four samples on a line at 0,1,2,3 ... is not symmetric;
   the 1-NN graph of 0,1 / a 4-cycle is *)
Definition sym4 : graph := [[1; 3]; [0; 2]; [1; 3]; [2; 0]].
Lemma nv_sym : 0 < 4 /\ wf_graph 4 sym4 /\ uniform sym4 /\ symmetric_graph sym4.
Proof.
  split; [lia|]. split; [apply wf_b_spec; vm_compute; reflexivity|].
  split; [apply uniform_b_spec; vm_compute; reflexivity|].
  intros i j He.
  assert (Hw : wf_graph 4 sym4) by (apply wf_b_spec; vm_compute; reflexivity).
  destruct (wf_edge 4 sym4 i j Hw He) as [Hi Hj].
  unfold edge in *.
  assert (Hi' : i = 0 \/ i = 1 \/ i = 2 \/ i = 3) by lia.
  destruct Hi' as [-> | [-> | [-> | ->]]]; cbn in He;
    (destruct He as [<- | [<- | []]]; cbn; auto).
Qed.
