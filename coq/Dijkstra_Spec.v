(* Dijkstra_Spec.v — what property C04 says, independently of the algorithm.

   Graph: vertex u has an edge to every entry of its neighbour list, weighted by
   the distance callback w u v (integers; see Dijkstra_Model.v for why).
   `pathn k v W n` : there is a directed walk k -> v with n edges and weight W.
   `is_sp k v o`   : o = Some d  iff d is the minimum weight of a walk k -> v,
                     o = None    iff v is not reachable from k.
   `sp_row`        : an executable definition (Bellman-Ford, N rounds of relaxing
                     every edge) that shares no code with the Dijkstra models;
                     `sp_char` (Dijkstra_Proof_Spec.v) proves is_sp of it.
   Decision procedures: `row_eqb`/`check_row`/`check_matrix` compare an observed
   row (None = the code's infinity) with sp_row. *)
From Coq Require Import List ZArith Bool Arith.
Import ListNotations.
Local Open Scope Z_scope.

Section Graph.
  Variable nbrs : list (list nat).
  Variable w : nat -> nat -> Z.

  Definition edge (u v : nat) : Prop :=
    exists row, nth_error nbrs u = Some row /\ In v row.

  Inductive pathn (k : nat) : nat -> Z -> nat -> Prop :=
  | pn_nil : pathn k k 0 0
  | pn_snoc : forall u v W n, pathn k u W n -> edge u v -> pathn k v (W + w u v) (S n).

  Definition path (k v : nat) (W : Z) : Prop := exists n, pathn k v W n.

  Definition is_sp (k v : nat) (o : option Z) : Prop :=
    match o with
    | Some d => path k v d /\ forall W, path k v W -> d <= W
    | None => forall W, ~ path k v W
    end.

  (* hypotheses of the theorems *)
  Definition wf_graph (N K : nat) : Prop :=
    length nbrs = N /\
    Forall (fun row => length row = K /\ Forall (fun v => (v < N)%nat) row) nbrs.

  Definition nonneg_w : Prop := forall u v, edge u v -> 0 <= w u v.

  (* d is a metric table on the vertices (used for "never below the direct distance") *)
  Definition metric_w (N : nat) : Prop :=
    (forall u, (u < N)%nat -> w u u = 0) /\
    (forall u v, (u < N)%nat -> (v < N)%nat -> 0 <= w u v) /\
    (forall u v x, (u < N)%nat -> (v < N)%nat -> (x < N)%nat -> w u x <= w u v + w v x).

  (* ---------- executable shortest paths: Bellman-Ford ---------- *)
  Fixpoint set_nth (l : list (option Z)) (i : nat) (x : option Z) : list (option Z) :=
    match l, i with
    | [], _ => []
    | _ :: t, O => x :: t
    | h :: t, S j => h :: set_nth t j x
    end.

  Definition relax_edge (u : nat) (row : list (option Z)) (v : nat) : list (option Z) :=
    match nth u row None with
    | None => row
    | Some du =>
      match nth v row None with
      | None => set_nth row v (Some (du + w u v))
      | Some dv => if Z.ltb (du + w u v) dv then set_nth row v (Some (du + w u v)) else row
      end
    end.

  (* every edge (u,v) of the graph, in the order of the neighbour lists *)
  Definition all_edges (N : nat) : list (nat * nat) :=
    flat_map (fun u => map (fun v => (u, v)) (nth u nbrs [])) (seq 0 N).

  Definition bf_round (N : nat) (row : list (option Z)) : list (option Z) :=
    fold_left (fun r e => relax_edge (fst e) r (snd e)) (all_edges N) row.

  Fixpoint bf_iter (N : nat) (rounds : nat) (row : list (option Z)) : list (option Z) :=
    match rounds with
    | O => row
    | S r => bf_iter N r (bf_round N row)
    end.

  Definition sp_row (N k : nat) : list (option Z) :=
    bf_iter N N (set_nth (repeat None N) k (Some 0)).

  Definition sp (N k v : nat) : option Z := nth v (sp_row N k) None.

  Definition sp_matrix (N : nat) : list (list (option Z)) := map (sp_row N) (seq 0 N).
  Definition sp_landmarks (N : nat) (lm : list nat) : list (list (option Z)) :=
    map (sp_row N) lm.
End Graph.

(* ---------- decision procedures ---------- *)
Definition oz_eqb (a b : option Z) : bool :=
  match a, b with
  | None, None => true
  | Some x, Some y => Z.eqb x y
  | _, _ => false
  end.

Fixpoint row_eqb (a b : list (option Z)) : bool :=
  match a, b with
  | [], [] => true
  | x :: a', y :: b' => oz_eqb x y && row_eqb a' b'
  | _, _ => false
  end.

Fixpoint mat_eqb (a b : list (list (option Z))) : bool :=
  match a, b with
  | [], [] => true
  | x :: a', y :: b' => row_eqb x y && mat_eqb a' b'
  | _, _ => false
  end.

Definition check_row nbrs w (N k : nat) (observed : list (option Z)) : bool :=
  row_eqb observed (sp_row nbrs w N k).
Definition check_matrix nbrs w (N : nat) (observed : list (list (option Z))) : bool :=
  mat_eqb observed (sp_matrix nbrs w N).
Definition check_landmarks nbrs w (N : nat) (lm : list nat)
           (observed : list (list (option Z))) : bool :=
  mat_eqb observed (sp_landmarks nbrs w N lm).

(* ---------- the clauses of the property on a matrix of geodesics ---------- *)
Definition entry_of (m : list (list (option Z))) (i j : nat) : option Z :=
  nth j (nth i m []) None.

(* o1 <= o2 on extended values, None = +infinity *)
Definition le_inf (a b : option Z) : Prop :=
  match a, b with
  | _, None => True
  | None, Some _ => False
  | Some x, Some y => x <= y
  end.
