(* QuadTree_Proof_Exec.v — the executable companions of QuadTree_SpecExec are what they claim:
   (1) forces_at is the fold of add_summary over forces_cells;
   (2) struct_okb t = true  ->  spec (recom t): the structural checker run on the dump of the
       real tree is sound for the specification once the centres of mass are the exact means. *)
From Coq Require Import List Arith Bool ZArith QArith Permutation Lia Lqa.
From TK Require Import QuadTree_Model QuadTree_Spec QuadTree_SpecExec QuadTree_Proof_Base
                       QuadTree_Proof_Insert QuadTree_Proof_Main QuadTree_Proof_Spec.
Import ListNotations.
Local Open Scope Q_scope.

(* ---------- (1) ---------- *)

Lemma forces_at_cells : forall p i theta t n a,
  forces_at p i theta t a = fold_left (add_cell p) (forces_cells p i theta n t) a.
Proof.
  intros p i theta t.
  induction t as [c st cum com | c cum com nw IH1 ne IH2 sw IH3 se IH4]; intros n a.
  - cbn [forces_at forces_cells]. destruct (cum =? 0)%nat; [reflexivity|].
    unfold self_leaf. destruct st as [[j cnt]|].
    + destruct (j =? i)%nat; reflexivity.
    + reflexivity.
  - cbn [forces_at forces_cells]. destruct (cum =? 0)%nat; [reflexivity|].
    destruct (summary_ok c theta (sqdist p com)); [reflexivity|].
    rewrite !fold_left_app.
    rewrite <- (IH1 (S n) a).
    rewrite <- (IH2 (S n + ncells nw)%nat).
    rewrite <- (IH3 (S n + ncells nw + ncells ne)%nat).
    rewrite <- (IH4 (S n + ncells nw + ncells ne + ncells sw)%nat).
    reflexivity.
Qed.

(* every listed cell really is a cell of the tree, with that number: the numbers lie in range *)
Lemma forces_cells_range : forall p i theta t n x,
  In x (forces_cells p i theta n t) -> (n <= fst (fst x) < n + ncells t)%nat.
Proof.
  intros p i theta t.
  induction t as [c st cum com | c cum com nw IH1 ne IH2 sw IH3 se IH4]; intros n x Hx.
  - cbn [forces_cells] in Hx. cbn [ncells].
    destruct (cum =? 0)%nat; [destruct Hx|].
    destruct (self_leaf st i); [destruct Hx|].
    destruct Hx as [<-|[]]. cbn. lia.
  - cbn [forces_cells] in Hx. cbn [ncells].
    destruct (cum =? 0)%nat; [destruct Hx|].
    destruct (summary_ok c theta (sqdist p com)).
    + destruct Hx as [<-|[]]. cbn. lia.
    + apply in_app_or in Hx. destruct Hx as [Hx|Hx]; [apply IH1 in Hx; lia|].
      apply in_app_or in Hx. destruct Hx as [Hx|Hx]; [apply IH2 in Hx; lia|].
      apply in_app_or in Hx. destruct Hx as [Hx|Hx]; [apply IH3 in Hx; lia | apply IH4 in Hx; lia].
Qed.

(* ---------- (2) ---------- *)

Lemma assigned_recom : forall data ins t, assigned data ins (recom data ins t) = assigned data ins t.
Proof.
  intros data ins t. induction t as [c st cum com | c cum com nw IH1 ne IH2 sw IH3 se IH4].
  - destruct st as [[j cnt]|]; reflexivity.
  - cbn [recom assigned]. rewrite IH1, IH2, IH3, IH4. reflexivity.
Qed.

Lemma all_indices_recom : forall data ins t, all_indices (recom data ins t) = all_indices t.
Proof.
  intros data ins t. induction t as [c st cum com | c cum com nw IH1 ne IH2 sw IH3 se IH4].
  - destruct st as [[j cnt]|]; reflexivity.
  - cbn [recom all_indices]. rewrite IH1, IH2, IH3, IH4. reflexivity.
Qed.

Lemma agg_mean_of : forall data l cum com,
  cum = length l -> agg_ok data l cum (mean_of data l cum com).
Proof.
  intros data l cum com Hc. unfold agg_ok. split; [exact Hc|].
  destruct cum as [|k].
  - destruct l; [|discriminate]. cbn [mean_of sumx sumy]. rewrite Qn_0. split; lra.
  - cbn [mean_of fst snd]. rewrite !Qred_correct. pose proof (Qn_S_pos k).
    split; field; lra.
Qed.

Lemma cells_structb_recom : forall data ins t,
  cells_structb data ins t = true -> cells_okb data ins (recom data ins t) = true.
Proof.
  intros data ins t. induction t as [c st cum com | c cum com nw IH1 ne IH2 sw IH3 se IH4]; intro H.
  - destruct st as [[j cnt]|].
    + cbn [cells_structb] in H. cbn [recom cells_okb assigned] in *.
      apply andb_true_iff in H. destruct H as [H Hc].
      rewrite H. cbn [andb]. apply agg_okb_iff. apply agg_mean_of. apply Nat.eqb_eq. exact Hc.
    + exact H.
  - cbn [cells_structb] in H.
    apply andb_true_iff in H. destruct H as [H K4].
    apply andb_true_iff in H. destruct H as [H K3].
    apply andb_true_iff in H. destruct H as [H K2].
    apply andb_true_iff in H. destruct H as [H K1].
    apply andb_true_iff in H. destruct H as [Hin Hc].
    cbn [recom cells_okb].
    rewrite (IH1 K1), (IH2 K2), (IH3 K3), (IH4 K4), !andb_true_r.
    change (assigned data ins (Node c cum (mean_of data (assigned data ins (Node c cum com nw ne sw se)) cum com)
                                    (recom data ins nw) (recom data ins ne) (recom data ins sw) (recom data ins se)))
      with (assigned data ins (recom data ins (Node c cum com nw ne sw se))).
    rewrite assigned_recom.
    rewrite Hin. cbn [andb]. apply agg_okb_iff. apply agg_mean_of. apply Nat.eqb_eq. exact Hc.
Qed.

Theorem struct_okb_sound_gen : forall data ins t,
  struct_okb data ins t = true -> spec data ins (recom data ins t).
Proof.
  intros data ins t H. apply spec_okb_sound_gen. unfold struct_okb in H. unfold spec_okb.
  rewrite all_indices_recom.
  apply andb_true_iff in H. destruct H as [H Hpw].
  apply andb_true_iff in H. destruct H as [H Hsub].
  apply andb_true_iff in H. destruct H as [Hown Hcells].
  rewrite Hown, (cells_structb_recom _ _ _ Hcells), Hsub, Hpw. reflexivity.
Qed.

(* recom only touches the centres of mass *)
Lemma recom_shape : forall data ins t,
  qcell (recom data ins t) = qcell t /\ qcum (recom data ins t) = qcum t /\
  ncells (recom data ins t) = ncells t.
Proof.
  intros data ins t. induction t as [c st cum com | c cum com nw IH1 ne IH2 sw IH3 se IH4].
  - cbn. auto.
  - cbn [recom qcell qcum ncells].
    destruct IH1 as (_ & _ & ->), IH2 as (_ & _ & ->), IH3 as (_ & _ & ->), IH4 as (_ & _ & ->). auto.
Qed.

(* a tree that satisfies the exact specification has consistent masses, hence so does every tree
   that passes struct_okb (recom does not change cum) *)
Lemma cum_consistent_recom : forall data ins t, cum_consistent (recom data ins t) = cum_consistent t.
Proof.
  intros data ins t. induction t as [c st cum com | c cum com nw IH1 ne IH2 sw IH3 se IH4].
  - reflexivity.
  - cbn [recom cum_consistent]. rewrite IH1, IH2, IH3, IH4.
    destruct (recom_shape data ins nw) as (_ & -> & _). destruct (recom_shape data ins ne) as (_ & -> & _).
    destruct (recom_shape data ins sw) as (_ & -> & _). destruct (recom_shape data ins se) as (_ & -> & _).
    reflexivity.
Qed.

Theorem struct_okb_cum_consistent : forall data ins t,
  struct_okb data ins t = true -> cum_consistent t = true.
Proof.
  intros data ins t H. apply struct_okb_sound_gen in H.
  destruct H as [(l & _ & HR) _]. apply Routed_cum in HR. destruct HR as [_ HR].
  rewrite cum_consistent_recom in HR. exact HR.
Qed.
