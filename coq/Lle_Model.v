(* ====================================================================== *)
(*  Lle_Model.v — executable model of tapkee's locally-linear family       *)
(*  (property C08): routines/locally_linear.hpp                            *)
(*      linear_weight_matrix   (KLLE)                                      *)
(*      tangent_weight_matrix  (KLTSA)                                     *)
(*      hessian_weight_matrix  (HLLE)                                      *)
(*  utils/sparse.hpp sparse_matrix_from_triplets, utils/matrix.hpp         *)
(*  centerMatrix (Mat_Core.center_matrix), and the post-processing of      *)
(*  eigendecomposition_impl_dense for SmallestEigenvalues (skip = 1).      *)
(*                                                                         *)
(*  NO PROOFS HERE.  Algebra regime (DESIGN 1.1): everything is generic in *)
(*  a carrier F with FieldOps; the closed/executable instance is Qc        *)
(*  (Mat_Qc).  Samples are identified with their index (begin[i] = i), the *)
(*  kernel callback is a table `kern : mat` (kern a b = callback.kernel(   *)
(*  begin[a], begin[b])), neighbour lists are `nbr : nat -> nat -> nat`    *)
(*  (sample, slot) obtained from the list-of-lists by `nbrs_of`; the       *)
(*  checked entry points `*_run` first decide whether any access of the    *)
(*  C++ would leave its buffer and return `OOB site index size` if so.     *)
(*                                                                         *)
(*  ORACLES (external code, DESIGN 1.3) are explicit arguments:            *)
(*    solve k A b : option (list F)   ldlt().solve on the k x k matrix the *)
(*                 solver SEES (read_upper of the buffer); None = singular *)
(*                 (Eigen returns garbage then; the model says SolveFail)  *)
(*    E i : mat    eigenvector matrix (k x k, ascending) returned by       *)
(*                 SelfAdjointEigenSolver for sample i's centred Gram      *)
(*    rsk          the value 1/sqrt(k)                                     *)
(*    sqrtf        the values of sqrt inside HLLE's Gram-Schmidt (.norm()) *)
(*    gt_thr       the comparison `colsum > 1e-4`                          *)
(*  PER-THREAD BUFFERS that survive from one sample to the next            *)
(*  (gram_matrix in KLLE, Yi in HLLE) are modelled by an explicit `prev`   *)
(*  argument = whatever the buffer held when the iteration started; the    *)
(*  proofs show the result does not depend on it (no stale data is read)   *)
(*  — for HLLE only after the F6 repair.                                   *)
(*  The order in which per-sample triplet blocks are appended (OpenMP      *)
(*  critical section) is a parameter `order`; from_triplets is invariant   *)
(*  under permutation (Lle_Proof).                                         *)
(*                                                                         *)
(*  F6: the shipped column counter of HLLE is `ct += ct + d - j`; the      *)
(*  model has both (`shipped : bool`), `hlle_writes true 3` writes column  *)
(*  12 of a 10-column buffer.                                              *)
(* ====================================================================== *)
Require Import Arith Lia List Bool.
From TK Require Import Mat_Sums Mat_Core.
Import ListNotations.

Inductive result (A : Type) : Type :=
| Ok (a : A)
| OOB (site index size : nat)     (* an access index >= size at the given site *)
| SolveFail (sample : nat).       (* the local problem of this sample is singular / degenerate *)
Arguments Ok {A} a.
Arguments OOB {A} site index size.
Arguments SolveFail {A} sample.

(* sites *)
Definition site_neighbors0 : nat := 0.   (* neighbors[0] on an empty container *)
Definition site_nb_slot : nat := 1.      (* current_neighbors[a], a >= its size *)
Definition site_nb_index : nat := 2.     (* begin[nb] / triplet index, nb >= N *)
Definition site_right_cols : nat := 3.   (* eigenvectors().rightCols(d), d > k *)
Definition site_hlle_col : nat := 4.     (* Yi.col(c), c >= 1 + d + dp *)
Definition site_hlle_right : nat := 5.   (* Yi.rightCols(dp) *)

Section LleModel.
  Context {F : Type} {Fo : FieldOps F}.
  Local Open Scope F_scope.
  Local Notation vec := (Mat_Core.vec F).
  Local Notation mat := (Mat_Core.mat F).

  (* ================= sparse_matrix_from_triplets ================= *)
  Definition triplet : Type := (nat * nat * F)%type.

  Definition trip_at (r c : nat) (t : triplet) : F :=
    let '(i, j, v) := t in if (Nat.eqb i r && Nat.eqb j c)%bool then v else 0.

  (* setFromTriplets: entry (r,c) = sum of the values of all triplets with that (row, col) *)
  Fixpoint from_triplets (ts : list triplet) (r c : nat) : F :=
    match ts with
    | [] => 0
    | t :: rest => trip_at r c t + from_triplets rest r c
    end.

  (* the same sum, visiting only the triplets that hit (r,c): what is executed
     (Lle_Proof_Triplets.from_triplets_fast_ok) *)
  Definition trip_hits (r c : nat) (t : triplet) : bool :=
    let '(i, j, _) := t in (Nat.eqb i r && Nat.eqb j c)%bool.
  Definition from_triplets_fast (ts : list triplet) (r c : nat) : F :=
    fold_left (fun acc t => acc + snd t) (filter (trip_hits r c) ts) 0.

  Definition triplet_in_range (m n : nat) (t : triplet) : bool :=
    let '(i, j, _) := t in (Nat.ltb i m && Nat.ltb j n)%bool.
  Definition triplets_in_range (m n : nat) (ts : list triplet) : bool :=
    forallb (triplet_in_range m n) ts.

  (* ================= neighbour containers ================= *)
  Definition nbrs_of (L : list (list nat)) : nat -> nat -> nat :=
    fun i a => nth a (nth i L []) 0%nat.

  (* first access of the shape  begin[ neighbors[i][a] ], i < N, a < k  that is out of range *)
  Fixpoint check_slots (N k : nat) (l : list nat) (a : nat) : option (nat * nat * nat) :=
    match k with
    | O => None
    | S k' =>
        match l with
        | [] => Some (site_nb_slot, a, a)
        | x :: l' => if Nat.ltb x N then check_slots N k' l' (S a)
                     else Some (site_nb_index, x, N)
        end
    end.

  Fixpoint check_lists (N k : nat) (L : list (list nat)) (n : nat) : option (nat * nat * nat) :=
    match n with
    | O => None
    | S n' =>
        match L with
        | [] => Some (site_neighbors0, 0%nat, 0%nat)
        | l :: L' =>
            match check_slots N k l 0 with
            | Some e => Some e
            | None => check_lists N k L' n'
            end
        end
    end.

  (* const IndexType k = neighbors[0].size(); *)
  Definition k_of (L : list (list nat)) : option nat :=
    match L with [] => None | l :: _ => Some (length l) end.

  (* ================= KLLE: linear_weight_matrix ================= *)
  (* gram_matrix(i, j) = kernel_value - dots(i) - dots(j) + kernel(nb_i, nb_j)  for j >= i;
     the strictly lower triangle of the per-thread buffer is never written *)
  Definition lle_gram_fill (kern : mat) (nb : nat -> nat) (i : nat) (prev : mat) : mat :=
    fun a b =>
      if Nat.leb a b
      then kern i i - kern i (nb a) - kern i (nb b) + kern (nb a) (nb b)
      else prev a b.

  Definition mtrace (k : nat) (M : mat) : F := sumn k (fun a => M a a).

  (* trace = gram_matrix.trace(); gram_matrix.diagonal().array() += trace_shift * trace; *)
  Definition lle_gram_shift (k : nat) (ts : F) (G : mat) : mat :=
    let tr := mtrace k G in
    fun a b => if Nat.eqb a b then G a b + ts * tr else G a b.

  Definition lle_gram (k : nat) (kern : mat) (ts : F) (nb : nat -> nat) (i : nat) (prev : mat) : mat :=
    lle_gram_shift k ts (lle_gram_fill kern nb i prev).

  Definition ones : vec := fun _ => 1.

  (* weights /= weights.sum(); *)
  Definition lle_normalize (k : nat) (x : vec) : vec :=
    let s := sumn k x in fun a => x a / s.

  (* weights = gram_matrix.selfadjointView<Eigen::Upper>().ldlt().solve(rhs) *)
  Definition lle_sample_weights (solve : nat -> mat -> vec -> option (list F))
             (k : nat) (kern : mat) (ts : F) (nb : nat -> nat) (i : nat) (prev : mat)
    : option (list F) :=
    match solve k (read_upper (lle_gram k kern ts nb i prev)) ones with
    | None => None
    | Some xl => Some (vtab k (lle_normalize k (vof xl)))
    end.

  (* weights of samples 0 .. n-1, or the first sample whose system could not be solved *)
  Fixpoint lle_all_weights (solve : nat -> mat -> vec -> option (list F))
           (k : nat) (kern : mat) (ts : F) (nbr : nat -> nat -> nat) (prev : nat -> mat) (n : nat)
    : result (list (list F)) :=
    match n with
    | O => Ok []
    | S n' =>
        match lle_all_weights solve k kern ts nbr prev n' with
        | Ok Ws =>
            match lle_sample_weights solve k kern ts (nbr n') n' (prev n') with
            | Some w => Ok (Ws ++ [w])
            | None => SolveFail n'
            end
        | e => e
        end
    end.

  (* the triplets pushed for sample i (same order as the code) *)
  Definition lle_block (i k : nat) (nb : nat -> nat) (w : vec) (shift : F) : list triplet :=
    (i, i, 1 + shift) ::
    flat_map (fun a =>
                (nb a, i, - w a) :: (i, nb a, - w a) ::
                map (fun b => (nb a, nb b, w a * w b)) (seq 0 k))
             (seq 0 k).

  (* `order` = the order in which the blocks reach sparse_triplets (seq 0 N single-threaded) *)
  Definition lle_triplets (order : list nat) (k : nat) (nbr : nat -> nat -> nat) (W : mat) (shift : F)
    : list triplet :=
    flat_map (fun i => lle_block i k (nbr i) (W i) shift) order.

  Definition lle_model (solve : nat -> mat -> vec -> option (list F))
             (N k : nat) (nbr : nat -> nat -> nat) (kern : mat) (shift ts : F) (prev : nat -> mat)
    : result (list triplet) :=
    match lle_all_weights solve k kern ts nbr prev N with
    | Ok Ws => Ok (lle_triplets (seq 0 N) k nbr (mof Ws) shift)
    | OOB s i n => OOB s i n
    | SolveFail i => SolveFail i
    end.

  (* ================= KLTSA: tangent_weight_matrix ================= *)
  (* gram_matrix(i,j) = gram_matrix(j,i) = kernel(nb_i, nb_j), j >= i  (whole buffer rewritten) *)
  Definition local_gram (kern : mat) (nb : nat -> nat) : mat :=
    read_upper (fun a b => kern (nb a) (nb b)).

  (* X.rightCols(d) of a matrix with k columns *)
  Definition right_cols (k d : nat) (E : mat) : mat := fun a c => E a (k - d + c)%nat.

  (* G = [ 1/sqrt(k) | eigenvectors().rightCols(d) ] *)
  Definition ltsa_G (rsk : F) (V : mat) : mat :=
    fun a c => match c with O => rsk | S c' => V a c' end.

  (* gram_matrix = G * G^T  (k x k, inner dimension d + 1) *)
  Definition ltsa_P (d : nat) (rsk : F) (V : mat) : mat :=
    mmul (S d) (ltsa_G rsk V) (mtrans (ltsa_G rsk V)).

  Definition ltsa_block (i k : nat) (nb : nat -> nat) (P : mat) (shift : F) : list triplet :=
    (i, i, shift) ::
    flat_map (fun a =>
                (nb a, nb a, 1) ::
                map (fun b => (nb a, nb b, - P a b)) (seq 0 k))
             (seq 0 k).

  Definition ltsa_triplets (order : list nat) (k : nat) (nbr : nat -> nat -> nat) (P : nat -> mat)
             (shift : F) : list triplet :=
    flat_map (fun i => ltsa_block i k (nbr i) (P i) shift) order.

  (* E i = solver.eigenvectors() for sample i (oracle answer; its contract refers to
     center_matrix k (local_gram kern (nbr i)), see Lle_Spec.eig_contract) *)
  Definition ltsa_model (N k d : nat) (nbr : nat -> nat -> nat) (E : nat -> mat) (rsk shift : F)
    : list triplet :=
    ltsa_triplets (seq 0 N) k nbr
                  (fun i => mof (mtab k k (ltsa_P d rsk (right_cols k d (E i))))) shift.

  (* the matrix handed to the local eigensolver (it reads the lower triangle) *)
  Definition local_centered_gram (k : nat) (kern : mat) (nb : nat -> nat) : mat :=
    read_lower (center_matrix k (local_gram kern nb)).

  (* the same table with the means computed once (what is executed;
     Lle_Proof_Ltsa.local_centered_gram_exec_ok) *)
  Definition local_centered_gram_exec (k : nat) (kern : mat) (nb : nat -> nat) : list (list F) :=
    let G := mof (mtab k k (local_gram kern nb)) in
    let cm := vof (vtab k (colmean k G)) in
    let g := grandmean k k G in
    mtab k k (read_lower (fun i j => G i j + g - cm j - cm i)).

  (* ================= HLLE: hessian_weight_matrix ================= *)
  Definition hlle_dp (d : nat) : nat := (d * (d + 1) / 2)%nat.
  Definition hlle_ncols (d : nat) : nat := (1 + d + hlle_dp d)%nat.

  (* shipped:  ct += ct + target_dimension - j;     repaired:  ct += target_dimension - j; *)
  Definition hlle_ct_next (shipped : bool) (d j ct : nat) : nat :=
    if shipped then (ct + (ct + d - j))%nat else (ct + (d - j))%nat.

  (* (j, p, column written) in loop order, for the n outer iterations starting at j with counter ct *)
  Fixpoint hlle_writes_from (shipped : bool) (d n j ct : nat) : list (nat * nat * nat) :=
    match n with
    | O => []
    | S n' =>
        map (fun p => (j, p, (ct + p + 1 + d)%nat)) (seq 0 (d - j))
            ++ hlle_writes_from shipped d n' (S j) (hlle_ct_next shipped d j ct)
    end.

  Definition hlle_writes (shipped : bool) (d : nat) : list (nat * nat * nat) :=
    hlle_writes_from shipped d d 0 0.

  (* first write that leaves the buffer *)
  Definition hlle_first_oob (shipped : bool) (d : nat) : option nat :=
    match filter (fun w => negb (Nat.ltb (snd w) (hlle_ncols d))) (hlle_writes shipped d) with
    | [] => None
    | w :: _ => Some (snd w)
    end.

  Definition set_col (M : mat) (c : nat) (v : vec) : mat :=
    fun a c' => if Nat.eqb c' c then v a else M a c'.

  (* Yi.col(0).setConstant(1.0); Yi.block(0,1,k,d) = eigenvectors().rightCols(d); rest = old buffer *)
  Definition hlle_Y0 (d : nat) (prev V : mat) : mat :=
    fun a c => match c with
               | O => 1
               | S c' => if Nat.ltb c' d then V a c' else prev a c
               end.

  (* Yi.col(col) = Yi.col(j+1).cwiseProduct(Yi.col(j+p+1)) *)
  Definition hlle_apply_write (Y : mat) (w : nat * nat * nat) : mat :=
    let '(j, p, col) := w in
    set_col Y col (fun a => Y a (j + 1)%nat * Y a (j + p + 1)%nat).

  Definition hlle_Yprod (shipped : bool) (d : nat) (prev V : mat) : mat :=
    fold_left hlle_apply_write (hlle_writes shipped d) (hlle_Y0 d prev V).

  (* ---- modified Gram-Schmidt exactly as written (columns are memoised lists) ---- *)
  Definition memo_vec (k : nat) (v : vec) : vec := vof (vtab k v).

  (* for (j < i) { r = col(i).dot(col(j)); col(i) -= r * col(j); } *)
  Definition mgs_orth (k : nat) (Q : list vec) (v : vec) : vec :=
    fold_left (fun v q => let r := dot k v q in memo_vec k (fun a => v a - r * q a)) Q v.

  (* norm = col(i).norm(); col(i) *= (1.f / norm); *)
  Definition mgs_normalize (sqrtf : F -> F) (k : nat) (v : vec) : vec :=
    let c := 1 / sqrtf (dot k v v) in memo_vec k (fun a => v a * c).

  (* Q = columns already processed (in order), cols = columns still to do *)
  Fixpoint mgs (sqrtf : F -> F) (k : nat) (Q cols : list vec) : list vec :=
    match cols with
    | [] => Q
    | v :: rest => mgs sqrtf k (Q ++ [mgs_normalize sqrtf k (mgs_orth k Q v)]) rest
    end.

  (* colsum = col.sum(); if (colsum > 1e-4) col /= colsum; *)
  Definition hlle_colsum_fix (gt_thr : F -> bool) (k : nat) (v : vec) : vec :=
    let s := sumn k v in
    if gt_thr s then memo_vec k (fun a => v a / s) else v.

  Definition cols_of (k n : nat) (Y : mat) : list vec :=
    map (fun c => memo_vec k (mcol Y c)) (seq 0 n).

  (* sum over a list of columns of the outer products  h h^T *)
  Definition outer_sum (H : list vec) : mat :=
    fun a b => fold_right (fun h acc => h a * h b + acc) 0 H.

  (* gram_matrix = Yi.rightCols(dp) * Yi.rightCols(dp)^T  after Gram-Schmidt and the colsum pass *)
  Definition hlle_local (sqrtf : F -> F) (gt_thr : F -> bool) (shipped : bool)
             (k d : nat) (prev V : mat) : mat :=
    let Y := hlle_Yprod shipped d prev V in
    let Q := mgs sqrtf k [] (cols_of k (hlle_ncols d) Y) in
    let H := map (hlle_colsum_fix gt_thr k) (skipn (1 + d) Q) in
    outer_sum H.

  Definition hlle_block (k : nat) (nb : nat -> nat) (P : mat) : list triplet :=
    flat_map (fun a => map (fun b => (nb a, nb b, P a b)) (seq 0 k)) (seq 0 k).

  Definition hlle_triplets (order : list nat) (k : nat) (nbr : nat -> nat -> nat) (P : nat -> mat)
    : list triplet :=
    flat_map (fun i => hlle_block k (nbr i) (P i)) order.

  Definition hlle_model (sqrtf : F -> F) (gt_thr : F -> bool) (shipped : bool)
             (N k d : nat) (nbr : nat -> nat -> nat) (E prev : nat -> mat) : list triplet :=
    hlle_triplets (seq 0 N) k nbr
      (fun i => mof (mtab k k (hlle_local sqrtf gt_thr shipped k d (prev i) (right_cols k d (E i))))).

  (* ---- the same local matrix without square roots (what is executed over Qc):
         u_c = unnormalised orthogonalised columns, H H^T = sum_c u_c u_c^T / (u_c . u_c);
         every u is stored with its squared norm u.u (computed once);
         Lle_Proof_Gs proves orthogonality / the annihilation of 1 and of the tangent
         coordinates, and the equality with hlle_local under the contracts of sqrtf and
         gt_thr ---- *)
  Definition mgs_orth_sf (k : nat) (U : list (vec * F)) (v : vec) : vec :=
    fold_left (fun v un => let r := dot k v (fst un) / snd un in
                           memo_vec k (fun a => v a - r * fst un a)) U v.

  Fixpoint mgs_sf (k : nat) (U : list (vec * F)) (cols : list vec) : list (vec * F) :=
    match cols with
    | [] => U
    | v :: rest => let u := mgs_orth_sf k U v in mgs_sf k (U ++ [(u, dot k u u)]) rest
    end.

  Definition outer_sum_sf (U : list (vec * F)) : mat :=
    fun a b => fold_right (fun un acc => fst un a * fst un b / snd un + acc) 0 U.

  (* all Gram-Schmidt columns of one neighbourhood, with their squared norms *)
  Definition hlle_gs_sf (shipped : bool) (k d : nat) (prev V : mat) : list (vec * F) :=
    mgs_sf k [] (cols_of k (hlle_ncols d) (hlle_Yprod shipped d prev V)).

  Definition hlle_local_of (d : nat) (U : list (vec * F)) : mat :=
    outer_sum_sf (skipn (1 + d) U).

  Definition hlle_local_sf (shipped : bool) (k d : nat) (prev V : mat) : mat :=
    hlle_local_of d (hlle_gs_sf shipped k d prev V).

  (* ---- variant "the Gram-Schmidt loop starts at column `start`" (wave 4): the first `start` columns are used as
         they are (taken to be mutually orthogonal), only the later ones are orthogonalised against everything
         before them.  start = 0 is hessian_weight_matrix as written (hlle_gs_sf false);  start = 1 + d is the
         rewrite "the constant column and the eigenvectors of the centred Gram matrix are already orthogonal",
         which is what tangent_weight_matrix assumes of its G.  Lle_Proof_GsSkip: the all-columns loop keeps 1
         and every tangent column in the local null space WHATEVER the tangent columns are; the variant that
         skips the first 1 + d columns does so only when those columns are mutually orthogonal, and is refuted
         on a legitimate answer of the local solver for collinear neighbours (eigenvectors of eigenvalue 0 need
         not be orthogonal to 1). ---- *)
  Definition with_norms (k : nat) (cols : list vec) : list (vec * F) :=
    map (fun v => (v, dot k v v)) cols.

  Definition hlle_gs_sf_from (start k d : nat) (prev V : mat) : list (vec * F) :=
    let cols := cols_of k (hlle_ncols d) (hlle_Yprod false d prev V) in
    mgs_sf k (with_norms k (firstn start cols)) (skipn start cols).

  Definition hlle_local_sf_from (start k d : nat) (prev V : mat) : mat :=
    hlle_local_of d (hlle_gs_sf_from start k d prev V).

  (* some column has squared norm 0: the C++ divides by a norm that is 0 up to rounding *)
  Definition gs_degenerate (fz : F -> bool) (U : list (vec * F)) : bool :=
    existsb (fun un => fz (snd un)) U.

  (* ================= KLTSA after repair F51 (tangent_weight_matrix, /repo d8ef193) =================
       G.rightCols(d) = eigenvectors().rightCols(d);
       for (i = 1; i < G.cols(); i++) {
           for (j = 0; j < i; j++) { r = G.col(i).dot(G.col(j)); G.col(i) -= r * G.col(j); }
           G.col(i) /= G.col(i).norm(); }
       gram_matrix = G * G^T;
     in the sqrt-free form of mgs_sf (G G^T = sum_c u_c u_c^T / (u_c . u_c)).  Column 0 = rsk * 1 is not
     touched by the loop and is USED AS A UNIT VECTOR (r is not divided by its squared norm, and it enters
     G G^T as rsk^2): it is stored with squared norm 1; that k * rsk^2 = 1 is the contract of the sqrt oracle.
     ltsa_P / ltsa_model above are the code BEFORE the repair (no loop): kept as the regression model
     (Lle_Proof_LtsaGs.ltsa_no_gs_refuted). *)
  Definition ltsa_gs_sf (k d : nat) (rsk : F) (V : mat) : list (vec * F) :=
    mgs_sf k [(memo_vec k (fun _ => rsk), 1)] (cols_of k d V).

  Definition ltsa_P_gs (k d : nat) (rsk : F) (V : mat) : mat :=
    outer_sum_sf (ltsa_gs_sf k d rsk V).

  (* local matrices G G^T (k x k tables) of samples 0 .. n-1, or the first sample whose loop divides by 0 *)
  Fixpoint ltsa_all_locals (fz : F -> bool) (k d : nat) (rsk : F) (V : nat -> mat) (n : nat)
    : result (list (list (list F))) :=
    match n with
    | O => Ok []
    | S n' =>
        match ltsa_all_locals fz k d rsk V n' with
        | Ok Ps =>
            let U := ltsa_gs_sf k d rsk (V n') in
            if gs_degenerate fz U then SolveFail n'
            else Ok (Ps ++ [mtab k k (outer_sum_sf U)])
        | e => e
        end
    end.

  Definition ltsa_model_gs (fz : F -> bool) (N k d : nat) (nbr : nat -> nat -> nat) (E : nat -> mat)
             (rsk shift : F) : result (list triplet) :=
    match ltsa_all_locals fz k d rsk (fun i => right_cols k d (E i)) N with
    | Ok Ps => Ok (ltsa_triplets (seq 0 N) k nbr (fun i => mof (nth i Ps [])) shift)
    | OOB s i n => OOB s i n
    | SolveFail i => SolveFail i
    end.

  (* local matrices (k x k tables) of samples 0 .. n-1, or the first degenerate sample *)
  Fixpoint hlle_all_locals (fz : F -> bool) (shipped : bool) (k d : nat) (V prev : nat -> mat) (n : nat)
    : result (list (list (list F))) :=
    match n with
    | O => Ok []
    | S n' =>
        match hlle_all_locals fz shipped k d V prev n' with
        | Ok Ps =>
            let U := hlle_gs_sf shipped k d (prev n') (V n') in
            if gs_degenerate fz U then SolveFail n'
            else Ok (Ps ++ [mtab k k (hlle_local_of d U)])
        | e => e
        end
    end.

  Definition hlle_model_sf (fz : F -> bool) (shipped : bool) (N k d : nat) (nbr : nat -> nat -> nat)
             (V prev : nat -> mat) : result (list triplet) :=
    match hlle_all_locals fz shipped k d V prev N with
    | Ok Ps => Ok (hlle_triplets (seq 0 N) k nbr (fun i => mof (nth i Ps [])))
    | OOB s i n => OOB s i n
    | SolveFail i => SolveFail i
    end.

  (* ================= eigendecomposition_impl_dense, SmallestEigenvalues ================= *)
  (* dense_wm = wm; dense_wm += dense_wm^T; dense_wm /= 2  ==  Mat_Core.sym_avg;
     eigenvectors().leftCols(d + skip).rightCols(d)  ==  columns skip .. skip+d-1 *)
  Definition left_cols (E : mat) : mat := E.
  Definition select_smallest (skip d : nat) (E : mat) : mat :=
    right_cols (d + skip) d (left_cols E).

  (* ================= checked entry points (what the correspondence runs) ================= *)
  Definition lle_run (solve : nat -> mat -> vec -> option (list F))
             (N : nat) (L : list (list nat)) (kern : mat) (shift ts : F) : result (list triplet) :=
    match k_of L with
    | None => OOB site_neighbors0 0 0
    | Some k =>
        match check_lists N k L N with
        | Some (s, i, n) => OOB s i n
        | None => lle_model solve N k (nbrs_of L) kern shift ts (fun _ _ _ => 0)
        end
    end.

  Definition ltsa_run (N d : nat) (L : list (list nat)) (E : nat -> mat) (rsk shift : F)
    : result (list triplet) :=
    match k_of L with
    | None => OOB site_neighbors0 0 0
    | Some k =>
        match check_lists N k L N with
        | Some (s, i, n) => OOB s i n
        | None =>
            if Nat.leb d k then Ok (ltsa_model N k d (nbrs_of L) E rsk shift)
            else OOB site_right_cols d k
        end
    end.

  (* the routine as it is after repair F51 *)
  Definition ltsa_run_gs (fz : F -> bool) (N d : nat) (L : list (list nat)) (E : nat -> mat) (rsk shift : F)
    : result (list triplet) :=
    match k_of L with
    | None => OOB site_neighbors0 0 0
    | Some k =>
        match check_lists N k L N with
        | Some (s, i, n) => OOB s i n
        | None =>
            if Nat.leb d k then ltsa_model_gs fz N k d (nbrs_of L) E rsk shift
            else OOB site_right_cols d k
        end
    end.

  (* V i = the k x d tangent coordinates of sample i (eigenvectors().rightCols(d), or any basis
     of the same space on the exact stream) *)
  Definition hlle_run_sf (fz : F -> bool) (shipped : bool) (N d : nat) (L : list (list nat))
             (V : nat -> mat) : result (list triplet) :=
    match k_of L with
    | None => OOB site_neighbors0 0 0
    | Some k =>
        match check_lists N k L N with
        | Some (s, i, n) => OOB s i n
        | None =>
            if Nat.leb d k then
              match hlle_first_oob shipped d with
              | Some c => OOB site_hlle_col c (hlle_ncols d)
              | None => hlle_model_sf fz shipped N k d (nbrs_of L) V (fun _ _ _ => 0)
              end
            else OOB site_right_cols d k
        end
    end.
End LleModel.

(* ====================================================================== *)
(*  A certifying linear solver (stands for ldlt().solve in the executable  *)
(*  instance): Gauss-Jordan elimination with first-non-zero pivoting on    *)
(*  the augmented rows, followed by an explicit CHECK  A x = b ; the       *)
(*  answer is returned only when the check succeeds, so                    *)
(*  `solve_checked k A b = Some x -> A x = b` needs no reasoning about the *)
(*  elimination itself (Lle_Proof.solve_checked_sound).                    *)
(* ====================================================================== *)
Section Gauss.
  Context {F : Type} {Fo : FieldOps F}.
  Variable feqb : F -> F -> bool.
  Local Open Scope F_scope.
  Local Notation vec := (Mat_Core.vec F).
  Local Notation mat := (Mat_Core.mat F).

  Fixpoint row_sub (r p : list F) (f : F) : list F :=
    match r, p with
    | x :: r', y :: p' => (x - f * y) :: row_sub r' p' f
    | _, _ => []
    end.

  Fixpoint find_pivot (c : nat) (rows : list (list F)) : option (list F * list (list F)) :=
    match rows with
    | [] => None
    | r :: rs =>
        if feqb (nth c r 0) 0 then
          match find_pivot c rs with
          | Some (p, rest) => Some (p, r :: rest)
          | None => None
          end
        else Some (r, rs)
    end.

  Fixpoint gj_loop (n c : nat) (done todo : list (list F)) : option (list (list F)) :=
    match n with
    | O => Some done
    | S n' =>
        match find_pivot c todo with
        | None => None
        | Some (p, rest) =>
            let pv := nth c p 0 in
            let p' := map (fun x => x / pv) p in
            let elim := fun r => row_sub r p' (nth c r 0) in
            gj_loop n' (S c) (map elim done ++ [p']) (map elim rest)
        end
    end.

  Definition gauss (k : nat) (AL : list (list F)) (bl : list F) : option (list F) :=
    match gj_loop k 0 [] (map (fun rb => fst rb ++ [snd rb]) (combine AL bl)) with
    | Some done => Some (map (fun r => nth k r 0) done)
    | None => None
    end.

  Definition solve_checked (k : nat) (A : mat) (b : vec) : option (list F) :=
    let AL := mtab k k A in
    match gauss k AL (vtab k b) with
    | None => None
    | Some x =>
        if (Nat.eqb (length x) k &&
            forallb (fun i => feqb (mv k (mof AL) (vof x) i) (b i)) (seq 0 k))%bool
        then Some x else None
    end.
End Gauss.
