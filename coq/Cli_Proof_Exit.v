(* ====================================================================== *)
(*  Cli_Proof_Exit.v — complete characterisation of the exit status before *)
(*  the library is called:  spec_decide a = Exit 1  IFF  cxxopts rejects   *)
(*  the command line (unknown option / value of the wrong type) or --help  *)
(*  is given or one of the listed invalid inputs is present.               *)
(*  Key lemma: when options.parse() accepts the command line, every value  *)
(*  read back with as<T>() has type T (typed_str, typed_int, typed_dbl), which needs the   *)
(*  spellings of the option table to be unambiguous (finite check).        *)
(* ====================================================================== *)
From Coq Require Import String Ascii List ZArith QArith Bool Arith Lia.
From TK Require Import Cli_Model Cli_Spec Cli_Proof_Decide.
Import ListNotations.
Local Close Scope Q_scope.
Local Open Scope string_scope.

Lemma mem_In : forall k l, mem k l = true <-> In k l.
Proof.
  induction l as [|x l IH]; cbn; [split; [discriminate|tauto]|].
  rewrite orb_true_iff, IH, String.eqb_eq. split; intros [H|H]; auto.
Qed.

Lemma given_some : forall names a v, given names a = Some v ->
  exists n, In (n, v) a /\ mem n names = true.
Proof.
  induction a as [|[n w] a IH]; intros v H; [discriminate H|].
  cbn in H. destruct (given names a) as [u|] eqn:E.
  - injection H as <-. destruct (IH u eq_refl) as [n' [Hin Hm]]. exists n'. split; [right; exact Hin|exact Hm].
  - destruct (mem n names) eqn:Em; [|discriminate H]. injection H as <-.
    exists n. split; [left; reflexivity|exact Em].
Qed.

(* every spelling leads back to a declaration of the same kind (flag / string / int / real) *)
Definition unambiguous (ds : list odecl) : bool :=
  forallb (fun d => forallb (fun n => match find_decl n ds with
                                      | Some d' => match o_default d', o_default d with
                                                      | DFlag, DFlag | DStr _, DStr _ | DInt _, DInt _
                                                      | DDbl _, DDbl _ => true
                                                      | _, _ => false
                                                      end
                                      | None => false
                                      end) (o_names d)) ds.

Lemma doc_unambiguous : unambiguous doc_options = true.
Proof. vm_compute. reflexivity. Qed.

Definition kind_ok (dflt : odefault) (v : aval) : bool :=
  match dflt, v with
  | DFlag, AFlag => true
  | DStr _, AVal _ _ _ => true
  | DInt _, AVal _ (Some _) _ => true
  | DDbl _, AVal _ _ (Some _) => true
  | _, _ => false
  end.

Lemma same_kind : forall d1 d2 v,
  match d1, d2 with
  | DFlag, DFlag | DStr _, DStr _ | DInt _, DInt _ | DDbl _, DDbl _ => true
  | _, _ => false
  end = true -> kind_ok d1 v = true -> kind_ok d2 v = true.
Proof. intros [| | |] [| | |] v H K; try discriminate H; exact K. Qed.

Lemma args_ok_given : forall ds a d v,
  unambiguous ds = true -> args_ok ds a = true -> In d ds ->
  given (o_names d) a = Some v -> kind_ok (o_default d) v = true.
Proof.
  intros ds a d v Hun Hok Hd Hg.
  destruct (given_some _ _ _ Hg) as [n [Hin Hm]].
  unfold args_ok in Hok. rewrite forallb_forall in Hok. specialize (Hok _ Hin).
  unfold arg_ok in Hok. cbn [fst snd] in Hok.
  unfold unambiguous in Hun. rewrite forallb_forall in Hun. specialize (Hun d Hd).
  rewrite forallb_forall in Hun. apply mem_In in Hm. specialize (Hun n Hm).
  destruct (find_decl n ds) as [d'|]; [|discriminate Hok].
  pose proof Hun as Hk.
  apply (same_kind (o_default d') (o_default d) v Hk).
  unfold kind_ok. destruct (o_default d'); destruct v as [|raw [zz|] [qq|]]; try discriminate Hok; reflexivity.
Qed.

Section Typed.
  Variable a : args.
  Hypothesis Hok : args_ok doc_options a = true.

  Lemma typed_str : forall names dflt, In {| o_names := names; o_default := DStr dflt |} doc_options ->
    exists s, str_of (view_of a) names dflt = Some s.
  Proof.
    intros names dflt Hin. unfold str_of, view_of.
    destruct (given names a) as [v|] eqn:E; [|eauto].
    pose proof (args_ok_given doc_options a _ v doc_unambiguous Hok Hin E) as K. cbn in K.
    destruct v; [discriminate K|eauto].
  Qed.

  Lemma typed_int : forall names dflt, In {| o_names := names; o_default := DInt dflt |} doc_options ->
    exists z, int_of (view_of a) names dflt = Some z.
  Proof.
    intros names dflt Hin. unfold int_of, view_of.
    destruct (given names a) as [v|] eqn:E; [|eauto].
    pose proof (args_ok_given doc_options a _ v doc_unambiguous Hok Hin E) as K. cbn in K.
    destruct v as [|raw [z|] q]; try discriminate K. eauto.
  Qed.

  Lemma typed_dbl : forall names dflt dflt', In {| o_names := names; o_default := DDbl dflt |} doc_options ->
    exists q, dbl_of (view_of a) names dflt' = Some q.
  Proof.
    intros names dflt dflt' Hin. unfold dbl_of, view_of.
    destruct (given names a) as [v|] eqn:E; [|eauto].
    pose proof (args_ok_given doc_options a _ v doc_unambiguous Hok Hin E) as K. cbn in K.
    destruct v as [|raw z [q|]]; try discriminate K. eauto.
  Qed.
End Typed.

Ltac in_doc := cbn; repeat (first [left; reflexivity | right]).

Definition bad_strategy (g : view) : Prop :=
  exists s, str_of g ["cs"; "computation-strategy"] "cpu" = Some s /\
            lookup_name s (doc_map "COMPUTATION_STRATEGIES") = None.

Lemma cmpZ_CLe_true : forall x k, cmpZ CLe x k = true -> (x <= k)%Z.
Proof. unfold cmpZ. intros x k H. apply Z.leb_le. exact H. Qed.

Lemma cmpZ_CLt_true : forall x k, cmpZ CLt x k = true -> (x < k)%Z.
Proof. unfold cmpZ. intros x k H. apply Z.ltb_lt. exact H. Qed.

Lemma cmpQ_CLt_true : forall q, cmpQ CLt q (0 # 1) = true -> (q < 0)%Q.
Proof.
  unfold cmpQ, Qltb. intros q H. apply negb_true_iff in H.
  apply Qnot_le_lt. intro Hle. apply Qle_bool_iff in Hle. congruence.
Qed.

Ltac use_typed_str a Hok g names dflt H :=
  let s := fresh "s" in let Hs := fresh "Hs" in
  destruct (typed_str a Hok names dflt ltac:(in_doc)) as [s Hs]; fold g in Hs; rewrite Hs in H.
Ltac use_typed_int a Hok g names dflt H :=
  let z := fresh "z" in let Hz := fresh "Hz" in
  destruct (typed_int a Hok names dflt ltac:(in_doc)) as [z Hz]; fold g in Hz; rewrite Hz in H.
Ltac use_typed_dbl a Hok g names dflt H :=
  let q := fresh "q" in let Hq := fresh "Hq" in
  destruct (typed_dbl a Hok names dflt dflt ltac:(in_doc)) as [q Hq]; fold g in Hq; rewrite Hq in H.

(* the only reasons for a non-zero status before the library is called *)
Theorem spec_exit_only_if : forall a, spec_decide a = Exit 1%Z ->
  args_ok doc_options a = false \/ flag (view_of a) ["h"; "help"] = true \/
  bad_input (view_of a) \/ bad_strategy (view_of a).
Proof.
  intros a H. unfold spec_decide in H.
  destruct (args_ok doc_options a) eqn:Hok; [|left; reflexivity]. right.
  set (g := view_of a) in *.
  unfold spec_view in H. cbn [negb] in H.
  destruct (flag g ["h"; "help"]) eqn:Eh; [left; reflexivity|]. right.
  destruct (typed_str a Hok ["m"; "method"] "locally_linear_embedding" ltac:(in_doc)) as [ms Hms].
  fold g in Hms. rewrite Hms in H.
  destruct (lookup_name ms (doc_map "DIMENSION_REDUCTION_METHODS")) eqn:E1;
    [|left; left; exists ms; auto].
  destruct (typed_str a Hok ["nm"; "neighbors-method"] "covertree" ltac:(in_doc)) as [ns Hns].
  fold g in Hns. rewrite Hns in H.
  destruct (lookup_name ns (doc_map "NEIGHBORS_METHODS")) eqn:E2;
    [|left; right; left; exists ns; auto].
  destruct (typed_str a Hok ["em"; "eigen-method"] "dense" ltac:(in_doc)) as [es Hes].
  fold g in Hes. rewrite Hes in H.
  destruct (lookup_name es (doc_map "EIGEN_METHODS")) eqn:E3;
    [|left; right; right; left; exists es; auto].
  destruct (typed_str a Hok ["cs"; "computation-strategy"] "cpu" ltac:(in_doc)) as [cs Hcs].
  fold g in Hcs. rewrite Hcs in H.
  destruct (lookup_name cs (doc_map "COMPUTATION_STRATEGIES")) eqn:E4;
    [|right; exists cs; auto].
  destruct (typed_int a Hok ["td"; "target-dimension"] 2%Z ltac:(in_doc)) as [td Htd].
  fold g in Htd. rewrite Htd in H.
  destruct (cmpZ CLe td 0) eqn:C1;
    [left; right; right; right; left; exists td; split; [exact Htd|apply cmpZ_CLe_true; exact C1]|].
  destruct (typed_int a Hok ["k"; "num-neighbors"] 10%Z ltac:(in_doc)) as [k Hk].
  fold g in Hk. rewrite Hk in H.
  destruct (cmpZ CLt k 3) eqn:C2;
    [left; right; right; right; right; left; exists k; split; [exact Hk|apply cmpZ_CLt_true; exact C2]|].
  destruct (typed_dbl a Hok ["gw"; "gaussian-width"] (1 # 1) (1 # 1) ltac:(in_doc)) as [gw Hgw].
  fold g in Hgw. rewrite Hgw in H.
  destruct (cmpQ CLt gw (0 # 1)) eqn:C3;
    [left; right; right; right; right; right; left; exists gw; split; [exact Hgw|apply cmpQ_CLt_true; exact C3]|].
  destruct (typed_int a Hok ["timesteps"] 1%Z ltac:(in_doc)) as [ts Hts].
  fold g in Hts. rewrite Hts in H.
  destruct (cmpZ CLt ts 0) eqn:C4;
    [left; right; right; right; right; right; right; exists ts; split; [exact Hts|apply cmpZ_CLt_true; exact C4]|].
  exfalso.
  use_typed_dbl a Hok g ["fa-epsilon"] (1 # 100000)%Q H.
  use_typed_dbl a Hok g ["landmark-ratio"] (1 # 5)%Q H.
  use_typed_int a Hok g ["max-iters"] 1000%Z H.
  use_typed_dbl a Hok g ["eigenshift"] (1 # 1000000000)%Q H.
  use_typed_dbl a Hok g ["sne-perplexity"] (30 # 1)%Q H.
  use_typed_dbl a Hok g ["sne-theta"] (1 # 2)%Q H.
  use_typed_int a Hok g ["spe-num-updates"] 100%Z H.
  use_typed_dbl a Hok g ["spe-tolerance"] (1 # 100000)%Q H.
  use_typed_dbl a Hok g ["squishing-rate"] (99 # 100)%Q H.
  use_typed_str a Hok g ["d"; "delimiter"] "," H.
  use_typed_str a Hok g ["i"; "input-file"] "/dev/stdin" H.
  use_typed_str a Hok g ["o"; "output-file"] "/dev/stdout" H.
  use_typed_str a Hok g ["opmat"; "output-projection-matrix-file"] "/dev/null" H.
  use_typed_str a Hok g ["opmean"; "output-projection-mean-file"] "/dev/null" H.
  discriminate H.
Qed.

Theorem spec_exit_strategy : forall ok g, bad_strategy g -> spec_view ok g = Exit 1%Z.
Proof.
  intros ok g [s [H1 H2]].
  destruct (spec_total ok g) as [H|[ps [io H]]]; [exact H|].
  exfalso. apply spec_run_inv in H.
  destruct (rf_cs _ _ _ _ H) as [s' [m [A [B _]]]].
  rewrite H1 in A. injection A as <-. congruence.
Qed.

Theorem spec_exit_iff : forall a,
  spec_decide a = Exit 1%Z <->
  (args_ok doc_options a = false \/ flag (view_of a) ["h"; "help"] = true \/
   bad_input (view_of a) \/ bad_strategy (view_of a)).
Proof.
  intro a. split; [apply spec_exit_only_if|].
  unfold spec_decide. intros [H|[H|[H|H]]].
  - rewrite H. reflexivity.
  - unfold spec_view. rewrite H. destruct (args_ok doc_options a); reflexivity.
  - apply spec_exit_codes. exact H.
  - apply spec_exit_strategy. exact H.
Qed.
