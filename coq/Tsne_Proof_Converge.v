(* Tsne_Proof_Converge.v — the perplexity search terminates with found = true within an explicit
   number of steps, for every exp/log oracle under which the row entropy is a NON-INCREASING
   function of beta that stays within tol of log(perplexity) on some interval [lo, hi], 0 < lo.

   The search of tsne.hpp (both overloads) is: start at beta = 1; while the entropy is too high
   double beta (too low: halve it) until the target is bracketed; then bisect.  With
       h(beta) := e_H (evaluate self dd beta)          (the H the C++ computes for this beta)
   the hypotheses are
       antitone : 0 < b1 <= b2 -> h b2 <= h b1          (entropy decreases as the kernel sharpens)
       window   : lo <= b <= hi -> |h b - log perp| < tol
   and nothing else is assumed about exp and log.  For the true exp/log both are facts of analysis
   (H is continuous and strictly decreasing from log K to log #{nearest}); they are NOT proved
   here, they are the oracle contract, exactly as C++'s exp/log are trusted.  Under them:

     perp_search_converges: if  lo <= 2^k,  1 <= hi * 2^k,  lo <= (hi - lo) * 2^(nb+1)  and
       k + nb + 4 <= 200  then the search returns found = true
   (k doublings/halvings reach the window's octave, nb+1 bisection steps shrink a bracket of width
   < lo below the width hi - lo of the window; the midpoint of a bracket that contains the window
   and is at most twice as wide lies inside it).  With perplexity_exit this gives: the row left in
   memory has entropy within tol of log(perplexity).  *)
From Coq Require Import List Arith Bool ZArith QArith Lqa Lia.
From TK Require Import Tsne_Model Tsne_Spec Tsne_Proof_Perp.
Import ListNotations.
Local Open Scope Q_scope.

Fixpoint p2 (n : nat) : Q := match n with O => 1 | S k => 2 * p2 k end.

Lemma p2_pos : forall n, 0 < p2 n.
Proof. induction n as [|n IH]; cbn [p2]; lra. Qed.

Section Converge.
  Variable expf logf : Q -> Q.
  Variable dbl_min tol : Q.
  Variable self : option nat.
  Variable dd : list Q.
  Variable perp : Q.

  Notation evaluate := (evaluate expf logf dbl_min).
  Notation good := (good tol).
  Notation perp_loop := (perp_loop expf logf dbl_min tol).
  Notation perp_search := (perp_search expf logf dbl_min tol).

  Definition hfun (beta : Q) : Q := e_H (evaluate self dd beta).

  Variable lo hi : Q.
  Hypothesis Htol : 0 < tol.
  Hypothesis Hlo : 0 < lo.
  Hypothesis Hlohi : lo <= hi.
  Hypothesis Hanti : forall b1 b2, 0 < b1 -> b1 <= b2 -> hfun b2 <= hfun b1.
  Hypothesis Hwin : forall b, lo <= b -> b <= hi -> Qabs_lt (hfun b - logf perp) tol.

  Lemma good_iff : forall beta,
    good (logf perp) (evaluate self dd beta) = true <-> Qabs_lt (hfun beta - logf perp) tol.
  Proof. intros beta. apply good_spec. Qed.

  (* a rejected beta lies outside the window *)
  Lemma rejected_outside : forall beta,
    good (logf perp) (evaluate self dd beta) = false -> beta < lo \/ hi < beta.
  Proof.
    intros beta G. destruct (Qlt_le_dec beta lo) as [L|L]; [now left|].
    destruct (Qlt_le_dec hi beta) as [R|R]; [now right|].
    exfalso. pose proof (proj2 (good_iff beta) (Hwin beta L R)) as T. congruence.
  Qed.

  (* below the window a rejected beta has Hdiff > 0: the code moves up *)
  Lemma below_moves_up : forall beta, 0 < beta -> beta < lo ->
    good (logf perp) (evaluate self dd beta) = false ->
    Qltb 0 (e_H (evaluate self dd beta) - logf perp) = true.
  Proof.
    intros beta Hp Hb G. apply Qltb_true. fold (hfun beta).
    assert (A : hfun lo <= hfun beta) by (apply Hanti; [exact Hp | lra]).
    destruct (Hwin lo ltac:(lra) Hlohi) as (_ & W).
    destruct (Qlt_le_dec (hfun beta - logf perp) tol) as [C|C]; [|lra].
    exfalso. assert (T : good (logf perp) (evaluate self dd beta) = true)
      by (apply good_iff; split; [exact C | lra]). congruence.
  Qed.

  (* above the window a rejected beta has Hdiff <= 0: the code moves down *)
  Lemma above_moves_down : forall beta, hi < beta ->
    good (logf perp) (evaluate self dd beta) = false ->
    Qltb 0 (e_H (evaluate self dd beta) - logf perp) = false.
  Proof.
    intros beta Hb G. apply Qltb_false. fold (hfun beta).
    assert (A : hfun beta <= hfun hi) by (apply Hanti; lra).
    destruct (Hwin hi Hlohi ltac:(lra)) as (W & _).
    destruct (Qlt_le_dec (- (hfun beta - logf perp)) tol) as [C|C]; [|lra].
    exfalso. assert (T : good (logf perp) (evaluate self dd beta) = true)
      by (apply good_iff; split; [lra | exact C]). congruence.
  Qed.

  (* ---------- bisection phase ---------- *)
  Lemma bis_found : forall n fuel beta a b last,
    (n < fuel)%nat -> 0 < a -> a < lo -> hi < b -> beta == (a + b) / 2 ->
    b - a <= (hi - lo) * p2 (S n) ->
    fst (perp_loop fuel self dd perp (beta, Some a, Some b) last) = true.
  Proof.
    induction n as [|n IH]; intros fuel beta a b last Hf Ha Hal Hbh Hm Hw;
      (destruct fuel as [|f]; [lia|]); cbn [Tsne_Model.perp_loop]; cbv zeta; cbn [fst];
      destruct (good (logf perp) (evaluate self dd beta)) eqn:G; try reflexivity;
      assert (Hm2 : 2 * beta == a + b) by (rewrite Hm; field);
      assert (Hbeta : 0 < beta) by lra;
      destruct (rejected_outside beta G) as [L|R].
    - exfalso. cbn [p2] in Hw. lra.
    - exfalso. cbn [p2] in Hw. lra.
    - unfold next. rewrite (below_moves_up beta Hbeta L G).
      apply IH; [lia | exact Hbeta | exact L | exact Hbh | reflexivity |].
      change (p2 (S (S n))) with (2 * p2 (S n)) in Hw. lra.
    - unfold next. rewrite (above_moves_down beta R G).
      apply IH; [lia | exact Ha | exact Hal | exact R | field |].
      change (p2 (S (S n))) with (2 * p2 (S n)) in Hw. lra.
  Qed.

  Variable nb : nat.
  Hypothesis Hnb : lo <= (hi - lo) * p2 (S nb).

  (* ---------- doubling phase: (beta, Some a, None) with beta = 2a, a below the window ---------- *)
  Lemma up_found : forall k fuel beta a last,
    (k + nb + 2 <= fuel)%nat -> 0 < a -> a < lo -> beta == 2 * a -> lo <= beta * p2 k ->
    fst (perp_loop fuel self dd perp (beta, Some a, None) last) = true.
  Proof.
    induction k as [|k IH]; intros fuel beta a last Hf Ha Hal Hm Hk;
      (destruct fuel as [|f]; [lia|]); cbn [Tsne_Model.perp_loop]; cbv zeta; cbn [fst];
      destruct (good (logf perp) (evaluate self dd beta)) eqn:G; try reflexivity;
      assert (Hbeta : 0 < beta) by lra;
      destruct (rejected_outside beta G) as [L|R].
    - exfalso. cbn [p2] in Hk. lra.
    - unfold next. rewrite (above_moves_down beta R G).
      apply (bis_found nb); [lia | exact Ha | exact Hal | exact R | field |]. lra.
    - unfold next. rewrite (below_moves_up beta Hbeta L G).
      apply IH; [lia | exact Hbeta | exact L | ring |]. cbn [p2] in Hk. lra.
    - unfold next. rewrite (above_moves_down beta R G).
      apply (bis_found nb); [lia | exact Ha | exact Hal | exact R | field |]. lra.
  Qed.

  (* ---------- halving phase: (beta, None, Some b) with beta = b/2, b above the window ---------- *)
  Lemma down_found : forall k fuel beta b last,
    (k + nb + 2 <= fuel)%nat -> hi < b -> beta == b / 2 -> beta <= hi * p2 k ->
    fst (perp_loop fuel self dd perp (beta, None, Some b) last) = true.
  Proof.
    induction k as [|k IH]; intros fuel beta b last Hf Hbh Hm Hk;
      (destruct fuel as [|f]; [lia|]); cbn [Tsne_Model.perp_loop]; cbv zeta; cbn [fst];
      destruct (good (logf perp) (evaluate self dd beta)) eqn:G; try reflexivity;
      assert (Hm2 : 2 * beta == b) by (rewrite Hm; field);
      assert (Hbeta : 0 < beta) by lra;
      destruct (rejected_outside beta G) as [L|R].
    - unfold next. rewrite (below_moves_up beta Hbeta L G).
      apply (bis_found nb); [lia | exact Hbeta | exact L | exact Hbh | reflexivity |]. lra.
    - exfalso. cbn [p2] in Hk. lra.
    - unfold next. rewrite (below_moves_up beta Hbeta L G).
      apply (bis_found nb); [lia | exact Hbeta | exact L | exact Hbh | reflexivity |]. lra.
    - unfold next. rewrite (above_moves_down beta R G).
      apply IH; [lia | exact R | reflexivity |]. cbn [p2] in Hk.
      apply Qle_shift_div_r; lra.
  Qed.

  Theorem perp_loop_converges : forall k fuel,
    lo <= p2 k -> 1 <= hi * p2 k -> (k + nb + 4 <= fuel)%nat ->
    fst (perp_loop fuel self dd perp (1, None, None) None) = true.
  Proof.
    intros k fuel Hup Hdown Hf. destruct fuel as [|f]; [lia|].
    cbn [Tsne_Model.perp_loop]; cbv zeta; cbn [fst].
    destruct (good (logf perp) (evaluate self dd 1)) eqn:G; [reflexivity|].
    destruct (rejected_outside 1 G) as [L|R].
    - unfold next. rewrite (below_moves_up 1 ltac:(lra) L G).
      apply (up_found k); [lia | lra | exact L | ring |]. pose proof (p2_pos k). lra.
    - unfold next. rewrite (above_moves_down 1 R G).
      apply (down_found k); [lia | exact R | reflexivity |].
      setoid_replace (1 / 2) with (1 # 2) by reflexivity. lra.
  Qed.

  Theorem perp_search_converges_thm : forall k,
    lo <= p2 k -> 1 <= hi * p2 k -> (k + nb + 4 <= 200)%nat ->
    exists ev, perp_search self dd perp = (true, Some ev) /\
               (exists beta, ev = evaluate self dd beta) /\ entropy_within logf tol perp ev.
  Proof.
    intros k Hup Hdown Hf.
    pose proof (perp_loop_converges k 200 Hup Hdown Hf) as Hfound.
    destruct (perp_search_some expf logf dbl_min tol self dd perp) as (b & ev & beta & E & Hev).
    unfold Tsne_Model.perp_search in *. rewrite E in Hfound. cbn [fst] in Hfound. subst b.
    exists ev. split; [exact E|].
    exact (perplexity_exit_thm expf logf dbl_min tol self dd perp ev E).
  Qed.
End Converge.

(* ---------- non-vacuity: oracles and a row for which every hypothesis holds and the search needs
   doubling AND bisection steps.  exp = 1 (flat kernel), log 2 = 0, log 5 = -3, "distances" -1, -1
   (the theorem is oracle-generic; no sign is assumed of dd): h(beta) = -beta, target -3, tol = 1/4:
   window [3 - 1/8, 3 + 1/8].  The search visits 1, 2, 4, 3. *)
Definition cv_logf (x : Q) : Q := if Qeq_bool x 2 then 0 else - (3).

Lemma cv_h : forall beta, hfun (fun _ => 1) cv_logf 0 None [- (1); - (1)] beta == - beta.
Proof.
  intros beta. unfold hfun, evaluate. cbn [e_H kernel_row kernel_from combine fold_left fst snd].
  assert (E : 0 + 1 + 1 == 2) by reflexivity.
  assert (L : cv_logf (0 + 1 + 1) = 0) by reflexivity. rewrite L. field.
Qed.

Example perp_search_converges_nonvacuous :
  0 < (1 # 4) /\ 0 < 3 - (1 # 8) /\ 3 - (1 # 8) <= 3 + (1 # 8) /\
  (forall b1 b2, 0 < b1 -> b1 <= b2 ->
     hfun (fun _ => 1) cv_logf 0 None [- (1); - (1)] b2 <= hfun (fun _ => 1) cv_logf 0 None [- (1); - (1)] b1) /\
  (forall b, 3 - (1 # 8) <= b -> b <= 3 + (1 # 8) ->
     Qabs_lt (hfun (fun _ => 1) cv_logf 0 None [- (1); - (1)] b - cv_logf 5) (1 # 4)) /\
  3 - (1 # 8) <= ((3 + (1 # 8)) - (3 - (1 # 8))) * p2 (S 3) /\
  3 - (1 # 8) <= p2 2 /\ 1 <= (3 + (1 # 8)) * p2 2 /\ (2 + 3 + 4 <= 200)%nat /\
  fst (perp_search (fun _ => 1) cv_logf 0 (1 # 4) None [- (1); - (1)] 5) = true.
Proof.
  split; [reflexivity|]. split; [reflexivity|]. split; [discriminate|].
  split; [intros b1 b2 _ H; pose proof (cv_h b1); pose proof (cv_h b2); lra|].
  split; [intros b H1 H2; pose proof (cv_h b); change (cv_logf 5) with (- (3)); unfold Qabs_lt; lra|].
  split; [vm_compute; discriminate|]. split; [vm_compute; discriminate|]. split; [vm_compute; discriminate|].
  split; [lia|]. vm_compute. reflexivity.
Qed.
