(* ====================================================================== *)
(*  Equiv_Proof_Ties.v — C12, wave 3.                                      *)
(*  (1) Which of several EQUALLY DISTANT candidates becomes the k-th       *)
(*      neighbour.  The cover-tree wrapper of neighbors.hpp receives the   *)
(*      candidates of a query as an UNORDERED set (arrival order = order   *)
(*      of the tree traversal, which depends on the tree's levels, i.e.    *)
(*      on the scale of the data and on the sample order) and keeps        *)
(*          the first k of the candidates sorted by (distance, index).     *)
(*      `tie_select` is that selection on pairs (distance, index) over Z   *)
(*      (finite sets of dyadic doubles scale to integers).  It is a        *)
(*      function of the SET of pairs: independent of the arrival order     *)
(*      (tie_select_order_independent) and unchanged when the distances    *)
(*      are mapped by any strictly increasing function, in particular      *)
(*      multiplied by c > 0 (tie_select_monotone / tie_select_scale).      *)
(*      A selection that orders by distance ONLY and leaves equally        *)
(*      distant candidates in arrival order (what std::nth_element with    *)
(*      distances_comparator does to a two-element tie) is not:            *)
(*      tie_select_arrival_refuted.                                        *)
(*  (2) compute_covariance_matrix accumulated from CENTRED vectors         *)
(*      (fixes/F49) is the same matrix as the expanded formula             *)
(*      E[x x^T] - mean mean^T of the shipped code in every field, and is  *)
(*      translation invariant entry by entry.                              *)
(* ====================================================================== *)
Require Import Field Ring Arith Lia List Bool ZArith Permutation Sorting.Sorted.
From TK Require Import Mat_Sums Mat_Core Equiv_Model Equiv_Spec Equiv_Proof_Perm Equiv_Proof_Rigid
                       Equiv_Proof_Spectral Equiv_Proof_Affine.
Import ListNotations.

(* ---------------------------------------------------------------------- *)
(* (1) ties                                                                *)
(* ---------------------------------------------------------------------- *)
Section Ties.
  Local Open Scope Z_scope.

  Definition cand := (Z * Z)%type.          (* (distance, sample index) *)

  (* std::pair's operator< : lexicographic *)
  Definition lex_leb (a b : cand) : bool :=
    (fst a <? fst b) || ((fst a =? fst b) && (snd a <=? snd b)).
  Definition lex_le (a b : cand) : Prop := lex_leb a b = true.

  Fixpoint lex_insert (x : cand) (l : list cand) : list cand :=
    match l with
    | [] => [x]
    | y :: r => if lex_leb x y then x :: y :: r else y :: lex_insert x r
    end.
  Fixpoint lex_sort (l : list cand) : list cand :=
    match l with [] => [] | x :: r => lex_insert x (lex_sort r) end.

  (* std::sort(candidates); take the first k; keep the indices *)
  Definition tie_select (k : nat) (c : list cand) : list Z := map snd (firstn k (lex_sort c)).

  (* ordering by the distance alone, equally distant candidates stay in arrival order *)
  Definition dist_leb (a b : cand) : bool := fst a <=? fst b.
  Fixpoint dist_insert (x : cand) (l : list cand) : list cand :=
    match l with
    | [] => [x]
    | y :: r => if dist_leb x y then x :: y :: r else y :: dist_insert x r
    end.
  Fixpoint dist_sort (l : list cand) : list cand :=
    match l with [] => [] | x :: r => dist_insert x (dist_sort r) end.
  Definition tie_select_arrival (k : nat) (c : list cand) : list Z := map snd (firstn k (dist_sort c)).

  Lemma lex_le_total a b : lex_le a b \/ lex_le b a.
  Proof.
    unfold lex_le, lex_leb. destruct a as [d i], b as [e j]; cbn [fst snd].
    destruct (Z.ltb_spec d e); [left; reflexivity|].
    destruct (Z.ltb_spec e d); [right; reflexivity|].
    assert (d = e) by lia. subst e. rewrite Z.eqb_refl. cbn.
    destruct (Z.leb_spec i j); [left; reflexivity|]. right. apply Z.leb_le. lia.
  Qed.

  Lemma lex_le_antisym a b : lex_le a b -> lex_le b a -> a = b.
  Proof.
    unfold lex_le, lex_leb. destruct a as [d i], b as [e j]; cbn [fst snd]. intros H1 H2.
    apply orb_true_iff in H1. apply orb_true_iff in H2.
    destruct H1 as [H1|H1]; destruct H2 as [H2|H2].
    - apply Z.ltb_lt in H1. apply Z.ltb_lt in H2. lia.
    - apply Z.ltb_lt in H1. apply andb_true_iff in H2. destruct H2 as [H2 _]. apply Z.eqb_eq in H2. lia.
    - apply Z.ltb_lt in H2. apply andb_true_iff in H1. destruct H1 as [H1 _]. apply Z.eqb_eq in H1. lia.
    - apply andb_true_iff in H1. apply andb_true_iff in H2. destruct H1 as [E1 L1], H2 as [_ L2].
      apply Z.eqb_eq in E1. apply Z.leb_le in L1. apply Z.leb_le in L2. f_equal; lia.
  Qed.

  Lemma lex_le_trans a b c : lex_le a b -> lex_le b c -> lex_le a c.
  Proof.
    unfold lex_le, lex_leb. destruct a as [d i], b as [e j], c as [f l]; cbn [fst snd]. intros H1 H2.
    apply orb_true_iff in H1. apply orb_true_iff in H2. apply orb_true_iff.
    destruct H1 as [H1|H1]; destruct H2 as [H2|H2].
    - left. apply Z.ltb_lt in H1. apply Z.ltb_lt in H2. apply Z.ltb_lt. lia.
    - left. apply Z.ltb_lt in H1. apply andb_true_iff in H2. destruct H2 as [H2 _]. apply Z.eqb_eq in H2.
      apply Z.ltb_lt. lia.
    - left. apply Z.ltb_lt in H2. apply andb_true_iff in H1. destruct H1 as [H1 _]. apply Z.eqb_eq in H1.
      apply Z.ltb_lt. lia.
    - right. apply andb_true_iff in H1. apply andb_true_iff in H2. destruct H1 as [E1 L1], H2 as [E2 L2].
      apply Z.eqb_eq in E1. apply Z.eqb_eq in E2. apply Z.leb_le in L1. apply Z.leb_le in L2.
      apply andb_true_iff. split; [apply Z.eqb_eq; lia | apply Z.leb_le; lia].
  Qed.

  Lemma lex_insert_perm x l : Permutation (x :: l) (lex_insert x l).
  Proof.
    induction l as [|y r IH]; cbn [lex_insert]; [reflexivity|].
    destruct (lex_leb x y); [reflexivity|].
    eapply perm_trans; [apply perm_swap|]. apply perm_skip. exact IH.
  Qed.

  Lemma lex_sort_perm l : Permutation l (lex_sort l).
  Proof.
    induction l as [|x r IH]; cbn [lex_sort]; [constructor|].
    eapply perm_trans; [apply perm_skip; exact IH | apply lex_insert_perm].
  Qed.

  Lemma lex_insert_sorted x l :
    StronglySorted lex_le l -> StronglySorted lex_le (lex_insert x l).
  Proof.
    induction l as [|y r IH]; cbn [lex_insert]; intros Hs.
    - constructor; [constructor | constructor].
    - inversion Hs as [|? ? Hr Hall]; subst.
      destruct (lex_leb x y) eqn:E.
      + constructor; [exact Hs|]. constructor; [exact E|].
        rewrite Forall_forall in *. intros z Hz. apply (lex_le_trans x y z); [exact E | apply Hall; exact Hz].
      + constructor; [apply IH; exact Hr|].
        assert (Hyx : lex_le y x).
        { destruct (lex_le_total x y) as [H|H]; [unfold lex_le in H; congruence | exact H]. }
        rewrite Forall_forall in *. intros z Hz.
        apply (Permutation_in z (Permutation_sym (lex_insert_perm x r))) in Hz.
        destruct Hz as [<-|Hz]; [exact Hyx | apply Hall; exact Hz].
  Qed.

  Lemma lex_sort_sorted l : StronglySorted lex_le (lex_sort l).
  Proof.
    induction l as [|x r IH]; cbn [lex_sort]; [constructor | apply lex_insert_sorted; exact IH].
  Qed.

  (* a sorted list is determined by its multiset (the order is total and antisymmetric) *)
  Lemma sorted_perm_unique l1 : forall l2,
    StronglySorted lex_le l1 -> StronglySorted lex_le l2 -> Permutation l1 l2 -> l1 = l2.
  Proof.
    induction l1 as [|a r1 IH]; intros l2 H1 H2 Hp.
    - apply Permutation_nil in Hp. subst. reflexivity.
    - destruct l2 as [|b r2]; [apply Permutation_sym, Permutation_nil in Hp; discriminate|].
      inversion H1 as [|? ? Hs1 Ha]; subst. inversion H2 as [|? ? Hs2 Hb]; subst.
      rewrite Forall_forall in Ha, Hb.
      assert (Eab : a = b).
      { assert (Ia : In a (b :: r2)) by (apply (Permutation_in a Hp); left; reflexivity).
        assert (Ib : In b (a :: r1)) by (apply (Permutation_in b (Permutation_sym Hp)); left; reflexivity).
        destruct Ia as [E|Ia]; [symmetry; exact E|].
        destruct Ib as [E|Ib]; [exact E|].
        apply lex_le_antisym; [apply Ha; exact Ib | apply Hb; exact Ia]. }
      subst b. f_equal. apply IH; [exact Hs1 | exact Hs2 | apply (Permutation_cons_inv Hp)].
  Qed.

  Theorem tie_select_order_independent_lemma : forall k (c1 c2 : list cand),
    Permutation c1 c2 -> tie_select k c1 = tie_select k c2.
  Proof.
    intros k c1 c2 Hp. unfold tie_select.
    rewrite (sorted_perm_unique (lex_sort c1) (lex_sort c2)); [reflexivity | apply lex_sort_sorted .. |].
    eapply perm_trans; [apply Permutation_sym, lex_sort_perm|].
    eapply perm_trans; [exact Hp | apply lex_sort_perm].
  Qed.

  (* strictly increasing maps of the distances (c * _ with c > 0 among them) commute with the sort *)
  Definition on_dist (g : Z -> Z) (p : cand) : cand := (g (fst p), snd p).

  Lemma lex_leb_on_dist g a b :
    (forall x y, x < y <-> g x < g y) -> lex_leb (on_dist g a) (on_dist g b) = lex_leb a b.
  Proof.
    intros Hg. unfold lex_leb, on_dist. destruct a as [d i], b as [e j]; cbn [fst snd].
    assert (Einj : g d = g e <-> d = e).
    { split; [|intros ->; reflexivity]. intros E.
      destruct (Z.lt_total d e) as [L|[L|L]]; [apply Hg in L; lia | exact L | apply Hg in L; lia]. }
    destruct (Z.ltb_spec d e) as [L|L], (Z.ltb_spec (g d) (g e)) as [L'|L']; cbn [orb]; try reflexivity.
    - apply Hg in L. lia.
    - apply Hg in L'. lia.
    - destruct (Z.eqb_spec d e) as [E|E], (Z.eqb_spec (g d) (g e)) as [E'|E']; cbn [andb]; try reflexivity.
      + subst. contradiction.
      + apply Einj in E'. contradiction.
  Qed.

  Lemma lex_insert_on_dist g x l :
    (forall x y, x < y <-> g x < g y) ->
    lex_insert (on_dist g x) (map (on_dist g) l) = map (on_dist g) (lex_insert x l).
  Proof.
    intros Hg. induction l as [|y r IH]; cbn [lex_insert map]; [reflexivity|].
    rewrite (lex_leb_on_dist g x y Hg). destruct (lex_leb x y); cbn [map]; [reflexivity|].
    rewrite IH. reflexivity.
  Qed.

  Lemma lex_sort_on_dist g l :
    (forall x y, x < y <-> g x < g y) -> lex_sort (map (on_dist g) l) = map (on_dist g) (lex_sort l).
  Proof.
    intros Hg. induction l as [|x r IH]; cbn [lex_sort map]; [reflexivity|].
    rewrite IH. apply lex_insert_on_dist. exact Hg.
  Qed.

  Theorem tie_select_monotone_lemma : forall g k (c : list cand),
    (forall x y, x < y <-> g x < g y) -> tie_select k (map (on_dist g) c) = tie_select k c.
  Proof.
    intros g k c Hg. unfold tie_select. rewrite (lex_sort_on_dist g c Hg).
    rewrite firstn_map, map_map. apply map_ext. intros [d i]. reflexivity.
  Qed.

  Theorem tie_select_scale_lemma : forall s k (c : list cand),
    0 < s -> tie_select k (map (on_dist (Z.mul s)) c) = tie_select k c.
  Proof.
    intros s k c Hs. apply tie_select_monotone_lemma. intros x y. split; intros H; nia.
  Qed.

  (* distance-only ordering: two equally distant candidates, two arrival orders, two answers *)
  Theorem tie_select_arrival_refuted_lemma :
    exists (c1 c2 : list cand),
      Permutation c1 c2 /\ NoDup (map snd c1) /\
      tie_select_arrival 1 c1 <> tie_select_arrival 1 c2 /\
      tie_select 1 c1 = tie_select 1 c2.
  Proof.
    exists [(1, 0); (1, 1)], [(1, 1); (1, 0)]. split; [apply perm_swap|]. split.
    - cbn. constructor; [intros [H|[]]; discriminate|]. constructor; [intros []|constructor].
    - split; [vm_compute; discriminate | vm_compute; reflexivity].
  Qed.

  (* non-vacuity of the hypothesis of tie_select_monotone *)
  Example tie_select_monotone_hyp_satisfiable : exists g, forall x y : Z, x < y <-> g x < g y.
  Proof. exists (Z.mul 3). intros x y. split; intros H; lia. Qed.
End Ties.

(* ---------------------------------------------------------------------- *)
(* (2) covariance from centred vectors                                     *)
(* ---------------------------------------------------------------------- *)
Section CenteredCov.
  Context {F : Type} {Fo : FieldOps F} {Ff : IsField F}.
  Add Field EquivTiesField : (@Fth F Fo Ff).
  Local Open Scope F_scope.

  (* fixes/F49: for every sample `current_vector -= mean; C.rankUpdate(current_vector, 1.0)`, then C /= n
     (entry (a, b) of the accumulated symmetric matrix) *)
  Definition cov_centered (n : nat) (X : mat F) : mat F :=
    fun a b => sumn n (fun i => center_rows n X i a * center_rows n X i b) / of_nat n.

  Theorem cov_centered_is_cov_full_lemma n (X : mat F) a b :
    of_nat n <> 0 -> cov_centered n X a b = cov_full n X a b.
  Proof.
    intros Hn. unfold cov_centered, cov_full, center_rows, mean_vec.
    rewrite (sumn_ext n _ (fun i => X i a * X i b
                 - (sumn n (fun i0 => X i0 b) / of_nat n) * X i a
                 - (sumn n (fun i0 => X i0 a) / of_nat n) * X i b
                 + (sumn n (fun i0 => X i0 a) / of_nat n) * (sumn n (fun i0 => X i0 b) / of_nat n)))
      by (intros; ring).
    rewrite sumn_add, !sumn_sub, sumn_const, !sumn_mul_l. field. exact Hn.
  Qed.

  Theorem cov_centered_translate_lemma n t (X : mat F) a b :
    of_nat n <> 0 -> cov_centered n (translate t X) a b = cov_centered n X a b.
  Proof.
    intros Hn. unfold cov_centered. f_equal. apply sumn_ext. intros i _.
    rewrite !center_rows_translate by assumption. reflexivity.
  Qed.
End CenteredCov.
