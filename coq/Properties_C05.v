(* ====================================================================== *)
(*  Properties_C05.v — MDS and Kernel PCA return the (optimal) rank-d      *)
(*  factor of the centred Gram matrix.  Statements only; proofs live in    *)
(*  Mat_Core.v, Mds_Proof.v, Mat_EigSelect.v, Mat_EigSelect_Tie.v.         *)
(*  Generic theorems quantify over EVERY field (F, Fo, Ff); `_Qc` versions *)
(*  are the closed instances about the functions that are extracted.       *)
(*  `_partial`: Eckart-Young optimality / the rank argument are cited.     *)
(* ====================================================================== *)
Require Import String.
Require Import Arith Lia List Bool ZArith QArith Qcanon.
From TK Require Import Mat_Sums Mat_Core Mat_Qc Mat_EigSelect EigSelect Mat_EigSelect_Tie
                       Mds_Model Mds_Spec Mds_Exec Mds_Proof Mds_Proof_Solver Mds_Proof_Qc
                       Mds_Proof_Isomap Dijkstra_Spec Spectral_KyFan Mds_Proof_Optimal Mds_Proof_Rank
                       Spectral_Randomized Mds_Spec_Wtol Mds_Model_Randomized Mds_Proof_Randomized Mds_Exec_Wave2
                       Mds_Proof_OptimalClamped Mds_Model_Par Mds_Proof_Par
                       Mds_Model_Range Mds_Proof_Range.
Import ListNotations.
Local Open Scope nat_scope.

(* 1. centerMatrix (column means used along both axes) is J M J on symmetric input *)
Theorem Mds_center_is_JMJ :
  forall (F : Type) (Fo : FieldOps F) (Ff : IsField F) (n : nat) (M : mat F),
    of_nat n <> 0%F -> msym n M ->
    meq n n (center_matrix n M) (double_center n M) /\
    (forall i j, i < n -> j < n ->
       center_matrix n M i j =
         (M i j - rowmean n M i - colmean n M j + grandmean n n M)%F).
Proof. exact @center_is_JMJ. Qed.
Print Assumptions Mds_center_is_JMJ.

Theorem Mds_center_is_JMJ_Qc :
  forall (n : nat) (M : mat Qc), n <> 0 -> msym n M ->
    meq n n (center_matrix n M) (double_center n M).
Proof. exact center_is_JMJ_Qc. Qed.
Print Assumptions Mds_center_is_JMJ_Qc.

Example Mds_center_is_JMJ_nonvacuous :
  exists (n : nat) (M : mat Qc), n <> 0 /\ msym n M /\
    mtab n n (center_matrix n M) = [[qz (-2); qz 2]; [qz 2; qz (-2)]].
Proof.
  exists 2, (mof [[qz 0; qz 4]; [qz 4; qz 0]]). split; [lia|]. split.
  - intros i j Hi Hj.
    destruct i as [|[|i]]; destruct j as [|[|j]]; try lia; reflexivity.
  - apply mlist_eqb_ok. vm_compute. reflexivity.
Qed.

(* 2. the executable list models compute exactly the matrices the theorems are about *)
Theorem Mds_exec_models_ok :
  forall (F : Type) (Fo : FieldOps F) (n : nat) (L : list (list F)),
    mds_matrix_exec n L = mtab n n (mds_matrix n (mof L)) /\
    kpca_matrix_exec n L = mtab n n (kpca_matrix n (mof L)) /\
    center_exec n L = mtab n n (center_matrix n (mof L)) /\
    isomap_matrix_exec n L = mtab n n (isomap_matrix n (mof L)).
Proof. exact @exec_models_ok. Qed.
Print Assumptions Mds_exec_models_ok.

(* the extracted "mathematical object" used by the check as the spec of the matrix stage *)
Theorem Mds_spec_exec_ok :
  forall (n : nat) (L : list (list Qc)),
    c05_spec_kpca n L = mtab n n (double_center n (mof L)) /\
    c05_spec_mds n L =
      mtab n n (mscale neg_half (double_center n (fun i j => (mof L i j * mof L i j)%Qc))).
Proof. exact spec_exec_ok. Qed.
Print Assumptions Mds_spec_exec_ok.

(* 3. what MDS hands to the solver is -1/2 J D2 J; what KPCA hands over is J K J *)
Theorem Mds_matrix_is_JD2J :
  forall (F : Type) (Fo : FieldOps F) (Ff : IsField F) (n : nat) (dist : mat F),
    of_nat n <> 0%F ->
    meq n n (mds_matrix n dist) (mscale neg_half (double_center n (dist_sq_matrix dist))).
Proof. exact @mds_matrix_is_JD2J. Qed.
Print Assumptions Mds_matrix_is_JD2J.

Theorem Mds_kpca_matrix :
  forall (F : Type) (Fo : FieldOps F) (Ff : IsField F) (n : nat) (kern : mat F),
    of_nat n <> 0%F ->
    meq n n (kpca_matrix n kern) (double_center n (kernel_matrix kern)).
Proof. exact @kpca_matrix_is_JKJ. Qed.
Print Assumptions Mds_kpca_matrix.

(* 4. classical MDS identity: -1/2 J D2 J is the Gram matrix of the centred points *)
Theorem Mds_identity :
  forall (F : Type) (Fo : FieldOps F) (Ff : IsField F) (n D : nat) (X dist : mat F),
    of_nat n <> 0%F -> two <> 0%F ->
    (forall i j, i < n -> j < n -> i <= j -> (dist i j * dist i j)%F = sqdist D X i j) ->
    forall i j, i < n -> j < n ->
      mds_matrix n dist i j = dot D (centered n X i) (centered n X j).
Proof. exact @mds_identity. Qed.
Print Assumptions Mds_identity.

Example Mds_identity_nonvacuous :
  exists (n D : nat) (X dist : mat Qc),
    @of_nat Qc _ n <> 0%F /\ @two Qc _ <> 0%F /\
    (forall i j, i < n -> j < n -> i <= j -> (dist i j * dist i j)%F = sqdist D X i j).
Proof.
  exists 2, 1, (mof [[qz 0]; [qz 2]]), (mof [[qz 0; qz 2]; [qz 2; qz 0]]).
  split; [apply Qc_of_nat_neq0; lia|]. split; [apply Qc_two_neq0|].
  intros i j Hi Hj _. destruct i as [|[|i]]; destruct j as [|[|j]]; try lia;
    apply Qc_is_canon; vm_compute; reflexivity.
Qed.

(* the same for Kernel PCA with the linear kernel: J (X X^T) J = Xc Xc^T *)
Theorem Mds_kpca_linear_gram :
  forall (F : Type) (Fo : FieldOps F) (Ff : IsField F) (n D : nat) (X : mat F) (i j : nat),
    of_nat n <> 0%F -> i < n -> j < n ->
    double_center n (mmul D X (mtrans X)) i j = dot D (centered n X i) (centered n X j).
Proof. exact @double_center_gram. Qed.
Print Assumptions Mds_kpca_linear_gram.

(* 5. selection: every `largest` site of the solver front-ends (generated table) returns the
      LAST d eigenpairs — same index set for vectors and values, inside the object *)
Theorem Mds_select_largest :
  forall b, In b eig_table -> b_largest b = true ->
  forall N d, d <= N ->
    let n := base_eval N d 0 (b_base b) in
    eval_ops d 0 n (b_cols b) = Some (n - d, d) /\
    eval_ops d 0 n (b_vals b) = Some (n - d, d) /\
    d <= n.
Proof. exact select_largest. Qed.
Print Assumptions Mds_select_largest.

Example Mds_select_largest_nonvacuous :
  exists b, In b eig_table /\ b_largest b = true /\ b_base b = BaseN /\
            b_fn b = "eigendecomposition_impl_dense"%string.
Proof. eexists. split; [left; reflexivity|]. repeat split. Qed.

(* 6. sqrt scaling: from ANY solver answer meeting the contract, and any sqrt answers *)
Theorem Mds_sqrt_scaling :
  forall (F : Type) (Fo : FieldOps F) (Ff : IsField F) (n d : nat) (B Vs : mat F) (lam s : vec F),
    eig_contract n d B Vs lam ->
    (forall c, c < d -> (s c * s c)%F = lam c) ->
    let Y := scale_cols Vs s in
    factor_spec n d B Y lam /\
    (forall i j, mmul d Y (mtrans Y) i j =
                 mmul d (mmul d Vs (mdiag lam)) (mtrans Vs) i j).
Proof. exact @sqrt_scaling. Qed.
Print Assumptions Mds_sqrt_scaling.

Definition ex_B : mat Qc :=
  mof [[qfrac 36 25; qfrac 48 25]; [qfrac 48 25; qfrac 64 25]].
Definition ex_Vs : mat Qc := mof [[qfrac 3 5]; [qfrac 4 5]].
Definition ex_lam : vec Qc := vof [qz 4].
Definition ex_s : vec Qc := vof [qz 2].

Example Mds_sqrt_scaling_nonvacuous :
  eig_contract 2 1 ex_B ex_Vs ex_lam /\
  (forall c, c < 1 -> (ex_s c * ex_s c)%F = ex_lam c).
Proof.
  split; [split|].
  - apply meq_by_compute. vm_compute. reflexivity.
  - apply meq_by_compute. vm_compute. reflexivity.
  - intros c Hc. assert (c = 0) by lia. subst. apply Qc_is_canon. vm_compute. reflexivity.
Qed.

(* 7. the embedding produced from a dense answer: the property's orthogonality / norm /
      eigenvector clauses; optimality (Eckart-Young) is cited -> _partial *)
Theorem Mds_factor_partial :
  forall (F : Type) (Fo : FieldOps F) (Ff : IsField F) (N d : nat) (B V : mat F) (Lam s : vec F),
    d <= N ->
    full_contract N B V Lam ->
    (forall c, c < d -> (s c * s c)%F = Lam (N - d + c)%nat) ->
    let Y := scale_cols (select_cols N V (N - d, d)) s in
    factor_spec N d B Y (select_vals Lam (N - d, d)) /\
    (forall i j, mmul d Y (mtrans Y) i j =
       sumn d (fun c => (V i (N - d + c)%nat * Lam (N - d + c)%nat * V j (N - d + c)%nat)%F)).
Proof. exact @mds_factor_partial. Qed.
Print Assumptions Mds_factor_partial.

(* a complete rational example: four points +-1 on a line, Hadamard eigenvectors *)
Definition ex4_dist : mat Qc :=
  mof [[qz 0; qz 2; qz 0; qz 2]; [qz 2; qz 0; qz 2; qz 0];
       [qz 0; qz 2; qz 0; qz 2]; [qz 2; qz 0; qz 2; qz 0]].
Definition h : Qc := qfrac 1 2.
Definition ex4_V : mat Qc :=
  mof [[h; h; h; h]; [h; h; (-h)%Qc; (-h)%Qc]; [h; (-h)%Qc; (-h)%Qc; h]; [h; (-h)%Qc; h; (-h)%Qc]].
Definition ex4_Lam : vec Qc := vof [qz 0; qz 0; qz 0; qz 4].

Example Mds_factor_nonvacuous :
  full_contract 4 (mds_matrix 4 ex4_dist) (mtrans ex4_V) ex4_Lam /\
  (forall c, c < 1 -> (ex_s c * ex_s c)%F = ex4_Lam (4 - 1 + c)%nat).
Proof.
  split; [split|].
  - apply meq_by_compute. vm_compute. reflexivity.
  - apply meq_by_compute. vm_compute. reflexivity.
  - intros c Hc. assert (c = 0) by lia. subst. apply Qc_is_canon. vm_compute. reflexivity.
Qed.

(* 8. scale equivariance: distances times c -> B times c^2, same vectors, Y times c *)
Theorem Mds_matrix_scale :
  forall (F : Type) (Fo : FieldOps F) (Ff : IsField F) (n : nat) (c : F) (dist : mat F) (i j : nat),
    of_nat n <> 0%F -> i < n -> j < n ->
    mds_matrix n (mscale c dist) i j = (c * c * mds_matrix n dist i j)%F.
Proof. exact @mds_matrix_scale. Qed.
Print Assumptions Mds_matrix_scale.

Theorem Mds_scale_equivariance :
  forall (F : Type) (Fo : FieldOps F) (Ff : IsField F) (n d : nat) (c : F)
         (B B' Vs : mat F) (lam s : vec F),
    meq n n B' (mscale (c * c)%F B) ->
    eig_contract n d B Vs lam ->
    (forall k, k < d -> (s k * s k)%F = lam k) ->
    let lam' := vscale (c * c)%F lam in
    let s' := vscale c s in
    eig_contract n d B' Vs lam' /\
    (forall k, k < d -> (s' k * s' k)%F = lam' k) /\
    (forall i k, scale_cols Vs s' i k = (c * scale_cols Vs s i k)%F).
Proof. exact @scale_equivariance. Qed.
Print Assumptions Mds_scale_equivariance.

(* 9. Euclidean input of dimension <= d: all pairwise distances are reproduced *)
Theorem Mds_recovers_euclidean_partial :
  forall (F : Type) (Fo : FieldOps F) (Ff : IsField F) (N d : nat) (V : mat F)
         (Lam s : vec F) (dist : mat F),
    two <> 0%F -> d <= N ->
    full_contract N (mds_matrix N dist) V Lam ->
    meq N N (mmul N V (mtrans V)) mI ->
    (forall t, t < N - d -> Lam t = 0%F) ->
    (forall c, c < d -> (s c * s c)%F = Lam (N - d + c)%nat) ->
    (forall i, i < N -> dist i i = 0%F) ->
    let Y := scale_cols (select_cols N V (N - d, d)) s in
    forall i j, i < N -> j < N -> i <= j ->
      sqdist d Y i j = (dist i j * dist i j)%F.
Proof. exact @mds_recovers_euclidean_partial. Qed.
Print Assumptions Mds_recovers_euclidean_partial.

Example Mds_recovers_euclidean_nonvacuous :
  @two Qc _ <> 0%F /\
  full_contract 4 (mds_matrix 4 ex4_dist) (mtrans ex4_V) ex4_Lam /\
  meq 4 4 (mmul 4 (mtrans ex4_V) (mtrans (mtrans ex4_V))) mI /\
  (forall t, t < 4 - 1 -> ex4_Lam t = 0%F) /\
  (forall i, i < 4 -> ex4_dist i i = 0%F) /\
  (* and the conclusion, computed: the embedding is (1,-1,1,-1) up to sign *)
  mtab 4 1 (scale_cols (select_cols 4 (mtrans ex4_V) (4 - 1, 1)) ex_s)
    = [[qz 1]; [qz (-1)]; [qz 1]; [qz (-1)]].
Proof.
  split; [apply Qc_two_neq0|]. split; [apply Mds_factor_nonvacuous|].
  split; [apply meq_by_compute; vm_compute; reflexivity|].
  split.
  { intros t Ht. destruct t as [|[|[|t]]]; try lia; apply Qc_is_canon; vm_compute; reflexivity. }
  split.
  { intros i Hi. destruct i as [|[|[|[|i]]]]; try lia; apply Qc_is_canon; vm_compute; reflexivity. }
  apply mlist_eqb_ok. vm_compute. reflexivity.
Qed.

(* 10. the eigenvalue slice of the smallest-eigenvalue sites (defect F7, known finding).
       The literal shipped expression is refuted, the repaired one is proved ... *)
Theorem Mds_eig_segment_refuted :
  exists N d skip, d + skip <= N /\ 1 <= d /\
    eval_ops d skip N shipped_segment = None /\
    eval_ops d skip N repaired_segment = Some (skip, d).
Proof. exact eig_segment_refuted. Qed.
Print Assumptions Mds_eig_segment_refuted.

Theorem Mds_eig_segment_repaired_ok :
  forall N d skip, d + skip <= N -> eval_ops d skip N repaired_segment = Some (skip, d).
Proof. exact eig_segment_repaired_ok. Qed.
Print Assumptions Mds_eig_segment_repaired_ok.

(* ... and for the GENERATED table of the tree being checked: either it contains the shipped
   form and then some site reads outside the eigenvalue vector (witness N=5, d=4, skip=1), or
   every dense smallest-eigenvalue site returns exactly entries skip..skip+d-1 in range.
   Any other change of a slice expression breaks Mat_EigSelect_Tie.eig_table_*_shapes. *)
Theorem Mds_eig_segment_table :
  (f7_present = true /\
   exists b, In b eig_table /\ b_largest b = false /\
     exists N d skip, d + skip <= N /\ 1 <= d /\ eval_ops d skip N (b_vals b) = None)
  \/
  (f7_present = false /\
   forall b, In b eig_table -> b_largest b = false -> b_base b = BaseN ->
   forall N d skip, d + skip <= N -> eval_ops d skip N (b_vals b) = Some (skip, d)).
Proof. exact eig_segment_table. Qed.
Print Assumptions Mds_eig_segment_table.

(* eigenvector columns of the smallest-eigenvalue sites: skip .. skip+d-1 on every tree *)
Theorem Mds_select_smallest_cols :
  forall b, In b eig_table -> b_largest b = false -> b_base b = BaseN ->
  forall N d skip, d + skip <= N -> eval_ops d skip N (b_cols b) = Some (skip, d).
Proof. exact select_smallest_cols. Qed.
Print Assumptions Mds_select_smallest_cols.

(* ====================================================================== *)
(*  Round 2 additions                                                      *)
(* ====================================================================== *)

(* 11. DESIGN 1.4: what the two solver front-ends SEE of the matrix they are handed
       (dense: read_lower((M+M^T)/2); randomized: selfadjointView<Upper>) is -1/2 J D2 J
       (resp. J K J): nothing is lost to a triangle. *)
Theorem Mds_solver_sees_mds :
  forall (F : Type) (Fo : FieldOps F) (Ff : IsField F) (n : nat) (dist : mat F),
    of_nat n <> 0%F -> two <> 0%F ->
    meq n n (seen_dense (mds_matrix n dist))
            (mscale neg_half (double_center n (dist_sq_matrix dist))) /\
    meq n n (seen_randomized (mds_matrix n dist))
            (mscale neg_half (double_center n (dist_sq_matrix dist))).
Proof. exact @solver_sees_mds. Qed.
Print Assumptions Mds_solver_sees_mds.

Theorem Mds_solver_sees_kpca :
  forall (F : Type) (Fo : FieldOps F) (Ff : IsField F) (n : nat) (kern : mat F),
    of_nat n <> 0%F -> two <> 0%F ->
    meq n n (seen_dense (kpca_matrix n kern)) (double_center n (kernel_matrix kern)) /\
    meq n n (seen_randomized (kpca_matrix n kern)) (double_center n (kernel_matrix kern)).
Proof. exact @solver_sees_kpca. Qed.
Print Assumptions Mds_solver_sees_kpca.

Example Mds_solver_sees_nonvacuous : @of_nat Qc _ 4 <> 0%F /\ @two Qc _ <> 0%F.
Proof. split; [apply Qc_of_nat_neq0; lia|apply Qc_two_neq0]. Qed.

(* 12. the EXECUTABLE post-processing (the function the tie runs), driven by the generated
       selection table: for every `largest` dense site, all N, d <= N, all oracle answers *)
Theorem Mds_embed_exec_largest :
  forall (F : Type) (Fo : FieldOps F) (b : branch) (N d : nat)
         (V : list (list F)) (lam sall : list F),
    In b eig_table -> b_largest b = true -> b_base b = BaseN -> d <= N ->
    embed_exec b N d 0 V lam sall =
      Some (mtab N d (scale_cols (select_cols N (mof V) (N - d, d))
                                 (select_vals (vof sall) (N - d, d)))) /\
    embed_vals_exec b N d 0 lam = Some (vtab d (select_vals (vof lam) (N - d, d))).
Proof. exact @embed_exec_largest. Qed.
Print Assumptions Mds_embed_exec_largest.

(* 13. sqrt scaling with an arbitrary radicand mu (mu = lambda: code before fixes/F35,
       mu = max(lambda,0): after) *)
Theorem Mds_sqrt_scaling_gen :
  forall (F : Type) (Fo : FieldOps F) (Ff : IsField F) (n d : nat) (B Vs : mat F)
         (lam mu s : vec F),
    eig_contract n d B Vs lam ->
    (forall c, c < d -> (s c * s c)%F = mu c) ->
    let Y := scale_cols Vs s in
    meq d d (mmul n (mtrans Y) Y) (mdiag mu) /\
    meq n d (mmul n B Y) (mmul d Y (mdiag lam)) /\
    (forall i j, mmul d Y (mtrans Y) i j =
                 mmul d (mmul d Vs (mdiag mu)) (mtrans Vs) i j).
Proof. exact @sqrt_scaling_gen. Qed.
Print Assumptions Mds_sqrt_scaling_gen.

(* the executable model composed with the contracts: the property's clauses for the embedding
   the model returns (optimality cited -> _partial) *)
Theorem Mds_embed_exec_factor_partial :
  forall (F : Type) (Fo : FieldOps F) (Ff : IsField F) (b : branch) (N d : nat) (B : mat F)
         (V : list (list F)) (lam mu sall : list F),
    In b eig_table -> b_largest b = true -> b_base b = BaseN -> d <= N ->
    full_contract N B (mof V) (vof lam) ->
    (forall t, t < N -> (vof sall t * vof sall t)%F = vof mu t) ->
    exists Y, embed_exec b N d 0 V lam sall = Some Y /\
              meq d d (mmul N (mtrans (mof Y)) (mof Y))
                      (mdiag (select_vals (vof mu) (N - d, d))) /\
              meq N d (mmul N B (mof Y))
                      (mmul d (mof Y) (mdiag (select_vals (vof lam) (N - d, d)))).
Proof. exact @embed_exec_factor_partial. Qed.
Print Assumptions Mds_embed_exec_factor_partial.

Definition ex4_Vl : list (list Qc) := mtab 4 4 (mtrans ex4_V).
Definition ex4_laml : list Qc := [qz 0; qz 0; qz 0; qz 4].
Definition ex4_sl : list Qc := [qz 0; qz 0; qz 0; qz 2].

Example Mds_embed_exec_nonvacuous :
  (exists b, In b eig_table /\ b_largest b = true /\ b_base b = BaseN) /\
  full_contract 4 (mds_matrix 4 ex4_dist) (mof ex4_Vl) (vof ex4_laml) /\
  (forall t, t < 4 -> (vof ex4_sl t * vof ex4_sl t)%F = vof ex4_laml t) /\
  match c05_embed 0 4 1 0 ex4_Vl ex4_laml ex4_sl with
  | Some Y => mlist_eqb Y [[qz 1]; [qz (-1)]; [qz 1]; [qz (-1)]]
  | None => false
  end = true.
Proof.
  split; [eexists; split; [left; reflexivity|split; reflexivity]|].
  split; [split; apply meq_by_compute; vm_compute; reflexivity|].
  split.
  - intros t Ht. destruct t as [|[|[|[|t]]]]; try lia; apply Qc_is_canon; vm_compute; reflexivity.
  - vm_compute. reflexivity.
Qed.

(* 14. the clamp: with s_c^2 = max(lambda_c, 0) the clauses hold for the CLAMPED eigenvalues,
       also when a retained eigenvalue is negative (Y Y^T is then the positive semi-definite
       truncation Vs diag(max(lambda,0)) Vs^T) *)
Theorem Mds_sqrt_scaling_clamped :
  forall (n d : nat) (B Vs : mat Qc) (lam s : vec Qc),
    eig_contract n d B Vs lam ->
    (forall c, c < d -> (s c * s c)%Qc = qmax0 (lam c)) ->
    let Y := scale_cols Vs s in
    factor_spec n d B Y (clamp0 lam) /\
    (forall i j, mmul d Y (mtrans Y) i j =
                 mmul d (mmul d Vs (mdiag (clamp0 lam))) (mtrans Vs) i j).
Proof. exact sqrt_scaling_clamped_Qc. Qed.
Print Assumptions Mds_sqrt_scaling_clamped.

(* negative retained eigenvalue: B = diag(-1, 4), both columns kept, sqrt answers (0, 2) *)
Definition exn_B : mat Qc := mof [[qz (-1); qz 0]; [qz 0; qz 4]].
Definition exn_lam : vec Qc := vof [qz (-1); qz 4].
Definition exn_s : vec Qc := vof [qz 0; qz 2].
Example Mds_sqrt_scaling_clamped_nonvacuous :
  eig_contract 2 2 exn_B mI exn_lam /\
  (forall c, c < 2 -> (exn_s c * exn_s c)%Qc = qmax0 (exn_lam c)).
Proof.
  split; [split; apply meq_by_compute; vm_compute; reflexivity|].
  intros c Hc. destruct c as [|[|c]]; try lia; apply Qc_is_canon; vm_compute; reflexivity.
Qed.

Theorem Mds_recovers_euclidean_clamped_partial :
  forall (N d : nat) (V : mat Qc) (Lam s : vec Qc) (dist : mat Qc),
    d <= N ->
    full_contract N (mds_matrix N dist) V Lam ->
    meq N N (mmul N V (mtrans V)) mI ->
    (forall t, t < N - d -> Lam t = Q2Qc 0) ->
    (forall c, c < d -> (0 <= Lam (N - d + c)%nat)%Qc) ->
    (forall c, c < d -> (s c * s c)%Qc = qmax0 (Lam (N - d + c)%nat)) ->
    (forall i, i < N -> dist i i = Q2Qc 0) ->
    let Y := scale_cols (select_cols N V (N - d, d)) s in
    forall i j, i < N -> j < N -> i <= j ->
      sqdist d Y i j = (dist i j * dist i j)%Qc.
Proof. exact mds_recovers_euclidean_clamped_partial_Qc. Qed.
Print Assumptions Mds_recovers_euclidean_clamped_partial.

(* 15. randomized front-end (range finder + small eigenproblem), exact arithmetic: when the
       orthonormal block Y captures the range of B (what rank <= target_dimension buys), the
       answer (Y W, Theta) meets the same contract as the dense solver's answer *)
Theorem Mds_randomized_exact_on_captured_range :
  forall (F : Type) (Fo : FieldOps F) (Ff : IsField F) (N k : nat) (B Y W : mat F) (Theta : vec F),
    meq k k (mmul N (mtrans Y) Y) mI ->
    meq N N (mmul N (mmul k Y (mtrans Y)) B) B ->
    eig_contract k k (mmul N (mtrans Y) (mmul N B Y)) W Theta ->
    eig_contract N k B (mmul k Y W) Theta.
Proof. exact @randomized_exact_on_captured_range. Qed.
Print Assumptions Mds_randomized_exact_on_captured_range.

Example Mds_randomized_nonvacuous :
  meq 1 1 (mmul 2 (mtrans ex_Vs) ex_Vs) mI /\
  meq 2 2 (mmul 2 (mmul 1 ex_Vs (mtrans ex_Vs)) ex_B) ex_B /\
  eig_contract 1 1 (mmul 2 (mtrans ex_Vs) (mmul 2 ex_B ex_Vs)) mI ex_lam.
Proof.
  split; [apply meq_by_compute; vm_compute; reflexivity|].
  split; [apply meq_by_compute; vm_compute; reflexivity|].
  split; apply meq_by_compute; vm_compute; reflexivity.
Qed.

(* 16. Isomap with k = N-1 is MDS.  Graph side: in the complete neighbourhood graph of a metric
       table the shortest-path weight is the direct distance (definitions of C04's
       Dijkstra_Spec.v; proof self-contained).  Matrix side: then Isomap's matrix is MDS's. *)
Theorem Mds_complete_metric_sp :
  forall (nbrs : list (list nat)) (w : nat -> nat -> Z) (N : nat),
    complete_graph nbrs N -> metric_w w N ->
    forall i j o, i < N -> j < N -> is_sp nbrs w i j o -> o = Some (w i j).
Proof. exact complete_metric_sp_unique. Qed.
Print Assumptions Mds_complete_metric_sp.

Theorem Mds_isomap_k_full :
  forall (nbrs : list (list nat)) (w : nat -> nat -> Z) (N : nat) (G : mat Qc),
    complete_graph nbrs N ->
    metric_w w N ->
    (forall i j, i < N -> j < N -> w i j = w j i) ->
    (forall i j, i < N -> j < N ->
       exists o, is_sp nbrs w i j o /\
                 match o with Some g => G i j = qz g | None => False end) ->
    meq N N (isomap_matrix N G) (mds_matrix N (fun i j => qz (w i j))).
Proof. exact isomap_k_full_Qc. Qed.
Print Assumptions Mds_isomap_k_full.

(* three points 0, 1, 3 on a line, every vertex lists the two others *)
Example Mds_isomap_k_full_nonvacuous :
  complete_graph ex3_nbrs 3 /\ metric_w ex3_w 3 /\
  (forall i j, i < 3 -> j < 3 -> ex3_w i j = ex3_w j i).
Proof. exact ex3_ok. Qed.

(* 17. the boolean decision procedures run by the check decide the specifications *)
Theorem Mds_factor_spec_decision :
  forall n d tol (B Y : list (list Qc)) (lam : list Qc),
    c05_factor n d tol B Y lam = Some true ->
    factor_spec_tol n d tol (mof B) (mof Y) (vof lam).
Proof. exact factor_spec_tol_b_ok. Qed.
Print Assumptions Mds_factor_spec_decision.

Theorem Mds_factor_spec_decision_exact :
  forall n d (B Y : list (list Qc)) (lam : list Qc),
    c05_factor n d (Q2Qc 0) B Y lam = Some true ->
    factor_spec n d (mof B) (mof Y) (vof lam).
Proof. exact factor_spec_exact_b_ok. Qed.
Print Assumptions Mds_factor_spec_decision_exact.

Theorem Mds_dist_decision :
  forall n d tol (Y D2 : list (list Qc)),
    c05_dist n d tol Y D2 = Some true -> within n n tol (sqdist d (mof Y)) (mof D2).
Proof. exact dist_reproduced_tol_b_ok. Qed.
Print Assumptions Mds_dist_decision.

Example Mds_decisions_nonvacuous :
  c05_factor 2 1 (Q2Qc 0) [[qz 1; qz (-1)]; [qz (-1); qz 1]] [[qz 1]; [qz (-1)]] [qz 2] = Some true /\
  c05_dist 2 1 (Q2Qc 0) [[qz 1]; [qz (-1)]] [[qz 0; qz 4]; [qz 4; qz 0]] = Some true.
Proof. split; vm_compute; reflexivity. Qed.

(* 18. OPTIMALITY (the Eckart-Young bridge, proved; uses Ky Fan's inequality of
       Spectral_KyFan.v for B^2).  Over EVERY ordered field, every n, d <= n: B symmetric positive
       semi-definite with a full orthonormal ascending eigendecomposition; Q ANY n x d matrix with
       orthonormal columns, C ANY d x d matrix.  Then
         |B - Q C Q^T|_F^2 >= sum of the n-d smallest lambda^2,
       the methods' Y Y^T attains that bound, hence no such Q C Q^T is closer to B than Y Y^T.
       (Over the reals every matrix of rank <= d with symmetric range is some Q C Q^T; over a
       field without square roots "has an orthonormal basis of its range" is the restriction.) *)
Theorem Mds_eckart_young_frames :
  forall (F : Type) (Fo : FieldOps F) (Ff : IsField F) (Fle : OrderedField F)
         (n d : nat) (B V Q C : mat F) (lam : vec F),
    d <= n ->
    msym n B ->
    meq n n (mmul n (mtrans V) V) mI ->
    meq n n (mmul n V (mtrans V)) mI ->
    meq n n (mmul n B V) (mmul n V (mdiag lam)) ->
    Spectral_KyFan.ascending n lam ->
    (forall t, t < n -> fle 0%F (lam t)) ->
    meq d d (mmul n (mtrans Q) Q) mI ->
    fle (sumn (n - d) (sq lam)) (fro2 n n (msub B (lowrank d Q C))).
Proof. exact @eckart_young_frames. Qed.
Print Assumptions Mds_eckart_young_frames.

Theorem Mds_attains_bound :
  forall (F : Type) (Fo : FieldOps F) (Ff : IsField F)
         (n d : nat) (B V : mat F) (lam s : vec F),
    d <= n ->
    msym n B ->
    meq n n (mmul n (mtrans V) V) mI ->
    meq n n (mmul n V (mtrans V)) mI ->
    meq n n (mmul n B V) (mmul n V (mdiag lam)) ->
    (forall c, c < d -> (s c * s c)%F = lam (n - d + c)%nat) ->
    let Y := scale_cols (select_cols n V (n - d, d)) s in
    fro2 n n (msub B (mmul d Y (mtrans Y))) = sumn (n - d) (sq lam).
Proof. exact @mds_attains_bound. Qed.
Print Assumptions Mds_attains_bound.

Theorem Mds_factor_optimal :
  forall (F : Type) (Fo : FieldOps F) (Ff : IsField F) (Fle : OrderedField F)
         (n d : nat) (B V Q C : mat F) (lam s : vec F),
    d <= n ->
    msym n B ->
    meq n n (mmul n (mtrans V) V) mI ->
    meq n n (mmul n V (mtrans V)) mI ->
    meq n n (mmul n B V) (mmul n V (mdiag lam)) ->
    Spectral_KyFan.ascending n lam ->
    (forall t, t < n -> fle 0%F (lam t)) ->
    (forall c, c < d -> (s c * s c)%F = lam (n - d + c)%nat) ->
    meq d d (mmul n (mtrans Q) Q) mI ->
    let Y := scale_cols (select_cols n V (n - d, d)) s in
    fle (fro2 n n (msub B (mmul d Y (mtrans Y)))) (fro2 n n (msub B (lowrank d Q C))).
Proof. exact @mds_factor_optimal. Qed.
Print Assumptions Mds_factor_optimal.

(* B = [[36,48],[48,64]]/25 = 4 * (3/5,4/5)(3/5,4/5)^T: eigenvalues (0, 4), rotation exo_V
   (witness defined in Mds_Proof_Qc.v) *)
Example Mds_factor_optimal_nonvacuous :
  msym 2 exo_B /\
  meq 2 2 (mmul 2 (mtrans exo_V) exo_V) mI /\
  meq 2 2 (mmul 2 exo_V (mtrans exo_V)) mI /\
  meq 2 2 (mmul 2 exo_B exo_V) (mmul 2 exo_V (mdiag exo_lam)) /\
  Spectral_KyFan.ascending 2 exo_lam /\
  (forall t, t < 2 -> fle 0%F (exo_lam t)) /\
  (forall c, c < 1 -> (exo_s c * exo_s c)%F = exo_lam (2 - 1 + c)%nat) /\
  meq 1 1 (mmul 2 (mtrans exo_Q) exo_Q) mI.
Proof. exact exo_ok. Qed.

(* 19. distances: the exact deficit, and "classical MDS never overestimates a distance" (PSD).
       No rank hypothesis: for ANY zero-diagonal table, any full oracle answer, any d <= N
         |y_i - y_j|^2 = D2_ij - sum over the DISCARDED eigenpairs of lam_t (V_it - V_jt)^2 ;
       Mds_recovers_euclidean_partial is the special case where the discarded lam_t vanish. *)
Theorem Mds_distance_deficit :
  forall (F : Type) (Fo : FieldOps F) (Ff : IsField F) (N d : nat) (V : mat F)
         (Lam s : vec F) (dist : mat F),
    two <> 0%F -> d <= N ->
    full_contract N (mds_matrix N dist) V Lam ->
    meq N N (mmul N V (mtrans V)) mI ->
    (forall c, c < d -> (s c * s c)%F = Lam (N - d + c)%nat) ->
    (forall i, i < N -> dist i i = 0%F) ->
    let Y := scale_cols (select_cols N V (N - d, d)) s in
    forall i j, i < N -> j < N -> i <= j ->
      sqdist d Y i j =
        (dist i j * dist i j
         - sumn (N - d) (fun t => Lam t * ((V i t - V j t) * (V i t - V j t))))%F.
Proof. exact @mds_distance_deficit. Qed.
Print Assumptions Mds_distance_deficit.

Theorem Mds_never_overestimates :
  forall (F : Type) (Fo : FieldOps F) (Ff : IsField F) (Fle : OrderedField F) (N d : nat)
         (V : mat F) (Lam s : vec F) (dist : mat F),
    two <> 0%F -> d <= N ->
    full_contract N (mds_matrix N dist) V Lam ->
    meq N N (mmul N V (mtrans V)) mI ->
    (forall t, t < N - d -> fle 0%F (Lam t)) ->
    (forall c, c < d -> (s c * s c)%F = Lam (N - d + c)%nat) ->
    (forall i, i < N -> dist i i = 0%F) ->
    let Y := scale_cols (select_cols N V (N - d, d)) s in
    forall i j, i < N -> j < N -> i <= j ->
      fle (sqdist d Y i j) (dist i j * dist i j)%F.
Proof. exact @mds_never_overestimates. Qed.
Print Assumptions Mds_never_overestimates.

Example Mds_distance_deficit_nonvacuous :
  @two Qc _ <> 0%F /\
  full_contract 4 (mds_matrix 4 ex4_dist) (mtrans ex4_V) ex4_Lam /\
  meq 4 4 (mmul 4 (mtrans ex4_V) (mtrans (mtrans ex4_V))) mI /\
  (forall t, t < 4 - 1 -> fle 0%F (ex4_Lam t)) /\
  (forall c, c < 1 -> (ex_s c * ex_s c)%F = ex4_Lam (4 - 1 + c)%nat) /\
  (forall i, i < 4 -> ex4_dist i i = 0%F).
Proof.
  destruct Mds_recovers_euclidean_nonvacuous as [H1 [H2 [H3 [H4 [H5 _]]]]].
  split; [exact H1|]. split; [exact H2|]. split; [exact H3|].
  split.
  { intros t Ht. rewrite (H4 t Ht). apply fle_refl. }
  split; [exact (proj2 Mds_factor_nonvacuous)|exact H5].
Qed.

(* 20. THE RANK ARGUMENT (no rank theory assumed): a homogeneous system with more unknowns than
       equations has a non-trivial solution (Gaussian elimination, any field with decidable
       equality); hence among r+1 mutually orthogonal vectors of F^r one has squared norm 0;
       hence, B = Z Z^T with Z an N x r configuration: all eigenvalues are >= 0 and the N - r
       smallest VANISH, for any ascending orthonormal eigen-answer. *)
Theorem Mds_underdetermined :
  forall (F : Type) (Fo : FieldOps F) (Ff : IsField F),
    (forall x y : F, {x = y} + {x <> y}) ->
    forall (m : nat) (A : nat -> nat -> F),
    exists c : nat -> F,
      (exists k, k < S m /\ c k <> 0%F) /\
      (forall i, i < m -> sumn (S m) (fun k => (A i k * c k)%F) = 0%F).
Proof. exact @underdetermined. Qed.
Print Assumptions Mds_underdetermined.

Theorem Mds_gram_small_eigenvalues_vanish :
  forall (n r : nat) (Z V B : mat Qc) (lam : vec Qc),
    (forall i i', i < n -> i' < n -> B i i' = sumn r (fun j => (Z i j * Z i' j)%F)) ->
    meq n n (mmul n (mtrans V) V) mI ->
    meq n n (mmul n B V) (mmul n V (mdiag lam)) ->
    ascending n lam ->
    (forall t, t < n -> (0 <= lam t)%Qc) /\
    (forall t, t < n - r -> lam t = Q2Qc 0).
Proof. exact gram_small_eigenvalues_vanish. Qed.
Print Assumptions Mds_gram_small_eigenvalues_vanish.

(* 21. THE CONSEQUENCE CLAUSE OF C05, at full strength (this replaces the hypothesis "all but
       the selected eigenvalues are zero" of theorem 9 by the geometric one): N points with r
       coordinates, r <= target_dimension d <= N, dist their Euclidean distances, (V, Lam) ANY
       full ascending orthonormal eigen-answer for the matrix MDS hands to the solver, s the
       sqrt answers for max(lambda, 0): the embedding reproduces EVERY pairwise distance. *)
Theorem Mds_recovers_euclidean :
  forall (N r d : nat) (X V : mat Qc) (Lam s : vec Qc) (dist : mat Qc),
    N <> 0 -> r <= d -> d <= N ->
    (forall i j, i < N -> j < N -> i <= j -> (dist i j * dist i j)%Qc = sqdist r X i j) ->
    (forall i, i < N -> dist i i = Q2Qc 0) ->
    full_contract N (mds_matrix N dist) V Lam ->
    meq N N (mmul N V (mtrans V)) mI ->
    ascending N Lam ->
    (forall c, c < d -> (s c * s c)%Qc = qmax0 (Lam (N - d + c)%nat)) ->
    let Y := scale_cols (select_cols N V (N - d, d)) s in
    forall i j, i < N -> j < N -> i <= j -> sqdist d Y i j = (dist i j * dist i j)%Qc.
Proof. exact mds_recovers_euclidean_Qc. Qed.
Print Assumptions Mds_recovers_euclidean.

Example Mds_recovers_euclidean_full_nonvacuous :
  4 <> 0 /\ 1 <= 1 /\ 1 <= 4 /\
  (forall i j, i < 4 -> j < 4 -> i <= j -> (exr_dist i j * exr_dist i j)%Qc = sqdist 1 exr_X i j) /\
  (forall i, i < 4 -> exr_dist i i = Q2Qc 0) /\
  full_contract 4 (mds_matrix 4 exr_dist) exr_V exr_Lam /\
  meq 4 4 (mmul 4 exr_V (mtrans exr_V)) mI /\
  ascending 4 exr_Lam /\
  (forall c, c < 1 -> (exr_s c * exr_s c)%Qc = qmax0 (exr_Lam (4 - 1 + c)%nat)).
Proof. exact exr_ok. Qed.

(* 22. Y Y^T = B EXACTLY when B = Z Z^T with Z an N x r configuration, r <= d (any ascending
       orthonormal eigen-answer, sqrt answers for max(lambda,0)); and the Kernel PCA counterpart of
       theorem 21: linear kernel on points with r <= d coordinates => all distances reproduced. *)
Theorem Mds_gram_recovered :
  forall (n r d : nat) (Z V B : mat Qc) (lam s : vec Qc),
    r <= d -> d <= n ->
    (forall i i', i < n -> i' < n -> B i i' = sumn r (fun j => (Z i j * Z i' j)%F)) ->
    full_contract n B V lam ->
    meq n n (mmul n V (mtrans V)) mI ->
    ascending n lam ->
    (forall c, c < d -> (s c * s c)%Qc = qmax0 (lam (n - d + c)%nat)) ->
    let Y := scale_cols (select_cols n V (n - d, d)) s in
    forall a b, a < n -> b < n -> mmul d Y (mtrans Y) a b = B a b.
Proof. exact gram_recovered_Qc. Qed.
Print Assumptions Mds_gram_recovered.

Theorem Mds_kpca_linear_recovers_euclidean :
  forall (N r d : nat) (X V : mat Qc) (Lam s : vec Qc) (kern : mat Qc),
    N <> 0 -> r <= d -> d <= N ->
    (forall i j, i < N -> j < N -> i <= j -> kern i j = dot r (mrow X i) (mrow X j)) ->
    full_contract N (kpca_matrix N kern) V Lam ->
    meq N N (mmul N V (mtrans V)) mI ->
    ascending N Lam ->
    (forall c, c < d -> (s c * s c)%Qc = qmax0 (Lam (N - d + c)%nat)) ->
    let Y := scale_cols (select_cols N V (N - d, d)) s in
    forall i j, i < N -> j < N -> sqdist d Y i j = sqdist r X i j.
Proof. exact kpca_linear_recovers_euclidean_Qc. Qed.
Print Assumptions Mds_kpca_linear_recovers_euclidean.

Example Mds_kpca_linear_nonvacuous :
  (forall i j, i < 4 -> j < 4 -> i <= j -> exr_kern i j = dot 1 (mrow exr_X i) (mrow exr_X j)) /\
  full_contract 4 (kpca_matrix 4 exr_kern) exr_V exr_Lam.
Proof. exact exr_kpca_ok. Qed.

(* ====================================================================== *)
(*  Wave 2                                                                 *)
(* ====================================================================== *)

(* 23. the factor specification with a tolerance PER ENTRY (per-column relative: a retained eigenvalue 10
       decades below the top one is still checked): the extracted procedure decides it; with tolerances all
       <= tol it implies the uniform specification, with tolerances 0 it is factor_spec itself. *)
Theorem Mds_factor_spec_wtol_decision :
  forall n d (T1 : list (list Qc)) (T2 : list Qc) (B Y : list (list Qc)) (lam : list Qc),
    c05_factor_w n d T1 T2 B Y lam = Some true ->
    factor_spec_wtol n d (mof T1) (vof T2) (mof B) (mof Y) (vof lam).
Proof. exact factor_spec_wtol_b_ok. Qed.
Print Assumptions Mds_factor_spec_wtol_decision.

Theorem Mds_factor_spec_wtol_uniform :
  forall n d tol (T1 : mat Qc) (T2 : vec Qc) (B Y : mat Qc) (lam : vec Qc),
    (forall a b, a < d -> b < d -> (T1 a b <= tol)%Qc) ->
    (forall c, c < d -> (T2 c <= tol)%Qc) ->
    factor_spec_wtol n d T1 T2 B Y lam ->
    factor_spec_tol n d tol B Y lam.
Proof. exact factor_spec_wtol_uniform. Qed.
Print Assumptions Mds_factor_spec_wtol_uniform.

Theorem Mds_factor_spec_wtol_exact :
  forall n d (B Y : mat Qc) (lam : vec Qc),
    factor_spec_wtol n d (fun _ _ => Q2Qc 0) (fun _ => Q2Qc 0) B Y lam ->
    factor_spec n d B Y lam.
Proof. exact factor_spec_wtol_exact. Qed.
Print Assumptions Mds_factor_spec_wtol_exact.

Example Mds_factor_spec_wtol_nonvacuous :
  c05_factor_w 2 1 [[Q2Qc 0]] [Q2Qc 0] [[qz 1; qz (-1)]; [qz (-1); qz 1]] [[qz 1]; [qz (-1)]] [qz 2] = Some true /\
  c05_factor_w 2 1 [[qfrac 1 2]] [qfrac 1 2] [[qz 1; qz (-1)]; [qz (-1); qz 1]] [[qz 0]; [qz 0]] [qz 2] = Some false.
Proof. split; vm_compute; reflexivity. Qed.

(* 24. THE RANDOMIZED FRONT-END, STEP BY STEP (eigendecomposition_impl_randomized; the loop is c06's executable
       model Spectral_Randomized.gram_schmidt_thr, reused).
       (a) loop invariant: every column the Gram-Schmidt loop produces stays in the column space of Z when the
           starting columns do;
       (b) k orthonormal vectors inside the column space of an n x r matrix Z with r <= k capture the range of
           B = Z Z^T :  Y (Y^T B) = B   (dimension argument from Mds_underdetermined; any field with decidable =);
       (c) the whole front-end on a symmetric B = Z Z^T of rank <= k: ANY test matrix O, norm-oracle answers s with
           s_i^2 = the squared norm the loop asked for, none zero, none under the cut-off (the `norm < 1e-4` branch
           is not taken: otherwise known finding F36), Bs ANY solution of the normal equations of the QR solve,
           (W, Theta) ANY orthonormal eigen-answer for Bs  ==>  (Y W, Theta) meets the dense solver's contract for B
           and B = (Y W) Theta (Y W)^T. *)
Theorem Mds_gram_schmidt_in_span :
  forall (F : Type) (Fo : FieldOps F) (Ff : IsField F) (n r : nat) (Z Y0 : mat F) (K : nat) (s : nat -> F) (i : nat),
    i <= K ->
    (forall c, c < K -> in_span n r Z (fun t => Y0 t c)) ->
    forall c, c < K -> in_span n r Z (fun t => gram_schmidt n Y0 i s t c).
Proof. exact @gram_schmidt_in_span. Qed.
Print Assumptions Mds_gram_schmidt_in_span.

Theorem Mds_range_captured :
  forall (F : Type) (Fo : FieldOps F) (Ff : IsField F) (eq_dec : forall x y : F, {x = y} + {x <> y})
         (n r k : nat) (Z B Y : mat F),
    r <= k ->
    (forall i i', i < n -> i' < n -> B i i' = sumn r (fun j => (Z i j * Z i' j)%F)) ->
    (forall c, c < k -> in_span n r Z (fun t => Y t c)) ->
    orthonormal_cols n k Y ->
    meq n n (mmul k Y (mmul n (mtrans Y) B)) B.
Proof. exact @range_captured. Qed.
Print Assumptions Mds_range_captured.

Theorem Mds_randomized_path :
  forall (F : Type) (Fo : FieldOps F) (Ff : IsField F) (eq_dec : forall x y : F, {x = y} + {x <> y})
         (below : F -> bool) (n r k : nat) (Z B O Bs W : mat F) (s : nat -> F) (theta : vec F),
    r <= k ->
    msym n B ->
    (forall i i', i < n -> i' < n -> B i i' = sumn r (fun j => (Z i j * Z i' j)%F)) ->
    (forall i, i < k -> below (s i) = false) ->
    (forall i, i < k ->
       s i <> 0%F /\
       (s i * s i)%F = (let Yi := gram_schmidt n (rand_Y0 n B O) i s in
                        let col := gs_subtract n Yi i i (fun t => Yi t i) in dot n col col)) ->
    let Y := rand_basis below n k B O s in
    rand_normal_eq n k Y (rand_B1 n B Y) Bs ->
    eig_pairs k k Bs W theta ->
    let P := rand_vectors k Y W in
    eig_contract n k B P theta /\
    (forall i j, i < n -> j < n -> B i j = sumn k (fun c => (P i c * theta c * P j c)%F)).
Proof. exact @mds_randomized_path. Qed.
Print Assumptions Mds_randomized_path.

(* 25. the consequence clause for the RANDOMIZED solver (Qc): N points with r <= d coordinates, MDS with
       eigen_method = Randomized (k = d), everything as in 24, sqrt answers for max(theta,0)
       ==> every pairwise distance is reproduced. *)
Theorem Mds_randomized_recovers_euclidean :
  forall (below : Qc -> bool) (N r d : nat) (X dist O Bs W : mat Qc) (s : nat -> Qc) (theta sq : vec Qc),
    N <> 0 -> r <= d ->
    (forall i j, i < N -> j < N -> i <= j -> (dist i j * dist i j)%Qc = sqdist r X i j) ->
    let B := mds_matrix N dist in
    (forall i, i < d -> below (s i) = false) ->
    (forall i, i < d ->
       s i <> Q2Qc 0 /\
       (s i * s i)%Qc = (let Yi := gram_schmidt N (rand_Y0 N B O) i s in
                        let col := gs_subtract N Yi i i (fun t => Yi t i) in dot N col col)) ->
    let Y := rand_basis below N d B O s in
    rand_normal_eq N d Y (rand_B1 N B Y) Bs ->
    eig_pairs d d Bs W theta ->
    (forall c, c < d -> (sq c * sq c)%Qc = qmax0 (theta c)) ->
    let E := scale_cols (rand_vectors d Y W) sq in
    forall i j, i < N -> j < N -> sqdist d E i j = sqdist r X i j.
Proof. exact mds_randomized_recovers_euclidean_Qc. Qed.
Print Assumptions Mds_randomized_recovers_euclidean.

(* four points +1,-1,+1,-1 on a line, test matrix e_1: every hypothesis of 24 / 25 holds and the model's
   embedding is (1,-1,1,-1) *)
Example Mds_randomized_path_nonvacuous :
  let B := mds_matrix 4 exr_dist in
  (forall i, i < 1 -> exq_below (exq_s i) = false) /\
  (forall i, i < 1 ->
     exq_s i <> Q2Qc 0 /\
     (exq_s i * exq_s i)%Qc = (let Yi := gram_schmidt 4 (rand_Y0 4 B exq_O) i exq_s in
                              let col := gs_subtract 4 Yi i i (fun t => Yi t i) in dot 4 col col)) /\
  (let Y := rand_basis exq_below 4 1 B exq_O exq_s in
   rand_normal_eq 4 1 Y (rand_B1 4 B Y) exq_Bs) /\
  eig_pairs 1 1 exq_Bs exq_W exq_theta /\
  (forall c, c < 1 -> (exq_sq c * exq_sq c)%Qc = qmax0 (exq_theta c)) /\
  mtab 4 1 (scale_cols (rand_vectors 1 (rand_basis exq_below 4 1 B exq_O exq_s) exq_W) exq_sq)
    = [[qz 1]; [qz (-1)]; [qz 1]; [qz (-1)]].
Proof. exact exq_ok. Qed.

(* 25b. REFUTED for the randomized front-end: scale equivariance (theorem 8 is about the dense path).  The cut-off
        of the Gram-Schmidt loop is ABSOLUTE (norm < 1e-4): on the same four points scaled by 2^-20 the model's
        branch fires and the basis is the zero column, at scale 1 it is (1,-1,1,-1)/2.  Known finding F36 (scale
        variant): the C++ then throws eigendecomposition_error / returns NaN. *)
Theorem Mds_randomized_scale_equivariance_refuted :
  let B := mds_matrix 4 exr_dist in
  mtab 4 1 (rand_basis exq_below 4 1 B exq_O exq_s)
    = [[qfrac 1 2]; [qfrac (-1) 2]; [qfrac 1 2]; [qfrac (-1) 2]] /\
  exq_below (exq_c2 * qz 2)%Qc = true /\
  ((exq_c2 * qz 2) * (exq_c2 * qz 2))%Qc =
     (let Y0 := rand_Y0 4 (mscale exq_c2 B) exq_O in dot 4 (fun t => Y0 t 0) (fun t => Y0 t 0)) /\
  mtab 4 1 (rand_basis exq_below 4 1 (mscale exq_c2 B) exq_O (fun _ => (exq_c2 * qz 2)%Qc))
    = [[Q2Qc 0]; [Q2Qc 0]; [Q2Qc 0]; [Q2Qc 0]].
Proof. exact exq_scale_refuted. Qed.
Print Assumptions Mds_randomized_scale_equivariance_refuted.

(* 26. OPTIMALITY WITH EIGENVALUES OF ANY SIGN (non-Euclidean dissimilarities; round 2 had B >= 0 only).
       lam = lp - lm, lp = max(lam,0), lm = max(-lam,0); the methods scale by sqrt(max(lam,0)).  For EVERY
       competitor Q C Q^T (Q any orthonormal d-frame, C any d x d) that is positive semi-definite as a
       quadratic form:  |B - Q C Q^T|_F^2 >= sum_{t<n-d} lp_t^2 + sum_t lm_t^2 = |B - Y Y^T|_F^2.
       Every ordered field; closed at Qc with lp = qmax0 lam. *)
Theorem Mds_eckart_young_clamped :
  forall (F : Type) (Fo : FieldOps F) (Ff : IsField F) (Fle : OrderedField F)
         (n d : nat) (B V Q C : mat F) (lam lp lm : vec F),
    d <= n ->
    meq n n (mmul n (mtrans V) V) mI ->
    meq n n (mmul n V (mtrans V)) mI ->
    meq n n (mmul n B V) (mmul n V (mdiag lam)) ->
    (forall t, t < n -> lam t = (lp t - lm t)%F) ->
    (forall t, t < n -> fle 0%F (lp t)) ->
    (forall t, t < n -> fle 0%F (lm t)) ->
    (forall t, t < n -> (lp t * lm t)%F = 0%F) ->
    Spectral_KyFan.ascending n lp ->
    meq d d (mmul n (mtrans Q) Q) mI ->
    (forall x : vec F, fle 0%F (qf n (lowrank d Q C) x)) ->
    fle (sumn (n - d) (sq lp) + sumn n (sq lm))%F (fro2 n n (msub B (lowrank d Q C))).
Proof. exact @eckart_young_clamped. Qed.
Print Assumptions Mds_eckart_young_clamped.

Theorem Mds_attains_bound_clamped :
  forall (F : Type) (Fo : FieldOps F) (Ff : IsField F)
         (n d : nat) (B V : mat F) (lam lp lm s : vec F),
    d <= n ->
    meq n n (mmul n (mtrans V) V) mI ->
    meq n n (mmul n V (mtrans V)) mI ->
    meq n n (mmul n B V) (mmul n V (mdiag lam)) ->
    (forall t, t < n -> lam t = (lp t - lm t)%F) ->
    (forall t, t < n -> (lp t * lm t)%F = 0%F) ->
    (forall c, c < d -> (s c * s c)%F = lp (n - d + c)%nat) ->
    let Y := scale_cols (select_cols n V (n - d, d)) s in
    fro2 n n (msub B (mmul d Y (mtrans Y))) = (sumn (n - d) (sq lp) + sumn n (sq lm))%F.
Proof. exact @mds_attains_bound_clamped. Qed.
Print Assumptions Mds_attains_bound_clamped.

Theorem Mds_factor_optimal_clamped :
  forall (n d : nat) (B V Q C : mat Qc) (lam s : vec Qc),
    d <= n ->
    meq n n (mmul n (mtrans V) V) mI ->
    meq n n (mmul n V (mtrans V)) mI ->
    meq n n (mmul n B V) (mmul n V (mdiag lam)) ->
    Spectral_KyFan.ascending n lam ->
    (forall c, c < d -> (s c * s c)%Qc = qmax0 (lam (n - d + c)%nat)) ->
    meq d d (mmul n (mtrans Q) Q) mI ->
    (forall x : vec Qc, (0 <= qf n (lowrank d Q C) x)%Qc) ->
    let Y := scale_cols (select_cols n V (n - d, d)) s in
    (fro2 n n (msub B (mmul d Y (mtrans Y))) <= fro2 n n (msub B (lowrank d Q C)))%Qc.
Proof. exact mds_factor_optimal_clamped_Qc. Qed.
Print Assumptions Mds_factor_optimal_clamped.

(* B = diag(-1, 4), d = 1: the retained eigenvalue is 4, the discarded one NEGATIVE; competitor e_1 e_1^T *)
Example Mds_factor_optimal_clamped_nonvacuous :
  1 <= 2 /\
  meq 2 2 (mmul 2 (mtrans exc_V) exc_V) mI /\
  meq 2 2 (mmul 2 exc_V (mtrans exc_V)) mI /\
  meq 2 2 (mmul 2 exc_B exc_V) (mmul 2 exc_V (mdiag exc_lam)) /\
  Spectral_KyFan.ascending 2 exc_lam /\
  (forall c, c < 1 -> (exc_s c * exc_s c)%Qc = qmax0 (exc_lam (2 - 1 + c)%nat)) /\
  meq 1 1 (mmul 2 (mtrans exc_Q) exc_Q) mI /\
  (forall x : vec Qc, (0 <= qf 2 (lowrank 1 exc_Q exc_C) x)%Qc).
Proof. exact exc_ok. Qed.

(* 27. (wave 3) calling context.  compute_distance_matrix allocates an UNINITIALISED matrix and fills it in a
   worksharing loop inside ITS OWN `#pragma omp parallel`: whatever the allocation contained (init), whatever the size
   T >= 1 of the team the call gets (OMP_NUM_THREADS, OMP_THREAD_LIMIT, serial caller, caller inside its own parallel
   region with nested parallelism off or on: all of that only changes T), the static schedule covers every row and
   the matrix is the squared-distance matrix D2 of theorem 3. *)
Theorem Mds_static_schedule_covers :
  forall n T i : nat, 0 < T -> i < n -> In i (concat (static_shares n T)).
Proof. exact static_shares_cover. Qed.
Print Assumptions Mds_static_schedule_covers.

Theorem Mds_distance_matrix_any_team :
  forall (F : Type) (Fo : FieldOps F) (n T : nat) (dist init : mat F),
    0 < T -> meq n n (cdm_own_team n dist T init) (dist_sq_matrix dist).
Proof. exact cdm_own_team_full. Qed.
Print Assumptions Mds_distance_matrix_any_team.

(* any schedule (dynamic, guided, chunked) whose shares cover the rows *)
Theorem Mds_distance_matrix_any_schedule :
  forall (F : Type) (Fo : FieldOps F) (n : nat) (dist : mat F) (shares : list (list nat)) (init : mat F),
    (forall i, i < n -> In i (concat shares)) ->
    meq n n (team_fill n dist shares init) (dist_sq_matrix dist).
Proof. exact @team_fill_full. Qed.
Print Assumptions Mds_distance_matrix_any_schedule.

Example Mds_distance_matrix_any_team_nonvacuous :
  0 < 4 /\ (forall i, i < 5 -> In i (concat (static_shares 5 4))) /\
  (static_shares 5 4 = [[0; 1]; [2]; [3]; [4]]) /\
  (mtab 2 2 (cdm_own_team 2 (mof [[qz 0; qz 3]; [qz 7; qz 0]]) 2 (fun _ _ => qz 5)) = [[qz 0; qz 9]; [qz 9; qz 0]]).
Proof.
  split; [lia|]. split; [intros i Hi; apply static_shares_cover; lia|]. split; vm_compute; reflexivity.
Qed.

(* regression theorem for the orphaned worksharing loop (the `parallel` lost in a tidy-up): called by ONE thread of
   the caller's team of T it executes that thread's share only; every position whose smaller index lies in another
   share keeps the content of the allocation; with a serial caller (team of one) nothing changes. *)
Theorem Mds_distance_matrix_orphaned_untouched :
  forall (F : Type) (Fo : FieldOps F) (n T me : nat) (dist init : mat F) (a b : nat),
    ~ In (Nat.min a b) (static_share n T me) ->
    cdm_orphaned n dist T me init a b = init a b.
Proof. exact cdm_orphaned_untouched. Qed.
Print Assumptions Mds_distance_matrix_orphaned_untouched.

Theorem Mds_distance_matrix_orphaned_refuted :
  exists (n T me : nat) (dist init : mat Qc),
    me < T /\ ~ meq n n (cdm_orphaned n dist T me init) (dist_sq_matrix dist).
Proof. exact cdm_orphaned_refuted. Qed.
Print Assumptions Mds_distance_matrix_orphaned_refuted.

Theorem Mds_distance_matrix_orphaned_serial :
  forall (F : Type) (Fo : FieldOps F) (n : nat) (dist init : mat F),
    meq n n (cdm_orphaned n dist 1 0 init) (dist_sq_matrix dist).
Proof. exact cdm_orphaned_serial_full. Qed.
Print Assumptions Mds_distance_matrix_orphaned_serial.

Example Mds_distance_matrix_orphaned_nonvacuous :
  ~ In (Nat.min 1 1) (static_share 2 2 0) /\
  (mtab 2 2 (cdm_orphaned 2 (mof [[qz 0; qz 3]; [qz 7; qz 0]]) 2 0 (fun _ _ => qz 5)) = [[qz 0; qz 9]; [qz 9; qz 5]]).
Proof.
  split; [vm_compute; intros [H|H]; [discriminate H|exact H]|vm_compute; reflexivity].
Qed.

(* ---------------------------------------------------------------------------------------------------------------- *)
(* 28 (wave 4).  WHERE the samples come from: a container kind is a map position -> address into a memory of sample ids
   (vector, strided / reversing adaptor, deque blocks); begin[p] = mem (addr p), everything else is a decoy.  The
   squared-distance matrix depends on the container only through the sequence the range denotes; the variant that reads
   through `&*begin` is right exactly under contiguity; an identity fast path is right behind a STRICT guard and wrong
   behind std::is_sorted.                                                                                            *)
Theorem Mds_distance_matrix_denoted_sequence :
  forall (F : Type) (Fo : FieldOps F) (n : nat) (mem mem' addr addr' : nat -> nat) (cb : mat F),
    (forall p, p < n -> mem (addr p) = mem' (addr' p)) ->
    meq n n (cdm_range mem addr cb) (cdm_range mem' addr' cb).
Proof. exact cdm_range_denoted. Qed.
Print Assumptions Mds_distance_matrix_denoted_sequence.

Example Mds_distance_matrix_denoted_sequence_nonvacuous :
  (forall p, p < 2 -> rg_mem (rg_addr p) = (fun a : nat => a) ((fun q : nat => q) p)) /\
  mtab 2 2 (cdm_range rg_mem rg_addr rg_cb) = [[0%Qc; 1%Qc]; [1%Qc; 0%Qc]].
Proof.
  split; [intros p Hp; destruct p as [|[|p]]; [reflexivity|reflexivity|lia]|vm_compute; reflexivity].
Qed.

Theorem Mds_distance_matrix_range_is_table :
  forall (F : Type) (Fo : FieldOps F) (n : nat) (mem addr ids : nat -> nat) (cb : mat F),
    (forall p, p < n -> mem (addr p) = ids p) ->
    meq n n (cdm_range mem addr cb) (dist_sq_matrix (fun p q => cb (ids p) (ids q))).
Proof. exact cdm_range_is_table. Qed.
Print Assumptions Mds_distance_matrix_range_is_table.

Theorem Mds_distance_matrix_contiguity_ok :
  forall (F : Type) (Fo : FieldOps F) (n : nat) (mem addr : nat -> nat) (cb : mat F),
    (forall p, p < n -> addr p = addr 0 + p) ->
    meq n n (cdm_contig mem addr cb) (cdm_range mem addr cb).
Proof. exact cdm_contig_contiguous_ok. Qed.
Print Assumptions Mds_distance_matrix_contiguity_ok.

Theorem Mds_distance_matrix_contiguity_refuted :
  exists (n : nat) (mem addr : nat -> nat) (cb : mat Qc),
    ~ meq n n (cdm_contig mem addr cb) (cdm_range mem addr cb).
Proof. exact cdm_contig_refuted. Qed.
Print Assumptions Mds_distance_matrix_contiguity_refuted.

Theorem Mds_identity_guard_strict :
  forall (ids : nat -> nat) (n : nat), identity_guard sorted_strict_b ids n = true ->
    forall p, p < n -> ids p = p.
Proof. exact strict_guard_identity. Qed.
Print Assumptions Mds_identity_guard_strict.

Example Mds_identity_guard_strict_nonvacuous :
  identity_guard sorted_strict_b (fun p => p) 5 = true /\ identity_guard sorted_strict_b fp_ids 4 = false.
Proof. split; vm_compute; reflexivity. Qed.

Theorem Mds_distance_matrix_fastpath_strict_ok :
  forall (F : Type) (Fo : FieldOps F) (n : nat) (ids : nat -> nat) (cb : mat F),
    meq n n (cdm_fastpath sorted_strict_b n ids cb) (dist_sq_matrix (fun p q => cb (ids p) (ids q))).
Proof. exact cdm_fastpath_strict_ok. Qed.
Print Assumptions Mds_distance_matrix_fastpath_strict_ok.

Theorem Mds_distance_matrix_fastpath_nonstrict_refuted :
  exists (n : nat) (ids : nat -> nat) (cb : mat Qc),
    identity_guard sorted_nonstrict_b ids n = true /\
    ~ meq n n (cdm_fastpath sorted_nonstrict_b n ids cb) (dist_sq_matrix (fun p q => cb (ids p) (ids q))).
Proof. exact cdm_fastpath_nonstrict_refuted. Qed.
Print Assumptions Mds_distance_matrix_fastpath_nonstrict_refuted.
