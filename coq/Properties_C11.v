(* Properties_C11.v — property C11: landmark methods embed the landmarks exactly and triangulate
   the rest consistently.  Only statements; every proof is `exact <lemma>`.

   Model : Landmark_Model.v (executable; mirrors routines/landmarks.hpp select_landmarks_random and
           triangulate with its WRITE TRACE, routines/multidimensional_scaling.hpp, the embed() bodies
           of methods/landmark_multidimensional_scaling.hpp, landmark_isomap.hpp (dense branch),
           multidimensional_scaling.hpp, isomap.hpp and the `largest` branch of the dense
           eigendecomposition front end), Landmark_Float.v (the two binary64 decisions).
   Oracles (inputs of the model, contracts = hypotheses, validated at run time by checks/c11.py):
           the permutation produced by tapkee::random_shuffle (hook H1), the distance callback,
           the dense eigen-solver's answer and the sqrt values, the landmark geodesics (C04).
   Spec  : Landmark_Spec.v (landmarks_ok, tri_spec_row = -1/2 pinv(Y_L)(delta - mu),
           lm_dist_reproduced, lm_eig_contract / lm_rank_d) + boolean decision procedures.
   All algebraic theorems hold over every field (Context {F} {Fo} {Ff : IsField F}); the
   extracted / executed instance is Qc. *)
From Coq Require Import List Arith Permutation Floats ZArith QArith Qcanon.
Require String.
From TK Require Import Mat_Sums Mat_Core Mat_Qc Landmark_Model Landmark_Float Landmark_Spec
  Landmark_Proof_Trace Landmark_Proof_Euclid Landmark_Proof_Main Landmark_Proof_Ratio Landmark_Proof_Unique Landmark_Proof_Exec Landmark_Proof_Float
  Landmark_Proof_Examples Landmark_Proof_Scale.
Import ListNotations.
Import String.StringSyntax.
Local Open Scope nat_scope.

(* T1 selection: whatever permutation the shuffle produced, erasing from position `count` leaves
   `count` distinct landmarks, all < N, namely the prefix of the shuffle; and a count > N is an
   erase past end() (undefined behaviour, LOOB in the model). *)
Theorem landmarks_prefix_of_perm : forall (shuffled : list nat) (N count : nat),
  Permutation shuffled (seq 0 N) ->
  (count <= N ->
     select_landmarks shuffled count = LOk (firstn count shuffled) /\
     landmarks_ok N count (firstn count shuffled)) /\
  (N < count -> exists a b c, select_landmarks shuffled count = LOOB a b c).
Proof. exact landmarks_prefix_of_perm_lemma. Qed.
Print Assumptions landmarks_prefix_of_perm.

Example landmarks_prefix_of_perm_nonvacuous :
  Permutation [3; 1; 5; 0; 2; 4] (seq 0 6) /\ 4 <= 6 /\
  select_landmarks [3; 1; 5; 0; 2; 4] 4 = LOk [3; 1; 5; 0].
Proof. exact landmarks_prefix_nonvacuous. Qed.

(* T2 the count is trunc(fl(N * ratio)) in binary64.  PARTIAL (finite sweep, bound in the
   statement): at the smallest ratio validate() accepts, fl(3.0/N), the count is 3 except for the
   170 listed N (47, 94, 147, ... 3064), where it is 2; bound 4097 = the largest N the harness accepts + 1.  Missing: the statement for all N (needs a rounding-error proof). *)
Theorem ratio_bound_gives_three_partial : forall N : nat, 3 <= N < 4097 ->
  ratio_valid N (ratio_lower N) = true /\
  ((~ In (Z.of_nat N) short_list /\ n_landmarks_fl N (ratio_lower N) = Some 3%Z) \/
   (In (Z.of_nat N) short_list /\ n_landmarks_fl N (ratio_lower N) = Some 2%Z)).
Proof. exact ratio_bound_gives_three_partial_lemma. Qed.
Print Assumptions ratio_bound_gives_three_partial.

(* T3 landmark_ratio = 1 selects every sample (finite sweep, bound in the statement) *)
Theorem ratio_one_all_landmarks_partial : forall N : nat, 1 <= N < 4097 ->
  n_landmarks_nat N 1%float = Some N.
Proof. exact ratio_one_all_landmarks_lemma. Qed.
Print Assumptions ratio_one_all_landmarks_partial.

(* T4 triangulate: every row index < N is written exactly once and nothing else is written;
   row landmarks[i] is a copy of first.row(i) taken BEFORE the in-place division by the
   eigenvalues; every other row x is  -1/2 * pinv(Y_L) * (d(x, landmarks)^2 - mu)  in every kept
   column and 0 in every dropped (null-eigenvalue) column.  `keep c` is the outcome of the code's
   comparison second(c) > max|second| * L * eps (7bdf733); the code before that commit is the
   instance keep = keep_all (every column divided, T4 then reads as before). *)
Theorem triangulate_formula : forall (F : Type) (Fo : FieldOps F) (Ff : IsField F)
    (N d : nat) (keep : nat -> bool) (lm : list nat) (dist : mat F) (mu_size : nat) (mu : vec F)
    (E : eig_result) (ws : list (nat * vec F)),
  NoDup lm ->
  triangulate N d keep lm dist mu_size mu E = LOk ws ->
  (forall x, x < N -> count_occ Nat.eq_dec (map fst ws) x = 1) /\
  (forall x, In x (map fst ws) -> x < N) /\
  (forall i, i < length lm -> last_write ws (lmk lm i) = Some (mrow (er_first E) i)) /\
  (forall x, x < N -> ~ In x lm ->
     exists v, last_write ws x = Some v /\
       forall c, c < d ->
         v c = if keep c then tri_spec_row (length lm) lm dist mu (er_first E) (er_second E) x c
               else 0%F).
Proof. exact @triangulate_formula_lemma. Qed.
Print Assumptions triangulate_formula.

(* T5 no out-of-range access in triangulate when the shapes agree *)
Theorem triangulate_no_oob : forall (F : Type) (Fo : FieldOps F)
    (N d : nat) (keep : nat -> bool) (lm : list nat) (dist : mat F) (mu : vec F) (E : eig_result),
  Forall (fun l => l < N) lm ->
  er_rows E = length lm -> er_cols E = d -> d <= er_size E ->
  exists ws, triangulate N d keep lm dist (length lm) mu E = LOk ws.
Proof. exact @triangulate_total. Qed.
Print Assumptions triangulate_no_oob.

(* T6 "Landmark MDS embeds the landmarks exactly as MDS would embed that subset" *)
Theorem lmds_landmarks_are_mds : forall (F : Type) (Fo : FieldOps F)
    (N d : nat) (keep : nat -> bool) (lm : list nat) (dist W : mat F) (w s : vec F)
    (ws : list (nat * vec F)),
  NoDup lm ->
  lmds_embed N d keep lm dist W w s = LOk ws ->
  let L := length lm in
  let sub : mat F := fun i j => dist (lmk lm i) (lmk lm j) in
  (forall i j, lmds_matrix lm dist i j = mds_matrix_full L sub i j) /\
  exists Y, mds_embed L d W w s = LOk Y /\
            forall i, i < L -> last_write ws (lmk lm i) = Some (mrow Y i).
Proof. exact @lmds_landmarks_are_mds_lemma. Qed.
Print Assumptions lmds_landmarks_are_mds.

(* T7 "... and places every other sample by distance-based triangulation against them" *)
Theorem lmds_triangulates : forall (F : Type) (Fo : FieldOps F) (Ff : IsField F)
    (N d : nat) (keep : nat -> bool) (lm : list nat) (dist W : mat F) (w s : vec F)
    (ws : list (nat * vec F)),
  NoDup lm ->
  lmds_embed N d keep lm dist W w s = LOk ws ->
  let L := length lm in
  (forall x, x < N -> count_occ Nat.eq_dec (map fst ws) x = 1) /\
  (forall x, In x (map fst ws) -> x < N) /\
  (forall x, x < N -> ~ In x lm ->
     exists v, last_write ws x = Some v /\
       forall c, c < d ->
         v c = if keep c
               then tri_spec_row L lm dist (landmark_mu L (landmark_dist_sq lm dist))
                                 (scale_by (sel_vecs L d W) s) (sel_vals L d w) x c
               else 0%F).
Proof. exact @lmds_triangulates_lemma. Qed.
Print Assumptions lmds_triangulates.

(* T8 the "Hence" clause: Euclidean input (distances of the rows of an N x D table X) whose
   centred landmark Gram matrix is carried by the d selected eigenpairs (intrinsic dimension AT MOST
   d: a selected eigenvalue may be null, its column is then dropped and its sqrt is 0),
   eigen/sqrt oracle contract, landmarks that span the data: the embedding reproduces ALL pairwise
   distances, for every such landmark list.  For the code before 7bdf733 (keep = keep_all) the
   hypotheses force every selected eigenvalue to be non-zero, i.e. intrinsic dimension EXACTLY d:
   finding F42 (null eigenvalue used as divisor) lives in that gap. *)
Theorem lmds_reproduces_euclidean : forall (F : Type) (Fo : FieldOps F) (Ff : IsField F)
    (N D d : nat) (keep : nat -> bool) (lm : list nat) (X dist W : mat F) (w s : vec F)
    (ws : list (nat * vec F)),
  NoDup lm ->
  let L := length lm in
  let V := sel_vecs L d W in let lam := sel_vals L d w in
  of_nat L <> 0%F -> @two F Fo <> 0%F ->
  (forall a b, a < N -> b < N -> (dist a b * dist a b)%F = lm_sqdist D X a b) ->
  lmds_embed N d keep lm dist W w s = LOk ws ->
  meq L d (mmul L (lmds_matrix lm dist) V) (mmul d V (mdiag lam)) ->
  lm_rank_d L d (lmds_matrix lm dist) V lam ->
  (forall c, c < d -> (s c * s c)%F = lam c) ->
  (forall c, c < d -> keep c = true -> lam c <> 0%F) ->
  (forall c, c < d -> keep c = false -> s c = 0%F) ->
  landmarks_span N D lm X ->
  lm_dist_reproduced N d (last_write ws) dist.
Proof. exact @lmds_reproduces_euclidean_lemma. Qed.
Print Assumptions lmds_reproduces_euclidean.

(* hypotheses satisfiable: intrinsic dimension = d (all columns kept) ... *)
Example lmds_reproduces_euclidean_hypotheses_satisfiable :
  NoDup ex_lm /\
  @of_nat Qc _ (length ex_lm) <> 0%F /\ @two Qc _ <> 0%F /\
  (forall a b, a < 6 -> b < 6 -> (ex_dist a b * ex_dist a b)%F = lm_sqdist 1 ex_X a b) /\
  ex_run = LOk ex_ws /\
  meq 4 1 (mmul 4 (lmds_matrix ex_lm ex_dist) (sel_vecs 4 1 ex_W))
          (mmul 1 (sel_vecs 4 1 ex_W) (mdiag (sel_vals 4 1 ex_w))) /\
  lm_rank_d 4 1 (lmds_matrix ex_lm ex_dist) (sel_vecs 4 1 ex_W) (sel_vals 4 1 ex_w) /\
  (forall c, c < 1 -> (ex_s c * ex_s c)%F = sel_vals 4 1 ex_w c) /\
  (forall c, c < 1 -> @keep_all c = true -> sel_vals 4 1 ex_w c <> 0%F) /\
  (forall c, c < 1 -> @keep_all c = false -> ex_s c = 0%F) /\
  landmarks_span 6 1 ex_lm ex_X.
Proof. exact lmds_reproduces_euclidean_nonvacuous. Qed.

(* ... and intrinsic dimension 1 < d = 2 with the null column dropped *)
Example lmds_reproduces_euclidean_hypotheses_satisfiable_dropped_column :
  NoDup ex_lm /\
  @of_nat Qc _ (length ex_lm) <> 0%F /\ @two Qc _ <> 0%F /\
  (forall a b, a < 6 -> b < 6 -> (ex_dist a b * ex_dist a b)%F = lm_sqdist 1 ex_X a b) /\
  ex2_run = LOk ex2_ws /\
  meq 4 2 (mmul 4 (lmds_matrix ex_lm ex_dist) (sel_vecs 4 2 ex2_W))
          (mmul 2 (sel_vecs 4 2 ex2_W) (mdiag (sel_vals 4 2 ex2_w))) /\
  lm_rank_d 4 2 (lmds_matrix ex_lm ex_dist) (sel_vecs 4 2 ex2_W) (sel_vals 4 2 ex2_w) /\
  (forall c, c < 2 -> (ex2_s c * ex2_s c)%F = sel_vals 4 2 ex2_w c) /\
  (forall c, c < 2 -> ex2_keep c = true -> sel_vals 4 2 ex2_w c <> 0%F) /\
  (forall c, c < 2 -> ex2_keep c = false -> ex2_s c = 0%F) /\
  landmarks_span 6 1 ex_lm ex_X.
Proof. exact lmds_reproduces_euclidean_nonvacuous_dropped_column. Qed.

(* T8' the code before 7bdf733 divides every selected column by its eigenvalue, null or not
   (regression statement for F42; in binary64 the null eigenvalue is +-1e-15 and the quotient is
   noise of order 1e8, see corpus/C11/f42_intrinsic_dim_below_target.json) *)
Theorem lmds_null_eigenvalue_divided_before_fix : forall (F : Type) (Fo : FieldOps F)
    (E : eig_result) (d r c : nat),
  c < d -> tri_divide d keep_all E r c = (er_first E r c / er_second E c)%F.
Proof. exact @tri_divide_old_divides. Qed.
Print Assumptions lmds_null_eigenvalue_divided_before_fix.

(* T9 whole method: any permutation, any count with target_dimension <= count <= N: an embedding
   is produced, no out-of-range access, every row written exactly once *)
Theorem lmds_no_oob : forall (F : Type) (Fo : FieldOps F) (Ff : IsField F)
    (N d : nat) (keep : nat -> bool) (shuffled : list nat) (count : nat) (dist W : mat F)
    (w s : vec F),
  Permutation shuffled (seq 0 N) -> d <= count -> count <= N ->
  exists ws, lmds N d keep shuffled count dist W w s = LOk ws /\
    (forall x, x < N -> count_occ Nat.eq_dec (map fst ws) x = 1) /\
    (forall x, In x (map fst ws) -> x < N).
Proof. exact @lmds_total_lemma. Qed.
Print Assumptions lmds_no_oob.

(* T12 Landmark Isomap, dense branch: Y = B^T U diag(1/q) with B the doubly centred (row means AND
   column means) squared landmark geodesics times -1/2; under the solver contract for B B^T and
   q^4 = lam the columns of Y are orthogonal with squared norm sqrt(lam) and are eigenvectors of
   B^T B for lam. *)
Theorem lisomap_dense_formula : forall (F : Type) (Fo : FieldOps F) (Ff : IsField F)
    (N L d : nat) (G W : mat F) (w q : vec F) (Y : mat F),
  lisomap_embed N L d G W w q = LOk Y ->
  let B := lisomap_matrix L N G in
  let U := sel_vecs L d W in let lam := sel_vals L d w in
  d <= L /\
  (forall j c, Y j c = (sumn L (fun k => B k j * U k c) / q c)%F) /\
  (lm_eig_contract L d (lisomap_sym N B) U lam ->
   (forall c, c < d -> (q c * q c * (q c * q c))%F = lam c) ->
   (forall c, c < d -> q c <> 0%F) ->
   meq d d (mmul N (mtrans Y) Y) (mdiag (fun c => (q c * q c)%F)) /\
   meq N d (mmul N (mmul L (mtrans B) B) Y) (mmul d Y (mdiag lam))).
Proof. exact @lisomap_dense_formula_lemma. Qed.
Print Assumptions lisomap_dense_formula.

Example lisomap_dense_formula_nonvacuous :
  exists Y, lisomap_embed 3 2 1 (mof [[qz 0; qz 1; qz 2]; [qz 1; qz 0; qz 1]])
                          (fun _ _ => qz 1) (fun _ => qz 1) (fun _ => qz 1) = LOk Y.
Proof. exact lisomap_runs. Qed.

(* T13 ratio = 1, Landmark MDS.  With every sample a landmark, in ANY order, and a symmetric
   callback: (1) the output is literally MDS's output for the un-permuted solver answer
   Wp a = W (position of a); (2) if the answer met the solver contract for Landmark MDS's matrix
   then Wp meets it for MDS's matrix.  PARTIAL only in that "coincide up to column signs" needs
   uniqueness of unit eigenvectors for simple eigenvalues: that step is T13' (ratio_one_lmds). *)
Theorem ratio_one_lmds_partial : forall (F : Type) (Fo : FieldOps F) (Ff : IsField F)
    (N d : nat) (keep : nat -> bool) (lm : list nat) (dist W : mat F) (w s : vec F)
    (ws : list (nat * vec F)),
  Permutation lm (seq 0 N) ->
  (forall a b, a < N -> b < N -> dist a b = dist b a) ->
  lmds_embed N d keep lm dist W w s = LOk ws ->
  let Wp : mat F := fun a c => W (pos_of lm a) c in
  (exists Y0, mds_embed N d Wp w s = LOk Y0 /\
              forall a, a < N -> last_write ws a = Some (mrow Y0 a)) /\
  (lm_eig_contract N d (lmds_matrix lm dist) (sel_vecs N d W) (sel_vals N d w) ->
   lm_eig_contract N d (mds_matrix_full N dist) (sel_vecs N d Wp) (sel_vals N d w)).
Proof. exact @ratio_one_lmds_partial_lemma. Qed.
Print Assumptions ratio_one_lmds_partial.

Example ratio_one_lmds_partial_nonvacuous :
  Permutation ex_perm (seq 0 6) /\
  (forall a b, a < 6 -> b < 6 -> ex_dist a b = ex_dist b a) /\
  exists ws, lmds_embed 6 1 keep_all ex_perm ex_dist ex_W ex_w ex_s = LOk ws.
Proof. exact ratio_one_nonvacuous. Qed.

(* T13' ratio = 1, Landmark MDS, FULL: over a field with decidable equality (Qc has it), every
   sample a landmark (any order), symmetric callback; the landmark run received ANY answer meeting
   the solver contract on its d selected pairs; the MDS run a full orthonormal eigendecomposition
   with the same selected eigenvalues, each of them SIMPLE; same sqrt values.  Then the Landmark
   MDS embedding equals the MDS embedding up to one sign per column. *)
Theorem ratio_one_lmds : forall (F : Type) (Fo : FieldOps F) (Ff : IsField F)
    (Feq_dec : forall x y : F, {x = y} + {x <> y})
    (N d : nat) (keep : nat -> bool) (lm : list nat) (dist W W0 : mat F) (w w0 s : vec F)
    (ws : list (nat * vec F)) (Y0 : mat F),
  Permutation lm (seq 0 N) ->
  (forall a b, a < N -> b < N -> dist a b = dist b a) ->
  lmds_embed N d keep lm dist W w s = LOk ws ->
  lm_eig_contract N d (lmds_matrix lm dist) (sel_vecs N d W) (sel_vals N d w) ->
  mds_embed N d W0 w0 s = LOk Y0 ->
  full_eig N (mds_matrix_full N dist) W0 w0 ->
  (forall c, c < d -> sel_vals N d w c = sel_vals N d w0 c) ->
  (forall c j, c < d -> j < N -> j <> N - d + c -> w0 j <> w0 (N - d + c)) ->
  exists Y : mat F,
    (forall a, a < N -> last_write ws a = Some (mrow Y a)) /\
    same_upto_sign N d Y Y0.
Proof. exact @ratio_one_lmds_upto_sign_lemma. Qed.
Print Assumptions ratio_one_lmds.

Example ratio_one_lmds_nonvacuous :
  Permutation ex4_lm (seq 0 4) /\
  (forall a b, a < 4 -> b < 4 -> ex4_dist a b = ex4_dist b a) /\
  (exists ws, lmds_embed 4 1 keep_all ex4_lm ex4_dist ex4_W ex4_w0 ex_s = LOk ws) /\
  lm_eig_contract 4 1 (lmds_matrix ex4_lm ex4_dist) (sel_vecs 4 1 ex4_W) (sel_vals 4 1 ex4_w0) /\
  (exists Y0, mds_embed 4 1 ex4_W0 ex4_w0 ex_s = LOk Y0) /\
  full_eig 4 (mds_matrix_full 4 ex4_dist) ex4_W0 ex4_w0 /\
  (forall c j, c < 1 -> j < 4 -> j <> 4 - 1 + c -> ex4_w0 j <> ex4_w0 (4 - 1 + c)).
Proof. exact ratio_one_upto_sign_nonvacuous. Qed.

(* T14 ratio = 1, Landmark Isomap (dense).  With symmetric geodesics G and every sample a
   landmark the matrix B is Isomap's matrix with permuted rows; if the un-permuted selected
   vectors Up are eigenvectors of Isomap's matrix for eigenvalues nu = s^2 with q = s <> 0, the
   output is Isomap's output Up diag(s).  PARTIAL: that hypothesis is assumed, not derived —
   Landmark Isomap selects the d largest eigenvalues of B B^T, i.e. the d largest |nu|, Isomap the
   d largest nu; they differ when the geodesic Gram matrix has a negative eigenvalue of large
   magnitude (the check compares only when the leading spectrum is positive, simple and leading
   in magnitude). *)
Theorem ratio_one_lisomap_partial : forall (F : Type) (Fo : FieldOps F) (Ff : IsField F)
    (N d : nat) (lm : list nat) (G W : mat F) (w q : vec F) (Y : mat F),
  Permutation lm (seq 0 N) -> of_nat N <> 0%F -> @two F Fo <> 0%F ->
  (forall x y, x < N -> y < N -> G x y = G y x) ->
  lisomap_embed N N d (fun a b => G (lmk lm a) b) W w q = LOk Y ->
  let Up : mat F := fun a c => sel_vecs N d W (pos_of lm a) c in
  forall (nu s : vec F),
    meq N d (mmul N (isomap_matrix N G) Up) (mmul d Up (mdiag nu)) ->
    (forall c, c < d -> (s c * s c)%F = nu c /\ q c = s c /\ s c <> 0%F) ->
    forall j c, j < N -> c < d -> Y j c = scale_by Up s j c.
Proof. exact @ratio_one_lisomap_partial_lemma. Qed.
Print Assumptions ratio_one_lisomap_partial.

(* T14' ratio = 1, Landmark Isomap (dense), FULL under explicit spectral hypotheses: symmetric
   geodesics, every sample a landmark; the landmark run received any answer meeting the contract for
   B B^T; Isomap a full orthonormal eigendecomposition (W0, w0) of its matrix; each eigenvalue the
   landmark method selected is the SQUARE of the one Isomap selected and NO OTHER eigenvalue of
   Isomap's matrix has that square (this is what fails in finding F44: a negative eigenvalue of
   larger magnitude); q = s = sqrt nu <> 0.  Then the two embeddings agree up to column signs. *)
Theorem ratio_one_lisomap : forall (F : Type) (Fo : FieldOps F) (Ff : IsField F)
    (Feq_dec : forall x y : F, {x = y} + {x <> y})
    (N d : nat) (lm : list nat) (G W W0 : mat F) (w w0 q s : vec F) (Y Y0 : mat F),
  Permutation lm (seq 0 N) -> of_nat N <> 0%F -> @two F Fo <> 0%F ->
  (forall x y, x < N -> y < N -> G x y = G y x) ->
  lisomap_embed N N d (fun a b => G (lmk lm a) b) W w q = LOk Y ->
  lm_eig_contract N d (lisomap_sym N (lisomap_matrix N N (fun a b => G (lmk lm a) b)))
                  (sel_vecs N d W) (sel_vals N d w) ->
  mds_embed N d W0 w0 s = LOk Y0 ->
  full_eig N (isomap_matrix N G) W0 w0 ->
  (forall c, c < d -> sel_vals N d w c = (sel_vals N d w0 c * sel_vals N d w0 c)%F) ->
  (forall c j, c < d -> j < N -> j <> N - d + c ->
      (w0 j * w0 j)%F <> (w0 (N - d + c)%nat * w0 (N - d + c)%nat)%F) ->
  (forall c, c < d -> (s c * s c)%F = sel_vals N d w0 c /\ q c = s c /\ s c <> 0%F) ->
  same_upto_sign N d Y Y0.
Proof. exact @ratio_one_lisomap_upto_sign_lemma. Qed.
Print Assumptions ratio_one_lisomap.

Example ratio_one_lisomap_hypotheses_satisfiable :
  Permutation ex4_lm (seq 0 4) /\ @of_nat Qc _ 4 <> 0%F /\ @two Qc _ <> 0%F /\
  (forall a b, a < 4 -> b < 4 -> ex4_dist a b = ex4_dist b a) /\
  (exists Y, lisomap_embed 4 4 1 ex4_G ex4_W ex4_w2 ex_s = LOk Y) /\
  lm_eig_contract 4 1 (lisomap_sym 4 (lisomap_matrix 4 4 ex4_G)) (sel_vecs 4 1 ex4_W) (sel_vals 4 1 ex4_w2) /\
  (exists Y0, mds_embed 4 1 ex4_W0 ex4_w0 ex_s = LOk Y0) /\
  full_eig 4 (isomap_matrix 4 ex4_dist) ex4_W0 ex4_w0 /\
  (forall c, c < 1 -> sel_vals 4 1 ex4_w2 c = (sel_vals 4 1 ex4_w0 c * sel_vals 4 1 ex4_w0 c)%F) /\
  (forall c j, c < 1 -> j < 4 -> j <> 4 - 1 + c ->
      (ex4_w0 j * ex4_w0 j)%F <> (ex4_w0 (4 - 1 + c)%nat * ex4_w0 (4 - 1 + c)%nat)%F) /\
  (forall c, c < 1 -> (ex_s c * ex_s c)%F = sel_vals 4 1 ex4_w0 c /\ ex_s c = ex_s c /\ ex_s c <> 0%F).
Proof. exact ratio_one_lisomap_nonvacuous. Qed.

Local Open Scope string_scope.
(* T10 bounds, CURRENT code (fix F21, b4b2738): a request accepted by the constructor and by
   validate() has target_dimension <= count <= N for the landmark count the code computes, so the
   whole method produces an embedding without any out-of-range access. *)
Theorem lmds_validated_no_oob : forall (F : Type) (Fo : FieldOps F) (Ff : IsField F)
    (N d : nat) (keep : nat -> bool) (ratio : float) (count : nat) (shuffled : list nat)
    (dist W : mat F) (w s : vec F),
  Permutation shuffled (seq 0 N) ->
  lmds_validate N d ratio = true ->
  n_landmarks_nat N ratio = Some count ->
  d <= count /\ count <= N /\
  exists ws, lmds N d keep shuffled count dist W w s = LOk ws /\
    (forall x, x < N -> count_occ Nat.eq_dec (map fst ws) x = 1) /\
    (forall x, In x (map fst ws) -> x < N).
Proof. exact @lmds_validated_no_oob_lemma. Qed.
Print Assumptions lmds_validated_no_oob.

Example lmds_validated_no_oob_nonvacuous :
  lmds_validate 10 3 0x1.3333333333333p-2%float = true /\
  n_landmarks_nat 10 0x1.3333333333333p-2%float = Some 3.
Proof. exact (conj (proj2 (proj2 f21_validate_witness)) (proj2 f21_float_witness)). Qed.

(* T11 bounds, code BEFORE fix F21 (regression theorem): target_dimension > #landmarks was not
   rejected (InRange(1, N) on target_dimension, [3/N, 1] on the ratio only) and then rightCols(d)
   leaves the L-column eigenvector matrix, whatever the solver answered. *)
Theorem lmds_bounds_refuted : forall (F : Type) (Fo : FieldOps F)
    (N d : nat) (keep : nat -> bool) (lm : list nat) (dist W : mat F) (w s : vec F),
  Forall (fun l => l < N) lm -> length lm < d ->
  lmds_embed N d keep lm dist W w s =
    LOOB "solver.eigenvectors().rightCols(target_dimension)" d (length lm).
Proof. exact @lmds_embed_bounds. Qed.
Print Assumptions lmds_bounds_refuted.

Example lmds_bounds_refuted_witness :
  lmds_validate_old 10 5 0x1.3333333333333p-2%float = true /\
  lmds_validate 10 5 0x1.3333333333333p-2%float = false /\
  ratio_valid 10 0x1.3333333333333p-2%float = true /\
  n_landmarks_nat 10 0x1.3333333333333p-2%float = Some 3 /\
  lmds_embed 6 5 keep_all [0; 1; 2] ex_dist ex_W ex_w ex_s =
    LOOB "solver.eigenvectors().rightCols(target_dimension)" 5 3.
Proof.
  exact (conj (proj1 f21_validate_witness) (conj (proj1 (proj2 f21_validate_witness))
          (conj (proj1 f21_float_witness) (conj (proj2 f21_float_witness) lmds_bounds_witness)))).
Qed.

(* ---- T15-T19: what is extracted and run is what the theorems are about ------------------ *)
(* the memoised list versions printed by the model driver (streams T/A and I) are the
   function-level model *)
Theorem exec_lmds_stages : forall (F : Type) (Fo : FieldOps F) (lm : list nat) (Ldist : list (list F)),
  let L := length lm in
  lmds_stages_exec lm Ldist =
    (mtab L L (landmark_dist_sq lm (mof Ldist)),
     vtab L (landmark_mu L (landmark_dist_sq lm (mof Ldist))),
     mtab L L (lmds_matrix lm (mof Ldist))).
Proof. exact @lmds_stages_exec_ok. Qed.
Print Assumptions exec_lmds_stages.

Theorem exec_lisomap_matrix : forall (F : Type) (Fo : FieldOps F) (L N : nat) (LG : list (list F)),
  lisomap_matrix_exec L N LG = mtab L N (lisomap_matrix L N (mof LG)).
Proof. exact @lisomap_matrix_exec_ok. Qed.
Print Assumptions exec_lisomap_matrix.

Theorem exec_lisomap_embed : forall (F : Type) (Fo : FieldOps F) (N L d : nat) (LG : list (list F))
    (W : mat F) (w q : vec F) (Y : mat F),
  lisomap_embed N L d (mof LG) W w q = LOk Y ->
  lisomap_embed_exec N L d LG (mtab L d (fun r c => W r (L - d + c))) (vtab d q) = mtab N d Y.
Proof. exact @lisomap_embed_exec_ok. Qed.
Print Assumptions exec_lisomap_embed.

(* the boolean decision procedures the check applies to the implementation's own output *)
Theorem spec_landmarks_okb : forall N count lm,
  landmarks_okb N count lm = true <-> landmarks_ok N count lm.
Proof. exact landmarks_okb_ok. Qed.
Print Assumptions spec_landmarks_okb.

Theorem spec_dist_reproduced_b : forall N d tol Y Ldist,
  lm_dist_reproduced_b N d tol Y Ldist = Some true ->
  forall a b, a < N -> b < N ->
    (lm_qabs (lm_sqdist d (mof Y) a b - mof Ldist a b * mof Ldist a b) <= tol)%Qc.
Proof. exact lm_dist_reproduced_b_sound. Qed.
Print Assumptions spec_dist_reproduced_b.

Theorem spec_same_upto_sign_b : forall N d tol Y Z,
  lm_same_upto_sign_b N d tol Y Z = Some true ->
  forall c, c < d ->
    (forall a, a < N -> (lm_qabs (mof Y a c - mof Z a c) <= tol)%Qc) \/
    (forall a, a < N -> (lm_qabs (mof Y a c + mof Z a c) <= tol)%Qc).
Proof. exact lm_same_upto_sign_b_sound. Qed.
Print Assumptions spec_same_upto_sign_b.

(* ---------------------------------------------------------------------------------------------
   Wave 2: homogeneity.  "Reproduces all pairwise distances" for every Euclidean input includes
   inputs at every length scale; the landmark code must therefore commute with a rescaling of the
   data.  S1 holds over every field for ANY outcome `keep` of triangulate's null-eigenvalue
   comparison that is the same in the two runs; S2 + S3 show that the comparison of the shipped
   code (relative to the largest retained eigenvalue) has that invariance; S4 refutes it for a
   comparison against a constant (seeded change C11_1: Eigen's dummy_precision). *)

(* S1 data multiplied by t <> 0 (eigenvalues t^2 lam, sqrt values t s, same comparison outcomes,
   kept eigenvalues non-zero): every row of the Landmark-MDS embedding is multiplied by t *)
Theorem lmds_scale_equivariant : forall (F : Type) (Fo : FieldOps F) (Ff : IsField F)
    (N d : nat) (keep keep' : nat -> bool) (lm : list nat) (dist W : mat F) (w s : vec F)
    (ws : list (nat * vec F)) (t : F),
  NoDup lm -> t <> 0%F ->
  (forall c, c < d -> keep' c = keep c) ->
  (forall c, c < d -> keep c = true -> sel_vals (length lm) d w c <> 0%F) ->
  lmds_embed N d keep lm dist W w s = LOk ws ->
  exists ws',
    lmds_embed N d keep' lm (sc_mat t dist) W (sc_vec (t * t)%F w) (sc_vec t s) = LOk ws' /\
    forall x, x < N ->
      exists v v', last_write ws x = Some v /\ last_write ws' x = Some v' /\
                   forall c, c < d -> v' c = (t * v c)%F.
Proof. exact @lmds_scale_equivariant_lemma. Qed.
Print Assumptions lmds_scale_equivariant.

Example lmds_scale_equivariant_hyps_satisfiable :
  NoDup ex_lm /\ qz 2 <> Q2Qc 0 /\
  (forall c, c < 1 -> keep_all c = true -> sel_vals (length ex_lm) 1 ex_w c <> Q2Qc 0) /\
  lmds_embed 6 1 keep_all ex_lm ex_dist ex_W ex_w ex_s = LOk ex_ws.
Proof. exact lmds_scale_equivariant_nonvacuous. Qed.

(* S2 the comparison  second(c) > second.cwiseAbs().maxCoeff() * n_landmarks * eps  (keep_rel,
   exact rational arithmetic) does not change when every eigenvalue is multiplied by k > 0 *)
Theorem keep_rel_scale_invariant : forall (L d : nat) (eps : Qc) (lam : vec Qc) (k : Qc) (c : nat),
  (Q2Qc 0 < k)%Qc ->
  keep_rel L d eps (fun j => (k * lam j)%Qc) c = keep_rel L d eps lam c.
Proof. exact keep_rel_scale_lemma. Qed.
Print Assumptions keep_rel_scale_invariant.

(* S3 Landmark MDS with the shipped threshold is homogeneous of degree 1 in the data *)
Theorem lmds_relative_threshold_scale_equivariant : forall (N d : nat) (eps : Qc) (lm : list nat)
    (dist W : mat Qc) (w s : vec Qc) (ws : list (nat * vec Qc)) (t : Qc),
  NoDup lm -> (Q2Qc 0 < t)%Qc -> (Q2Qc 0 <= eps)%Qc ->
  let L := length lm in
  lmds_embed N d (keep_rel L d eps (sel_vals L d w)) lm dist W w s = LOk ws ->
  exists ws',
    lmds_embed N d (keep_rel L d eps (sel_vals L d (sc_vec (t * t)%Qc w))) lm
               (sc_mat t dist) W (sc_vec (t * t)%Qc w) (sc_vec t s) = LOk ws' /\
    forall x, x < N ->
      exists v v', last_write ws x = Some v /\ last_write ws' x = Some v' /\
                   forall c, c < d -> v' c = (t * v c)%Qc.
Proof. exact lmds_relative_threshold_scale_equivariant_lemma. Qed.
Print Assumptions lmds_relative_threshold_scale_equivariant.

Example lmds_relative_threshold_hyps_satisfiable :
  NoDup ex_lm /\ (Q2Qc 0 < sx_t)%Qc /\ (Q2Qc 0 <= sx_eps)%Qc /\
  (exists ws, lmds_embed 6 1 (keep_rel (length ex_lm) 1 sx_eps (sel_vals (length ex_lm) 1 ex_w))
                         ex_lm ex_dist ex_W ex_w ex_s = LOk ws) /\
  sx_row4 (lmds_embed 6 1 (keep_rel 4 1 sx_eps (sel_vals 4 1 (sc_vec (sx_t * sx_t)%Qc ex_w))) ex_lm
                      (sc_mat sx_t ex_dist) ex_W (sc_vec (sx_t * sx_t)%Qc ex_w) (sc_vec sx_t ex_s))
  = Some (3 # 100000000)%Q.
Proof. exact lmds_relative_threshold_nonvacuous. Qed.

(* S4 REFUTED for a constant threshold (triangulate with `second(c) > tau`): a configuration, a
   factor t > 0 and a non-landmark sample whose coordinate on the scaled copy is not t times its
   coordinate at unit scale (witness: tau = 10^-12, t = 10^-8, the sample lands on the origin) *)
Theorem lmds_absolute_threshold_scale_refuted :
  exists (N d : nat) (lm : list nat) (dist W : mat Qc) (w s : vec Qc) (t tau : Qc) ws ws',
    NoDup lm /\ (Q2Qc 0 < t)%Qc /\
    lmds_embed N d (keep_abs tau (sel_vals (length lm) d w)) lm dist W w s = LOk ws /\
    lmds_embed N d (keep_abs tau (sel_vals (length lm) d (sc_vec (t * t)%Qc w))) lm
               (sc_mat t dist) W (sc_vec (t * t)%Qc w) (sc_vec t s) = LOk ws' /\
    exists x c v v', x < N /\ c < d /\
      last_write ws x = Some v /\ last_write ws' x = Some v' /\ v' c <> (t * v c)%Qc.
Proof. exact lmds_absolute_threshold_scale_refuted_lemma. Qed.
Print Assumptions lmds_absolute_threshold_scale_refuted.

(* S5 Landmark Isomap, dense branch: geodesics multiplied by t <> 0 (fourth roots of the selected
   eigenvalues of B B^T by t): every coordinate is multiplied by t *)
Theorem lisomap_scale_equivariant : forall (F : Type) (Fo : FieldOps F) (Ff : IsField F)
    (N L d : nat) (G W : mat F) (w q : vec F) (Y : mat F) (t : F),
  t <> 0%F -> (forall c, c < d -> q c <> 0%F) ->
  lisomap_embed N L d G W w q = LOk Y ->
  exists Y', lisomap_embed N L d (sc_mat t G) W (sc_vec (t * t * t * t)%F w) (sc_vec t q) = LOk Y' /\
             forall j c, c < d -> Y' j c = (t * Y j c)%F.
Proof. exact @lisomap_scale_equivariant_lemma. Qed.
Print Assumptions lisomap_scale_equivariant.

Example lisomap_scale_equivariant_hyps_satisfiable :
  qz 2 <> Q2Qc 0 /\ (forall c, c < 1 -> ex_s c <> Q2Qc 0) /\
  exists Y, lisomap_embed 4 4 1 ex4_G ex4_W ex4_w2 ex_s = LOk Y.
Proof. exact lisomap_scale_equivariant_nonvacuous. Qed.
