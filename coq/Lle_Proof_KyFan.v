(* ====================================================================== *)
(*  Lle_Proof_KyFan.v — optimality clause of C08 from Ky Fan's inequality  *)
(*  (Spectral_KyFan.ky_fan_min, shared file owned by C06, any ordered      *)
(*  field):                                                                *)
(*  for a FULL orthonormal eigendecomposition M E = E diag lam,            *)
(*  E^T E = E E^T = I, lam ascending, whose column 0 is constant (the      *)
(*  skipped trivial eigenvector), EVERY N x d matrix Y with orthonormal    *)
(*  columns that sum to zero has                                           *)
(*        tr(Y^T M Y) >= lam_1 + ... + lam_d ,                             *)
(*  the value Lle_Proof_Embed.embed_cost shows the returned embedding      *)
(*  attains.  Proof: [E_0 | Y] has d+1 orthonormal columns; Ky Fan for     *)
(*  d+1; subtract lam_0 = E_0^T M E_0.                                     *)
(* ====================================================================== *)
Require Import Field Ring Arith Lia List Bool.
From TK Require Import Mat_Sums Mat_Core Lle_Model Lle_Spec Lle_Proof_Triplets Lle_Proof_Lle Lle_Proof_Ltsa
                       Lle_Proof_Embed Spectral_KyFan.
Import ListNotations.

Section KyFanCentred.
  Context {F : Type} {Fo : FieldOps F} {Ff : IsField F} {Fle : OrderedField F}.
  Add Field LleKyFanField : (@Fth F Fo Ff).
  Local Open Scope F_scope.
  Local Notation vec := (Mat_Core.vec F).
  Local Notation mat := (Mat_Core.mat F).

  Definition with_first (E Y : mat) : mat :=
    fun i c => match c with O => E i 0%nat | S c' => Y i c' end.

  Lemma quad_term_cost N (M Y : mat) c :
    sumn N (fun i => sumn N (fun j => Y i c * M i j * Y j c)) =
    dot N (mcol Y c) (mv N M (mcol Y c)).
  Proof.
    unfold dot, mv, mcol. apply sumn_ext. intros i _.
    rewrite <- sumn_mul_l. apply sumn_ext. intros j _. ring.
  Qed.

  Lemma quad_with_first N d (M E Y : mat) :
    quad N (S d) M (with_first E Y) =
    sumn N (fun i => sumn N (fun j => E i 0%nat * M i j * E j 0%nat)) + cost N d M Y.
  Proof.
    unfold quad. rewrite sumn_S_l. cbn [with_first]. f_equal.
    unfold cost. apply sumn_ext. intros c _. apply quad_term_cost.
  Qed.

  Theorem ky_fan_min_centred_gen N d (M E Y : mat) (lam : vec) c0 :
    eig_contract N M E lam ->
    meq N N (mmul N E (mtrans E)) mI ->
    (forall i, i < N -> E i 0%nat = c0) ->
    ascending N lam ->
    orthonormal_cols N d Y -> centred_cols N d Y -> 1 + d <= N ->
    fle (sumn d (fun c => lam (1 + c)%nat)) (cost N d M Y).
  Proof.
    intros [HEtE HME] HEEt Hc0 Hasc HY HYc Hd.
    assert (HQ : meq (S d) (S d) (mmul N (mtrans (with_first E Y)) (with_first E Y)) mI).
    { intros a b Ha Hb. unfold mmul, mtrans, mI.
      destruct a as [|a]; destruct b as [|b]; cbn [with_first].
      - exact (HEtE 0%nat 0%nat ltac:(lia) ltac:(lia)).
      - rewrite (sumn_ext N _ (fun i => c0 * Y i b)) by (intros i Hi; rewrite Hc0 by assumption; ring).
        rewrite sumn_mul_l, (HYc b) by lia. rewrite delta_neq by lia. ring.
      - rewrite (sumn_ext N _ (fun i => c0 * Y i a)) by (intros i Hi; rewrite Hc0 by assumption; ring).
        rewrite sumn_mul_l, (HYc a) by lia. rewrite delta_neq by lia. ring.
      - pose proof (HY a b ltac:(lia) ltac:(lia)) as H. unfold mmul, mtrans, mI in H. rewrite H.
        unfold delta. cbn [Nat.eqb]. reflexivity. }
    pose proof (ky_fan_min N (S d) M E (with_first E Y) lam ltac:(lia) HEtE HEEt HME Hasc HQ) as HK.
    rewrite quad_with_first in HK.
    assert (H0' : sumn N (fun i => sumn N (fun j => E i 0%nat * M i j * E j 0%nat)) = lam 0%nat).
    { pose proof (ky_fan_attained N 1 0 M E lam ltac:(lia) HEtE HME) as H0.
      unfold quad in H0. cbn [sumn Nat.add] in H0.
      transitivity (0 + sumn N (fun i => sumn N (fun j => E i 0%nat * M i j * E j 0%nat))); [ring|].
      rewrite H0. ring. }
    rewrite H0' in HK.
    rewrite sumn_S_l in HK.
    apply (fle_add_r _ _ (- lam 0%nat)) in HK.
    replace (lam 0%nat + sumn d (fun i => lam (S i)) + - lam 0%nat) with (sumn d (fun c => lam (1 + c)%nat)) in HK
      by (cbn [Nat.add]; ring).
    replace (lam 0%nat + cost N d M Y + - lam 0%nat) with (cost N d M Y) in HK by ring.
    exact HK.
  Qed.
  (* columns 1.. of an orthonormal E whose column 0 is a non-zero constant sum to zero *)
  Lemma cols_centred_of_const_first N d (E : mat) c0 :
    meq N N (mmul N (mtrans E) E) mI -> (forall i, i < N -> E i 0%nat = c0) -> c0 <> 0 -> 1 + d <= N ->
    centred_cols N d (select_smallest 1 d E).
  Proof.
    intros HE Hc Hc0 Hd c Hcd.
    rewrite (sumn_ext N _ (fun i => E i (1 + c)%nat)) by (intros; apply select_smallest_entry).
    pose proof (HE 0%nat (1 + c)%nat ltac:(lia) ltac:(lia)) as H. unfold mmul, mtrans, mI in H.
    rewrite (sumn_ext N _ (fun i => c0 * E i (1 + c)%nat)) in H by (intros i Hi; rewrite Hc by assumption; ring).
    rewrite sumn_mul_l in H. rewrite delta_neq in H by lia.
    replace (sumn N (fun i => E i (1 + c)%nat)) with (/ c0 * (c0 * sumn N (fun i => E i (1 + c)%nat)))
      by (field; assumption).
    rewrite H. ring.
  Qed.

  (* the property's optimality clause in one statement: the embedding the selection returns has
     orthonormal centred columns and its cost is minimal among ALL such Y *)
  Theorem embedding_optimal_gen N d (M E : mat) (lam : vec) c0 :
    eig_contract N M E lam ->
    meq N N (mmul N E (mtrans E)) mI ->
    (forall i, i < N -> E i 0%nat = c0) -> c0 <> 0 ->
    ascending N lam -> 1 + d <= N ->
    orthonormal_cols N d (select_smallest 1 d E) /\
    centred_cols N d (select_smallest 1 d E) /\
    forall Y, orthonormal_cols N d Y -> centred_cols N d Y ->
              fle (cost N d M (select_smallest 1 d E)) (cost N d M Y).
  Proof.
    intros HC HEEt Hc Hc0 Hasc Hd. split; [|split].
    - apply (embed_orthonormal N d 1 M E lam HC). lia.
    - apply (cols_centred_of_const_first N d E c0 (proj1 HC) Hc Hc0 Hd).
    - intros Y HY HYc. rewrite (embed_cost N d 1 M E lam HC) by lia.
      apply (ky_fan_min_centred_gen N d M E Y lam c0); assumption.
  Qed.
End KyFanCentred.

From Coq Require Import ZArith QArith Qcanon.
From TK Require Import Mat_Qc.
Close Scope Qc_scope.
Close Scope Q_scope.
Close Scope Z_scope.

Definition qle (x y : Qc) : Prop := Qcle x y.

Theorem ky_fan_min_centred :
  forall (N d : nat) (M E Y : mat Qc) (lam : vec Qc) (c0 : Qc),
    eig_contract N M E lam ->
    meq N N (mmul N E (mtrans E)) mI ->
    (forall i, i < N -> E i 0 = c0) ->
    (forall i j, i <= j -> j < N -> qle (lam i) (lam j)) ->
    orthonormal_cols N d Y -> centred_cols N d Y -> 1 + d <= N ->
    qle (sumn d (fun c => lam (1 + c))) (cost N d M Y).
Proof.
  intros N d M E Y lam c0 HC HE Hc Hasc HY HYc Hd.
  exact (@ky_fan_min_centred_gen Qc QcOps QcField QcOrdered N d M E Y lam c0 HC HE Hc Hasc HY HYc Hd).
Qed.

Theorem embedding_optimal :
  forall (N d : nat) (M E : mat Qc) (lam : vec Qc) (c0 : Qc),
    eig_contract N M E lam ->
    meq N N (mmul N E (mtrans E)) mI ->
    (forall i, i < N -> E i 0 = c0) -> c0 <> 0%F ->
    (forall i j, i <= j -> j < N -> qle (lam i) (lam j)) -> 1 + d <= N ->
    orthonormal_cols N d (select_smallest 1 d E) /\
    centred_cols N d (select_smallest 1 d E) /\
    forall Y, orthonormal_cols N d Y -> centred_cols N d Y ->
              qle (cost N d M (select_smallest 1 d E)) (cost N d M Y).
Proof.
  intros N d M E lam c0 HC HE Hc Hc0 Hasc Hd.
  exact (@embedding_optimal_gen Qc QcOps QcField QcOrdered N d M E lam c0 HC HE Hc Hc0 Hasc Hd).
Qed.
