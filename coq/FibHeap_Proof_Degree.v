(* FibHeap_Proof_Degree.v — T2: the degree invariant implies the Fibonacci size
   bound; arithmetic of dn_req / dn_fixed. *)
From Coq Require Import List ZArith Bool Lia Permutation Arith.
From TK Require Import FibHeap_Model FibHeap_Dn FibHeap_Proof_Basics.
Import ListNotations.

(* ---------- Fibonacci numbers ---------- *)
Lemma fib_SS : forall n, fib (S (S n)) = fib (S n) + fib n.
Proof. reflexivity. Qed.

Lemma fib_mono_S : forall n, fib n <= fib (S n).
Proof. destruct n; [cbn; lia|rewrite fib_SS; lia]. Qed.

Lemma fib_mono : forall n m, n <= m -> fib n <= fib m.
Proof.
  intros n m H. induction H as [|m H IH]; [lia|].
  pose proof (fib_mono_S m). lia.
Qed.

Lemma fib_pos : forall n, 1 <= fib (S n).
Proof.
  induction n as [|n IH]; [cbn; lia|]. rewrite fib_SS. lia.
Qed.

(* ---------- the counting lemma on lists of numbers ---------- *)
Fixpoint cntn (n : nat) (l : list nat) : nat :=
  match l with [] => 0 | e :: l' => (if Nat.ltb e n then 1 else 0) + cntn n l' end.

Fixpoint sumf (g : nat -> nat) (l : list nat) : nat :=
  match l with [] => 0 | e :: l' => g e + sumf g l' end.

(* sum of g i for i < n *)
Fixpoint sumto (g : nat -> nat) (n : nat) : nat :=
  match n with O => 0 | S n' => sumto g n' + g n' end.

Lemma cnt_map : forall n l, cnt n l = cntn n (map eff l).
Proof. induction l as [|c l IH]; cbn [cnt cntn map]; [reflexivity|]. rewrite IH. reflexivity. Qed.

Lemma cntn_app : forall n l1 l2, cntn n (l1 ++ l2) = cntn n l1 + cntn n l2.
Proof. induction l1 as [|c l1 IH]; intros l2; cbn [cntn app]; [reflexivity|]. rewrite IH. lia. Qed.

Lemma sumf_app : forall g l1 l2, sumf g (l1 ++ l2) = sumf g l1 + sumf g l2.
Proof. induction l1 as [|c l1 IH]; intros l2; cbn [sumf app]; [reflexivity|]. rewrite IH. lia. Qed.

Lemma exists_big : forall l n, cntn n l < length l ->
  exists l1 x l2, l = l1 ++ x :: l2 /\ n <= x.
Proof.
  induction l as [|e l IH]; intros n H; cbn [cntn length] in H; [lia|].
  destruct (Nat.ltb_spec e n) as [E|E].
  - destruct (IH n) as (l1 & x & l2 & Hl & Hx); [lia|].
    exists (e :: l1), x, l2. subst l. split; [reflexivity|exact Hx].
  - exists [], e, l. split; [reflexivity|exact E].
Qed.

Lemma sum_lemma : forall g, (forall a b, a <= b -> g a <= g b) ->
  forall n l, length l = n -> (forall m, cntn m l <= m) -> sumto g n <= sumf g l.
Proof.
  intros g Hg. induction n as [|n IH]; intros l Hlen Hc; cbn [sumto]; [lia|].
  destruct (exists_big l n) as (l1 & x & l2 & Hl & Hx).
  { specialize (Hc n). lia. }
  subst l. rewrite sumf_app. cbn [sumf].
  assert (Hlen' : length (l1 ++ l2) = n).
  { rewrite app_length in *. cbn [length] in Hlen. lia. }
  assert (Hc' : forall m, cntn m (l1 ++ l2) <= m).
  { intros m. specialize (Hc m). rewrite cntn_app in *. cbn [cntn] in Hc. lia. }
  specialize (IH _ Hlen' Hc'). rewrite sumf_app in IH.
  specialize (Hg _ _ Hx). lia.
Qed.

Lemma sumto_fib : forall d, S (sumto (fun e => fib (e + 1)) d) = fib (d + 2).
Proof.
  induction d as [|d IH]; [reflexivity|].
  cbn [sumto]. replace (S d + 2) with (S (S (d + 1))) by lia. rewrite fib_SS.
  replace (S (d + 1)) with (d + 2) by lia. lia.
Qed.

(* ---------- T2: size bound ---------- *)
Theorem size_fib : forall t, wf t -> fib (t_rank t + 2) <= tree_size t.
Proof.
  induction t as [i k m cs IH] using tree_ind'. intros Hwf.
  apply wf_inv in Hwf. destruct Hwf as [[_ Hdeg] Hc]. cbn [t_children] in *.
  unfold t_rank. cbn [t_children]. rewrite tree_size_eq.
  assert (Hsum : sumf (fun e => fib (e + 1)) (map eff cs) <= forest_size cs).
  { clear Hdeg. induction IH as [|c cs Hc0 _ IHcs]; [cbn; lia|].
    inversion Hc; subst. cbn [map sumf forest_size].
    specialize (Hc0 H1). specialize (IHcs H2).
    assert (fib (eff c + 1) <= fib (t_rank c + 2)).
    { apply fib_mono. unfold eff. destruct (t_marked c); lia. }
    lia. }
  assert (Hlow : sumto (fun e => fib (e + 1)) (length cs) <= sumf (fun e => fib (e + 1)) (map eff cs)).
  { apply sum_lemma.
    - intros a b Hab. apply fib_mono. lia.
    - apply map_length.
    - intros n. rewrite <- cnt_map. apply Hdeg. }
  pose proof (sumto_fib (length cs)). lia.
Qed.

(* ---------- dn_req / dn_fixed ---------- *)
Lemma dn_loop_S : forall fuel a b r cap, dn_loop fuel a b (S r) cap = S (dn_loop fuel a b r cap).
Proof.
  induction fuel as [|fuel IH]; intros a b r cap; cbn [dn_loop]; [reflexivity|].
  destruct (Z.leb a cap); [apply IH|reflexivity].
Qed.

Lemma dn_loop_spec : forall fuel r a b cap,
  a = Z.of_nat (fib (r + 2)) -> b = Z.of_nat (fib (r + 3)) ->
  (forall r', r' < r -> (Z.of_nat (fib (r' + 2)) <= cap)%Z) ->
  (cap < Z.of_nat (fib (r + fuel + 2)))%Z ->
  (cap < Z.of_nat (fib (dn_loop fuel a b r cap + 2)))%Z /\
  (forall r', r' < dn_loop fuel a b r cap -> (Z.of_nat (fib (r' + 2)) <= cap)%Z).
Proof.
  induction fuel as [|fuel IH]; intros r a b cap Ha Hb Hlow Hhigh; cbn [dn_loop].
  - replace (r + 0 + 2) with (r + 2) in Hhigh by lia. split; assumption.
  - destruct (Z.leb_spec a cap) as [E|E].
    + apply IH.
      * rewrite Hb. f_equal. f_equal. lia.
      * rewrite Ha, Hb. replace (S r + 3) with (S (S (r + 2))) by lia. rewrite fib_SS.
        replace (S (r + 2)) with (r + 3) by lia. lia.
      * intros r' Hr'. destruct (Nat.eq_dec r' r) as [->|Hne]; [lia|apply Hlow; lia].
      * replace (S r + fuel + 2) with (r + S fuel + 2) by lia. exact Hhigh.
    + split; [lia|exact Hlow].
Qed.

Lemma fib_pow2 : forall k : nat, (2 ^ Z.of_nat k <= Z.of_nat (fib (2 * k + 2)))%Z.
Proof.
  induction k as [|k IH]; [cbn; lia|].
  rewrite Nat2Z.inj_succ, Z.pow_succ_r by lia.
  replace (2 * S k + 2) with (S (S (2 * k + 2))) by lia. rewrite fib_SS.
  pose proof (fib_mono_S (2 * k + 2)). lia.
Qed.

Lemma dn_fuel_enough : forall cap, (cap < Z.of_nat (fib (0 + dn_fuel cap + 2)))%Z.
Proof.
  intros cap. unfold dn_fuel.
  replace (0 + S (S (2 * Z.to_nat (Z.log2 cap))) + 2) with (2 * S (Z.to_nat (Z.log2 cap)) + 2) by lia.
  pose proof (fib_pow2 (S (Z.to_nat (Z.log2 cap)))) as H.
  destruct (Z.ltb_spec 0 cap) as [Hpos|Hnpos].
  - pose proof (Z.log2_spec cap Hpos) as [_ Hlt]. pose proof (Z.log2_nonneg cap).
    rewrite Nat2Z.inj_succ, Z2Nat.id in H by lia. lia.
  - assert (0 < 2 ^ Z.of_nat (S (Z.to_nat (Z.log2 cap))))%Z by (apply Z.pow_pos_nonneg; lia). lia.
Qed.

(* characterisation: dn_req cap is the least r with fib (r+2) > cap *)
Theorem dn_req_spec : forall cap,
  (cap < Z.of_nat (fib (dn_req cap + 2)))%Z /\
  (forall r, r < dn_req cap -> (Z.of_nat (fib (r + 2)) <= cap)%Z).
Proof.
  intros cap. unfold dn_req. apply dn_loop_spec.
  - reflexivity.
  - reflexivity.
  - intros r' Hr'. lia.
  - apply dn_fuel_enough.
Qed.

Lemma dn_req_bound : forall cap d, (Z.of_nat (fib (d + 2)) <= cap)%Z -> d < dn_req cap.
Proof.
  intros cap d H. destruct (dn_req_spec cap) as [Hhi _].
  destruct (Nat.lt_ge_cases d (dn_req cap)) as [Hlt|Hge]; [exact Hlt|].
  assert (fib (dn_req cap + 2) <= fib (d + 2)) by (apply fib_mono; lia). lia.
Qed.

Theorem dn_fixed_eq : forall cap, dn_fixed cap = S (dn_req cap).
Proof. intros cap. unfold dn_fixed, dn_req. apply dn_loop_S. Qed.

Theorem dn_fixed_ge_req : forall cap, dn_req cap <= dn_fixed cap.
Proof. intros cap. rewrite dn_fixed_eq. lia. Qed.

(* the shipped 1 + floor(log2 cap) is below the Fibonacci bound from capacity 8 on *)
Lemma fib_le_pow2 : forall k : nat,
  (Z.of_nat (fib (k + 6)) <= 2 ^ Z.of_nat (k + 3))%Z /\ (Z.of_nat (fib (k + 7)) <= 2 ^ Z.of_nat (k + 4))%Z.
Proof.
  induction k as [|k [IH1 IH2]]; [cbn; lia|].
  replace (S k + 6) with (k + 7) by lia. replace (S k + 3) with (k + 4) by lia.
  split; [exact IH2|].
  replace (S k + 7) with (S (S (k + 6))) by lia. rewrite fib_SS.
  replace (S (k + 6)) with (k + 7) by lia.
  replace (Z.of_nat (S k + 4)) with (Z.succ (Z.succ (Z.of_nat (k + 3)))) by lia.
  replace (Z.of_nat (k + 4)) with (Z.succ (Z.of_nat (k + 3))) in IH2 by lia.
  rewrite !Z.pow_succ_r in * by lia. lia.
Qed.

Theorem dn_shipped_lt_req : forall cap, (8 <= cap)%Z -> dn_shipped cap < dn_req cap.
Proof.
  intros cap Hc. apply dn_req_bound. unfold dn_shipped.
  assert (Hpos : (0 < cap)%Z) by lia.
  pose proof (Z.log2_spec cap Hpos) as [Hlo _].
  assert (H3 : (3 <= Z.log2 cap)%Z).
  { change 3%Z with (Z.log2 8). apply Z.log2_le_mono. exact Hc. }
  set (k := Z.to_nat (Z.log2 cap) - 3).
  replace (S (Z.to_nat (Z.log2 cap)) + 2) with (k + 6) by (unfold k; lia).
  destruct (fib_le_pow2 k) as [H1 _].
  replace (Z.of_nat (k + 3)) with (Z.log2 cap) in H1 by (unfold k; lia). lia.
Qed.
