(* Par_Iso_Proof.v — property C15 LINKED with the C04 development: the parallel region of
   compute_shortest_distances_matrix under EVERY assignment of the rows to threads and EVERY interleaving of the
   reads and writes of Par_Iso_Model.iso_body:

     * no reachable configuration has a data race;
     * when all threads are done, entry (k,j) of the shared matrix is entry j of the row C04's single-row function
       computes (Dijkstra_Model.row_fl), whatever the threads' s[] / f[] arrays held at the start and whatever the
       previous iterations of the same thread left in them; the heap only has to be empty at the start;
     * hence, with C04's correctness theorems (row_pq_eq_sp / row_fib_eq_sp), the matrix is the matrix of
       shortest-path distances sp_matrix / sp_landmarks.

   Uses Par_Proof_Restore.bernstein_restore with  W k = row k,  R k = the neighbour table,  P = {the heap}. *)
From Coq Require Import List ZArith Bool Arith Lia.
Import ListNotations.
From TK Require Import Par_Model Par_Spec Par_Proof Par_Proof_Restore.
From TK Require Import Dijkstra_Model Dijkstra_Spec Dijkstra_Sched_Model Dijkstra_Proof_Base Dijkstra_Proof
     Dijkstra_Proof_Sched.
From TK Require Import Par_Iso_Model.

Notation istate := (state ikey ival unit).
Notation irun := (Par_Model.run ikey_eqb).

(* ------------------------------------------------------------------ keys *)
Lemma ikey_eqb_spec : forall x y, ikey_eqb x y = true <-> x = y.
Proof.
  intros x y; split.
  - destruct x, y; cbn; intros H; try discriminate; try reflexivity.
    + apply andb_true_iff in H. destruct H as [A B]. apply Nat.eqb_eq in A. apply Nat.eqb_eq in B. subst. reflexivity.
    + apply andb_true_iff in H. destruct H as [A B]. apply Nat.eqb_eq in A. apply Nat.eqb_eq in B. subst. reflexivity.
    + apply Nat.eqb_eq in H. subst. reflexivity.
    + apply Nat.eqb_eq in H. subst. reflexivity.
  - intros <-. destruct x; cbn; rewrite ?Nat.eqb_refl; reflexivity.
Qed.

Lemma ikey_eqb_refl : forall x, ikey_eqb x x = true.
Proof. intros x. apply ikey_eqb_spec. reflexivity. Qed.

Definition ikey_dec : forall a b : ikey, {a = b} + {a <> b}.
Proof. decide equality; apply Nat.eq_dec. Defined.

Definition iloc_dec : forall a b : iloc, {a = b} + {a <> b}.
Proof. decide equality; apply ikey_dec. Defined.

(* ------------------------------------------------------------------ reads and writes *)
Lemma rd_wr_same : forall t x v (st : istate), rd t x (wr ikey_eqb t x v st) = v.
Proof.
  intros t [x|x] v st; cbn.
  - unfold Par_Model.upd. rewrite ikey_eqb_refl. reflexivity.
  - unfold Par_Model.updp. rewrite Nat.eqb_refl. unfold Par_Model.upd. rewrite ikey_eqb_refl. reflexivity.
Qed.

Lemma rd_wr_other : forall t x y v (st : istate), x <> y -> rd t y (wr ikey_eqb t x v st) = rd t y st.
Proof.
  intros t [x|x] [y|y] v st Hne; cbn; try reflexivity.
  - unfold Par_Model.upd. destruct (ikey_eqb x y) eqn:E; [|reflexivity].
    apply ikey_eqb_spec in E. subst. exfalso. apply Hne. reflexivity.
  - unfold Par_Model.updp. rewrite Nat.eqb_refl. unfold Par_Model.upd. destruct (ikey_eqb x y) eqn:E; [|reflexivity].
    apply ikey_eqb_spec in E. subst. exfalso. apply Hne. reflexivity.
Qed.

Definition wr1 (t : nat) (s : istate) (xv : iloc * ival) : istate := wr ikey_eqb t (fst xv) (snd xv) s.
Definition apply_writes (t : nat) (l : list (iloc * ival)) (st : istate) : istate := fold_left (wr1 t) l st.

Lemma run_wr_all : forall l k t i st, irun t i (wr_all l k) st = irun t i k (apply_writes t l st).
Proof.
  induction l as [|[x v] l IH]; intros k t i st; cbn [wr_all Par_Model.run]; [reflexivity|].
  rewrite IH. reflexivity.
Qed.

Lemma run_rd_all : forall l acc k t i st,
  irun t i (rd_all l acc k) st = irun t i (k (rev acc ++ map (fun x => rd t x st) l)) st.
Proof.
  induction l as [|x l IH]; intros acc k t i st; cbn [rd_all map Par_Model.run].
  - rewrite app_nil_r. reflexivity.
  - rewrite IH. cbn [rev]. rewrite <- app_assoc. reflexivity.
Qed.

Lemma apply_writes_other : forall l t st x, ~ In x (map fst l) -> rd t x (apply_writes t l st) = rd t x st.
Proof.
  induction l as [|[y v] l IH]; intros t st x Hx; cbn [apply_writes fold_left]; [reflexivity|].
  fold (apply_writes t l (wr1 t st (y, v))). rewrite IH.
  - unfold wr1. cbn [fst snd]. apply rd_wr_other. intros ->. apply Hx. left. reflexivity.
  - intros H. apply Hx. right. exact H.
Qed.

(* all the writes to x in the list carry the value v: that is what x holds afterwards *)
Lemma apply_writes_fun : forall l t st x v,
  (forall v', In (x, v') l -> v' = v) -> In (x, v) l -> rd t x (apply_writes t l st) = v.
Proof.
  induction l as [|[y u] l IH]; intros t st x v Hf Hin; [destruct Hin|].
  cbn [apply_writes fold_left]. fold (apply_writes t l (wr1 t st (y, u))).
  destruct (in_dec iloc_dec x (map fst l)) as [Hl|Hl].
  - apply in_map_iff in Hl. destruct Hl as ((x', v') & Hx & Hl). cbn in Hx. subst x'.
    assert (v' = v) by (apply Hf; right; exact Hl). subst v'.
    apply IH; [|exact Hl]. intros v' Hv'. apply Hf. right. exact Hv'.
  - destruct Hin as [E|Hin].
    + inversion E; subst. rewrite apply_writes_other by exact Hl. unfold wr1. cbn [fst snd]. apply rd_wr_same.
    + exfalso. apply Hl. apply in_map_iff. exists (x, v). split; [reflexivity|exact Hin].
Qed.

Lemma apply_writes_clog : forall l t (st : istate), clog (apply_writes t l st) = clog st.
Proof.
  induction l as [|[y v] l IH]; intros t st; cbn [apply_writes fold_left]; [reflexivity|].
  fold (apply_writes t l (wr1 t st (y, v))). rewrite IH. destruct y; reflexivity.
Qed.

Lemma run_rd_rows : forall us K acc k t i (st : istate),
  irun t i (rd_rows us K acc k) st =
  irun t i (k (rev acc ++ map (fun u => map (fun i => getN (sh st (KNb u i))) (seq 0 K)) us)) st.
Proof.
  induction us as [|u us IH]; intros K acc k t i st; cbn [rd_rows map].
  - rewrite app_nil_r. reflexivity.
  - rewrite run_rd_all. cbn beta. cbn [rev app]. rewrite IH. cbn [rev]. rewrite <- app_assoc.
    rewrite !map_map. reflexivity.
Qed.

Lemma run_load : forall N k cont t i (st : istate),
  irun t i (load N k cont) st = irun t i (cont (mem_dstate N k t st)) st.
Proof.
  intros N k cont t i st. unfold load.
  rewrite run_rd_all. cbn beta. cbn [rev app].
  rewrite run_rd_all. cbn beta. cbn [rev app].
  rewrite run_rd_all. cbn beta. cbn [rev app].
  cbn [Par_Model.run]. unfold mem_dstate. rewrite !map_map. reflexivity.
Qed.

(* ------------------------------------------------------------------ memory <-> the values of the C04 model *)
Record enc (N k t : nat) (st : istate) (ds : dstate) : Prop := {
  enc_ld : length (d_dist ds) = N;
  enc_ls : length (d_s ds) = N;
  enc_lf : length (d_f ds) = N;
  enc_d : forall j, j < N -> sh st (KD k j) = VD (nth j (d_dist ds) None);
  enc_s : forall j, j < N -> pr st t (KS j) = VB (nth j (d_s ds) false);
  enc_f : forall j, j < N -> pr st t (KF j) = VB (nth j (d_f ds) false);
  enc_h : pr st t KHeap = VH (d_heap ds) }.

Lemma map_seq_nth : forall (A : Type) (l : list A) (d : A) N (f : nat -> A),
  length l = N -> (forall j, j < N -> f j = nth j l d) -> map f (seq 0 N) = l.
Proof.
  intros A l d N f HL Hf. apply (nth_ext _ _ d d).
  - rewrite map_length, seq_length. symmetry. exact HL.
  - intros n Hn. rewrite map_length, seq_length in Hn.
    rewrite (nth_indep _ d (f 0)) by (rewrite map_length, seq_length; exact Hn).
    rewrite map_nth. rewrite seq_nth by exact Hn. cbn. apply Hf. exact Hn.
Qed.

Lemma enc_load : forall N k t st ds, enc N k t st ds -> mem_dstate N k t st = ds.
Proof.
  intros N k t st [dd dsx df dh] [Ld Ls Lf Hd Hs Hf Hh]. cbn [d_dist d_s d_f d_heap] in *.
  unfold mem_dstate. f_equal.
  - apply (map_seq_nth _ dd None N); [exact Ld|]. intros j Hj. rewrite (Hd j Hj). reflexivity.
  - apply (map_seq_nth _ dsx false N); [exact Ls|]. intros j Hj. rewrite (Hs j Hj). reflexivity.
  - apply (map_seq_nth _ df false N); [exact Lf|]. intros j Hj. rewrite (Hf j Hj). reflexivity.
  - rewrite Hh. reflexivity.
Qed.

Lemma store_in : forall N k ds x v, In (x, v) (store_writes N k ds) ->
  (exists j, j < N /\ x = Sh (KD k j) /\ v = VD (nth j (d_dist ds) None)) \/
  (exists j, j < N /\ x = Pr (KS j) /\ v = VB (nth j (d_s ds) false)) \/
  (exists j, j < N /\ x = Pr (KF j) /\ v = VB (nth j (d_f ds) false)) \/
  (x = Pr KHeap /\ v = VH (d_heap ds)).
Proof.
  intros N k ds x v H. unfold store_writes in H.
  apply in_app_or in H. destruct H as [H|H].
  { left. apply in_map_iff in H. destruct H as (j & E & Hj). apply in_seq in Hj. inversion E. exists j. repeat split; lia. }
  apply in_app_or in H. destruct H as [H|H].
  { right; left. apply in_map_iff in H. destruct H as (j & E & Hj). apply in_seq in Hj. inversion E. exists j. repeat split; lia. }
  apply in_app_or in H. destruct H as [H|H].
  { right; right; left. apply in_map_iff in H. destruct H as (j & E & Hj). apply in_seq in Hj. inversion E. exists j. repeat split; lia. }
  right; right; right. destruct H as [E|[]]. inversion E. split; reflexivity.
Qed.

Lemma store_enc : forall N k t ds (st : istate),
  length (d_dist ds) = N -> length (d_s ds) = N -> length (d_f ds) = N ->
  enc N k t (apply_writes t (store_writes N k ds) st) ds.
Proof.
  intros N k t ds st Ld Ls Lf.
  assert (Hget : forall x v, In (x, v) (store_writes N k ds) ->
                 (forall v', In (x, v') (store_writes N k ds) -> v' = v) ->
                 rd t x (apply_writes t (store_writes N k ds) st) = v).
  { intros x v Hin Hf. apply apply_writes_fun; assumption. }
  constructor; try assumption.
  - intros j Hj. apply (Hget (Sh (KD k j))).
    + unfold store_writes. apply in_or_app. left. apply in_map_iff. exists j. split; [reflexivity|apply in_seq; lia].
    + intros v' Hv'. apply store_in in Hv'.
      destruct Hv' as [(j' & _ & E & ->)|[(j' & _ & E & _)|[(j' & _ & E & _)|(E & _)]]]; try discriminate.
      inversion E. reflexivity.
  - intros j Hj. apply (Hget (Pr (KS j))).
    + unfold store_writes. apply in_or_app. right. apply in_or_app. left.
      apply in_map_iff. exists j. split; [reflexivity|apply in_seq; lia].
    + intros v' Hv'. apply store_in in Hv'.
      destruct Hv' as [(j' & _ & E & _)|[(j' & _ & E & ->)|[(j' & _ & E & _)|(E & _)]]]; try discriminate.
      inversion E. reflexivity.
  - intros j Hj. apply (Hget (Pr (KF j))).
    + unfold store_writes. apply in_or_app. right. apply in_or_app. right. apply in_or_app. left.
      apply in_map_iff. exists j. split; [reflexivity|apply in_seq; lia].
    + intros v' Hv'. apply store_in in Hv'.
      destruct Hv' as [(j' & _ & E & _)|[(j' & _ & E & _)|[(j' & _ & E & ->)|(E & _)]]]; try discriminate.
      inversion E. reflexivity.
  - apply (Hget (Pr KHeap)).
    + unfold store_writes. apply in_or_app. right. apply in_or_app. right. apply in_or_app. right. left. reflexivity.
    + intros v' Hv'. apply store_in in Hv'.
      destruct Hv' as [(j' & _ & E & _)|[(j' & _ & E & _)|[(j' & _ & E & _)|(_ & ->)]]]; try discriminate.
      reflexivity.
Qed.

Lemma store_frame_sh : forall N k t ds (st : istate) x,
  (forall j, x <> KD k j) -> sh (apply_writes t (store_writes N k ds) st) x = sh st x.
Proof.
  intros N k t ds st x Hx.
  change (rd t (Sh x) (apply_writes t (store_writes N k ds) st) = rd t (Sh x) st).
  apply apply_writes_other. intros H. apply in_map_iff in H. destruct H as ((y, v) & E & H). cbn in E. subst y.
  apply store_in in H.
  destruct H as [(j & _ & E & _)|[(j & _ & E & _)|[(j & _ & E & _)|(E & _)]]]; try discriminate.
  inversion E. exact (Hx j H0).
Qed.

(* ------------------------------------------------------------------ the three array lengths are kept by a step *)
Definition len3 (st : dstate) : nat * nat * nat := (length (d_dist st), length (d_s st), length (d_f st)).

Lemma relax_pq_len3 : forall w u ws st st', relax_pq w u ws st = DOk st' -> len3 st' = len3 st.
Proof.
  intros w u ws; induction ws as [|v ws IH]; intros st st' H; cbn [relax_pq] in H.
  - inversion H; reflexivity.
  - destruct (nth_error (d_s st) v) as [[|]|]; [apply IH; assumption | | discriminate].
    destruct (nth_error (d_dist st) u) as [[du|]|]; [| |discriminate].
    + destruct (nth_error (d_dist st) v) as [dv|]; [|discriminate].
      destruct (lt_inf (du + w u v) dv).
      * apply IH in H. rewrite H. unfold len3; cbn [d_dist d_s d_f]. rewrite !upd_length. reflexivity.
      * apply IH; assumption.
    + destruct (nth_error (d_dist st) v); [apply IH; assumption | discriminate].
Qed.

Lemma relax_fib_len3 : forall w u ws st st', relax_fib w u ws st = DOk st' -> len3 st' = len3 st.
Proof.
  intros w u ws; induction ws as [|v ws IH]; intros st st' H; cbn [relax_fib] in H.
  - inversion H; reflexivity.
  - destruct (nth_error (d_s st) v) as [[|]|]; [apply IH; assumption | | discriminate].
    destruct (nth_error (d_dist st) u) as [[du|]|]; [| |discriminate].
    + destruct (nth_error (d_dist st) v) as [dv|]; [|discriminate].
      destruct (nth_error (d_f st) v) as [fv|]; [|discriminate].
      destruct (lt_inf (du + w u v) dv).
      * destruct fv; apply IH in H; rewrite H; unfold len3; cbn [d_dist d_s d_f]; rewrite ?upd_length; reflexivity.
      * apply IH; assumption.
    + destruct (nth_error (d_dist st) v); [|discriminate].
      destruct (nth_error (d_f st) v); [apply IH; assumption | discriminate].
Qed.

Lemma expand_len3 : forall nbrs K relax u dist s f heap st',
    (forall u ws st st', relax u ws st = DOk st' -> len3 st' = len3 st) ->
    expand nbrs K relax u dist s f heap = DOk st' ->
    len3 st' = (length dist, length s, length f).
Proof.
  intros nbrs K relax u dist s f heap st' Hr H. unfold expand in H.
  destruct (nbr_row nbrs K u); try discriminate.
  apply Hr in H. rewrite H. unfold len3; cbn [d_dist d_s d_f]. rewrite !upd_length. reflexivity.
Qed.

Lemma step_fl_len3 : forall fl nbrs w pick K st st',
    step_fl fl nbrs w pick K st = Some (DOk st') -> len3 st' = len3 st.
Proof.
  intros fl nbrs w pick K st st' H. destruct fl; cbn [step_fl] in H.
  - unfold step_pq in H. destruct (d_heap st); [discriminate|].
    destruct (pick _) as [[u d]|]; [|discriminate].
    destruct (nth_error (d_dist st) u) as [du|]; [|discriminate].
    destruct (gt_inf d du).
    + inversion H; reflexivity.
    + inversion H as [H']. eapply expand_len3 in H'; [exact H'|]. intros; eapply relax_pq_len3; eauto.
  - unfold step_fib in H. destruct (d_heap st); [discriminate|].
    destruct (pick _) as [[u d]|]; [|discriminate].
    destruct (nth_error (d_s st) u); [|discriminate].
    inversion H as [H']. eapply expand_len3 in H'; [exact H'|]. intros; eapply relax_fib_len3; eauto.
Qed.

(* ------------------------------------------------------------------ the loop of the program = C04's loop *)
Section IsoRun.
  Variable fl : flavour.
  Variable nbrs : list (list nat).
  Variable w : nat -> nat -> Z.
  Variable pick : list entry -> option entry.
  Variable N K : nat.
  Notation stepf := (step_fl fl nbrs w pick K).
  Notation iso_loop := (iso_loop fl w pick N K).

  Lemma loop_sim : forall fin k t i fuel ds ds' (st : istate),
    mem_nbrs N K (sh st) = nbrs -> enc N k t st ds ->
    loop stepf fuel ds = DOk ds' ->
    exists st', irun t i (iso_loop k fuel fin) st = irun t i fin st' /\ enc N k t st' ds' /\
                (forall x, (forall j, x <> KD k j) -> sh st' x = sh st x) /\ clog st' = clog st.
  Proof.
    intros fin k t i fuel; induction fuel as [|fuel IH]; intros ds ds' st Hnb He Hl; cbn [loop] in Hl; [discriminate|].
    cbn [Par_Iso_Model.iso_loop]. rewrite run_rd_rows. cbn [rev app].
    change (map (fun u => map (fun i0 => getN (sh st (KNb u i0))) (seq 0 K)) (seq 0 N)) with (mem_nbrs N K (sh st)).
    rewrite Hnb. rewrite run_load. rewrite (enc_load _ _ _ _ _ He).
    destruct (stepf ds) as [[ds1| |]|] eqn:Es; try discriminate.
    - rewrite run_wr_all.
      pose proof (step_fl_len3 _ _ _ _ _ _ _ Es) as HL. unfold len3 in HL.
      destruct He as [Ld Ls Lf Hd Hs Hf Hh]. inversion HL as [[L1 L2 L3]].
      set (st1 := apply_writes t (store_writes N k ds1) st).
      assert (He1 : enc N k t st1 ds1) by (apply store_enc; congruence).
      assert (Hfr : forall x, (forall j, x <> KD k j) -> sh st1 x = sh st x) by (intros x Hx; apply store_frame_sh; exact Hx).
      assert (Hnb1 : mem_nbrs N K (sh st1) = nbrs).
      { rewrite <- Hnb. unfold mem_nbrs. apply map_ext. intros u. apply map_ext. intros j.
        rewrite Hfr; [reflexivity|]. intros j'. discriminate. }
      destruct (IH ds1 ds' st1 Hnb1 He1 Hl) as (st' & Hr & He' & Hfr' & Hc').
      exists st'. split; [exact Hr|]. split; [exact He'|]. split.
      + intros x Hx. rewrite (Hfr' x Hx). apply Hfr. exact Hx.
      + rewrite Hc'. apply apply_writes_clog.
    - inversion Hl; subst ds'. exists st. split; [reflexivity|]. split; [exact He|].
      split; [intros; reflexivity|reflexivity].
  Qed.
End IsoRun.

(* ------------------------------------------------------------------ one iteration, alone *)
Lemma init_in : forall N k x v, In (x, v) (init_writes N k) ->
  exists j, j < N /\ ((x = Sh (KD k j) /\ v = VD None) \/ (x = Pr (KS j) /\ v = VB false) \/ (x = Pr (KF j) /\ v = VB false)).
Proof.
  intros N k x v H. unfold init_writes in H. apply in_flat_map in H. destruct H as (j & Hj & H).
  apply in_seq in Hj. exists j. split; [lia|].
  destruct H as [E|[E|[E|[]]]]; inversion E; auto.
Qed.

Lemma init_get : forall N k t (st : istate) j, j < N ->
  sh (apply_writes t (init_writes N k) st) (KD k j) = VD None /\
  pr (apply_writes t (init_writes N k) st) t (KS j) = VB false /\
  pr (apply_writes t (init_writes N k) st) t (KF j) = VB false.
Proof.
  intros N k t st j Hj.
  assert (Hmem : forall x v, In (x, v) [(Sh (KD k j), VD None); (Pr (KS j), VB false); (Pr (KF j), VB false)] ->
                 In (x, v) (init_writes N k)).
  { intros x v H. unfold init_writes. apply in_flat_map. exists j. split; [apply in_seq; lia|exact H]. }
  repeat split.
  - change (rd t (Sh (KD k j)) (apply_writes t (init_writes N k) st) = VD None). apply apply_writes_fun.
    + intros v' Hv'. apply init_in in Hv'. destruct Hv' as (j' & _ & [(E & ->)|[(E & _)|(E & _)]]); try discriminate. reflexivity.
    + apply Hmem. left. reflexivity.
  - change (rd t (Pr (KS j)) (apply_writes t (init_writes N k) st) = VB false). apply apply_writes_fun.
    + intros v' Hv'. apply init_in in Hv'. destruct Hv' as (j' & _ & [(E & _)|[(E & ->)|(E & _)]]); try discriminate. reflexivity.
    + apply Hmem. right. left. reflexivity.
  - change (rd t (Pr (KF j)) (apply_writes t (init_writes N k) st) = VB false). apply apply_writes_fun.
    + intros v' Hv'. apply init_in in Hv'. destruct Hv' as (j' & _ & [(E & _)|[(E & _)|(E & ->)]]); try discriminate. reflexivity.
    + apply Hmem. right. right. left. reflexivity.
Qed.

Lemma init_frame : forall N k t (st : istate) x, (forall j, x <> Sh (KD k j)) -> (forall j, x <> Pr (KS j)) ->
  (forall j, x <> Pr (KF j)) -> rd t x (apply_writes t (init_writes N k) st) = rd t x st.
Proof.
  intros N k t st x H1 H2 H3. apply apply_writes_other. intros H. apply in_map_iff in H.
  destruct H as ((y, v) & E & H). cbn in E. subst y. apply init_in in H.
  destruct H as (j & _ & [(E & _)|[(E & _)|(E & _)]]); [exact (H1 j E)|exact (H2 j E)|exact (H3 j E)].
Qed.

Section IsoAlone.
  Variable fl : flavour.
  Variable nbrs : list (list nat).
  Variable w : nat -> nat -> Z.
  Variable pick : list entry -> option entry.
  Variable N K : nat.
  Variable src_of : nat -> dres (nat * nat).
  Notation body := (iso_body fl w pick N K src_of).

  (* what iteration k, run to completion by thread t, leaves in memory — from a state whose heap is empty and whose
     s[] / f[] hold anything *)
  Lemma iso_body_run : forall k t (st : istate) src fidx row,
    mem_nbrs N K (sh st) = nbrs -> pr st t KHeap = VH [] ->
    src_of k = DOk (src, fidx) -> row_fl fl nbrs w pick N K src fidx = DOk row ->
    (forall j, j < N -> sh (irun t k (body k) st) (KD k j) = VD (nth j row None)) /\
    pr (irun t k (body k) st) t KHeap = VH [] /\
    clog (irun t k (body k) st) = clog st.
  Proof.
    intros k t st src fidx row Hnb Hh Hsrc Hrow.
    assert (Hrow' : row_of N K (step_fl fl nbrs w pick K) src fidx = DOk row) by (destruct fl; exact Hrow).
    unfold row_of, init_state in Hrow'.
    unfold Par_Iso_Model.iso_body. rewrite Hsrc.
    destruct (Nat.ltb src N) eqn:Es; [|discriminate]. destruct (Nat.ltb fidx N) eqn:Ef; [|discriminate].
    apply Nat.ltb_lt in Es. apply Nat.ltb_lt in Ef.
    destruct (loop _ _ _) as [dsf| |] eqn:El; try discriminate. inversion Hrow'; subst row. clear Hrow'.
    rewrite run_wr_all. cbn [Par_Model.run].
    set (s1 := apply_writes t (init_writes N k) st).
    assert (H1h : pr s1 t KHeap = VH []).
    { change (rd t (Pr KHeap) s1 = VH []). unfold s1. rewrite init_frame by (intros; discriminate). exact Hh. }
    set (s2 := wr ikey_eqb t (Sh (KD k src)) (VD (Some 0%Z)) s1).
    assert (H2h : rd t (Pr KHeap) s2 = VH []).
    { unfold s2. rewrite rd_wr_other by discriminate. exact H1h. }
    rewrite H2h. cbn [getH].
    set (s3 := wr ikey_eqb t (Pr KHeap) (VH [(src, 0%Z)]) s2).
    set (s4 := wr ikey_eqb t (Pr (KF fidx)) (VB true) s3).
    set (ds0 := mkD (Dijkstra_Model.upd (repeat None N) src (Some 0%Z)) (repeat false N)
                    (Dijkstra_Model.upd (repeat false N) fidx true) [(src, 0%Z)]).
    assert (He : enc N k t s4 ds0).
    { constructor; cbn [d_dist d_s d_f d_heap ds0].
      - rewrite upd_length, repeat_length. reflexivity.
      - apply repeat_length.
      - rewrite upd_length, repeat_length. reflexivity.
      - intros j Hj. change (rd t (Sh (KD k j)) s4 = VD (nth j (Dijkstra_Model.upd (repeat None N) src (Some 0%Z)) None)).
        unfold s4, s3. rewrite !rd_wr_other by discriminate. unfold s2.
        destruct (Nat.eq_dec src j) as [<-|Hne].
        + rewrite rd_wr_same. rewrite nth_upd_eq by (rewrite repeat_length; exact Es). reflexivity.
        + rewrite rd_wr_other by (intros E; inversion E; contradiction).
          rewrite nth_upd_neq by exact Hne. rewrite nth_repeat_any.
          exact (proj1 (init_get N k t st j Hj)).
      - intros j Hj. change (rd t (Pr (KS j)) s4 = VB (nth j (repeat false N) false)).
        unfold s4, s3, s2. rewrite !rd_wr_other by discriminate. rewrite nth_repeat_any.
        exact (proj1 (proj2 (init_get N k t st j Hj))).
      - intros j Hj. change (rd t (Pr (KF j)) s4 = VB (nth j (Dijkstra_Model.upd (repeat false N) fidx true) false)).
        unfold s4. destruct (Nat.eq_dec fidx j) as [<-|Hne].
        + rewrite rd_wr_same. rewrite nth_upd_eq by (rewrite repeat_length; exact Ef). reflexivity.
        + rewrite rd_wr_other by (intros E; inversion E; contradiction).
          unfold s3, s2. rewrite !rd_wr_other by discriminate.
          rewrite nth_upd_neq by exact Hne. rewrite nth_repeat_any.
          exact (proj2 (proj2 (init_get N k t st j Hj))).
      - change (rd t (Pr KHeap) s4 = VH [(src, 0%Z)]). unfold s4. rewrite rd_wr_other by discriminate.
        unfold s3. apply rd_wr_same. }
    assert (Hnb4 : mem_nbrs N K (sh s4) = nbrs).
    { rewrite <- Hnb. unfold mem_nbrs. apply map_ext. intros u. apply map_ext. intros j.
      change (getN (rd t (Sh (KNb u j)) s4) = getN (rd t (Sh (KNb u j)) st)).
      unfold s4, s3, s2. rewrite !rd_wr_other by discriminate. unfold s1.
      rewrite init_frame by (intros; discriminate). reflexivity. }
    destruct (loop_sim fl nbrs w pick N K (iso_fin) k t k _ ds0 dsf s4 Hnb4 He El) as (st' & Hr & He' & Hfr & Hc).
    change (wr ikey_eqb t (Pr (KF fidx)) (VB true) (wr ikey_eqb t (Pr KHeap) (VH [(src, 0%Z)]) s2)) with s4.
    rewrite Hr. unfold iso_fin. cbn [Par_Model.run].
    repeat split.
    - intros j Hj. change (rd t (Sh (KD k j)) (wr ikey_eqb t (Pr KHeap) (VH []) st') = VD (nth j (d_dist dsf) None)).
      rewrite rd_wr_other by discriminate. exact (enc_d _ _ _ _ _ He' j Hj).
    - change (rd t (Pr KHeap) (wr ikey_eqb t (Pr KHeap) (VH []) st') = VH []). apply rd_wr_same.
    - cbn. rewrite Hc. unfold s4, s3, s2. cbn. unfold s1. apply apply_writes_clog.
  Qed.
End IsoAlone.

(* ------------------------------------------------------------------ footprints *)
Definition isoR (k : nat) (x : ikey) : Prop := exists u i, x = KNb u i.      (* the neighbour table: read only *)
Definition isoW (k : nat) (x : ikey) : Prop := exists j, x = KD k j.         (* row k of the matrix *)
Definition isoP (x : ikey) : Prop := x = KHeap.                              (* preserved private state *)
Definition iso_canon (x : ikey) : ival := VH [].                             (* ... an empty heap *)

Lemma iso_fp_disjoint : forall n, fp_disjoint n isoR isoW.
Proof.
  intros n i j x Hi Hj Hne (c & ->) [(u & i0 & E)|(c' & E)]; [discriminate|].
  inversion E. contradiction.
Qed.

Lemma within_wr_all : forall (R W : ikey -> Prop) l (k : iprog),
  (forall x v, In (Sh x, v) l -> W x) -> within R W k -> within R W (wr_all l k).
Proof.
  intros R W l; induction l as [|[[x|x] v] l IH]; intros k Hl Hk; cbn [wr_all within]; auto.
  - split; [apply (Hl x v); left; reflexivity|]. apply IH; [|exact Hk]. intros y u Hy. apply (Hl y u). right. exact Hy.
  - apply IH; [|exact Hk]. intros y u Hy. apply (Hl y u). right. exact Hy.
Qed.

Lemma within_rd_all : forall (R W : ikey -> Prop) l acc (k : list ival -> iprog),
  (forall x, In (Sh x) l -> R x \/ W x) -> (forall vals, within R W (k vals)) -> within R W (rd_all l acc k).
Proof.
  intros R W l; induction l as [|[x|x] l IH]; intros acc k Hl Hk; cbn [rd_all within]; [apply Hk| |].
  - split; [apply Hl; left; reflexivity|]. intros v. apply IH; [|exact Hk]. intros y Hy. apply Hl. right. exact Hy.
  - intros v. apply IH; [|exact Hk]. intros y Hy. apply Hl. right. exact Hy.
Qed.

Lemma within_rd_rows : forall (R W : ikey -> Prop) us K acc (k : list (list nat) -> iprog),
  (forall u i, R (KNb u i)) -> (forall nb, within R W (k nb)) -> within R W (rd_rows us K acc k).
Proof.
  intros R W us; induction us as [|u us IH]; intros K acc k HR Hk; cbn [rd_rows]; [apply Hk|].
  apply within_rd_all.
  - intros x Hx. apply in_map_iff in Hx. destruct Hx as (i & E & _). inversion E. left. apply HR.
  - intros vals. apply IH; assumption.
Qed.

Lemma within_load : forall (R W : ikey -> Prop) N k (cont : dstate -> iprog),
  (forall j, W (KD k j)) -> (forall ds, within R W (cont ds)) -> within R W (load N k cont).
Proof.
  intros R W N k cont HW Hc. unfold load.
  apply within_rd_all.
  { intros x Hx. apply in_map_iff in Hx. destruct Hx as (j & E & _). inversion E. right. apply HW. }
  intros vd. apply within_rd_all.
  { intros x Hx. apply in_map_iff in Hx. destruct Hx as (j & E & _). discriminate. }
  intros vs. apply within_rd_all.
  { intros x Hx. apply in_map_iff in Hx. destruct Hx as (j & E & _). discriminate. }
  intros vf. cbn [within]. intros vh. apply Hc.
Qed.

Section IsoStatic.
  Variable fl : flavour.
  Variable w : nat -> nat -> Z.
  Variable pick : list entry -> option entry.
  Variable N K : nat.
  Variable src_of : nat -> dres (nat * nat).
  Notation body := (iso_body fl w pick N K src_of).
  Notation iso_loop := (iso_loop fl w pick N K).

  Lemma within_iso_loop : forall k fuel (fin : iprog),
    within (isoR k) (isoW k) fin -> within (isoR k) (isoW k) (iso_loop k fuel fin).
  Proof.
    intros k fuel fin Hfin; induction fuel as [|fuel IH]; cbn [Par_Iso_Model.iso_loop]; [exact Hfin|].
    apply within_rd_rows; [intros u i; exists u, i; reflexivity|]. intros nb.
    apply within_load; [intros j; exists j; reflexivity|]. intros ds.
    destruct (step_fl fl nb w pick K ds) as [[ds1| |]|]; try exact Hfin.
    apply within_wr_all; [|exact IH].
    intros x v Hx. apply store_in in Hx.
    destruct Hx as [(j & _ & E & _)|[(j & _ & E & _)|[(j & _ & E & _)|(E & _)]]]; try discriminate.
    inversion E. exists j. reflexivity.
  Qed.

  Lemma iso_body_within : forall k, within (isoR k) (isoW k) (body k).
  Proof.
    intros k. unfold Par_Iso_Model.iso_body.
    destruct (src_of k) as [[src fidx]| |]; try exact I.
    destruct (Nat.ltb src N); [|exact I]. destruct (Nat.ltb fidx N); [|exact I].
    apply within_wr_all.
    - intros x v Hx. apply init_in in Hx. destruct Hx as (j & _ & [(E & _)|[(E & _)|(E & _)]]); try discriminate.
      inversion E. exists j. reflexivity.
    - cbn [within]. split; [exists src; reflexivity|]. intros h. apply within_iso_loop. exact I.
  Qed.

  (* ---- private state: s[] and f[] are written before they are read; the heap is read first and left empty *)
  Lemma reinit_wr_all : forall l (k : iprog) (P : ikey -> Prop),
    reinit (fun y => (exists v, In (Pr y, v) l) \/ P y) k -> reinit P (wr_all l k).
  Proof.
    induction l as [|[[x|x] v] l IH]; intros k P H; cbn [wr_all reinit].
    - eapply reinit_mono; [|exact H]. intros y [(u & [])|Hy]. exact Hy.
    - apply IH. eapply reinit_mono; [|exact H].
      intros y [(u & [E|Hy])|Hy]; [discriminate|left; exists u; exact Hy|right; exact Hy].
    - apply IH. eapply reinit_mono; [|exact H].
      intros y [(u & [E|Hy])|Hy]; [inversion E; right; left; reflexivity|left; exists u; exact Hy|right; right; exact Hy].
  Qed.

  Lemma reinit_rd_all : forall l acc (k : list ival -> iprog) (P : ikey -> Prop),
    (forall x, In (Pr x) l -> P x) -> (forall vals, reinit P (k vals)) -> reinit P (rd_all l acc k).
  Proof.
    induction l as [|[x|x] l IH]; intros acc k P Hl Hk; cbn [rd_all reinit]; [apply Hk| |].
    - intros v. apply IH; [|exact Hk]. intros y Hy. apply Hl. right. exact Hy.
    - split; [apply Hl; left; reflexivity|]. intros v. apply IH; [|exact Hk]. intros y Hy. apply Hl. right. exact Hy.
  Qed.

  Lemma reinit_rd_rows : forall us K' acc (k : list (list nat) -> iprog) (P : ikey -> Prop),
    (forall nb, reinit P (k nb)) -> reinit P (rd_rows us K' acc k).
  Proof.
    induction us as [|u us IH]; intros K' acc k P Hk; cbn [rd_rows]; [apply Hk|].
    apply reinit_rd_all.
    - intros x Hx. apply in_map_iff in Hx. destruct Hx as (i & E & _). discriminate.
    - intros vals. apply IH. exact Hk.
  Qed.

  Definition isoQ (y : ikey) : Prop := (exists j, j < N /\ (y = KS j \/ y = KF j)) \/ y = KHeap.

  Lemma reinit_load : forall k (cont : dstate -> iprog) (P : ikey -> Prop),
    (forall y, isoQ y -> P y) -> (forall ds, reinit P (cont ds)) -> reinit P (load N k cont).
  Proof.
    intros k cont P HQ Hc. unfold load.
    apply reinit_rd_all. { intros x Hx. apply in_map_iff in Hx. destruct Hx as (j & E & _). discriminate. }
    intros vd. apply reinit_rd_all.
    { intros x Hx. apply in_map_iff in Hx. destruct Hx as (j & E & Hj). apply in_seq in Hj. inversion E.
      apply HQ. left. exists j. split; [lia|left; reflexivity]. }
    intros vs. apply reinit_rd_all.
    { intros x Hx. apply in_map_iff in Hx. destruct Hx as (j & E & Hj). apply in_seq in Hj. inversion E.
      apply HQ. left. exists j. split; [lia|right; reflexivity]. }
    intros vf. cbn [reinit]. split; [apply HQ; right; reflexivity|]. intros vh. apply Hc.
  Qed.

  Lemma reinit_iso_loop : forall k fuel (P : ikey -> Prop),
    (forall y, isoQ y -> P y) -> reinit P (iso_loop k fuel iso_fin).
  Proof.
    intros k fuel; induction fuel as [|fuel IH]; intros P HQ; cbn [Par_Iso_Model.iso_loop]; [exact I|].
    apply reinit_rd_rows. intros nb. apply reinit_load; [exact HQ|]. intros ds.
    destruct (step_fl fl nb w pick K ds) as [[ds1| |]|]; try exact I.
    apply reinit_wr_all. apply IH. intros y Hy. right. apply HQ. exact Hy.
  Qed.

  Lemma iso_body_reinit : forall k, reinit isoP (body k).
  Proof.
    intros k. unfold Par_Iso_Model.iso_body.
    destruct (src_of k) as [[src fidx]| |]; try exact I.
    destruct (Nat.ltb src N); [|exact I]. destruct (Nat.ltb fidx N); [|exact I].
    apply reinit_wr_all. cbn [reinit]. split; [right; reflexivity|]. intros h.
    apply reinit_iso_loop. intros y [(j & Hj & [->| ->])| ->].
    - right. right. left. exists (VB false). unfold init_writes. apply in_flat_map. exists j.
      split; [apply in_seq; lia|right; left; reflexivity].
    - right. right. left. exists (VB false). unfold init_writes. apply in_flat_map. exists j.
      split; [apply in_seq; lia|right; right; left; reflexivity].
    - right. left. reflexivity.
  Qed.

  (* the heap is empty when an iteration ends (heap.clear()), on every path *)
  Lemma iso_loop_restores : forall k t i fuel (st : istate),
    pr (irun t i (iso_loop k fuel iso_fin) st) t KHeap = VH [].
  Proof.
    intros k t i fuel; induction fuel as [|fuel IH]; intros st; cbn [Par_Iso_Model.iso_loop].
    - unfold iso_fin. cbn [Par_Model.run]. change (rd t (Pr KHeap) (wr ikey_eqb t (Pr KHeap) (VH []) st) = VH []). apply rd_wr_same.
    - rewrite run_rd_rows. cbn [rev app]. rewrite run_load.
      destruct (step_fl fl _ w pick K _) as [[ds1| |]|].
      + rewrite run_wr_all. apply IH.
      + unfold iso_fin. cbn [Par_Model.run]. change (rd t (Pr KHeap) (wr ikey_eqb t (Pr KHeap) (VH []) st) = VH []). apply rd_wr_same.
      + unfold iso_fin. cbn [Par_Model.run]. change (rd t (Pr KHeap) (wr ikey_eqb t (Pr KHeap) (VH []) st) = VH []). apply rd_wr_same.
      + unfold iso_fin. cbn [Par_Model.run]. change (rd t (Pr KHeap) (wr ikey_eqb t (Pr KHeap) (VH []) st) = VH []). apply rd_wr_same.
  Qed.

  Lemma iso_body_restores : forall k t (st : istate),
    (forall x, isoP x -> pr st t x = iso_canon x) -> forall x, isoP x -> pr (irun t k (body k) st) t x = iso_canon x.
  Proof.
    intros k t st Hst x ->. unfold iso_canon. specialize (Hst KHeap eq_refl). unfold iso_canon in Hst.
    unfold Par_Iso_Model.iso_body.
    destruct (src_of k) as [[src fidx]| |]; try exact Hst.
    destruct (Nat.ltb src N); [|exact Hst]. destruct (Nat.ltb fidx N); [|exact Hst].
    rewrite run_wr_all. cbn [Par_Model.run]. apply iso_loop_restores.
  Qed.
End IsoStatic.

(* ------------------------------------------------------------------ the theorem *)
Section IsoTheorem.
  Variable fl : flavour.
  Variable nbrs : list (list nat).
  Variable w : nat -> nat -> Z.
  Variable pick : list entry -> option entry.
  Variables N K R : nat.
  Variable src_of : nat -> dres (nat * nat).
  Variable want : nat -> list (option Z).          (* the row the specification assigns to row index k *)
  (* every row index has a source, and C04's single-row function (fresh arrays, empty heap) gives the wanted row *)
  Hypothesis Hrow : forall k, k < R ->
      exists src fidx, src_of k = DOk (src, fidx) /\ row_fl fl nbrs w pick N K src fidx = DOk (want k).
  Notation body := (iso_body fl w pick N K src_of).

  Theorem iso_all_schedules : forall (m0 : ikey -> ival) (p0 : nat -> ikey -> ival) asg sch qs st,
    mem_nbrs N K m0 = nbrs ->                   (* the shared memory holds the neighbour table *)
    valid_asg R asg ->                          (* every row index is given to exactly one thread, once *)
    (forall t, p0 t KHeap = VH []) ->           (* heaps are constructed empty; s[] and f[] hold ANYTHING *)
    run_sched ikey_eqb sch (init_queues body asg, mkState m0 p0 []) = (qs, st) ->
    ~ race qs /\
    (done qs ->
       (forall k j, k < R -> j < N -> sh st (KD k j) = VD (nth j (want k) None)) /\
       (forall x, (forall k j, k < R -> x <> KD k j) -> sh st x = m0 x)).
  Proof.
    intros m0 p0 asg sch qs st Hnb Hasg Hp0 Hrun.
    destruct (bernstein_restore ikey ikey_eqb ikey_eqb_spec ival unit R body isoR isoW
                (iso_fp_disjoint R) (fun i _ => iso_body_within fl w pick N K src_of i)
                isoP iso_canon (fun i _ => iso_body_reinit fl w pick N K src_of i)
                (fun i t st0 _ => iso_body_restores fl w pick N K src_of i t st0)
                m0 p0 (fun x Hx => eq_trans (f_equal (p0 0) Hx) (Hp0 0))
                asg p0 sch qs st Hasg (fun t x Hx => eq_trans (f_equal (p0 t) Hx) (Hp0 t)) Hrun) as (Hnr & Hd).
    split; [exact Hnr|]. intros Hdone. destruct (Hd Hdone) as (A1 & A2 & _ & _).
    split.
    - intros k j Hk Hj. rewrite (A1 k (KD k j) Hk (ex_intro _ j eq_refl)).
      unfold Final, st_ref.
      destruct (Hrow k Hk) as (src & fidx & Es & Er).
      exact (proj1 (iso_body_run fl nbrs w pick N K src_of k 0 (mkState m0 p0 []) src fidx (want k)
                                 Hnb (Hp0 0) Es Er) j Hj).
    - intros x Hx. apply A2. intros k Hk (j & ->). exact (Hx k j Hk eq_refl).
  Qed.
End IsoTheorem.

(* a well-formed neighbour table, laid out in memory, is read back as itself *)
Lemma enc_nbrs_ok : forall nbrs N K dflt, wf_graph nbrs N K -> mem_nbrs N K (enc_nbrs nbrs dflt) = nbrs.
Proof.
  intros nbrs N K dflt (HL & HF). unfold mem_nbrs.
  apply (map_seq_nth _ nbrs [] N); [exact HL|]. intros u Hu. cbn [enc_nbrs getN].
  rewrite Forall_forall in HF. destruct (HF (nth u nbrs []) (nth_In _ _ (eq_ind_r (fun n => u < n) Hu HL))) as (HK & _).
  apply (map_seq_nth _ (nth u nbrs []) O K); [exact HK|]. intros i Hi. reflexivity.
Qed.

(* ---- first overload (sources 0..N-1), both heap variants: the matrix of shortest-path distances *)
Theorem iso_full_matrix_all_schedules : forall fl nbrs w N K pick m0 p0 asg sch qs st,
  wf_graph nbrs N K -> nonneg_w nbrs w -> pick_ok pick ->
  mem_nbrs N K m0 = nbrs -> valid_asg N asg -> (forall t, p0 t KHeap = VH []) ->
  run_sched ikey_eqb sch (init_queues (iso_body fl w pick N K (fun k => DOk (k, k))) asg, mkState m0 p0 []) = (qs, st) ->
  ~ race qs /\
  (done qs -> forall k j, k < N -> j < N -> sh st (KD k j) = VD (sp nbrs w N k j)).
Proof.
  intros fl nbrs w N K pick m0 p0 asg sch qs st Hwf Hnn Hp Hnb Hasg Hp0 Hrun.
  assert (Hrow : forall k, k < N -> exists src fidx, (fun k0 : nat => DOk (k0, k0)) k = DOk (src, fidx) /\
                          row_fl fl nbrs w pick N K src fidx = DOk (sp_row nbrs w N k)).
  { intros k Hk. exists k, k. split; [reflexivity|].
    destruct fl; cbn [row_fl]; [apply (row_pq_eq_sp nbrs w N K) | apply (row_fib_eq_sp nbrs w N K)]; assumption. }
  destruct (iso_all_schedules fl nbrs w pick N K N (fun k => DOk (k, k)) (sp_row nbrs w N) Hrow
                              m0 p0 asg sch qs st Hnb Hasg Hp0 Hrun) as (Hnr & Hd).
  split; [exact Hnr|]. intros Hdone k j Hk Hj. exact (proj1 (Hd Hdone) k j Hk Hj).
Qed.

(* ---- second overload (landmark sources; the code as it is now: f[landmarks[k]] = true) *)
Definition lm_src (lm : list nat) (k : nat) : dres (nat * nat) :=
  match nth_error lm k with
  | Some src => DOk (src, src)
  | None => DOOB site_landmark k
  end.

Theorem iso_landmark_matrix_all_schedules : forall fl nbrs w N K pick lm m0 p0 asg sch qs st,
  wf_graph nbrs N K -> nonneg_w nbrs w -> pick_ok pick -> Forall (fun v => (v < N)%nat) lm ->
  mem_nbrs N K m0 = nbrs -> valid_asg (length lm) asg -> (forall t, p0 t KHeap = VH []) ->
  run_sched ikey_eqb sch (init_queues (iso_body fl w pick N K (lm_src lm)) asg, mkState m0 p0 []) = (qs, st) ->
  ~ race qs /\
  (done qs -> forall k j, k < length lm -> j < N -> sh st (KD k j) = VD (sp nbrs w N (nth k lm O) j)).
Proof.
  intros fl nbrs w N K pick lm m0 p0 asg sch qs st Hwf Hnn Hp Hlm Hnb Hasg Hp0 Hrun.
  assert (Hrow : forall k, k < length lm -> exists src fidx, lm_src lm k = DOk (src, fidx) /\
                          row_fl fl nbrs w pick N K src fidx = DOk (sp_row nbrs w N (nth k lm O))).
  { intros k Hk. exists (nth k lm O), (nth k lm O). unfold lm_src. rewrite (nth_error_nth' lm O Hk).
    split; [reflexivity|].
    assert (Hs : (nth k lm O < N)%nat). { rewrite Forall_forall in Hlm. apply Hlm. apply nth_In. exact Hk. }
    destruct fl; cbn [row_fl]; [apply (row_pq_eq_sp nbrs w N K) | apply (row_fib_eq_sp nbrs w N K)]; assumption. }
  destruct (iso_all_schedules fl nbrs w pick N K (length lm) (lm_src lm) (fun k => sp_row nbrs w N (nth k lm O)) Hrow
                              m0 p0 asg sch qs st Hnb Hasg Hp0 Hrun) as (Hnr & Hd).
  split; [exact Hnr|]. intros Hdone k j Hk Hj. exact (proj1 (Hd Hdone) k j Hk Hj).
Qed.

(* ------------------------------------------------------------------ non-vacuity / necessity of the hypothesis *)
(* C04's 3-vertex graph; two threads, rows handed out as [2;0] and [1]; the threads' s[] / f[] and the matrix hold
   garbage; an interleaved schedule of 2000 steps *)
Definition iso_ex_m0 : ikey -> ival := enc_nbrs f4_nbrs (fun _ => VD (Some 77%Z)).
Definition iso_ex_p0 (h : list entry) : nat -> ikey -> ival :=
  fun t x => match x with KHeap => VH h | _ => VB true end.
Definition iso_ex_asg : nat -> list nat := fun t => match t with 0 => [2; 0] | 1 => [1] | _ => [] end.
Definition iso_ex_sch : list nat := concat (repeat [0; 1; 1; 0; 0] 400).
Definition iso_ex_out (fl : flavour) (h : list entry) :=
  let '(qs, st) := run_sched ikey_eqb iso_ex_sch
                     (init_queues (iso_body fl f4_w pick_first_min 3 1 (fun k => DOk (k, k))) iso_ex_asg,
                      mkState iso_ex_m0 (iso_ex_p0 h) []) in
  (length (qs 0), length (qs 1), map (fun k => map (fun j => getD (sh st (KD k j))) (seq 0 3)) (seq 0 3)).

Example iso_example : iso_ex_out PQ [] = (0, 0, sp_matrix f4_nbrs f4_w 3) /\ iso_ex_out FIB [] = (0, 0, sp_matrix f4_nbrs f4_w 3).
Proof. split; vm_compute; reflexivity. Qed.

Example iso_hypotheses_satisfiable :
  wf_graph f4_nbrs 3 1 /\ nonneg_w f4_nbrs f4_w /\ pick_ok pick_first_min /\
  mem_nbrs 3 1 iso_ex_m0 = f4_nbrs /\ valid_asg 3 iso_ex_asg /\ (forall t, iso_ex_p0 [] t KHeap = VH []).
Proof.
  split; [exact f4_wf|]. split; [exact f4_nonneg|]. split; [exact pick_first_min_ok|].
  split; [vm_compute; reflexivity|]. split; [|reflexivity].
  unfold valid_asg, iso_ex_asg. repeat split.
  - intros [|[|t]]; repeat constructor; cbn; intuition discriminate.
  - intros [|[|t]] [|[|u]] i Ht Hu; cbn in *; intuition (try lia; try reflexivity).
  - intros [|[|t]] i Hi; cbn in *; intuition lia.
  - intros [|[|[|i]]] Hi; [exists 0; cbn; auto|exists 1; cbn; auto|exists 0; cbn; auto|lia].
Qed.

(* a heap that is not empty when the iteration starts (heap.clear() forgotten, or a heap shared by the team)
   gives a wrong row: the hypothesis `p0 t KHeap = VH []` of the theorem cannot be dropped *)
Example iso_stale_heap_refuted :
  iso_ex_out PQ [(1%nat, (-5)%Z)] <> (0, 0, sp_matrix f4_nbrs f4_w 3) /\
  nth 1 (nth 2 (snd (iso_ex_out PQ [(1%nat, (-5)%Z)])) []) (Some 0%Z) = None.
Proof. split; [vm_compute; discriminate|vm_compute; reflexivity]. Qed.

(* ------------------------------------------------------------------ the descriptor shape means "row owned" *)
From TK Require Import Par_Region_Model Par_Region_Proof.
(* every shared key a body inside the extracted footprint of iteration i may touch (read or write, outside critical
   sections) lies in row i: the footprint hypothesis W k = row k, R k ∩ matrix = ∅ of iso_all_schedules *)
Lemma iso_shape_row_owned : forall r, iso_shape r = true ->
  forall i x, Ad (r_shared r) i x -> fst (snd x) = Z.of_nat i.
Proof.
  intros r Hs i x (a & Ha & _ & _ & _ & _ & Hsem & _).
  unfold iso_shape in Hs. apply andb_true_iff in Hs. destruct Hs as [Hs _].
  apply andb_true_iff in Hs. destruct Hs as [Hs _].
  rewrite forallb_forall in Hs. specialize (Hs a Ha).
  apply andb_true_iff in Hs. destruct Hs as [Hs _]. apply andb_true_iff in Hs. destruct Hs as [Hs _].
  destruct (a_i a) as [c| |]; try discriminate. destruct c; try discriminate.
  cbn in Hsem. rewrite Hsem. apply Z.add_0_r.
Qed.

(* ------------------------------------------------------------------ heap.clear() is redundant on a normal exit *)
(* the while loop ends only on an empty heap: when it ends normally the private heap already is in its canonical state,
   so the classification PRestored of the heap does not hinge on the final heap.clear() *)
Lemma step_none_heap_empty : forall fl nbrs w pick K ds, step_fl fl nbrs w pick K ds = None -> d_heap ds = [].
Proof.
  intros fl nbrs w pick K ds H. destruct fl; cbn [step_fl] in H; [unfold step_pq in H|unfold step_fib in H];
    destruct (d_heap ds); [reflexivity|discriminate|reflexivity|discriminate].
Qed.

Lemma loop_exit_heap_empty : forall fl nbrs w pick K fuel ds ds',
  loop (step_fl fl nbrs w pick K) fuel ds = DOk ds' -> d_heap ds' = [].
Proof.
  intros fl nbrs w pick K fuel; induction fuel as [|fuel IH]; intros ds ds' H; cbn [loop] in H; [discriminate|].
  destruct (step_fl fl nbrs w pick K ds) as [[ds1| |]|] eqn:E; try discriminate.
  - exact (IH _ _ H).
  - inversion H; subst. exact (step_none_heap_empty _ _ _ _ _ _ E).
Qed.
