(* Dijkstra_Proof_Base.v — list/array lemmas, walks, the generic while-loop rule. *)
From Coq Require Import List ZArith Bool Arith Lia.
From TK Require Import Dijkstra_Model Dijkstra_Spec.
Import ListNotations.
Local Open Scope Z_scope.

(* ---------- upd ---------- *)
Lemma upd_length : forall (A : Type) (l : list A) i x, length (upd l i x) = length l.
Proof.
  intros A l; induction l as [|h t IH]; intros [|i] x; cbn; auto.
Qed.

Lemma nth_upd_eq : forall (A : Type) (l : list A) i x d,
    (i < length l)%nat -> nth i (upd l i x) d = x.
Proof.
  intros A l; induction l as [|h t IH]; intros [|i] x d Hi; cbn in *; try lia; auto.
  apply IH; lia.
Qed.

Lemma nth_upd_neq : forall (A : Type) (l : list A) i j x d,
    i <> j -> nth j (upd l i x) d = nth j l d.
Proof.
  intros A l; induction l as [|h t IH]; intros [|i] [|j] x d Hij; cbn; auto; try congruence.
Qed.

Lemma upd_same : forall (A : Type) (l : list A) i x d,
    (i < length l)%nat -> nth i l d = x -> upd l i x = l.
Proof.
  intros A l; induction l as [|h t IH]; intros [|i] x d Hi Hx; cbn in *; try lia; auto.
  - congruence.
  - f_equal. eapply IH; eauto. lia.
Qed.

Lemma nth_error_nth_some : forall (A : Type) (l : list A) i d,
    (i < length l)%nat -> nth_error l i = Some (nth i l d).
Proof. intros. apply nth_error_nth'. assumption. Qed.

Lemma nth_error_none_ge : forall (A : Type) (l : list A) i,
    nth_error l i = None -> (length l <= i)%nat.
Proof. intros A l i H. apply nth_error_None. assumption. Qed.

Lemma nth_repeat_any : forall (A : Type) (x : A) n i, nth i (repeat x n) x = x.
Proof.
  intros A x n; induction n as [|n IH]; intros [|i]; cbn; auto.
Qed.

(* ---------- counting settled vertices ---------- *)
Fixpoint count_true (l : list bool) : nat :=
  match l with
  | [] => O
  | b :: t => ((if b then 1 else 0) + count_true t)%nat
  end.

Definition b2n (b : bool) : nat := if b then 1%nat else 0%nat.

Lemma count_true_le : forall l, (count_true l <= length l)%nat.
Proof. induction l as [|[] t IH]; cbn; lia. Qed.

Lemma count_true_repeat_false : forall n, count_true (repeat false n) = 0%nat.
Proof. induction n; cbn; auto. Qed.

Lemma count_true_upd_false_true : forall l i,
    (i < length l)%nat -> nth i l false = false ->
    count_true (upd l i true) = S (count_true l).
Proof.
  induction l as [|h t IH]; intros [|i] Hi Hn; cbn in *; try lia.
  - subst h. reflexivity.
  - rewrite IH by (auto; lia). destruct h; lia.
Qed.

Lemma count_true_lt_of_false : forall l i,
    (i < length l)%nat -> nth i l false = false -> (count_true l < length l)%nat.
Proof.
  intros l i Hi Hn.
  pose proof (count_true_upd_false_true l i Hi Hn) as H.
  pose proof (count_true_le (upd l i true)) as H2.
  rewrite upd_length in H2. lia.
Qed.

(* ---------- remove_one ---------- *)
Lemma entry_eqb_eq : forall a b, entry_eqb a b = true <-> a = b.
Proof.
  intros [a1 a2] [b1 b2]; unfold entry_eqb; cbn.
  rewrite andb_true_iff, Nat.eqb_eq, Z.eqb_eq. split.
  - intros [-> ->]; reflexivity.
  - intros H; inversion H; auto.
Qed.

Lemma remove_one_incl : forall p h x, In x (remove_one p h) -> In x h.
Proof.
  intros p h; induction h as [|q t IH]; intros x Hx; cbn in *; auto.
  destruct (entry_eqb p q) eqn:E.
  - right; assumption.
  - destruct Hx as [Hx|Hx]; [left; assumption | right; apply IH; assumption].
Qed.

Lemma remove_one_length : forall p h, In p h -> S (length (remove_one p h)) = length h.
Proof.
  intros p h; induction h as [|q t IH]; intros Hp; cbn in *; [contradiction|].
  destruct (entry_eqb p q) eqn:E.
  - reflexivity.
  - destruct Hp as [Hp|Hp].
    + subst q. assert (entry_eqb p p = true) by (apply entry_eqb_eq; reflexivity). congruence.
    + cbn. rewrite IH by assumption. reflexivity.
Qed.

Lemma remove_one_other : forall p h x, In x h -> x = p \/ In x (remove_one p h).
Proof.
  intros p h; induction h as [|q t IH]; intros x Hx; cbn in *; [contradiction|].
  destruct (entry_eqb p q) eqn:E.
  - apply entry_eqb_eq in E. subst q. destruct Hx as [Hx|Hx]; [left; auto | right; auto].
  - destruct Hx as [Hx|Hx].
    + right; left; assumption.
    + destruct (IH x Hx) as [H|H]; [left; assumption | right; right; assumption].
Qed.

(* ---------- the contract of the queue's choice of a minimum ---------- *)
Definition pick_ok (pick : list entry -> option entry) : Prop :=
  forall h, h <> [] ->
    exists u d, pick h = Some (u, d) /\ In (u, d) h /\ forall y e, In (y, e) h -> d <= e.

Lemma pick_first_min_aux_spec : forall h best,
    let r := pick_first_min_aux best h in
    (r = best \/ In r h) /\ snd r <= snd best /\ forall q, In q h -> snd r <= snd q.
Proof.
  induction h as [|q t IH]; intros best; cbn.
  - repeat split; auto; try lia; try (intros q []; fail).
  - destruct (Z.ltb (snd q) (snd best)) eqn:E.
    + apply Z.ltb_lt in E. destruct (IH q) as (H1 & H2 & H3). repeat split.
      * destruct H1 as [H1|H1]; [right; left; auto | right; right; auto].
      * lia.
      * intros q' [Hq|Hq]; [subst q'; assumption | apply H3; assumption].
    + apply Z.ltb_ge in E. destruct (IH best) as (H1 & H2 & H3). repeat split.
      * destruct H1 as [H1|H1]; [left; auto | right; right; auto].
      * assumption.
      * intros q' [Hq|Hq]; [subst q'; lia | apply H3; assumption].
Qed.

Lemma pick_first_min_ok : pick_ok pick_first_min.
Proof.
  intros h Hh. destruct h as [|q t]; [congruence|]. cbn.
  destruct (pick_first_min_aux_spec t q) as (H1 & H2 & H3).
  destruct (pick_first_min_aux q t) as [u d] eqn:E. exists u, d. repeat split.
  - destruct H1 as [H1|H1]; [left; auto | right; auto].
  - intros y e [Hy|Hy]; [subst q; cbn in *; assumption | apply (H3 (y, e)); assumption].
Qed.

Lemma pick_last_min_aux_spec : forall h best,
    let r := pick_last_min_aux best h in
    (r = best \/ In r h) /\ snd r <= snd best /\ forall q, In q h -> snd r <= snd q.
Proof.
  induction h as [|q t IH]; intros best; cbn.
  - repeat split; auto; try lia; try (intros q []; fail).
  - destruct (Z.leb (snd q) (snd best)) eqn:E.
    + apply Z.leb_le in E. destruct (IH q) as (H1 & H2 & H3). repeat split.
      * destruct H1 as [H1|H1]; [right; left; auto | right; right; auto].
      * lia.
      * intros q' [Hq|Hq]; [subst q'; assumption | apply H3; assumption].
    + apply Z.leb_gt in E. destruct (IH best) as (H1 & H2 & H3). repeat split.
      * destruct H1 as [H1|H1]; [left; auto | right; right; auto].
      * assumption.
      * intros q' [Hq|Hq]; [subst q'; lia | apply H3; assumption].
Qed.

Lemma pick_last_min_ok : pick_ok pick_last_min.
Proof.
  intros h Hh. destruct h as [|q t]; [congruence|]. cbn.
  destruct (pick_last_min_aux_spec t q) as (H1 & H2 & H3).
  destruct (pick_last_min_aux q t) as [u d] eqn:E. exists u, d. repeat split.
  - destruct H1 as [H1|H1]; [left; auto | right; auto].
  - intros y e [Hy|Hy]; [subst q; cbn in *; assumption | apply (H3 (y, e)); assumption].
Qed.

(* ---------- walks ---------- *)
Section Walks.
  Variable nbrs : list (list nat).
  Variable w : nat -> nat -> Z.
  Variables N K : nat.
  Hypothesis Hwf : wf_graph nbrs N K.
  Hypothesis Hnn : nonneg_w nbrs w.

  Lemma wf_row : forall u row, nth_error nbrs u = Some row ->
      length row = K /\ Forall (fun v => (v < N)%nat) row.
  Proof.
    intros u row Hu. destruct Hwf as [_ HF].
    rewrite Forall_forall in HF. apply HF. eapply nth_error_In; eauto.
  Qed.

  Lemma edge_lt : forall u v, edge nbrs u v -> (u < N)%nat /\ (v < N)%nat.
  Proof.
    intros u v (row & Hu & Hv). split.
    - destruct Hwf as [HL _]. rewrite <- HL. apply nth_error_Some. congruence.
    - destruct (wf_row u row Hu) as [_ HF]. rewrite Forall_forall in HF. auto.
  Qed.

  Lemma pathn_nonneg : forall k v W n, pathn nbrs w k v W n -> 0 <= W.
  Proof.
    intros k v W n H; induction H as [|u v W n H IH He]; [lia|].
    specialize (Hnn u v He). lia.
  Qed.

  Lemma pathn_lt : forall k v W n, (k < N)%nat -> pathn nbrs w k v W n -> (v < N)%nat.
  Proof.
    intros k v W n Hk H; destruct H as [|u v W n H He]; [assumption|].
    apply (edge_lt u v He).
  Qed.

  Lemma nbr_row_ok : forall u, (u < N)%nat ->
      exists row, nth_error nbrs u = Some row /\ nbr_row nbrs K u = DOk row.
  Proof.
    intros u Hu. destruct Hwf as [HL HF].
    destruct (nth_error nbrs u) as [row|] eqn:E.
    - exists row. split; [reflexivity|]. unfold nbr_row. rewrite E.
      destruct (wf_row u row E) as [HK _].
      rewrite HK, Nat.ltb_irrefl. rewrite <- HK, firstn_all. reflexivity.
    - apply nth_error_None in E. lia.
  Qed.
End Walks.

Lemma is_sp_fun : forall nbrs w k v o1 o2,
    is_sp nbrs w k v o1 -> is_sp nbrs w k v o2 -> o1 = o2.
Proof.
  intros nbrs w k v [d1|] [d2|] H1 H2; cbn in *; auto.
  - destruct H1 as [P1 M1], H2 as [P2 M2].
    specialize (M1 _ P2). specialize (M2 _ P1). f_equal; lia.
  - destruct H1 as [P1 _]. exfalso. eapply H2; eauto.
  - destruct H2 as [P2 _]. exfalso. eapply H1; eauto.
Qed.

(* ---------- the while loop ---------- *)
Lemma loop_rule : forall (I : dstate -> Prop) (m : dstate -> nat)
                         (step : dstate -> option (dres dstate)),
    (forall st, I st ->
                match step st with
                | None => True
                | Some r => exists st', r = DOk st' /\ I st' /\ (m st' < m st)%nat
                end) ->
    forall fuel st, I st -> (m st < fuel)%nat ->
                    exists st', loop step fuel st = DOk st' /\ I st' /\ step st' = None.
Proof.
  intros I m step Hstep fuel; induction fuel as [|fuel IH]; intros st HI Hm; [lia|].
  cbn. specialize (Hstep st HI). destruct (step st) as [r|] eqn:E.
  - destruct Hstep as (st' & -> & HI' & Hlt). apply IH; [assumption|lia].
  - exists st. auto.
Qed.

(* ---------- sequence ---------- *)
Lemma sequence_map_ok : forall (A B : Type) (f : A -> dres B) (g : A -> B) l,
    (forall a, In a l -> f a = DOk (g a)) -> sequence (map f l) = DOk (map g l).
Proof.
  intros A B f g l; induction l as [|a t IH]; intros H; cbn; [reflexivity|].
  rewrite (H a) by (left; reflexivity). rewrite IH by (intros; apply H; right; assumption).
  reflexivity.
Qed.
