(* ====================================================================== *)
(*  Lap_Proof_Method.v — the Laplacian that LaplacianEigenmaps::embed()    *)
(*  hands to the solver is built from the FULL neighbour lists returned by *)
(*  the neighbour search, not from the requested num_neighbors (C09).      *)
(*                                                                         *)
(*  adjA_full_uniform     all lists of one length m: adjA_full = adjA m    *)
(*  matL_full_uniform     hence matL_full = matL m, degD_full = degD m     *)
(*  le_method_full_lists  le_method_laplacian search kreq n = LOk (ts, D), *)
(*      lists of one common length  ->  triplet sum = matL_full, D =       *)
(*      degD_full of (search kreq): every entry of every returned list is  *)
(*      a neighbour pair of W, whatever kreq was.  Any field, any oracle.  *)
(*  compute_laplacian_k_spec   the regression variant with an explicit k   *)
(*      builds matL heat k (the first k entries of each list only)         *)
(*  compute_laplacian_is_k     shipped routine = variant at k = |first|    *)
(*  le_method_reqk_refuted     (Qc) the variant fed with the REQUESTED k   *)
(*      differs from matL_full on a witness where the search doubled k     *)
(* ====================================================================== *)
Require Import Arith Lia List Bool Field Ring.
From TK Require Import Mat_Sums Mat_Core Lap_Model Lap_Spec Lap_Proof_Lap.
Import ListNotations.
Local Open Scope list_scope.
Local Open Scope nat_scope.

Section FullLists.
  Context {F : Type} {Fo : FieldOps F} {Ff : IsField F}.
  Add Field LapMethodField : (@Fth F Fo Ff).
  Local Open Scope F_scope.

  Variable heat : nat -> nat -> F.
  Variable nbrs : list (list nat).
  Variable n : nat.
  Hypothesis Huni : uniform_lists nbrs n.
  Notation m := (length (hd [] nbrs)).

  Lemma adjA_full_uniform i j : (i < n)%nat -> adjA_full heat nbrs i j = adjA heat m nbrs i j.
  Proof. intros Hi. unfold adjA_full, adjA. rewrite (Huni i Hi). reflexivity. Qed.

  Lemma matW_full_uniform i j :
    (i < n)%nat -> (j < n)%nat -> matW_full heat nbrs i j = matW heat m nbrs i j.
  Proof.
    intros Hi Hj. unfold matW_full, matW. rewrite (adjA_full_uniform i j Hi), (adjA_full_uniform j i Hj).
    reflexivity.
  Qed.

  Lemma degD_full_uniform i : (i < n)%nat -> degD_full heat nbrs n i = degD heat m nbrs n i.
  Proof.
    intros Hi. unfold degD_full, degD. apply sumn_ext. intros j Hj. apply matW_full_uniform; assumption.
  Qed.

  Lemma matL_full_uniform i j :
    (i < n)%nat -> (j < n)%nat -> matL_full heat nbrs n i j = matL heat m nbrs n i j.
  Proof.
    intros Hi Hj. unfold matL_full, matL, mdiag.
    rewrite (matW_full_uniform i j Hi Hj).
    destruct (Nat.eqb i j); [rewrite (degD_full_uniform i Hi)|]; reflexivity.
  Qed.
End FullLists.

Section Method.
  Context {F : Type} {Fo : FieldOps F} {Ff : IsField F}.
  Add Field LapMethodField2 : (@Fth F Fo Ff).
  Local Open Scope F_scope.

  Variable dist : nat -> nat -> F.
  Variable width : F.
  Variable expo : F -> F.
  Notation heat := (heat_of dist width expo).

  (* the method: whatever count was requested, the Laplacian is that of the FULL returned lists *)
  Theorem le_method_full_lists (search : nat -> list (list nat)) (kreq n : nat)
          (ts : list (@triplet F)) (D : list F) :
    le_method_laplacian dist width expo search kreq n = LOk (ts, D) ->
    uniform_lists (search kreq) n ->
    length D = n /\
    (forall i q, (i < n)%nat -> (q < length (nth i (search kreq) []))%nat ->
                 (nb_at (search kreq) i q < n)%nat) /\
    (forall r c, (r < n)%nat -> (c < n)%nat ->
       mat_of_triplets ts r c = matL_full heat (search kreq) n r c) /\
    (forall r, (r < n)%nat -> nth r D 0 = degD_full heat (search kreq) n r).
  Proof.
    intros H Huni. unfold le_method_laplacian in H.
    destruct (compute_laplacian_spec_k dist width expo n (search kreq) (length (hd [] (search kreq)))
                ts D eq_refl H) as [HL [_ [HB [HM HD]]]].
    split; [exact HL|].
    split.
    { intros i q Hi Hq. apply HB; [exact Hi|]. rewrite <- (Huni i Hi). exact Hq. }
    split.
    - intros r c Hr Hc. rewrite (HM r c Hr Hc). symmetry. apply matL_full_uniform; assumption.
    - intros r Hr. rewrite (HD r Hr). symmetry. apply degD_full_uniform; assumption.
  Qed.

  (* the regression variant with an explicit neighbour count builds the graph of the first k entries *)
  Theorem compute_laplacian_k_spec (k n : nat) (nbrs : list (list nat))
          (ts : list (@triplet F)) (D : list F) :
    compute_laplacian_k dist width expo k n nbrs = LOk (ts, D) ->
    length D = n /\
    (forall r c, (r < n)%nat -> (c < n)%nat ->
       mat_of_triplets ts r c = matL heat k nbrs n r c) /\
    (forall r, (r < n)%nat -> nth r D 0 = degD heat k nbrs n r).
  Proof.
    intros H.
    unfold compute_laplacian_k in H.
    destruct (fold_left (row_step dist width expo k nbrs) (seq 0 n)
                (LOk (mk_lstate (repeat 0 n) []))) as [st|s a b] eqn:Ef; [|discriminate].
    inversion H. subst ts D. clear H.
    pose proof (rows_inv dist width expo n nbrs k n _ _ (le_n n) (Inv_init dist width expo n nbrs k) Ef)
      as [HL [HD [HT [HR [HB1 _]]]]].
    cbn [sumn] in HD, HT.
    split; [exact HL|].
    assert (HDeg : forall r, (r < n)%nat -> nth r (st_D st) 0 = degD heat k nbrs n r).
    { intros r Hr. rewrite HD by exact Hr.
      rewrite <- (sum_cD_is_deg dist width expo n nbrs k r Hr).
      - ring.
      - intros q Hq. apply HB1; assumption. }
    split; [|exact HDeg].
    intros r c Hr Hc. rewrite mat_of_triplets_app, HT, mat_of_diag_triplets.
    rewrite (sum_cT_is_W dist width expo n nbrs k r c Hr Hc). unfold matL, matW, mdiag.
    assert (E : Nat.ltb r n = true) by (apply Nat.ltb_lt; exact Hr). rewrite E, andb_true_r.
    destruct (Nat.eqb r c); [rewrite HDeg by exact Hr|]; ring.
  Qed.

  (* the shipped routine IS the variant at the count read from the first list *)
  Lemma compute_laplacian_is_k (n : nat) (nbrs : list (list nat)) :
    nbrs <> [] ->
    compute_laplacian dist width expo n nbrs =
    compute_laplacian_k dist width expo (length (hd [] nbrs)) n nbrs.
  Proof. intros Hne. destruct nbrs as [|f r]; [contradiction|reflexivity]. Qed.
End Method.

(* ---------------------------------------------------------------------- *)
(*  Regression (seeded change C09_1): feeding the routine the REQUESTED    *)
(*  count instead of the length of the returned lists builds a different   *)
(*  graph as soon as the neighbour search raised k.  Witness over Qc:      *)
(*  4 samples, requested k = 1, the search answers lists of length 2       *)
(*  (k doubled); unit heat.  Entry (0,2): the variant writes 0, the        *)
(*  Laplacian of the returned neighbourhood graph has -2.                  *)
(* ---------------------------------------------------------------------- *)
From Coq Require Import ZArith QArith Qcanon.
From TK Require Import Mat_Qc.
Close Scope Qc_scope.
Close Scope Q_scope.
Close Scope Z_scope.

Definition reqk_search (kreq : nat) : list (list nat) := [[1; 2]; [0; 3]; [3; 0]; [2; 1]].
Definition reqk_dist : nat -> nat -> Qc := fun _ _ => qz 0.
Definition reqk_expo : Qc -> Qc := fun _ => qz 1.

Lemma le_method_reqk_refuted :
  exists (search : nat -> list (list nat)) (kreq n : nat) (ts : list (@triplet Qc)) (D : list Qc),
    uniform_lists (search kreq) n /\
    kreq < length (hd [] (search kreq)) /\
    le_method_laplacian_reqk reqk_dist (qz 1) reqk_expo search kreq n = LOk (ts, D) /\
    exists r c, r < n /\ c < n /\
      mat_of_triplets ts r c <> matL_full (heat_of reqk_dist (qz 1) reqk_expo) (search kreq) n r c.
Proof.
  exists reqk_search, 1, 4.
  destruct (le_method_laplacian_reqk reqk_dist (qz 1) reqk_expo reqk_search 1 4) as [[ts D]|s a b] eqn:E;
    [|vm_compute in E; discriminate].
  exists ts, D.
  split.
  { intros i Hi. destruct i as [|[|[|[|i]]]]; try lia; reflexivity. }
  split; [cbn; lia|].
  split; [reflexivity|].
  exists 0, 2. split; [lia|]. split; [lia|].
  vm_compute in E. inversion E. subst ts D. clear E.
  intros H. vm_compute in H. discriminate.
Qed.

(* and the shipped method on the same input returns the full-list Laplacian (instance of
   le_method_full_lists, computed) *)
Lemma le_method_full_lists_witness :
  exists ts D,
    le_method_laplacian reqk_dist (qz 1) reqk_expo reqk_search 1 4 = LOk (ts, D) /\
    mat_of_triplets ts 0 2 = matL_full (heat_of reqk_dist (qz 1) reqk_expo) (reqk_search 1) 4 0 2 /\
    mat_of_triplets ts 0 2 = qz (-2).
Proof.
  eexists. eexists. split; [vm_compute; reflexivity|].
  split; apply Qc_is_canon; vm_compute; reflexivity.
Qed.
