(* ====================================================================== *)
(*  Lap_Proof_Method.v — the Laplacian that LaplacianEigenmaps::embed()    *)
(*  hands to the solver is built from the FULL neighbour lists returned by *)
(*  the neighbour search, not from the requested num_neighbors (C09).      *)
(*                                                                         *)
(*  adjA_full_uniform     all lists of one length m: adjA_full = adjA m    *)
(*  matL_full_uniform     hence matL_full = matL m, degD_full = degD m     *)
(*  le_method_full_lists  le_method_laplacian search kreq n = LOk (ts, D), *)
(*      lists of one common length  ->  triplet sum = matL_full, D =       *)
(*      degD_full of (search kreq): every entry of every returned list is  *)
(*      a neighbour pair of W, whatever kreq was.  Any field, any oracle.  *)
(*  compute_laplacian_k_spec   the regression variant with an explicit k   *)
(*      builds matL heat k (the first k entries of each list only)         *)
(*  compute_laplacian_is_k     shipped routine = variant at k = |first|    *)
(*  le_method_reqk_refuted     (Qc) the variant fed with the REQUESTED k   *)
(*      differs from matL_full on a witness where the search doubled k     *)
(*  le_method_embed_spec / dm_method_embed_spec   the two embed() bodies   *)
(*      as single functions of the oracles (search, solver, exp, sqrt,     *)
(*      pow): composition of the routine theorems with the selection /     *)
(*      normalisation theorems, contracts stated on what the solver is     *)
(*      HANDED                                                             *)
(* ====================================================================== *)
Require Import Arith Lia List Bool Field Ring.
From TK Require Import Mat_Sums Mat_Core Lap_Model Lap_Spec Lap_Proof_Lap Lap_Proof_Embed Lap_Proof_Dm.
Import ListNotations.
Local Open Scope list_scope.
Local Open Scope nat_scope.

Section FullLists.
  Context {F : Type} {Fo : FieldOps F} {Ff : IsField F}.
  Add Field LapMethodField : (@Fth F Fo Ff).
  Local Open Scope F_scope.

  Variable heat : nat -> nat -> F.
  Variable nbrs : list (list nat).
  Variable n : nat.
  Hypothesis Huni : uniform_lists nbrs n.
  Notation m := (length (hd [] nbrs)).

  Lemma adjA_full_uniform i j : (i < n)%nat -> adjA_full heat nbrs i j = adjA heat m nbrs i j.
  Proof. intros Hi. unfold adjA_full, adjA. rewrite (Huni i Hi). reflexivity. Qed.

  Lemma matW_full_uniform i j :
    (i < n)%nat -> (j < n)%nat -> matW_full heat nbrs i j = matW heat m nbrs i j.
  Proof.
    intros Hi Hj. unfold matW_full, matW. rewrite (adjA_full_uniform i j Hi), (adjA_full_uniform j i Hj).
    reflexivity.
  Qed.

  Lemma degD_full_uniform i : (i < n)%nat -> degD_full heat nbrs n i = degD heat m nbrs n i.
  Proof.
    intros Hi. unfold degD_full, degD. apply sumn_ext. intros j Hj. apply matW_full_uniform; assumption.
  Qed.

  Lemma matL_full_uniform i j :
    (i < n)%nat -> (j < n)%nat -> matL_full heat nbrs n i j = matL heat m nbrs n i j.
  Proof.
    intros Hi Hj. unfold matL_full, matL, mdiag.
    rewrite (matW_full_uniform i j Hi Hj).
    destruct (Nat.eqb i j); [rewrite (degD_full_uniform i Hi)|]; reflexivity.
  Qed.
End FullLists.

Section Method.
  Context {F : Type} {Fo : FieldOps F} {Ff : IsField F}.
  Add Field LapMethodField2 : (@Fth F Fo Ff).
  Local Open Scope F_scope.

  Variable dist : nat -> nat -> F.
  Variable width : F.
  Variable expo : F -> F.
  Notation heat := (heat_of dist width expo).

  (* the method: whatever count was requested, the Laplacian is that of the FULL returned lists *)
  Theorem le_method_full_lists (search : nat -> list (list nat)) (kreq n : nat)
          (ts : list (@triplet F)) (D : list F) :
    le_method_laplacian dist width expo search kreq n = LOk (ts, D) ->
    uniform_lists (search kreq) n ->
    length D = n /\
    (forall i q, (i < n)%nat -> (q < length (nth i (search kreq) []))%nat ->
                 (nb_at (search kreq) i q < n)%nat) /\
    (forall r c, (r < n)%nat -> (c < n)%nat ->
       mat_of_triplets ts r c = matL_full heat (search kreq) n r c) /\
    (forall r, (r < n)%nat -> nth r D 0 = degD_full heat (search kreq) n r).
  Proof.
    intros H Huni. unfold le_method_laplacian in H.
    destruct (compute_laplacian_spec_k dist width expo n (search kreq) (length (hd [] (search kreq)))
                ts D eq_refl H) as [HL [_ [HB [HM HD]]]].
    split; [exact HL|].
    split.
    { intros i q Hi Hq. apply HB; [exact Hi|]. rewrite <- (Huni i Hi). exact Hq. }
    split.
    - intros r c Hr Hc. rewrite (HM r c Hr Hc). symmetry. apply matL_full_uniform; assumption.
    - intros r Hr. rewrite (HD r Hr). symmetry. apply degD_full_uniform; assumption.
  Qed.

  (* the regression variant with an explicit neighbour count builds the graph of the first k entries *)
  Theorem compute_laplacian_k_spec (k n : nat) (nbrs : list (list nat))
          (ts : list (@triplet F)) (D : list F) :
    compute_laplacian_k dist width expo k n nbrs = LOk (ts, D) ->
    length D = n /\
    (forall r c, (r < n)%nat -> (c < n)%nat ->
       mat_of_triplets ts r c = matL heat k nbrs n r c) /\
    (forall r, (r < n)%nat -> nth r D 0 = degD heat k nbrs n r).
  Proof.
    intros H.
    unfold compute_laplacian_k in H.
    destruct (fold_left (row_step dist width expo k nbrs) (seq 0 n)
                (LOk (mk_lstate (repeat 0 n) []))) as [st|s a b] eqn:Ef; [|discriminate].
    inversion H. subst ts D. clear H.
    pose proof (rows_inv dist width expo n nbrs k n _ _ (le_n n) (Inv_init dist width expo n nbrs k) Ef)
      as [HL [HD [HT [HR [HB1 _]]]]].
    cbn [sumn] in HD, HT.
    split; [exact HL|].
    assert (HDeg : forall r, (r < n)%nat -> nth r (st_D st) 0 = degD heat k nbrs n r).
    { intros r Hr. rewrite HD by exact Hr.
      rewrite <- (sum_cD_is_deg dist width expo n nbrs k r Hr).
      - ring.
      - intros q Hq. apply HB1; assumption. }
    split; [|exact HDeg].
    intros r c Hr Hc. rewrite mat_of_triplets_app, HT, mat_of_diag_triplets.
    rewrite (sum_cT_is_W dist width expo n nbrs k r c Hr Hc). unfold matL, matW, mdiag.
    assert (E : Nat.ltb r n = true) by (apply Nat.ltb_lt; exact Hr). rewrite E, andb_true_r.
    destruct (Nat.eqb r c); [rewrite HDeg by exact Hr|]; ring.
  Qed.

  (* the shipped routine IS the variant at the count read from the first list *)
  Lemma compute_laplacian_is_k (n : nat) (nbrs : list (list nat)) :
    nbrs <> [] ->
    compute_laplacian dist width expo n nbrs =
    compute_laplacian_k dist width expo (length (hd [] nbrs)) n nbrs.
  Proof. intros Hne. destruct nbrs as [|f r]; [contradiction|reflexivity]. Qed.
End Method.

(* ---------------- the two embed() bodies as single functions ---------------- *)
Section MethodEmbed.
  Context {F : Type} {Fo : FieldOps F} {Ff : IsField F}.
  Add Field LapMethodEmbedField : (@Fth F Fo Ff).
  Local Open Scope F_scope.

  Lemma gen_contract_meq N (A A' B B' V : mat F) lam :
    meq N N A A' -> meq N N B B' -> gen_contract N A B V lam -> gen_contract N A' B' V lam.
  Proof.
    intros HA HB [H1 H2]. split.
    - apply meq_trans with (mmul N A V).
      { apply (mmul_meq N N N); [apply meq_sym; exact HA|apply meq_refl]. }
      apply meq_trans with (mmul N B (mmul N V (mdiag lam))); [exact H1|].
      apply (mmul_meq N N N); [exact HB|apply meq_refl].
    - apply meq_trans with (mmul N (mtrans V) (mmul N B V)); [|exact H2].
      apply (mmul_meq N N N); [apply meq_refl|].
      apply (mmul_meq N N N); [apply meq_sym; exact HB|apply meq_refl].
  Qed.

  Lemma mv_meq N (A A' : mat F) (y : vec F) : meq N N A A' -> veq N (mv N A y) (mv N A' y).
  Proof. intros H i Hi. unfold mv. apply sumn_ext. intros t Ht. rewrite (H i t Hi Ht). reflexivity. Qed.

  Lemma le_spec_meq N d (L L' Dm Dm' Y : mat F) mu :
    meq N N L L' -> meq N N Dm Dm' -> le_spec N d L Dm Y mu -> le_spec N d L' Dm' Y mu.
  Proof.
    intros HL HD [S1 [S2 S3]]. split; [|split].
    - intros c Hc i Hi. specialize (S1 c Hc i Hi).
      rewrite <- (mv_meq N L L' _ HL i Hi). unfold vscale in *.
      rewrite <- (mv_meq N Dm Dm' _ HD i Hi). exact S1.
    - apply meq_trans with (mmul N (mtrans Y) (mmul N Dm Y)); [|exact S2].
      apply (mmul_meq d N d); [apply meq_refl|].
      apply (mmul_meq N N d); [apply meq_sym; exact HD|apply meq_refl].
    - intros c Hc. rewrite <- (S3 c Hc). unfold dot. apply sumn_ext. intros i Hi.
      rewrite (mv_meq N Dm Dm' _ HD i Hi). reflexivity.
  Qed.

  Lemma mdiag_meq N (u v : vec F) : veq N u v -> meq N N (mdiag u) (mdiag v).
  Proof. intros H i j Hi Hj. unfold mdiag. destruct (Nat.eqb i j); [apply H; exact Hi|reflexivity]. Qed.

  Variable dist : nat -> nat -> F.
  Variable width : F.
  Variable expo : F -> F.
  Notation heat := (heat_of dist width expo).

  (* the body of LaplacianEigenmaps::embed() in one statement: neighbour search (oracle) -> compute_laplacian ->
     generalised solver (oracle, contract on what it is HANDED) -> column selection *)
  Theorem le_method_embed_spec (search : nat -> list (list nat)) (kreq n d : nat)
          (solver : mat F -> vec F -> mat F * vec F)
          (ts : list (@triplet F)) (D : list F) (V : mat F) (lam : vec F) :
    le_method_laplacian dist width expo search kreq n = LOk (ts, D) ->
    uniform_lists (search kreq) n ->
    (d + 1 <= n)%nat ->
    solver (mat_of_triplets ts) (vof D) = (V, lam) ->
    gen_contract n (mat_of_triplets ts) (mdiag (vof D)) V lam ->
    (forall c, (c < d)%nat -> lam (1 + c)%nat <> 0) ->
    exists Y, le_method_embed dist width expo search kreq n d solver = Some Y /\
              (forall r c, Y r c = V r (1 + c)%nat) /\
              le_spec n d (matL_full heat (search kreq) n) (mdiag (degD_full heat (search kreq) n)) Y
                      (fun c => lam (1 + c)%nat).
  Proof.
    intros HLap Huni Hd Hsol Hc Hlam.
    destruct (le_method_full_lists dist width expo search kreq n ts D HLap Huni) as [HLen [_ [HM HDg]]].
    set (m := length (hd [] (search kreq))).
    set (L0 := matL heat m (search kreq) n). set (D0 := mdiag (degD heat m (search kreq) n)).
    assert (EL : meq n n (mat_of_triplets ts) L0).
    { intros r c Hr Hcc. rewrite (HM r c Hr Hcc). apply matL_full_uniform; assumption. }
    assert (ED : meq n n (mdiag (vof D)) D0).
    { apply mdiag_meq. intros r Hr. unfold vof. rewrite (HDg r Hr). apply degD_full_uniform; assumption. }
    pose proof (gen_contract_meq n _ L0 _ D0 V lam EL ED Hc) as Hc0.
    destruct (le_embedding_normalised n d L0 D0 V lam Hd) as [Y [HY [HYV HS]]].
    - apply matL_sym_gen.
    - intros i Hi. apply matL_row_sum_gen. exact Hi.
    - apply mdiag_sym.
    - exact Hc0.
    - exact Hlam.
    - exists Y. split.
      + unfold le_method_embed. rewrite HLap, Hsol. exact HY.
      + split; [exact HYV|].
        apply (le_spec_meq n d L0 _ D0 _ Y _); [| |exact HS].
        * intros r c Hr Hcc. symmetry. apply matL_full_uniform; assumption.
        * apply mdiag_meq. intros r Hr. symmetry. apply degD_full_uniform; assumption.
  Qed.
End MethodEmbed.

Section DmMethod.
  Context {F : Type} {Fo : FieldOps F} {Ff : IsField F}.
  Add Field DmMethodField : (@Fth F Fo Ff).
  Local Open Scope F_scope.

  Lemma eigvec_meq N (M M' : mat F) l (y : vec F) : meq N N M M' -> eigvec N M l y -> eigvec N M' l y.
  Proof.
    intros H E i Hi. rewrite <- (E i Hi). unfold mv. apply sumn_ext. intros t Ht.
    rewrite (H i t Hi Ht). reflexivity.
  Qed.

  Variable dist : nat -> nat -> F.
  Variable width : F.
  Variable expo : F -> F.
  Variable sqrto : F -> F.

  Theorem dm_method_embed_spec (n d t : nat) (solver : mat F -> mat F * vec F) (powo : F -> nat -> F)
          (V : mat F) (lam : vec F) (alpha : F) :
    (d + 1 <= n)%nat ->
    let K := dm_kernel dist width expo in
    let s := dm_p2 dist width expo sqrto n in
    (forall i, (i < n)%nat -> dm_P K n i <> 0) ->
    (forall i, (i < n)%nat -> s i <> 0) ->
    (forall i, (i < n)%nat -> sqrto (dm_Q K n i) * sqrto (dm_Q K n i) = dm_Q K n i) ->
    solver (dm_matrix dist width expo sqrto n) = (V, lam) ->
    (forall c, (c < d)%nat ->
       eigvec n (dm_matrix dist width expo sqrto n) (lam (n - (d + 1) + c)%nat) (mcol V (n - (d + 1) + c)%nat)) ->
    (forall x, powo x t = fpow x t) ->
    alpha <> 0 -> (forall i, (i < n)%nat -> V i (n - 1)%nat = alpha * s i) ->
    exists Y, dm_method_embed dist width expo sqrto n d t solver powo = Some Y /\
      (forall r c, (r < n)%nat -> (c < d)%nat ->
         Y r c = dm_spec d t (fun x c0 => V x (n - (d + 1) + c0)%nat)
                         (fun c0 => lam (n - (d + 1) + c0)%nat)
                         (fun x => V x (n - 1)%nat) r c) /\
      (forall c, (c < d)%nat ->
         exists Y', veq n (mcol Y c) Y' /\
                    eigvec n (dm_markov K n) (lam (n - (d + 1) + c)%nat) Y').
  Proof.
    intros Hd K s HP Hs0 Hsq Hsol Heig Hpow Hal Htop.
    destruct (dm_diffusion_matrix_full F Fo Ff dist width expo sqrto n) as [_ Hfull].
    destruct (Hfull HP Hs0) as [Hs HM].
    assert (Hss : forall i, (i < n)%nat -> s i * s i = dm_Q K n i).
    { intros i Hi. fold s in Hs. rewrite (Hs i Hi). apply Hsq. exact Hi. }
    destruct (dm_columns n d t K s V lam powo alpha Hd Hss Hs0) as [Y [HY [HYs HYe]]].
    - intros c Hc. apply (eigvec_meq n _ _ _ _ HM). apply Heig. exact Hc.
    - exact Hpow.
    - exact Hal.
    - exact Htop.
    - exists Y. split; [|split; assumption].
      unfold dm_method_embed. rewrite Hsol. exact HY.
  Qed.
End DmMethod.

(* ---------------------------------------------------------------------- *)
(*  Regression (seeded change C09_1): feeding the routine the REQUESTED    *)
(*  count instead of the length of the returned lists builds a different   *)
(*  graph as soon as the neighbour search raised k.  Witness over Qc:      *)
(*  4 samples, requested k = 1, the search answers lists of length 2       *)
(*  (k doubled); unit heat.  Entry (0,2): the variant writes 0, the        *)
(*  Laplacian of the returned neighbourhood graph has -2.                  *)
(* ---------------------------------------------------------------------- *)
From Coq Require Import ZArith QArith Qcanon.
From TK Require Import Mat_Qc.
Close Scope Qc_scope.
Close Scope Q_scope.
Close Scope Z_scope.

Definition reqk_search (kreq : nat) : list (list nat) := [[1; 2]; [0; 3]; [3; 0]; [2; 1]].
Definition reqk_dist : nat -> nat -> Qc := fun _ _ => qz 0.
Definition reqk_expo : Qc -> Qc := fun _ => qz 1.

Lemma le_method_reqk_refuted :
  exists (search : nat -> list (list nat)) (kreq n : nat) (ts : list (@triplet Qc)) (D : list Qc),
    uniform_lists (search kreq) n /\
    kreq < length (hd [] (search kreq)) /\
    le_method_laplacian_reqk reqk_dist (qz 1) reqk_expo search kreq n = LOk (ts, D) /\
    exists r c, r < n /\ c < n /\
      mat_of_triplets ts r c <> matL_full (heat_of reqk_dist (qz 1) reqk_expo) (search kreq) n r c.
Proof.
  exists reqk_search, 1, 4.
  destruct (le_method_laplacian_reqk reqk_dist (qz 1) reqk_expo reqk_search 1 4) as [[ts D]|s a b] eqn:E;
    [|vm_compute in E; discriminate].
  exists ts, D.
  split.
  { intros i Hi. destruct i as [|[|[|[|i]]]]; try lia; reflexivity. }
  split; [cbn; lia|].
  split; [reflexivity|].
  exists 0, 2. split; [lia|]. split; [lia|].
  vm_compute in E. inversion E. subst ts D. clear E.
  intros H. vm_compute in H. discriminate.
Qed.

(* and the shipped method on the same input returns the full-list Laplacian (instance of
   le_method_full_lists, computed) *)
Lemma le_method_full_lists_witness :
  exists ts D,
    le_method_laplacian reqk_dist (qz 1) reqk_expo reqk_search 1 4 = LOk (ts, D) /\
    mat_of_triplets ts 0 2 = matL_full (heat_of reqk_dist (qz 1) reqk_expo) (reqk_search 1) 4 0 2 /\
    mat_of_triplets ts 0 2 = qz (-2).
Proof.
  eexists. eexists. split; [vm_compute; reflexivity|].
  split; apply Qc_is_canon; vm_compute; reflexivity.
Qed.
