(* ====================================================================== *)
(*  Lle_Proof_Psd.v — the alignment cost of ONE vector is a sum of         *)
(*  squares (plus shift |y|^2) for KLTSA and HLLE too (KLLE:               *)
(*  Lle_Proof_Lle.lle_quadratic_form).  Over an ordered field this is      *)
(*  y^T M y >= mu y^T y with equality for the constant vector (M 1 = mu 1):*)
(*  the constant vector minimises the unconstrained cost, which is what    *)
(*  the phrase of the property -- whenever the constant vector is the       *)
(*  unique minimiser of the unconstrained cost -- presupposes.             *)
(*    local_term_quadratic   y^T (S A S^T) y = z^T A z,  z = S^T y         *)
(*    idem_quadratic         A symmetric idempotent -> z^T A z = |A z|^2   *)
(*    gram_projector_idem    G^T G = I -> I - G G^T symmetric idempotent   *)
(*    ltsa_quadratic_form    y^T M y = sum_i |(I-P_i) S_i^T y|^2 + shift|y|^2 *)
(*    outer_sum_quadratic    z^T (sum_u u u^T/(u.u)) z = sum_u (u.z)^2/(u.u) *)
(*    hlle_quadratic_form    y^T M y = sum_i sum_u (u . S_i^T y)^2 / (u.u)  *)
(*  Any field (identities only).                                           *)
(* ====================================================================== *)
Require Import Field Ring Arith Lia List Bool Permutation.
From TK Require Import Mat_Sums Mat_Core Lle_Model Lle_Spec Lle_Proof_Triplets Lle_Proof_Lle
                       Lle_Proof_Ltsa Lle_Proof_Gs.
Import ListNotations.

Section Psd.
  Context {F : Type} {Fo : FieldOps F} {Ff : IsField F}.
  Add Field LlePsdField : (@Fth F Fo Ff).
  Local Open Scope F_scope.
  Local Notation vec := (Mat_Core.vec F).
  Local Notation mat := (Mat_Core.mat F).

  Definition pull (nb : nat -> nat) (y : vec) : vec := fun a => y (nb a).   (* S^T y *)

  Lemma local_term_quadratic N k nb (A : mat) (y : vec) :
    (forall b, b < k -> nb b < N) ->
    dot N y (mv N (local_term k (sel nb) A) y) =
    sumn k (fun a => sumn k (fun b => pull nb y a * A a b * pull nb y b)).
  Proof.
    intros Hn. unfold dot, mv, pull.
    rewrite (sumn_ext N _ (fun r => sumn N (fun c =>
       sumn k (fun a => sumn k (fun b => (delta r (nb a) * y r) * A a b * (delta c (nb b) * y c)))))).
    2:{ intros r _. rewrite <- sumn_mul_l. apply sumn_ext. intros c _.
        rewrite local_term_entry. rewrite <- sumn_mul_r, <- sumn_mul_l. apply sumn_ext. intros a _.
        rewrite <- sumn_mul_r, <- sumn_mul_l. apply sumn_ext. intros b _. ring. }
    rewrite (sumn_ext N _ (fun r => sumn k (fun a => sumn k (fun b =>
       (delta r (nb a) * y r) * A a b * sumn N (fun c => delta c (nb b) * y c))))).
    2:{ intros r _. rewrite sumn_swap. apply sumn_ext. intros a _. rewrite sumn_swap.
        apply sumn_ext. intros b _. rewrite <- sumn_mul_l. reflexivity. }
    rewrite sumn_swap. apply sumn_ext. intros a Ha. rewrite sumn_swap. apply sumn_ext. intros b Hb.
    rewrite (sumn_ext N _ (fun r => (delta r (nb a) * y r) * (A a b * sumn N (fun c => delta c (nb b) * y c))))
      by (intros; ring).
    rewrite sumn_mul_r.
    assert (Hd : forall t, t < k -> sumn N (fun r => delta r (nb t) * y r) = y (nb t)).
    { intros t Ht. rewrite (sumn_ext N _ (fun r => y r * delta r (nb t))) by (intros; ring).
      apply sumn_delta_r. apply Hn. assumption. }
    rewrite !Hd by assumption. ring.
  Qed.

  (* z^T A z = |A z|^2 for a symmetric idempotent A *)
  Lemma idem_quadratic k (A : mat) (z : vec) :
    msym k A -> meq k k (mmul k A A) A ->
    sumn k (fun a => sumn k (fun b => z a * A a b * z b)) =
    sumn k (fun t => mv k A z t * mv k A z t).
  Proof.
    intros Hs Hi. unfold mv. symmetry.
    rewrite (sumn_ext k (fun t => sumn k (fun a => A t a * z a) * sumn k (fun b => A t b * z b))
               (fun t => sumn k (fun a => sumn k (fun b => z a * (A a t * A t b) * z b)))).
    2:{ intros t Ht. rewrite sumn_mul_sumn. apply sumn_ext. intros a Ha. apply sumn_ext. intros b _.
        rewrite (Hs t a) by assumption. ring. }
    rewrite sumn_swap. apply sumn_ext. intros a Ha. rewrite sumn_swap. apply sumn_ext. intros b Hb.
    rewrite (sumn_ext k _ (fun t => z a * z b * (A a t * A t b))) by (intros; ring).
    rewrite sumn_mul_l. change (sumn k (fun t => A a t * A t b)) with (mmul k A A a b).
    rewrite Hi by assumption. ring.
  Qed.

  (* G (k x m) with orthonormal columns: I - G G^T is symmetric and idempotent *)
  Lemma gram_projector_idem k m (G : mat) :
    meq m m (mmul k (mtrans G) G) mI ->
    msym k (msub mI (mmul m G (mtrans G))) /\
    meq k k (mmul k (msub mI (mmul m G (mtrans G))) (msub mI (mmul m G (mtrans G))))
            (msub mI (mmul m G (mtrans G))).
  Proof.
    intros HG. set (P := mmul m G (mtrans G)).
    assert (HPs : forall a b, P a b = P b a).
    { intros a b. unfold P, mmul, mtrans. apply sumn_ext. intros; ring. }
    assert (HPP : forall a b, a < k -> b < k -> mmul k P P a b = P a b).
    { intros a b Ha Hb. unfold P at 1 2. unfold mmul at 1.
      rewrite (sumn_ext k _ (fun t => sumn m (fun c => sumn m (fun c' =>
                 G a c * (mtrans G c t * G t c') * mtrans G c' b)))).
      2:{ intros t _. unfold mmul. rewrite sumn_mul_sumn. apply sumn_ext. intros c _.
          apply sumn_ext. intros c' _. unfold mtrans. ring. }
      rewrite sumn_swap. unfold P, mmul. apply sumn_ext. intros c Hc.
      rewrite sumn_swap.
      rewrite (sumn_ext m _ (fun c' => delta c c' * (G a c * mtrans G c' b))).
      - rewrite (sumn_delta_l m c (fun c' => G a c * mtrans G c' b)) by assumption. reflexivity.
      - intros c' Hc'.
        rewrite (sumn_ext k _ (fun t => (mtrans G c t * G t c') * (G a c * mtrans G c' b))) by (intros; ring).
        rewrite sumn_mul_r.
        pose proof (HG c c' Hc Hc') as H. unfold mmul in H. rewrite H. unfold mI. reflexivity. }
    split.
    - intros a b _ _. unfold msub, mI. rewrite (delta_sym a b), (HPs a b). reflexivity.
    - intros a b Ha Hb. unfold mmul, msub, mI.
      rewrite (sumn_ext k _ (fun t => delta a t * (delta t b - P t b) - P a t * delta t b + P a t * P t b))
        by (intros; ring).
      rewrite sumn_add, sumn_sub.
      rewrite (sumn_delta_l k a (fun t => delta t b - P t b)) by assumption.
      rewrite (sumn_delta_r k b (fun t => P a t)) by assumption.
      change (sumn k (fun t => P a t * P t b)) with (mmul k P P a b).
      rewrite HPP by assumption. ring.
  Qed.

  Theorem ltsa_quadratic_form N k nbr (P : nat -> mat) shift (y : vec) :
    (forall i a, i < N -> a < k -> nbr i a < N) ->
    (forall i, i < N -> msym k (msub mI (P i)) /\
                        meq k k (mmul k (msub mI (P i)) (msub mI (P i))) (msub mI (P i))) ->
    dot N y (mv N (ltsa_M_spec N k nbr P shift) y) =
    sumn N (fun i => sumn k (fun t => mv k (msub mI (P i)) (pull (nbr i) y) t
                                      * mv k (msub mI (P i)) (pull (nbr i) y) t))
    + shift * dot N y y.
  Proof.
    intros Hn HP.
    assert (E : dot N y (mv N (ltsa_M_spec N k nbr P shift) y) =
                sumn N (fun i => dot N y (mv N (local_term k (sel (nbr i)) (msub mI (P i))) y))
                + shift * dot N y y).
    { unfold dot, mv, ltsa_M_spec.
      rewrite (sumn_ext N _ (fun r => sumn N (fun i => y r * sumn N (fun c =>
                  local_term k (sel (nbr i)) (msub mI (P i)) r c * y c)) + shift * (y r * y r))).
      2:{ intros r Hr.
          rewrite (sumn_ext N _ (fun c => sumn N (fun i => local_term k (sel (nbr i)) (msub mI (P i)) r c * y c)
                                          + shift * (delta r c * y c))).
          2:{ intros c _. rewrite sumn_mul_r. ring. }
          rewrite sumn_add, sumn_mul_l, sumn_delta_l by assumption.
          rewrite (sumn_swap N N (fun c i => local_term k (sel (nbr i)) (msub mI (P i)) r c * y c)).
          rewrite (sumn_mul_l N (y r)). ring. }
      rewrite sumn_add, sumn_mul_l. f_equal. apply sumn_swap. }
    rewrite E. f_equal. apply sumn_ext. intros i Hi.
    rewrite local_term_quadratic by (intros; apply Hn; assumption).
    destruct (HP i Hi) as [Hs Hid]. apply idem_quadratic; assumption.
  Qed.

  (* z^T (sum_u u u^T / (u.u)) z = sum_u (u.z)^2 / (u.u) *)
  Lemma outer_sum_quadratic k (U : list (vec * F)) (z : vec) :
    sumn k (fun a => sumn k (fun b => z a * outer_sum_sf U a b * z b)) =
    fold_right (fun un acc => dot k (fst un) z * dot k (fst un) z / snd un + acc) 0 U.
  Proof.
    induction U as [|un U IH]; cbn [fold_right].
    - unfold outer_sum_sf. cbn [fold_right]. apply sumn_zero'. intros a _. apply sumn_zero'. intros; ring.
    - rewrite <- IH.
      rewrite (sumn_ext k _ (fun a =>
         sumn k (fun b => (fst un a * z a) * (fst un b * z b) * / snd un)
         + sumn k (fun b => z a * outer_sum_sf U a b * z b))).
      2:{ intros a _. rewrite <- sumn_add. apply sumn_ext. intros b _.
          unfold outer_sum_sf. cbn [fold_right]. rewrite !fdiv_mul. unfold Mat_Core.vec in *.
          generalize (fold_right (fun (un0 : (nat -> F) * F) (acc : F) => fst un0 a * fst un0 b / snd un0 + acc) 0 U).
          intros T. ring. }
      rewrite sumn_add. f_equal.
      rewrite fdiv_mul. unfold dot.
      rewrite (sumn_ext k _ (fun a => (fst un a * z a) * (sumn k (fun b => fst un b * z b) * / snd un))).
      2:{ intros a _. rewrite <- sumn_mul_r, <- sumn_mul_l. apply sumn_ext. intros; ring. }
      rewrite sumn_mul_r. unfold Mat_Core.vec in *. ring.
  Qed.

  Theorem hlle_quadratic_form N k nbr (U : nat -> list (vec * F)) (y : vec) :
    (forall i a, i < N -> a < k -> nbr i a < N) ->
    dot N y (mv N (hlle_M_spec N k nbr (fun i => outer_sum_sf (U i))) y) =
    sumn N (fun i => fold_right (fun un acc => dot k (fst un) (pull (nbr i) y) * dot k (fst un) (pull (nbr i) y)
                                                / snd un + acc) 0 (U i)).
  Proof.
    intros Hn.
    assert (E : dot N y (mv N (hlle_M_spec N k nbr (fun i => outer_sum_sf (U i))) y) =
                sumn N (fun i => dot N y (mv N (local_term k (sel (nbr i)) (outer_sum_sf (U i))) y))).
    { unfold dot, mv, hlle_M_spec.
      rewrite (sumn_ext N _ (fun r => sumn N (fun i => y r * sumn N (fun c =>
                  local_term k (sel (nbr i)) (outer_sum_sf (U i)) r c * y c)))).
      2:{ intros r _.
          rewrite (sumn_ext N _ (fun c => sumn N (fun i => local_term k (sel (nbr i)) (outer_sum_sf (U i)) r c * y c)))
            by (intros c _; rewrite sumn_mul_r; reflexivity).
          rewrite (sumn_swap N N (fun c i => local_term k (sel (nbr i)) (outer_sum_sf (U i)) r c * y c)).
          rewrite <- sumn_mul_l. reflexivity. }
      apply sumn_swap. }
    rewrite E. apply sumn_ext. intros i Hi.
    rewrite local_term_quadratic by (intros; apply Hn; assumption).
    apply outer_sum_quadratic.
  Qed.
End Psd.
