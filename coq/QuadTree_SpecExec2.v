(* QuadTree_SpecExec2.v — executable companion added in wave 2 (no proofs here; they are in QuadTree_Proof_Theta.v).

   forces_subtrees : the SUBTREES computeNonEdgeForces uses as summaries (a leaf that is not the query's own, or a node
                     that passes the criterion), in the order it adds them.  It is forces_cells without the preorder
                     numbers (QuadTree_Proof_Theta.forces_subtrees_cells).  forces_cells numbers the cells with Peano
                     naturals and recomputes `ncells` of the siblings at every node: cubic in the depth of a chain-like
                     tree (19 s for one traversal of a 600-level tree).  The model driver therefore runs forces_subtrees
                     and numbers the returned subtrees itself (one synchronized preorder walk with native integers). *)
From Coq Require Import List Arith Bool ZArith QArith.
From TK Require Import QuadTree_Model QuadTree_Spec QuadTree_SpecExec.
Import ListNotations.
Local Open Scope Q_scope.

Fixpoint forces_subtrees (p : pt) (i : nat) (theta : Q) (t : qt) : list qt :=
  match t with
  | Leaf c st cum com =>
    if (cum =? 0)%nat then [] else if self_leaf st i then [] else [t]
  | Node c cum com nw ne sw se =>
    if (cum =? 0)%nat then []
    else if summary_ok c theta (sqdist p com) then [t]
    else forces_subtrees p i theta nw ++ forces_subtrees p i theta ne
         ++ forces_subtrees p i theta sw ++ forces_subtrees p i theta se
  end.
