(* Cli_Argv_Spec.v — the documented behaviour from the real argv: cxxopts' scan (Cli_Argv_Model)
   followed by the documented function (Cli_Spec.spec_decide); decision procedure on an observation. *)
From Coq Require Import String Ascii List ZArith QArith Bool.
From TK Require Import Cli_Model Cli_Spec Cli_Argv_Model.
Import ListNotations.
Local Close Scope Q_scope.

Definition spec_argv (rd : string -> option Z * option Q) (argv : list string) : outcome :=
  match scan rd doc_options argv [] with
  | None => Exit 1%Z                       (* options.parse() throws: main() returns 1 *)
  | Some a => spec_decide a
  end.

Definition obs_ok_argv (rd : string -> option Z * option Q) (argv : list string)
           (code : Z) (echo : list (string * value)) : bool :=
  match scan rd doc_options argv [] with
  | None => negb (code =? 0)%Z
  | Some a => obs_ok a code echo
  end.
