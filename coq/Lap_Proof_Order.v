(* ====================================================================== *)
(*  Lap_Proof_Order.v — the ORDER part of property C09 for Laplacian       *)
(*  Eigenmaps, at the ordered field Qc (the instance that is run)          *)
(*                                                                         *)
(*  lap_psd                 non-negative heat weights: y^T L y >= 0        *)
(*  lap_kernel_edges        positive weights, y^T L y = 0: y is equal at   *)
(*                          the two ends of every neighbour pair           *)
(*  lreach / lap_kernel_connected   ... hence constant on a connected      *)
(*                          neighbourhood graph                            *)
(*  gen_eigenvalue_rayleigh lam_c = v_c^T L v_c  (from the contract)       *)
(*  le_smallest_nonzero     from ANY answer of the generalised solver that *)
(*      meets its contract and lists its eigenvalues in ascending order,   *)
(*      on a connected graph with positive weights: all eigenvalues are    *)
(*      >= 0, only lam_0 can be 0, so the kept lam_1 .. lam_d are          *)
(*      strictly positive and no other positive eigenvalue of the answer   *)
(*      is smaller — the d smallest non-zero ones.                         *)
(* ====================================================================== *)
Require Import Arith Lia List Bool ZArith QArith Qcanon.
From TK Require Import Mat_Sums Mat_Core Mat_Qc Lap_Model Lap_Spec Lap_Proof_Lap Lap_Proof_Embed
                       Lap_Proof_Complete.
Import ListNotations.
Local Open Scope list_scope.
Local Open Scope nat_scope.

Add Field LapOrderQcField : Qcft.

Lemma Qc_fadd (x y : Qc) : (x + y)%F = (x + y)%Qc.  Proof. reflexivity. Qed.
Lemma Qc_fmul (x y : Qc) : (x * y)%F = (x * y)%Qc.  Proof. reflexivity. Qed.
Lemma Qc_fzero : (0%F : Qc) = 0%Qc.  Proof. reflexivity. Qed.

Lemma Qc_mul_nonneg (x y : Qc) : (0 <= x)%Qc -> (0 <= y)%Qc -> (0 <= x * y)%Qc.
Proof.
  intros Hx Hy. pose proof (Qcmult_le_compat_r 0 x y Hx Hy) as H.
  rewrite Qcmult_0_l in H. exact H.
Qed.

Lemma Qc_sq_nonneg (x : Qc) : (0 <= x * x)%Qc.
Proof.
  destruct (Qclt_le_dec x 0) as [H|H].
  - assert (E : (x * x = (- x) * (- x))%Qc) by ring. rewrite E.
    assert (Hn : (0 <= - x)%Qc).
    { apply Qclt_le_weak in H. apply Qcopp_le_compat in H.
      assert (E0 : (- 0 = 0)%Qc) by ring. rewrite E0 in H. exact H. }
    apply Qc_mul_nonneg; exact Hn.
  - apply Qc_mul_nonneg; exact H.
Qed.

Lemma sumn_nonneg n (f : nat -> Qc) :
  (forall i, i < n -> (0 <= f i)%Qc) -> (0 <= sumn n f)%Qc.
Proof.
  induction n as [|n IH]; intros H; cbn [sumn].
  - apply Qcle_refl.
  - rewrite Qc_fadd.
    assert (E : (0 = 0 + 0)%Qc) by ring. rewrite E.
    apply Qcplus_le_compat; [apply IH; intros; apply H; lia|apply H; lia].
Qed.

Lemma sumn_nonneg_zero n (f : nat -> Qc) :
  (forall i, i < n -> (0 <= f i)%Qc) -> sumn n f = 0%Qc ->
  forall i, i < n -> f i = 0%Qc.
Proof.
  induction n as [|n IH]; intros H S i Hi; [lia|].
  cbn [sumn] in S. rewrite Qc_fadd in S.
  assert (H1 : (0 <= sumn n f)%Qc) by (apply sumn_nonneg; intros; apply H; lia).
  assert (H2 : (0 <= f n)%Qc) by (apply H; lia).
  assert (Z1 : sumn n f = 0%Qc).
  { apply Qcle_antisym; [|exact H1].
    assert (E : (sumn n f = - f n)%Qc).
    { assert (E1 : (sumn n f = (sumn n f + f n) + - f n)%Qc) by ring. rewrite S in E1.
      rewrite E1. ring. }
    rewrite E. apply Qcopp_le_compat in H2.
    assert (E0 : (- 0 = 0)%Qc) by ring. rewrite E0 in H2. exact H2. }
  assert (Z2 : f n = 0%Qc) by (rewrite Z1 in S; rewrite <- S; ring).
  destruct (Nat.eq_dec i n) as [->|Hne]; [exact Z2|].
  apply IH; [intros; apply H; lia|exact Z1|lia].
Qed.

Section LapOrder.
  Variable heat : nat -> nat -> Qc.
  Variable n : nat.
  Variable nbrs : list (list nat).
  Variable k : nat.
  Notation nb := (nb_at nbrs).
  Notation L := (matL heat k nbrs n).

  Hypothesis Hb : forall i q, i < n -> q < k -> nb i q < n.

  Definition edge_term (y : vec Qc) (i q : nat) : Qc :=
    (heat i (nb i q) * ((y i - y (nb i q)) * (y i - y (nb i q))))%F.

  Lemma quad_form (y : vec Qc) :
    dot n y (mv n L y) = sumn n (fun i => sumn k (fun q => edge_term y i q)).
  Proof. apply matL_quadratic_form. exact Hb. Qed.

  Theorem lap_psd (y : vec Qc) :
    (forall i q, i < n -> q < k -> (0 <= heat i (nb i q))%Qc) ->
    (0 <= dot n y (mv n L y))%Qc.
  Proof.
    intros Hh. rewrite quad_form. apply sumn_nonneg. intros i Hi.
    apply sumn_nonneg. intros q Hq. unfold edge_term. rewrite Qc_fmul.
    apply Qc_mul_nonneg; [apply Hh; assumption|]. rewrite Qc_fmul. apply Qc_sq_nonneg.
  Qed.

  Hypothesis Hpos : forall i q, i < n -> q < k -> (0 < heat i (nb i q))%Qc.

  Lemma heat_nonneg i q : i < n -> q < k -> (0 <= heat i (nb i q))%Qc.
  Proof. intros. apply Qclt_le_weak. apply Hpos; assumption. Qed.

  Theorem lap_kernel_edges (y : vec Qc) :
    dot n y (mv n L y) = 0%Qc ->
    forall i q, i < n -> q < k -> y i = y (nb i q).
  Proof.
    intros H0 i q Hi Hq. rewrite quad_form in H0.
    assert (Hnn : forall i q, i < n -> q < k -> (0 <= edge_term y i q)%Qc).
    { intros i0 q0 Hi0 Hq0. unfold edge_term. rewrite Qc_fmul.
      apply Qc_mul_nonneg; [apply heat_nonneg; assumption|]. rewrite Qc_fmul. apply Qc_sq_nonneg. }
    pose proof (sumn_nonneg_zero n _
      (fun i0 Hi0 => sumn_nonneg k _ (fun q0 Hq0 => Hnn i0 q0 Hi0 Hq0)) H0 i Hi) as R.
    cbv beta in R.
    pose proof (sumn_nonneg_zero k _ (fun q0 Hq0 => Hnn i q0 Hi Hq0) R q Hq) as E.
    unfold edge_term in E. rewrite Qc_fmul in E.
    apply Qcmult_integral in E. destruct E as [E|E].
    - exfalso. pose proof (Hpos i q Hi Hq) as P. rewrite E in P.
      exact (Qclt_not_eq _ _ P eq_refl).
    - rewrite Qc_fmul in E. apply Qcmult_integral in E.
      assert (D : (y i - y (nb i q))%F = 0%Qc) by (destruct E; assumption).
      assert (E2 : y i = ((y i - y (nb i q))%F + y (nb i q))%Qc).
      { change ((y i - y (nb i q))%F) with ((y i - y (nb i q))%Qc). ring. }
      rewrite E2, D. ring.
  Qed.

  (* undirected reachability along neighbour pairs *)
  Inductive lreach : nat -> nat -> Prop :=
  | lr_refl a : lreach a a
  | lr_fwd a i q : lreach a i -> i < n -> q < k -> lreach a (nb i q)
  | lr_bwd a i q : lreach a (nb i q) -> i < n -> q < k -> lreach a i.

  Definition lconnected : Prop := forall i, i < n -> lreach 0 i.

  Lemma lreach_const (y : vec Qc) :
    (forall i q, i < n -> q < k -> y i = y (nb i q)) ->
    forall a b, lreach a b -> y a = y b.
  Proof.
    intros He a b R. induction R as [a|a i q R IH Hi Hq|a i q R IH Hi Hq].
    - reflexivity.
    - rewrite IH. apply He; assumption.
    - rewrite IH. symmetry. apply He; assumption.
  Qed.

  Theorem lap_kernel_connected (y : vec Qc) :
    lconnected -> dot n y (mv n L y) = 0%Qc -> forall i, i < n -> y i = y 0.
  Proof.
    intros Hc H0 i Hi. symmetry.
    apply (lreach_const y (lap_kernel_edges y H0) 0 i). apply Hc. exact Hi.
  Qed.

  (* ---------------- eigenvalues of a contract-meeting answer ---------------- *)
  Variable Dm V : mat Qc.
  Variable lam : vec Qc.
  Hypothesis Hcontract : gen_contract n L Dm V lam.

  Lemma contract_eigvec c : c < n -> gen_eigvec n L Dm (lam c) (mcol V c).
  Proof.
    intros Hc i Hi. destruct Hcontract as [HAV _].
    specialize (HAV i c Hi Hc). unfold mmul in HAV. unfold mv, vscale, mcol.
    etransitivity; [exact HAV|].
    rewrite <- sumn_mul_l. apply sumn_ext. intros t Ht.
    pose proof (mmul_diag_r n V lam t c Hc) as E. unfold mmul in E. rewrite E.
    change (@fmul Qc QcOps) with Qcmult. ring.
  Qed.

  Lemma contract_gram a b :
    a < n -> b < n -> dot n (mcol V a) (mv n Dm (mcol V b)) = delta a b.
  Proof.
    intros Ha Hb'. destruct Hcontract as [_ HG]. exact (HG a b Ha Hb').
  Qed.

  Lemma gen_eigenvalue_rayleigh c :
    c < n -> lam c = dot n (mcol V c) (mv n L (mcol V c)).
  Proof.
    intros Hc. pose proof (contract_eigvec c Hc) as E.
    rewrite (dot_ext n (mcol V c) (mcol V c) (mv n L (mcol V c))
                     (vscale (lam c) (mv n Dm (mcol V c)))) by (intros; auto).
    unfold vscale.
    rewrite (dot_comm n (mcol V c)), dot_scale_l, (dot_comm n _ (mcol V c)), contract_gram by exact Hc.
    rewrite delta_eq. change (@fmul Qc QcOps) with Qcmult. change (@fone Qc QcOps) with 1%Qc. ring.
  Qed.

  Theorem gen_eigenvalues_nonneg c : c < n -> (0 <= lam c)%Qc.
  Proof.
    intros Hc. rewrite gen_eigenvalue_rayleigh by exact Hc.
    apply lap_psd. intros; apply heat_nonneg; assumption.
  Qed.

  Hypothesis Hconn : lconnected.

  Lemma zero_eigvec_const c : c < n -> lam c = 0%Qc -> forall i, i < n -> V i c = V 0 c.
  Proof.
    intros Hc Hz i Hi. rewrite gen_eigenvalue_rayleigh in Hz by exact Hc.
    exact (lap_kernel_connected (mcol V c) Hconn Hz i Hi).
  Qed.

  (* two different columns cannot both belong to the eigenvalue 0 *)
  Theorem zero_eigenvalue_simple a b :
    a < n -> b < n -> a <> b -> lam a = 0%Qc -> lam b = 0%Qc -> False.
  Proof.
    intros Ha Hb' Hne Za Zb.
    pose proof (zero_eigvec_const a Ha Za) as Ca.
    pose proof (zero_eigvec_const b Hb' Zb) as Cb.
    set (S := sumn n (fun i => sumn n (fun j => Dm i j))).
    assert (G : forall x y, x < n -> y < n -> (forall i, i < n -> V i x = V 0%nat x) ->
                (forall i, i < n -> V i y = V 0%nat y) ->
                dot n (mcol V x) (mv n Dm (mcol V y)) = (V 0%nat x * V 0%nat y * S)%Qc).
    { intros x y Hx Hy Cx Cy. unfold dot, mv, mcol, S.
      rewrite (sumn_ext n _ (fun t => (V 0%nat x * V 0%nat y * sumn n (fun j => Dm t j))%F)).
      - rewrite sumn_mul_l. reflexivity.
      - intros t Ht. rewrite (Cx t Ht).
        rewrite (sumn_ext n _ (fun j => (V 0%nat y * Dm t j)%F)).
        + rewrite (sumn_mul_l n (V 0%nat y) (fun j => Dm t j)). change (@fmul Qc QcOps) with Qcmult. ring.
        + intros j Hj. rewrite (Cy j Hj). change (@fmul Qc QcOps) with Qcmult. ring. }
    pose proof (contract_gram a a Ha Ha) as Gaa. rewrite (G a a Ha Ha Ca Ca), delta_eq in Gaa.
    pose proof (contract_gram b b Hb' Hb') as Gbb. rewrite (G b b Hb' Hb' Cb Cb), delta_eq in Gbb.
    pose proof (contract_gram a b Ha Hb') as Gab.
    rewrite (G a b Ha Hb' Ca Cb), (delta_neq a b Hne) in Gab.
    change (@fone Qc QcOps) with 1%Qc in *. change (@fzero Qc QcOps) with 0%Qc in *.
    (* (a a S)(b b S) = 1 but (a b S)^2 = 0 *)
    assert (E : ((V 0%nat a * V 0%nat a * S) * (V 0%nat b * V 0%nat b * S) =
                 (V 0%nat a * V 0%nat b * S) * (V 0%nat a * V 0%nat b * S))%Qc) by ring.
    rewrite Gaa, Gbb, Gab in E. apply Q_apart_0_1.
    transitivity (1 * 1)%Qc; [ring|rewrite E; ring].
  Qed.
End LapOrder.

(* ---------------------------------------------------------------------- *)
(*  the full statement for Laplacian Eigenmaps at Qc                        *)
(* ---------------------------------------------------------------------- *)
Theorem le_smallest_nonzero
        (heat : nat -> nat -> Qc) (n : nat) (nbrs : list (list nat)) (k d : nat)
        (Dm V : mat Qc) (lam : vec Qc) :
  d + 1 <= n ->
  (forall i q, i < n -> q < k -> nb_at nbrs i q < n) ->
  (forall i q, i < n -> q < k -> (0 < heat i (nb_at nbrs i q))%Qc) ->
  lconnected n nbrs k ->
  msym n Dm ->
  gen_contract n (matL heat k nbrs n) Dm V lam ->
  (forall a b, a <= b -> b < n -> (lam a <= lam b)%Qc) ->
  (forall c, c < n -> (0 <= lam c)%Qc) /\
  (forall c, 1 <= c -> c < n -> (0 < lam c)%Qc) /\
  (exists Y, le_embedding n d V = Some Y /\
             (forall r c, Y r c = V r (1 + c)) /\
             le_spec n d (matL heat k nbrs n) Dm Y (fun c => lam (1 + c))) /\
  (forall c c', c < d -> d < c' -> c' < n -> (lam (1 + c)%nat <= lam c')%Qc).
Proof.
  intros Hd Hb Hpos Hconn HDs Hc Hasc.
  assert (Hnn : forall c, c < n -> (0 <= lam c)%Qc).
  { intros c Hc'. apply (gen_eigenvalues_nonneg heat n nbrs k Hb Hpos Dm V lam Hc c Hc'). }
  assert (Hp : forall c, 1 <= c -> c < n -> (0 < lam c)%Qc).
  { intros c H1 Hc'. destruct (Qcle_lt_or_eq _ _ (Hnn c Hc')) as [P|E]; [exact P|].
    exfalso. symmetry in E.
    assert (Z0 : lam 0 = 0%Qc).
    { apply Qcle_antisym; [|apply Hnn; lia]. rewrite <- E. apply Hasc; lia. }
    apply (zero_eigenvalue_simple heat n nbrs k Hb Hpos Dm V lam Hc Hconn 0 c); try lia; assumption. }
  split; [exact Hnn|]. split; [exact Hp|]. split.
  - apply (@le_embedding_normalised Qc QcOps QcField n d (matL heat k nbrs n) Dm V lam Hd).
    + apply matL_sym_gen.
    + intros i Hi. apply matL_row_sum_gen. exact Hi.
    + exact HDs.
    + exact Hc.
    + intros c Hc' E.
      apply (Qclt_not_eq _ _ (Hp (1 + c) ltac:(lia) ltac:(lia))). symmetry. exact E.
  - intros c c' Hc1 Hc2 Hc3. apply Hasc; lia.
Qed.

(* ---------------------------------------------------------------------- *)
(*  ... and relative to the PENCIL (L, Dm) itself, given the completeness  *)
(*  relation V (V^T Dm) = I of the answer                                  *)
(* ---------------------------------------------------------------------- *)
Lemma find_lam_eq (lam : vec Qc) (mu : Qc) (n : nat) :
  {c | c < n /\ lam c = mu} + {forall c, c < n -> lam c <> mu}.
Proof.
  induction n as [|n IH].
  - right. intros c Hc. lia.
  - destruct IH as [[c [Hc E]]|H].
    + left. exists c. split; [lia|exact E].
    + destruct (Qc_eq_dec (lam n) mu) as [E|E].
      * left. exists n. split; [lia|exact E].
      * right. intros c Hc. destruct (Nat.eq_dec c n) as [->|Hne]; [exact E|apply H; lia].
Qed.

Theorem le_pencil_spectrum
        (heat : nat -> nat -> Qc) (n : nat) (nbrs : list (list nat)) (k d : nat)
        (Dm V : mat Qc) (lam : vec Qc) :
  d + 1 <= n ->
  (forall i q, i < n -> q < k -> nb_at nbrs i q < n) ->
  (forall i q, i < n -> q < k -> (0 < heat i (nb_at nbrs i q))%Qc) ->
  lconnected n nbrs k ->
  msym n Dm ->
  gen_contract n (matL heat k nbrs n) Dm V lam ->
  meq n n (mmul n V (mmul n (mtrans V) Dm)) mI ->
  (forall a b, a <= b -> b < n -> (lam a <= lam b)%Qc) ->
  lam 0 = 0%Qc /\
  forall (mu : Qc) (y : vec Qc),
    gen_eigvec n (matL heat k nbrs n) Dm mu y -> (exists i, i < n /\ y i <> 0%Qc) -> mu <> 0%Qc ->
    exists c, 1 <= c /\ c < n /\ lam c = mu /\
              (d < c -> forall c', c' < d -> (lam (1 + c')%nat <= mu)%Qc).
Proof.
  intros Hd Hb Hpos Hconn HDs Hc Hcomp Hasc.
  destruct (le_smallest_nonzero heat n nbrs k d Dm V lam Hd Hb Hpos Hconn HDs Hc Hasc)
    as [Hnn [Hp _]].
  assert (HLs : msym n (matL heat k nbrs n)) by apply matL_sym_gen.
  assert (Hfind : forall mu y, gen_eigvec n (matL heat k nbrs n) Dm mu y ->
                   (exists i, i < n /\ y i <> 0%Qc) -> exists c, c < n /\ lam c = mu).
  { intros mu y Hy [i [Hi Hyi]].
    destruct (find_lam_eq lam mu n) as [[c [Hc' E]]|H]; [exists c; split; assumption|].
    exfalso. apply Hyi.
    apply (@spectrum_complete Qc QcOps QcField n (matL heat k nbrs n) Dm V lam HLs HDs Hc Hcomp mu y Hy H i Hi). }
  assert (Z0 : lam 0 = 0%Qc).
  { destruct (Hfind 0%Qc (fun _ => 1%Qc)) as [c [Hc' E]].
    - intros i Hi. unfold mv, vscale.
      rewrite (sumn_ext n _ (fun j => matL heat k nbrs n i j)).
      + rewrite matL_row_sum_gen by exact Hi. change (@fmul Qc QcOps) with Qcmult.
        change (@fzero Qc QcOps) with 0%Qc. ring.
      + intros j _. change (@fmul Qc QcOps) with Qcmult. ring.
    - exists 0. split; [lia|]. apply Q_apart_0_1.
    - destruct c as [|c]; [exact E|].
      exfalso. pose proof (Hp (S c) ltac:(lia) Hc') as P. rewrite E in P.
      exact (Qclt_not_eq _ _ P eq_refl). }
  split; [exact Z0|].
  intros mu y Hy Hy0 Hmu.
  destruct (Hfind mu y Hy Hy0) as [c [Hc' E]].
  exists c. split.
  - destruct c as [|c]; [|lia]. exfalso. apply Hmu. rewrite <- E. exact Z0.
  - split; [exact Hc'|]. split; [exact E|].
    intros Hdc c' Hc''. rewrite <- E. apply Hasc; lia.
Qed.
