(* ====================================================================== *)
(*  Spe_Model.v — executable models for property C19 (NO proofs here)      *)
(*                                                                         *)
(*  Mirrors, step by step,                                                 *)
(*   * include/tapkee/routines/spe.hpp  spe_embedding:                     *)
(*       - the nupdates clamp  `while (nupdates > N/2) nupdates = N/2;`     *)
(*       - the index bookkeeping of the main loop (CURRENT code, after the  *)
(*         F14 repair: separate `permutation` array, `floor(u*k)`) and of   *)
(*         the OLD code (shuffles the overwritten `indices`, `floor(u*(k-1))`)*)
(*       - the batched coordinate update of one iteration (abstract field;  *)
(*         the norms D[j] are value oracles)                                *)
(*   * routines/random_projection.hpp + methods/random_projection.hpp +     *)
(*     routines/pca.hpp (compute_mean, project)                             *)
(*   * routines/fa.hpp project (EM loop; inverse / log det / the            *)
(*     convergence comparison are function oracles)                         *)
(*                                                                          *)
(*  Numbers.  Index logic: nat / Z; the uniform draws u are rationals (Q):  *)
(*  the harness feeds 20-bit dyadic u and k <= 2^19, for which              *)
(*  `floor(u*k) + k*j` is exact in binary64.  Coordinates: abstract field   *)
(*  (Mat_Sums/Mat_Core), run at Qc.  sqrt never appears: the norm           *)
(*  D[j] = |Y_a - Y_b| and sqrt(D) of random projection are inputs with the *)
(*  contract  d*d = |..|^2  resp.  s*s = D  stated in the theorems.         *)
(*  Out-of-range accesses return OOB (site, index, size); sites:            *)
(*   1 shuffle source position   2 indices[j]          3 neighbors[i]       *)
(*   4 current_neighbors[kk]     5 ind1Neighbors[r]    6 indices[nu+j] :=   *)
(*   7 indices[nu+j] (read)      8 r < 0                                    *)
(* ====================================================================== *)
Require Import List Arith Lia Bool ZArith QArith Qround.
From TK Require Import Mat_Sums Mat_Core.
Import ListNotations.
Local Open Scope nat_scope.

Inductive res (A : Type) : Type :=
| Ok (a : A)
| OOB (site idx size : nat)
| NoStream (site : nat)      (* an oracle stream handed in by the harness is too short *)
| OutOfFuel.
Arguments Ok {A} a.
Arguments OOB {A} site idx size.
Arguments NoStream {A} site.
Arguments OutOfFuel {A}.

Definition bind {A B} (r : res A) (f : A -> res B) : res B :=
  match r with
  | Ok a => f a
  | OOB s i n => OOB s i n
  | NoStream s => NoStream s
  | OutOfFuel => OutOfFuel
  end.

Fixpoint mapM {A B} (f : A -> res B) (l : list A) : res (list B) :=
  match l with
  | [] => Ok []
  | a :: t => bind (f a) (fun b => bind (mapM f t) (fun bs => Ok (b :: bs)))
  end.

Definition get (site : nat) (l : list nat) (i : nat) : res nat :=
  match nth_error l i with
  | Some x => Ok x
  | None => OOB site i (length l)
  end.

Fixpoint set_nth (l : list nat) (i v : nat) : option (list nat) :=
  match l, i with
  | [], _ => None
  | _ :: t, O => Some (v :: t)
  | x :: t, S i' => match set_nth t i' v with Some t' => Some (x :: t') | None => None end
  end.

(* ---------------------------------------------------------------------- *)
(*  nupdates clamp:  while (nupdates > N / 2) nupdates = N / 2;            *)
(* ---------------------------------------------------------------------- *)
Fixpoint clamp_loop (fuel nupd N : nat) : option nat :=
  match fuel with
  | O => None
  | S f => if N / 2 <? nupd then clamp_loop f (N / 2) N else Some nupd
  end.

(* ---------------------------------------------------------------------- *)
(*  tapkee::random_shuffle as an oracle: hook H1 reports `from` with        *)
(*  after[i] = before[from[i]]                                              *)
(* ---------------------------------------------------------------------- *)
Definition apply_from (from l : list nat) : res (list nat) := mapM (get 1 l) from.

(* one iteration's oracle answers: the shuffle and the uniform draws *)
Record iter_in := { it_from : list nat; it_us : list Q }.
(* what one iteration exposes: the shuffled array, `indices` as used, the updated pairs *)
Record iter_out := { o_perm : list nat; o_idx : list nat; o_pairs : list (nat * nat) }.

(* the pairs (ind1[j], ind2[j]) for j = 0 .. nu-1 with ind1 = indices.begin(), ind2 = ind1 + nu *)
Definition pairs_of (nu : nat) (idx : list nat) : res (list (nat * nat)) :=
  mapM (fun j => bind (get 2 idx j) (fun a => bind (get 7 idx (nu + j)) (fun b => Ok (a, b))))
       (seq 0 nu).

(* floor(uniform_random() * k)   (current)   /   floor(uniform_random() * (k - 1))   (old) *)
Definition draw (k : nat) (u : Q) : Z := Qfloor (u * inject_Z (Z.of_nat k))%Q.
Definition draw_old (k : nat) (u : Q) : Z := Qfloor (u * inject_Z (Z.of_nat k - 1)%Z)%Q.

(* ind1Neighbors[kk + j*k] = neighbors[indices[j]][kk] *)
Definition gather (neighbors : list (list nat)) (k nu : nat) (idx : list nat) : res (list nat) :=
  bind (mapM (fun j => bind (get 2 idx j) (fun a =>
                match nth_error neighbors a with
                | None => OOB 3 a (length neighbors)
                | Some nb => mapM (fun kk => get 4 nb kk) (seq 0 k)
                end)) (seq 0 nu))
       (fun ls => Ok (concat ls)).

(* r = floor(u*k) + k*j ; indices[nu + j] = ind1Neighbors[r] *)
Fixpoint select_loop (drawf : Q -> Z) (k nu : nat) (g : list nat) (js : list nat) (us : list Q)
         (idx : list nat) : res (list nat) :=
  match js with
  | [] => Ok idx
  | j :: js' =>
    match us with
    | [] => NoStream 1
    | u :: us' =>
      let r := (drawf u + Z.of_nat (k * j))%Z in
      if (r <? 0)%Z then OOB 8 0 (length g) else
        bind (get 5 g (Z.to_nat r)) (fun v =>
        match set_nth idx (nu + j) v with
        | None => OOB 6 (nu + j) (length idx)
        | Some idx' => select_loop drawf k nu g js' us' idx'
        end)
    end
  end.

Definition local_overwrite (drawf : Q -> Z) (neighbors : list (list nat)) (k nu : nat)
           (us : list Q) (idx : list nat) : res (list nat) :=
  bind (gather neighbors k nu idx) (fun g => select_loop drawf k nu g (seq 0 nu) us idx).

(* CURRENT code: state = `permutation`; `indices = permutation` is the working copy *)
Definition iter_new (global : bool) (neighbors : list (list nat)) (k nu : nat)
           (perm : list nat) (i : iter_in) : res (list nat * iter_out) :=
  bind (apply_from (it_from i) perm) (fun perm' =>
  bind (if global then Ok perm'
        else local_overwrite (draw k) neighbors k nu (it_us i) perm') (fun idx =>
  bind (pairs_of nu idx) (fun ps =>
  Ok (perm', {| o_perm := perm'; o_idx := idx; o_pairs := ps |})))).

(* OLD code (before F14): state = `indices` itself, shuffled after having been overwritten *)
Definition iter_old (global : bool) (neighbors : list (list nat)) (k nu : nat)
           (indices : list nat) (i : iter_in) : res (list nat * iter_out) :=
  bind (apply_from (it_from i) indices) (fun sh =>
  bind (if global then Ok sh
        else local_overwrite (draw_old k) neighbors k nu (it_us i) sh) (fun idx =>
  bind (pairs_of nu idx) (fun ps =>
  Ok (idx, {| o_perm := sh; o_idx := idx; o_pairs := ps |})))).

Fixpoint run_iters (step : list nat -> iter_in -> res (list nat * iter_out)) (s : list nat)
         (its : list iter_in) : res (list iter_out) :=
  match its with
  | [] => Ok []
  | i :: t => bind (step s i) (fun so =>
              bind (run_iters step (fst so) t) (fun os => Ok (snd so :: os)))
  end.

(* the whole index history of spe_embedding: one iter_in per iteration (max_iter of them) *)
Definition spe_indices (old global : bool) (neighbors : list (list nat)) (nupd N : nat)
           (its : list iter_in) : res (list iter_out) :=
  bind (if global then Ok 0
        else match neighbors with
             | [] => OOB 3 0 0                      (* neighbors[0].size() *)
             | nb0 :: _ => Ok (length nb0)
             end) (fun k =>
  match clamp_loop 2 nupd N with
  | None => OutOfFuel
  | Some nu =>
    run_iters ((if old then iter_old else iter_new) global neighbors k nu) (seq 0 N) its
  end).

(* ====================================================================== *)
(*  Coordinates, random projection, factor analysis: abstract field        *)
(* ====================================================================== *)
Section Field.
  Context {F : Type} {Fo : FieldOps F} {Ff : IsField F}.
  Local Open Scope F_scope.

  (* ---- SPE batched update of one iteration --------------------------- *)
  Definition pts := nat -> vec F.            (* point index -> coordinate vector (a column of Y) *)

  Definition upd_add (Y : pts) (i : nat) (v : vec F) : pts :=
    fun i' => if Nat.eqb i' i then vadd (Y i') v else Y i'.
  Definition upd_sub (Y : pts) (i : nat) (v : vec F) : pts :=
    fun i' => if Nat.eqb i' i then vsub (Y i') v else Y i'.

  (* D.array() += tolerance;  scale = (Rt - D).cwiseQuotient(D) *)
  Definition scale_of (tol r dn : F) : F := (r - (dn + tol)) / (dn + tol).

  Fixpoint map2 {A B C} (f : A -> B -> C) (l : list A) (l' : list B) : list C :=
    match l, l' with
    | a :: t, b :: t' => f a b :: map2 f t t'
    | _, _ => []
    end.

  (* Y.col(ind1[j]) += lambda/2 * scale[j] * Yd.col(j);  Y.col(ind2[j]) -= the same *)
  Fixpoint apply_updates (lam : F) (ps : list (nat * nat)) (sc : list F) (Yd : list (vec F))
           (Y : pts) : pts :=
    match ps, sc, Yd with
    | (a, b) :: ps', s :: sc', yd :: Yd' =>
      let Y1 := upd_add Y a (vscale (lam / two * s) yd) in
      let Y2 := upd_sub Y1 b (vscale (lam / two * s) yd) in
      apply_updates lam ps' sc' Yd' Y2
    | _, _, _ => Y
    end.

  (* Rt = reference distances (already multiplied by alpha / 1), Dn = the norms |Y_a - Y_b| *)
  Definition spe_step (lam tol : F) (ps : list (nat * nat)) (Rt Dn : list F) (Y : pts) : pts :=
    let Yd := map (fun p => vsub (Y (fst p)) (Y (snd p))) ps in
    let sc := map2 (scale_of tol) Rt Dn in
    apply_updates lam ps sc Yd Y.

  (* lambda = lambda - (lambda / max_iter) *)
  Definition lambda_next (T : nat) (lam : F) : F := lam - lam / of_nat T.

  (* ---- Random projection --------------------------------------------- *)
  (* gaussian_projection_matrix(rows, cols): for i < rows, for j < cols:
       P(i,j) = gaussian_random() / sqrt(rows);  s is the value of sqrt(rows) *)
  Fixpoint rp_row (s : F) (cols : nat) (g : list F) : res (list F * list F) :=
    match cols with
    | O => Ok ([], g)
    | S c => match g with
             | [] => NoStream 2
             | x :: g' => bind (rp_row s c g') (fun rg => Ok (x / s :: fst rg, snd rg))
             end
    end.
  Fixpoint rp_fill (s : F) (rows cols : nat) (g : list F) : res (list (list F) * list F) :=
    match rows with
    | O => Ok ([], g)
    | S r => bind (rp_row s cols g) (fun rg =>
             bind (rp_fill s r cols (snd rg)) (fun Pg => Ok (fst rg :: fst Pg, snd Pg)))
    end.

  (* samples: X i t = feature t of sample i *)
  (* compute_mean: mean += x_i ; mean /= n *)
  Definition mean_vec (n : nat) (X : mat F) : vec F := fun t => sumn n (fun i => X i t) / of_nat n.
  (* routines/pca.hpp project: embedding.row(i) = P^T (x_i - mean) *)
  Definition rp_project (D : nat) (P : mat F) (m : vec F) (X : mat F) : mat F :=
    fun i c => sumn D (fun t => P t c * (X i t - m t)).

  (* RandomProjection::embed: P = gaussian_projection_matrix(current_dimension, target_dimension) *)
  Definition rp_embed (s : F) (n D d : nat) (g : list F) (X : mat F) : res (list (list F)) :=
    bind (rp_fill s D d g) (fun Pg =>
    Ok (mtab n d (rp_project D (mof (fst Pg)) (mean_vec n X) X))).

  Definition translate (t : vec F) (X : mat F) : mat F := fun i a => X i a + t a.

  (* ---- Factor analysis (routines/fa.hpp project) --------------------- *)
  Section FA.
    Variable inv : nat -> mat F -> mat F.        (* .inverse() of an m x m matrix: function oracle *)
    Variable logdet : nat -> mat F -> F.       (* log(det)                                        *)
    Variable stop : F -> F -> bool.          (* fabs(newll - ll) < epsilon                      *)

    Definition memo (n m : nat) (A : mat F) : mat F := mof (mtab n m A).

    (* X is D x n here (one column per sample, already centred), A is D x d, sig is D x D *)
    Fixpoint fa_em (fuel iter n D d : nat) (eps : F) (X A sig : mat F) (ll : F) : mat F :=
      match fuel with
      | O => A
      | S fuel' =>
        let iter' := S iter in
        let invC := memo D D (inv D (madd (mmul d A (mtrans A)) sig)) in
        let AtinvC := memo d D (mmul D (mtrans A) invC) in
        let M := memo d n (mmul D AtinvC X) in
        let SC := memo d d (madd (mscale (of_nat n) (msub mI (mmul D AtinvC A)))
                                 (mmul n M (mtrans M))) in
        let A' := memo D d (mmul d (mmul n X (mtrans M)) (inv d SC)) in
        let XXt := mmul n X (mtrans X) in
        let AMXt := mmul n (mmul d A' M) (mtrans X) in
        (* DenseMatrix(diag.asDiagonal()).array() + epsilon : epsilon is added to EVERY entry *)
        let sig' := memo D D (fun i j => (if Nat.eqb i j then (XXt i i - AMXt i i) / of_nat n
                                          else 0) + eps) in
        let newll := (1 / two) * (logdet D invC
                       - sumn D (fun t => sumn n (fun i => mmul D invC X t i * X t i)) / of_nat n) in
        if (1 <? iter')%nat && stop newll ll then A'
        else fa_em fuel' iter' n D d eps X A' sig' newll
      end.

    (* the part of project() after the centred data matrix XL (D rows, one column per sample) is built *)
    Definition fa_core (max_iter n D d : nat) (eps : F) (A0 : mat F) (XL : list (list F))
      : list (list F) :=
      let Xc := mof XL in
      let A := fa_em max_iter 0 n D d eps Xc (memo D d A0) mI 0 in
      mtab n d (fun i c => sumn D (fun t => Xc t i * A t c)).

    (* FactorAnalysis::embed: mean = compute_mean; X.col(i) = x_i - mean; ...; return X^T A *)
    Definition fa_embed (max_iter n D d : nat) (eps : F) (A0 : mat F) (S : mat F) : list (list F) :=
      fa_core max_iter n D d eps A0 (mtab D n (fun t i => S i t - mean_vec n S t)).
  End FA.
End Field.
