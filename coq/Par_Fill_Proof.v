(* Par_Fill_Proof.v — property C15: full functional correctness of the symmetric fill under EVERY
   schedule, for every size: whatever the assignment of iterations to threads and the interleaving,
   there is no race and the finished matrix holds f (min a b) (max a b) at (a, b). *)
From Coq Require Import ZArith List String Bool Lia Arith.
Import ListNotations.
From TK Require Import Par_Model Par_Spec Par_Proof Par_Region_Model Par_Region_Proof Par_Fill_Model.

Lemma mkey_inj : forall var a b a' b', mkey var a b = mkey var a' b' -> a = a' /\ b = b'.
Proof. unfold mkey. intros var a b a' b' H. injection H. lia. Qed.

Lemma sym_accs_ok : forall var, check_shared (sym_accs var) = true.
Proof.
  intros var. unfold check_shared, sym_accs, access_ok, same_var. cbn.
  rewrite String.eqb_refl. reflexivity.
Qed.

Section FillProof.
  Variable V C : Type.
  Variable var : string.
  Variable f : nat -> nat -> V.
  Notation fill_row := (fill_row V C var f).
  Notation sym_body := (sym_body V C var f).
  Notation run := (run key_eqb).

  (* the keys of pair (i, j) *)
  Definition pair_keys (i j : nat) (x : key) : Prop := x = mkey var i j \/ x = mkey var j i.

  Lemma fill_row_within : forall i js (R W : key -> Prop),
    (forall j, In j js -> W (mkey var i j) /\ W (mkey var j i)) ->
    within R W (fill_row i js).
  Proof.
    intros i js R W. induction js as [|j js IH]; intros H; cbn; [exact I|].
    destruct (H j (or_introl eq_refl)) as [H1 H2]. repeat split; auto.
    apply IH. intros j' Hj'. apply H. right. exact Hj'.
  Qed.

  Lemma fill_row_reinit : forall i js (P : key -> Prop), reinit P (fill_row i js).
  Proof. intros i js P. induction js as [|j js IH]; cbn; auto. Qed.

  Lemma Wd_sym : forall i j, i <= j ->
    Wd (sym_accs var) i (mkey var i j) /\ Wd (sym_accs var) i (mkey var j i).
  Proof.
    intros i j Hij. split.
    - exists (mkAcc var true false AElem (XIt 0) (XIn (BIt 0) BTop)).
      split; [left; reflexivity|]. cbn. repeat split; auto; cbn; lia.
    - exists (mkAcc var true false AElem (XIn (BIt 0) BTop) (XIt 0)).
      split; [right; left; reflexivity|]. cbn. repeat split; auto; cbn; lia.
  Qed.

  Lemma sym_body_within : forall N i,
    within (Ad (sym_accs var) i) (Wd (sym_accs var) i) (sym_body N i).
  Proof.
    intros N i. apply fill_row_within. intros j Hj. apply in_seq in Hj. apply Wd_sym. lia.
  Qed.

  (* what the row fill leaves in memory *)
  Lemma run_fill_row_other : forall t i js (st : state key V C) x,
    (forall j, In j js -> ~ pair_keys i j x) ->
    sh (run t i (fill_row i js) st) x = sh st x.
  Proof.
    intros t i js. induction js as [|j js IH]; intros st x H; cbn; [reflexivity|].
    rewrite IH by (intros j' Hj'; apply H; right; exact Hj').
    cbn. assert (Hn := H j (or_introl eq_refl)). unfold pair_keys in Hn.
    unfold upd.
    destruct (key_eqb (mkey var j i) x) eqn:E1; [apply key_eqb_spec in E1; exfalso; apply Hn; auto|].
    destruct (key_eqb (mkey var i j) x) eqn:E2; [apply key_eqb_spec in E2; exfalso; apply Hn; auto|].
    reflexivity.
  Qed.

  Lemma pair_keys_unique : forall i j j' x, pair_keys i j x -> pair_keys i j' x -> j = j'.
  Proof.
    intros i j j' x [ -> | -> ] [H|H]; apply mkey_inj in H; lia.
  Qed.

  Lemma run_fill_row_hit : forall t i js (st : state key V C) x j,
    In j js -> pair_keys i j x -> sh (run t i (fill_row i js) st) x = f i j.
  Proof.
    intros t i js. induction js as [|j0 js IH]; intros st x j Hin Hx; [destruct Hin|].
    cbn [Par_Fill_Model.fill_row Par_Model.run].
    destruct (in_dec Nat.eq_dec j js) as [Hj|Hj]; [apply IH; assumption|].
    destruct Hin as [->|Hin]; [|contradiction].
    rewrite run_fill_row_other.
    - cbn. unfold upd. destruct Hx as [ -> | -> ].
      + destruct (key_eqb (mkey var j i) (mkey var i j)); [reflexivity|].
        rewrite (proj2 (key_eqb_spec _ _) eq_refl). reflexivity.
      + rewrite (proj2 (key_eqb_spec _ _) eq_refl). reflexivity.
    - intros j' Hj' Hx'. apply Hj. rewrite (pair_keys_unique i j j' x Hx Hx'). exact Hj'.
  Qed.

  (* THE theorem: every schedule of every assignment, every N *)
  Theorem sym_fill_all_schedules : forall N asg (m0 : key -> V) p0 sch qs st,
    valid_asg N asg ->
    run_sched key_eqb sch (init_queues (sym_body N) asg, mkState m0 p0 []) = (qs, st) ->
    ~ race qs /\
    (done qs -> forall a b, a < N -> b < N ->
       sh st (mkey var a b) = f (Nat.min a b) (Nat.max a b)).
  Proof.
    intros N asg m0 p0 sch qs st Hasg Hrun.
    pose proof (region_fp_disjoint (sym_accs var) (sym_accs_ok var) N) as Hd.
    destruct (bernstein key key_eqb key_eqb_spec V C N (sym_body N) (Ad (sym_accs var)) (Wd (sym_accs var))
                Hd (fun i _ => sym_body_within N i) (fun i _ => fill_row_reinit i _ _)
                m0 p0 asg p0 sch qs st Hasg Hrun) as [Hnr Hfin].
    split; [exact Hnr|]. intros Hdone a b Ha Hb.
    destruct (Hfin Hdone) as (Hown & _).
    set (i := Nat.min a b). set (j := Nat.max a b).
    assert (Hi : i < N) by (unfold i; lia).
    assert (Hij : i <= j) by (unfold i, j; lia).
    assert (Hx : pair_keys i j (mkey var a b)).
    { unfold pair_keys, i, j. destruct (Nat.le_ge_cases a b).
      - left. rewrite Nat.min_l, Nat.max_r by lia. reflexivity.
      - right. rewrite Nat.min_r, Nat.max_l by lia. reflexivity. }
    assert (HW : Wd (sym_accs var) i (mkey var a b)).
    { destruct Hx as [ -> | -> ]; apply Wd_sym; exact Hij. }
    rewrite (Hown i (mkey var a b) Hi HW). unfold Final.
    apply run_fill_row_hit; [|exact Hx]. apply in_seq. unfold j, i in *. lia.
  Qed.
End FillProof.

(* ---------------------------------------------------------------------- HLLE: private_reinit of Yi *)
Section HlleProof.
  Variable V C : Type.
  Variable v0 : V.
  Variable c0 : C.
  Notation wr_cols := (wr_cols V C v0).
  Notation rd_cols := (rd_cols V C).
  Notation hlle_body := (hlle_body V C v0 c0).

  Lemma ykey_inj : forall c c', ykey c = ykey c' -> c = c'.
  Proof. unfold ykey. intros c c' H. injection H. auto. Qed.

  Lemma reinit_wr_cols : forall cs (k : prog key V C) (P : key -> Prop),
    reinit P (wr_cols cs k) <-> reinit (fun y => (exists c, In c cs /\ y = ykey c) \/ P y) k.
  Proof.
    induction cs as [|c cs IH]; intros k P; cbn.
    - split; apply reinit_mono; [intros x H; right; exact H|intros x [(c & [] & _)|H]; exact H].
    - rewrite IH. split; apply reinit_mono.
      + intros x [(c' & Hc' & ->)|[->|H]]; [left; exists c'; auto|left; exists c; auto|right; exact H].
      + intros x [(c' & [<-|Hc'] & ->)|H]; [right; left; reflexivity|left; exists c'; auto|right; right; exact H].
  Qed.

  Lemma reinit_rd_cols : forall cs (k : prog key V C) (P : key -> Prop),
    reinit P (rd_cols cs k) <-> (forall c, In c cs -> P (ykey c)) /\ reinit P k.
  Proof.
    induction cs as [|c cs IH]; intros k P; cbn.
    - split; [intros H; split; [intros c []|exact H]|intros [_ H]; exact H].
    - split.
      + intros [Hc H]. destruct (proj1 (IH k P) (H v0)) as [Hall Hk]. split; [|exact Hk].
        intros c' [<-|Hc']; [exact Hc|exact (Hall c' Hc')].
      + intros [Hall Hk]. split; [apply Hall; left; reflexivity|].
        intros _. apply IH. split; [intros c' Hc'; apply Hall; right; exact Hc'|exact Hk].
  Qed.

  (* the body re-initialises Yi iff every column it reads was written before *)
  Lemma hlle_body_reinit_iff : forall step col d,
    reinit (fun _ => False) (hlle_body step col d) <->
    forall c, In c (hlle_read_all d) -> In c (hlle_written_all step col d).
  Proof.
    intros step col d. unfold Par_Fill_Model.hlle_body. rewrite reinit_wr_cols, reinit_rd_cols. split.
    - intros (H & _) c Hc. destruct (H c Hc) as [(c' & Hc' & E)|[]]. apply ykey_inj in E. subst. exact Hc'.
    - intros H. split; [intros c Hc; left; exists c; auto|]. cbn. exact I.
  Qed.

  (* the code as it is: for EVERY target dimension Yi is fully re-initialised before Gram-Schmidt reads it *)
  Theorem hlle_body_reinit : forall d,
    reinit (fun _ => False) (hlle_body hlle_step_expected hlle_col_expected d).
  Proof.
    intros d. apply hlle_body_reinit_iff. intros c Hc.
    unfold hlle_read_all in Hc. apply in_map_iff in Hc. destruct Hc as (n & <- & Hn). apply in_seq in Hn.
    unfold hlle_written_all.
    pose proof (hlle_cols_cover d) as Hcov. unfold hlle_cols_ok in Hcov.
    destruct (list_eq_dec Z.eq_dec (hlle_written hlle_step_expected hlle_col_expected d)
                (map (fun c => Z.of_nat (1 + d + c)) (seq 0 (tri d)))) as [E|]; [|discriminate].
    rewrite E.
    destruct (Nat.eq_dec n 0) as [->|Hn0]; [left; reflexivity|]. right. apply in_or_app.
    destruct (le_lt_dec n d) as [Hle|Hgt].
    - left. apply in_map. apply in_seq. lia.
    - right. apply in_map_iff. exists (n - 1 - d)%nat. split; [f_equal; lia|apply in_seq; lia].
  Qed.

  Theorem hlle_body_reinit_lin : forall step col,
    hlin step = hlin hlle_step_expected -> hlin col = hlin hlle_col_expected ->
    forall d, reinit (fun _ => False) (hlle_body step col d).
  Proof.
    intros step col Hs Hc d. apply hlle_body_reinit_iff. unfold hlle_written_all.
    rewrite (hlle_written_lin step col Hs Hc d).
    exact (proj1 (hlle_body_reinit_iff hlle_step_expected hlle_col_expected d) (hlle_body_reinit d)).
  Qed.

  (* the code before the repair of F6: at d = 3 column 9 is read without having been written — the
     result of an iteration depends on the neighbourhood the same thread handled before *)
  Theorem hlle_body_old_not_reinit :
    ~ reinit (fun _ => False) (hlle_body hlle_step_old hlle_col_expected 3).
  Proof.
    intros H. rewrite hlle_body_reinit_iff in H. specialize (H 9%Z).
    assert (Hr : In 9%Z (hlle_read_all 3)) by (vm_compute; auto 12).
    specialize (H Hr). vm_compute in H. intuition discriminate.
  Qed.
End HlleProof.
