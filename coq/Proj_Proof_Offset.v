(* ====================================================================== *)
(*  Proj_Proof_Offset.v — C07, third layer (wave 3):                        *)
(*   (a) the "hoisted mean" rewrite  P^T x - P^T m  is, over every exact   *)
(*       field, THE SAME FUNCTION as the shipped  P^T (x - m)  (function   *)
(*       level and executed lists): the algebraic model cannot tell them   *)
(*       apart, so what separates them is rounding only;                   *)
(*   (b) offset (translation) invariance: moving every sample by the same  *)
(*       vector o moves the mean by o and leaves the embedding and the     *)
(*       values of the returned function on the moved samples UNCHANGED;   *)
(*       hence the output magnitude does not grow with a common offset,    *)
(*       and a tolerance for `reproduces the embedding to rounding error   *)
(*       of the output` must not grow with it either;                      *)
(*   (c) the decision procedure with a tolerance RELATIVE TO THE OUTPUT    *)
(*       (Proj_Spec.is_projection_rel_b): reflection, exactness at eps =   *)
(*       0, completeness on the model (and on the hoisted rewrite, in      *)
(*       exact arithmetic), it implies the absolute one, and a witness     *)
(*       that the absolute tolerance built from max|x| is blind to a       *)
(*       relative error of 2^-13 of the output at offset 2^40.             *)
(* ====================================================================== *)
Require Import Field Ring Arith Lia List Bool.
From TK Require Import Mat_Sums Mat_Core Proj_Model Proj_Spec Proj_Proof Proj_Proof_Range.
Import ListNotations.

Section ProjOffset.
  Context {F : Type} {Fo : FieldOps F} {Ff : IsField F}.
  Add Field ProjOffsetField : (@Fth F Fo Ff).
  Local Open Scope nat_scope.
  Local Open Scope F_scope.

  (* ---------------- (a) hoisting the mean ---------------- *)
  Theorem project_hoisted_mean_equal D (P : mat F) (m x : vec F) c :
    mpi_project_hoisted D P m x c = mpi_project D P m x c.
  Proof.
    unfold mpi_project_hoisted, mpi_project. rewrite <- sumn_sub. apply sumn_ext. intros t _. ring.
  Qed.

  Lemma zip_sub_map {A} (f g : A -> F) (l : list A) :
    zip_sub (map f l) (map g l) = map (fun a => f a - g a) l.
  Proof. induction l as [|a r IH]; [reflexivity|]. cbn [map zip_sub]. rewrite IH. reflexivity. Qed.

  Lemma ptrans_mul_sub D d (P : list (list F)) (m x : list F) :
    length x = D -> length m = D ->
    zip_sub (ptrans_mul D d P x) (ptrans_mul D d P m) = ptrans_mul D d P (zip_sub x m).
  Proof.
    intros Hx Hm. unfold ptrans_mul, tab. rewrite zip_sub_map. apply map_ext. intros c.
    rewrite <- sumn_sub. apply sumn_ext. intros t Ht. unfold vof. rewrite zip_sub_nth by lia. ring.
  Qed.

  (* the executed lists, EVERY input (ill-formed ones give the same distinguished result) *)
  Theorem project_hoisted_mean_equal_exec D d (P : list (list F)) (m x : list F) :
    mpi_project_hoisted_exec D d P m x = mpi_project_exec D d P m x.
  Proof.
    unfold mpi_project_hoisted_exec, mpi_project_exec.
    destruct (wf_matb D d P); cbn [negb]; [|reflexivity].
    destruct (Nat.eqb (length m) D) eqn:Em; cbn [negb]; [|reflexivity].
    destruct (Nat.eqb (length x) D) eqn:Ex; cbn [negb]; [|reflexivity].
    apply Nat.eqb_eq in Em. apply Nat.eqb_eq in Ex. f_equal. apply ptrans_mul_sub; assumption.
  Qed.

  (* ---------------- (b) offset invariance, function level ---------------- *)
  Lemma div_add (a b n : F) : n <> 0 -> (a + n * b) / n = a / n + b.
  Proof. intros Hn. field. assumption. Qed.

  Theorem mean_vec_translate N (X : mat F) (o : vec F) t :
    of_nat N <> 0 -> mean_vec N (fun i u => X i u + o u) t = mean_vec N X t + o t.
  Proof.
    intros HN. unfold mean_vec. rewrite sumn_add, sumn_const. apply div_add. assumption.
  Qed.

  Theorem mpi_project_translate D (P : mat F) (m x o : vec F) c :
    mpi_project D P (fun t => m t + o t) (fun t => x t + o t) c = mpi_project D P m x c.
  Proof. unfold mpi_project. apply sumn_ext. intros t _. ring. Qed.

  Theorem embedding_translate N D (P X : mat F) (o : vec F) i c :
    of_nat N <> 0 ->
    project_mat D P (mean_vec N (fun i u => X i u + o u)) (fun i u => X i u + o u) i c =
    project_mat D P (mean_vec N X) X i c.
  Proof.
    intros HN. unfold project_mat. apply sumn_ext. intros t _. rewrite mean_vec_translate by assumption. ring.
  Qed.

  (* ---------------- (b') offset invariance of the executed loops ---------------- *)
  Lemma ltrans_length (o l : list F) : length o = length l -> length (ltrans o l) = length l.
  Proof. intros H. unfold ltrans. rewrite zip_add_length, H. apply Nat.min_id. Qed.

  Lemma vof_ltrans (o l : list F) t : length o = length l -> t < length l ->
    vof (ltrans o l) t = vof l t + vof o t.
  Proof. intros H Ht. unfold vof, ltrans. apply zip_add_nth; lia. Qed.

  Lemma mltrans_wf N D (o : list F) (Xs : list (list F)) :
    length o = D -> wf_mat N D Xs -> wf_mat N D (mltrans o Xs).
  Proof.
    intros Ho [HN HD]. split; [unfold mltrans; rewrite map_length; assumption|].
    apply Forall_forall. intros x Hx. unfold mltrans in Hx. apply in_map_iff in Hx.
    destruct Hx as [y [E Hy]]. subst x. rewrite Forall_forall in HD. specialize (HD y Hy).
    rewrite ltrans_length; congruence.
  Qed.

  Lemma nth_mltrans N D (o : list F) (Xs : list (list F)) i :
    wf_mat N D Xs -> i < N -> nth i (mltrans o Xs) [] = ltrans o (nth i Xs []).
  Proof.
    intros [HN HD] Hi. unfold mltrans.
    rewrite (nth_indep _ [] (ltrans o [])) by (rewrite map_length; lia). apply map_nth.
  Qed.

  Lemma mof_mltrans N D (o : list F) (Xs : list (list F)) i t :
    length o = D -> wf_mat N D Xs -> i < N -> t < D -> mof (mltrans o Xs) i t = mof Xs i t + vof o t.
  Proof.
    intros Ho HX Hi Ht. unfold mof. rewrite (nth_mltrans N D) by assumption.
    destruct HX as [HN HD]. rewrite Forall_forall in HD.
    assert (Hl : length (nth i Xs []) = D) by (apply HD; apply nth_In; lia).
    fold (vof (ltrans o (nth i Xs [])) t). fold (vof (nth i Xs []) t). apply vof_ltrans; lia.
  Qed.

  Lemma ltrans_vtab n (x : vec F) (o : list F) :
    length o = n -> ltrans o (vtab n x) = vtab n (fun t => x t + vof o t).
  Proof.
    intros Ho. apply list_eq_tab.
    - rewrite ltrans_length; unfold vtab; rewrite tab_length; congruence.
    - intros t Ht. fold (vof (ltrans o (vtab n x)) t).
      rewrite vof_ltrans by (unfold vtab; rewrite tab_length; lia). rewrite vof_vtab by assumption. reflexivity.
  Qed.

  Theorem compute_mean_exec_translate N D (o : list F) (Xs : list (list F)) m :
    of_nat N <> 0 -> length o = D -> wf_mat N D Xs -> compute_mean_exec D Xs = POk m ->
    compute_mean_exec D (mltrans o Xs) = POk (ltrans o m).
  Proof.
    intros HN Ho HX Hm. rewrite (compute_mean_exec_ok N D Xs HX) in Hm. inversion Hm; subst m; clear Hm.
    rewrite (compute_mean_exec_ok N D _ (mltrans_wf N D o Xs Ho HX)). f_equal.
    rewrite ltrans_vtab by assumption. apply vtab_ext. intros t Ht.
    rewrite <- (mean_vec_translate N (mof Xs) (vof o) t HN). unfold mean_vec. f_equal.
    apply sumn_ext. intros i Hi. apply (mof_mltrans N D); assumption.
  Qed.

  Theorem project_exec_translate N D d (o : list F) (P : list (list F)) (m : list F) (Xs Y : list (list F)) :
    length o = D -> wf_mat D d P -> length m = D -> wf_mat N D Xs ->
    project_exec D d P m Xs = POk Y ->
    project_exec D d P (ltrans o m) (mltrans o Xs) = POk Y.
  Proof.
    intros Ho HP Hm HX HY. rewrite (project_exec_ok N D d P m Xs HP Hm HX) in HY.
    inversion HY; subst Y; clear HY.
    assert (Hm' : length (ltrans o m) = D) by (rewrite ltrans_length; congruence).
    rewrite (project_exec_ok N D d P _ _ HP Hm' (mltrans_wf N D o Xs Ho HX)). f_equal.
    apply mtab_ext. intros i c Hi Hc. unfold project_mat. apply sumn_ext. intros t Ht.
    rewrite (mof_mltrans N D) by assumption. rewrite vof_ltrans by lia. ring.
  Qed.

  (* the executed tail of embed(): every sample moved by o -> the SAME P and the SAME embedding, the mean
     moved by o, and the returned function applied to a moved sample gives the unchanged row *)
  Theorem projecting_embed_tail_translate N D d (o : list F) (P Xs : list (list F)) :
    of_nat N <> 0 -> length o = D -> wf_mat D d P -> wf_mat N D Xs ->
    exists Y m,
      projecting_embed_tail D d P Xs = POk (Y, PFMatrix P m) /\
      projecting_embed_tail D d P (mltrans o Xs) = POk (Y, PFMatrix P (ltrans o m)) /\
      forall i, i < N ->
        pf_apply D d (PFMatrix P (ltrans o m)) (ltrans o (nth i Xs [])) = Some (POk (nth i Y [])).
  Proof.
    intros HN Ho HP HX.
    destruct (projecting_embed_tail_ok N D d P Xs HP HX) as [Y [m [H1 [H2 [H3 _]]]]].
    exists Y, m. split; [exact H1|].
    assert (Hmean : compute_mean_exec D Xs = POk m) by (rewrite H2; apply compute_mean_exec_ok; assumption).
    assert (Hm : length m = D) by (rewrite H2; apply tab_length).
    assert (Hproj : project_exec D d P m Xs = POk Y) by (rewrite H3; apply project_exec_ok; assumption).
    assert (Htail : projecting_embed_tail D d P (mltrans o Xs) = POk (Y, PFMatrix P (ltrans o m))).
    { unfold projecting_embed_tail.
      rewrite (compute_mean_exec_translate N D o Xs m HN Ho HX Hmean).
      rewrite (project_exec_translate N D d o P m Xs Y Ho HP Hm HX Hproj). reflexivity. }
    split; [exact Htail|].
    intros i Hi.
    destruct (projecting_embed_tail_ok N D d P (mltrans o Xs) HP (mltrans_wf N D o Xs Ho HX))
      as [Y' [m' [H1' [_ [_ [_ H5']]]]]].
    rewrite Htail in H1'. inversion H1'; subst Y' m'; clear H1'.
    specialize (H5' i Hi). rewrite (nth_mltrans N D) in H5' by assumption. exact H5'.
  Qed.

  (* packaged statements used by Properties_C07.v *)
  Theorem hoisted_mean_all D d (P : mat F) (Pl : list (list F)) (m x : vec F) (ml xl : list F) :
    (forall c, mpi_project_hoisted D P m x c = mpi_project D P m x c) /\
    mpi_project_hoisted_exec D d Pl ml xl = mpi_project_exec D d Pl ml xl.
  Proof.
    split; [exact (project_hoisted_mean_equal D P m x)|exact (project_hoisted_mean_equal_exec D d Pl ml xl)].
  Qed.

  Theorem offset_invariant_all N D (P X : mat F) (o m x : vec F) :
    of_nat N <> 0 ->
    (forall t, mean_vec N (fun i u => X i u + o u) t = mean_vec N X t + o t) /\
    (forall c, mpi_project D P (fun t => m t + o t) (fun t => x t + o t) c = mpi_project D P m x c) /\
    (forall i c, project_mat D P (mean_vec N (fun i u => X i u + o u)) (fun i u => X i u + o u) i c =
                 project_mat D P (mean_vec N X) X i c).
  Proof.
    intros HN. split; [intros t; apply mean_vec_translate; assumption|].
    split; [exact (mpi_project_translate D P m x o)|]. intros i c. apply embedding_translate. assumption.
  Qed.

End ProjOffset.

(* ---------------- (c) the output-relative decision procedure (Qc) ---------------- *)
Require Import ZArith QArith Qcanon.
From TK Require Import Mat_Qc.
Local Open Scope nat_scope.

Lemma pq_abs_nonneg (x : Qc) : (Q2Qc 0 <= pq_abs x)%Qc.
Proof.
  unfold pq_abs. destruct (pq_leb (Q2Qc 0) x) eqn:E.
  - apply pq_leb_ok. assumption.
  - assert (Hx : (x <= Q2Qc 0)%Qc).
    { destruct (Qclt_le_dec (Q2Qc 0) x) as [Hlt|Hle]; [|assumption].
      apply Qclt_le_weak in Hlt. apply pq_leb_ok in Hlt. congruence. }
    apply Qcopp_le_compat in Hx. exact Hx.
Qed.

Lemma sumn_nonneg_Qc n (f : nat -> Qc) :
  (forall t, t < n -> (Q2Qc 0 <= f t)%Qc) -> (Q2Qc 0 <= sumn n f)%Qc.
Proof.
  induction n as [|k IH]; intros H; [apply Qcle_refl|].
  cbn [sumn]. change (Q2Qc 0 <= sumn k f + f k)%Qc.
  rewrite <- (Qcplus_0_l (Q2Qc 0)). apply Qcplus_le_compat; [apply IH; intros; apply H; lia|apply H; lia].
Qed.

Lemma mpi_abs_project_nonneg D P m x c : (Q2Qc 0 <= mpi_abs_project D P m x c)%Qc.
Proof.
  unfold mpi_abs_project. apply sumn_nonneg_Qc. intros t _.
  change (Q2Qc 0 <= pq_abs (P t c) * pq_abs (x t - m t))%Qc.
  rewrite <- (Qcmult_0_l (pq_abs (x t - m t)%Qc)).
  apply Qcmult_le_compat_r; apply pq_abs_nonneg.
Qed.

(* reflection: what `Some true` means *)
Theorem is_projection_rel_b_ok D d eps (P : list (list Qc)) (m x y : list Qc) :
  is_projection_rel_b D d eps P m x y = Some true <->
  (wf_mat D d P /\ length m = D /\ length x = D /\ length y = d) /\
  forall c, c < d ->
    (pq_abs (vof y c - mpi_project D (mof P) (vof m) (vof x) c)
     <= eps * mpi_abs_project D (mof P) (vof m) (vof x) c)%Qc.
Proof.
  unfold is_projection_rel_b.
  destruct (wf_matb D d P) eqn:EP; cbn [andb].
  2:{ split; [discriminate|]. intros [[HP _] _]. apply wf_matb_ok in HP. congruence. }
  destruct (Nat.eqb (length m) D) eqn:Em; cbn [andb].
  2:{ split; [discriminate|]. intros [[_ [Hm _]] _]. apply Nat.eqb_neq in Em. contradiction. }
  destruct (Nat.eqb (length x) D) eqn:Ex; cbn [andb].
  2:{ split; [discriminate|]. intros [[_ [_ [Hx _]]] _]. apply Nat.eqb_neq in Ex. contradiction. }
  destruct (Nat.eqb (length y) d) eqn:Ey; cbn [andb].
  2:{ split; [discriminate|]. intros [[_ [_ [_ Hy]]] _]. apply Nat.eqb_neq in Ey. contradiction. }
  apply wf_matb_ok in EP. apply Nat.eqb_eq in Em. apply Nat.eqb_eq in Ex. apply Nat.eqb_eq in Ey.
  split.
  - intros H. inversion H as [H1]. apply vwithin_rel_b_ok in H1. split; [tauto|]. exact H1.
  - intros [_ H]. f_equal. apply vwithin_rel_b_ok. exact H.
Qed.

(* exact mode (eps = 0): the procedure decides the specification *)
Theorem is_projection_rel_b_exact D d (P : list (list Qc)) (m x y : list Qc) :
  is_projection_rel_b D d (Q2Qc 0) P m x y = Some true ->
  is_projection_of D d (mof P) (vof m) (vof x) (vof y).
Proof.
  intros H. apply is_projection_rel_b_ok in H. destruct H as [_ H]. intros c Hc. specialize (H c Hc).
  rewrite Qcmult_0_l in H. apply pq_abs_zero in H.
  change (vof y c = mpi_project D (mof P) (vof m) (vof x) c).
  set (s := mpi_project D (mof P) (vof m) (vof x) c) in *.
  apply (f_equal (fun z => (z + s)%Qc)) in H.
  rewrite Qcplus_0_l in H. transitivity (vof y c - s + s)%Qc; [ring|exact H].
Qed.

(* completeness on the model: the value the model computes passes for EVERY eps >= 0 *)
Theorem model_passes_rel D d eps (P : list (list Qc)) (m x y : list Qc) :
  (Q2Qc 0 <= eps)%Qc -> wf_mat D d P -> length m = D -> length x = D ->
  mpi_project_exec D d P m x = POk y ->
  is_projection_rel_b D d eps P m x y = Some true.
Proof.
  intros He HP Hm Hx Hy.
  rewrite (mpi_project_exec_ok D d P m x HP Hm Hx) in Hy. inversion Hy; subst y; clear Hy.
  apply is_projection_rel_b_ok. split.
  - split; [assumption|]. split; [assumption|]. split; [assumption|]. apply tab_length.
  - intros c Hc. rewrite vof_vtab by assumption. unfold Qcminus. rewrite Qcplus_opp_r.
    assert (E : pq_abs (Q2Qc 0) = Q2Qc 0).
    { unfold pq_abs. assert (E0 : pq_leb (Q2Qc 0) (Q2Qc 0) = true) by (apply pq_leb_ok; apply Qcle_refl).
      rewrite E0. reflexivity. }
    rewrite E. rewrite <- (Qcmult_0_l (mpi_abs_project D (mof P) (vof m) (vof x) c)).
    apply Qcmult_le_compat_r; [assumption|apply mpi_abs_project_nonneg].
Qed.

(* ... and so does the hoisted rewrite, as long as the arithmetic is exact: the exact model cannot
   distinguish the two formulas; only a rounding-aware judgement (tolerance relative to the output) can *)
Theorem hoisted_passes_rel_in_exact_arithmetic D d eps (P : list (list Qc)) (m x y : list Qc) :
  (Q2Qc 0 <= eps)%Qc -> wf_mat D d P -> length m = D -> length x = D ->
  mpi_project_hoisted_exec D d P m x = POk y ->
  is_projection_rel_b D d eps P m x y = Some true.
Proof.
  intros He HP Hm Hx Hy. rewrite (@project_hoisted_mean_equal_exec Qc QcOps QcField) in Hy.
  apply model_passes_rel; assumption.
Qed.

(* the output-relative procedure implies the absolute one whenever eps * A_c <= tol for every c *)
Theorem is_projection_rel_implies_tol D d eps tol (P : list (list Qc)) (m x y : list Qc) :
  (forall c, c < d -> (eps * mpi_abs_project D (mof P) (vof m) (vof x) c <= tol)%Qc) ->
  is_projection_rel_b D d eps P m x y = Some true ->
  is_projection_tol_b D d tol P m x y = Some true.
Proof.
  intros Hb H. apply is_projection_rel_b_ok in H. destruct H as [[HP [Hm [Hx Hy]]] H].
  unfold is_projection_tol_b. apply wf_matb_ok in HP. rewrite HP, Hm, Hx, Hy, !Nat.eqb_refl. cbn [andb].
  f_equal. apply vwithin_b_ok. intros c Hc. eapply Qcle_trans; [apply H; assumption|apply Hb; assumption].
Qed.

(* rows_rel_b = is_projection_rel_b on every row *)
Theorem rows_rel_b_ok N D d eps (Xs Y P : list (list Qc)) (m : list Qc) :
  rows_rel_b N D d eps Xs Y P m = Some true ->
  forall i, i < N -> is_projection_rel_b D d eps P m (nth i Xs []) (nth i Y []) = Some true.
Proof.
  unfold rows_rel_b.
  destruct (wf_matb N D Xs) eqn:EX; cbn [andb]; [|discriminate].
  destruct (wf_matb N d Y) eqn:EY; cbn [andb]; [|discriminate].
  destruct (wf_matb D d P) eqn:EP; cbn [andb]; [|discriminate].
  destruct (Nat.eqb (length m) D) eqn:Em; cbn [andb]; [|discriminate].
  intros H i Hi. injection H as H1. rewrite forallb_forall in H1.
  assert (Hin : In i (seq 0 N)) by (apply in_seq; lia). specialize (H1 i Hin).
  apply wf_matb_ok in EX. apply wf_matb_ok in EY. destruct EX as [HXN HXD]. destruct EY as [HYN HYD].
  rewrite Forall_forall in HXD, HYD.
  assert (Hx : length (nth i Xs []) = D) by (apply HXD; apply nth_In; lia).
  assert (Hy : length (nth i Y []) = d) by (apply HYD; apply nth_In; lia).
  unfold is_projection_rel_b. rewrite EP, Em, Hx, Hy, !Nat.eqb_refl. cbn [andb]. f_equal. exact H1.
Qed.

(* Why the tolerance has to be relative to the OUTPUT.  D = d = 1, P = [1], mean 2^40, x = 2^40 + 1: the
   exact image is 1.  The value y = 1 + 2^-13 (what a hoisted evaluation may return after cancellation at
   this offset; relative error 2^-13 of the output) passes the absolute procedure with the data-relative
   tolerance 1e-11 * max|P| * (max|x| + max|m|) * D  (= about 22), and fails the output-relative procedure
   at eps = 2^-40. *)
Definition ow_P : list (list Qc) := [[qz 1]].
Definition ow_m : list Qc := [qz (2 ^ 40)].
Definition ow_x : list Qc := [qz (2 ^ 40 + 1)].
Definition ow_y : list Qc := [(qz 1 + qfrac 1 (2 ^ 13))%Qc].
Definition ow_tol_abs : Qc := (qfrac 1 (10 ^ 11) * qz (2 ^ 41 + 1))%Qc.
Definition ow_eps : Qc := qfrac 1 (2 ^ 40).

Theorem offset_needs_output_relative_tolerance :
  is_projection_tol_b 1 1 ow_tol_abs ow_P ow_m ow_x ow_y = Some true /\
  is_projection_rel_b 1 1 ow_eps ow_P ow_m ow_x ow_y = Some false /\
  is_projection_rel_b 1 1 ow_eps ow_P ow_m ow_x [qz 1] = Some true.
Proof. vm_compute. repeat split. Qed.
