(* FibHeap_Proof_Extract.v — extract_min preserves Inv, refines the specification,
   and fails (OOB) only when a tree of rank d >= dn with fib (d+2) <= #nodes exists. *)
From Coq Require Import List ZArith Bool Lia Permutation Arith.
From TK Require Import FibHeap_Model FibHeap_Dn FibHeap_Proof_Basics FibHeap_Proof_Degree
  FibHeap_Proof_Consolidate.
Import ListNotations.
Local Open Scope Z_scope.

Lemma tree_size_pos : forall t, (1 <= tree_size t)%nat.
Proof. intros [i k m cs]. rewrite tree_size_eq. lia. Qed.

Lemma forest_size_0 : forall f, forest_size f = O -> f = [].
Proof.
  intros [|t f]; [reflexivity|]. cbn [forest_size]. pose proof (tree_size_pos t). lia.
Qed.

(* children never displace min_root: their keys are not smaller *)
Lemma fold_add_children : forall cs m0 rest,
  Forall (fun c => t_key m0 <= t_key c) cs ->
  fold_left (fun rs c => add_root_list c rs) cs (m0 :: rest) = m0 :: rev cs ++ rest.
Proof.
  induction cs as [|c cs IH]; intros m0 rest H; cbn [fold_left rev app]; [reflexivity|].
  inversion H as [|? ? Hc Hcs]; subst. cbn [add_root_list].
  destruct (Z.ltb_spec (t_key c) (t_key m0)) as [E|E]; [lia|].
  rewrite IH by exact Hcs. rewrite <- app_assoc. reflexivity.
Qed.

Lemma extract_abs : forall (m m' R : amap) i k,
  m = (i, k) :: R -> NoDup (map fst m) -> Permutation m' R ->
  forall j, a_get j m' = if Z.eqb j i then None else a_get j m.
Proof.
  intros m m' R i k -> Hnd Hp j. cbn [map fst] in Hnd. inversion Hnd as [|? ? Hni HndR]; subst.
  assert (Hnd' : NoDup (map fst m')).
  { eapply Permutation_NoDup; [apply Permutation_sym; apply Permutation_map; exact Hp|exact HndR]. }
  rewrite (a_get_perm _ _ Hnd' Hp j). cbn [a_get].
  destruct (Z.eqb_spec j i) as [->|E]; [|reflexivity].
  apply a_get_none. exact Hni.
Qed.

Lemma extract_finish : forall h i k m cs rest rs nt,
  Inv h -> h_roots h = Node i k m cs :: rest ->
  Forall wf rs -> head_min rs ->
  Permutation (forest_items rs) (forest_items cs ++ forest_items rest) ->
  nt = Z.of_nat (length rs) ->
  Inv (mkHeap (h_cap h) (h_dn h) rs (h_num_nodes h - 1) nt) /\
  spec_extract_ok (abs h) (Some (i, k)) (forest_items rs).
Proof.
  intros h i k m cs rest rs nt HI Hroots Hwf Hmin Hp Hnt.
  destruct HI as [Hnd Hrg Hwfh Hminh Hnn Hntr]. rewrite Hroots in *.
  assert (Habs : abs h = (i, k) :: forest_items cs ++ forest_items rest).
  { unfold abs. rewrite Hroots. cbn [forest_items]. rewrite tree_items_eq. reflexivity. }
  unfold forest_idxs in Hnd, Hrg. cbn [forest_items] in Hnd, Hrg. rewrite tree_items_eq in Hnd, Hrg.
  cbn [app map fst] in Hnd, Hrg.
  assert (Hpi : Permutation (forest_idxs rs) (map fst (forest_items cs ++ forest_items rest))).
  { unfold forest_idxs. apply Permutation_map. exact Hp. }
  split.
  - constructor; cbn [h_roots h_cap h_num_nodes h_num_trees].
    + eapply Permutation_NoDup; [apply Permutation_sym; exact Hpi|]. inversion Hnd; assumption.
    + eapply Forall_perm; [apply Permutation_sym; exact Hpi|]. inversion Hrg; assumption.
    + exact Hwf.
    + exact Hmin.
    + rewrite Hnn. cbn [forest_size]. rewrite tree_size_eq.
      rewrite (forest_size_items rs), (Permutation_length Hp), app_length, <- !forest_size_items. lia.
    + exact Hnt.
  - cbn [spec_extract_ok]. split; [|split].
    + rewrite Habs. cbn [a_get]. rewrite Z.eqb_refl. reflexivity.
    + intros j kj Hj. apply a_get_some_in in Hj. unfold abs in Hj. rewrite Hroots in Hj.
      change k with (t_key (Node i k m cs)).
      eapply inv_head_min_all; [exact Hwfh|exact Hminh|exact Hj].
    + eapply extract_abs; [exact Habs| |exact Hp].
      rewrite Habs. cbn [map fst]. exact Hnd.
Qed.

Theorem extract_min_spec : forall h, Inv h ->
  match extract_min h with
  | Ok (h', r) => Inv h' /\ h_cap h' = h_cap h /\ h_dn h' = h_dn h /\
                  spec_extract_ok (abs h) r (abs h')
  | OOB d s => s = h_dn h /\ (h_dn h <= d)%nat /\
               (fib (d + 2) < forest_size (h_roots h))%nat
  | OutOfFuel => False
  end.
Proof.
  intros h HI. unfold extract_min.
  destruct (Z.eqb_spec (h_num_nodes h) 0) as [E0|E0].
  { (* num_nodes == 0 *)
    assert (Hr : h_roots h = []).
    { apply forest_size_0. pose proof (inv_nn h HI). lia. }
    split; [exact HI|]. split; [reflexivity|]. split; [reflexivity|].
    cbn [spec_extract_ok]. unfold abs. rewrite Hr. split; reflexivity. }
  destruct (h_roots h) as [|[i k m cs] rest] eqn:Hroots.
  { split; [exact HI|]. split; [reflexivity|]. split; [reflexivity|].
    cbn [spec_extract_ok]. unfold abs. rewrite Hroots. split; reflexivity. }
  pose proof (inv_wf h HI) as Hwf. rewrite Hroots in Hwf.
  inversion Hwf as [|? ? Hroot Hrest]; subst.
  apply wf_inv in Hroot. destruct Hroot as [[Hkeys _] Hcs]. cbn [t_children t_key] in Hkeys, Hcs.
  rewrite (fold_add_children cs (Node i k m []) rest) by exact Hkeys.
  cbn [split_at_idx t_idx]. rewrite Z.eqb_refl. cbn [rev]. rewrite app_nil_r.
  assert (Hpws : Permutation (forest_items (rev cs ++ rest)) (forest_items cs ++ forest_items rest)).
  { rewrite forest_items_app. apply Permutation_app_tail. apply forest_items_perm.
    apply Permutation_sym. apply Permutation_rev. }
  assert (Hwfws : Forall wf (rev cs ++ rest)).
  { apply Forall_app. split; [|exact Hrest]. eapply Forall_perm; [apply Permutation_rev|exact Hcs]. }
  destruct (rev cs ++ rest) as [|w ws'] eqn:Hws.
  - (* the last node *)
    assert (Hcs0 : cs = []).
    { apply app_eq_nil in Hws. destruct Hws as [Hrev _].
      destruct cs as [|c cs']; [reflexivity|]. cbn [rev] in Hrev. apply app_eq_nil in Hrev.
      destruct Hrev; discriminate. }
    assert (Hrest0 : rest = []) by (apply app_eq_nil in Hws; tauto).
    destruct (extract_finish h i k m cs rest [] (h_num_trees h + Z.of_nat (length cs) - 1) HI Hroots)
      as [HI' Hspec].
    + constructor.
    + exact I.
    + exact Hpws.
    + rewrite (inv_nt h HI), Hroots, Hcs0, Hrest0. reflexivity.
    + split; [exact HI'|]. split; [reflexivity|]. split; [reflexivity|]. exact Hspec.
  - pose proof (consolidate_spec (h_dn h) (w :: ws') Hwfws) as Hc.
    destruct (consolidate_roots (h_dn h) (w :: ws')) as [rs|d s|].
    + destruct Hc as (Hwfrs & Hminrs & Hprs).
      destruct (extract_finish h i k m cs rest rs (Z.of_nat (length rs)) HI Hroots) as [HI' Hspec];
        try assumption; try reflexivity.
      * eapply Permutation_trans; eassumption.
      * split; [exact HI'|]. split; [reflexivity|]. split; [reflexivity|]. exact Hspec.
    + destruct Hc as (H1 & H2 & H3). split; [exact H1|]. split; [exact H2|].
      cbn [forest_size]. rewrite tree_size_eq.
      rewrite (forest_size_items (w :: ws')), (Permutation_length Hpws), app_length,
        <- !forest_size_items in H3. lia.
    + exact Hc.
Qed.
