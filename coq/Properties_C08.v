(* ====================================================================== *)
(*  Properties_C08.v — KLLE, KLTSA and HLLE minimise their alignment cost  *)
(*  over centred orthonormal Y.  Statements only; proofs live in           *)
(*  Lle_Proof_*.v, Mat_EigSelect*.v.  Generic theorems quantify over EVERY *)
(*  field (F, Fo, Ff), every N, k, d, neighbour table, kernel table and    *)
(*  every order in which OpenMP threads appended their triplet blocks;     *)
(*  `_Qc` versions are closed instances about the functions that are       *)
(*  extracted and run against the C++.  External code (ldlt().solve,       *)
(*  SelfAdjointEigenSolver, sqrt) enters as oracle answers constrained by  *)
(*  the contract stated in the theorem (checked at run time on every call  *)
(*  the harness observes).                                                 *)
(*  `_partial`: what is proved is the structural half; the cited classical *)
(*  half is named in the comment above the theorem.                        *)
(* ====================================================================== *)
Require Import String.
Require Import Arith Lia List Bool ZArith QArith Qcanon Permutation.
From TK Require Import Mat_Sums Mat_Core Mat_Qc Mat_EigSelect EigSelect Mat_EigSelect_Tie
                       Lle_Model Lle_Spec Lle_Proof_Triplets Lle_Proof_Lle Lle_Proof_Ltsa
                       Lle_Proof_Hlle Lle_Proof_Embed Lle_Proof_Gs Lle_Proof_GsQc Lle_Proof_KyFan Lle_Proof_Flat Lle_Proof_Run Lle_Loop HlleLoop Lle_Proof_Loop Lle_Proof_Psd Lle_Proof_EndToEnd Lle_Proof_Scale Lle_Proof_Proj LleCalls Lle_Calls Lle_Proof_GsSkip Lle_Proof_LtsaGs.
Import ListNotations.
Local Open Scope nat_scope.

(* ---------------------------------------------------------------------- *)
(* 0. sparse_matrix_from_triplets: duplicates are summed; order is free    *)
(* ---------------------------------------------------------------------- *)
Theorem C08_triplets_order_free :
  forall (F : Type) (Fo : FieldOps F) (Ff : IsField F) (t1 t2 : list (@triplet F)) (r c : nat),
    Permutation t1 t2 -> from_triplets t1 r c = from_triplets t2 r c.
Proof. exact @from_triplets_perm. Qed.
Print Assumptions C08_triplets_order_free.

(* ---------------------------------------------------------------------- *)
(* 1. KLLE                                                                 *)
(* ---------------------------------------------------------------------- *)
(* the assembled matrix is (I-W)^T (I-W) + shift I *)
Theorem C08_lle_matrix :
  forall (F : Type) (Fo : FieldOps F) (Ff : IsField F) (N k : nat) (nbr : nat -> nat -> nat)
         (W : mat F) (shift : F) (order : list nat) (r c : nat),
    Permutation order (seq 0 N) -> r < N -> c < N ->
    from_triplets (lle_triplets order k nbr W shift) r c = lle_M_spec N k nbr W shift r c.
Proof. exact @lle_matrix. Qed.
Print Assumptions C08_lle_matrix.

(* weights /= weights.sum() : the reconstruction weights sum to one *)
Theorem C08_lle_weights_sum_one :
  forall (F : Type) (Fo : FieldOps F) (Ff : IsField F) (k : nat) (x : vec F),
    sumn k x <> 0%F -> sumn k (lle_normalize k x) = 1%F.
Proof. exact @lle_normalize_sum. Qed.
Print Assumptions C08_lle_weights_sum_one.

(* ... and the sum that is divided by is the quadratic form x^T G x of the local Gram *)
Theorem C08_lle_sum_quadratic :
  forall (F : Type) (Fo : FieldOps F) (Ff : IsField F) (k : nat) (G : mat F) (x : vec F),
    (forall a, a < k -> mv k G x a = 1%F) -> sumn k x = dot k x (mv k G x).
Proof. exact @lle_sum_quadratic. Qed.
Print Assumptions C08_lle_sum_quadratic.

(* the local system ldlt() sees through selfadjointView<Upper>: C + trace_shift tr(C) I,
   independent of what the per-thread buffer held (its lower triangle is never written) *)
Theorem C08_lle_gram_seen :
  forall (F : Type) (Fo : FieldOps F) (Ff : IsField F) (k : nat) (kern : mat F) (ts : F)
         (nb : nat -> nat) (i : nat) (prev : mat F) (a b : nat),
    (forall a b, a < k -> b < k -> kern (nb a) (nb b) = kern (nb b) (nb a)) ->
    a < k -> b < k ->
    read_upper (lle_gram k kern ts nb i prev) a b = lle_C_reg k kern ts nb i a b.
Proof. exact @lle_gram_seen. Qed.
Print Assumptions C08_lle_gram_seen.

(* M 1 = shift 1 : what justifies skip = 1 *)
Theorem C08_lle_const_vector :
  forall (F : Type) (Fo : FieldOps F) (Ff : IsField F) (N k : nat) (nbr : nat -> nat -> nat)
         (W : mat F) (shift : F),
    (forall i a, i < N -> a < k -> nbr i a < N) ->
    (forall i, i < N -> sumn k (W i) = 1%F) ->
    const_vector N (lle_M_spec N k nbr W shift) shift.
Proof. exact @lle_const_vector. Qed.
Print Assumptions C08_lle_const_vector.

(* y^T M y = |(I-W) y|^2 + shift |y|^2 : a sum of squares plus shift |y|^2, so (over an ordered field) the
   constant vector, for which the first part vanishes, minimises the unconstrained cost *)
Theorem C08_lle_quadratic_form :
  forall (F : Type) (Fo : FieldOps F) (Ff : IsField F) (N k : nat) (nbr : nat -> nat -> nat)
         (W : mat F) (shift : F) (y : vec F),
    dot N y (mv N (lle_M_spec N k nbr W shift) y) =
    (sumn N (fun i => (mv N (IWm k nbr W) y i * mv N (IWm k nbr W) y i)%F) + shift * dot N y y)%F.
Proof. exact @lle_quadratic_form. Qed.
Print Assumptions C08_lle_quadratic_form.

(* the whole routine, executable instance (certifying Gaussian elimination for ldlt().solve) *)
Theorem C08_lle_model_correct_Qc :
  forall (N k : nat) (nbr : nat -> nat -> nat) (kern : mat Qc) (shift ts : Qc)
         (prev : nat -> mat Qc) (T : list (@triplet Qc)),
    (forall i a b, i < N -> a < k -> b < k ->
                   kern (nbr i a) (nbr i b) = kern (nbr i b) (nbr i a)) ->
    lle_model (solve_checked qeqb) N k nbr kern shift ts prev = Ok T ->
    exists W : mat Qc,
      (forall r c, r < N -> c < N -> from_triplets T r c = lle_M_spec N k nbr W shift r c) /\
      (forall i, i < N -> exists x : vec Qc,
          (forall a, a < k -> mv k (lle_C_reg k kern ts (nbr i) i) x a = 1%F) /\
          (forall a, a < k -> W i a = (x a / sumn k x)%F) /\
          (sumn k x <> 0%F -> sumn k (W i) = 1%F)).
Proof.
  intros N k nbr kern shift ts prev T.
  apply (@lle_model_correct Qc QcOps QcField (solve_checked qeqb)).
  intros k0 A b xl H. apply (solve_checked_sound qeqb); [|exact H].
  intros x y Hxy. apply qeqb_ok. exact Hxy.
Qed.
Print Assumptions C08_lle_model_correct_Qc.

Definition c08_kern3 : mat Qc := mof [[qz 0; qz 0; qz 0]; [qz 0; qz 4; qz 2]; [qz 0; qz 2; qz 5]].
Definition c08_nbr3 : list (list nat) := [[1; 2]; [0; 2]; [0; 1]].

Example C08_lle_model_nonvacuous :
  exists T, lle_run (solve_checked qeqb) 3 c08_nbr3 c08_kern3 (qfrac 1 1024) (qfrac 1 1024) = Ok T /\
            mtab 3 3 (from_triplets T) =
            mtab 3 3 (lle_M_spec 3 2 (nbrs_of c08_nbr3)
                        (mof [[qfrac 3081 5138; qfrac 2057 5138];
                              [qfrac 3081 5138; qfrac 2057 5138];
                              [qfrac 1 2; qfrac 1 2]]) (qfrac 1 1024)).
Proof. eexists. split; [vm_compute; reflexivity|]. apply mlist_eqb_ok. vm_compute. reflexivity. Qed.

(* ---------------------------------------------------------------------- *)
(* 2. KLTSA                                                                *)
(* ---------------------------------------------------------------------- *)
Theorem C08_ltsa_matrix :
  forall (F : Type) (Fo : FieldOps F) (Ff : IsField F) (N k : nat) (nbr : nat -> nat -> nat)
         (P : nat -> mat F) (shift : F) (order : list nat) (r c : nat),
    Permutation order (seq 0 N) -> r < N -> c < N ->
    from_triplets (ltsa_triplets order k nbr P shift) r c = ltsa_M_spec N k nbr P shift r c.
Proof. exact @ltsa_matrix. Qed.
Print Assumptions C08_ltsa_matrix.

Theorem C08_ltsa_model_matrix :
  forall (F : Type) (Fo : FieldOps F) (Ff : IsField F) (N k d : nat) (nbr : nat -> nat -> nat)
         (E : nat -> mat F) (rsk shift : F) (r c : nat),
    r < N -> c < N ->
    from_triplets (ltsa_model N k d nbr E rsk shift) r c =
    ltsa_M_spec N k nbr (fun i => ltsa_P d rsk (right_cols k d (E i))) shift r c.
Proof. exact @ltsa_model_matrix. Qed.
Print Assumptions C08_ltsa_model_matrix.

(* (I - G G^T) 1 = 0,  G = [1/sqrt k | V],  V^T 1 = 0 *)
Theorem C08_ltsa_local_annihilates_one :
  forall (F : Type) (Fo : FieldOps F) (Ff : IsField F) (k d : nat) (rsk : F) (V : mat F) (a : nat),
    (rsk * rsk * of_nat k)%F = 1%F ->
    (forall c, c < d -> sumn k (fun b => V b c) = 0%F) ->
    a < k ->
    sumn k (fun b => msub mI (ltsa_P d rsk V) a b) = 0%F.
Proof. exact @ltsa_local_annihilates_one. Qed.
Print Assumptions C08_ltsa_local_annihilates_one.

(* the local eigensolver sees J K_loc J; its eigenvectors for non-zero eigenvalues are centred *)
Theorem C08_ltsa_tangent_orth_one :
  forall (F : Type) (Fo : FieldOps F) (Ff : IsField F) (k : nat) (kern : mat F) (nb : nat -> nat)
         (E : mat F) (lam : vec F) (c : nat),
    of_nat k <> 0%F ->
    (forall i, i < k -> mv k (local_centered_gram k kern nb) (mcol E c) i = (lam c * E i c)%F) ->
    lam c <> 0%F -> sumn k (fun i => E i c) = 0%F.
Proof. exact @ltsa_tangent_orth_one. Qed.
Print Assumptions C08_ltsa_tangent_orth_one.

Theorem C08_local_centered_gram_is_JKJ :
  forall (F : Type) (Fo : FieldOps F) (Ff : IsField F) (k : nat) (kern : mat F) (nb : nat -> nat),
    of_nat k <> 0%F ->
    meq k k (local_centered_gram k kern nb) (double_center k (local_gram kern nb)).
Proof. exact @local_centered_gram_eq. Qed.
Print Assumptions C08_local_centered_gram_is_JKJ.

Theorem C08_ltsa_const_vector :
  forall (F : Type) (Fo : FieldOps F) (Ff : IsField F) (N k : nat) (nbr : nat -> nat -> nat)
         (P : nat -> mat F) (shift : F),
    (forall i a, i < N -> a < k -> nbr i a < N) ->
    (forall i a, i < N -> a < k -> sumn k (fun b => msub mI (P i) a b) = 0%F) ->
    const_vector N (ltsa_M_spec N k nbr P shift) shift.
Proof. exact @ltsa_const_vector. Qed.
Print Assumptions C08_ltsa_const_vector.

(* the KLTSA cost of one vector is a sum of squares plus shift |y|^2 whenever the local matrices I - P_i are
   symmetric idempotent, which they are for G_i with orthonormal columns (k rsk^2 = 1, V^T V = I, V^T 1 = 0) *)
Theorem C08_ltsa_quadratic_form :
  forall (F : Type) (Fo : FieldOps F) (Ff : IsField F) (N k : nat) (nbr : nat -> nat -> nat)
         (P : nat -> mat F) (shift : F) (y : vec F),
    (forall i a, i < N -> a < k -> nbr i a < N) ->
    (forall i, i < N -> msym k (msub mI (P i)) /\
                        meq k k (mmul k (msub mI (P i)) (msub mI (P i))) (msub mI (P i))) ->
    dot N y (mv N (ltsa_M_spec N k nbr P shift) y) =
    (sumn N (fun i => sumn k (fun t => (mv k (msub mI (P i)) (pull (nbr i) y) t
                                       * mv k (msub mI (P i)) (pull (nbr i) y) t)%F))
     + shift * dot N y y)%F.
Proof. exact @ltsa_quadratic_form. Qed.
Print Assumptions C08_ltsa_quadratic_form.

Theorem C08_gram_projector_idem :
  forall (F : Type) (Fo : FieldOps F) (Ff : IsField F) (k m : nat) (G : mat F),
    meq m m (mmul k (mtrans G) G) mI ->
    msym k (msub mI (mmul m G (mtrans G))) /\
    meq k k (mmul k (msub mI (mmul m G (mtrans G))) (msub mI (mmul m G (mtrans G))))
            (msub mI (mmul m G (mtrans G))).
Proof. exact @gram_projector_idem. Qed.
Print Assumptions C08_gram_projector_idem.

(* ---------------------------------------------------------------------- *)
(* 3. HLLE                                                                 *)
(* ---------------------------------------------------------------------- *)
(* F6 repaired (`ct += target_dimension - j`): for EVERY d the product loop writes exactly the
   columns 1+d .. d + d(d+1)/2, each once, in order *)
Theorem C08_hlle_columns :
  forall d : nat,
    map (fun w : nat * nat * nat => snd w) (hlle_writes false d) = seq (1 + d) (hlle_dp d).
Proof. exact hlle_columns. Qed.
Print Assumptions C08_hlle_columns.

Theorem C08_hlle_columns_in_range :
  forall (d : nat) (w : nat * nat * nat),
    In w (hlle_writes false d) -> 1 + d <= snd w < hlle_ncols d.
Proof. exact hlle_columns_in_range. Qed.
Print Assumptions C08_hlle_columns_in_range.

Example C08_hlle_columns_in_range_nonvacuous :
  In (1, 0, 5) (hlle_writes false 2) /\ hlle_ncols 2 = 6.
Proof. vm_compute. split; [right; right; left; reflexivity|reflexivity]. Qed.

Theorem C08_hlle_first_oob_repaired : forall d : nat, hlle_first_oob false d = None.
Proof. exact hlle_first_oob_repaired. Qed.
Print Assumptions C08_hlle_first_oob_repaired.

(* F6 shipped (`ct += ct + target_dimension - j`): regression theorem about the OLD code *)
Theorem C08_hlle_columns_refuted :
  hlle_first_oob true 3 = Some 12 /\ hlle_ncols 3 = 10 /\
  hlle_first_oob true 4 = Some 16 /\ hlle_ncols 4 = 15 /\
  hlle_first_oob true 2 = None.
Proof. exact hlle_columns_refuted. Qed.
Print Assumptions C08_hlle_columns_refuted.

(* after the repair nothing that is used depends on the previous contents of the buffer Yi *)
Theorem C08_hlle_no_stale :
  forall (F : Type) (Fo : FieldOps F) (d : nat) (prev prev' V : mat F) (a c : nat),
    c < hlle_ncols d ->
    hlle_Yprod false d prev V a c = hlle_Yprod false d prev' V a c.
Proof. exact @hlle_no_stale. Qed.
Print Assumptions C08_hlle_no_stale.

Theorem C08_hlle_matrix :
  forall (F : Type) (Fo : FieldOps F) (Ff : IsField F) (N k : nat) (nbr : nat -> nat -> nat)
         (P : nat -> mat F) (order : list nat) (r c : nat),
    Permutation order (seq 0 N) ->
    from_triplets (hlle_triplets order k nbr P) r c = hlle_M_spec N k nbr P r c.
Proof. exact @hlle_matrix. Qed.
Print Assumptions C08_hlle_matrix.

Theorem C08_hlle_null_vector :
  forall (F : Type) (Fo : FieldOps F) (Ff : IsField F) (N k : nat) (nbr : nat -> nat -> nat)
         (P : nat -> mat F),
    (forall i a, i < N -> a < k -> nbr i a < N) ->
    (forall i a, i < N -> a < k -> sumn k (fun b => P i a b) = 0%F) ->
    const_vector N (hlle_M_spec N k nbr P) 0%F.
Proof. exact @hlle_null_vector. Qed.
Print Assumptions C08_hlle_null_vector.

(* Gram-Schmidt as written (sqrt-free form that is executed): the local matrix
   H H^T annihilates the constant vector and the tangent coordinates whenever no column
   degenerates (u.u <> 0) *)
Theorem C08_hlle_local_annihilates :
  forall (F : Type) (Fo : FieldOps F) (Ff : IsField F) (k d : nat) (prev V : mat F) (a : nat),
    gs_nondegenerate (hlle_gs_sf false k d prev V) ->
    a < k ->
    sumn k (fun b => hlle_local_sf false k d prev V a b) = 0%F /\
    (forall t, t < d -> sumn k (fun b => (hlle_local_sf false k d prev V a b * V b t)%F) = 0%F).
Proof. exact @hlle_local_annihilates. Qed.
Print Assumptions C08_hlle_local_annihilates.

(* the Gram-Schmidt loop AS WRITTEN (sqrt value oracle for .norm(), the `colsum > 1e-4` test) computes
   the same local matrix as the sqrt-free form that is executed: the oracle contract is
   sqrt(x)^2 = x on the squared norms that occur, and `0 > 1e-4` is false *)
Theorem C08_hlle_local_sqrt_free :
  forall (F : Type) (Fo : FieldOps F) (Ff : IsField F) (sqrtf : F -> F) (gt_thr : F -> bool)
         (k d : nat) (prev V : mat F) (a b : nat),
    gs_nondegenerate (hlle_gs_sf false k d prev V) ->
    sqrt_ok sqrtf (hlle_gs_sf false k d prev V) ->
    gt_thr 0%F = false -> a < k -> b < k ->
    hlle_local sqrtf gt_thr false k d prev V a b = hlle_local_sf false k d prev V a b.
Proof. exact @hlle_local_sqrt_free. Qed.
Print Assumptions C08_hlle_local_sqrt_free.

(* non-vacuity of the two Gram-Schmidt theorems: k = 4, d = 1, tangent coordinate (1,-1,7,-7):
   squared norms 4, 100, 2304 are rational squares *)
Definition c08_V4 : mat Qc := mof [[qz 1]; [qz (-1)]; [qz 7]; [qz (-7)]].
Definition c08_sqrt (x : Qc) : Qc :=
  if qeqb x (qz 4) then qz 2 else if qeqb x (qz 100) then qz 10 else if qeqb x (qz 2304) then qz 48 else qz 0.

Example C08_hlle_gs_nonvacuous :
  gs_nondegenerate (hlle_gs_sf false 4 1 (fun _ _ => 0%F) c08_V4) /\
  sqrt_ok c08_sqrt (hlle_gs_sf false 4 1 (fun _ _ => 0%F) c08_V4) /\
  map snd (hlle_gs_sf false 4 1 (fun _ _ => 0%F) c08_V4) = [qz 4; qz 100; qz 2304].
Proof.
  split; [|split].
  - apply gs_nondegenerate_by_compute. vm_compute. reflexivity.
  - apply sqrt_ok_by_compute. vm_compute. reflexivity.
  - apply vlist_eqb_ok. vm_compute. reflexivity.
Qed.

(* T-hlle: the product loop of hessian_weight_matrix as extracted from the CURRENT source
   (gen/HlleLoop.v: loop bounds, written column, source columns, update of ct, size of Yi as integer-linear
   forms), run by a generic evaluator: it is one of the two tables this development knows, and the
   evaluator reproduces the hand model on them *)
Theorem C08_hlle_loop_model :
  forall (L : hlle_loop) (b : bool) (d : nat),
    loop_kind L = Some b ->
    loop_writes L d = map w5_of (hlle_writes b d) /\ loop_ncols L d = Z.of_nat (hlle_ncols d).
Proof. exact loop_writes_model. Qed.
Print Assumptions C08_hlle_loop_model.

Theorem C08_hlle_loop_table :
  (loop_kind hlle_loop_src = Some false /\
   forall d, map w5_col (loop_writes hlle_loop_src d) = map Z.of_nat (seq (1 + d) (hlle_dp d)) /\
             (forall w, In w (loop_writes hlle_loop_src d) -> (w5_col w < loop_ncols hlle_loop_src d)%Z))
  \/
  (loop_kind hlle_loop_src = Some true /\
   exists w, In w (loop_writes hlle_loop_src 3) /\ (loop_ncols hlle_loop_src 3 <= w5_col w)%Z).
Proof. exact hlle_loop_table. Qed.
Print Assumptions C08_hlle_loop_table.

(* the HLLE cost of one vector: sum over neighbourhoods and Gram-Schmidt columns of (u . S_i^T y)^2 / (u.u) *)
Theorem C08_hlle_quadratic_form :
  forall (F : Type) (Fo : FieldOps F) (Ff : IsField F) (N k : nat) (nbr : nat -> nat -> nat)
         (U : nat -> list (vec F * F)) (y : vec F),
    (forall i a, i < N -> a < k -> nbr i a < N) ->
    dot N y (mv N (hlle_M_spec N k nbr (fun i => outer_sum_sf (U i))) y) =
    sumn N (fun i => fold_right (fun un acc => (dot k (fst un) (pull (nbr i) y) * dot k (fst un) (pull (nbr i) y)
                                                / snd un + acc)%F) 0%F (U i)).
Proof. exact @hlle_quadratic_form. Qed.
Print Assumptions C08_hlle_quadratic_form.

(* the HLLE routine as a whole (sqrt-free executable form): Ok T -> T assembles the property's matrix *)
Theorem C08_hlle_model_correct :
  forall (F : Type) (Fo : FieldOps F) (Ff : IsField F) (fz : F -> bool) (sh : bool) (N k d : nat)
         (nbr : nat -> nat -> nat) (V prev : nat -> mat F) (T : list (@triplet F)),
    hlle_model_sf fz sh N k d nbr V prev = Ok T ->
    (forall r c, from_triplets T r c =
                 hlle_M_spec N k nbr (fun i => hlle_local_sf sh k d (prev i) (V i)) r c) /\
    (forall i, i < N -> gs_degenerate fz (hlle_gs_sf sh k d (prev i) (V i)) = false).
Proof. exact @hlle_model_correct. Qed.
Print Assumptions C08_hlle_model_correct.

(* index-in-range obligations: on a well-formed neighbour table (N lists, each with at least
   k = |first list| entries, every used entry < N) and d <= k, the models of the three routines never
   leave a buffer; HLLE only with the repaired counter — the old one leaves Yi at d = 3 on EVERY input *)
Theorem C08_runs_in_range :
  forall (F : Type) (Fo : FieldOps F) (N k d : nat) (L : list (list nat)),
    k_of L = Some k -> table_ok N k L ->
    (forall solve (kern : mat F) shift ts s i m, lle_run solve N L kern shift ts <> OOB s i m) /\
    (d <= k -> forall (E : nat -> mat F) rsk shift,
        ltsa_run N d L E rsk shift = Ok (ltsa_model N k d (nbrs_of L) E rsk shift)) /\
    (d <= k -> forall fz (V : nat -> mat F) s i m, hlle_run_sf fz false N d L V <> OOB s i m) /\
    (3 <= k -> forall fz (V : nat -> mat F), hlle_run_sf fz true N 3 L V = OOB site_hlle_col 12 10).
Proof.
  intros F Fo N k d L Hk Ht. split; [|split; [|split]].
  - intros. apply (lle_run_in_range solve N k L); assumption.
  - intros Hd E rsk shift. apply ltsa_run_in_range; assumption.
  - intros Hd fz V s i m. apply (hlle_run_in_range fz N k d L V); assumption.
  - intros Hd fz V. apply (hlle_run_shipped_oob fz N k L V); assumption.
Qed.
Print Assumptions C08_runs_in_range.

Example C08_runs_in_range_nonvacuous :
  k_of c08_nbr3 = Some 2 /\ table_ok 3 2 c08_nbr3.
Proof.
  split; [reflexivity|]. split; [cbn; lia|].
  intros l Hl. cbn in Hl. destruct Hl as [<-|[<-|[<-|[]]]]; (split; [cbn; lia|]);
    intros x Hx; cbn in Hx; destruct Hx as [<-|[<-|[]]]; lia.
Qed.

(* "k from the minimum the method needs": Lle_Spec.hlle_min_k d = 1 + d + d(d+1)/2 is the number of columns
   of HLLE's local estimator.  WHY it is the minimum: below it the columns cannot be independent, the exact
   model meets a Gram-Schmidt column with u.u = 0 (the C++ then normalises rounding noise; observed on the
   real code: non-affine embeddings of flat data, NaN at d = 3, k = 4).  Such requests are OUTSIDE the
   property (coordinator's ruling on the proposed F44); the check counts them as observations only.
   Witness: d = 2, k = 5 < 6, six points of a 2-D lattice. *)
Theorem C08_hlle_min_neighbors : forall d, hlle_min_k d = hlle_ncols d.
Proof. intros d. reflexivity. Qed.
Print Assumptions C08_hlle_min_neighbors.

Definition c08_small_k_nbrs : list (list nat) :=
  [[1; 2; 3; 4; 5]; [0; 2; 3; 4; 5]; [0; 1; 3; 4; 5]; [0; 1; 2; 4; 5]; [0; 1; 2; 3; 5]; [0; 1; 2; 3; 4]].
Definition c08_small_k_X : mat Qc :=
  mof [[qz 0; qz 0]; [qz 1; qz 0]; [qz 0; qz 1]; [qz 2; qz 1]; [qz 1; qz 3]; [qz 3; qz 2]].

Theorem C08_hlle_small_k_refuted :
  hlle_ncols 2 = 6 /\
  hlle_run_sf (fun x => qeqb x 0%F) false 6 2 c08_small_k_nbrs
              (fun i a t => c08_small_k_X (nbrs_of c08_small_k_nbrs i a) t) = SolveFail 0.
Proof. split; vm_compute; reflexivity. Qed.
Print Assumptions C08_hlle_small_k_refuted.

(* ---------------------------------------------------------------------- *)
(* 4. selection of the eigenpairs (generated table) and the embedding      *)
(* ---------------------------------------------------------------------- *)
Theorem C08_select_smallest_cols :
  forall b, In b eig_table -> b_largest b = false -> b_base b = BaseN ->
  forall N d skip, d + skip <= N ->
    eval_ops d skip N (b_cols b) = Some (skip, d).
Proof. exact select_smallest_cols. Qed.
Print Assumptions C08_select_smallest_cols.

Example C08_select_smallest_cols_nonvacuous :
  exists b, In b eig_table /\ b_largest b = false /\ b_base b = BaseN /\
            b_fn b = "eigendecomposition_impl_dense"%string.
Proof.
  pose proof eig_table_sites_present as [_ [_ [H _]]].
  apply existsb_exists in H. destruct H as [b [Hb Hs]]. exists b.
  unfold is_site in Hs. apply andb_true_iff in Hs. destruct Hs as [Hf Hl].
  apply String.eqb_eq in Hf. apply Bool.eqb_prop in Hl.
  pose proof eig_table_smallest_shapes as K. rewrite forallb_forall in K. specialize (K b Hb).
  repeat split; try assumption.
  revert Hb Hf Hl. clear. intros Hb Hf Hl.
  assert (Hall : forallb (fun b => negb (String.eqb (b_fn b) "eigendecomposition_impl_dense")
                                   || match b_base b with BaseN => true | _ => false end) eig_table = true)
    by (vm_compute; reflexivity).
  rewrite forallb_forall in Hall. specialize (Hall b Hb). rewrite Hf in Hall.
  rewrite String.eqb_refl in Hall. cbn [negb orb] in Hall. destruct (b_base b); [reflexivity|discriminate].
Qed.

(* F7 (known finding): whichever form the eigenVALUE slice has in the tree being checked *)
Theorem C08_eig_segment_table :
  (f7_present = true /\
   exists b, In b eig_table /\ b_largest b = false /\
     exists N d skip, d + skip <= N /\ 1 <= d /\ eval_ops d skip N (b_vals b) = None)
  \/
  (f7_present = false /\
   forall b, In b eig_table -> b_largest b = false -> b_base b = BaseN ->
   forall N d skip, d + skip <= N -> eval_ops d skip N (b_vals b) = Some (skip, d)).
Proof. exact eig_segment_table. Qed.
Print Assumptions C08_eig_segment_table.

Theorem C08_select_smallest_model :
  forall (F : Type) (Fo : FieldOps F) (skip d : nat) (E : mat F) (a c : nat),
    select_smallest skip d E a c = E a (skip + c).
Proof. intros. apply @select_smallest_entry. Qed.
Print Assumptions C08_select_smallest_model.

(* from ANY solver answer meeting the contract: orthonormal columns *)
Theorem C08_embed_orthonormal :
  forall (F : Type) (Fo : FieldOps F) (N d skip : nat) (M E : mat F) (lam : vec F),
    eig_contract N M E lam -> skip + d <= N ->
    orthonormal_cols N d (select_smallest skip d E).
Proof. exact @embed_orthonormal. Qed.
Print Assumptions C08_embed_orthonormal.

(* ... cost = sum of the selected eigenvalues *)
Theorem C08_embed_cost :
  forall (F : Type) (Fo : FieldOps F) (Ff : IsField F) (N d skip : nat) (M E : mat F) (lam : vec F),
    eig_contract N M E lam -> skip + d <= N ->
    cost N d M (select_smallest skip d E) = sumn d (fun c => lam (skip + c)).
Proof. exact @embed_cost. Qed.
Print Assumptions C08_embed_cost.

(* ... columns sum to zero whenever the selected eigenvalues differ from the eigenvalue mu of
   the constant vector (mu = shift for KLLE/KLTSA, 0 for HLLE; "data that is not exactly flat") *)
Theorem C08_embed_centred :
  forall (F : Type) (Fo : FieldOps F) (Ff : IsField F) (N d skip : nat) (M E : mat F)
         (lam : vec F) (mu : F),
    msym N M -> const_vector N M mu -> eig_contract N M E lam -> skip + d <= N ->
    (forall c, c < d -> lam (skip + c) <> mu) ->
    centred_cols N d (select_smallest skip d E).
Proof. exact @embed_centred. Qed.
Print Assumptions C08_embed_centred.

(* non-vacuity of the three embedding theorems: a 4 x 4 matrix with M 1 = 1/8 1, rational
   orthonormal eigenvectors (Hadamard / 2) *)
Definition c08_E4 : mat Qc :=
  mof [[qfrac 1 2; qfrac 1 2; qfrac 1 2; qfrac 1 2];
       [qfrac 1 2; qfrac (-1) 2; qfrac 1 2; qfrac (-1) 2];
       [qfrac 1 2; qfrac 1 2; qfrac (-1) 2; qfrac (-1) 2];
       [qfrac 1 2; qfrac (-1) 2; qfrac (-1) 2; qfrac 1 2]].
Definition c08_lam4 : vec Qc := vof [qfrac 1 8; qz 1; qz 2; qz 3].
Definition c08_M4 : mat Qc := mmul 4 (mmul 4 c08_E4 (mdiag c08_lam4)) (mtrans c08_E4).

Example C08_embed_nonvacuous :
  eig_contract 4 c08_M4 c08_E4 c08_lam4 /\ msym 4 c08_M4 /\
  const_vector 4 c08_M4 (qfrac 1 8) /\ 1 + 2 <= 4 /\
  (forall c, c < 2 -> c08_lam4 (1 + c) <> qfrac 1 8).
Proof.
  split; [split|split; [|split; [|split]]].
  - apply meq_by_compute. vm_compute. reflexivity.
  - apply meq_by_compute. vm_compute. reflexivity.
  - intros i j Hi Hj. apply (meq_by_compute 4 4 c08_M4 (mtrans c08_M4)); [vm_compute; reflexivity| |]; assumption.
  - intros r Hr.
    apply (veq_by_compute 4 (mv 4 c08_M4 (fun _ => 1%F)) (fun _ => qfrac 1 8)); [vm_compute; reflexivity|assumption].
  - lia.
  - intros c Hc. destruct c as [|[|c]]; try lia; intros K; apply (f_equal this) in K; vm_compute in K; discriminate.
Qed.

(* ---------------------------------------------------------------------- *)
(* 5. optimality (Ky Fan) and the affine clause                            *)
(* ---------------------------------------------------------------------- *)
(* Ky Fan's inequality (Spectral_KyFan.ky_fan_min, any ordered field, every N and d) gives: for
   a FULL orthonormal eigendecomposition (E^T E = E E^T = I, M E = E diag lam, lam ascending)
   whose column 0 is constant, EVERY Y with orthonormal columns that sum to zero has
   tr(Y^T M Y) >= lam_1 + ... + lam_d, the value C08_embed_cost shows the returned embedding
   attains.  The inequality itself is proved at full strength; the theorem is named `_partial`
   because the existence of such a decomposition for the assembled matrix (spectral theorem
   over the reals; the solver returning one) is the oracle contract, not a theorem here. *)
Theorem C08_cost_minimal_partial :
  forall (N d : nat) (M E Y : mat Qc) (lam : vec Qc) (c0 : Qc),
    eig_contract N M E lam ->
    meq N N (mmul N E (mtrans E)) mI ->
    (forall i, i < N -> E i 0 = c0) ->
    (forall i j, i <= j -> j < N -> qle (lam i) (lam j)) ->
    orthonormal_cols N d Y -> centred_cols N d Y -> 1 + d <= N ->
    qle (sumn d (fun c => lam (1 + c))) (cost N d M Y).
Proof. exact ky_fan_min_centred. Qed.
Print Assumptions C08_cost_minimal_partial.

(* the optimality clause of C08 in one statement (same oracle contract): what the smallest-eigenvalue
   selection with skip = 1 returns has orthonormal columns that sum to zero, and NO orthonormal centred Y
   has a smaller alignment cost *)
Theorem C08_embedding_optimal_partial :
  forall (N d : nat) (M E : mat Qc) (lam : vec Qc) (c0 : Qc),
    eig_contract N M E lam ->
    meq N N (mmul N E (mtrans E)) mI ->
    (forall i, i < N -> E i 0 = c0) -> c0 <> 0%F ->
    (forall i j, i <= j -> j < N -> qle (lam i) (lam j)) -> 1 + d <= N ->
    orthonormal_cols N d (select_smallest 1 d E) /\
    centred_cols N d (select_smallest 1 d E) /\
    forall Y, orthonormal_cols N d Y -> centred_cols N d Y ->
              qle (cost N d M (select_smallest 1 d E)) (cost N d M Y).
Proof. exact embedding_optimal. Qed.
Print Assumptions C08_embedding_optimal_partial.

Example C08_cost_minimal_nonvacuous :
  eig_contract 4 c08_M4 c08_E4 c08_lam4 /\
  meq 4 4 (mmul 4 c08_E4 (mtrans c08_E4)) mI /\
  (forall i, i < 4 -> c08_E4 i 0 = qfrac 1 2) /\
  (forall i j, i <= j -> j < 4 -> qle (c08_lam4 i) (c08_lam4 j)) /\
  orthonormal_cols 4 2 (select_smallest 1 2 c08_E4) /\
  centred_cols 4 2 (select_smallest 1 2 c08_E4).
Proof.
  destruct C08_embed_nonvacuous as [HC [Hs [Hc [Hd Hl]]]].
  split; [exact HC|]. split; [apply meq_by_compute; vm_compute; reflexivity|].
  split; [intros i Hi; destruct i as [|[|[|[|i]]]]; try lia; reflexivity|].
  split.
  - intros i j H2 H3.
    destruct i as [|[|[|[|i]]]]; try lia; destruct j as [|[|[|[|j]]]]; try lia; vm_compute; discriminate.
  - split.
    + apply (embed_orthonormal 4 2 1 c08_M4 c08_E4 c08_lam4 HC). lia.
    + apply (embed_centred 4 2 1 c08_M4 c08_E4 c08_lam4 (qfrac 1 8)); assumption.
Qed.

(* "For samples lying on a target_dimension-dimensional affine subspace every LTSA and HLLE column is
   an affine function of the intrinsic coordinates."
   (a) assembly (any field): if every local matrix annihilates the constant vector and the local
       coordinates, every affine function of the coordinates is an eigenvector of the assembled matrix
       for its smallest eigenvalue (shift, resp. 0) *)
Theorem C08_ltsa_affine_null :
  forall (F : Type) (Fo : FieldOps F) (Ff : IsField F) (N k d : nat) (nbr : nat -> nat -> nat)
         (P : nat -> mat F) (shift : F) (X : mat F) (y : vec F) (r : nat),
    (forall i a, i < N -> a < k -> nbr i a < N) ->
    (forall i a, i < N -> a < k -> sumn k (fun b => msub mI (P i) a b) = 0%F) ->
    (forall i t a, i < N -> t < d -> a < k ->
                   sumn k (fun b => (msub mI (P i) a b * X (nbr i b) t)%F) = 0%F) ->
    affine_in N d X y -> r < N ->
    mv N (ltsa_M_spec N k nbr P shift) y r = (shift * y r)%F.
Proof. exact @ltsa_affine_null. Qed.
Print Assumptions C08_ltsa_affine_null.

Theorem C08_hlle_affine_null :
  forall (F : Type) (Fo : FieldOps F) (Ff : IsField F) (N k d : nat) (nbr : nat -> nat -> nat)
         (P : nat -> mat F) (X : mat F) (y : vec F) (r : nat),
    (forall i a, i < N -> a < k -> nbr i a < N) ->
    (forall i a, i < N -> a < k -> sumn k (fun b => P i a b) = 0%F) ->
    (forall i t a, i < N -> t < d -> a < k ->
                   sumn k (fun b => (P i a b * X (nbr i b) t)%F) = 0%F) ->
    affine_in N d X y -> r < N ->
    mv N (hlle_M_spec N k nbr P) y r = 0%F.
Proof. exact @hlle_affine_null. Qed.
Print Assumptions C08_hlle_affine_null.

(* (b) the local eigenproblem on an exactly flat neighbourhood (Qc; needs a formally real field):
       B = Xc Xc^T, all but the d selected eigenvalues zero  ->  V V^T Xc = Xc *)
Theorem C08_flat_projector :
  forall (k d D : nat) (B E Xc : mat Qc) (lam : vec Qc) (a t : nat),
    eig_contract k B E lam -> meq k k (mmul k E (mtrans E)) mI -> d <= k ->
    (forall j, j < k - d -> lam j = 0%F) ->
    meq k k B (mmul D Xc (mtrans Xc)) ->
    a < k -> t < D ->
    sumn k (fun b => (proj_of d (right_cols k d E) a b * Xc b t)%F) = Xc a t.
Proof. exact flat_projector_Qc. Qed.
Print Assumptions C08_flat_projector.

(* (c) together, from the oracle contract of the local eigensolver alone (every neighbourhood
       exactly d-flat): KLTSA *)
Theorem C08_ltsa_affine_on_flat :
  forall (N k d D : nat) (nbr : nat -> nat -> nat) (rsk shift : Qc)
         (B E Xc : nat -> mat Qc) (lam m : nat -> vec Qc) (X : mat Qc) (y : vec Qc) (r : nat),
    k <> 0 -> (rsk * rsk * of_nat k)%F = 1%F -> d <= k ->
    (forall i a, i < N -> a < k -> nbr i a < N) ->
    (forall i, i < N ->
       eig_contract k (B i) (E i) (lam i) /\
       meq k k (mmul k (E i) (mtrans (E i))) mI /\
       (forall j, j < k - d -> lam i j = 0%F) /\
       (forall c, c < d -> lam i (k - d + c) <> 0%F) /\
       meq k k (B i) (mmul D (Xc i) (mtrans (Xc i))) /\
       (forall b s, b < k -> s < D -> Xc i b s = (X (nbr i b) s - m i s)%F) /\
       (forall s, s < D -> sumn k (fun b => Xc i b s) = 0%F)) ->
    affine_in N D X y -> r < N ->
    mv N (ltsa_M_spec N k nbr (fun i => ltsa_P d rsk (right_cols k d (E i))) shift) y r = (shift * y r)%F.
Proof. exact ltsa_affine_on_flat_Qc. Qed.
Print Assumptions C08_ltsa_affine_on_flat.

(*     ... and HLLE (local matrix in the sqrt-free form, see C08_hlle_local_sqrt_free) *)
Theorem C08_hlle_affine_on_flat :
  forall (N k d D : nat) (nbr : nat -> nat -> nat)
         (B E Xc prev : nat -> mat Qc) (lam m : nat -> vec Qc) (X : mat Qc) (y : vec Qc) (r : nat),
    d <= k ->
    (forall i a, i < N -> a < k -> nbr i a < N) ->
    (forall i, i < N ->
       eig_contract k (B i) (E i) (lam i) /\
       meq k k (mmul k (E i) (mtrans (E i))) mI /\
       (forall j, j < k - d -> lam i j = 0%F) /\
       meq k k (B i) (mmul D (Xc i) (mtrans (Xc i))) /\
       (forall b s, b < k -> s < D -> Xc i b s = (X (nbr i b) s - m i s)%F) /\
       gs_nondegenerate (hlle_gs_sf false k d (prev i) (right_cols k d (E i)))) ->
    affine_in N D X y -> r < N ->
    mv N (hlle_M_spec N k nbr (fun i => hlle_local_sf false k d (prev i) (right_cols k d (E i)))) y r = 0%F.
Proof. exact hlle_affine_on_flat_Qc. Qed.
Print Assumptions C08_hlle_affine_on_flat.

(* non-vacuity of (b), (c): four collinear samples with coordinate 1, -1, 7, -7, every sample's
   neighbourhood = all four (k = 4, d = D = 1); rational orthonormal eigenvectors *)
Definition c08_Ef : mat Qc :=
  mof [[qfrac 1 2; qfrac 1 2; qfrac 7 10; qfrac 1 10];
       [qfrac 1 2; qfrac 1 2; qfrac (-7) 10; qfrac (-1) 10];
       [qfrac 1 2; qfrac (-1) 2; qfrac (-1) 10; qfrac 7 10];
       [qfrac 1 2; qfrac (-1) 2; qfrac 1 10; qfrac (-7) 10]].
Definition c08_lamf : vec Qc := vof [qz 0; qz 0; qz 0; qz 100].
Definition c08_Bf : mat Qc := mmul 1 c08_V4 (mtrans c08_V4).

Example C08_affine_on_flat_nonvacuous :
  eig_contract 4 c08_Bf c08_Ef c08_lamf /\
  meq 4 4 (mmul 4 c08_Ef (mtrans c08_Ef)) mI /\
  (forall j, j < 4 - 1 -> c08_lamf j = 0%F) /\
  (forall c, c < 1 -> c08_lamf (4 - 1 + c) <> 0%F) /\
  meq 4 4 c08_Bf (mmul 1 c08_V4 (mtrans c08_V4)) /\
  (forall b s, b < 4 -> s < 1 -> c08_V4 b s = (c08_V4 b s - 0)%F) /\
  (forall s, s < 1 -> sumn 4 (fun b => c08_V4 b s) = 0%F) /\
  gs_nondegenerate (hlle_gs_sf false 4 1 (fun _ _ => 0%F) (right_cols 4 1 c08_Ef)) /\
  (qfrac 1 2 * qfrac 1 2 * of_nat 4)%F = 1%F.
Proof.
  split; [split; apply meq_by_compute; vm_compute; reflexivity|].
  split; [apply meq_by_compute; vm_compute; reflexivity|].
  split; [intros j Hj; destruct j as [|[|[|j]]]; try lia; reflexivity|].
  split; [intros c Hc; destruct c as [|c]; try lia; intros K; apply (f_equal this) in K; vm_compute in K; discriminate|].
  split; [apply meq_refl|].
  split; [intros b s Hb Hs; destruct s as [|s]; try lia;
          destruct b as [|[|[|[|b]]]]; try lia; apply Qc_is_canon; vm_compute; reflexivity|].
  split; [intros s Hs; destruct s as [|s]; try lia; apply Qc_is_canon; vm_compute; reflexivity|].
  split; [apply gs_nondegenerate_by_compute; vm_compute; reflexivity|].
  apply Qc_is_canon. vm_compute. reflexivity.
Qed.

(* ---------------------------------------------------------------------- *)
(* 6. C08 in one statement per method (composition of the theorems above)  *)
(*    global_contract N M E lam c0 := E^T E = E E^T = I, M E = E diag lam, *)
(*    lam ascending, column 0 of E = c0 <> 0 (oracle contract of the dense *)
(*    solver on the assembled matrix);  optimal_embedding N d M Y := Y has *)
(*    orthonormal columns that sum to zero and no such Y' has smaller cost *)
(* ---------------------------------------------------------------------- *)
Theorem C08_klle_end_to_end_partial :
  forall (N k d : nat) (nbr : nat -> nat -> nat) (kern : mat Qc) (shift ts : Qc) (prev : nat -> mat Qc)
         (T : list (@triplet Qc)) (E : mat Qc) (lam : vec Qc) (c0 : Qc),
    (forall i a b, i < N -> a < k -> b < k -> kern (nbr i a) (nbr i b) = kern (nbr i b) (nbr i a)) ->
    lle_model (solve_checked qeqb) N k nbr kern shift ts prev = Ok T ->
    global_contract N (from_triplets T) E lam c0 -> 1 + d <= N ->
    (exists W : mat Qc,
        (forall r c, r < N -> c < N -> from_triplets T r c = lle_M_spec N k nbr W shift r c) /\
        (forall i, i < N -> exists x : vec Qc,
            (forall a, a < k -> mv k (lle_C_reg k kern ts (nbr i) i) x a = 1%F) /\
            (forall a, a < k -> W i a = (x a / sumn k x)%F) /\
            (sumn k x <> 0%F -> sumn k (W i) = 1%F))) /\
    optimal_embedding N d (from_triplets T) (select_smallest 1 d E).
Proof. exact klle_end_to_end. Qed.
Print Assumptions C08_klle_end_to_end_partial.

Theorem C08_kltsa_end_to_end_partial :
  forall (N k d : nat) (nbr : nat -> nat -> nat) (Eloc : nat -> mat Qc) (rsk shift : Qc)
         (E : mat Qc) (lam : vec Qc) (c0 : Qc),
    global_contract N (from_triplets (ltsa_model N k d nbr Eloc rsk shift)) E lam c0 -> 1 + d <= N ->
    (forall r c, r < N -> c < N ->
        from_triplets (ltsa_model N k d nbr Eloc rsk shift) r c =
        ltsa_M_spec N k nbr (fun i => ltsa_P d rsk (right_cols k d (Eloc i))) shift r c) /\
    optimal_embedding N d (from_triplets (ltsa_model N k d nbr Eloc rsk shift)) (select_smallest 1 d E).
Proof. exact kltsa_end_to_end. Qed.
Print Assumptions C08_kltsa_end_to_end_partial.

Theorem C08_hlle_end_to_end_partial :
  forall (N k d : nat) (nbr : nat -> nat -> nat) (V prev : nat -> mat Qc) (T : list (@triplet Qc))
         (E : mat Qc) (lam : vec Qc) (c0 : Qc),
    hlle_model_sf (fun x => qeqb x 0%F) false N k d nbr V prev = Ok T ->
    global_contract N (from_triplets T) E lam c0 -> 1 + d <= N ->
    (forall r c, from_triplets T r c =
                 hlle_M_spec N k nbr (fun i => hlle_local_sf false k d (prev i) (V i)) r c) /\
    (forall i, i < N -> gs_degenerate (fun x => qeqb x 0%F) (hlle_gs_sf false k d (prev i) (V i)) = false) /\
    optimal_embedding N d (from_triplets T) (select_smallest 1 d E).
Proof. exact hlle_end_to_end. Qed.
Print Assumptions C08_hlle_end_to_end_partial.

(* non-vacuity of the global contract: the 4 x 4 example above *)
Example C08_global_contract_nonvacuous : global_contract 4 c08_M4 c08_E4 c08_lam4 (qfrac 1 2) /\ 1 + 2 <= 4.
Proof.
  destruct C08_cost_minimal_nonvacuous as [HC [HE [Hc [Hasc _]]]].
  split; [|lia]. split; [exact HC|]. split; [exact HE|]. split; [exact Hc|]. split; [|exact Hasc].
  intros K. apply (f_equal this) in K. vm_compute in K. discriminate.
Qed.

(* ---------------------------------------------------------------------- *)
(* 9. The unit of length is free (wave 2).  kscale c kern = c * kern.      *)
(*    KLLE: the regulariser trace_shift * trace is RELATIVE: the local     *)
(*    system scales by c and the sum-to-one weight rows are the same, so   *)
(*    (I-W)^T (I-W) + shift I is the same matrix.  KLTSA / HLLE: the       *)
(*    matrix the local eigensolver sees scales by c, the same eigenvector  *)
(*    matrices meet the solver contract, and the routines take nothing     *)
(*    else from the data.  The check therefore runs every stream on copies *)
(*    scaled by 2^-60 .. 2^60 as well: an absolute threshold anywhere in   *)
(*    the routines contradicts these theorems on a concrete input.         *)
(* ---------------------------------------------------------------------- *)
Theorem C08_lle_gram_seen_scale :
  forall (F : Type) (Fo : FieldOps F) (Ff : IsField F) (k : nat) (c : F) (kern : mat F) (ts : F)
         (nb : nat -> nat) (i : nat) (prev prev' : mat F) (a b : nat),
    (forall a b, a < k -> b < k -> kern (nb a) (nb b) = kern (nb b) (nb a)) ->
    a < k -> b < k ->
    read_upper (lle_gram k (kscale c kern) ts nb i prev') a b =
    (c * read_upper (lle_gram k kern ts nb i prev) a b)%F.
Proof. exact @lle_gram_seen_scale. Qed.
Print Assumptions C08_lle_gram_seen_scale.

Theorem C08_lle_scale_free :
  forall (F : Type) (Fo : FieldOps F) (Ff : IsField F) (k : nat) (c : F) (kern : mat F) (ts : F)
         (nb : nat -> nat) (i : nat) (w : vec F),
    c <> 0%F ->
    (lle_weight_row k kern ts nb i w <-> lle_weight_row k (kscale c kern) ts nb i w).
Proof. exact @lle_weight_row_scale. Qed.
Print Assumptions C08_lle_scale_free.

Example C08_lle_scale_free_nonvacuous :
  qz 2 <> 0%F /\
  lle_weight_row 2 c08_kern3 0%F (nbrs_of c08_nbr3 0) 0 (vof [qfrac 3 5; qfrac 2 5]).
Proof.
  split; [intros K; apply (f_equal this) in K; vm_compute in K; discriminate|].
  exists (vof [qfrac 3 16; qfrac 1 8]). split; [|split].
  - intros a Ha. destruct a as [|[|a]]; try lia; apply Qc_is_canon; vm_compute; reflexivity.
  - intros K. apply (f_equal this) in K. vm_compute in K. discriminate.
  - intros a Ha. destruct a as [|[|a]]; try lia; apply Qc_is_canon; vm_compute; reflexivity.
Qed.

Theorem C08_local_gram_scale :
  forall (F : Type) (Fo : FieldOps F) (Ff : IsField F) (k : nat) (c : F) (kern : mat F)
         (nb : nat -> nat) (a b : nat),
    a < k -> b < k ->
    local_centered_gram k (kscale c kern) nb a b = (c * local_centered_gram k kern nb a b)%F.
Proof. exact @local_centered_gram_scale. Qed.
Print Assumptions C08_local_gram_scale.

Theorem C08_eig_contract_scale :
  forall (F : Type) (Fo : FieldOps F) (Ff : IsField F) (k : nat) (c : F) (kern : mat F)
         (nb : nat -> nat) (E : mat F) (lam : vec F),
    c <> 0%F ->
    (eig_contract k (local_centered_gram k kern nb) E lam <->
     eig_contract k (local_centered_gram k (kscale c kern) nb) E (fun t => (c * lam t)%F)).
Proof. exact @local_contract_scale. Qed.
Print Assumptions C08_eig_contract_scale.

(* curved data whose local eigenproblem is exact (the check's stream hlle-curved-sym): if the local
   covariance Xc^T Xc is diagonal, the centred coordinate columns are eigenvectors of the Gram matrix
   the local solver sees, with the variances as eigenvalues *)
Theorem C08_diag_cov_eigvec :
  forall (F : Type) (Fo : FieldOps F) (Ff : IsField F) (k D : nat) (B Xc : mat F) (s : vec F) (t a : nat),
    meq k k B (mmul D Xc (mtrans Xc)) ->
    (forall u v, u < D -> v < D ->
        sumn k (fun b => (Xc b u * Xc b v)%F) = if Nat.eqb u v then s u else 0%F) ->
    t < D -> a < k ->
    sumn k (fun b => (B a b * Xc b t)%F) = (s t * Xc a t)%F.
Proof. exact @diag_cov_eigvec. Qed.
Print Assumptions C08_diag_cov_eigvec.

Definition c08_Xsym : mat Qc := mof [[qz 1; qz 1]; [qz 1; qz (-1)]; [qz (-1); qz 1]; [qz (-1); qz (-1)]].

Example C08_diag_cov_nonvacuous :
  meq 4 4 (mmul 2 c08_Xsym (mtrans c08_Xsym)) (mmul 2 c08_Xsym (mtrans c08_Xsym)) /\
  (forall u v, u < 2 -> v < 2 ->
      sumn 4 (fun b => (c08_Xsym b u * c08_Xsym b v)%F) = if Nat.eqb u v then (fun _ => qz 4) u else 0%F).
Proof.
  split; [apply meq_refl|].
  intros u v Hu Hv. destruct u as [|[|u]]; try lia; destruct v as [|[|v]]; try lia;
    apply Qc_is_canon; vm_compute; reflexivity.
Qed.

(* ---------------------------------------------------------------------- *)
(* 10. Orthogonal projectors are determined by their range (wave 2).       *)
(*     The projector sum_u u u^T/(u.u) that the sqrt-free Gram-Schmidt     *)
(*     computes depends on the input columns only through their span       *)
(*     (stated dually: the same vectors are orthogonal to both lists), and *)
(*     therefore HLLE's local matrix H H^T depends on the tangent          *)
(*     coordinates only through their AFFINE span: V' = 1 M^T + V R and    *)
(*     back.  The C++ feeds centred unit eigenvectors, the exact streams   *)
(*     of the check (hlle-flat, hlle-curved-sym) feed integer coordinates  *)
(*     of the same tangent space: same local matrix.  Qc (formally real).  *)
(* ---------------------------------------------------------------------- *)
Theorem C08_gs_projector_span :
  forall (k : nat) (cols cols' : list (vec Qc)),
    gs_nondegenerate (mgs_sf k [] cols) -> gs_nondegenerate (mgs_sf k [] cols') ->
    (forall w : vec Qc, (forall c, In c cols -> dot k w c = 0%F) <-> (forall c, In c cols' -> dot k w c = 0%F)) ->
    forall a b, a < k -> b < k ->
      outer_sum_sf (mgs_sf k [] cols) a b = outer_sum_sf (mgs_sf k [] cols') a b.
Proof. exact gs_proj_span_Qc. Qed.
Print Assumptions C08_gs_projector_span.

Theorem C08_hlle_local_basis_free :
  forall (k d : nat) (prev prev' V V' R R' : mat Qc) (M M' : vec Qc),
    (forall a t, a < k -> t < d -> V' a t = (M t + sumn d (fun s => V a s * R s t))%F) ->
    (forall a t, a < k -> t < d -> V a t = (M' t + sumn d (fun s => V' a s * R' s t))%F) ->
    gs_nondegenerate (hlle_gs_sf false k d prev V) ->
    gs_nondegenerate (hlle_gs_sf false k d prev' V') ->
    forall a b, a < k -> b < k ->
      hlle_local_sf false k d prev V a b = hlle_local_sf false k d prev' V' a b.
Proof. exact hlle_local_basis_free_Qc. Qed.
Print Assumptions C08_hlle_local_basis_free.

(* non-vacuity: V = (1,-1,7,-7), V' = 3 + 2 V *)
Definition c08_V4' : mat Qc := mof [[qz 5]; [qz 1]; [qz 17]; [qz (-11)]].

Example C08_hlle_local_basis_free_nonvacuous :
  (forall a t, a < 4 -> t < 1 ->
      c08_V4' a t = ((fun _ => qz 3) t + sumn 1 (fun s => c08_V4 a s * (fun _ _ => qz 2) s t))%F) /\
  (forall a t, a < 4 -> t < 1 ->
      c08_V4 a t = ((fun _ => qfrac (-3) 2) t + sumn 1 (fun s => c08_V4' a s * (fun _ _ => qfrac 1 2) s t))%F) /\
  gs_nondegenerate (hlle_gs_sf false 4 1 (fun _ _ => 0%F) c08_V4) /\
  gs_nondegenerate (hlle_gs_sf false 4 1 (fun _ _ => 0%F) c08_V4').
Proof.
  split; [intros a t Ha Ht; destruct t as [|t]; try lia;
          destruct a as [|[|[|[|a]]]]; try lia; apply Qc_is_canon; vm_compute; reflexivity|].
  split; [intros a t Ha Ht; destruct t as [|t]; try lia;
          destruct a as [|[|[|[|a]]]]; try lia; apply Qc_is_canon; vm_compute; reflexivity|].
  split; apply gs_nondegenerate_by_compute; vm_compute; reflexivity.
Qed.

(* ---------------------------------------------------------------------- *)
(* 11. The method classes (wave 2): tables generated from embed() of the   *)
(*     three classes and from the routines' signatures (T-lle-calls).      *)
(*     The binding the model and the harness assume: nullspace_shift is    *)
(*     what is added to the diagonal, klle_shift is the factor of the      *)
(*     trace regulariser, neighbours come from kernel_distance, the        *)
(*     routine's matrix goes to the SmallestEigenvalues front-end with     *)
(*     parameters[target_dimension] and `.first` is returned.              *)
(* ---------------------------------------------------------------------- *)
Theorem C08_method_calls_table :
  method_ok mc_lle_sig mc_klle_call mc_klle_neighbors mc_klle_matrix mc_klle_eig klle_binding = true /\
  method_ok mc_ltsa_sig mc_kltsa_call mc_kltsa_neighbors mc_kltsa_matrix mc_kltsa_eig kltsa_binding = true /\
  method_ok mc_hlle_sig mc_hlle_call mc_hlle_neighbors mc_hlle_matrix mc_hlle_eig hlle_binding = true.
Proof. exact lle_calls_table. Qed.
Print Assumptions C08_method_calls_table.

(* ---------------------------------------------------------------------- *)
(* 12. Wave 4: locally RANK-DEFICIENT neighbourhoods.  When the k           *)
(*     neighbours of a sample span fewer than d directions the local        *)
(*     solver returns arbitrary eigenvectors of eigenvalue 0 as the missing *)
(*     tangent columns; they are orthogonal to the genuine ones but NOT to  *)
(*     the constant vector.  What keeps constants and the tangent           *)
(*     coordinates in the local null space is the Gram-Schmidt loop over    *)
(*     ALL columns (HLLE as written; KLTSA since repair F51).               *)
(* ---------------------------------------------------------------------- *)
(* HLLE: no hypothesis on V whatsoever *)
Theorem C08_hlle_null_any_tangent :
  forall (F : Type) (Fo : FieldOps F) (Ff : IsField F) (k d : nat) (prev V : mat F) (a : nat)
         (c0 : F) (c : nat -> F),
    gs_nondegenerate (hlle_gs_sf false k d prev V) -> a < k ->
    sumn k (fun b => hlle_local_sf false k d prev V a b * (c0 + sumn d (fun t => c t * V b t)))%F = 0%F.
Proof. exact @hlle_null_any_tangent. Qed.
Print Assumptions C08_hlle_null_any_tangent.

(* the loop that starts at column `start` (start = 0: the code; start = 1 + d: the rewrite "the constant column and
   the eigenvectors are already orthogonal") has the property exactly under that assumption ... *)
Theorem C08_hlle_gs_from_annihilates :
  forall (F : Type) (Fo : FieldOps F) (Ff : IsField F) (start k d : nat) (prev V : mat F) (a : nat)
         (c0 : F) (c : nat -> F),
    pairwise_orth k (firstn start (cols_of k (hlle_ncols d) (hlle_Yprod false d prev V))) ->
    gs_nondegenerate (hlle_gs_sf_from start k d prev V) -> a < k ->
    sumn k (fun b => hlle_local_sf_from start k d prev V a b * (c0 + sumn d (fun t => c t * V b t)))%F = 0%F.
Proof. exact @hlle_from_annihilates. Qed.
Print Assumptions C08_hlle_gs_from_annihilates.

Theorem C08_hlle_gs_from_0_is_code :
  forall (F : Type) (Fo : FieldOps F) (k d : nat) (prev V : mat F),
    hlle_gs_sf_from 0 k d prev V = hlle_gs_sf false k d prev V.
Proof. intros. reflexivity. Qed.
Print Assumptions C08_hlle_gs_from_0_is_code.

(* ... and is refuted without it: six collinear neighbours, d = 2, second tangent column an eigenvector of
   eigenvalue 0 with non-zero sum (seeded change C08_4) *)
Theorem C08_hlle_gs_skip_refuted :
  sumn 6 (fun b => skipw_V b 0) = 0%F /\
  dot 6 (mcol skipw_V 0) (mcol skipw_V 1) = 0%F /\
  sumn 6 (fun b => skipw_V b 1) <> 0%F /\
  gs_nondegenerate (hlle_gs_sf false 6 2 skipw_prev skipw_V) /\
  gs_nondegenerate (hlle_gs_sf_from 3 6 2 skipw_prev skipw_V) /\
  sumn 6 (fun b => hlle_local_sf_from 3 6 2 skipw_prev skipw_V 0 b) <> 0%F /\
  (forall a, a < 6 -> sumn 6 (fun b => hlle_local_sf false 6 2 skipw_prev skipw_V a b) = 0%F).
Proof. exact hlle_skip_refuted. Qed.
Print Assumptions C08_hlle_gs_skip_refuted.

(* non-vacuity of C08_hlle_gs_from_annihilates at start = 1 + d: orthogonal leading columns exist *)
Definition c08_orthV : mat Qc :=
  mof [[qz (-5); qz (-3)]; [qz (-3); qz 1]; [qz (-1); qz 2]; [qz 1; qz 3]; [qz 3; qz (-1)]; [qz 5; qz (-2)]].

Example C08_hlle_gs_from_annihilates_nonvacuous :
  pairwise_orth 6 (firstn 3 (cols_of 6 (hlle_ncols 2) (hlle_Yprod false 2 skipw_prev c08_orthV))) /\
  gs_nondegenerate (hlle_gs_sf_from 3 6 2 skipw_prev c08_orthV).
Proof.
  split.
  - intros i j dv Hij Hj.
    assert (Hl : length (firstn 3 (cols_of 6 (hlle_ncols 2) (hlle_Yprod false 2 skipw_prev c08_orthV))) = 3)
      by (vm_compute; reflexivity).
    rewrite Hl in Hj.
    destruct j as [|[|[|j]]]; try lia; destruct i as [|[|i]]; try lia;
      apply qeqb_ok; vm_compute; reflexivity.
  - apply gs_nondegenerate_by_compute. vm_compute. reflexivity.
Qed.

(* KLTSA after repair F51: G G^T fixes 1 and every tangent column, for ANY tangent columns (Qc: formally real) *)
Theorem C08_ltsa_gs_fixes :
  forall (k d : nat) (rsk : Qc) (V : mat Qc) (a : nat),
    dot k (fun _ => rsk) (fun _ => rsk) = 1%F ->
    gs_nondegenerate (ltsa_gs_sf k d rsk V) -> a < k ->
    sumn k (fun b => ltsa_P_gs k d rsk V a b) = 1%F /\
    (forall t, t < d -> sumn k (fun b => ltsa_P_gs k d rsk V a b * V b t)%F = V a t).
Proof. exact ltsa_gs_fixes_Qc. Qed.
Print Assumptions C08_ltsa_gs_fixes.

Theorem C08_ltsa_gs_null_span :
  forall (k d : nat) (rsk : Qc) (V : mat Qc) (a : nat) (c0 : Qc) (c : nat -> Qc),
    dot k (fun _ => rsk) (fun _ => rsk) = 1%F ->
    gs_nondegenerate (ltsa_gs_sf k d rsk V) -> a < k ->
    sumn k (fun b => (delta a b - ltsa_P_gs k d rsk V a b) * (c0 + sumn d (fun t => c t * V b t)))%F = 0%F.
Proof. exact ltsa_gs_null_span_Qc. Qed.
Print Assumptions C08_ltsa_gs_null_span.

(* the code before F51 (no loop) is refuted on an orthonormal answer of the local solver for four collinear
   neighbours; the repaired loop is correct on the same input (which is also the non-vacuity witness of the two
   theorems above) *)
Theorem C08_ltsa_no_gs_refuted :
  dot 4 (fun _ => lgw_rsk) (fun _ => lgw_rsk) = 1%F /\
  dot 4 (mcol lgw_V 0) (mcol lgw_V 0) = 1%F /\ dot 4 (mcol lgw_V 1) (mcol lgw_V 1) = 1%F /\
  dot 4 (mcol lgw_V 0) (mcol lgw_V 1) = 0%F /\ sumn 4 (mcol lgw_V 0) = 0%F /\
  sumn 4 (fun b => ltsa_P 2 lgw_rsk lgw_V 0 b) <> 1%F /\
  gs_nondegenerate (ltsa_gs_sf 4 2 lgw_rsk lgw_V) /\
  (forall a, a < 4 -> sumn 4 (fun b => ltsa_P_gs 4 2 lgw_rsk lgw_V a b) = 1%F /\
                      (forall t, t < 2 -> sumn 4 (fun b => ltsa_P_gs 4 2 lgw_rsk lgw_V a b * lgw_V b t)%F
                                          = lgw_V a t)).
Proof. exact ltsa_no_gs_refuted. Qed.
Print Assumptions C08_ltsa_no_gs_refuted.
