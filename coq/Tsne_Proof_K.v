(* Tsne_Proof_K.v — K = (int)(3 * perplexity), the number of neighbours of the Barnes-Hut
   branch (tsne.hpp run()), and why K + 1 <= N for every perplexity validate() accepts
   (methods/tsne.hpp: InClosedRange(0, (n_vectors - 1) / 3.0)).

   Two regimes:
   * Q with the rounding of the product as an oracle `fl` (monotone, exact on integers):
     K is the floor of fl(3 perplexity) and 0 <= K <= N - 1 whenever
     0 <= perplexity and 3 perplexity <= N - 1           — all perplexities, all N.
   * binary64 itself (PrimFloat, evaluated by vm_compute inside coqc): for EVERY N from 1
     to 5000 the largest accepted perplexity fl((N-1)/3.0) gives exactly K = N - 1, so the
     VP-tree is asked for K + 1 = N results and indices[m + 1], m < K, stays in range.
     The domain is finite and enumerated completely; the bound is in the statement. *)
From Coq Require Import List ZArith QArith Floats Uint63 Bool Lia Lqa.
From TK Require Import Knn_Spec Tsne_Model.
Import ListNotations.

(* ---------- Q, rounding oracle ---------- *)
Local Open Scope Q_scope.

Lemma Qtrunc_floor : forall x, 0 <= x ->
  inject_Z (Qtrunc x) <= x /\ x < inject_Z (Qtrunc x + 1).
Proof.
  intros [n d] H. unfold Qle in H. cbn [Qnum Qden] in H. rewrite Z.mul_1_r in H. cbn in H.
  unfold Qtrunc. cbn [Qnum Qden].
  assert (Hq : Z.quot n (Z.pos d) = (n / Z.pos d)%Z) by (apply Z.quot_div_nonneg; lia).
  rewrite Hq. unfold Qle, Qlt, inject_Z. cbn [Qnum Qden].
  pose proof (Z.mul_div_le n (Z.pos d) ltac:(lia)).
  pose proof (Z.mul_succ_div_gt n (Z.pos d) ltac:(lia)). nia.
Qed.

Lemma Qtrunc_bounds : forall x (M : Z), 0 <= x -> x <= inject_Z M -> (0 <= Qtrunc x <= M)%Z.
Proof.
  intros x M H0 HM. destruct (Qtrunc_floor x H0) as [Hlo Hhi]. split.
  - destruct x as [n d]. unfold Qtrunc. cbn [Qnum Qden]. unfold Qle in H0. cbn in H0.
    apply Z.quot_pos; lia.
  - assert (Hlt : inject_Z (Qtrunc x) < inject_Z (M + 1)).
    { eapply Qle_lt_trans; [exact Hlo|]. eapply Qle_lt_trans; [exact HM|].
      rewrite <- Zlt_Qlt. lia. }
    rewrite <- Zlt_Qlt in Hlt. lia.
Qed.

Section KQ.
  Variable fl : Q -> Q.
  Hypothesis fl_mono : forall x y, x <= y -> fl x <= fl y.
  Hypothesis fl_int : forall z : Z, fl (inject_Z z) == inject_Z z.

  Theorem K_is_floor_thm : forall perp, 0 <= perp ->
    inject_Z (K_of_Q fl perp) <= fl (3 * perp) /\ fl (3 * perp) < inject_Z (K_of_Q fl perp + 1).
  Proof.
    intros perp Hp. unfold K_of_Q. apply Qtrunc_floor.
    rewrite <- (fl_int 0). apply fl_mono. change (inject_Z 0) with 0. lra.
  Qed.

  Theorem K_fits_thm : forall perp (N : Z),
    0 <= perp -> 3 * perp <= inject_Z (N - 1) -> (0 <= K_of_Q fl perp <= N - 1)%Z.
  Proof.
    intros perp N Hp HN. unfold K_of_Q. apply Qtrunc_bounds.
    - rewrite <- (fl_int 0). apply fl_mono. change (inject_Z 0) with 0. lra.
    - rewrite <- (fl_int (N - 1)). now apply fl_mono.
  Qed.
End KQ.

Example K_fits_nonvacuous :
  (forall x y, x <= y -> (fun q : Q => q) x <= (fun q : Q => q) y) /\
  (forall z : Z, (fun q : Q => q) (inject_Z z) == inject_Z z) /\
  0 <= 10 /\ 3 * 10 <= inject_Z (31 - 1) /\ K_of_Q (fun q => q) 10 = 30%Z.
Proof. repeat split; try (intros; assumption); try reflexivity; try (intros; reflexivity); discriminate. Qed.

(* ---------- binary64 ---------- *)
Local Close Scope Q_scope.

Definition max_perplexity (n : Z) : float := (of_uint63 (Uint63.of_Z (n - 1)) / 3)%float.

Definition K_max_ok (n : Z) : bool :=
  match K_of (max_perplexity n) with Some k => (k =? n - 1)%Z | None => false end.

Theorem K_max_perplexity_thm : forall n : Z, (1 <= n <= 5000)%Z ->
  K_of (max_perplexity n) = Some (n - 1)%Z.
Proof.
  assert (H : forallb K_max_ok (zseq 1 5000) = true) by (vm_compute; reflexivity).
  intros n Hn. rewrite forallb_forall in H. specialize (H n).
  assert (Hin : In n (zseq 1 5000)) by (apply zseq_In; lia).
  specialize (H Hin). unfold K_max_ok in H.
  destruct (K_of (max_perplexity n)) as [k|]; [|discriminate].
  apply Z.eqb_eq in H. now subst.
Qed.

Example K_of_default : K_of 30%float = Some 90%Z /\ K_of 10%float = Some 30%Z /\ K_of 0.5%float = Some 1%Z.
Proof. vm_compute. repeat split. Qed.
