(* ====================================================================== *)
(*  Lle_Spec.v — what property C08 names, against the mathematical object  *)
(*                                                                         *)
(*  Generic part (any field):                                              *)
(*    sel nb              N x k selection matrix S_i, S(r,a) = [r = nb a]  *)
(*    lle_W k nbr W       the N x N reconstruction-weight matrix           *)
(*    lle_M_spec          (I - W)^T (I - W) + shift I                      *)
(*    lle_C, lle_C_reg    local Gram of sample i and its trace-regularised *)
(*                        version  C + trace_shift * tr(C) * I             *)
(*    ltsa_M_spec         sum_i S_i (I - P_i) S_i^T + shift I              *)
(*    hlle_M_spec         sum_i S_i P_i S_i^T                              *)
(*    eig_contract        contract of SelfAdjointEigenSolver (oracle)      *)
(*    orthonormal_cols, centred_cols, cost (= tr(Y^T M Y)), eigpairs       *)
(*  Qc part (decision procedures run on the implementation's outputs):     *)
(*    within_b, embedding_ok_b, eig_contract_b, const_vector_b, msym_b     *)
(* ====================================================================== *)
Require Import Arith Lia List Bool ZArith QArith Qcanon.
From TK Require Import Mat_Sums Mat_Core Mat_Qc.
Import ListNotations.
Close Scope Qc_scope.
Close Scope Q_scope.
Close Scope Z_scope.

Section LleSpec.
  Context {F : Type} {Fo : FieldOps F}.
  Local Open Scope F_scope.
  Local Notation vec := (Mat_Core.vec F).
  Local Notation mat := (Mat_Core.mat F).

  Definition sel (nb : nat -> nat) : mat := fun r a => delta r (nb a).

  (* W(i,c) = sum of the weights of those slots of sample i that hold neighbour c *)
  Definition lle_W (k : nat) (nbr : nat -> nat -> nat) (W : mat) : mat :=
    fun i c => sumn k (fun a => if Nat.eqb (nbr i a) c then W i a else 0).

  Definition lle_M_spec (N k : nat) (nbr : nat -> nat -> nat) (W : mat) (shift : F) : mat :=
    let IW := msub mI (lle_W k nbr W) in
    fun r c => mmul N (mtrans IW) IW r c + shift * delta r c.

  (* local Gram of sample i in feature space: <phi(n_a) - phi(i), phi(n_b) - phi(i)> *)
  Definition lle_C (kern : mat) (nb : nat -> nat) (i : nat) : mat :=
    fun a b => kern i i - kern i (nb a) - kern i (nb b) + kern (nb a) (nb b).

  Definition lle_C_reg (k : nat) (kern : mat) (ts : F) (nb : nat -> nat) (i : nat) : mat :=
    fun a b => lle_C kern nb i a b
               + (if Nat.eqb a b then ts * sumn k (fun t => lle_C kern nb i t t) else 0).

  (* S A S^T *)
  Definition local_term (k : nat) (S A : mat) : mat :=
    mmul k (mmul k S A) (mtrans S).

  Definition ltsa_M_spec (N k : nat) (nbr : nat -> nat -> nat) (P : nat -> mat) (shift : F) : mat :=
    fun r c => sumn N (fun i => local_term k (sel (nbr i)) (msub mI (P i)) r c) + shift * delta r c.

  Definition hlle_M_spec (N k : nat) (nbr : nat -> nat -> nat) (P : nat -> mat) : mat :=
    fun r c => sumn N (fun i => local_term k (sel (nbr i)) (P i) r c).

  (* Gram of the neighbourhood, centred: J K_loc J *)
  Definition local_JKJ (k : nat) (kern : mat) (nb : nat -> nat) : mat :=
    double_center k (fun a b => kern (nb a) (nb b)).

  (* SelfAdjointEigenSolver(B): orthonormal eigenvectors (columns of E) with eigenvalues lam *)
  Definition eig_contract (k : nat) (B E : mat) (lam : vec) : Prop :=
    meq k k (mmul k (mtrans E) E) mI /\
    meq k k (mmul k B E) (mmul k E (mdiag lam)).

  Definition orthonormal_cols (N d : nat) (Y : mat) : Prop :=
    meq d d (mmul N (mtrans Y) Y) mI.

  Definition centred_cols (N d : nat) (Y : mat) : Prop :=
    forall c, c < d -> sumn N (fun i => Y i c) = 0.

  (* tr(Y^T M Y) *)
  Definition cost (N d : nat) (M Y : mat) : F :=
    sumn d (fun c => dot N (mcol Y c) (mv N M (mcol Y c))).

  Definition const_vector (N : nat) (M : mat) (mu : F) : Prop :=
    forall r, r < N -> mv N M (fun _ => 1) r = mu.

  (* y is an affine function of the coordinates X (N x d) *)
  Definition affine_in (N d : nat) (X : mat) (y : vec) : Prop :=
    exists (a : F) (b : vec), forall i, i < N -> y i = a + sumn d (fun t => X i t * b t).
End LleSpec.

(* ---------------------------------------------------------------------- *)
(*  "k from the minimum the method needs" (quantifier of C08): the number  *)
(*  of neighbours below which the local problem of the method is not       *)
(*  defined.  KLLE: one neighbour (the API asks for 3).  KLTSA: d non-zero *)
(*  eigenvalues of a centred k x k Gram matrix (rank <= k-1) need          *)
(*  k >= d + 1.  HLLE: the local Hessian estimator has 1 + d + d(d+1)/2    *)
(*  columns, which must be linearly independent vectors of length k        *)
(*  (Properties_C08.C08_hlle_small_k_refuted shows what happens below).    *)
(*  The library itself only checks 3 <= k < N and d <= k.                  *)
(* ---------------------------------------------------------------------- *)
Definition lle_min_k : nat := 1.
Definition ltsa_min_k (d : nat) : nat := d + 1.
Definition hlle_min_k (d : nat) : nat := 1 + d + d * (d + 1) / 2.

(* ---------------------------------------------------------------------- *)
(*  Decision procedures over Qc (run on rational images of the doubles     *)
(*  the implementation returned; `tol` is the declared tolerance)          *)
(* ---------------------------------------------------------------------- *)
Definition qleb (x y : Qc) : bool := Qle_bool (this x) (this y).
Definition qabs (x : Qc) : Qc := if qleb (Q2Qc 0) x then x else (- x)%Qc.
Definition close_b (tol x y : Qc) : bool := qleb (qabs (x - y)%Qc) tol.

Definition within_b (n m : nat) (tol : Qc) (A B : Mat_Core.mat Qc) : bool :=
  forallb (fun i => forallb (fun j => close_b tol (A i j) (B i j)) (seq 0 m)) (seq 0 n).

Definition msym_b (n : nat) (tol : Qc) (A : Mat_Core.mat Qc) : bool :=
  within_b n n tol A (mtrans A).

(* M 1 = mu 1 within tol *)
Definition const_vector_b (N : nat) (tol : Qc) (M : Mat_Core.mat Qc) (mu : Qc) : bool :=
  forallb (fun r => close_b tol (mv N M (fun _ => 1%F) r) mu) (seq 0 N).

(* the oracle contract, checked on what the solver returned *)
Definition eig_contract_b (k : nat) (tol : Qc) (B E : Mat_Core.mat Qc) (lam : Mat_Core.vec Qc) : bool :=
  within_b k k tol (mmul k (mtrans E) E) mI &&
  within_b k k tol (mmul k B E) (mmul k E (mdiag lam)).

(* the embedding clause of C08 on a returned Y (N x d) against the model matrix M:
   orthonormal columns, cost within tol of `opt` (= sum of the d smallest non-trivial
   reference eigenvalues), and — when `need_centred` — columns summing to zero *)
Definition embedding_ok_b (N d : nat) (tol : Qc) (M Y : Mat_Core.mat Qc) (opt : Qc)
           (need_centred : bool) : bool :=
  within_b d d tol (mmul N (mtrans Y) Y) mI &&
  qleb (cost N d M Y) (opt + tol)%Qc &&
  (if need_centred
   then forallb (fun c => close_b tol (sumn N (fun i => Y i c)) (Q2Qc 0)) (seq 0 d)
   else true).

(* which clause fails (for diagnostics): 0 ok, 1 orthonormality, 2 cost, 3 centring *)
Definition embedding_verdict (N d : nat) (tol : Qc) (M Y : Mat_Core.mat Qc) (opt : Qc)
           (need_centred : bool) : nat :=
  if negb (within_b d d tol (mmul N (mtrans Y) Y) mI) then 1
  else if negb (qleb (cost N d M Y) (opt + tol)%Qc) then 2
  else if (need_centred &&
           negb (forallb (fun c => close_b tol (sumn N (fun i => Y i c)) (Q2Qc 0)) (seq 0 d)))%bool
       then 3 else 0.
