(* ====================================================================== *)
(*  Landmark_Proof_Scale.v — Landmark MDS is homogeneous in the data       *)
(*  (wave 2; the theorem that an ABSOLUTE null-eigenvalue threshold in     *)
(*  triangulate falsifies, seeded change C11_1).                           *)
(*                                                                         *)
(*  1. over any field: if the data (the callback table) is multiplied by   *)
(*     t <> 0, the solver's eigenvalues by t^2, the sqrt values by t and   *)
(*     the outcome of triangulate's null-eigenvalue comparison is the same *)
(*     on every selected column, then EVERY row of the embedding is        *)
(*     multiplied by t (lmds_scale_equivariant_lemma).                     *)
(*  2. over Qc (ordered): the comparison of the shipped code (7bdf733),    *)
(*         second(i) > second.cwiseAbs().maxCoeff() * n_landmarks * eps,   *)
(*     is modelled by keep_rel; it is invariant under lam -> k*lam, k > 0  *)
(*     (keep_rel_scale) and a kept eigenvalue is non-zero, hence 1. applies*)
(*     to the code with its own threshold (lmds_relative_threshold_...).   *)
(*  3. the variant  second(i) > tau  (tau a constant, e.g. Eigen's         *)
(*     dummy_precision 1e-12) is modelled by keep_abs and REFUTED: the     *)
(*     1-D example of Landmark_Proof_Examples scaled by 10^-8 puts the     *)
(*     non-landmark samples on the origin.                                 *)
(* ====================================================================== *)
Require Import Field Ring Arith Lia List Bool ZArith QArith Qcanon.
Require String.
From TK Require Import Mat_Sums Mat_Core Mat_Qc Landmark_Model Landmark_Spec
                       Landmark_Proof_Trace Landmark_Proof_Euclid Landmark_Proof_Main
                       Landmark_Proof_Examples.
Import ListNotations.
Local Open Scope nat_scope.

Section Scale.
  Context {F : Type} {Fo : FieldOps F} {Ff : IsField F}.
  Add Field LandmarkScaleField : (@Fth F Fo Ff).
  Local Open Scope F_scope.

  Definition sc_mat (t : F) (A : mat F) : mat F := fun i j => t * A i j.
  Definition sc_vec (t : F) (v : vec F) : vec F := fun c => t * v c.

  Lemma landmark_dist_sq_scale t lm dist i j :
    landmark_dist_sq lm (sc_mat t dist) i j = t * t * landmark_dist_sq lm dist i j.
  Proof. unfold landmark_dist_sq, sc_mat. destruct (Nat.leb i j); ring. Qed.

  Lemma landmark_mu_scale t L lm dist c :
    landmark_mu L (landmark_dist_sq lm (sc_mat t dist)) c =
    t * t * landmark_mu L (landmark_dist_sq lm dist) c.
  Proof.
    unfold landmark_mu, colmean, colsum.
    rewrite (sumn_ext L _ (fun i => t * t * landmark_dist_sq lm dist i c)).
    2:{ intros i _. apply landmark_dist_sq_scale. }
    rewrite sumn_mul_l, !fdiv_def. ring.
  Qed.

  (* the triangulation formula is homogeneous of degree 1 where the eigenvalue is not zero *)
  Lemma tri_spec_row_scale t L lm dist (mu mu' : vec F) (YL YL' : mat F) (lam lam' : vec F) x c :
    t <> 0 -> lam c <> 0 ->
    (forall k, mu' k = t * t * mu k) ->
    (forall k, YL' k c = t * YL k c) ->
    lam' c = t * t * lam c ->
    tri_spec_row L lm (sc_mat t dist) mu' YL' lam' x c = t * tri_spec_row L lm dist mu YL lam x c.
  Proof.
    intros Ht Hl Hmu HY Hlam. unfold tri_spec_row, sc_mat. rewrite Hlam.
    rewrite (sumn_ext L _ (fun k => t * t * t *
               (YL k c * (dist x (lmk lm k) * dist x (lmk lm k) - mu k)))).
    2:{ intros k _. rewrite Hmu, HY. ring. }
    rewrite sumn_mul_l. field. split; assumption.
  Qed.

  (* keep' / keep: the outcomes of the null-eigenvalue comparison in the scaled / unscaled run *)
  Theorem lmds_scale_equivariant_lemma N d (keep keep' : nat -> bool) lm dist W w s ws (t : F) :
    NoDup lm -> t <> 0 ->
    (forall c, (c < d)%nat -> keep' c = keep c) ->
    (forall c, (c < d)%nat -> keep c = true -> sel_vals (length lm) d w c <> 0) ->
    lmds_embed N d keep lm dist W w s = LOk ws ->
    exists ws',
      lmds_embed N d keep' lm (sc_mat t dist) W (sc_vec (t * t) w) (sc_vec t s) = LOk ws' /\
      forall x, (x < N)%nat ->
        exists v v', last_write ws x = Some v /\ last_write ws' x = Some v' /\
                     forall c, (c < d)%nat -> v' c = t * v c.
  Proof.
    intros Hnd Ht Hk Hnz H.
    destruct (lmds_embed_inv _ _ _ _ _ _ _ _ _ H) as [Hf [Hd Htri]].
    destruct (lmds_embed_total N d keep' lm (sc_mat t dist) W (sc_vec (t * t) w) (sc_vec t s) Hf Hd)
      as [ws' H'].
    exists ws'. split; [exact H'|].
    destruct (lmds_embed_inv _ _ _ _ _ _ _ _ _ H') as [_ [_ Htri']].
    intros x Hx. destruct (in_dec Nat.eq_dec x lm) as [Hin|Hnin].
    - (* a landmark row: the scaled eigenvector row *)
      destruct (In_nth lm x 0%nat Hin) as [i [Hi Hxi]].
      destruct (triangulate_trace _ _ _ _ _ _ _ _ _ Hnd Htri) as [_ [_ [Hl _]]].
      destruct (triangulate_trace _ _ _ _ _ _ _ _ _ Hnd Htri') as [_ [_ [Hl' _]]].
      specialize (Hl i Hi). specialize (Hl' i Hi). unfold lmk in Hl, Hl'. rewrite Hxi in Hl, Hl'.
      eexists. eexists. split; [exact Hl|]. split; [exact Hl'|].
      intros c _. unfold mrow, lmds_E. cbn [er_first]. unfold scale_by, sc_vec. ring.
    - destruct (lmds_triangulates_lemma _ _ _ _ _ _ _ _ _ Hnd H) as [_ [_ H4]].
      destruct (lmds_triangulates_lemma _ _ _ _ _ _ _ _ _ Hnd H') as [_ [_ H4']].
      destruct (H4 x Hx Hnin) as [v [Hv Hvc]]. destruct (H4' x Hx Hnin) as [v' [Hv' Hvc']].
      exists v, v'. split; [exact Hv|]. split; [exact Hv'|].
      intros c Hc. rewrite (Hvc' c Hc), (Hvc c Hc), (Hk c Hc).
      destruct (keep c) eqn:Ek.
      + apply tri_spec_row_scale.
        * exact Ht.
        * apply Hnz; assumption.
        * intros k. apply landmark_mu_scale.
        * intros k. unfold scale_by, sc_vec. ring.
        * unfold sel_vals, sc_vec. reflexivity.
      + ring.
  Qed.

  (* ---------------- Landmark Isomap, dense branch ---------------- *)
  Lemma lisomap_matrix_scale t L N G i j :
    lisomap_matrix L N (sc_mat t G) i j = t * t * lisomap_matrix L N G i j.
  Proof.
    unfold lisomap_matrix, grandmean, rowmean, colmean, totsum, rowsum, colsum, sc_mat.
    rewrite (sumn_ext L (fun a => sumn N (fun b => t * G a b * (t * G a b)))
                        (fun a => t * t * sumn N (fun b => G a b * G a b))).
    2:{ intros a _. rewrite <- sumn_mul_l. apply sumn_ext. intros b _. ring. }
    rewrite (sumn_ext N (fun b => t * G i b * (t * G i b)) (fun b => t * t * (G i b * G i b))).
    2:{ intros b _. ring. }
    rewrite (sumn_ext L (fun a => t * G a j * (t * G a j)) (fun a => t * t * (G a j * G a j))).
    2:{ intros a _. ring. }
    rewrite !sumn_mul_l, !fdiv_def. ring.
  Qed.

  (* geodesics multiplied by t (eigenvalues of B B^T by t^4, their fourth roots by t): every
     coordinate is multiplied by t *)
  Theorem lisomap_scale_equivariant_lemma N L d (G W : mat F) (w q : vec F) (Y : mat F) (t : F) :
    t <> 0 -> (forall c, (c < d)%nat -> q c <> 0) ->
    lisomap_embed N L d G W w q = LOk Y ->
    exists Y', lisomap_embed N L d (sc_mat t G) W (sc_vec (t * t * t * t) w) (sc_vec t q) = LOk Y' /\
               forall j c, (c < d)%nat -> Y' j c = t * Y j c.
  Proof.
    intros Ht Hq H. unfold lisomap_embed, select_largest in *.
    destruct (Nat.leb d L); [|discriminate]. injection H as H. subst Y.
    eexists. split; [reflexivity|]. intros j c Hc. cbv beta.
    rewrite (sumn_ext L _ (fun k => t * t * (lisomap_matrix L N G k j * W k (L - d + c)%nat))).
    2:{ intros k _. rewrite lisomap_matrix_scale. ring. }
    rewrite sumn_mul_l. unfold sc_vec. field. split; [apply Hq; assumption|assumption].
  Qed.
End Scale.

(* ---------------------------------------------------------------------- *)
(* the comparison itself, over the ordered field Qc                        *)
Local Open Scope Qc_scope.

Definition qlt_b (x y : Qc) : bool := negb (lm_qleb y x).          (* x < y *)
Definition qmax (x y : Qc) : Qc := if lm_qleb x y then y else x.

(* second.cwiseAbs().maxCoeff() over the d retained eigenvalues *)
Fixpoint maxabs (d : nat) (lam : vec Qc) : Qc :=
  match d with
  | O => Q2Qc 0
  | S k => qmax (maxabs k lam) (lm_qabs (lam k))
  end.

(* triangulate since 7bdf733:  second(c) > maxabs * n_landmarks * epsilon   (eps: any constant) *)
Definition keep_rel (L d : nat) (eps : Qc) (lam : vec Qc) (c : nat) : bool :=
  qlt_b (maxabs d lam * @of_nat Qc QcOps L * eps) (lam c).

(* the variant with a constant threshold (seeded change C11_1: Eigen's dummy_precision) *)
Definition keep_abs (tau : Qc) (lam : vec Qc) (c : nat) : bool := qlt_b tau (lam c).

Lemma lm_qleb_le x y : lm_qleb x y = true <-> x <= y.
Proof.
  unfold lm_qleb, Qcle. rewrite Qle_alt. change (x ?= y) with (this x ?= this y)%Q.
  destruct (this x ?= this y)%Q; split; intros H; try reflexivity; try discriminate;
    try (intros H'; discriminate). exfalso. apply H. reflexivity.
Qed.

Lemma lm_qleb_gt x y : lm_qleb x y = false <-> y < x.
Proof.
  split; intros H.
  - apply Qcnot_le_lt. intros Hle. apply lm_qleb_le in Hle. rewrite Hle in H. discriminate.
  - destruct (lm_qleb x y) eqn:E; [|reflexivity]. apply lm_qleb_le in E.
    exfalso. exact (Qclt_not_le _ _ H E).
Qed.

Lemma lm_qleb_scale k x y : 0 < k -> lm_qleb (k * x) (k * y) = lm_qleb x y.
Proof.
  intros Hk. destruct (Qclt_le_dec y x) as [Hlt|Hle].
  - rewrite (proj2 (lm_qleb_gt x y) Hlt). apply lm_qleb_gt.
    rewrite (Qcmult_comm k y), (Qcmult_comm k x). apply Qcmult_lt_compat_r; assumption.
  - rewrite (proj2 (lm_qleb_le x y) Hle). apply lm_qleb_le.
    rewrite (Qcmult_comm k y), (Qcmult_comm k x). apply Qcmult_le_compat_r; [assumption|].
    apply Qclt_le_weak. assumption.
Qed.

Lemma lm_qabs_scale k x : 0 < k -> lm_qabs (k * x) = k * lm_qabs x.
Proof.
  intros Hk. unfold lm_qabs. change (Q2Qc 0) with 0.
  replace 0 with (k * 0) at 1 by ring. rewrite lm_qleb_scale by assumption.
  destruct (lm_qleb 0 x); ring.
Qed.

Lemma qmax_scale k x y : 0 < k -> qmax (k * x) (k * y) = k * qmax x y.
Proof.
  intros Hk. unfold qmax. rewrite lm_qleb_scale by assumption. destruct (lm_qleb x y); reflexivity.
Qed.

Lemma maxabs_scale k d lam : 0 < k -> maxabs d (fun c => k * lam c) = k * maxabs d lam.
Proof.
  intros Hk. induction d as [|d IH]; cbn [maxabs].
  - change (Q2Qc 0) with 0. ring.
  - rewrite IH, lm_qabs_scale by assumption. apply qmax_scale. assumption.
Qed.

Lemma lm_qabs_nonneg x : 0 <= lm_qabs x.
Proof.
  unfold lm_qabs. change (Q2Qc 0) with 0. destruct (lm_qleb 0 x) eqn:E.
  - apply lm_qleb_le. assumption.
  - apply lm_qleb_gt in E. apply Qclt_le_weak in E.
    replace 0 with (- 0) by ring. apply Qcopp_le_compat. assumption.
Qed.

Lemma maxabs_nonneg d lam : 0 <= maxabs d lam.
Proof.
  destruct d as [|d]; cbn [maxabs].
  - change (Q2Qc 0) with 0. apply Qcle_refl.
  - unfold qmax. destruct (lm_qleb (maxabs d lam) (lm_qabs (lam d))) eqn:E.
    + apply lm_qabs_nonneg.
    + apply lm_qleb_gt in E. apply Qclt_le_weak.
      apply Qcle_lt_trans with (lm_qabs (lam d)); [apply lm_qabs_nonneg|assumption].
Qed.

Lemma Qc_of_nat_nonneg n : 0 <= @of_nat Qc QcOps n.
Proof.
  induction n as [|n IH]; cbn [of_nat].
  - apply Qcle_refl.
  - change (@fadd Qc QcOps) with Qcplus. change (@fone Qc QcOps) with 1.
    replace 0 with (0 + 0) by ring. apply Qcplus_le_compat; [exact IH|]. discriminate.
Qed.

Lemma Qcmult_nonneg x y : 0 <= x -> 0 <= y -> 0 <= x * y.
Proof.
  intros Hx Hy. replace 0 with (0 * y) by ring. apply Qcmult_le_compat_r; assumption.
Qed.

(* the relative comparison does not depend on the scale of the eigenvalues *)
Theorem keep_rel_scale_lemma L d eps lam k c :
  0 < k -> keep_rel L d eps (fun j => k * lam j) c = keep_rel L d eps lam c.
Proof.
  intros Hk. unfold keep_rel, qlt_b. rewrite maxabs_scale by assumption.
  replace (k * maxabs d lam * @of_nat Qc QcOps L * eps)
    with (k * (maxabs d lam * @of_nat Qc QcOps L * eps)) by ring.
  rewrite lm_qleb_scale by assumption. reflexivity.
Qed.

(* a kept eigenvalue is positive, in particular not zero: the division is defined *)
Lemma keep_rel_nonzero L d eps lam c : 0 <= eps -> keep_rel L d eps lam c = true -> lam c <> 0.
Proof.
  intros He H. unfold keep_rel, qlt_b in H. apply negb_true_iff in H. apply lm_qleb_gt in H.
  assert (Hth : 0 <= maxabs d lam * @of_nat Qc QcOps L * eps).
  { apply Qcmult_nonneg; [apply Qcmult_nonneg|assumption];
      [apply maxabs_nonneg|apply Qc_of_nat_nonneg]. }
  intros E. rewrite E in H. exact (Qcle_not_lt _ _ Hth H).
Qed.

Lemma Qc_square_pos t : 0 < t -> 0 < t * t.
Proof. intros Ht. replace 0 with (0 * t) by ring. apply Qcmult_lt_compat_r; assumption. Qed.

(* Landmark MDS with the shipped threshold: multiplying the data by t > 0 multiplies every row of
   the embedding by t.  The eigenvalues / sqrt values of the scaled run are those of the scaled
   matrix (t^2 lam, t s: if (W, w, s) meets the solver contract for the data then (W, t^2 w, t s)
   meets it for the scaled data), the comparison is re-evaluated on the scaled eigenvalues. *)
Theorem lmds_relative_threshold_scale_equivariant_lemma
    N d (eps : Qc) lm (dist W : mat Qc) (w s : vec Qc) ws (t : Qc) :
  NoDup lm -> 0 < t -> 0 <= eps ->
  let L := length lm in
  lmds_embed N d (keep_rel L d eps (sel_vals L d w)) lm dist W w s = LOk ws ->
  exists ws',
    lmds_embed N d (keep_rel L d eps (sel_vals L d (sc_vec (t * t) w))) lm
               (sc_mat t dist) W (sc_vec (t * t) w) (sc_vec t s) = LOk ws' /\
    forall x, (x < N)%nat ->
      exists v v', last_write ws x = Some v /\ last_write ws' x = Some v' /\
                   forall c, (c < d)%nat -> v' c = t * v c.
Proof.
  intros Hnd Ht He L H.
  pose proof (@lmds_scale_equivariant_lemma Qc QcOps QcField N d
                (keep_rel L d eps (sel_vals L d w))
                (keep_rel L d eps (sel_vals L d (sc_vec (t * t) w)))
                lm dist W w s ws t Hnd) as P.
  assert (Ht0 : t <> 0).
  { intros E. rewrite E in Ht. exact (Qclt_not_eq _ _ Ht eq_refl). }
  assert (Hk : forall c, (c < d)%nat ->
             keep_rel L d eps (sel_vals L d (sc_vec (t * t) w)) c = keep_rel L d eps (sel_vals L d w) c).
  { intros c _.
    exact (keep_rel_scale_lemma L d eps (fun j => w (L - d + j)%nat) (t * t) c (Qc_square_pos t Ht)). }
  assert (Hnz : forall c, (c < d)%nat -> keep_rel L d eps (sel_vals L d w) c = true ->
                          sel_vals L d w c <> 0).
  { intros c _ Hkc. exact (keep_rel_nonzero L d eps _ c He Hkc). }
  exact (P Ht0 Hk Hnz H).
Qed.

(* ---------------------------------------------------------------------- *)
(* refutation for a constant threshold tau = 10^-12: the example of Landmark_Proof_Examples
   (x = 7,-7,1,-1,3,0; landmarks 0..3; eigenvalue 100) at scale t = 10^-8: eigenvalue 10^-14 *)
Definition sx_tau : Qc := qfrac 1 1000000000000.
Definition sx_t : Qc := qfrac 1 100000000.
Definition sx_keep (w : vec Qc) : nat -> bool := keep_abs sx_tau (sel_vals 4 1 w).
Definition sx_run := lmds_embed 6 1 (sx_keep ex_w) ex_lm ex_dist ex_W ex_w ex_s.
Definition sx_run_scaled :=
  lmds_embed 6 1 (sx_keep (sc_vec (sx_t * sx_t) ex_w)) ex_lm (sc_mat sx_t ex_dist) ex_W
             (sc_vec (sx_t * sx_t) ex_w) (sc_vec sx_t ex_s).
Definition sx_row4 (r : lres (list (nat * vec Qc))) : option Q :=
  match r with
  | LOk ws => option_map (fun v => this (v 0%nat)) (last_write ws 4%nat)
  | LOOB _ _ _ => None
  end.

(* sample 4 (x = 3, not a landmark): coordinate 3 at unit scale, 0 (not 3 * 10^-8) on the scaled copy *)
Lemma sx_rows : sx_row4 sx_run = Some (3 # 1)%Q /\ sx_row4 sx_run_scaled = Some (0 # 1)%Q.
Proof. split; vm_compute; reflexivity. Qed.

Theorem lmds_absolute_threshold_scale_refuted_lemma :
  exists (N d : nat) (lm : list nat) (dist W : mat Qc) (w s : vec Qc) (t tau : Qc) ws ws',
    NoDup lm /\ 0 < t /\
    lmds_embed N d (keep_abs tau (sel_vals (length lm) d w)) lm dist W w s = LOk ws /\
    lmds_embed N d (keep_abs tau (sel_vals (length lm) d (sc_vec (t * t) w))) lm
               (sc_mat t dist) W (sc_vec (t * t) w) (sc_vec t s) = LOk ws' /\
    exists x c v v', (x < N)%nat /\ (c < d)%nat /\
      last_write ws x = Some v /\ last_write ws' x = Some v' /\ v' c <> t * v c.
Proof.
  destruct sx_rows as [H1 H2]. unfold sx_row4 in H1, H2.
  destruct sx_run as [ws|] eqn:E1; [|discriminate].
  destruct sx_run_scaled as [ws'|] eqn:E2; [|discriminate].
  destruct (last_write ws 4%nat) as [v|] eqn:Ev; [|discriminate].
  destruct (last_write ws' 4%nat) as [v'|] eqn:Ev'; [|discriminate].
  cbn [option_map] in H1, H2. injection H1 as H1. injection H2 as H2.
  exists 6%nat, 1%nat, ex_lm, ex_dist, ex_W, ex_w, ex_s, sx_t, sx_tau, ws, ws'.
  split; [repeat constructor; cbn; intuition lia|].
  split; [reflexivity|]. split; [exact E1|]. split; [exact E2|].
  exists 4%nat, 0%nat, v, v'. split; [lia|]. split; [lia|]. split; [exact Ev|]. split; [exact Ev'|].
  intros E. apply (f_equal this) in E. rewrite H2 in E.
  assert (Hv : v 0%nat = qz 3). { apply Qc_is_canon. rewrite H1. reflexivity. }
  rewrite Hv in E. vm_compute in E. discriminate.
Qed.

(* ---------------------------------------------------------------------- *)
(* non-vacuity: the hypotheses of the scale theorems are satisfiable *)
Definition sx_eps : Qc := qfrac 1 4503599627370496.          (* 2^-52 *)

Example lmds_scale_equivariant_nonvacuous :
  NoDup ex_lm /\ qz 2 <> 0 /\
  (forall c, (c < 1)%nat -> keep_all c = true -> sel_vals (length ex_lm) 1 ex_w c <> 0) /\
  lmds_embed 6 1 keep_all ex_lm ex_dist ex_W ex_w ex_s = LOk ex_ws.
Proof.
  split; [repeat constructor; cbn; intuition lia|].
  split; [intros H; apply (f_equal this) in H; vm_compute in H; discriminate|].
  split; [|exact ex_run_ok].
  intros c Hc _. assert (c = 0)%nat by lia. subst c.
  intros H. apply (f_equal this) in H. vm_compute in H. discriminate.
Qed.

(* with the shipped (relative) threshold the same scaled copy that refutes the constant threshold
   is embedded at 10^-8 times the unit-scale coordinates: sample 4 at 3 * 10^-8 *)
Example lmds_relative_threshold_nonvacuous :
  NoDup ex_lm /\ 0 < sx_t /\ 0 <= sx_eps /\
  (exists ws, lmds_embed 6 1 (keep_rel (length ex_lm) 1 sx_eps (sel_vals (length ex_lm) 1 ex_w))
                         ex_lm ex_dist ex_W ex_w ex_s = LOk ws) /\
  sx_row4 (lmds_embed 6 1 (keep_rel 4 1 sx_eps (sel_vals 4 1 (sc_vec (sx_t * sx_t) ex_w))) ex_lm
                      (sc_mat sx_t ex_dist) ex_W (sc_vec (sx_t * sx_t) ex_w) (sc_vec sx_t ex_s))
  = Some (3 # 100000000)%Q.
Proof.
  split; [repeat constructor; cbn; intuition lia|].
  split; [reflexivity|]. split; [discriminate|].
  split; [apply lmds_embed_total; [repeat constructor|cbn; lia]|].
  vm_compute. reflexivity.
Qed.

Example lisomap_scale_equivariant_nonvacuous :
  qz 2 <> 0 /\ (forall c, (c < 1)%nat -> ex_s c <> 0) /\
  exists Y, lisomap_embed 4 4 1 ex4_G ex4_W ex4_w2 ex_s = LOk Y.
Proof.
  split; [intros H; apply (f_equal this) in H; vm_compute in H; discriminate|].
  split; [intros c _ H; apply (f_equal this) in H; vm_compute in H; discriminate|].
  eexists. reflexivity.
Qed.
