(* ====================================================================== *)
(*  Mds_Proof_Solver.v — C05: what the solver front-ends see, the         *)
(*  table-driven selection inside the executable model, and the algebra    *)
(*  of the randomized (range finder + small eigenproblem) front-end.       *)
(* ====================================================================== *)
Require Import Field Ring Arith Lia List Bool.
From TK Require Import Mat_Sums Mat_Core Mat_EigSelect EigSelect Mat_EigSelect_Tie
                       Mds_Model Mds_Spec Mds_Proof.
Import ListNotations.

Section MdsSolver.
  Context {F : Type} {Fo : FieldOps F} {Ff : IsField F}.
  Add Field MdsSolverField : (@Fth F Fo Ff).
  Local Open Scope F_scope.

  (* ---------------- symmetry of what is handed over ---------------- *)
  Lemma mds_matrix_msym n (dist : mat F) : msym n (mds_matrix n dist).
  Proof.
    intros i j Hi Hj. unfold mds_matrix.
    rewrite (center_matrix_msym n _ (dist_sq_matrix_sym n dist) i j Hi Hj). reflexivity.
  Qed.

  Lemma kpca_matrix_msym n (kern : mat F) : msym n (kpca_matrix n kern).
  Proof.
    unfold kpca_matrix. apply center_matrix_msym. apply kernel_matrix_sym.
  Qed.

  Lemma seen_dense_of_sym n (M : mat F) :
    two <> 0 -> msym n M -> meq n n (seen_dense M) M.
  Proof.
    intros H2 HM. unfold seen_dense.
    eapply meq_trans.
    - apply read_lower_of_sym. apply sym_avg_sym.
    - apply sym_avg_of_sym; assumption.
  Qed.

  Lemma seen_randomized_of_sym n (M : mat F) : msym n M -> meq n n (seen_randomized M) M.
  Proof. intros HM. unfold seen_randomized. apply read_upper_of_sym. assumption. Qed.

  (* both front-ends see exactly -1/2 J D2 J (resp. J K J): nothing is lost to a triangle *)
  Theorem solver_sees_mds n (dist : mat F) :
    of_nat n <> 0 -> two <> 0 ->
    meq n n (seen_dense (mds_matrix n dist))
            (mscale neg_half (double_center n (dist_sq_matrix dist))) /\
    meq n n (seen_randomized (mds_matrix n dist))
            (mscale neg_half (double_center n (dist_sq_matrix dist))).
  Proof.
    intros Hn H2. split.
    - eapply meq_trans; [apply seen_dense_of_sym; [assumption|apply mds_matrix_msym]|].
      apply mds_matrix_is_JD2J. assumption.
    - eapply meq_trans; [apply seen_randomized_of_sym; apply mds_matrix_msym|].
      apply mds_matrix_is_JD2J. assumption.
  Qed.

  Theorem solver_sees_kpca n (kern : mat F) :
    of_nat n <> 0 -> two <> 0 ->
    meq n n (seen_dense (kpca_matrix n kern)) (double_center n (kernel_matrix kern)) /\
    meq n n (seen_randomized (kpca_matrix n kern)) (double_center n (kernel_matrix kern)).
  Proof.
    intros Hn H2. split.
    - eapply meq_trans; [apply seen_dense_of_sym; [assumption|apply kpca_matrix_msym]|].
      apply kpca_matrix_is_JKJ. assumption.
    - eapply meq_trans; [apply seen_randomized_of_sym; apply kpca_matrix_msym|].
      apply kpca_matrix_is_JKJ. assumption.
  Qed.

  (* ---------------- sqrt scaling with an arbitrary radicand ----------------
     The methods scale column c by sqrt(max(lambda_c, 0)).  Whatever the radicand mu_c
     (mu = lambda: the code before fixes/F35; mu = max(lambda, 0): after it), from ANY
     solver answer meeting the contract:
       Y^T Y = diag(mu),  B Y = Y diag(lambda)  (each column IS an eigenvector or zero),
       Y Y^T = Vs diag(mu) Vs^T. *)
  Theorem sqrt_scaling_gen n d (B Vs : mat F) (lam mu s : vec F) :
    eig_contract n d B Vs lam ->
    (forall c, c < d -> s c * s c = mu c) ->
    let Y := scale_cols Vs s in
    meq d d (mmul n (mtrans Y) Y) (mdiag mu) /\
    meq n d (mmul n B Y) (mmul d Y (mdiag lam)) /\
    (forall i j, mmul d Y (mtrans Y) i j =
                 mmul d (mmul d Vs (mdiag mu)) (mtrans Vs) i j).
  Proof.
    intros [Horth Heig] Hs Y. split; [|split].
    - intros a b Ha Hb. unfold Y. rewrite (scale_cols_gram n).
      rewrite (Horth a b Ha Hb). unfold mI, mdiag, delta.
      destruct (Nat.eqb a b) eqn:E.
      + apply Nat.eqb_eq in E. subst b. rewrite <- (Hs a Ha). ring.
      + ring.
    - intros i c Hi Hc. rewrite mmul_diag_r by assumption.
      unfold Y, scale_cols.
      transitivity (s c * mmul n B Vs i c).
      { unfold mmul. rewrite <- sumn_mul_l. apply sumn_ext. intros; ring. }
      rewrite (Heig i c Hi Hc). rewrite mmul_diag_r by assumption. ring.
    - intros i j. unfold mmul at 1 2. apply sumn_ext. intros c Hc.
      rewrite mmul_diag_r by assumption. unfold Y, scale_cols, mtrans.
      rewrite <- (Hs c Hc). ring.
  Qed.

  (* ---------------- the executable post-processing, driven by the generated table -------- *)
  (* For EVERY `largest` site of the table whose base object is the full N x N answer (the
     dense front-ends): the model's embedding is the last d columns scaled by the sqrt
     answers for the last d eigenvalues, and the eigenvalues read are the last d. *)
  Theorem embed_exec_largest (b : branch) N d (V : list (list F)) (lam sall : list F) :
    In b eig_table -> b_largest b = true -> b_base b = BaseN -> d <= N ->
    embed_exec b N d 0 V lam sall =
      Some (mtab N d (scale_cols (select_cols N (mof V) ((N - d)%nat, d))
                                 (select_vals (vof sall) ((N - d)%nat, d)))) /\
    embed_vals_exec b N d 0 lam = Some (vtab d (select_vals (vof lam) ((N - d)%nat, d))).
  Proof.
    intros Hb Hl HB Hd.
    destruct (select_largest b Hb Hl N d Hd) as [Hc [Hv _]].
    unfold embed_exec, embed_vals_exec. rewrite HB in *. cbn [base_eval] in *.
    rewrite Hc, Hv. cbn [snd]. rewrite Nat.leb_refl. cbn [andb]. split; reflexivity.
  Qed.

  (* ... and that embedding satisfies the property's clauses for ANY oracle answers meeting
     the contracts (composition of embed_exec_largest with mds_factor_partial) *)
  Theorem embed_exec_factor_partial (b : branch) N d (B : mat F)
          (V : list (list F)) (lam mu sall : list F) :
    In b eig_table -> b_largest b = true -> b_base b = BaseN -> d <= N ->
    full_contract N B (mof V) (vof lam) ->
    (forall t, t < N -> vof sall t * vof sall t = vof mu t) ->
    exists Y, embed_exec b N d 0 V lam sall = Some Y /\
              meq d d (mmul N (mtrans (mof Y)) (mof Y))
                      (mdiag (select_vals (vof mu) ((N - d)%nat, d))) /\
              meq N d (mmul N B (mof Y))
                      (mmul d (mof Y) (mdiag (select_vals (vof lam) ((N - d)%nat, d)))).
  (* PARTIAL in the same sense as mds_factor_partial: optimality of the top-d spectral factor
     (Eckart-Young) is cited. *)
  Proof.
    intros Hb Hl HB Hd HC Hs.
    destruct (embed_exec_largest b N d V lam sall Hb Hl HB Hd) as [HE _].
    eexists. split; [exact HE|].
    set (s := select_vals (vof sall) ((N - d)%nat, d)).
    assert (Hs' : forall c, c < d -> s c * s c = select_vals (vof mu) ((N - d)%nat, d) c).
    { intros c Hc. unfold s, select_vals. cbn [fst]. apply Hs. lia. }
    assert (HC' := select_contract N d (N - d)%nat B (mof V) (vof lam) ltac:(lia) HC).
    destruct (sqrt_scaling_gen N d B _ _ _ s HC' Hs') as [H1 [H2 _]].
    split.
    - intros a c Ha Hc. rewrite <- (H1 a c Ha Hc).
      unfold mmul, mtrans. apply sumn_ext. intros t Ht.
      rewrite !mof_mtab by assumption. reflexivity.
    - intros i c Hi Hc. rewrite mmul_diag_r by assumption.
      rewrite mof_mtab by assumption.
      rewrite <- (mmul_diag_r d (scale_cols (select_cols N (mof V) ((N - d)%nat, d)) s)
                              (select_vals (vof lam) ((N - d)%nat, d)) i c Hc).
      rewrite <- (H2 i c Hi Hc).
      unfold mmul. apply sumn_ext. intros t Ht. rewrite mof_mtab by assumption. reflexivity.
  Qed.

  (* ---------------- randomized front-end ---------------- *)
  (* eigendecomposition_impl_randomized, in exact arithmetic:
       Y  : N x k, orthonormal columns (Gram-Schmidt of  B * O);
       Bs := Y.householderQr().solve(B * Y)  -- for orthonormal Y the least-squares solution
             is  Y^T B Y  (k x k);
       (W, Theta) := SelfAdjointEigenSolver(Bs);   result:  (Y W, Theta).
     If the range of B is captured by Y (Y Y^T B = B; this is what "rank <= target_dimension"
     buys, the random test matrix being generic), the answer meets the SAME contract as the
     dense solver's: orthonormal columns, B (Y W) = (Y W) Theta. *)
  Theorem randomized_exact_on_captured_range N k (B Y W : mat F) (Theta : vec F) :
    meq k k (mmul N (mtrans Y) Y) mI ->
    meq N N (mmul N (mmul k Y (mtrans Y)) B) B ->
    eig_contract k k (mmul N (mtrans Y) (mmul N B Y)) W Theta ->
    eig_contract N k B (mmul k Y W) Theta.
  Proof.
    intros HY HR [HW HE]. split.
    - (* (YW)^T (YW) = W^T (Y^T Y) W = W^T W = I *)
      intros a b Ha Hb.
      transitivity (mmul k (mtrans W) (mmul k (mmul N (mtrans Y) Y) W) a b).
      { unfold mmul at 1. unfold mtrans at 1.
        (* sum_i (sum_s Y i s W s a) * (sum_t Y i t W t b) *)
        unfold mmul at 3. unfold mtrans at 1.
        rewrite (sumn_ext N _ (fun i => sumn k (fun s => W s a * (Y i s * mmul k Y W i b)))).
        2:{ intros i Hi. unfold mmul at 1. rewrite <- sumn_mul_r. apply sumn_ext. intros; ring. }
        rewrite sumn_swap. apply sumn_ext. intros s Hs.
        rewrite sumn_mul_l. f_equal.
        (* sum_i Y i s * (Y W) i b = ((Y^T Y) W) s b *)
        rewrite mmul_assoc. unfold mmul at 1, mtrans. reflexivity. }
      rewrite (mmul_ext_r k (mtrans W) _ W).
      + apply HW; assumption.
      + intros t Ht. unfold mmul at 1.
        rewrite (sumn_ext k _ (fun u => mI t u * W u b))
          by (intros u Hu; rewrite (HY t u Ht Hu); reflexivity).
        apply (mmul_I_l k W t b Ht).
    - (* B Y W = Y Y^T B Y W = Y (Bs W) = Y W Theta *)
      intros i c Hi Hc.
      transitivity (mmul N (mmul N (mmul k Y (mtrans Y)) B) (mmul k Y W) i c).
      { apply mmul_ext_l. intros t Ht. symmetry. apply HR; assumption. }
      rewrite mmul_assoc. rewrite mmul_assoc.
      transitivity (mmul k Y (mmul k (mmul N (mtrans Y) (mmul N B Y)) W) i c).
      { apply mmul_ext_r. intros s Hs. symmetry.
        rewrite mmul_assoc. apply mmul_ext_r. intros t Ht. apply mmul_assoc. }
      rewrite (mmul_ext_r k Y _ (mmul k W (mdiag Theta)))
        by (intros s Hs; apply HE; assumption).
      rewrite <- mmul_assoc. reflexivity.
  Qed.

End MdsSolver.
