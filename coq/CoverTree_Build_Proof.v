(* CoverTree_Build_Proof.v — the model of the cover-tree construction (CoverTree_Build_Model.v: batch_create,
   batch_insert, bi_loop, split = the two filters, dist_split, redistribute) builds, for EVERY distance function
   (no triangle inequality, no symmetry, not even d >= 0 is needed), every input order and every answer of get_scale, a tree that
   satisfies the invariant the query is proved under (ct_inv_b: I1 max_dist bounds the distance to every leaf below,
   I2 parent_dist is the distance to the parent's point, I3 the first child repeats the node's point, I4 an inner child
   has a larger scale than its parent), in which every consumed point is exactly one leaf; and batch_create puts EVERY
   sample into the tree provided get_scale found a scale covering the largest distance (distances below 1.3^4000).

   The points are tracked by COUNTS (count_occ over the sample indices), the distance stacks by membership: every
   ds_node that comes back from a recursive call is one that went in, so its head is still the distance to the point
   of the node under construction. *)
From Coq Require Import List ZArith Bool Lia Permutation.
From TK Require Import Knn_Spec Knn_CoverSel_Model CoverTree_Model CoverTree_Build_Model CoverTree_Proof
                       Knn_CoverQuery_Proof CoverTree_Proof_Audit CoverTree_Proof_Total.
Import ListNotations.
Local Open Scope Z_scope.

Section BuildProof.
Variable d : dist.

Notation lp := leaf_points.
Definition cntz (l : list Z) (z : Z) : nat := count_occ Z.eq_dec l z.
Definition pc (l : list dsn) (z : Z) : nat := cntz (map fst l) z.
Definition heads (p : Z) (l : list dsn) : Prop := forall x, In x l -> last_d x = dd d p (fst x).
Definition lvsb (F : list ctree) : list Z := flat_map lp F.

Lemma cntz_app : forall a b z, cntz (a ++ b) z = (cntz a z + cntz b z)%nat.
Proof. intros. apply count_occ_app. Qed.

Lemma pc_app : forall a b z, pc (a ++ b) z = (pc a z + pc b z)%nat.
Proof. intros. unfold pc. rewrite map_app. apply cntz_app. Qed.

Lemma pc_nil : forall z, pc [] z = 0%nat.
Proof. reflexivity. Qed.

Lemma pc_cons : forall x l z, pc (x :: l) z = (cntz [fst x] z + pc l z)%nat.
Proof. intros. change (x :: l) with ([x] ++ l). rewrite pc_app. reflexivity. Qed.

Lemma pc_rev : forall l z, pc (rev l) z = pc l z.
Proof.
  induction l as [|x l IH]; intros z; [reflexivity|]. cbn [rev]. rewrite pc_app, IH, !pc_cons, pc_nil. lia.
Qed.

Lemma pc_in : forall l z, (0 < pc l z)%nat -> exists x, In x l /\ fst x = z.
Proof.
  intros l z H. unfold pc, cntz in H. apply (count_occ_In Z.eq_dec) in H. apply in_map_iff in H.
  destruct H as [x [E Hx]]. now exists x.
Qed.

Lemma pc_filter : forall (f : dsn -> bool) l z,
  pc l z = (pc (filter f l) z + pc (filter (fun x => negb (f x)) l) z)%nat.
Proof.
  intros f l z. induction l as [|x l IH]; [reflexivity|]. cbn [filter]. destruct (f x); cbn [negb]; rewrite !pc_cons; lia.
Qed.

Lemma heads_sub : forall p l l', heads p l -> (forall x, In x l' -> In x l) -> heads p l'.
Proof. intros p l l' H Hs x Hx. apply H. now apply Hs. Qed.

Lemma heads_app : forall p a b, heads p a -> heads p b -> heads p (a ++ b).
Proof. intros p a b Ha Hb x Hx. apply in_app_or in Hx. destruct Hx; [now apply Ha | now apply Hb]. Qed.

(* ---------- stacks ---------- *)
Lemma pop_push : forall v x, pop_d (push_d v x) = x.
Proof. intros v [a s]. reflexivity. Qed.
Lemma fst_push : forall v x, fst (push_d v x) = fst x.
Proof. reflexivity. Qed.
Lemma fst_pop : forall x, fst (pop_d x) = fst x.
Proof. reflexivity. Qed.
Lemma last_push : forall v x, last_d (push_d v x) = v.
Proof. reflexivity. Qed.

Lemma pc_map_pop : forall l z, pc (map pop_d l) z = pc l z.
Proof. intros l z. unfold pc. rewrite map_map. reflexivity. Qed.

(* ---------- max_set ---------- *)
Lemma max_fold_ge : forall l m0, m0 <= fold_left (fun m x => if m <? last_d x then last_d x else m) l m0 /\
  forall x, In x l -> last_d x <= fold_left (fun m x => if m <? last_d x then last_d x else m) l m0.
Proof.
  induction l as [|a l IH]; intros m0; cbn [fold_left]; [split; [lia | intros x []]|].
  destruct (IH (if m0 <? last_d a then last_d a else m0)) as [H1 H2].
  destruct (Z.ltb_spec m0 (last_d a)); split; try lia; intros x [<-|Hx]; try lia; now apply H2.
Qed.

Lemma max_set_ge : forall l x, In x l -> last_d x <= max_set l.
Proof. intros l x Hx. apply (proj2 (max_fold_ge l 0) x Hx). Qed.

Lemma max_set_nonneg : forall l, 0 <= max_set l.
Proof. intros l. apply (proj1 (max_fold_ge l 0)). Qed.

(* ---------- split_last ---------- *)
Lemma split_last_some : forall {A} (l l' : list A) x, split_last l = Some (l', x) -> l = l' ++ [x].
Proof.
  intros A l l' x H. unfold split_last in H. destruct (rev l) as [|y r] eqn:E; [discriminate|].
  injection H as <- <-. rewrite <- (rev_involutive l), E. reflexivity.
Qed.

Lemma split_last_none : forall {A} (l : list A), split_last l = None -> l = [].
Proof.
  intros A l H. unfold split_last in H. destruct (rev l) as [|y r] eqn:E; [|discriminate].
  rewrite <- (rev_involutive l), E. reflexivity.
Qed.

(* ---------- dist_split ---------- *)
Lemma dist_split_spec : forall np fmax ps stay moved,
  dist_split d np fmax ps = (stay, moved) ->
  (forall z, pc ps z = (pc stay z + pc moved z)%nat) /\
  (forall x, In x stay -> In x ps) /\
  (forall y, In y moved -> exists x, In x ps /\ y = push_d (dd d np (fst x)) x).
Proof.
  intros np fmax ps. induction ps as [|x r IH]; intros stay moved E.
  - cbn in E. injection E as <- <-. split; [reflexivity|]. split; [intros x []|intros y []].
  - cbn [dist_split] in E. destruct (dist_split d np fmax r) as [stay0 moved0] eqn:E0.
    destruct (IH _ _ eq_refl) as [H1 [H2 H3]].
    destruct (le_frac (dd d np (fst x)) fmax); injection E as <- <-.
    + split; [intros z; rewrite !pc_cons, fst_push, H1; lia|]. split; [intros y Hy; right; now apply H2|].
      intros y [<-|Hy]; [exists x; split; [now left | reflexivity]|].
      destruct (H3 y Hy) as [x0 [Hx0 ->]]. exists x0. split; [now right | reflexivity].
    + split; [intros z; rewrite !pc_cons, H1; lia|]. split; [intros y [<-|Hy]; [now left | right; now apply H2]|].
      intros y Hy. destruct (H3 y Hy) as [x0 [Hx0 ->]]. exists x0. split; [now right | reflexivity].
Qed.

(* ---------- redistribute ---------- *)
Lemma redistribute_spec : forall fmax nps ps far ps3 far3,
  redistribute fmax nps ps far = (ps3, far3) ->
  (forall z, (pc ps3 z + pc far3 z = pc ps z + pc far z + pc nps z)%nat) /\
  (forall x, In x ps3 \/ In x far3 -> In x ps \/ In x far \/ exists y, In y nps /\ x = pop_d y) /\
  (forall x, In x far3 -> In x far \/ le_frac (last_d x) fmax = false).
Proof.
  intros fmax nps. induction nps as [|y r IH]; intros ps far ps3 far3 E.
  - cbn in E. injection E as <- <-. split; [intros z; rewrite pc_nil; lia|]. split; [intros x [H|H]; auto|]. intros x H. now left.
  - cbn [redistribute] in E. destruct (le_frac (last_d (pop_d y)) fmax) eqn:Hle.
    + destruct (IH _ _ _ _ E) as [H1 [H2 H3]]. split.
      * intros z. specialize (H1 z). rewrite pc_app, !pc_cons, pc_nil, fst_pop in *. lia.
      * split; [|exact H3]. intros x Hx. destruct (H2 x Hx) as [H|[H|[y0 [Hy0 ->]]]].
        -- apply in_app_or in H. destruct H as [H|[<-|[]]]; [now left|]. right. right. exists y. split; [now left | reflexivity].
        -- right. now left.
        -- right. right. exists y0. split; [now right | reflexivity].
    + destruct (IH _ _ _ _ E) as [H1 [H2 H3]]. split.
      * intros z. specialize (H1 z). rewrite pc_app, !pc_cons, pc_nil, fst_pop in *. lia.
      * split.
        -- intros x Hx. destruct (H2 x Hx) as [H|[H|[y0 [Hy0 ->]]]].
           ++ now left.
           ++ apply in_app_or in H. destruct H as [H|[<-|[]]]; [right; now left|]. right. right. exists y. split; [now left | reflexivity].
           ++ right. right. exists y0. split; [now right | reflexivity].
        -- intros x Hx. destruct (H3 x Hx) as [H|H]; [|now right].
           apply in_app_or in H. destruct H as [H|[<-|[]]]; [now left | now right].
Qed.

(* ---------- building ct_inv_b ---------- *)
Lemma inv_b_leaf : forall p m pd sc, 0 <= m -> ct_inv_b d (CN p m pd sc []) = true.
Proof.
  intros p m pd sc Hm. cbn [ct_inv_b leaf_points forallb]. rewrite dd_refl.
  rewrite andb_true_r, andb_true_r. now apply Z.leb_le.
Qed.

Lemma all_fix_intro : forall (l : list ctree), (forall c, In c l -> ct_inv_b d c = true) ->
  (fix all (l : list ctree) : bool := match l with [] => true | c :: l' => ct_inv_b d c && all l' end) l = true.
Proof.
  induction l as [|a l IH]; intros H; [reflexivity|]. rewrite (H a (or_introl eq_refl)). cbn [andb].
  apply IH. intros c Hc. apply H. now right.
Qed.

Lemma inv_b_node : forall p m pd sc c0 rest,
  (forall y, In y (lp (CN p m pd sc (c0 :: rest))) -> dd d p y <= m) -> c_p c0 = p ->
  (forall c, In c (c0 :: rest) ->
     dd d p (c_p c) <= c_pard c /\ (is_leaf c = true \/ (sc < c_scale c)%nat) /\ ct_inv_b d c = true) ->
  ct_inv_b d (CN p m pd sc (c0 :: rest)) = true.
Proof.
  intros p m pd sc c0 rest H1 H0 Hc.
  assert (Hall : (fix all (l : list ctree) : bool := match l with [] => true | c :: l' => ct_inv_b d c && all l' end)
                   (c0 :: rest) = true).
  { exact (all_fix_intro (c0 :: rest) (fun c Hcin => proj2 (proj2 (Hc c Hcin)))). }
  cbn [ct_inv_b]. apply andb_true_iff. split.
  - apply forallb_forall. intros y Hy. apply Z.leb_le. now apply H1.
  - apply andb_true_iff. split; [|exact Hall]. apply andb_true_iff. split; [now apply Z.eqb_eq|].
    apply forallb_forall. intros c Hcin. destruct (Hc c Hcin) as [G1 [G2 _]]. apply andb_true_iff. split.
    + now apply Z.leb_le.
    + apply orb_true_iff. destruct G2 as [G2|G2]; [now left | right; now apply Nat.ltb_lt].
Qed.

Lemma inv_b_set_pard : forall v t, ct_inv_b d (set_pard v t) = ct_inv_b d t.
Proof. intros v [p m pd sc ch]. reflexivity. Qed.

Lemma set_pard_facts : forall v t,
  c_p (set_pard v t) = c_p t /\ c_pard (set_pard v t) = v /\ c_scale (set_pard v t) = c_scale t /\
  is_leaf (set_pard v t) = is_leaf t /\ lp (set_pard v t) = lp t.
Proof. intros v [p m pd sc ch]. repeat split. Qed.

Lemma lp_leaf_b : forall p, lp (leaf p) = [p].
Proof. reflexivity. Qed.

Lemma cntz_lvsb_app : forall F G z, cntz (lvsb (F ++ G)) z = (cntz (lvsb F) z + cntz (lvsb G) z)%nat.
Proof. intros. unfold lvsb. rewrite flat_map_app. apply cntz_app. Qed.

Lemma lvsb_one : forall t, lvsb [t] = lp t.
Proof. intros. unfold lvsb. cbn [flat_map]. apply app_nil_r. Qed.

Lemma cntz_in : forall l z, In z l <-> (0 < cntz l z)%nat.
Proof. intros. unfold cntz. rewrite (count_occ_In Z.eq_dec). lia. Qed.

Lemma cntz_one : forall a z, cntz [a] z = if Z.eq_dec a z then 1%nat else 0%nat.
Proof. intros. unfold cntz. cbn [count_occ]. destruct (Z.eq_dec a z); reflexivity. Qed.

(* ---------- the specification of one call of batch_insert ---------- *)
Definition BI (rec : bi_rec) : Prop :=
  forall p ms ts ps cons t ps' cons',
    rec p ms ts ps cons = Some (t, ps', cons') -> ms <= ts -> heads p ps -> heads p cons ->
    exists new, cons' = cons ++ new /\
      (forall z, pc ps z = (pc ps' z + pc new z)%nat) /\
      (forall x, In x ps' \/ In x new -> In x ps) /\
      c_p t = p /\ c_pard t = 0 /\
      (forall z, cntz (lp t) z = (cntz [p] z + pc new z)%nat) /\
      ct_inv_b d t = true /\
      (is_leaf t = true \/ (Z.to_nat (ts - ms) <= c_scale t)%nat) /\
      (forall x, In x ps' -> le_frac (last_d x) (scale_frac ms) = false).

Definition kids_ok (p : Z) (sc : nat) (children : list ctree) : Prop :=
  (exists c0 rest, children = c0 :: rest /\ c_p c0 = p) /\
  forall c, In c children ->
    dd d p (c_p c) <= c_pard c /\ (is_leaf c = true \/ (sc < c_scale c)%nat) /\ ct_inv_b d c = true.

Lemma bi_loop_spec : forall rec, BI rec -> forall p ms ts ns fmax, ns <= ms - 1 -> ms <= ts ->
  forall n ps far cons0 newc children t ps' cons',
  bi_loop d rec p ms ts ns fmax n ps far (cons0 ++ newc) children = Some (t, ps', cons') ->
  heads p ps -> heads p far -> heads p (cons0 ++ newc) ->
  kids_ok p (Z.to_nat (ts - ms)) children ->
  (forall z, cntz (lvsb children) z = (cntz [p] z + pc newc z)%nat) ->
  exists newf, cons' = (cons0 ++ newc) ++ newf /\
    (forall z, (pc ps z + pc far z = pc ps' z + pc newf z)%nat) /\
    (forall x, In x ps' \/ In x newf -> In x ps \/ In x far) /\
    (forall x, In x ps' -> In x far \/ le_frac (last_d x) fmax = false) /\
    c_p t = p /\ c_pard t = 0 /\ is_leaf t = false /\ c_scale t = Z.to_nat (ts - ms) /\
    (forall z, cntz (lp t) z = (cntz [p] z + pc newc z + pc newf z)%nat) /\
    ct_inv_b d t = true.
Proof.
  intros rec Hrec p ms ts ns fmax Hns Hms. induction n as [|n IH];
    intros ps far cons0 newc children t ps' cons' E Hps Hfar Hcons Hkids Hlv.
  - (* n = 0: only the exit is possible *)
    cbn [bi_loop] in E. destruct (split_last ps) as [[psl x]|] eqn:Esl; [discriminate|].
    apply split_last_none in Esl. subst ps. injection E as <- <- <-.
    destruct Hkids as [[c0 [rest [-> Hc0]]] Hk].
    exists []. rewrite app_nil_r. split; [reflexivity|]. split; [intros z; rewrite !pc_nil; lia|].
    split; [intros x [H|[]]; now right|]. split; [intros x H; now left|].
    split; [reflexivity|]. split; [reflexivity|]. split; [reflexivity|]. split; [reflexivity|].
    assert (Hl : forall z, cntz (lp (CN p (max_set (cons0 ++ newc)) 0 (Z.to_nat (ts - ms)) (c0 :: rest))) z =
                           (cntz [p] z + pc newc z)%nat) by (intros z; apply Hlv).
    split; [intros z; rewrite Hl, pc_nil; lia|].
    apply inv_b_node; [|assumption|assumption].
    intros y Hy. apply cntz_in in Hy. rewrite Hl in Hy. rewrite cntz_one in Hy.
    destruct (Z.eq_dec p y) as [<-|Hne]; [rewrite dd_refl; apply max_set_nonneg|].
    destruct (pc_in newc y ltac:(lia)) as [x [Hx <-]].
    assert (Hxc : In x (cons0 ++ newc)) by (apply in_or_app; now right).
    rewrite <- (Hcons x Hxc). now apply max_set_ge.
  - cbn [bi_loop] in E. destruct (split_last ps) as [[psl x]|] eqn:Esl.
    + (* one more child *)
      apply split_last_some in Esl. subst ps.
      destruct (dist_split d (fst x) fmax psl) as [ps2 moved1] eqn:E1.
      destruct (dist_split d (fst x) fmax far) as [far2 moved2] eqn:E2.
      destruct (rec (fst x) ns ts (moved1 ++ moved2) []) as [[[nchild nps] ncons]|] eqn:E3; [|discriminate].
      destruct (redistribute fmax nps ps2 far2) as [ps3 far3] eqn:E4.
      destruct (dist_split_spec _ _ _ _ _ E1) as [A1 [A2 A3]].
      destruct (dist_split_spec _ _ _ _ _ E2) as [B1 [B2 B3]].
      assert (Hx : In x (psl ++ [x])) by (apply in_or_app; right; now left).
      assert (Hpsl : forall y, In y psl -> In y (psl ++ [x])) by (intros y Hy; apply in_or_app; now left).
      assert (Hmoved : forall y, In y (moved1 ++ moved2) ->
                exists x0, (In x0 psl \/ In x0 far) /\ y = push_d (dd d (fst x) (fst x0)) x0).
      { intros y Hy. apply in_app_or in Hy. destruct Hy as [Hy|Hy].
        - destruct (A3 y Hy) as [x0 [H0 ->]]. exists x0. split; [now left | reflexivity].
        - destruct (B3 y Hy) as [x0 [H0 ->]]. exists x0. split; [now right | reflexivity]. }
      assert (Hhm : heads (fst x) (moved1 ++ moved2)).
      { intros y Hy. destruct (Hmoved y Hy) as [x0 [_ ->]]. rewrite last_push, fst_push. reflexivity. }
      destruct (Hrec _ _ _ _ _ _ _ _ E3 ltac:(lia) Hhm ltac:(intros y [])) as
        [newn [-> [C1 [C2 [C3 [C4 [C5 [C6 [C7 _]]]]]]]]]. cbn [app] in E.
      destruct (redistribute_spec _ _ _ _ _ _ E4) as [D1 [D2 D3]].
      (* what came back is what went in *)
      assert (Hback : forall y, In y nps \/ In y newn -> In (pop_d y) psl \/ In (pop_d y) far).
      { intros y Hy. destruct (Hmoved y (C2 y Hy)) as [x0 [H0 ->]]. now rewrite pop_push. }
      assert (Hh3 : heads p ps3 /\ heads p far3).
      { assert (H : forall y, In y ps3 \/ In y far3 -> last_d y = dd d p (fst y)).
        { intros y Hy. destruct (D2 y Hy) as [H|[H|[y0 [Hy0 ->]]]].
          - apply Hps, Hpsl, A2, H.
          - apply Hfar, B2, H.
          - destruct (Hback y0 (or_introl Hy0)) as [H|H]; [apply Hps, Hpsl, H | apply Hfar, H]. }
        split; intros y Hy; apply H; [now left | now right]. }
      assert (Hnew : heads p ((cons0 ++ newc) ++ [x] ++ map pop_d newn)).
      { apply heads_app; [assumption|]. apply heads_app; [intros y [<-|[]]; now apply Hps|].
        intros y Hy. apply in_map_iff in Hy. destruct Hy as [y0 [<- Hy0]].
        destruct (Hback y0 (or_intror Hy0)) as [H|H]; [apply Hps, Hpsl, H | apply Hfar, H]. }
      assert (Hnd : last_d x = dd d p (fst x)) by (now apply Hps).
      destruct (set_pard_facts (last_d x) nchild) as [S1 [S2 [S3 [S4 S5]]]].
      assert (Hkids' : kids_ok p (Z.to_nat (ts - ms)) (children ++ [set_pard (last_d x) nchild])).
      { destruct Hkids as [[c0 [rest [-> Hc0]]] Hk]. split; [exists c0, (rest ++ [set_pard (last_d x) nchild]); now split|].
        intros c Hc. apply in_app_or in Hc. destruct Hc as [Hc|[<-|[]]]; [now apply Hk|].
        rewrite S1, S2, S3, S4, inv_b_set_pard, C3. split; [lia|]. split; [|assumption].
        destruct C7 as [C7|C7]; [now left | right]. lia. }
      assert (Hlv' : forall z, cntz (lvsb (children ++ [set_pard (last_d x) nchild])) z =
                               (cntz [p] z + pc (newc ++ [x] ++ map pop_d newn) z)%nat).
      { intros z. rewrite cntz_lvsb_app, lvsb_one, S5, Hlv, C5, !pc_app, pc_map_pop, pc_cons, pc_nil. lia. }
      assert (Eq1 : ((cons0 ++ newc) ++ [x]) ++ map pop_d newn = cons0 ++ (newc ++ [x] ++ map pop_d newn))
        by (rewrite <- !app_assoc; reflexivity).
      assert (Eq2 : (cons0 ++ newc) ++ [x] ++ map pop_d newn = cons0 ++ (newc ++ [x] ++ map pop_d newn))
        by (rewrite <- !app_assoc; reflexivity).
      rewrite Eq1 in E. rewrite Eq2 in Hnew.
      destruct (IH ps3 far3 cons0 (newc ++ [x] ++ map pop_d newn) _ t ps' cons' E (proj1 Hh3) (proj2 Hh3) Hnew Hkids' Hlv')
        as [newf [-> [F1 [F2 [F3 [F4 [F5 [F6 [F7 [F8 F9]]]]]]]]]].
      exists (([x] ++ map pop_d newn) ++ newf). split; [repeat rewrite <- app_assoc; reflexivity|]. split.
      { intros z. specialize (F1 z). specialize (D1 z). specialize (A1 z). specialize (B1 z). specialize (C1 z).
        clear IH. repeat first [rewrite pc_app in * | rewrite pc_map_pop in * | rewrite pc_cons in * | rewrite pc_nil in *]. lia. }
      split.
      { intros y [Hy|Hy].
        - destruct (F2 y (or_introl Hy)) as [H|H]; destruct (D2 y (or_introl H)) as [G|[G|[y0 [Hy0 ->]]]] || idtac.
          all: try (left; apply Hpsl, A2, G). all: try (right; apply B2, G).
          all: try (destruct (Hback y0 (or_introl Hy0)) as [G|G]; [left; now apply Hpsl | now right]).
          all: destruct (D2 y (or_intror H)) as [G|[G|[y0 [Hy0 ->]]]];
            [left; apply Hpsl, A2, G | right; apply B2, G |
             destruct (Hback y0 (or_introl Hy0)) as [G|G]; [left; now apply Hpsl | now right]].
        - apply in_app_or in Hy. destruct Hy as [Hy|Hy].
          + apply in_app_or in Hy. destruct Hy as [[<-|[]]|Hy]; [now left|].
            apply in_map_iff in Hy. destruct Hy as [y0 [<- Hy0]].
            destruct (Hback y0 (or_intror Hy0)) as [G|G]; [left; now apply Hpsl | now right].
          + destruct (F2 y (or_intror Hy)) as [H|H].
            * destruct (D2 y (or_introl H)) as [G|[G|[y0 [Hy0 ->]]]];
                [left; apply Hpsl, A2, G | right; apply B2, G |
                 destruct (Hback y0 (or_introl Hy0)) as [G|G]; [left; now apply Hpsl | now right]].
            * destruct (D2 y (or_intror H)) as [G|[G|[y0 [Hy0 ->]]]];
                [left; apply Hpsl, A2, G | right; apply B2, G |
                 destruct (Hback y0 (or_introl Hy0)) as [G|G]; [left; now apply Hpsl | now right]]. }
      split.
      { intros y Hy. destruct (F3 y Hy) as [H|H]; [|now right]. destruct (D3 y H) as [G|G]; [left; now apply B2 | now right]. }
      split; [assumption|]. split; [assumption|]. split; [assumption|]. split; [assumption|].
      split; [|assumption].
      intros z. rewrite F8, !pc_app. lia.
    + (* the loop is over *)
      apply split_last_none in Esl. subst ps. injection E as <- <- <-.
      destruct Hkids as [[c0 [rest [-> Hc0]]] Hk].
      exists []. rewrite app_nil_r. split; [reflexivity|]. split; [intros z; rewrite !pc_nil; lia|].
      split; [intros x [H|[]]; now right|]. split; [intros x H; now left|].
      split; [reflexivity|]. split; [reflexivity|]. split; [reflexivity|]. split; [reflexivity|].
      assert (Hl : forall z, cntz (lp (CN p (max_set (cons0 ++ newc)) 0 (Z.to_nat (ts - ms)) (c0 :: rest))) z =
                             (cntz [p] z + pc newc z)%nat) by (intros z; apply Hlv).
      split; [intros z; rewrite Hl, pc_nil; lia|].
      apply inv_b_node; [|assumption|assumption].
      intros y Hy. apply cntz_in in Hy. rewrite Hl in Hy. rewrite cntz_one in Hy.
      destruct (Z.eq_dec p y) as [<-|Hne]; [rewrite dd_refl; apply max_set_nonneg|].
      destruct (pc_in newc y ltac:(lia)) as [x [Hx <-]].
      assert (Hxc : In x (cons0 ++ newc)) by (apply in_or_app; now right).
      rewrite <- (Hcons x Hxc). now apply max_set_ge.
Qed.

(* ---------- batch_insert ---------- *)
Lemma in_filter_sub : forall (f : dsn -> bool) l x, In x (filter f l) -> In x l.
Proof. intros f l x H. apply filter_In in H. apply H. Qed.

Lemma to_nat_mono_lt : forall a b, 0 <= a -> a < b -> (Z.to_nat a < Z.to_nat b)%nat.
Proof. intros. lia. Qed.

Lemma batch_insert_spec : forall f, BI (batch_insert d f).
Proof.
  induction f as [|f IH]; intros p ms ts ps cons t ps' cons' E Hms Hps Hcons; [discriminate|].
  cbn [batch_insert] in E. destruct ps as [|x0 psr] eqn:Eps.
  - (* no points: a leaf *)
    injection E as <- <- <-. exists []. rewrite app_nil_r. split; [reflexivity|].
    split; [intros z; reflexivity|]. split; [intros x [[]|[]]|]. split; [reflexivity|]. split; [reflexivity|].
    split; [intros z; rewrite lp_leaf_b, pc_nil; lia|]. split; [apply inv_b_leaf; lia|]. split; [now left | intros x []].
  - rewrite <- Eps in *. clear Eps x0 psr.
    destruct (Z.eqb_spec (max_set ps) 0) as [Hz|Hz].
    + (* every point coincides with p *)
      injection E as <- <- <-. exists (rev ps). split; [reflexivity|].
      split; [intros z; rewrite pc_nil, pc_rev; lia|].
      split; [intros x [[]|H]; now apply in_rev|]. split; [reflexivity|]. split; [reflexivity|].
      assert (Hlv : forall z, cntz (lvsb (map (fun x => leaf (fst x)) (rev ps))) z = pc (rev ps) z).
      { intros z. generalize (rev ps). intros l. induction l as [|a l IHl]; [reflexivity|].
        cbn [map]. change (lvsb (leaf (fst a) :: map (fun x => leaf (fst x)) l))
          with ([fst a] ++ lvsb (map (fun x => leaf (fst x)) l)). rewrite cntz_app, IHl, pc_cons. reflexivity. }
      assert (Hl : forall z, cntz (lp (CN p 0 0 (Z.to_nat (Z.max 100 (ts - ms)))
                                     (leaf p :: map (fun x => leaf (fst x)) (rev ps)))) z =
                             (cntz [p] z + pc (rev ps) z)%nat).
      { intros z. change (lp (CN p 0 0 (Z.to_nat (Z.max 100 (ts - ms))) (leaf p :: map (fun x => leaf (fst x)) (rev ps))))
          with ([p] ++ lvsb (map (fun x => leaf (fst x)) (rev ps))). now rewrite cntz_app, Hlv. }
      split; [exact Hl|]. split; [|split; [right; cbn [c_scale]; lia | intros x []]].
      apply inv_b_node.
      * intros y Hy. apply cntz_in in Hy. rewrite Hl, cntz_one in Hy.
        destruct (Z.eq_dec p y) as [<-|Hne]; [rewrite dd_refl; lia|].
        destruct (pc_in (rev ps) y ltac:(lia)) as [x [Hx <-]]. apply in_rev in Hx.
        rewrite <- (Hps x Hx). pose proof (max_set_ge ps x Hx). lia.
      * reflexivity.
      * intros c [<-|Hc].
        -- cbn [c_p c_pard leaf]. rewrite dd_refl. split; [lia|]. split; [now left | apply inv_b_leaf; lia].
        -- apply in_map_iff in Hc. destruct Hc as [x [<- Hx]]. apply in_rev in Hx. cbn [c_p c_pard leaf].
           pose proof (max_set_ge ps x Hx) as H. rewrite (Hps x Hx) in H.
           split; [lia|]. split; [now left | apply inv_b_leaf; lia].
    + (* the general case *)
      set (ns := Z.min (ms - 1) (get_scale (max_set ps))) in *.
      set (fmax := scale_frac ms) in *.
      set (stay := filter (fun x => le_frac (last_d x) fmax) ps) in *.
      set (far := filter (fun x => negb (le_frac (last_d x) fmax)) ps) in *.
      assert (Hns : ns <= ms - 1) by (unfold ns; lia).
      assert (Hsplit : forall z, pc ps z = (pc stay z + pc far z)%nat) by (intros z; apply pc_filter).
      assert (Hstay : forall x, In x stay -> In x ps) by (intros x; apply in_filter_sub).
      assert (Hfarin : forall x, In x far -> In x ps) by (intros x; apply in_filter_sub).
      destruct (batch_insert d f p ns ts stay cons) as [[[child ps1] cons1]|] eqn:E1; [|discriminate].
      destruct (IH _ _ _ _ _ _ _ _ E1 ltac:(lia) (heads_sub p ps stay Hps Hstay) Hcons)
        as [new1 [-> [C1 [C2 [C3 [C4 [C5 [C6 [C7 _]]]]]]]]].
      destruct ps1 as [|y0 ps1r] eqn:Eps1.
      * (* the self-child took everything near: no node at this scale *)
        injection E as <- <- <-. exists new1. split; [reflexivity|].
        split; [intros z; rewrite Hsplit, C1, pc_nil; lia|].
        split; [intros x [H|H]; [now apply Hfarin | apply Hstay, C2; now right]|].
        split; [assumption|]. split; [assumption|]. split; [assumption|]. split; [assumption|].
        split; [destruct C7 as [C7|C7]; [now left | right]; lia|].
        intros x Hx. apply filter_In in Hx. now apply negb_true_iff.
      * rewrite <- Eps1 in *. clear Eps1 y0 ps1r.
        assert (Hh1 : heads p ps1) by (apply (heads_sub p ps); [assumption | intros x Hx; apply Hstay, C2; now left]).
        assert (Hhf : heads p far) by (apply (heads_sub p ps); assumption).
        assert (Hhc : heads p (cons ++ new1)).
        { apply heads_app; [assumption|]. apply (heads_sub p ps); [assumption | intros x Hx; apply Hstay, C2; now right]. }
        assert (Hk : kids_ok p (Z.to_nat (ts - ms)) [child]).
        { split; [exists child, []; now split|]. intros c [<-|[]]. rewrite C3, C4, dd_refl. split; [lia|].
          split; [|assumption]. destruct C7 as [C7|C7]; [now left | right]. lia. }
        assert (Hlv : forall z, cntz (lvsb [child]) z = (cntz [p] z + pc new1 z)%nat) by (intros z; now rewrite lvsb_one).
        destruct (bi_loop_spec (batch_insert d f) IH p ms ts ns fmax Hns Hms _ ps1 far cons new1 [child] t ps' cons' E
                    Hh1 Hhf Hhc Hk Hlv) as [newf [-> [F1 [F2 [F3 [F4 [F5 [F6 [F7 [F8 F9]]]]]]]]]].
        exists (new1 ++ newf). split; [now rewrite app_assoc|].
        split; [intros z; rewrite Hsplit, C1, pc_app; specialize (F1 z); lia|].
        split.
        { intros x [H|H].
          - destruct (F2 x (or_introl H)) as [G|G]; [apply Hstay, C2; now left | now apply Hfarin].
          - apply in_app_or in H. destruct H as [H|H]; [apply Hstay, C2; now right|].
            destruct (F2 x (or_intror H)) as [G|G]; [apply Hstay, C2; now left | now apply Hfarin]. }
        split; [assumption|]. split; [assumption|].
        split; [intros z; rewrite F8, pc_app; lia|]. split; [assumption|]. split; [right; rewrite F7; lia|].
        intros x Hx. destruct (F3 x Hx) as [G|G]; [|assumption]. apply filter_In in G. now apply negb_true_iff.
Qed.

(* ---------- batch_create ---------- *)
Lemma scale_frac_den_nonneg : forall s, 0 <= snd (scale_frac s).
Proof. intros s. unfold scale_frac. destruct (0 <=? s); cbn [snd]; apply Z.pow_nonneg; lia. Qed.

Lemma le_frac_mono : forall a b f, a <= b -> 0 <= snd f -> le_frac b f = true -> le_frac a f = true.
Proof. intros a b f Hab Hf H. unfold le_frac in *. apply Z.leb_le in H. apply Z.leb_le. nia. Qed.

(* the samples the tree holds: never one too many; all of them when get_scale found a scale covering the largest
   distance (true for distances below 1.3^4000; checked by computation on concrete inputs) *)
Definition scale_found (p0 : Z) (rest : list Z) : Prop :=
  let m := max_set (map (fun x => (x, [dd d p0 x])) rest) in m = 0 \/ le_scale m (get_scale m) = true.

Theorem batch_create_spec : forall fuel p0 rest t,
  batch_create d fuel (p0 :: rest) = Some t ->
  ct_inv_b d t = true /\ c_p t = p0 /\
  (forall z, (cntz (lp t) z <= cntz (p0 :: rest) z)%nat) /\
  (scale_found p0 rest -> forall z, cntz (lp t) z = cntz (p0 :: rest) z).
Proof.
  intros fuel p0 rest t E. unfold batch_create in E.
  set (ps := map (fun x => (x, [dd d p0 x])) rest) in *.
  assert (Hh : heads p0 ps).
  { intros x Hx. unfold ps in Hx. apply in_map_iff in Hx. destruct Hx as [y [<- _]]. reflexivity. }
  assert (Hpc : forall z, pc ps z = cntz rest z).
  { intros z. unfold pc, ps. rewrite map_map. cbn [fst]. now rewrite map_id. }
  assert (Hall : forall z, cntz (p0 :: rest) z = (cntz [p0] z + cntz rest z)%nat).
  { intros z. change (p0 :: rest) with ([p0] ++ rest). apply cntz_app. }
  destruct ps as [|x0 psr] eqn:Eps.
  - injection E as <-. split; [apply inv_b_leaf; lia|]. split; [reflexivity|].
    assert (H0 : forall z, cntz rest z = 0%nat) by (intros z; now rewrite <- Hpc).
    split; [intros z; rewrite Hall, H0, lp_leaf_b; lia | intros _ z; rewrite Hall, H0, lp_leaf_b; lia].
  - rewrite <- Eps in *. clear Eps x0 psr.
    destruct (Z.eqb_spec (max_set ps) 0) as [Hz|Hz].
    + (* all samples coincide *)
      injection E as <-.
      assert (Hlv : forall z, cntz (lvsb (map (fun x => leaf (fst x)) (rev ps))) z = pc (rev ps) z).
      { intros z. generalize (rev ps). intros l. induction l as [|a l IHl]; [reflexivity|].
        cbn [map]. change (lvsb (leaf (fst a) :: map (fun x => leaf (fst x)) l))
          with ([fst a] ++ lvsb (map (fun x => leaf (fst x)) l)). rewrite cntz_app, IHl, pc_cons. reflexivity. }
      assert (Hl : forall z, cntz (lp (CN p0 0 0 100 (leaf p0 :: map (fun x => leaf (fst x)) (rev ps)))) z =
                             (cntz [p0] z + cntz rest z)%nat).
      { intros z. change (lp (CN p0 0 0 100 (leaf p0 :: map (fun x => leaf (fst x)) (rev ps))))
          with ([p0] ++ lvsb (map (fun x => leaf (fst x)) (rev ps))). now rewrite cntz_app, Hlv, pc_rev, Hpc. }
      split; [|split; [reflexivity|split; [intros z; rewrite Hl, Hall; lia | intros _ z; rewrite Hl, Hall; lia]]].
      apply inv_b_node.
      * intros y Hy. apply cntz_in in Hy. rewrite Hl, cntz_one, <- Hpc in Hy.
        destruct (Z.eq_dec p0 y) as [<-|Hne]; [rewrite dd_refl; lia|].
        destruct (pc_in ps y ltac:(lia)) as [x [Hx <-]].
        rewrite <- (Hh x Hx). pose proof (max_set_ge ps x Hx). lia.
      * reflexivity.
      * intros c [<-|Hc].
        -- cbn [c_p c_pard leaf]. rewrite dd_refl. split; [lia|]. split; [now left | apply inv_b_leaf; lia].
        -- apply in_map_iff in Hc. destruct Hc as [x [<- Hx]]. apply in_rev in Hx. cbn [c_p c_pard leaf].
           pose proof (max_set_ge ps x Hx) as H. rewrite (Hh x Hx) in H.
           split; [lia|]. split; [now left | apply inv_b_leaf; lia].
    + destruct (batch_insert d fuel p0 (get_scale (max_set ps)) (get_scale (max_set ps)) ps [])
        as [[[t0 ps'] cons']|] eqn:E1; [|discriminate]. injection E as <-.
      destruct (batch_insert_spec fuel _ _ _ _ _ _ _ _ E1 ltac:(lia) Hh ltac:(intros y []))
        as [new [_ [C1 [C2 [C3 [_ [C5 [C6 [_ C8]]]]]]]]].
      split; [assumption|]. split; [assumption|]. split.
      * intros z. rewrite C5, Hall, <- Hpc, C1. lia.
      * intros Hsf z. destruct Hsf as [Hsf|Hsf]; [contradiction|].
        assert (Hnil : ps' = []).
        { destruct ps' as [|y l]; [reflexivity|]. exfalso.
          assert (Hy : In y ps) by (apply C2; left; now left).
          pose proof (C8 y (or_introl eq_refl)) as Hf.
          assert (Ht : le_frac (last_d y) (scale_frac (get_scale (max_set ps))) = true).
          { apply (le_frac_mono _ (max_set ps)); [now apply max_set_ge | apply scale_frac_den_nonneg | exact Hsf]. }
          congruence. }
        subst ps'. rewrite C5, Hall, <- Hpc, C1, pc_nil. lia.
Qed.

End BuildProof.

(* ---------- every leaf of a built tree carries the scale 100 (what the query's termination needs) ---------- *)
Section Leaf100.
Variable d : dist.

Definition BI100 (rec : bi_rec) : Prop :=
  forall p ms ts ps cons t ps' cons', rec p ms ts ps cons = Some (t, ps', cons') -> leaf100_b t = true.

Lemma l100_set_pard : forall v t, leaf100_b (set_pard v t) = leaf100_b t.
Proof. intros v [p m pd sc ch]. destruct ch; reflexivity. Qed.

Lemma l100_node : forall p m pd sc c0 rest,
  forallb leaf100_b (c0 :: rest) = true -> leaf100_b (CN p m pd sc (c0 :: rest)) = true.
Proof. intros. exact H. Qed.

Lemma bi_loop_l100 : forall rec, BI100 rec -> forall p ms ts ns fmax n ps far cons c0 rest t ps' cons',
  bi_loop d rec p ms ts ns fmax n ps far cons (c0 :: rest) = Some (t, ps', cons') ->
  forallb leaf100_b (c0 :: rest) = true -> leaf100_b t = true.
Proof.
  intros rec Hrec p ms ts ns fmax. induction n as [|n IH]; intros ps far cons c0 rest t ps' cons' E Hk.
  - cbn [bi_loop] in E. destruct (split_last ps) as [[psl x]|]; [discriminate|]. injection E as <- _ _. exact Hk.
  - cbn [bi_loop] in E. destruct (split_last ps) as [[psl x]|].
    + destruct (dist_split d (fst x) fmax psl) as [ps2 moved1].
      destruct (dist_split d (fst x) fmax far) as [far2 moved2].
      destruct (rec (fst x) ns ts (moved1 ++ moved2) []) as [[[nchild nps] ncons]|] eqn:E3; [|discriminate].
      destruct (redistribute fmax nps ps2 far2) as [ps3 far3].
      change ((c0 :: rest) ++ [set_pard (last_d x) nchild]) with (c0 :: (rest ++ [set_pard (last_d x) nchild])) in E.
      apply (IH _ _ _ _ _ _ _ _ E).
      change (c0 :: rest ++ [set_pard (last_d x) nchild]) with ((c0 :: rest) ++ [set_pard (last_d x) nchild]).
      rewrite forallb_app, Hk. cbn [forallb]. rewrite l100_set_pard, (Hrec _ _ _ _ _ _ _ _ E3). reflexivity.
    + injection E as <- _ _. exact Hk.
Qed.

Lemma batch_insert_l100 : forall f, BI100 (batch_insert d f).
Proof.
  induction f as [|f IH]; intros p ms ts ps cons t ps' cons' E; [discriminate|].
  cbn [batch_insert] in E. destruct ps as [|x0 psr] eqn:Eps; [injection E as <- _ _; reflexivity|].
  rewrite <- Eps in *. clear Eps x0 psr.
  destruct (max_set ps =? 0).
  - injection E as <- _ _. apply l100_node. cbn [forallb leaf leaf100_b]. cbn [Nat.eqb andb].
    apply forallb_forall. intros c Hc. apply in_map_iff in Hc. destruct Hc as [x [<- _]]. reflexivity.
  - destruct (batch_insert d f p _ ts _ cons) as [[[child ps1] cons1]|] eqn:E1; [|discriminate].
    pose proof (IH _ _ _ _ _ _ _ _ E1) as Hc.
    destruct ps1 as [|y0 ps1r]; [injection E as <- _ _; assumption|].
    apply (bi_loop_l100 _ IH _ _ _ _ _ _ _ _ _ _ _ _ _ _ E). cbn [forallb]. now rewrite Hc.
Qed.

Theorem batch_create_leaf100_lemma : forall fuel points t,
  batch_create d fuel points = Some t -> leaf100_b t = true.
Proof.
  intros fuel points t E. unfold batch_create in E. destruct points as [|p0 rest]; [discriminate|].
  destruct (map (fun x => (x, [dd d p0 x])) rest) as [|x0 psr] eqn:Eps; [injection E as <-; reflexivity|].
  rewrite <- Eps in E. destruct (max_set _ =? 0).
  - injection E as <-. apply l100_node. cbn [forallb leaf leaf100_b]. cbn [Nat.eqb andb].
    apply forallb_forall. intros c Hc. apply in_map_iff in Hc. destruct Hc as [x [<- _]]. reflexivity.
  - destruct (batch_insert d fuel p0 _ _ _ []) as [[[t0 ps'] cons']|] eqn:E1; [|discriminate]. injection E as <-.
    apply (batch_insert_l100 fuel _ _ _ _ _ _ _ _ E1).
Qed.
End Leaf100.

(* ---------- closed statements ---------- *)
Theorem batch_create_inv_lemma : forall d fuel p0 rest t,
  batch_create d fuel (p0 :: rest) = Some t ->
  ct_inv_b d t = true /\ c_p t = p0 /\
  (NoDup (p0 :: rest) -> NoDup (leaf_points t)) /\
  (scale_found d p0 rest -> Permutation (leaf_points t) (p0 :: rest)).
Proof.
  intros d fuel p0 rest t E. destruct (batch_create_spec d fuel p0 rest t E) as [H1 [H2 [H3 H4]]].
  split; [assumption|]. split; [assumption|]. split.
  - intros Hnd. apply (NoDup_count_occ Z.eq_dec). intros z. specialize (H3 z).
    apply (NoDup_count_occ Z.eq_dec) with (x := z) in Hnd. unfold cntz in H3. lia.
  - intros Hsf. apply (Permutation_count_occ Z.eq_dec). intros z. apply (H4 Hsf z).
Qed.

(* the tree the construction model builds for the samples 0..N-1 passes both checkers the query theorems need *)
Theorem batch_create_checked_lemma : forall d N fuel t,
  (2 <= N)%nat -> batch_create d fuel (samples N) = Some t ->
  scale_found d 0 (zseq 1 (N - 1)) ->
  ct_inv_b d t = true /\ ct_holds_b N t = true /\ is_leaf t = false.
Proof.
  intros d N fuel t HN E Hsf. destruct N as [|n]; [lia|].
  assert (Hs : samples (S n) = 0 :: zseq 1 n) by reflexivity.
  rewrite Hs in E. replace (S n - 1)%nat with n in Hsf by lia.
  destruct (batch_create_inv_lemma d fuel 0 (zseq 1 n) t E) as [H1 [_ [_ H4]]].
  specialize (H4 Hsf). rewrite <- Hs in H4.
  split; [assumption|]. split.
  - unfold ct_holds_b. rewrite !andb_true_iff. split; [split|].
    + apply nodup_b_spec. apply (Permutation_NoDup (Permutation_sym H4)). apply samples_NoDup.
    + apply Nat.eqb_eq. rewrite (Permutation_length H4). unfold samples. apply zseq_length.
    + apply forallb_forall. intros x Hx. apply (Permutation_in _ H4) in Hx. apply samples_In in Hx.
      apply andb_true_iff. split; [apply Z.leb_le | apply Z.ltb_lt]; lia.
  - destruct (is_leaf t) eqn:Hl; [|reflexivity]. exfalso.
    pose proof (Permutation_length H4) as Hlen. rewrite (lp_leaf t Hl) in Hlen. unfold samples in Hlen.
    rewrite zseq_length in Hlen. cbn [length] in Hlen. lia.
Qed.

(* END TO END on the models: construction + batch query (repaired radius) + repaired selection return, for every
   metric on the samples 0..N-1 and every k < N, exactly a set of k nearest other samples for every row.  The only
   side condition is arithmetical: get_scale found a scale for the largest distance (distances below 1.3^4000). *)
Theorem covertree_pipeline_exact_lemma : forall d N k fuel fuel' t rows ok q cands,
  metric_on (in_range N) d -> (k < N)%nat -> (2 <= N)%nat ->
  batch_create d fuel (samples N) = Some t -> scale_found d 0 (zseq 1 (N - 1)) ->
  ct_query false d (S k) (valid_b d (leaf_points t) (S k)) fuel' t = Some (rows, ok) ->
  In (q, cands) rows ->
  exists l, ct_select_fixed d (q :: cands) k = Some l /\ is_knn d N q k l.
Proof.
  intros d N k fuel fuel' t rows ok q cands Hm Hk HN E Hsf Eq Hin.
  destruct (batch_create_checked_lemma d N fuel t HN E Hsf) as [H1 [H2 H3]].
  apply (covertree_model_exact_lemma d N t k fuel' rows ok q cands Hm Hk H1 H2 H3 Eq Hin).
Qed.

(* ... and the query always answers, with exactly one row per sample *)
Theorem covertree_pipeline_total_lemma : forall d N k fuel t,
  metric_on (in_range N) d -> (k < N)%nat -> (2 <= N)%nat ->
  batch_create d fuel (samples N) = Some t -> scale_found d 0 (zseq 1 (N - 1)) ->
  exists rows ok,
    ct_query false d (S k) (valid_b d (leaf_points t) (S k)) (ct_fuel t) t = Some (rows, ok) /\
    Permutation (map fst rows) (samples N) /\
    forall q cands, In (q, cands) rows ->
      exists l, ct_select_fixed d (q :: cands) k = Some l /\ is_knn d N q k l.
Proof.
  intros d N k fuel t Hm Hk HN E Hsf.
  pose proof (batch_create_leaf100_lemma d fuel (samples N) t E) as H100.
  destruct (ct_query false d (S k) (valid_b d (leaf_points t) (S k)) (ct_fuel t) t) as [[rows ok]|] eqn:Eq.
  - exists rows, ok. split; [reflexivity|]. split.
    + destruct (batch_create_checked_lemma d N fuel t HN E Hsf) as [_ [H2 _]].
      apply (Permutation_trans (ct_query_rows_lemma false d (S k) _ _ t rows ok Eq)). now apply ct_holds_b_sound.
    + intros q cands Hin. apply (covertree_pipeline_exact_lemma d N k fuel (ct_fuel t) t rows ok q cands); assumption.
  - exfalso. apply (ct_query_total_lemma false d (S k) (valid_b d (leaf_points t) (S k)) t H100 Eq).
Qed.
