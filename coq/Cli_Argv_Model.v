(* ====================================================================== *)
(*  Cli_Argv_Model.v — how cxxopts 3.1 (OptionParser::parse, regexes       *)
(*  option_matcher / truthy / falsy) turns argv[1..] into the list of      *)
(*  (spelling, value) pairs that Cli_Model.cli_decide consumes.            *)
(*  NO proofs here.                                                        *)
(*                                                                         *)
(*    --            end of options (the rest is positional: ignored)       *)
(*    --name        long option, name = [[:alnum:]][-_.[:alnum:]]+         *)
(*    --name=value  (value: anything without a line terminator)            *)
(*    -abc          group of one-letter options; a letter that takes a     *)
(*                  value swallows the rest of the token, or, when it is   *)
(*                  the last letter, the next argument                     *)
(*    other tokens  starting with '-' (and longer than "-"): exception     *)
(*    anything else positional (tapkee declares none: ignored)             *)
(*  A flag is boolean with implicit value: `--flag` never consumes the     *)
(*  next argument; `--flag=text` needs text to be true/false-like.         *)
(*  A value option takes the next argument whatever it looks like          *)
(*  (`--gw -0.5` works); none left -> exception.                           *)
(*  The numeric readings of value tokens are oracles (rd).                 *)
(* ====================================================================== *)
From Coq Require Import String Ascii List ZArith QArith Bool Arith.
From TK Require Import Cli_Model.
Import ListNotations.
Local Close Scope Q_scope.
Local Open Scope nat_scope.
Local Open Scope string_scope.

Definition is_alnum (c : ascii) : bool :=
  let n := nat_of_ascii c in
  (Nat.leb 48 n && Nat.leb n 57) || (Nat.leb 65 n && Nat.leb n 90) || (Nat.leb 97 n && Nat.leb n 122).

Definition dash : ascii := ascii_of_nat 45.
Definition equals : ascii := ascii_of_nat 61.
Definition cr : ascii := ascii_of_nat 13.

Definition is_name_char (c : ascii) : bool :=
  is_alnum c || Ascii.eqb c dash || Ascii.eqb c (ascii_of_nat 95) || Ascii.eqb c (ascii_of_nat 46).

Fixpoint has (c : ascii) (s : string) : bool :=
  match s with EmptyString => false | String x r => Ascii.eqb x c || has c r end.

(* `.` of an ECMAScript regex does not match a line terminator *)
Definition one_line (s : string) : bool := negb (has nl s) && negb (has cr s).

(* longest prefix of name characters, and the rest *)
Fixpoint span_name (s : string) : string * string :=
  match s with
  | EmptyString => (EmptyString, EmptyString)
  | String c r => if is_name_char c then let (a, b) := span_name r in (String c a, b)
                  else (EmptyString, s)
  end.

Inductive atok :=
| TEnd                                        (* "--" *)
| TLong (name : string) (value : option string)
| TShort (letters : string)                   (* the token without its dash *)
| TBadDash                                    (* starts with '-' but matches nothing: exception *)
| TPositional.

Definition classify (s : string) : atok :=
  match s with
  | String d1 (String d2 r) =>
    if Ascii.eqb d1 dash then
      if Ascii.eqb d2 dash then
        match r with
        | EmptyString => TEnd
        | String c r' =>
          if is_alnum c then
            let (nm, tl) := span_name r' in
            match nm, tl with
            | EmptyString, _ => TBadDash                              (* a long name has at least 2 characters *)
            | _, EmptyString => TLong (String c nm) None
            | _, String e v => if Ascii.eqb e equals && one_line v then TLong (String c nm) (Some v)
                               else TBadDash
            end
          else TBadDash
        end
      else if is_alnum d2 && one_line r then TShort (String d2 r)
      else TBadDash
    else TPositional
  | _ => TPositional                                                   (* "" and "-" *)
  end.

Definition truthy (s : string) : bool :=
  mem s ["t"; "T"; "true"; "True"; "1"].
Definition falsy (s : string) : bool :=
  mem s ["f"; "F"; "false"; "False"; "0"].

Section Scan.
  Variable rd : string -> option Z * option Q.     (* the two numeric readings of a value token *)
  Variable ds : list odecl.

  Definition mkval (v : string) : aval := AVal v (fst (rd v)) (snd (rd v)).

  Definition is_flag (d : odecl) : bool := match o_default d with DFlag => true | _ => false end.

  Inductive gres :=
  | GThrow
  | GOk (acc : args) (consumed_next : bool).

  (* the letters of one `-abc` token; `next` = the following argument, if any *)
  Fixpoint group (letters : string) (next : option string) (acc : args) : gres :=
    match letters with
    | EmptyString => GOk acc false
    | String c r =>
      let name := String c EmptyString in
      match find_decl name ds with
      | None => GThrow                                               (* no_such_option *)
      | Some d =>
        match r with
        | EmptyString =>                                             (* last letter: checked_parse_arg *)
          if is_flag d then GOk ((name, AFlag) :: acc) false
          else match next with
               | Some v => GOk ((name, mkval v) :: acc) true
               | None => GThrow                                      (* missing_argument *)
               end
        | _ =>
          if is_flag d then group r next ((name, AFlag) :: acc)
          else GOk ((name, mkval r) :: acc) false                    (* the rest of the token is the value *)
        end
      end
    end.

  (* None = options.parse() throws *)
  Fixpoint scan (argv : list string) (acc : args) : option args :=
    match argv with
    | [] => Some (rev acc)
    | s :: rest =>
      match classify s with
      | TEnd => Some (rev acc)
      | TPositional => scan rest acc
      | TBadDash => None
      | TLong name v =>
        match find_decl name ds with
        | None => None
        | Some d =>
          match v with
          | Some val =>
            if is_flag d then (if truthy val || falsy val then scan rest ((name, AFlag) :: acc) else None)
            else scan rest ((name, mkval val) :: acc)
          | None =>
            if is_flag d then scan rest ((name, AFlag) :: acc)
            else match rest with
                 | [] => None
                 | val :: rest' => scan rest' ((name, mkval val) :: acc)
                 end
          end
        end
      | TShort letters =>
        match rest with
        | [] => match group letters None acc with
                | GThrow => None
                | GOk acc' _ => Some (rev acc')
                end
        | nxt :: rest' =>
          match group letters (Some nxt) acc with
          | GThrow => None
          | GOk acc' true => scan rest' acc'
          | GOk acc' false => scan rest acc'
          end
        end
      end
    end.

  (* run() from the real argv *)
  Definition cli_decide_argv (T : tables) (argv : list string) : outcome :=
    match scan argv [] with
    | None => Exit (catch_code T)
    | Some a => cli_decide T a
    end.

  (* the spelling on the command line of an abstract argument *)
  Definition spell (na : string * aval) : list string :=
    let n := fst na in
    let opt := match n with
               | String c EmptyString => String dash n
               | _ => String dash (String dash n)
               end in
    match snd na with
    | AFlag => [opt]
    | AVal v _ _ => [opt; v]
    end.

  Definition concretize (a : args) : list string := flat_map spell a.
End Scan.
