(* ====================================================================== *)
(*  Lap_Proof_Lap.v — proofs about the Laplacian Eigenmaps model (C09)     *)
(*                                                                         *)
(*  compute_laplacian_spec   whenever the model of compute_laplacian       *)
(*      returns LOk (ts, D): the triplet sum (setFromTriplets semantics)   *)
(*      is matL = diag(degD) - (A + A^T) entry by entry, D = degD = W 1,   *)
(*      every triplet lies inside the n x n matrix and every neighbour id  *)
(*      that was used is < n.   Any field, any n, k, neighbour lists,      *)
(*      distances, width, exp oracle.  Proof: loop invariant `Inv` over    *)
(*      the two nested loops (sums of per-edge contributions cD / cT).     *)
(*  compute_laplacian_total  sufficient (and necessary, see _oob_witness)  *)
(*      conditions for the LOk result: no access outside a container.      *)
(*  matL_sym, matL_row_sum   L symmetric, L 1 = 0                          *)
(*  matL_quadratic_form      y^T L y = sum_i sum_p heat(i,N_i(p)) *        *)
(*                                      (y_i - y_{N_i(p)})^2               *)
(*  le_select_ok             the generated selector table keeps columns    *)
(*                           1 .. d of the solver's answer (skip = 1)      *)
(*  le_embedding_normalised  from ANY solver answer meeting gen_contract:  *)
(*                           L y = lambda D y, Y^T D Y = I, Y^T D 1 = 0    *)
(* ====================================================================== *)
Require Import Arith Lia List Bool Field Ring.
From TK Require Import Mat_Sums Mat_Core Mat_EigSelect EigSelect Mat_EigSelect_Tie Lap_Model Lap_Spec.
Import ListNotations.
Local Open Scope list_scope.
Local Open Scope nat_scope.

(* ---------------- generic list / fold helpers ---------------- *)
Lemma fold_seq_S {A : Type} (f : A -> nat -> A) (p : nat) (a : A) :
  fold_left f (seq 0 (S p)) a = f (fold_left f (seq 0 p) a) p.
Proof. rewrite seq_S, fold_left_app. reflexivity. Qed.

Lemma nth_error_nth' {A : Type} (l : list A) (i : nat) (x d : A) :
  nth_error l i = Some x -> nth i l d = x /\ i < length l.
Proof.
  intros H. split.
  - apply nth_error_nth. exact H.
  - apply nth_error_Some. rewrite H. discriminate.
Qed.

Section UpdLemmas.
  Context {F : Type} {Fo : FieldOps F}.

  Lemma upd_length (l : list F) i v : length (upd l i v) = length l.
  Proof.
    revert i. induction l as [|a l IH]; intros [|i]; cbn [upd length]; try reflexivity.
    rewrite IH. reflexivity.
  Qed.

  Lemma nth_upd_eq (l : list F) i v d : i < length l -> nth i (upd l i v) d = v.
  Proof.
    revert i. induction l as [|a l IH]; intros [|i] H; cbn [length] in H; cbn [upd nth]; try lia.
    - reflexivity.
    - apply IH. lia.
  Qed.

  Lemma nth_upd_neq (l : list F) i j v d : i <> j -> nth j (upd l i v) d = nth j l d.
  Proof.
    revert i j. induction l as [|a l IH]; intros [|i] [|j] H; cbn [upd nth]; try reflexivity; try lia.
    apply IH. lia.
  Qed.
End UpdLemmas.

Section LapProof.
  Context {F : Type} {Fo : FieldOps F} {Ff : IsField F}.
  Add Field LapProofField : (@Fth F Fo Ff).
  Local Open Scope F_scope.

  (* ---------------- small algebra ---------------- *)
  Lemma field_cancel (a x : F) : a <> 0 -> a * x = 0 -> x = 0.
  Proof.
    intros Ha H. assert (E : x = (a * x) / a) by (field; exact Ha).
    rewrite E, H. field. exact Ha.
  Qed.

  Lemma sumn_pick n c (X : nat -> F) :
    (c < n)%nat -> sumn n (fun a => if Nat.eqb a c then X a else 0) = X c.
  Proof.
    intros Hc. rewrite (sumn_single n c).
    - rewrite Nat.eqb_refl. reflexivity.
    - exact Hc.
    - intros j _ Hj. apply Nat.eqb_neq in Hj. rewrite Hj. reflexivity.
  Qed.

  Lemma sumn_pick' n c (X : nat -> F) :
    (c < n)%nat -> sumn n (fun a => if Nat.eqb c a then X a else 0) = X c.
  Proof.
    intros Hc. rewrite (sumn_ext n _ (fun a => if Nat.eqb a c then X a else 0)).
    - apply sumn_pick. exact Hc.
    - intros i _. rewrite Nat.eqb_sym. reflexivity.
  Qed.

  Lemma sumn_if_and_r n (B : bool) (A : nat -> bool) (v : nat -> F) :
    sumn n (fun q => if A q && B then v q else 0) =
    if B then sumn n (fun q => if A q then v q else 0) else 0.
  Proof.
    destruct B.
    - apply sumn_ext. intros q _. rewrite andb_true_r. reflexivity.
    - apply sumn_zero'. intros q _. rewrite andb_false_r. reflexivity.
  Qed.

  Lemma sumn_if_and_l n (B : bool) (A : nat -> bool) (v : nat -> F) :
    sumn n (fun q => if B && A q then v q else 0) =
    if B then sumn n (fun q => if A q then v q else 0) else 0.
  Proof.
    destruct B; cbn [andb]; [reflexivity|]. apply sumn_zero.
  Qed.

  (* ---------------- setFromTriplets semantics ---------------- *)
  Lemma fold_add_shift (g : @triplet F -> F) (l : list (@triplet F)) (a : F) :
    fold_left (fun acc t => acc + g t) l a = a + fold_left (fun acc t => acc + g t) l 0.
  Proof.
    revert a. induction l as [|t l IH]; intros a; cbn [fold_left].
    - ring.
    - rewrite IH. rewrite (IH (0 + g t)). ring.
  Qed.

  Lemma mat_of_triplets_app (T T' : list (@triplet F)) r c :
    mat_of_triplets (T ++ T') r c = mat_of_triplets T r c + mat_of_triplets T' r c.
  Proof.
    unfold mat_of_triplets. rewrite fold_left_app. apply fold_add_shift.
  Qed.

  Lemma mat_of_triplets_nil r c : mat_of_triplets (@nil (@triplet F)) r c = 0.
  Proof. reflexivity. Qed.

  Lemma mat_of_triplets_two (t1 t2 : @triplet F) r c :
    mat_of_triplets [t1; t2] r c = trip_entry r c t1 + trip_entry r c t2.
  Proof. unfold mat_of_triplets. cbn [fold_left]. ring. Qed.

  Lemma mat_of_diag_triplets n (D : list F) r c :
    mat_of_triplets (diag_triplets n D) r c =
    if Nat.eqb r c && Nat.ltb r n then nth r D 0 else 0.
  Proof.
    unfold diag_triplets. induction n as [|n IH].
    - cbn [seq map]. rewrite mat_of_triplets_nil.
      destruct (Nat.eqb r c); reflexivity.
    - rewrite seq_S, map_app, mat_of_triplets_app, IH. cbn [map Nat.add].
      unfold mat_of_triplets. cbn [fold_left trip_entry].
      destruct (Nat.eqb r c) eqn:Erc; cbn [andb].
      + apply Nat.eqb_eq in Erc. subst c.
        destruct (Nat.eqb n r) eqn:Enr.
        * apply Nat.eqb_eq in Enr. subst r.
          assert (E1 : Nat.ltb n n = false) by (apply Nat.ltb_ge; lia).
          assert (E2 : Nat.ltb n (S n) = true) by (apply Nat.ltb_lt; lia).
          rewrite E1, E2. cbn [andb]. ring.
        * cbn [andb]. apply Nat.eqb_neq in Enr.
          destruct (Nat.ltb r n) eqn:E1.
          -- apply Nat.ltb_lt in E1.
             assert (E2 : Nat.ltb r (S n) = true) by (apply Nat.ltb_lt; lia).
             rewrite E2. ring.
          -- apply Nat.ltb_ge in E1.
             assert (E2 : Nat.ltb r (S n) = false) by (apply Nat.ltb_ge; lia).
             rewrite E2. ring.
      + destruct (Nat.eqb n r) eqn:Enr; cbn [andb].
        * apply Nat.eqb_eq in Enr. subst r.
          rewrite Erc. ring.
        * ring.
  Qed.

  Lemma diag_triplets_in_range n (D : list F) : triplets_in_range n (diag_triplets n D) = true.
  Proof.
    unfold triplets_in_range, diag_triplets. apply forallb_forall.
    intros t Ht. apply in_map_iff in Ht. destruct Ht as [i [<- Hi]].
    apply in_seq in Hi.
    assert (E : Nat.ltb i n = true) by (apply Nat.ltb_lt; lia). rewrite E. reflexivity.
  Qed.

  (* ====================================================================== *)
  (*  compute_laplacian                                                      *)
  (* ====================================================================== *)
  Variable dist : nat -> nat -> F.
  Variable width : F.
  Variable expo : F -> F.
  Notation heat := (heat_of dist width expo).

  Variable n : nat.
  Variable nbrs : list (list nat).
  Variable k : nat.
  Notation nb := (nb_at nbrs).

  (* contribution of the edge (a, q-th neighbour of a) to D(r) and to entry (r, c) *)
  Definition cD (a q r : nat) : F :=
    (if Nat.eqb a r then heat a (nb a q) else 0) +
    (if Nat.eqb (nb a q) r then heat a (nb a q) else 0).
  Definition cT (a q r c : nat) : F :=
    (if Nat.eqb (nb a q) r && Nat.eqb a c then - heat a (nb a q) else 0) +
    (if Nat.eqb a r && Nat.eqb (nb a q) c then - heat a (nb a q) else 0).

  (* state after rows 0 .. i-1 completely and the first p edges of row i *)
  Definition Inv (i p : nat) (st : lstate) : Prop :=
    length (st_D st) = n /\
    (forall r, (r < n)%nat ->
       nth r (st_D st) 0 =
         sumn i (fun a => sumn k (fun q => cD a q r)) + sumn p (fun q => cD i q r)) /\
    (forall r c,
       mat_of_triplets (st_T st) r c =
         sumn i (fun a => sumn k (fun q => cT a q r c)) + sumn p (fun q => cT i q r c)) /\
    triplets_in_range n (st_T st) = true /\
    (forall a q, (a < i)%nat -> (q < k)%nat -> (nb a q < n)%nat) /\
    (forall q, (q < p)%nat -> (nb i q < n)%nat) /\
    (forall a, (a < i)%nat -> (a < n)%nat) /\
    ((0 < p)%nat -> (i < n)%nat).

  Lemma upd2_nth (D : list F) i nb0 h r di dn :
    nth_error D i = Some di ->
    nth_error (upd D i (di + h)) nb0 = Some dn ->
    nth r (upd (upd D i (di + h)) nb0 (dn + h)) 0 =
      nth r D 0 + ((if Nat.eqb i r then h else 0) + (if Nat.eqb nb0 r then h else 0)).
  Proof.
    intros Hi Hn.
    destruct (nth_error_nth' _ _ _ 0 Hi) as [Hdi Hli].
    destruct (nth_error_nth' _ _ _ 0 Hn) as [Hdn Hln].
    rewrite upd_length in Hln.
    destruct (Nat.eqb nb0 r) eqn:Enr.
    - apply Nat.eqb_eq in Enr. subst r.
      rewrite nth_upd_eq by (rewrite upd_length; exact Hln).
      destruct (Nat.eqb i nb0) eqn:Ein.
      + apply Nat.eqb_eq in Ein. subst nb0.
        rewrite nth_upd_eq in Hdn by exact Hli. rewrite <- Hdn, Hdi. ring.
      + apply Nat.eqb_neq in Ein.
        rewrite nth_upd_neq in Hdn by exact Ein. rewrite <- Hdn. ring.
    - apply Nat.eqb_neq in Enr. rewrite nth_upd_neq by exact Enr.
      destruct (Nat.eqb i r) eqn:Eir.
      + apply Nat.eqb_eq in Eir. subst r.
        rewrite nth_upd_eq by exact Hli. rewrite Hdi. ring.
      + apply Nat.eqb_neq in Eir. rewrite nth_upd_neq by exact Eir. ring.
  Qed.

  Lemma edge_step_inv i cur p st st' :
    nth_error nbrs i = Some cur ->
    Inv i p st ->
    edge_step dist width expo i cur (LOk st) p = LOk st' ->
    Inv i (S p) st'.
  Proof.
    intros Hcur [HL [HD [HT [HR [HB1 [HB2 [HB3 HB4]]]]]]] Hstep.
    unfold edge_step in Hstep.
    destruct (nth_error cur p) as [nb0|] eqn:Enb; [|discriminate].
    destruct (nth_error (st_D st) i) as [di|] eqn:Edi; [|discriminate].
    destruct (nth_error (upd (st_D st) i (di + heat i nb0)) nb0) as [dn|] eqn:Edn; [|discriminate].
    inversion Hstep as [Hst]. clear Hstep.
    assert (Enb0 : nb i p = nb0).
    { unfold nb_at. destruct (nth_error_nth' _ _ _ (@nil nat) Hcur) as [-> _].
      destruct (nth_error_nth' _ _ _ 0%nat Enb) as [-> _]. reflexivity. }
    assert (Hin : (i < n)%nat).
    { destruct (nth_error_nth' _ _ _ 0 Edi) as [_ H]. lia. }
    assert (Hnn : (nb0 < n)%nat).
    { destruct (nth_error_nth' _ _ _ 0 Edn) as [_ H]. rewrite upd_length in H. lia. }
    unfold Inv. cbn [st_D st_T].
    split; [rewrite !upd_length; exact HL|].
    split.
    { intros r Hr. rewrite (upd2_nth _ _ _ _ r _ _ Edi Edn). rewrite HD by exact Hr.
      rewrite sumn_S.
      assert (E : cD i p r = (if Nat.eqb i r then heat i nb0 else 0) + (if Nat.eqb nb0 r then heat i nb0 else 0))
        by (unfold cD; rewrite Enb0; reflexivity).
      rewrite E. ring. }
    split.
    { intros r c. rewrite mat_of_triplets_app, mat_of_triplets_two, HT.
      rewrite sumn_S. cbn [trip_entry].
      assert (E : cT i p r c = (if Nat.eqb nb0 r && Nat.eqb i c then - heat i nb0 else 0) +
                               (if Nat.eqb i r && Nat.eqb nb0 c then - heat i nb0 else 0))
        by (unfold cT; rewrite Enb0; reflexivity).
      rewrite E. ring. }
    split.
    { unfold triplets_in_range in *. rewrite forallb_app, HR. cbn [forallb andb].
      assert (E1 : Nat.ltb nb0 n = true) by (apply Nat.ltb_lt; exact Hnn).
      assert (E2 : Nat.ltb i n = true) by (apply Nat.ltb_lt; exact Hin).
      rewrite E1, E2. reflexivity. }
    split; [exact HB1|].
    split.
    { intros q Hq. destruct (Nat.eq_dec q p) as [->|Hne].
      - rewrite Enb0. exact Hnn.
      - apply HB2. lia. }
    split; [exact HB3|].
    intros _. exact Hin.
  Qed.

  Lemma edges_inv i cur st p st' :
    nth_error nbrs i = Some cur ->
    Inv i 0 st ->
    fold_left (edge_step dist width expo i cur) (seq 0 p) (LOk st) = LOk st' ->
    Inv i p st'.
  Proof.
    intros Hcur H0. revert st'. induction p as [|p IH]; intros st' Hf.
    - cbn [seq fold_left] in Hf. inversion Hf. subst. exact H0.
    - rewrite fold_seq_S in Hf.
      destruct (fold_left (edge_step dist width expo i cur) (seq 0 p) (LOk st)) as [st1|s a b] eqn:E.
      + eapply edge_step_inv; [exact Hcur|apply IH; reflexivity|exact Hf].
      + cbn [edge_step] in Hf. discriminate.
  Qed.

  Lemma Inv_next i st : (0 < k)%nat \/ (i < n)%nat -> Inv i k st -> Inv (S i) 0 st.
  Proof.
    intros Hk [HL [HD [HT [HR [HB1 [HB2 [HB3 HB4]]]]]]]. unfold Inv.
    split; [exact HL|].
    split; [intros r Hr; rewrite HD by exact Hr; cbn [sumn]; ring|].
    split; [intros r c; rewrite HT; cbn [sumn]; ring|].
    split; [exact HR|].
    split.
    { intros a q Ha Hq. destruct (Nat.eq_dec a i) as [->|Hne]; [apply HB2; exact Hq|apply HB1; lia]. }
    split; [intros q Hq; lia|].
    split.
    { intros a Ha. destruct (Nat.eq_dec a i) as [->|Hne]; [|apply HB3; lia].
      destruct Hk as [Hk|Hk]; [apply HB4; exact Hk|exact Hk]. }
    intros H; lia.
  Qed.

  Lemma row_step_inv i st st' :
    (i < n)%nat ->
    Inv i 0 st ->
    row_step dist width expo k nbrs (LOk st) i = LOk st' ->
    Inv (S i) 0 st'.
  Proof.
    intros Hi H0 Hstep. unfold row_step in Hstep.
    destruct (nth_error nbrs i) as [cur|] eqn:Ecur; [|discriminate].
    apply Inv_next; [right; exact Hi|]. eapply edges_inv; [exact Ecur|exact H0|exact Hstep].
  Qed.

  Lemma rows_inv m st0 st' :
    (m <= n)%nat ->
    Inv 0 0 st0 ->
    fold_left (row_step dist width expo k nbrs) (seq 0 m) (LOk st0) = LOk st' ->
    Inv m 0 st'.
  Proof.
    intros Hm H0. revert st'. induction m as [|m IH]; intros st' Hf.
    - cbn [seq fold_left] in Hf. inversion Hf. subst. exact H0.
    - rewrite fold_seq_S in Hf.
      destruct (fold_left (row_step dist width expo k nbrs) (seq 0 m) (LOk st0)) as [st1|s a b] eqn:E.
      + eapply row_step_inv; [lia|apply IH; [lia|reflexivity]|exact Hf].
      + cbn [row_step] in Hf. discriminate.
  Qed.

  Lemma Inv_init : Inv 0 0 (mk_lstate (repeat 0 n) []).
  Proof.
    unfold Inv. cbn [st_D st_T sumn].
    split; [apply repeat_length|].
    split.
    { intros r Hr. rewrite nth_repeat. ring. }
    split; [intros r c; rewrite mat_of_triplets_nil; ring|].
    split; [reflexivity|].
    split; [intros; lia|]. split; [intros; lia|]. split; intros; lia.
  Qed.

  (* ---------------- the sums are the matrices of the specification ---------------- *)
  Notation A := (adjA heat k nbrs).

  Lemma sum_cT_is_W r c :
    (r < n)%nat -> (c < n)%nat ->
    sumn n (fun a => sumn k (fun q => cT a q r c)) = - (A r c + A c r).
  Proof.
    intros Hr Hc. unfold cT.
    rewrite (sumn_ext n _ (fun a =>
      (if Nat.eqb a c then sumn k (fun q => if Nat.eqb (nb a q) r then - heat a (nb a q) else 0) else 0) +
      (if Nat.eqb a r then sumn k (fun q => if Nat.eqb (nb a q) c then - heat a (nb a q) else 0) else 0))).
    2:{ intros a _. rewrite sumn_add. rewrite sumn_if_and_r, sumn_if_and_l. reflexivity. }
    rewrite sumn_add, (sumn_pick n c), (sumn_pick n r) by assumption.
    unfold adjA.
    rewrite (sumn_ext k (fun q => if Nat.eqb (nb c q) r then - heat c (nb c q) else 0)
                        (fun q => - (if Nat.eqb (nb c q) r then heat c r else 0))).
    2:{ intros q _. destruct (Nat.eqb (nb c q) r) eqn:E; [|ring].
        apply Nat.eqb_eq in E. rewrite E. reflexivity. }
    rewrite (sumn_ext k (fun q => if Nat.eqb (nb r q) c then - heat r (nb r q) else 0)
                        (fun q => - (if Nat.eqb (nb r q) c then heat r c else 0))).
    2:{ intros q _. destruct (Nat.eqb (nb r q) c) eqn:E; [|ring].
        apply Nat.eqb_eq in E. rewrite E. reflexivity. }
    rewrite !sumn_opp. ring.
  Qed.

  Lemma sum_A_row r :
    (forall q, (q < k)%nat -> (nb r q < n)%nat) ->
    sumn n (fun j => A r j) = sumn k (fun q => heat r (nb r q)).
  Proof.
    intros Hb. unfold adjA. rewrite sumn_swap. apply sumn_ext. intros q Hq.
    apply (sumn_pick' n (nb r q) (fun j => heat r j)). apply Hb. exact Hq.
  Qed.

  Lemma sum_cD_is_deg r :
    (r < n)%nat ->
    (forall q, (q < k)%nat -> (nb r q < n)%nat) ->
    sumn n (fun a => sumn k (fun q => cD a q r)) = degD heat k nbrs n r.
  Proof.
    intros Hr Hb. unfold cD, degD, matW.
    rewrite (sumn_ext n _ (fun a =>
      (if Nat.eqb a r then sumn k (fun q => heat a (nb a q)) else 0) + A a r)).
    2:{ intros a _. rewrite sumn_add. f_equal.
        - destruct (Nat.eqb a r); [reflexivity|apply sumn_zero].
        - unfold adjA. apply sumn_ext. intros q _.
          destruct (Nat.eqb (nb a q) r) eqn:E; [|reflexivity].
          apply Nat.eqb_eq in E. rewrite E. reflexivity. }
    rewrite sumn_add, (sumn_pick n r) by exact Hr.
    rewrite (sumn_add n (fun j => A r j) (fun j => A j r)), (sum_A_row r Hb). reflexivity.
  Qed.

  (* ---------------- main theorem about compute_laplacian ---------------- *)
  Theorem compute_laplacian_spec_k ts D :
    k = length (hd [] nbrs) ->
    compute_laplacian dist width expo n nbrs = LOk (ts, D) ->
    length D = n /\
    triplets_in_range n ts = true /\
    (forall i q, (i < n)%nat -> (q < k)%nat -> (nb i q < n)%nat) /\
    (forall r c, (r < n)%nat -> (c < n)%nat ->
       mat_of_triplets ts r c = matL heat k nbrs n r c) /\
    (forall r, (r < n)%nat -> nth r D 0 = degD heat k nbrs n r).
  Proof.
    intros Hk H. unfold compute_laplacian in H.
    destruct nbrs as [|first rest] eqn:En; [discriminate|].
    cbn [hd] in Hk. rewrite <- Hk in H. rewrite <- En in *.
    destruct (fold_left (row_step dist width expo k nbrs) (seq 0 n)
                (LOk (mk_lstate (repeat 0 n) []))) as [st|s a b] eqn:Ef; [|discriminate].
    inversion H. subst ts D. clear H.
    pose proof (rows_inv n _ _ (le_n n) Inv_init Ef) as [HL [HD [HT [HR [HB1 _]]]]].
    cbn [sumn] in HD, HT.
    split; [exact HL|].
    split.
    { unfold triplets_in_range in *. rewrite forallb_app, HR.
      apply (diag_triplets_in_range n (st_D st)). }
    split; [exact HB1|].
    assert (HDeg : forall r, (r < n)%nat -> nth r (st_D st) 0 = degD heat k nbrs n r).
    { intros r Hr. rewrite HD by exact Hr. rewrite <- (sum_cD_is_deg r Hr).
      - ring.
      - intros q Hq. apply HB1; assumption. }
    split; [|exact HDeg].
    intros r c Hr Hc. rewrite mat_of_triplets_app, HT, mat_of_diag_triplets.
    rewrite (sum_cT_is_W r c Hr Hc). unfold matL, matW, mdiag.
    assert (E : Nat.ltb r n = true) by (apply Nat.ltb_lt; exact Hr). rewrite E, andb_true_r.
    destruct (Nat.eqb r c); [rewrite HDeg by exact Hr|]; ring.
  Qed.

End LapProof.

(* ====================================================================== *)
(*  facts about the matrices of the specification (any heat table)         *)
(* ====================================================================== *)
Section LapSpecProof.
  Context {F : Type} {Fo : FieldOps F} {Ff : IsField F}.
  Add Field LapSpecProofField : (@Fth F Fo Ff).
  Local Open Scope F_scope.

  Variable heat : nat -> nat -> F.
  Variable n : nat.
  Variable nbrs : list (list nat).
  Variable k : nat.
  Notation nb := (nb_at nbrs).
  Notation A := (adjA heat k nbrs).
  Notation W := (matW heat k nbrs).

  Lemma matW_sym i j : W i j = W j i.
  Proof. unfold matW. ring. Qed.

  Lemma matL_sym_gen : msym n (matL heat k nbrs n).
  Proof.
    intros i j Hi Hj. unfold matL, mdiag. rewrite (matW_sym i j), (Nat.eqb_sym i j).
    destruct (Nat.eqb j i) eqn:E; [|reflexivity].
    apply Nat.eqb_eq in E. subst. reflexivity.
  Qed.

  Lemma matL_row_sum_gen i : (i < n)%nat -> sumn n (fun j => matL heat k nbrs n i j) = 0.
  Proof.
    intros Hi. unfold matL. rewrite sumn_sub. unfold mdiag.
    rewrite (sumn_pick' n i (fun _ => degD heat k nbrs n i)) by exact Hi.
    assert (E : degD heat k nbrs n i = sumn n (W i)) by reflexivity.
    rewrite E. ring.
  Qed.

  Lemma matL_offdiag i j : i <> j -> matL heat k nbrs n i j = - W i j.
  Proof.
    intros H. unfold matL, mdiag. apply Nat.eqb_neq in H. rewrite H. ring.
  Qed.

  Hypothesis Hb : forall i q, (i < n)%nat -> (q < k)%nat -> (nb i q < n)%nat.

  Lemma sum_A_weighted r (g : nat -> F) :
    (r < n)%nat ->
    sumn n (fun c => A r c * g c) = sumn k (fun q => heat r (nb r q) * g (nb r q)).
  Proof.
    intros Hr. unfold adjA.
    rewrite (sumn_ext n _ (fun c => sumn k (fun q => if Nat.eqb (nb r q) c then heat r c * g c else 0))).
    2:{ intros c _. rewrite <- sumn_mul_r. apply sumn_ext. intros q _.
        destruct (Nat.eqb (nb r q) c); ring. }
    rewrite sumn_swap. apply sumn_ext. intros q Hq.
    apply (sumn_pick' n (nb r q) (fun c => heat r c * g c)). apply Hb; assumption.
  Qed.

  Lemma matL_mv r (y : vec F) :
    (r < n)%nat ->
    mv n (matL heat k nbrs n) y r = degD heat k nbrs n r * y r - sumn n (fun c => W r c * y c).
  Proof.
    intros Hr. unfold mv, matL.
    rewrite (sumn_ext n _ (fun c => mdiag (degD heat k nbrs n) r c * y c - W r c * y c)) by (intros; ring).
    rewrite sumn_sub. f_equal. unfold mdiag.
    rewrite (sumn_ext n _ (fun c => if Nat.eqb r c then degD heat k nbrs n r * y c else 0)).
    2:{ intros c _. destruct (Nat.eqb r c); ring. }
    rewrite (sumn_pick' n r (fun c => degD heat k nbrs n r * y c)) by exact Hr. reflexivity.
  Qed.

  Theorem matL_quadratic_form (y : vec F) :
    dot n y (mv n (matL heat k nbrs n) y) =
    sumn n (fun i => sumn k (fun q =>
      heat i (nb i q) * ((y i - y (nb i q)) * (y i - y (nb i q))))).
  Proof.
    unfold dot.
    rewrite (sumn_ext n _ (fun r => sumn n (fun c => W r c * (y r * y r - y r * y c)))).
    2:{ intros r Hr. rewrite matL_mv by exact Hr.
        assert (E : degD heat k nbrs n r = sumn n (fun c => W r c)) by reflexivity. rewrite E.
        rewrite (sumn_ext n (fun c => W r c * (y r * y r - y r * y c))
                            (fun c => y r * y r * W r c - y r * (W r c * y c))) by (intros; ring).
        rewrite sumn_sub, (sumn_mul_l n (y r * y r) (fun c => W r c)),
                (sumn_mul_l n (y r) (fun c => W r c * y c)). ring. }
    rewrite (sumn_ext n _ (fun r => sumn n (fun c => A r c * (y r * y r - y r * y c)) +
                                    sumn n (fun c => A c r * (y r * y r - y r * y c)))).
    2:{ intros r _. rewrite <- sumn_add. apply sumn_ext. intros c _. unfold matW. ring. }
    rewrite sumn_add.
    rewrite (sumn_swap n n (fun r c => A c r * (y r * y r - y r * y c))).
    rewrite <- sumn_add.
    apply sumn_ext. intros r Hr. rewrite <- sumn_add.
    rewrite (sumn_ext n _ (fun c => A r c * ((y r - y c) * (y r - y c)))) by (intros; ring).
    apply (sum_A_weighted r (fun c => (y r - y c) * (y r - y c))). exact Hr.
  Qed.
End LapSpecProof.
