(* ====================================================================== *)
(*  Properties_C10.v — NPE, LLTSA and LPP solve the full feature-space     *)
(*  generalised eigenproblem.  Only statements; every proof is `exact`.    *)
(*                                                                         *)
(*  Model variants (Pencil_Model.v):  *_shipped = tree before fix F9,      *)
(*  *_repaired = after F9 (NPE, LPP: CURRENT code), lltsa_fixed = after    *)
(*  F9 and F25, lltsa_centred = after F9, F25 and F42 (CURRENT code).      *)
(*  X : D x N feature matrix (samples = columns), W : list of stored       *)
(*  entries of the sparse N x N matrix, sym2 M = M + M^T.                  *)
(*  All statements with F are for EVERY field F (so also for Qc, the       *)
(*  instance that is extracted and run against the C++).                   *)
(* ====================================================================== *)

Require Import Arith List Bool QArith Qcanon.
From TK Require Import Mat_Sums Mat_Core Mat_Qc Mat_EigSelect Spectral_KyFan Pencil_Model Pencil_Spec
     Pencil_Proof_Sums Pencil_Proof Pencil_Proof_Rot Pencil_Proof_KyFan Pencil_Proof_Qc
     EigSelect Pencil_Proof_Tie Pencil_Proof_Unique Pencil_Proof_Embed Pencil_Proof_Scale Pencil_Proof_Front
     Pencil_Proof_OnePass.
Import ListNotations.
Local Open Scope F_scope.

(* ---------- 1. what the routines return, and what the solver sees of it ---------- *)
Theorem npe_problem :
  forall (F : Type) (Fo : FieldOps F) (Ff : IsField F) D N (X : mat F) (W : sparse F),
    indices_ok N W ->
    is_pencil D (XMXt N X (sym2 (dense_of W))) (XMXt N X mI) (npe_repaired X N W) /\
    solver_sees D (XMXt N X (sym2 (dense_of W))) (XMXt N X mI) (npe_repaired X N W).
Proof. exact (fun F Fo Ff D N X W H => conj (npe_problem_gen D N X W H) (npe_seen_gen D N X W H)). Qed.
Print Assumptions npe_problem.

Theorem lltsa_problem :
  forall (F : Type) (Fo : FieldOps F) (Ff : IsField F) D N (X : mat F) (W : sparse F),
    of_nat N <> 0 -> indices_ok N W ->
    is_pencil D (XMXt N (centred X N) (sym2 (dense_of W))) (XMXt N X (Jn N)) (lltsa_centred X N W) /\
    solver_sees D (XMXt N (centred X N) (sym2 (dense_of W))) (XMXt N X (Jn N)) (lltsa_centred X N W).
Proof.
  exact (fun F Fo Ff D N X W HN H => conj (lltsa_problem_gen D N X W HN H) (lltsa_seen_gen D N X W HN H)).
Qed.
Print Assumptions lltsa_problem.

(* on centred features the lhs is the property's X M X^T for every M whose rows and columns sum
   to zero (an alignment matrix annihilates constants) *)
Theorem lltsa_lhs_is_property_lhs :
  forall (F : Type) (Fo : FieldOps F) (Ff : IsField F) N (X : mat F) (W : sparse F) i j,
    zero_sums N (dense_of W) ->
    XMXt N (centred X N) (sym2 (dense_of W)) i j = XMXt N X (sym2 (dense_of W)) i j.
Proof. exact (@lltsa_lhs_is_XMXt). Qed.
Print Assumptions lltsa_lhs_is_property_lhs.

Theorem lpp_problem :
  forall (F : Type) (Fo : FieldOps F) (Ff : IsField F) D N (X : mat F) (L : sparse F) (dv : vec F),
    indices_ok N L ->
    is_pencil D (XMXt N X (sym2 (dense_of L))) (XMXt N X (mdiag dv)) (lpp_repaired X N L dv) /\
    solver_sees D (XMXt N X (sym2 (dense_of L))) (XMXt N X (mdiag dv)) (lpp_repaired X N L dv).
Proof. exact (fun F Fo Ff D N X L dv H => conj (lpp_problem_gen D N X L dv H) (lpp_seen_gen D N X L dv H)). Qed.
Print Assumptions lpp_problem.

Example problem_nonvacuous :
  indices_ok 2 wW /\ indices_ok 2 aW /\ indices_ok 4 lW /\ zero_sums 2 (dense_of aW) /\ @of_nat Qc QcOps 2 <> 0.
Proof.
  exact (conj wW_ok (conj aW_ok (conj lW_ok (conj aW_zero_sums (Qc_of_nat_neq0 2 (Nat.neq_succ_0 1)))))).
Qed.

Theorem returned_tables_symmetric :
  forall (F : Type) (Fo : FieldOps F) D N (X : mat F) (W : sparse F) (dv : vec F),
    msym D (p_lhs (npe_repaired X N W)) /\ msym D (p_rhs (npe_repaired X N W)) /\
    msym D (p_lhs (lltsa_repaired X N W)) /\ msym D (p_rhs (lltsa_repaired X N W)) /\
    msym D (p_lhs (lltsa_fixed X N W)) /\ msym D (p_rhs (lltsa_fixed X N W)) /\
    msym D (p_lhs (lltsa_centred X N W)) /\ msym D (p_rhs (lltsa_centred X N W)) /\
    msym D (p_lhs (lpp_repaired X N W dv)) /\ msym D (p_rhs (lpp_repaired X N W dv)).
Proof. exact (@repaired_tables_symmetric). Qed.
Print Assumptions returned_tables_symmetric.

(* ---------- 2. regression: the tree before F9 (solver reads lower triangles) ---------- *)
Theorem npe_seen_refuted :
  exists N D (X : mat Qc) (W : sparse Qc),
    indices_ok N W /\ ~ solver_sees D (npe_lhs N X W) (npe_rhs N X) (npe_shipped X N W).
Proof. exact (ex_intro _ 2%nat (ex_intro _ 2%nat (ex_intro _ wX (ex_intro _ wW npe_seen_refuted_w)))). Qed.
Print Assumptions npe_seen_refuted.

Theorem lltsa_seen_refuted :
  exists N D (X : mat Qc) (W : sparse Qc),
    indices_ok N W /\ ~ solver_sees D (lltsa_lhs_f9 N X W) (lltsa_rhs N X) (lltsa_shipped X N W).
Proof. exact (ex_intro _ 2%nat (ex_intro _ 2%nat (ex_intro _ wX2 (ex_intro _ wW lltsa_seen_refuted_w)))). Qed.
Print Assumptions lltsa_seen_refuted.

Theorem lpp_seen_refuted :
  exists N D (X : mat Qc) (L : sparse Qc) (dv : vec Qc),
    indices_ok N L /\ ~ solver_sees D (lpp_lhs N X L) (lpp_rhs N X dv) (lpp_shipped X N L dv).
Proof.
  exact (ex_intro _ 2%nat (ex_intro _ 2%nat (ex_intro _ wX (ex_intro _ wW (ex_intro _ wdv lpp_seen_refuted_w))))).
Qed.
Print Assumptions lpp_seen_refuted.

(* ... and what it saw instead, for every input: diag(X M X^T); rhs with halved off-diagonals
   (NPE) or its diagonal only (LPP) *)
Theorem npe_shipped_sees_diagonal :
  forall (F : Type) (Fo : FieldOps F) (Ff : IsField F) D N (X : mat F) (W : sparse F),
    two <> 0 -> indices_ok N W ->
    solver_sees D
      (fun i j => if Nat.eqb i j then npe_lhs N X W i j else 0)
      (fun i j => if Nat.eqb i j then npe_rhs N X i j else npe_rhs N X i j / two)
      (npe_shipped X N W).
Proof. exact (@npe_shipped_seen_gen). Qed.
Print Assumptions npe_shipped_sees_diagonal.

Theorem lpp_shipped_sees_diagonal :
  forall (F : Type) (Fo : FieldOps F) (Ff : IsField F) D N (X : mat F) (L : sparse F) (dv : vec F),
    indices_ok N L ->
    solver_sees D
      (fun i j => if Nat.eqb i j then lpp_lhs N X L i j else 0)
      (fun i j => if Nat.eqb i j then lpp_rhs N X dv i j else 0)
      (lpp_shipped X N L dv).
Proof. exact (@lpp_shipped_seen_gen). Qed.
Print Assumptions lpp_shipped_sees_diagonal.

Example shipped_nonvacuous : @two Qc QcOps <> 0 /\ indices_ok 2 wW.
Proof. exact (conj Qc_two_neq0 wW_ok). Qed.

(* ---------- 3. regression F25: LLTSA after F9 still subtracted (X1)(X1)^T/N from lhs ---------- *)
Theorem lltsa_f9_lhs_is :
  forall (F : Type) (Fo : FieldOps F) (Ff : IsField F) D N (X : mat F) (W : sparse F),
    indices_ok N W ->
    is_pencil D (fun i j => XMXt N X (sym2 (dense_of W)) i j
                            - / of_nat N * (sumn N (fun s => X i s) * sumn N (fun t => X j t)))
              (XMXt N X (Jn N)) (lltsa_repaired X N W).
Proof.
  exact (fun F Fo Ff D N X W H =>
           conj (fun i j Hi Hj => eq_trans (proj1 (lltsa_f9_pencil_gen D N X W H) i j Hi Hj)
                                           (lltsa_f9_lhs_gap N X W i j))
                (proj2 (lltsa_f9_pencil_gen D N X W H))).
Qed.
Print Assumptions lltsa_f9_lhs_is.

Theorem lltsa_f9_refuted :
  exists N D (X : mat Qc) (W : sparse Qc),
    indices_ok N W /\ zero_sums N (dense_of W) /\
    ~ is_pencil D (lltsa_lhs N X W) (lltsa_rhs N X) (lltsa_repaired X N W).
Proof. exact (ex_intro _ 2%nat (ex_intro _ 1%nat (ex_intro _ aX (ex_intro _ aW lltsa_f9_refuted_w)))). Qed.
Print Assumptions lltsa_f9_refuted.

Theorem lltsa_f9_translation_refuted :
  exists (c : vec Qc),
    p_lhs (lltsa_repaired (shift_by aX c) 2 aW) 0%nat 0%nat <> p_lhs (lltsa_repaired aX 2 aW) 0%nat 0%nat.
Proof. exact lltsa_f9_translation_refuted_w. Qed.
Print Assumptions lltsa_f9_translation_refuted.

Theorem lltsa_f9_centred_ok :
  forall (F : Type) (Fo : FieldOps F) (Ff : IsField F) D N (X : mat F) (W : sparse F),
    indices_ok N W -> (forall f, (f < D)%nat -> sumn N (fun s => X f s) = 0) ->
    is_pencil D (XMXt N X (sym2 (dense_of W))) (XMXt N X (Jn N)) (lltsa_repaired X N W).
Proof. exact (@Pencil_Proof.lltsa_f9_centred_ok). Qed.
Print Assumptions lltsa_f9_centred_ok.

Example lltsa_f9_centred_nonvacuous :
  indices_ok 4 lW /\ (forall f, (f < 1)%nat -> sumn 4 (fun s => lX f s) = 0).
Proof.
  exact (conj lW_ok (fun f Hf => match f as f0 return ((f0 < 1)%nat -> sumn 4 (fun s => lX f0 s) = 0) with
                                 | O => fun _ => eq_refl
                                 | S k => fun H => False_ind _ (Nat.nlt_0_r k (proj2 (Nat.succ_lt_mono k 0) H))
                                 end Hf)).
Qed.

(* ---------- 3b. regression F42: between F25 and F42 lhs was the UNCENTRED X (W+W^T) X^T ---------- *)
Theorem lltsa_f25_lhs_is :
  forall (F : Type) (Fo : FieldOps F) (Ff : IsField F) D N (X : mat F) (W : sparse F),
    indices_ok N W ->
    is_pencil D (XMXt N X (sym2 (dense_of W))) (XMXt N X (Jn N)) (lltsa_fixed X N W).
Proof. exact (@lltsa_f25_pencil_gen). Qed.
Print Assumptions lltsa_f25_lhs_is.

Theorem lltsa_f25_refuted :
  exists N D (X : mat Qc) (W : sparse Qc),
    indices_ok N W /\ ~ is_pencil D (lltsa_lhs N X W) (lltsa_rhs N X) (lltsa_fixed X N W).
Proof. exact (ex_intro _ 2%nat (ex_intro _ 1%nat (ex_intro _ aX (ex_intro _ sW lltsa_f25_refuted_w)))). Qed.
Print Assumptions lltsa_f25_refuted.

Theorem lltsa_f25_translation_refuted :
  exists (c : vec Qc),
    p_lhs (lltsa_fixed (shift_by aX c) 2 sW) 0%nat 0%nat <> p_lhs (lltsa_fixed aX 2 sW) 0%nat 0%nat.
Proof. exact lltsa_f25_translation_refuted_w. Qed.
Print Assumptions lltsa_f25_translation_refuted.

(* CURRENT code: translation invariant for every sparse matrix W *)
Theorem lltsa_translation_invariant :
  forall (F : Type) (Fo : FieldOps F) (Ff : IsField F) N (X : mat F) (W : sparse F) (c : vec F) i j,
    indices_ok N W -> of_nat N <> 0 ->
    p_lhs (lltsa_centred (shift_by X c) N W) i j = p_lhs (lltsa_centred X N W) i j /\
    p_rhs (lltsa_centred (shift_by X c) N W) i j = p_rhs (lltsa_centred X N W) i j.
Proof. exact (@lltsa_centred_translation_invariant). Qed.
Print Assumptions lltsa_translation_invariant.

Example lltsa_translation_nonvacuous : indices_ok 2 sW /\ @of_nat Qc QcOps 2 <> 0.
Proof. exact (conj sW_ok (Qc_of_nat_neq0 2 (Nat.neq_succ_0 1))). Qed.

(* ---------- 4. column selection and the oracle contract ---------- *)
Theorem select_cols_in_range :
  forall (F : Type) D d (V : mat F),
    (d <= D)%nat -> exists P, select_cols D d V = Ok P /\ forall i j, P i j = V i j.
Proof. exact (@select_cols_ok). Qed.
Print Assumptions select_cols_in_range.

Theorem select_cols_out_of_range :
  forall (F : Type) D d (V : mat F), (D < d)%nat -> select_cols D d V = OOB 3 d D.
Proof. exact (@select_cols_oob). Qed.
Print Assumptions select_cols_out_of_range.

(* the model's selector is the expression translate/t_eig.py reads out of the smallest-eigenvalue arm of
   generalized_eigendecomposition_impl_dense (generated table gen/EigSelect.v; base object of size N) *)
Theorem selector_is_the_source_expression :
  match filter is_gen_dense_smallest eig_table with
  | [b] => match b_base b with BaseN => ops_eqb (b_cols b) gen_dense_cols | _ => false end
  | _ => false
  end = true.
Proof. exact model_selector_is_generated. Qed.
Print Assumptions selector_is_the_source_expression.

Theorem npe_solution :
  forall (F : Type) (Fo : FieldOps F) (Ff : IsField F) D d N (X : mat F) (W : sparse F) (V P : mat F) lam,
    indices_ok N W -> (d <= D)%nat ->
    oracle_contract D (p_lhs (seen (npe_repaired X N W))) (p_rhs (seen (npe_repaired X N W))) V lam ->
    select_cols D d V = Ok P ->
    gen_eig_solution D d (XMXt N X (sym2 (dense_of W))) (XMXt N X mI) P lam.
Proof. exact (@Pencil_Proof.npe_solution). Qed.
Print Assumptions npe_solution.

Theorem lltsa_solution :
  forall (F : Type) (Fo : FieldOps F) (Ff : IsField F) D d N (X : mat F) (W : sparse F) (V P : mat F) lam,
    of_nat N <> 0 -> indices_ok N W -> (d <= D)%nat ->
    oracle_contract D (p_lhs (seen (lltsa_centred X N W))) (p_rhs (seen (lltsa_centred X N W))) V lam ->
    select_cols D d V = Ok P ->
    gen_eig_solution D d (XMXt N (centred X N) (sym2 (dense_of W))) (XMXt N X (Jn N)) P lam.
Proof. exact (@Pencil_Proof.lltsa_solution). Qed.
Print Assumptions lltsa_solution.

Theorem lpp_solution :
  forall (F : Type) (Fo : FieldOps F) (Ff : IsField F) D d N (X : mat F) (L : sparse F) dv (V P : mat F) lam,
    indices_ok N L -> (d <= D)%nat ->
    oracle_contract D (p_lhs (seen (lpp_repaired X N L dv))) (p_rhs (seen (lpp_repaired X N L dv))) V lam ->
    select_cols D d V = Ok P ->
    gen_eig_solution D d (XMXt N X (sym2 (dense_of L))) (XMXt N X (mdiag dv)) P lam.
Proof. exact (@Pencil_Proof.lpp_solution). Qed.
Print Assumptions lpp_solution.

Example solution_nonvacuous :
  (indices_ok 2 eW /\ (1 <= 2)%nat /\
   oracle_contract 2 (p_lhs (seen (npe_repaired eX 2 eW))) (p_rhs (seen (npe_repaired eX 2 eW))) eV elam /\
   exists P, select_cols 2 1 eV = Ok P) /\
  (@of_nat Qc QcOps 4 <> 0 /\ indices_ok 4 lW /\ (1 <= 1)%nat /\
   oracle_contract 1 (p_lhs (seen (lltsa_centred lX 4 lW))) (p_rhs (seen (lltsa_centred lX 4 lW))) lV llam) /\
  (oracle_contract 2 (p_lhs (seen (lpp_repaired eX 2 eW wdv))) (p_rhs (seen (lpp_repaired eX 2 eW wdv))) eV elam).
Proof.
  exact (conj (conj eW_ok (conj (le_S 1 1 (le_n 1)) (conj e_contract (ex_intro _ _ eq_refl))))
              (conj (conj (Qc_of_nat_neq0 4 (Nat.neq_succ_0 3)) (conj lW_ok (conj (le_n 1) e_contract_lltsa)))
                    e_contract_lpp)).
Qed.

(* ---------- 4b. "the target_dimension SMALLEST eigenvalues": generalised Ky Fan ---------- *)
(* If the solver's answer is a full decomposition of what it reads (A V = B V diag(lam),
   V^T B V = I, V (V^T B) = I, lam ascending — validated at run time by the G stream), the
   selected columns P cost exactly lam_0 + ... + lam_{d-1} and every B-orthonormal d-frame Q costs
   at least that:  tr(P^T A P) <= tr(Q^T A Q).  Every ordered field, every D, d. *)
Theorem selected_columns_optimal :
  forall (F : Type) (Fo : FieldOps F) (Ff : IsField F) (Fle : OrderedField F)
         D d (A B : mat F) (p : pencil F) (V P Q : mat F) lam,
    solver_sees D A B p -> (d <= D)%nat ->
    full_contract D (p_lhs (seen p)) (p_rhs (seen p)) V lam -> ascending D lam ->
    select_cols D d V = Ok P ->
    meq d d (mmul D (mtrans Q) (mmul D B Q)) mI ->
    quad D d A P = sumn d lam /\ fle (quad D d A P) (quad D d A Q).
Proof. exact (@optimal_via_seen). Qed.
Print Assumptions selected_columns_optimal.

Theorem generalised_ky_fan :
  forall (F : Type) (Fo : FieldOps F) (Ff : IsField F) (Fle : OrderedField F)
         D d (A B V Q : mat F) lam,
    (d <= D)%nat -> full_contract D A B V lam -> ascending D lam ->
    meq d d (mmul D (mtrans Q) (mmul D B Q)) mI ->
    fle (sumn d lam) (quad D d A Q).
Proof. exact (@gen_ky_fan_min). Qed.
Print Assumptions generalised_ky_fan.

Example optimal_nonvacuous :
  solver_sees 2 (npe_lhs 2 eX eW) (npe_rhs 2 eX) (npe_repaired eX 2 eW) /\ (1 <= 2)%nat /\
  full_contract 2 (p_lhs (seen (npe_repaired eX 2 eW))) (p_rhs (seen (npe_repaired eX 2 eW))) eV elam /\
  ascending 2 elam /\ (exists P, select_cols 2 1 eV = Ok P) /\
  meq 1 1 (mmul 2 (mtrans eQ) (mmul 2 (npe_rhs 2 eX) eQ)) mI.
Proof.
  exact (conj (npe_seen_gen 2 2 eX eW eW_ok)
        (conj (le_S 1 1 (le_n 1))
        (conj e_full_contract (conj e_ascending (conj (ex_intro _ _ eq_refl) eQ_orthonormal))))).
Qed.

(* per-column sign is free, and is the only freedom inside a one-dimensional eigenspace *)
Theorem column_sign_free :
  forall (F : Type) (Fo : FieldOps F) (Ff : IsField F) D d (A B P : mat F) lam (sg : vec F),
    (forall j, (j < d)%nat -> sg j * sg j = 1) ->
    gen_eig_solution D d A B P lam ->
    gen_eig_solution D d A B (fun i j => sg j * P i j) lam.
Proof. exact (@gen_eig_solution_sign). Qed.
Print Assumptions column_sign_free.

Theorem normalised_multiple_is_plus_or_minus :
  forall (F : Type) (Fo : FieldOps F) (Ff : IsField F) D (B : mat F) (p q : vec F) c,
    (forall i, (i < D)%nat -> q i = c * p i) ->
    dot D p (mv D B p) = 1 -> dot D q (mv D B q) = 1 ->
    c * c = 1 /\ (c <> 1 -> c = - (1)).
Proof. exact (@normalised_multiple_is_sign). Qed.
Print Assumptions normalised_multiple_is_plus_or_minus.

(* in a simple eigenvalue the B-normalised eigenvector is unique up to sign ... *)
Theorem eigenvector_unique_up_to_sign :
  forall (F : Type) (Fo : FieldOps F) (Ff : IsField F) D (A B V : mat F) (lam q : vec F) (mu : F) j,
    full_contract0 D A B V lam -> (j < D)%nat ->
    (forall t, (t < D)%nat -> t <> j -> lam t <> mu) ->
    (forall i, (i < D)%nat -> mv D A q i = mu * mv D B q i) ->
    dot D q (mv D B q) = 1 ->
    exists c, c * c = 1 /\ (c <> 1 -> c = - (1)) /\ forall i, (i < D)%nat -> q i = c * V i j.
Proof. exact (@Pencil_Proof_Unique.eigenvector_unique_up_to_sign). Qed.
Print Assumptions eigenvector_unique_up_to_sign.

(* ... hence whatever decomposition (V', lam') the solver returns for the pencil of R X, its column in a
   simple eigenvalue lam_j is + or - R v_j: "rotating the feature space rotates the projection matrix ...
   up to per-column sign" *)
Theorem rotated_projection_up_to_sign :
  forall (F : Type) (Fo : FieldOps F) (Ff : IsField F) D (R A B V V' : mat F) (lam lam' : vec F) j j',
    orthogonal D R ->
    full_contract0 D A B V lam ->
    full_contract0 D (conj_by D R A) (conj_by D R B) V' lam' ->
    (j < D)%nat -> (j' < D)%nat ->
    (forall t, (t < D)%nat -> t <> j' -> lam' t <> lam j) ->
    exists c, c * c = 1 /\ (c <> 1 -> c = - (1)) /\
              forall i, (i < D)%nat -> V' i j' = c * mmul D R V i j.
Proof. exact (@rotated_eigenvector_up_to_sign). Qed.
Print Assumptions rotated_projection_up_to_sign.

Example unique_nonvacuous :
  full_contract0 2 (npe_lhs 2 eX eW) (npe_rhs 2 eX) eV elam /\ (0 < 2)%nat /\
  (forall t, (t < 2)%nat -> t <> 0%nat -> elam t <> elam 0%nat) /\ orthogonal 2 rR.
Proof. exact (conj e_full_contract0 (conj (le_S 1 1 (le_n 1)) (conj e_simple rR_orthogonal))). Qed.

Example sign_nonvacuous :
  (forall j, (j < 1)%nat -> (fun _ : nat => (- (1))%F) j * (fun _ : nat => (- (1))%F) j = (1 : Qc)) /\
  gen_eig_solution 2 1 (npe_lhs 2 eX eW) (npe_rhs 2 eX) eV elam.
Proof. exact (conj (fun j _ => eq_refl) e_solution). Qed.

(* ---------- 5. rotation of the feature space ---------- *)
Theorem rotation_conjugates_pencils :
  forall (F : Type) (Fo : FieldOps F) (Ff : IsField F) D N (R X : mat F) (W : sparse F) (dv : vec F) i j,
    npe_lhs N (mmul D R X) W i j = conj_by D R (npe_lhs N X W) i j /\
    npe_rhs N (mmul D R X) i j = conj_by D R (npe_rhs N X) i j /\
    lltsa_lhs N (mmul D R X) W i j = conj_by D R (lltsa_lhs N X W) i j /\
    lltsa_rhs N (mmul D R X) i j = conj_by D R (lltsa_rhs N X) i j /\
    lpp_lhs N (mmul D R X) W i j = conj_by D R (lpp_lhs N X W) i j /\
    lpp_rhs N (mmul D R X) dv i j = conj_by D R (lpp_rhs N X dv) i j.
Proof. exact (@pencils_conjugate). Qed.
Print Assumptions rotation_conjugates_pencils.

Theorem rotation_keeps_kernel_values :
  forall (F : Type) (Fo : FieldOps F) (Ff : IsField F) D (R X : mat F) a b,
    orthogonal D R ->
    mmul D (mtrans (mmul D R X)) (mmul D R X) a b = mmul D (mtrans X) X a b.
Proof. exact (@gram_rotation_invariant). Qed.
Print Assumptions rotation_keeps_kernel_values.

Theorem rotation_equivariance :
  forall (F : Type) (Fo : FieldOps F) (Ff : IsField F) D d N (R X P A B : mat F) lam,
    orthogonal D R ->
    gen_eig_solution D d A B P lam ->
    gen_eig_solution D d (conj_by D R A) (conj_by D R B) (mmul D R P) lam /\
    (forall s j, project D (mmul D R P) (compute_mean (mmul D R X) N) (mmul D R X) s j =
                 project D P (compute_mean X N) X s j).
Proof. exact (@rotation_equivariance_gen). Qed.
Print Assumptions rotation_equivariance.

Example rotation_nonvacuous :
  orthogonal 2 rR /\ gen_eig_solution 2 1 (npe_lhs 2 eX eW) (npe_rhs 2 eX) eV elam.
Proof. exact (conj rR_orthogonal e_solution). Qed.

(* ---------- 6. the embedding ---------- *)
Theorem embedding_is_centred_projection :
  forall (F : Type) (Fo : FieldOps F) D N (P X : mat F) s j,
    project D P (compute_mean X N) X s j =
    dot D (mcol P j) (vsub (fvec X s) (compute_mean X N)).
Proof. exact (fun F Fo D N P X s j => eq_refl). Qed.
Print Assumptions embedding_is_centred_projection.

Theorem mean_is_sample_mean :
  forall (F : Type) (Fo : FieldOps F) (Ff : IsField F) N (X : mat F) f,
    compute_mean X N f = sumn N (fun s => X f s) / of_nat N.
Proof. exact (@compute_mean_is_mean). Qed.
Print Assumptions mean_is_sample_mean.

Theorem embedding_centred :
  forall (F : Type) (Fo : FieldOps F) (Ff : IsField F) D N (P X : mat F) j,
    of_nat N <> 0 -> sumn N (fun s => project D P (compute_mean X N) X s j) = 0.
Proof. exact (@embedding_columns_sum_to_zero). Qed.
Print Assumptions embedding_centred.

Example embedding_centred_nonvacuous : @of_nat Qc QcOps 4 <> 0.
Proof. exact (Qc_of_nat_neq0 4 (Nat.neq_succ_0 3)). Qed.

(* ---------- 6b. end to end: the model of the three embed() bodies, for EVERY solver oracle ---------- *)
(* embed_correct D d N X A B r :=  A P = B P diag(lam) /\ P^T B P = I  (P = e_proj r, lam = e_vals r)
     /\ e_mean r = sample mean /\ e_emb r = P^T (x - mean) /\ (N <> 0 -> columns of e_emb sum to 0)
     /\ tr(P^T A P) = lam_0+..+lam_{d-1} /\ forall B-orthonormal Q, tr(P^T A P) <= tr(Q^T A Q)       *)
Theorem npe_end_to_end :
  forall (F : Type) (Fo : FieldOps F) (Ff : IsField F) (Fle : OrderedField F)
         D d N (X : mat F) (W : sparse F) oracle V lam,
    indices_ok N W -> (d <= D)%nat ->
    oracle (seen (npe_repaired X N W)) = (V, lam) ->
    full_contract D (p_lhs (seen (npe_repaired X N W))) (p_rhs (seen (npe_repaired X N W))) V lam ->
    ascending D lam ->
    exists r, npe_embed oracle D d N X W = Ok r /\
              embed_correct D d N X (XMXt N X (sym2 (dense_of W))) (XMXt N X mI) r.
Proof. exact (@npe_embed_correct). Qed.
Print Assumptions npe_end_to_end.

Theorem lltsa_end_to_end :
  forall (F : Type) (Fo : FieldOps F) (Ff : IsField F) (Fle : OrderedField F)
         D d N (X : mat F) (W : sparse F) oracle V lam,
    of_nat N <> 0 -> indices_ok N W -> (d <= D)%nat ->
    oracle (seen (lltsa_centred X N W)) = (V, lam) ->
    full_contract D (p_lhs (seen (lltsa_centred X N W))) (p_rhs (seen (lltsa_centred X N W))) V lam ->
    ascending D lam ->
    exists r, lltsa_embed oracle D d N X W = Ok r /\
              embed_correct D d N X (XMXt N (centred X N) (sym2 (dense_of W))) (XMXt N X (Jn N)) r.
Proof. exact (@lltsa_embed_correct). Qed.
Print Assumptions lltsa_end_to_end.

Theorem lpp_end_to_end :
  forall (F : Type) (Fo : FieldOps F) (Ff : IsField F) (Fle : OrderedField F)
         D d N (X : mat F) (L : sparse F) (dv : vec F) oracle V lam,
    indices_ok N L -> (d <= D)%nat ->
    oracle (seen (lpp_repaired X N L dv)) = (V, lam) ->
    full_contract D (p_lhs (seen (lpp_repaired X N L dv))) (p_rhs (seen (lpp_repaired X N L dv))) V lam ->
    ascending D lam ->
    exists r, lpp_embed oracle D d N X L dv = Ok r /\
              embed_correct D d N X (XMXt N X (sym2 (dense_of L))) (XMXt N X (mdiag dv)) r.
Proof. exact (@lpp_embed_correct). Qed.
Print Assumptions lpp_end_to_end.

Theorem embed_target_dimension_beyond_features :
  forall (F : Type) (Fo : FieldOps F) D d N (X : mat F) (p : pencil F) oracle,
    (D < d)%nat -> embed_body oracle p D d N X = OOB 3 d D.
Proof. exact (@embed_body_out_of_range). Qed.
Print Assumptions embed_target_dimension_beyond_features.

Example end_to_end_nonvacuous :
  indices_ok 2 eW /\ (1 <= 2)%nat /\
  (fun _ : pencil Qc => (eV, elam)) (seen (npe_repaired eX 2 eW)) = (eV, elam) /\
  full_contract 2 (p_lhs (seen (npe_repaired eX 2 eW))) (p_rhs (seen (npe_repaired eX 2 eW))) eV elam /\
  ascending 2 elam.
Proof. exact (conj eW_ok (conj (le_S 1 1 (le_n 1)) (conj eq_refl (conj e_full_contract e_ascending)))). Qed.

(* ---------- 7. the extracted decision procedure and the extracted model ---------- *)
Theorem spec_decision_sound :
  forall m N D Xl W dvl lhs rhs,
    spec_construct_b m N D Xl W dvl lhs rhs = true ->
    wf_mat D D lhs /\ wf_mat D D rhs /\
    solver_sees D (ref_lhs m N (mof Xl) W) (ref_rhs m N (mof Xl) (vof dvl))
                {| p_lhs := mof lhs; p_rhs := mof rhs |}.
Proof. exact spec_construct_b_sound. Qed.
Print Assumptions spec_decision_sound.

Theorem model_output_meets_spec :
  forall m N D Xl W dvl lhs rhs,
    run_construct VF42 m N D Xl W dvl = Ok (lhs, rhs) ->
    spec_construct_b m N D Xl W dvl lhs rhs = true.
Proof. exact model_meets_spec. Qed.
Print Assumptions model_output_meets_spec.

Theorem model_stays_in_range :
  forall v m N D (Xl : list (list Qc)) (W : sparse Qc) dvl,
    wf_mat D N Xl -> indices_ok N W -> N <> 0%nat -> length dvl = N ->
    exists t, run_construct v m N D Xl W dvl = Ok t.
Proof. exact model_in_range. Qed.
Print Assumptions model_stays_in_range.

(* the exact stream J: compute_mean + project on lists *)
Theorem project_stream_spec :
  forall N D d Xl Pl ml Yl,
    run_project N D d Xl Pl = Ok (ml, Yl) ->
    N <> 0%nat /\
    ml = vtab D (compute_mean (mof Xl) N) /\
    Yl = mtab N d (fun s j => dot D (mcol (mof Pl) j) (vsub (fvec (mof Xl) s) (compute_mean (mof Xl) N))) /\
    (forall j, (j < d)%nat -> sumn N (fun s => mof Yl s j) = 0).
Proof. exact run_project_spec. Qed.
Print Assumptions project_stream_spec.

Example model_nonvacuous :
  (exists lhs rhs, run_construct VF42 NPE 2 2 [[qz 1; qz 1]; [qz 0; qz 1]] wW [] = Ok (lhs, rhs)) /\
  (exists ml Yl, run_project 2 2 1 [[qz 1; qz 3]; [qz 2; qz (-1)]] [[qfrac 1 2]; [qz 4]] = Ok (ml, Yl)).
Proof. exact (conj e_run e_run_project). Qed.

(* ---------- 8. (Wave 2) homogeneity: the magnitude of the entries of W / L / D and the unit of the
   features carry no meaning; the FULL returned tables ---------- *)
(* peq p q := the two tables agree entrywise; pscale a b p := (a * lhs, b * rhs); sscale a W := every stored
   entry times a; xscale s X := every feature value times s.  No hypothesis: no stored entry is ever
   dropped, however small (an absolute cut-off in the accumulation loop falsifies these statements). *)
Theorem npe_scale_equivariant :
  forall (F : Type) (Fo : FieldOps F) (Ff : IsField F) N (X : mat F) (W : sparse F) (a s : F),
    peq (npe_repaired (xscale s X) N (sscale a W)) (pscale (s * s * a) (s * s) (npe_repaired X N W)).
Proof. exact (@npe_scale). Qed.
Print Assumptions npe_scale_equivariant.

Theorem lltsa_scale_equivariant :
  forall (F : Type) (Fo : FieldOps F) (Ff : IsField F) N (X : mat F) (W : sparse F) (a s : F),
    peq (lltsa_centred (xscale s X) N (sscale a W)) (pscale (s * s * a) (s * s) (lltsa_centred X N W)).
Proof. exact (@lltsa_scale). Qed.
Print Assumptions lltsa_scale_equivariant.

Theorem lpp_scale_equivariant :
  forall (F : Type) (Fo : FieldOps F) (Ff : IsField F) N (X : mat F) (L : sparse F) (dv : vec F) (a b s : F),
    peq (lpp_repaired (xscale s X) N (sscale a L) (fun t => b * dv t))
        (pscale (s * s * a) (s * s * b) (lpp_repaired X N L dv)).
Proof. exact (@lpp_scale). Qed.
Print Assumptions lpp_scale_equivariant.

(* a solution of (A, B) is, renormalised, a solution of (c A, c B) with the same eigenvalues *)
Theorem generalised_problem_scale_free :
  forall (F : Type) (Fo : FieldOps F) (Ff : IsField F) D d (A B P : mat F) lam (c r : F),
    r * r * c = 1 ->
    gen_eig_solution D d A B P lam ->
    gen_eig_solution D d (mscale c A) (mscale c B) (mscale r P) lam.
Proof. exact (@gen_eig_solution_scale). Qed.
Print Assumptions generalised_problem_scale_free.

Theorem eigen_equation_scale_free :
  forall (F : Type) (Fo : FieldOps F) (Ff : IsField F) D d (A B P : mat F) lam (c : F),
    meq D d (mmul D A P) (mmul d (mmul D B P) (mdiag lam)) ->
    meq D d (mmul D (mscale c A) P) (mmul d (mmul D (mscale c B) P) (mdiag lam)).
Proof. exact (@eigen_equation_scale). Qed.
Print Assumptions eigen_equation_scale_free.

Example scale_nonvacuous :
  @eq Qc (qfrac 1 2 * qfrac 1 2 * qz 4) 1 /\
  gen_eig_solution 2 1 (npe_lhs 2 eX eW) (npe_rhs 2 eX) eV elam /\
  meq 2 1 (mmul 2 (npe_lhs 2 eX eW) eV) (mmul 1 (mmul 2 (npe_rhs 2 eX) eV) (mdiag elam)).
Proof. exact (conj e_scale_factor (conj e_solution (proj1 e_solution))). Qed.

(* the decision procedure run on the FULL tables the implementation returns *)
Theorem spec_full_decision_sound :
  forall m N D Xl W dvl lhs rhs,
    spec_full_b m N D Xl W dvl lhs rhs = true ->
    wf_mat D D lhs /\ wf_mat D D rhs /\
    is_pencil D (ref_lhs m N (mof Xl) W) (ref_rhs m N (mof Xl) (vof dvl))
              {| p_lhs := mof lhs; p_rhs := mof rhs |}.
Proof. exact spec_full_b_sound. Qed.
Print Assumptions spec_full_decision_sound.

Theorem model_output_meets_full_spec :
  forall m N D Xl W dvl lhs rhs,
    run_construct VF42 m N D Xl W dvl = Ok (lhs, rhs) ->
    spec_full_b m N D Xl W dvl lhs rhs = true.
Proof. exact model_meets_spec_full. Qed.
Print Assumptions model_output_meets_full_spec.

Theorem full_tables_before_f9_refuted :
  exists lhs rhs, run_construct VShipped LPP 2 2 [[qz 1; qz 1]; [qz 0; qz 1]] wW [qz 1; qz 1] = Ok (lhs, rhs) /\
                  spec_full_b LPP 2 2 [[qz 1; qz 1]; [qz 0; qz 1]] wW [qz 1; qz 1] lhs rhs = false.
Proof. exact full_tables_refuted_before_f9. Qed.
Print Assumptions full_tables_before_f9_refuted.

(* the two decision procedures are coherent: right full tables are right for every triangle reader *)
Theorem full_spec_implies_reader_spec :
  forall m N D Xl W dvl lhs rhs,
    spec_full_b m N D Xl W dvl lhs rhs = true -> spec_construct_b m N D Xl W dvl lhs rhs = true.
Proof. exact spec_full_implies_seen. Qed.
Print Assumptions full_spec_implies_reader_spec.

Example full_spec_nonvacuous :
  exists lhs rhs, run_construct VF42 LPP 2 2 [[qz 1; qz 1]; [qz 0; qz 1]] wW [qz 1; qz 1] = Ok (lhs, rhs) /\
                  spec_full_b LPP 2 2 [[qz 1; qz 1]; [qz 0; qz 1]] wW [qz 1; qz 1] lhs rhs = true.
Proof. exact e_run_full. Qed.

(* ---------- 9. (Wave 2) the dispatch of generalized_eigendecomposition as the methods call it ---------- *)
(* embed_front em cs es := refuse (unsupported_method_error) unless eigen_method = Dense, computation strategy =
   HomogeneousCPU, eigendecomposition strategy = SmallestEigenvalues; then the dense branch (embed_body) *)
Theorem front_end_answers_only_through_the_dense_branch :
  forall (F : Type) (Fo : FieldOps F) em cs es oracle (p : pencil F) D d N (X : mat F) r,
    embed_front em cs es oracle p D d N X = Answer r <->
    em = EMDense /\ cs = CSHomogeneousCPU /\ es = ESSmallest /\ embed_body oracle p D d N X = r.
Proof. exact (@embed_front_answers). Qed.
Print Assumptions front_end_answers_only_through_the_dense_branch.

Theorem front_end_refuses_everything_else :
  forall (F : Type) (Fo : FieldOps F) em cs es oracle (p : pencil F) D d N (X : mat F),
    (em <> EMDense \/ cs <> CSHomogeneousCPU \/ es <> ESSmallest) ->
    exists site, embed_front em cs es oracle p D d N X = Refused site.
Proof. exact (@embed_front_refuses). Qed.
Print Assumptions front_end_refuses_everything_else.

Theorem front_end_answer_is_the_solution :
  forall (F : Type) (Fo : FieldOps F) (Ff : IsField F) (Fle : OrderedField F)
         em cs es D d N (X A B : mat F) (p : pencil F) oracle V lam r,
    solver_sees D A B p -> (d <= D)%nat -> oracle (seen p) = (V, lam) ->
    full_contract D (p_lhs (seen p)) (p_rhs (seen p)) V lam -> ascending D lam ->
    embed_front em cs es oracle p D d N X = Answer r ->
    exists e, r = Ok e /\ embed_correct D d N X A B e.
Proof. exact (@embed_front_correct). Qed.
Print Assumptions front_end_answer_is_the_solution.

Example front_end_nonvacuous :
  (exists r, embed_front EMDense CSHomogeneousCPU ESSmallest (fun _ : pencil Qc => (eV, elam))
                         (npe_repaired eX 2 eW) 2 1 2 eX = Answer r) /\
  (@EMRandomized <> EMDense \/ CSHomogeneousCPU <> CSHomogeneousCPU \/ ESSmallest <> ESSmallest).
Proof.
  exact (conj (ex_intro _ _ eq_refl)
              (or_introl (fun H : EMRandomized = EMDense =>
                            eq_ind EMRandomized (fun m => match m with EMRandomized => True | EMDense => False end) I
                                   EMDense H))).
Qed.

(* ---------- 10. (Wave 3) one-pass and two-pass right-hand sides of LLTSA are equal over an exact field ---------- *)
(* lltsa_one_pass is NOT the code: it is the textbook rewrite  rhs = sum x x^T - N m m^T  (mean and scatter in one
   pass over the features, then rankUpdate(mean, -N)), lhs as in the code.  For every field, every X, W and N <> 0 its
   tables are those of the current code: so the exact model / the exact decision procedures cannot distinguish the two
   formulas.  They differ only in binary64 rounding (eps * (offset/spread)^2 against eps * offset/spread); that is
   decided by the large-offset inputs of checks/c10.py (exact stream: inputs on which the centred accumulation is exact
   in binary64 while the expanded sums exceed 2^53; tolerance stream: translation pairs and pencil comparison). *)
Theorem lltsa_rhs_one_pass_equal :
  forall (F : Type) (Fo : FieldOps F) (Ff : IsField F) N (X : mat F) (W : sparse F) i j,
    of_nat N <> 0 ->
    p_rhs (lltsa_one_pass X N W) i j = p_rhs (lltsa_centred X N W) i j.
Proof. exact (@lltsa_rhs_one_pass_equal_gen). Qed.
Print Assumptions lltsa_rhs_one_pass_equal.

Theorem lltsa_one_pass_equal :
  forall (F : Type) (Fo : FieldOps F) (Ff : IsField F) N (X : mat F) (W : sparse F),
    of_nat N <> 0 -> peq (lltsa_one_pass X N W) (lltsa_centred X N W).
Proof. exact (@lltsa_one_pass_equal_gen). Qed.
Print Assumptions lltsa_one_pass_equal.

Theorem lltsa_one_pass_problem :
  forall (F : Type) (Fo : FieldOps F) (Ff : IsField F) D N (X : mat F) (W : sparse F),
    of_nat N <> 0 -> indices_ok N W ->
    is_pencil D (XMXt N (centred X N) (sym2 (dense_of W))) (XMXt N X (Jn N)) (lltsa_one_pass X N W).
Proof. exact (@lltsa_one_pass_problem_gen). Qed.
Print Assumptions lltsa_one_pass_problem.

Example one_pass_nonvacuous : indices_ok 2 sW /\ @of_nat Qc QcOps 2 <> 0.
Proof. exact (conj sW_ok (Qc_of_nat_neq0 2 (Nat.neq_succ_0 1))). Qed.
