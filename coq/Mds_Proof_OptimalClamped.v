(* ====================================================================== *)
(*  Mds_Proof_OptimalClamped.v — C05, wave 2: optimality of the CLAMPED    *)
(*  embedding (negative eigenvalues: non-Euclidean dissimilarities).       *)
(*                                                                         *)
(*  B symmetric with a FULL orthonormal eigendecomposition, eigenvalues of *)
(*  ANY sign, split as lam = lp - lm with lp, lm >= 0, lp*lm = 0           *)
(*  (lp = max(lam,0), lm = max(-lam,0)), lp ascending.  The methods return *)
(*  Y = V[:, n-d..] diag(s), s_c^2 = lp_{n-d+c} = max(lam_{n-d+c}, 0).     *)
(*  For EVERY competitor M = Q C Q^T (Q any orthonormal n x d frame, C any *)
(*  d x d matrix) that is POSITIVE SEMI-DEFINITE as a quadratic form:      *)
(*      |B - M|_F^2 >= sum_{t<n-d} lp_t^2 + sum_t lm_t^2 = |B - Y Y^T|_F^2 *)
(*  i.e. Y Y^T is the best rank-d positive semi-definite approximation of  *)
(*  B among such competitors (round 2 had this only for B >= 0).           *)
(*  Proof: B = B+ - B- with B+ = V lp V^T, B- = V lm V^T;                  *)
(*  |B - M|^2 = |B+ - M|^2 + |B-|^2 - 2<B+,B-> + 2<M,B->,  <B+,B-> = 0,     *)
(*  <M,B-> = sum_t lm_t v_t^T M v_t >= 0, and Eckart-Young for B+ >= 0     *)
(*  (Mds_Proof_Optimal.eckart_young_frames).  Every ordered field.         *)
(* ====================================================================== *)
Require Import Field Ring Arith Lia List Bool.
From TK Require Import Mat_Sums Mat_Core Spectral_KyFan Mds_Model Mds_Spec Mds_Proof Mds_Proof_Optimal.

Section OptimalClamped.
  Context {F : Type} {Fo : FieldOps F} {Ff : IsField F} {Fle : OrderedField F}.
  Add Field MdsOptimalClampedField : (@Fth F Fo Ff).
  Local Open Scope nat_scope.
  Local Open Scope F_scope.
  Notation "x <== y" := (fle x y) (at level 70, no associativity).

  (* x^T A x *)
  Definition qf (n : nat) (A : mat F) (x : vec F) : F :=
    sumn n (fun i => sumn n (fun j => x i * A i j * x j)).

  (* <A, V mu V^T> = sum_t mu_t v_t^T A v_t *)
  Lemma inner_eig_form n (A V : mat F) (mu : vec F) :
    inner n n A (eig_form n V mu) = sumn n (fun t => mu t * qf n A (fun i => V i t)).
  Proof.
    unfold inner, eig_form, qf.
    rewrite (sumn_ext n (fun t => mu t * _)
               (fun t => sumn n (fun i => sumn n (fun j => A i j * (V i t * mu t * V j t))))).
    2:{ intros t _. rewrite <- sumn_mul_l. apply sumn_ext. intros i _.
        rewrite <- sumn_mul_l. apply sumn_ext. intros j _. ring. }
    rewrite (sumn_swap n n (fun t i => sumn n (fun j => A i j * (V i t * mu t * V j t)))).
    apply sumn_ext. intros i _.
    rewrite (sumn_swap n n (fun t j => A i j * (V i t * mu t * V j t))).
    apply sumn_ext. intros j _. rewrite <- sumn_mul_l. reflexivity.
  Qed.

  (* v_t^T (V mu V^T) v_t = mu_t *)
  Lemma qf_eig_form n (V : mat F) (mu : vec F) t :
    meq n n (mmul n (mtrans V) V) mI -> t < n ->
    qf n (eig_form n V mu) (fun i => V i t) = mu t.
  Proof.
    intros HV Ht. unfold qf, eig_form.
    transitivity (sumn n (fun s => mu s * (mmul n (mtrans V) V t s * mmul n (mtrans V) V s t))).
    { rewrite (sumn_ext n (fun s => mu s * _)
                 (fun s => sumn n (fun i => sumn n (fun j => V i t * (V i s * mu s * V j s) * V j t)))).
      2:{ intros s _. unfold mmul, mtrans. rewrite sumn_mul_sumn, <- sumn_mul_l.
          apply sumn_ext. intros i _. rewrite <- sumn_mul_l. apply sumn_ext. intros j _. ring. }
      rewrite (sumn_swap n n (fun s i => sumn n (fun j => V i t * (V i s * mu s * V j s) * V j t))).
      apply sumn_ext. intros i _.
      rewrite (sumn_swap n n (fun s j => V i t * (V i s * mu s * V j s) * V j t)).
      apply sumn_ext. intros j _. rewrite <- sumn_mul_l, <- sumn_mul_r. reflexivity. }
    rewrite (sumn_single n t).
    - rewrite (HV t t Ht Ht). unfold mI. rewrite delta_eq. ring.
    - exact Ht.
    - intros s Hs Hne. rewrite (HV t s Ht Hs). unfold mI. rewrite delta_neq by congruence. ring.
  Qed.

  Lemma eig_form_sym n (V : mat F) (mu : vec F) : msym n (eig_form n V mu).
  Proof. intros i j _ _. unfold eig_form. apply sumn_ext. intros; ring. Qed.

  Lemma eig_form_contract n (V : mat F) (mu : vec F) :
    meq n n (mmul n (mtrans V) V) mI ->
    meq n n (mmul n (eig_form n V mu) V) (mmul n V (mdiag mu)).
  Proof.
    intros HV i s Hi Hs. rewrite mmul_diag_r by exact Hs. unfold mmul, eig_form.
    rewrite (sumn_ext n _ (fun j => sumn n (fun t => V i t * mu t * (V j t * V j s))))
      by (intros j _; rewrite <- sumn_mul_r; apply sumn_ext; intros; ring).
    rewrite sumn_swap.
    rewrite (sumn_ext n _ (fun t => V i t * mu t * mmul n (mtrans V) V t s))
      by (intros t _; unfold mmul, mtrans; rewrite <- sumn_mul_l; reflexivity).
    rewrite (sumn_single n s).
    - rewrite (HV s s Hs Hs). unfold mI. rewrite delta_eq. ring.
    - exact Hs.
    - intros t Ht Hne. rewrite (HV t s Ht Hs). unfold mI. rewrite delta_neq by exact Hne. ring.
  Qed.

  Lemma inner_eig_forms n (V : mat F) (a b : vec F) :
    meq n n (mmul n (mtrans V) V) mI ->
    inner n n (eig_form n V a) (eig_form n V b) = sumn n (fun t => b t * a t).
  Proof.
    intros HV. rewrite inner_eig_form. apply sumn_ext. intros t Ht.
    rewrite (qf_eig_form n V a t HV Ht). reflexivity.
  Qed.

  Lemma fro2_ext n m (A A' : mat F) : meq n m A A' -> fro2 n m A = fro2 n m A'.
  Proof.
    intros H. unfold fro2. apply sumn_ext. intros i Hi. apply sumn_ext. intros j Hj.
    rewrite (H i j Hi Hj). reflexivity.
  Qed.

  Lemma two_nonneg_mul x : 0 <== x -> 0 <== two * x.
  Proof.
    intros H. unfold two. replace ((1 + 1) * x) with (x + x) by ring. apply fle_add_nonneg; exact H.
  Qed.

  (* the decomposition of the residual *)
  Lemma residual_clamped n (B V M : mat F) (lam lp lm : vec F) :
    meq n n (mmul n (mtrans V) V) mI ->
    meq n n (mmul n V (mtrans V)) mI ->
    meq n n (mmul n B V) (mmul n V (mdiag lam)) ->
    (forall t, t < n -> lam t = lp t - lm t) ->
    (forall t, t < n -> lp t * lm t = 0) ->
    fro2 n n (msub B M) =
      fro2 n n (msub (eig_form n V lp) M) + sumn n (sq lm)
      + two * inner n n M (eig_form n V lm).
  Proof.
    intros HVtV HVVt HE Hsplit Hprod.
    assert (HB : meq n n B (msub (eig_form n V lp) (eig_form n V lm))).
    { intros i j Hi Hj. rewrite (Spectral_KyFan.spectral_form n B V lam HVVt HE i j Hi Hj).
      unfold msub, eig_form. rewrite <- sumn_sub. apply sumn_ext. intros t Ht.
      rewrite (Hsplit t Ht). ring. }
    rewrite (fro2_ext n n (msub B M) (msub (msub (eig_form n V lp) M) (eig_form n V lm))).
    2:{ intros i j Hi Hj. unfold msub. rewrite (HB i j Hi Hj). unfold msub. ring. }
    rewrite fro2_msub.
    assert (E1 : inner n n (msub (eig_form n V lp) M) (eig_form n V lm) =
                 inner n n (eig_form n V lp) (eig_form n V lm) - inner n n M (eig_form n V lm)).
    { unfold inner, msub. rewrite <- sumn_sub. apply sumn_ext. intros i _.
      rewrite <- sumn_sub. apply sumn_ext. intros j _. ring. }
    rewrite E1. rewrite (inner_eig_forms n V lp lm HVtV).
    rewrite (sumn_zero' n (fun t => lm t * lp t))
      by (intros t Ht; rewrite <- (Hprod t Ht); ring).
    rewrite (fro2_inner n n (eig_form n V lm)). rewrite (inner_eig_forms n V lm lm HVtV).
    unfold sq. ring.
  Qed.

  Theorem eckart_young_clamped n d (B V Q C : mat F) (lam lp lm : vec F) :
    d <= n ->
    meq n n (mmul n (mtrans V) V) mI ->
    meq n n (mmul n V (mtrans V)) mI ->
    meq n n (mmul n B V) (mmul n V (mdiag lam)) ->
    (forall t, t < n -> lam t = lp t - lm t) ->
    (forall t, t < n -> 0 <== lp t) ->
    (forall t, t < n -> 0 <== lm t) ->
    (forall t, t < n -> lp t * lm t = 0) ->
    Spectral_KyFan.ascending n lp ->
    meq d d (mmul n (mtrans Q) Q) mI ->
    (forall x : vec F, 0 <== qf n (lowrank d Q C) x) ->
    sumn (n - d) (sq lp) + sumn n (sq lm) <== fro2 n n (msub B (lowrank d Q C)).
  Proof.
    intros Hd HVtV HVVt HE Hsplit Hlp Hlm Hprod Hasc HQ Hpsd.
    rewrite (residual_clamped n B V (lowrank d Q C) lam lp lm HVtV HVVt HE Hsplit Hprod).
    apply fle_trans with (fro2 n n (msub (eig_form n V lp) (lowrank d Q C)) + sumn n (sq lm)).
    - apply fle_add_r.
      apply (eckart_young_frames n d (eig_form n V lp) V Q C lp Hd (eig_form_sym n V lp) HVtV HVVt
               (eig_form_contract n V lp HVtV) Hasc Hlp HQ).
    - apply fle_add_nonneg_r. apply two_nonneg_mul.
      rewrite inner_eig_form. apply sumn_nonneg. intros t Ht.
      apply fle_mul_nonneg; [apply Hlm; exact Ht|apply Hpsd].
  Qed.

  (* Y Y^T is itself V mu V^T with mu = lp on the retained indices, 0 elsewhere *)
  Lemma embedding_gram_eig_form n d (V : mat F) (lp s : vec F) :
    d <= n ->
    (forall c, c < d -> s c * s c = lp (n - d + c)%nat) ->
    let Y := scale_cols (select_cols n V ((n - d)%nat, d)) s in
    forall i j, mmul d Y (mtrans Y) i j =
                eig_form n V (fun t => if Nat.leb (n - d) t then lp t else 0) i j.
  Proof.
    intros Hd Hs Y i j. unfold eig_form.
    replace (sumn n (fun t => V i t * (if Nat.leb (n - d) t then lp t else 0) * V j t))
      with (sumn ((n - d) + d) (fun t => V i t * (if Nat.leb (n - d) t then lp t else 0) * V j t))
      by (f_equal; lia).
    rewrite sumn_split.
    rewrite (sumn_zero' (n - d)).
    2:{ intros t Ht. assert (E : Nat.leb (n - d) t = false) by (apply Nat.leb_gt; exact Ht).
        rewrite E. ring. }
    unfold mmul, Y, scale_cols, select_cols, mtrans. cbn [fst].
    transitivity (sumn d (fun c => V i (n - d + c)%nat * lp (n - d + c)%nat * V j (n - d + c)%nat)).
    - apply sumn_ext. intros c Hc. rewrite <- (Hs c Hc). ring.
    - assert (E : sumn d (fun c => V i (n - d + c)%nat * lp (n - d + c)%nat * V j (n - d + c)%nat) =
                  sumn d (fun c => V i (n - d + c)%nat *
                                   (if Nat.leb (n - d) (n - d + c) then lp (n - d + c)%nat else 0) *
                                   V j (n - d + c)%nat)).
      { apply sumn_ext. intros c _.
        assert (E' : Nat.leb (n - d) (n - d + c) = true) by (apply Nat.leb_le; lia). rewrite E'. reflexivity. }
      rewrite E. ring.
  Qed.

  Theorem mds_attains_bound_clamped n d (B V : mat F) (lam lp lm s : vec F) :
    d <= n ->
    meq n n (mmul n (mtrans V) V) mI ->
    meq n n (mmul n V (mtrans V)) mI ->
    meq n n (mmul n B V) (mmul n V (mdiag lam)) ->
    (forall t, t < n -> lam t = lp t - lm t) ->
    (forall t, t < n -> lp t * lm t = 0) ->
    (forall c, c < d -> s c * s c = lp (n - d + c)%nat) ->
    let Y := scale_cols (select_cols n V ((n - d)%nat, d)) s in
    fro2 n n (msub B (mmul d Y (mtrans Y))) = sumn (n - d) (sq lp) + sumn n (sq lm).
  Proof.
    intros Hd HVtV HVVt HE Hsplit Hprod Hs Y.
    rewrite (residual_clamped n B V (mmul d Y (mtrans Y)) lam lp lm HVtV HVVt HE Hsplit Hprod).
    pose proof (mds_attains_bound n d (eig_form n V lp) V lp s Hd (eig_form_sym n V lp) HVtV HVVt
                  (eig_form_contract n V lp HVtV) Hs) as HA.
    cbv zeta in HA. fold Y in HA. rewrite HA.
    set (mu := fun t => if Nat.leb (n - d) t then lp t else 0).
    assert (E : inner n n (mmul d Y (mtrans Y)) (eig_form n V lm) =
                inner n n (eig_form n V mu) (eig_form n V lm)).
    { apply inner_ext; [|apply meq_refl]. intros i j _ _.
      apply (embedding_gram_eig_form n d V lp s Hd Hs). }
    rewrite E, (inner_eig_forms n V mu lm HVtV).
    rewrite (sumn_zero' n (fun t => lm t * mu t)).
    - ring.
    - intros t Ht. unfold mu. destruct (Nat.leb (n - d) t); [|ring].
      rewrite <- (Hprod t Ht). ring.
  Qed.

  (* the C05 optimality clause with eigenvalues of any sign *)
  Theorem mds_factor_optimal_clamped n d (B V Q C : mat F) (lam lp lm s : vec F) :
    d <= n ->
    meq n n (mmul n (mtrans V) V) mI ->
    meq n n (mmul n V (mtrans V)) mI ->
    meq n n (mmul n B V) (mmul n V (mdiag lam)) ->
    (forall t, t < n -> lam t = lp t - lm t) ->
    (forall t, t < n -> 0 <== lp t) ->
    (forall t, t < n -> 0 <== lm t) ->
    (forall t, t < n -> lp t * lm t = 0) ->
    Spectral_KyFan.ascending n lp ->
    (forall c, c < d -> s c * s c = lp (n - d + c)%nat) ->
    meq d d (mmul n (mtrans Q) Q) mI ->
    (forall x : vec F, 0 <== qf n (lowrank d Q C) x) ->
    let Y := scale_cols (select_cols n V ((n - d)%nat, d)) s in
    fro2 n n (msub B (mmul d Y (mtrans Y))) <== fro2 n n (msub B (lowrank d Q C)).
  Proof.
    intros Hd HVtV HVVt HE Hsplit Hlp Hlm Hprod Hasc Hs HQ Hpsd Y. unfold Y.
    rewrite (mds_attains_bound_clamped n d B V lam lp lm s Hd HVtV HVVt HE Hsplit Hprod Hs).
    apply (eckart_young_clamped n d B V Q C lam lp lm); assumption.
  Qed.
End OptimalClamped.

(* ---------------- closed at Qc: lp = max(lam,0), lm = max(-lam,0) ---------------- *)
Require Import ZArith QArith Qcanon.
From TK Require Import Mat_Qc Mds_Proof_Qc.
Import ListNotations.
Local Open Scope nat_scope.

Lemma qmax0_ge0 (x : Qc) : (0 <= qmax0 x)%Qc.
Proof.
  unfold qmax0. destruct (qleb (Q2Qc 0) x) eqn:E.
  - apply qleb_ok. exact E.
  - apply Qcle_refl.
Qed.

Lemma Qc_not_le_opp (x : Qc) : ~ (0 <= x)%Qc -> (0 <= - x)%Qc.
Proof.
  intros H. apply Qcnot_le_lt in H. apply Qclt_le_weak in H.
  apply Qcopp_le_compat in H. exact H.
Qed.

Lemma qmax0_split (x : Qc) : x = (qmax0 x - qmax0 (- x))%Qc.
Proof.
  destruct (Qc_eq_dec x 0) as [->|Hne].
  - apply Qc_is_canon. vm_compute. reflexivity.
  - destruct (qleb (Q2Qc 0) x) eqn:E.
    + apply qleb_ok in E. rewrite (qmax0_nonneg x E).
      rewrite (qmax0_neg (- x)%Qc).
      * ring.
      * intros K. apply Hne. apply Qcle_antisym; [|exact E].
        apply Qcopp_le_compat in K. rewrite Qcopp_involutive in K. exact K.
    + assert (E' : ~ (0 <= x)%Qc) by (intros K; apply qleb_ok in K; rewrite K in E; discriminate).
      rewrite (qmax0_neg x E'). rewrite (qmax0_nonneg (- x)%Qc (Qc_not_le_opp x E')). ring.
Qed.

Lemma qmax0_prod (x : Qc) : (qmax0 x * qmax0 (- x))%Qc = Q2Qc 0.
Proof.
  destruct (qleb (Q2Qc 0) x) eqn:E.
  - apply qleb_ok in E. destruct (Qc_eq_dec x 0) as [->|Hne].
    + apply Qc_is_canon. vm_compute. reflexivity.
    + rewrite (qmax0_neg (- x)%Qc).
      * ring.
      * intros K. apply Hne. apply Qcle_antisym; [|exact E].
        apply Qcopp_le_compat in K. rewrite Qcopp_involutive in K. exact K.
  - assert (E' : ~ (0 <= x)%Qc) by (intros K; apply qleb_ok in K; rewrite K in E; discriminate).
    rewrite (qmax0_neg x E'). ring.
Qed.

Lemma qmax0_mono (x y : Qc) : (x <= y)%Qc -> (qmax0 x <= qmax0 y)%Qc.
Proof.
  intros H. destruct (qleb (Q2Qc 0) x) eqn:E.
  - apply qleb_ok in E. rewrite (qmax0_nonneg x E).
    rewrite (qmax0_nonneg y (Qcle_trans _ _ _ E H)). exact H.
  - assert (E' : ~ (0 <= x)%Qc) by (intros K; apply qleb_ok in K; rewrite K in E; discriminate).
    rewrite (qmax0_neg x E'). apply qmax0_ge0.
Qed.

(* the best rank-d positive semi-definite approximation, eigenvalues of any sign (Qc) *)
Theorem mds_factor_optimal_clamped_Qc n d (B V Q C : mat Qc) (lam s : vec Qc) :
  d <= n ->
  meq n n (mmul n (mtrans V) V) mI ->
  meq n n (mmul n V (mtrans V)) mI ->
  meq n n (mmul n B V) (mmul n V (mdiag lam)) ->
  Spectral_KyFan.ascending n lam ->
  (forall c, c < d -> (s c * s c)%Qc = qmax0 (lam (n - d + c)%nat)) ->
  meq d d (mmul n (mtrans Q) Q) mI ->
  (forall x : vec Qc, (0 <= qf n (lowrank d Q C) x)%Qc) ->
  let Y := scale_cols (select_cols n V (n - d, d)) s in
  (fro2 n n (msub B (mmul d Y (mtrans Y))) <= fro2 n n (msub B (lowrank d Q C)))%Qc.
Proof.
  intros Hd HVtV HVVt HE Hasc Hs HQ Hpsd Y.
  apply (@mds_factor_optimal_clamped Qc QcOps QcField QcOrdered n d B V Q C lam
           (fun t => qmax0 (lam t)) (fun t => qmax0 (- lam t)%Qc) s); try assumption.
  - intros t _. cbn [fsub QcOps]. apply qmax0_split.
  - intros t _. apply qmax0_ge0.
  - intros t _. apply qmax0_ge0.
  - intros t _. cbn [fmul fzero QcOps]. apply qmax0_prod.
  - intros a b Hab Hb. apply qmax0_mono. apply Hasc; assumption.
Qed.

(* non-vacuity: B = diag(-1, 4) (a negative and a positive eigenvalue), V = I, d = 1,
   competitor Q = e_1, C = (1): positive semi-definite *)
Definition exc_B : mat Qc := mof [[qz (-1); qz 0]; [qz 0; qz 4]].
Definition exc_V : mat Qc := mof [[qz 1; qz 0]; [qz 0; qz 1]].
Definition exc_lam : vec Qc := vof [qz (-1); qz 4].
Definition exc_s : vec Qc := vof [qz 2].
Definition exc_Q : mat Qc := mof [[qz 1]; [qz 0]].
Definition exc_C : mat Qc := mof [[qz 1]].

Lemma exc_ok :
  1 <= 2 /\
  meq 2 2 (mmul 2 (mtrans exc_V) exc_V) mI /\
  meq 2 2 (mmul 2 exc_V (mtrans exc_V)) mI /\
  meq 2 2 (mmul 2 exc_B exc_V) (mmul 2 exc_V (mdiag exc_lam)) /\
  Spectral_KyFan.ascending 2 exc_lam /\
  (forall c, c < 1 -> (exc_s c * exc_s c)%Qc = qmax0 (exc_lam (2 - 1 + c)%nat)) /\
  meq 1 1 (mmul 2 (mtrans exc_Q) exc_Q) mI /\
  (forall x : vec Qc, (0 <= qf 2 (lowrank 1 exc_Q exc_C) x)%Qc).
Proof.
  split; [lia|].
  split; [apply meq_by_compute; vm_compute; reflexivity|].
  split; [apply meq_by_compute; vm_compute; reflexivity|].
  split; [apply meq_by_compute; vm_compute; reflexivity|].
  split.
  { intros a b Hab Hb. destruct a as [|[|a]]; try lia; destruct b as [|[|b]]; try lia;
      unfold fle, QcOrdered, Qcle; vm_compute; discriminate. }
  split.
  { intros c Hc. assert (c = 0) by lia. subst. apply Qc_is_canon. vm_compute. reflexivity. }
  split; [apply meq_by_compute; vm_compute; reflexivity|].
  intros x.
  assert (E : qf 2 (lowrank 1 exc_Q exc_C) x = (x O * x O)%Qc).
  { unfold qf, lowrank. cbn [sumn]. unfold exc_Q, exc_C, mof, qz. cbn [nth fadd fmul fzero QcOps].
    replace (Q2Qc (1 # 1)) with (1%Qc) by (apply Qc_is_canon; reflexivity).
    replace (Q2Qc (0 # 1)) with (0%Qc) by (apply Qc_is_canon; reflexivity).
    ring. }
  rewrite E. apply Spectral_KyFan.Qc_sq_nonneg.
Qed.
