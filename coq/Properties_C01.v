(* Properties_C01.v — C01: every embed call returns N x target_dimension rows or a documented error;
   it never reads or writes outside its buffers and never hangs.  Statements only; proofs are in
   Shapes_Proof_*.v.  Model: Shapes_Model.v; predicates: Shapes_Spec.v. *)
From Coq Require Import ZArith List Bool QArith Lia.
From TK Require Import Shapes_Model Shapes_Spec Shapes_Proof_Base Shapes_Proof_Routines
                       Shapes_Proof_Term Shapes_Proof_Main.
From TK Require Import Validate_Model Mat_EigSelect Shapes_Src ShapesSrc Validate_C01 EigSelect_C01
                       Shapes_SrcTie Shapes_Proof_Tie Shapes_Proof_Rows.
Import ListNotations.
Open Scope Z_scope.

(* ---- strand 1 + 2, whole requests -------------------------------------------------------- *)
(* the source with every repair (F6 F7 F12 F21): any request, any method, any sizes *)
Theorem c01_outcome_total : forall c nb perm rs,
  inputs_wf c nb perm rs -> outcome_ok c (outcome_of all_fixed c nb perm rs).
Proof. exact outcome_total_all_fixed. Qed.
Print Assumptions c01_outcome_total.

(* /repo HEAD with F12 + F20 + F21 (F7 open): the same outside the F7 zone *)
Theorem c01_outcome_total_head : forall c nb perm rs,
  inputs_wf c nb perm rs -> f7_zone c = false -> outcome_ok c (outcome_of head c nb perm rs).
Proof. exact outcome_total_head. Qed.
Print Assumptions c01_outcome_total_head.

Theorem c01_no_oob_head : forall c nb perm rs,
  inputs_wf c nb perm rs -> f7_zone c = false -> safe (embed_model head c nb perm rs).
Proof. exact embed_head_safe. Qed.
Print Assumptions c01_no_oob_head.

Example c01_head_nonvacuous :
  inputs_wf (mk KLTSA 8 3 2 3 true) (ring_nb 8 [0; 1; 2]) (iota 8) [] /\
  f7_zone (mk KLTSA 8 3 2 3 true) = false /\
  outcome_of head (mk KLTSA 8 3 2 3 true) (ring_nb 8 [0; 1; 2]) (iota 8) [] = OShape 8 2.
Proof. exact embed_head_safe_nonvacuous. Qed.

(* F7 (known finding) on HEAD: a validated request whose eigenvalue slice leaves the vector *)
Theorem eig_segment_refuted :
  exists c nb perm rs, inputs_wf c nb perm rs /\ f7_zone c = true /\
                       embed_model head c nb perm rs = OOB 105 6 5.
Proof. exact Shapes_Proof_Main.eig_segment_refuted. Qed.
Print Assumptions eig_segment_refuted.

(* exact range of the dense smallest-eigenvalue selection, both variants of the slice *)
Theorem eig_dense_smallest_exact : forall f7 n d skip,
  eig_dense f7 false n d skip = Ok <->
  0 <= d /\ 0 <= skip /\ d + skip <= n /\ (f7 = false -> skip + skip + d <= n).
Proof. exact eig_dense_smallest_iff. Qed.
Print Assumptions eig_dense_smallest_exact.

(* F21 and F12 before their repairs: validated requests that index out of range *)
Theorem c01_rank_checks_refuted :
  (exists c nb perm rs, inputs_wf c nb perm rs /\ c_m c = PCA /\ c_D c < c_d c /\
      embed_model pre_round2 c nb perm rs = OOB 101 2 2) /\
  (exists c nb perm rs, inputs_wf c nb perm rs /\ c_m c = NPE /\ c_D c < c_d c /\
      embed_model pre_round2 c nb perm rs = OOB 103 3 2) /\
  (exists c nb perm rs, inputs_wf c nb perm rs /\ c_m c = LMDS /\ c_L c < c_d c /\
      embed_model pre_round2 c nb perm rs = OOB 101 4 4) /\
  (exists c nb perm rs, inputs_wf c nb perm rs /\ c_m c = KLTSA /\ c_k c < c_d c /\
      embed_model pre_round2 c nb perm rs = OOB 223 3 3) /\
  (exists c nb perm rs, inputs_wf c nb perm rs /\ c_m c = MS /\ c_D c < c_d c /\
      embed_model pre_round2 c nb perm rs = OOB 345 2 2).
Proof. exact rank_checks_refuted. Qed.
Print Assumptions c01_rank_checks_refuted.

Theorem c01_tsne_dimension_refuted :
  (exists c nb perm rs, inputs_wf c nb perm rs /\ c_m c = TSNE /\ c_exact c = false /\
      embed_model pre_round2 c nb perm rs = OOB 322 8 8) /\
  (exists c nb perm rs, inputs_wf c nb perm rs /\ c_m c = TSNE /\ c_exact c = true /\
      embed_model pre_round2 c nb perm rs = OOB 321 8 8).
Proof. exact tsne_dimension_refuted. Qed.
Print Assumptions c01_tsne_dimension_refuted.

Theorem c01_rank_checks_now_rejected :
  embed_model head (mk PCA 8 2 3 3 true) [] (iota 8) [] = Throw WrongParameter /\
  embed_model head (mk LMDS 8 3 5 3 true) [] (iota 8) [] = Throw WrongParameter /\
  embed_model head (mk KLTSA 8 3 4 3 true) (ring_nb 8 [0; 1; 2]) (iota 8) [] = Throw WrongParameter /\
  embed_model head (mk TSNE 8 3 1 3 true) [] (iota 8) [] = Throw WrongParameter.
Proof. exact rank_checks_now_rejected. Qed.
Print Assumptions c01_rank_checks_now_rejected.

(* ---- strand 2, routine by routine (all sizes) ---------------------------------------------- *)
Theorem c01_linear_weight_matrix : forall N k nb,
  0 < N -> nb_wf N k nb -> linear_weight_matrix nb N = Ok.
Proof. exact linear_weight_matrix_ok. Qed.
Print Assumptions c01_linear_weight_matrix.

Theorem c01_tangent_weight_matrix : forall N k d nb,
  0 < N -> nb_wf N k nb -> 0 <= d <= k -> tangent_weight_matrix nb N d = Ok.
Proof. exact tangent_weight_matrix_ok. Qed.
Print Assumptions c01_tangent_weight_matrix.

Theorem c01_hessian_weight_matrix : forall N k d nb,
  0 < N -> nb_wf N k nb -> 0 <= d <= k -> hessian_weight_matrix true nb N d = Ok.
Proof. exact hessian_weight_matrix_ok. Qed.
Print Assumptions c01_hessian_weight_matrix.

Example c01_local_nonvacuous : 0 < 6 /\ nb_wf 6 3 (repeat [0; 1; 2] 6) /\ 0 <= 3 <= 3 /\
  hessian_weight_matrix true (repeat [0; 1; 2] 6) 6 3 = Ok.
Proof. repeat split; try (cbn; intros; discriminate); try (vm_compute; reflexivity); repeat constructor; try discriminate. Qed.

(* F6 regression: the old column counter *)
Theorem hlle_columns_refuted :
  hlle_cols false 3 (3 * (3 + 1) / 2) 0 0 (Z.to_nat 3) = OOB 231 12 10.
Proof. exact Shapes_Proof_Routines.hlle_columns_refuted. Qed.
Print Assumptions hlle_columns_refuted.

(* the HLLE column counter ct_j = j d - j (j-1)/2 stays inside 1 + d + d(d+1)/2 for every d *)
Theorem c01_hlle_columns : forall d dp, 0 <= d -> 2 * dp = d * (d + 1) ->
  forall n ct j, 0 <= j -> Z.of_nat n = d - j -> 2 * ct = 2 * j * d - j * (j - 1) ->
  hlle_cols true d dp ct j n = Ok.
Proof. exact hlle_cols_ok. Qed.
Print Assumptions c01_hlle_columns.

Theorem c01_compute_laplacian : forall N k nb, 0 < N -> nb_wf N k nb -> compute_laplacian nb N = Ok.
Proof. exact compute_laplacian_ok. Qed.
Print Assumptions c01_compute_laplacian.

Theorem c01_shortest_distances : forall N k nb, 0 < N -> nb_wf N k nb -> shortest_distances nb N = Ok.
Proof. exact shortest_distances_ok. Qed.
Print Assumptions c01_shortest_distances.

Theorem c01_landmark_shortest_distances : forall N k nb lm,
  0 < N -> nb_wf N k nb -> idx_wf N lm -> landmark_shortest_distances nb lm N = Ok.
Proof. exact landmark_shortest_distances_ok. Qed.
Print Assumptions c01_landmark_shortest_distances.

(* F1 regression: lists of unequal length break the consumers *)
Theorem c01_unequal_lists_refuted :
  exists N nb, 0 < N /\ Z.of_nat (length nb) = N /\
               Forall (fun l => Forall (fun w => 0 <= w < N) l) nb /\
               shortest_distances nb N = OOB 251 3 3.
Proof. exact unequal_lists_refuted. Qed.
Print Assumptions c01_unequal_lists_refuted.

Theorem c01_triangulate : forall N d cols nvals lm,
  idx_wf N lm -> d <= cols -> d <= nvals -> triangulate lm N d cols nvals = Ok.
Proof. exact triangulate_ok. Qed.
Print Assumptions c01_triangulate.

Theorem c01_spe_iteration : forall global N k nu nb perm rs,
  0 < N -> 0 <= nu -> 2 * nu <= N ->
  (global = false -> nb_wf N k nb /\ idx_wf k rs /\ nu <= Z.of_nat (length rs)) ->
  Z.of_nat (length perm) = N -> idx_wf N perm ->
  spe_iteration global nb perm rs N nu = Ok.
Proof. exact spe_iteration_ok. Qed.
Print Assumptions c01_spe_iteration.

Example c01_spe_nonvacuous :
  spe_iteration true [] [0; 1; 2; 3] [] 4 2 = Ok /\ 2 * 2 <= 4.
Proof. split; [vm_compute; reflexivity | discriminate]. Qed.

Theorem c01_tsne_map : forall exact N d,
  0 <= N -> 1 <= d -> (exact = false -> d = 2) -> tsne_map true exact N d = Ok.
Proof. exact tsne_map_ok. Qed.
Print Assumptions c01_tsne_map.

Theorem c01_tsne_bh_rows : forall N K, 0 <= K < N -> tsne_bh_rows N K = Ok.
Proof. exact tsne_bh_rows_ok. Qed.
Print Assumptions c01_tsne_bh_rows.

Theorem c01_manifold_sculpting : forall N k D d nb,
  0 < N -> nb_wf N k nb -> 0 <= d <= D -> manifold_sculpting nb N D d = Ok.
Proof. exact manifold_sculpting_ok. Qed.
Print Assumptions c01_manifold_sculpting.

Theorem c01_find_neighbors : forall brute N k, 0 <= k -> find_neighbors_model brute N k = Ok.
Proof. exact find_neighbors_model_ok. Qed.
Print Assumptions c01_find_neighbors.

(* ---- strand 3, termination ---------------------------------------------------------------- *)
Theorem c01_kdouble_terminates : forall N k conn,
  1 <= N -> 1 <= k -> conn (N - 1) = true ->
  exists k', kdouble (Z.to_nat N) N k conn = Some k' /\ conn k' = true /\
             Z.min k (N - 1) <= k' <= N - 1.
Proof. exact kdouble_terminates. Qed.
Print Assumptions c01_kdouble_terminates.

Theorem c01_kdouble_bounds : forall N k conn,
  3 <= k < N -> conn (N - 1) = true ->
  exists keff, kdouble (Z.to_nat N) N k conn = Some keff /\ conn keff = true /\ k <= keff /\ keff < N.
Proof. exact kdouble_bounds. Qed.
Print Assumptions c01_kdouble_bounds.

Example c01_kdouble_nonvacuous :
  kdouble (Z.to_nat 20) 20 3 (fun k => 10 <=? k) = Some 12.
Proof. vm_compute. reflexivity. Qed.

Theorem c01_kdouble_refuted : forall N k fuel, kdouble fuel N k (fun _ => false) = None.
Proof. exact kdouble_refuted. Qed.
Print Assumptions c01_kdouble_refuted.

Theorem c01_spe_clamp_terminates : forall N nupd,
  exists nu, spe_clamp 2 N nupd = Some nu /\ nu <= nupd /\ (nupd <= N / 2 \/ nu = N / 2) /\
             (0 <= N -> nu <= N / 2 /\ 2 * nu <= N).
Proof. exact spe_clamp_terminates. Qed.
Print Assumptions c01_spe_clamp_terminates.

(* F20 (a): the shipped rescaling loop never ends when rescaling cannot raise the average *)
Theorem ms_terminates_refuted : forall (avg : nat -> Q) (c : Q) varies,
  (forall n, (avg n < c)%Q) -> forall fuel n, ms_rescale fuel false varies avg c n = None.
Proof. exact ms_rescale_refuted. Qed.
Print Assumptions ms_terminates_refuted.

Example ms_terminates_refuted_nonvacuous : forall n : nat, ((fun _ => 0) n < 1)%Q.
Proof. intros n. reflexivity. Qed.

Theorem c01_ms_rescale_terminates : forall guarded avg (c : Q) m n,
  (n <= m)%nat -> (c <= avg m)%Q ->
  exists n', ms_rescale (S (m - n)) guarded true avg c n = Some n' /\ (n' <= m)%nat.
Proof. exact ms_rescale_terminates. Qed.
Print Assumptions c01_ms_rescale_terminates.

Theorem c01_geometric_reaches : forall t r c : Q,
  (0 < t)%Q -> (1 < r)%Q -> exists m : nat, (c <= t * r ^ (Z.of_nat m))%Q.
Proof. exact geometric_reaches. Qed.
Print Assumptions c01_geometric_reaches.

(* F20 (b): a NaN error is "progress" for `new_error >= old_error`; repaired comparison ends *)
Theorem ms_adjust_nan_refuted : forall fuel pos rounds,
  ms_adjust fuel false (fun _ => None) pos rounds = None.
Proof. exact Shapes_Proof_Term.ms_adjust_nan_refuted. Qed.
Print Assumptions ms_adjust_nan_refuted.

Theorem c01_ms_adjust_nan_repaired : forall fuel pos rounds,
  ms_adjust (S fuel) true (fun _ => None) pos rounds = Some (S rounds).
Proof. exact ms_adjust_nan_repaired. Qed.
Print Assumptions c01_ms_adjust_nan_repaired.

(* partial: each continuing round strictly decreases the error; that the error cannot decrease
   forever (finitely many doubles) is not modelled *)
Theorem c01_ms_adjust_decreases_partial : forall (err : Z -> option Q) pos e0 e1,
  err pos = Some e0 -> err (pos + 1) = Some e1 ->
  no_progress true (err (pos + 1)) (err pos) = false -> (e1 < e0)%Q.
Proof. exact ms_adjust_step_decreases_partial. Qed.
Print Assumptions c01_ms_adjust_decreases_partial.

(* ==== wave 2 ================================================================================ *)
(* ---- tie of the hand-written model to the tables regenerated from the source on every run ---- *)
(* t_shapes (gen/ShapesSrc.v): every sizing / index expression of spe.hpp, neighbors.hpp (find_neighbors),
   locally_linear.hpp and tsne.hpp that the model mirrors denotes, for all sizes, the model's expression *)
Theorem c01_src_facts_tied : facts_agree gen_facts.
Proof. exact src_facts_tied. Qed.
Print Assumptions c01_src_facts_tied.

Theorem c01_src_spe_clamp_halves : forall N nu,
  0 <= N -> 0 <= nu ->
  let E := {| s_N := N; s_D := 0; s_d := 0; s_k := 0; s_K := 0; s_nu := nu; s_j := 0; s_kk := 0; s_dp := 0 |} in
  2 * Z.min nu (sx_eval E (f_spe_clamp gen_facts)) <= N.
Proof. exact src_spe_clamp_halves. Qed.
Print Assumptions c01_src_spe_clamp_halves.

Example c01_src_spe_clamp_nonvacuous : 0 <= 5 /\ 0 <= 100 /\ spe_clamp_step 5 100 = 2.
Proof. repeat split; try discriminate. Qed.

(* t_val (gen/Validate_C01.v): target_dimension against the generated clauses of validate() is the
   model's validate; the base range check; num_neighbors in [3, N) for exactly the neighbour methods *)
Theorem c01_validate_tied : forall c, td_gen gen_tables c = Some (validate head (with_scalars_ok c)).
Proof. exact validate_tied. Qed.
Print Assumptions c01_validate_tied.

Theorem c01_base_td_tied : forall c, base_td_gen gen_tables c = Some ((1 <=? c_d c) && (c_d c <? c_N c)).
Proof. exact base_td_tied. Qed.
Print Assumptions c01_base_td_tied.

Theorem c01_nn_tied : forall c, nn_gen gen_tables c = Some (nn_model c).
Proof. exact nn_tied. Qed.
Print Assumptions c01_nn_tied.

(* t_eig (gen/EigSelect_C01.v): every generated slice accepts exactly the (n, d, skip) eig_dense /
   eig_randomized accept *)
Theorem c01_eig_tied : forall n d skip, 0 <= n -> 0 <= d -> 0 <= skip ->
  eig_differs_at eig_table n d skip = false.
Proof. exact eig_tied. Qed.
Print Assumptions c01_eig_tied.

Example c01_eig_tied_nonvacuous : 0 <= 5 /\ 0 <= 4 /\ 0 <= 1 /\
  eig_of_table eig_table eig_file fn_dense false 5 4 1 = Some (OOB 511 6 5).
Proof. repeat split; try discriminate. Qed.

Theorem c01_skip_tied :
  skip_of skip_table str_largest = Some 0%nat /\
  skip_of skip_table str_squared_largest = Some 0%nat /\
  skip_of skip_table str_smallest = Some 1%nat.
Proof. exact skip_tied. Qed.
Print Assumptions c01_skip_tied.

(* the detector the search phase runs is silent on every request while the tables are those of HEAD *)
Theorem c01_src_never_differs : forall c keff,
  0 <= c_N c -> 0 <= c_D c -> 0 <= c_d c -> 0 <= keff -> 0 <= c_K c -> 0 <= c_nupd c -> 0 <= c_L c ->
  src_differs c keff = false.
Proof. exact src_never_differs. Qed.
Print Assumptions c01_src_never_differs.

(* ---- strand 2, the routines added in wave 2 (all sizes) ---------------------------------------- *)
Theorem c01_diffusion_matrix : forall N, diffusion_matrix N = Ok.
Proof. exact diffusion_matrix_ok. Qed.
Print Assumptions c01_diffusion_matrix.

Theorem c01_distance_matrix : forall N, distance_matrix N = Ok.
Proof. exact distance_matrix_ok. Qed.
Print Assumptions c01_distance_matrix.

Theorem c01_centered_kernel_matrix : forall N, centered_kernel_matrix N = Ok.
Proof. exact centered_kernel_matrix_ok. Qed.
Print Assumptions c01_centered_kernel_matrix.

Theorem c01_center_matrix_exact : forall r c, center_matrix r c = Ok <-> r = c.
Proof. exact center_matrix_iff. Qed.
Print Assumptions c01_center_matrix_exact.

Theorem c01_landmark_distance_matrix : forall N lm, idx_wf N lm -> landmark_distance_matrix lm N = Ok.
Proof. exact landmark_distance_matrix_ok. Qed.
Print Assumptions c01_landmark_distance_matrix.

Example c01_landmark_distance_matrix_nonvacuous :
  idx_wf 5 [3; 0; 4] /\ landmark_distance_matrix [0; 5] 5 = OOB 615 5 5.
Proof. split; [repeat constructor; lia|exact landmark_distance_matrix_refuted]. Qed.

Theorem c01_project_exact : forall N D prow mlen, project_full N D prow mlen = Ok <-> mlen = D /\ prow = D.
Proof. exact project_full_iff. Qed.
Print Assumptions c01_project_exact.

Theorem c01_gaussian_projection_matrix : forall a b, gaussian_projection_matrix a b = Ok.
Proof. exact gaussian_projection_matrix_ok. Qed.
Print Assumptions c01_gaussian_projection_matrix.

Theorem c01_random_projection_unswapped_refuted : forall N D d,
  d <> D -> gaussian_projection_matrix d D ;; project_full N D d D <> Ok.
Proof. exact random_projection_unswapped_refuted. Qed.
Print Assumptions c01_random_projection_unswapped_refuted.

Theorem c01_factor_analysis : forall N D d, factor_analysis N D d D = Ok.
Proof. exact factor_analysis_ok. Qed.
Print Assumptions c01_factor_analysis.

Theorem c01_tsne_buffers : forall exact N D nd K,
  0 <= N -> 0 <= D -> 0 <= nd -> (exact = false -> 0 <= K < N) -> tsne_buffers exact N D nd K = Ok.
Proof. exact tsne_buffers_ok. Qed.
Print Assumptions c01_tsne_buffers.

Example c01_tsne_buffers_nonvacuous :
  tsne_buffers false 4 2 2 3 = Ok /\ tsne_buffers false 4 2 2 4 = OOB 655 3 3.
Proof. split; vm_compute; reflexivity. Qed.

Theorem c01_quadtree_node_insert : forall size, 0 <= size <= qt_capacity -> quadtree_node_insert size = Ok.
Proof. exact quadtree_node_insert_ok. Qed.
Print Assumptions c01_quadtree_node_insert.

Theorem c01_quadtree_size_invariant : forall size,
  0 <= size <= qt_capacity -> 0 <= (if size <? qt_capacity then size + 1 else size) <= qt_capacity.
Proof. exact quadtree_size_invariant. Qed.
Print Assumptions c01_quadtree_size_invariant.

Example c01_quadtree_nonvacuous : quadtree_node_insert 0 = Ok /\ quadtree_node_insert 2 = OOB 663 1 1.
Proof. split; vm_compute; reflexivity. Qed.

Theorem c01_vp_build : forall n draw, draw_wf draw ->
  forall fuel lower upper, 0 <= lower <= upper -> upper <= n -> (Z.to_nat (upper - lower) < fuel)%nat ->
  vp_build fuel n lower upper draw = Ok.
Proof. exact vp_build_ok. Qed.
Print Assumptions c01_vp_build.

Example c01_vp_build_nonvacuous :
  draw_wf (fun _ _ => 0) /\ vp_build 8 7 0 7 (fun _ _ => 0) = Ok /\ vp_build 3 2 0 2 (fun _ _ => 2) = OOB 722 2 2.
Proof. split; [intros l u H; lia|split; vm_compute; reflexivity]. Qed.

Theorem c01_cover_sets_access : forall scales,
  Forall (fun s => 0 <= s) scales -> cover_sets_access true scales = Ok.
Proof. exact cover_sets_access_ok. Qed.
Print Assumptions c01_cover_sets_access.

(* F28 regression *)
Theorem cover_sets_access_refuted : cover_sets_access false [3; 120] = OOB 702 120 101.
Proof. exact Shapes_Proof_Routines.cover_sets_access_refuted. Qed.
Print Assumptions cover_sets_access_refuted.

Theorem c01_bi_chain_scales_nonneg : forall g fuel top max l,
  max <= top -> bi_chain fuel top max g = Some l -> Forall (fun s => 0 <= s) l.
Proof. exact bi_chain_scales_nonneg. Qed.
Print Assumptions c01_bi_chain_scales_nonneg.

Example c01_bi_chain_nonvacuous :
  bi_chain 10 5 5 (fun m => if 2 <? m then Some (m - 2) else None) = Some [0; 2; 100].
Proof. vm_compute. reflexivity. Qed.

(* ---- strand 3, the loops added in wave 2 ------------------------------------------------------- *)
Theorem c01_perplexity_search_terminates : forall found_at,
  exists it, perplexity_search 201 found_at = Some it /\ (it <= 200)%nat.
Proof. exact perplexity_search_terminates. Qed.
Print Assumptions c01_perplexity_search_terminates.

Theorem c01_fa_loop_terminates : forall max_iter conv_at,
  exists it, fa_loop (S max_iter) max_iter conv_at = Some it /\ (it <= max_iter)%nat.
Proof. exact fa_loop_terminates. Qed.
Print Assumptions c01_fa_loop_terminates.

Theorem c01_qt_depth_terminates : forall w delta : Q, (0 < delta)%Q ->
  exists m t, qt_depth (S m) w delta = Some t /\ (t <= m)%nat.
Proof. exact qt_depth_terminates. Qed.
Print Assumptions c01_qt_depth_terminates.

Example c01_qt_depth_nonvacuous : (0 < 1)%Q /\ qt_depth 10 8 1 = Some 5%nat.
Proof. split; [reflexivity|vm_compute; reflexivity]. Qed.

Theorem qt_depth_coincident_refuted : forall w : Q, (0 <= w)%Q -> forall fuel, qt_depth fuel w 0 = None.
Proof. exact Shapes_Proof_Term.qt_depth_coincident_refuted. Qed.
Print Assumptions qt_depth_coincident_refuted.

Theorem c01_ct_descend_terminates : forall grow deepest,
  (forall cs ms, ms <= deepest -> grow cs ms <= deepest) ->
  forall cs ms, ms <= deepest ->
  exists st n, iter_fuel (S (Z.to_nat (deepest + 1 - cs))) (ct_descend_step grow) (cs, ms) 0 = Some (st, n) /\
               (n <= Z.to_nat (deepest + 1 - cs))%nat.
Proof. exact ct_descend_terminates. Qed.
Print Assumptions c01_ct_descend_terminates.

Example c01_ct_descend_nonvacuous :
  (forall cs ms, ms <= 7 -> Z.max ms (Z.min 7 (cs + 3)) <= 7) /\
  iter_fuel 9 (ct_descend_step (fun cs ms => Z.max ms (Z.min 7 (cs + 3)))) (0, 0) 0 = Some ((8, 7), 8%nat).
Proof. split; [intros; lia|vm_compute; reflexivity]. Qed.

Theorem c01_bi_chain_terminates : forall g lo,
  (forall m s, g m = Some s -> lo <= s <= m) ->
  forall fuel top max, (Z.to_nat (max - lo + 1) < fuel)%nat ->
  exists l, bi_chain fuel top max g = Some l /\ (length l <= Z.to_nat (max - lo + 1) + 1)%nat.
Proof. exact bi_chain_terminates. Qed.
Print Assumptions c01_bi_chain_terminates.

Example c01_bi_chain_terminates_nonvacuous :
  forall m s, (fun m => if 0 <? m then Some (m - 1) else None) m = Some s -> 0 <= s <= m.
Proof. intros m s H. cbn in H. destruct (0 <? m) eqn:E; [|discriminate]. apply Z.ltb_lt in E. inversion H. lia. Qed.

(* replaces the _partial statement about the hill climbing: with the error read as the ordinal of a
   non-negative finite double, a strictly decreasing error ends after at most e + 1 sweeps *)
Theorem c01_ms_sweeps_terminate : forall improve : Z -> option Z,
  (forall e e', improve e = Some e' -> 0 <= e' < e) ->
  forall e, 0 <= e ->
  exists e' n, iter_fuel (S (Z.to_nat e)) (ms_sweep_step improve) e 0 = Some (e', n) /\
               improve e' = None /\ (n <= Z.to_nat e)%nat.
Proof. exact ms_sweeps_terminate. Qed.
Print Assumptions c01_ms_sweeps_terminate.

Example c01_ms_sweeps_nonvacuous :
  (forall e e', (fun e => if 3 <? e then Some (e - 2) else None) e = Some e' -> 0 <= e' < e) /\
  iter_fuel 11 (ms_sweep_step (fun e => if 3 <? e then Some (e - 2) else None)) 10 0 = Some (2, 4%nat).
Proof.
  split; [|vm_compute; reflexivity].
  intros e e' H. cbn in H. destruct (3 <? e) eqn:E; [|discriminate]. apply Z.ltb_lt in E. inversion H. lia.
Qed.

(* ====================================================================== wave 3 *)
(* Exception safety of the OpenMP regions: the translator lists every `throw` that sits lexically inside an
   `omp parallel` region (today: none, `f_omp_throws gen_facts = []` is part of c01_src_facts_tied); then no region
   of tapkee can end in std::terminate because of a throw statement of its own, whatever fails. *)
Theorem c01_omp_regions_never_terminate : forall fails,
  region_run (f_omp_throws gen_facts) fails = RegionDone.
Proof. exact src_omp_regions_never_terminate. Qed.
Print Assumptions c01_omp_regions_never_terminate.

Theorem c01_omp_throw_in_region_refuted : forall site rest fails,
  fails site = true -> region_run (site :: rest) fails = RegionTerminate.
Proof. exact omp_throw_in_region_refuted. Qed.
Print Assumptions c01_omp_throw_in_region_refuted.

(* Calling context: no orphaned work-sharing construct, so every work-sharing loop completes all n iterations
   before the caller continues, for every team size T of the application's own region. *)
Theorem c01_omp_worksharing_complete : forall site T n,
  ws_done (existsb (site_eqb site) (f_omp_orphans gen_facts)) T n = n.
Proof. exact src_omp_worksharing_complete. Qed.
Print Assumptions c01_omp_worksharing_complete.

Theorem c01_omp_orphan_refuted : forall T n, 1 < T -> T < n -> ws_done true T n < n.
Proof. exact omp_orphan_refuted. Qed.
Print Assumptions c01_omp_orphan_refuted.

Example c01_omp_orphan_nonvacuous : 1 < 2 /\ 2 < 12 /\ ws_done true 2 12 = 6.
Proof. repeat split; reflexivity. Qed.

(* SPE annealing with the divisor the source uses (the bound of the loop the statement sits in): the learning rate
   is finite and in [0, 1] after the whole loop, for EVERY bound (including max_iteration = 0 "automatic", which is
   replaced by a positive bound before the loop) and whatever other variables hold. *)
Theorem c01_spe_lambda_finite : forall bound other,
  exists l, spe_lambda_src gen_facts bound other = Some l /\ (0 <= l)%Q /\ (l <= 1)%Q.
Proof. exact src_spe_lambda_finite. Qed.
Print Assumptions c01_spe_lambda_finite.

Theorem c01_spe_lambda_other_divisor_refuted : forall bound, 1 <= bound -> spe_lambda_final bound 0 = None.
Proof. exact spe_lambda_other_divisor_refuted. Qed.
Print Assumptions c01_spe_lambda_other_divisor_refuted.

Example c01_spe_lambda_refuted_nonvacuous :
  1 <= 2008 /\ exists l, spe_lambda_final 3 3 = Some l /\ (l == 8 # 27)%Q.
Proof. split; [lia|]. eexists. split; [vm_compute; reflexivity|reflexivity]. Qed.

(* Recursion depth: every self-recursive function the translator finds in the headers is in the list of functions whose
   depth a C01 termination theorem bounds or which only forward to an overload (Shapes_Src.rec_allowed); a new one
   (a depth-first search written recursively has depth ~ N) re-opens c01_src_facts_tied. *)
Theorem c01_recursion_allowlisted : forall x, In x (f_recursive gen_facts) -> In x rec_allowed.
Proof. exact src_recursion_allowlisted. Qed.
Print Assumptions c01_recursion_allowlisted.

Example c01_recursion_nonvacuous : f_recursive gen_facts <> [].
Proof. discriminate. Qed.

(* ---- wave 4: "row i of the returned matrix describes input sample i" (landmark triangulation) ------------------- *)
(* routines/landmarks.hpp: the landmarks are a SHUFFLED prefix of the sample indices and the landmark embedding comes in
   landmark order; the scatter loop `embedding.row(landmarks[j]) = landmarks_embedding.first.row(j)` + the triangulation
   of the samples still flagged to_process give, for EVERY landmark list without repetitions (every permutation of all
   the samples when landmark_ratio = 1), every N and every row type, the matrix whose row i is sample i's row. *)
Theorem c01_tri_rows_in_sample_order : forall (A : Type) (dflt : A) N lm le (tri : nat -> A),
  NoDup lm -> List.length le = List.length lm ->
  tri_rows N lm le tri dflt = map (sample_row lm le tri dflt) (List.seq 0%nat N).
Proof. exact tri_rows_in_sample_order. Qed.
Print Assumptions c01_tri_rows_in_sample_order.

Example c01_tri_rows_nonvacuous :
  NoDup [2; 0]%nat /\ List.length [10; 20] = List.length [2; 0]%nat /\
  tri_rows 3 [2; 0]%nat [10; 20] (fun i => Z.of_nat i + 100) 0 = [20; 101; 10].
Proof.
  split; [|split; [reflexivity|vm_compute; reflexivity]].
  constructor; [cbn; intros [H|[]]; discriminate|]. constructor; [cbn; intros []|constructor].
Qed.

(* the coordinates of landmark number j land in row landmarks[j]; a non-landmark sample gets its own triangulation *)
Theorem c01_tri_rows_landmark_row : forall (A : Type) (dflt : A) N lm le (tri : nat -> A) j,
  NoDup lm -> List.length le = List.length lm -> (j < List.length lm)%nat -> (nth j lm O < N)%nat ->
  nth (nth j lm O) (tri_rows N lm le tri dflt) dflt = nth j le dflt.
Proof. exact tri_rows_landmark_row. Qed.
Print Assumptions c01_tri_rows_landmark_row.

Theorem c01_tri_rows_other_row : forall (A : Type) (dflt : A) N lm le (tri : nat -> A) i,
  NoDup lm -> List.length le = List.length lm -> (i < N)%nat -> ~ In i lm ->
  nth i (tri_rows N lm le tri dflt) dflt = tri i.
Proof. exact tri_rows_other_row. Qed.
Print Assumptions c01_tri_rows_other_row.

Example c01_tri_rows_rows_nonvacuous :
  (1 < List.length [2; 0]%nat)%nat /\ (nth 1 [2; 0]%nat O < 3)%nat /\ (1 < 3)%nat /\ ~ In 1%nat [2; 0]%nat /\
  nth (nth 1 [2; 0]%nat O) (tri_rows 3 [2; 0]%nat [10; 20] (fun i => Z.of_nat i + 100) 0) 0 = 20 /\
  nth 1 (tri_rows 3 [2; 0]%nat [10; 20] (fun i => Z.of_nat i + 100) 0) 0 = 101.
Proof.
  split; [cbn; lia|]. split; [cbn; lia|]. split; [lia|]. split; [cbn; intros [H|[H|[]]]; discriminate|].
  split; vm_compute; reflexivity.
Qed.

(* triangulate() AS THE SOURCE HAS IT (table regenerated on every run: `f_tri_returns gen_facts`, the expressions of its
   return statements): whatever a return statement with another expression would hand back (`alt`) under whatever guard
   (`g`), the caller gets the rows in sample order -- because there is no such statement.  An early exit that returns the
   landmark embedding itself changes the table and re-opens c01_src_facts_tied and this theorem. *)
Theorem c01_tri_rows_src_in_sample_order :
  forall (A : Type) (dflt : A) (g : bool) (alt : list A) N lm le (tri : nat -> A),
  NoDup lm -> List.length le = List.length lm ->
  tri_rows_src gen_facts g alt N lm le tri dflt = map (sample_row lm le tri dflt) (List.seq 0%nat N).
Proof. exact src_tri_rows_in_sample_order. Qed.
Print Assumptions c01_tri_rows_src_in_sample_order.

(* "every sample is a landmark: nothing to triangulate, return landmarks_embedding.first": two samples, landmarks
   shuffled to [1; 0] -- row 0 of the result is sample 1's row *)
Theorem c01_tri_rows_early_return_refuted :
  exists (lm : list nat) (le : list Z),
    NoDup lm /\ List.length le = List.length lm /\ List.length lm = 2%nat /\
    tri_rows_ret false (Nat.eqb (List.length lm) 2%nat) le 2%nat lm le (fun _ => 0%Z) 0%Z
      <> map (sample_row lm le (fun _ => 0%Z) 0%Z) (List.seq 0%nat 2%nat).
Proof. exact tri_rows_early_return_refuted. Qed.
Print Assumptions c01_tri_rows_early_return_refuted.
