(* Properties_C01.v — C01: every embed call returns N x target_dimension rows or a documented error;
   it never reads or writes outside its buffers and never hangs.  Statements only; proofs are in
   Shapes_Proof_*.v.  Model: Shapes_Model.v; predicates: Shapes_Spec.v. *)
From Coq Require Import ZArith List Bool QArith.
From TK Require Import Shapes_Model Shapes_Spec Shapes_Proof_Base Shapes_Proof_Routines
                       Shapes_Proof_Term Shapes_Proof_Main.
Import ListNotations.
Open Scope Z_scope.

(* ---- strand 1 + 2, whole requests -------------------------------------------------------- *)
(* the source with every repair (F6 F7 F12 F21): any request, any method, any sizes *)
Theorem c01_outcome_total : forall c nb perm rs,
  inputs_wf c nb perm rs -> outcome_ok c (outcome_of all_fixed c nb perm rs).
Proof. exact outcome_total_all_fixed. Qed.
Print Assumptions c01_outcome_total.

(* /repo HEAD with F12 + F20 + F21 (F7 open): the same outside the F7 zone *)
Theorem c01_outcome_total_head : forall c nb perm rs,
  inputs_wf c nb perm rs -> f7_zone c = false -> outcome_ok c (outcome_of head c nb perm rs).
Proof. exact outcome_total_head. Qed.
Print Assumptions c01_outcome_total_head.

Theorem c01_no_oob_head : forall c nb perm rs,
  inputs_wf c nb perm rs -> f7_zone c = false -> safe (embed_model head c nb perm rs).
Proof. exact embed_head_safe. Qed.
Print Assumptions c01_no_oob_head.

Example c01_head_nonvacuous :
  inputs_wf (mk KLTSA 8 3 2 3 true) (ring_nb 8 [0; 1; 2]) (iota 8) [] /\
  f7_zone (mk KLTSA 8 3 2 3 true) = false /\
  outcome_of head (mk KLTSA 8 3 2 3 true) (ring_nb 8 [0; 1; 2]) (iota 8) [] = OShape 8 2.
Proof. exact embed_head_safe_nonvacuous. Qed.

(* F7 (known finding) on HEAD: a validated request whose eigenvalue slice leaves the vector *)
Theorem eig_segment_refuted :
  exists c nb perm rs, inputs_wf c nb perm rs /\ f7_zone c = true /\
                       embed_model head c nb perm rs = OOB 105 6 5.
Proof. exact Shapes_Proof_Main.eig_segment_refuted. Qed.
Print Assumptions eig_segment_refuted.

(* exact range of the dense smallest-eigenvalue selection, both variants of the slice *)
Theorem eig_dense_smallest_exact : forall f7 n d skip,
  eig_dense f7 false n d skip = Ok <->
  0 <= d /\ 0 <= skip /\ d + skip <= n /\ (f7 = false -> skip + skip + d <= n).
Proof. exact eig_dense_smallest_iff. Qed.
Print Assumptions eig_dense_smallest_exact.

(* F21 and F12 before their repairs: validated requests that index out of range *)
Theorem c01_rank_checks_refuted :
  (exists c nb perm rs, inputs_wf c nb perm rs /\ c_m c = PCA /\ c_D c < c_d c /\
      embed_model pre_round2 c nb perm rs = OOB 101 2 2) /\
  (exists c nb perm rs, inputs_wf c nb perm rs /\ c_m c = NPE /\ c_D c < c_d c /\
      embed_model pre_round2 c nb perm rs = OOB 103 3 2) /\
  (exists c nb perm rs, inputs_wf c nb perm rs /\ c_m c = LMDS /\ c_L c < c_d c /\
      embed_model pre_round2 c nb perm rs = OOB 101 4 4) /\
  (exists c nb perm rs, inputs_wf c nb perm rs /\ c_m c = KLTSA /\ c_k c < c_d c /\
      embed_model pre_round2 c nb perm rs = OOB 223 3 3) /\
  (exists c nb perm rs, inputs_wf c nb perm rs /\ c_m c = MS /\ c_D c < c_d c /\
      embed_model pre_round2 c nb perm rs = OOB 345 2 2).
Proof. exact rank_checks_refuted. Qed.
Print Assumptions c01_rank_checks_refuted.

Theorem c01_tsne_dimension_refuted :
  (exists c nb perm rs, inputs_wf c nb perm rs /\ c_m c = TSNE /\ c_exact c = false /\
      embed_model pre_round2 c nb perm rs = OOB 322 8 8) /\
  (exists c nb perm rs, inputs_wf c nb perm rs /\ c_m c = TSNE /\ c_exact c = true /\
      embed_model pre_round2 c nb perm rs = OOB 321 8 8).
Proof. exact tsne_dimension_refuted. Qed.
Print Assumptions c01_tsne_dimension_refuted.

Theorem c01_rank_checks_now_rejected :
  embed_model head (mk PCA 8 2 3 3 true) [] (iota 8) [] = Throw WrongParameter /\
  embed_model head (mk LMDS 8 3 5 3 true) [] (iota 8) [] = Throw WrongParameter /\
  embed_model head (mk KLTSA 8 3 4 3 true) (ring_nb 8 [0; 1; 2]) (iota 8) [] = Throw WrongParameter /\
  embed_model head (mk TSNE 8 3 1 3 true) [] (iota 8) [] = Throw WrongParameter.
Proof. exact rank_checks_now_rejected. Qed.
Print Assumptions c01_rank_checks_now_rejected.

(* ---- strand 2, routine by routine (all sizes) ---------------------------------------------- *)
Theorem c01_linear_weight_matrix : forall N k nb,
  0 < N -> nb_wf N k nb -> linear_weight_matrix nb N = Ok.
Proof. exact linear_weight_matrix_ok. Qed.
Print Assumptions c01_linear_weight_matrix.

Theorem c01_tangent_weight_matrix : forall N k d nb,
  0 < N -> nb_wf N k nb -> 0 <= d <= k -> tangent_weight_matrix nb N d = Ok.
Proof. exact tangent_weight_matrix_ok. Qed.
Print Assumptions c01_tangent_weight_matrix.

Theorem c01_hessian_weight_matrix : forall N k d nb,
  0 < N -> nb_wf N k nb -> 0 <= d <= k -> hessian_weight_matrix true nb N d = Ok.
Proof. exact hessian_weight_matrix_ok. Qed.
Print Assumptions c01_hessian_weight_matrix.

Example c01_local_nonvacuous : 0 < 6 /\ nb_wf 6 3 (repeat [0; 1; 2] 6) /\ 0 <= 3 <= 3 /\
  hessian_weight_matrix true (repeat [0; 1; 2] 6) 6 3 = Ok.
Proof. repeat split; try (cbn; intros; discriminate); try (vm_compute; reflexivity); repeat constructor; try discriminate. Qed.

(* F6 regression: the old column counter *)
Theorem hlle_columns_refuted :
  hlle_cols false 3 (3 * (3 + 1) / 2) 0 0 (Z.to_nat 3) = OOB 231 12 10.
Proof. exact Shapes_Proof_Routines.hlle_columns_refuted. Qed.
Print Assumptions hlle_columns_refuted.

(* the HLLE column counter ct_j = j d - j (j-1)/2 stays inside 1 + d + d(d+1)/2 for every d *)
Theorem c01_hlle_columns : forall d dp, 0 <= d -> 2 * dp = d * (d + 1) ->
  forall n ct j, 0 <= j -> Z.of_nat n = d - j -> 2 * ct = 2 * j * d - j * (j - 1) ->
  hlle_cols true d dp ct j n = Ok.
Proof. exact hlle_cols_ok. Qed.
Print Assumptions c01_hlle_columns.

Theorem c01_compute_laplacian : forall N k nb, 0 < N -> nb_wf N k nb -> compute_laplacian nb N = Ok.
Proof. exact compute_laplacian_ok. Qed.
Print Assumptions c01_compute_laplacian.

Theorem c01_shortest_distances : forall N k nb, 0 < N -> nb_wf N k nb -> shortest_distances nb N = Ok.
Proof. exact shortest_distances_ok. Qed.
Print Assumptions c01_shortest_distances.

Theorem c01_landmark_shortest_distances : forall N k nb lm,
  0 < N -> nb_wf N k nb -> idx_wf N lm -> landmark_shortest_distances nb lm N = Ok.
Proof. exact landmark_shortest_distances_ok. Qed.
Print Assumptions c01_landmark_shortest_distances.

(* F1 regression: lists of unequal length break the consumers *)
Theorem c01_unequal_lists_refuted :
  exists N nb, 0 < N /\ Z.of_nat (length nb) = N /\
               Forall (fun l => Forall (fun w => 0 <= w < N) l) nb /\
               shortest_distances nb N = OOB 251 3 3.
Proof. exact unequal_lists_refuted. Qed.
Print Assumptions c01_unequal_lists_refuted.

Theorem c01_triangulate : forall N d cols nvals lm,
  idx_wf N lm -> d <= cols -> d <= nvals -> triangulate lm N d cols nvals = Ok.
Proof. exact triangulate_ok. Qed.
Print Assumptions c01_triangulate.

Theorem c01_spe_iteration : forall global N k nu nb perm rs,
  0 < N -> 0 <= nu -> 2 * nu <= N ->
  (global = false -> nb_wf N k nb /\ idx_wf k rs /\ nu <= Z.of_nat (length rs)) ->
  Z.of_nat (length perm) = N -> idx_wf N perm ->
  spe_iteration global nb perm rs N nu = Ok.
Proof. exact spe_iteration_ok. Qed.
Print Assumptions c01_spe_iteration.

Example c01_spe_nonvacuous :
  spe_iteration true [] [0; 1; 2; 3] [] 4 2 = Ok /\ 2 * 2 <= 4.
Proof. split; [vm_compute; reflexivity | discriminate]. Qed.

Theorem c01_tsne_map : forall exact N d,
  0 <= N -> 1 <= d -> (exact = false -> d = 2) -> tsne_map true exact N d = Ok.
Proof. exact tsne_map_ok. Qed.
Print Assumptions c01_tsne_map.

Theorem c01_tsne_bh_rows : forall N K, 0 <= K < N -> tsne_bh_rows N K = Ok.
Proof. exact tsne_bh_rows_ok. Qed.
Print Assumptions c01_tsne_bh_rows.

Theorem c01_manifold_sculpting : forall N k D d nb,
  0 < N -> nb_wf N k nb -> 0 <= d <= D -> manifold_sculpting nb N D d = Ok.
Proof. exact manifold_sculpting_ok. Qed.
Print Assumptions c01_manifold_sculpting.

Theorem c01_find_neighbors : forall brute N k, 0 <= k -> find_neighbors_model brute N k = Ok.
Proof. exact find_neighbors_model_ok. Qed.
Print Assumptions c01_find_neighbors.

(* ---- strand 3, termination ---------------------------------------------------------------- *)
Theorem c01_kdouble_terminates : forall N k conn,
  1 <= N -> 1 <= k -> conn (N - 1) = true ->
  exists k', kdouble (Z.to_nat N) N k conn = Some k' /\ conn k' = true /\
             Z.min k (N - 1) <= k' <= N - 1.
Proof. exact kdouble_terminates. Qed.
Print Assumptions c01_kdouble_terminates.

Theorem c01_kdouble_bounds : forall N k conn,
  3 <= k < N -> conn (N - 1) = true ->
  exists keff, kdouble (Z.to_nat N) N k conn = Some keff /\ conn keff = true /\ k <= keff /\ keff < N.
Proof. exact kdouble_bounds. Qed.
Print Assumptions c01_kdouble_bounds.

Example c01_kdouble_nonvacuous :
  kdouble (Z.to_nat 20) 20 3 (fun k => 10 <=? k) = Some 12.
Proof. vm_compute. reflexivity. Qed.

Theorem c01_kdouble_refuted : forall N k fuel, kdouble fuel N k (fun _ => false) = None.
Proof. exact kdouble_refuted. Qed.
Print Assumptions c01_kdouble_refuted.

Theorem c01_spe_clamp_terminates : forall N nupd,
  exists nu, spe_clamp 2 N nupd = Some nu /\ nu <= nupd /\ (nupd <= N / 2 \/ nu = N / 2) /\
             (0 <= N -> nu <= N / 2 /\ 2 * nu <= N).
Proof. exact spe_clamp_terminates. Qed.
Print Assumptions c01_spe_clamp_terminates.

(* F20 (a): the shipped rescaling loop never ends when rescaling cannot raise the average *)
Theorem ms_terminates_refuted : forall (avg : nat -> Q) (c : Q) varies,
  (forall n, (avg n < c)%Q) -> forall fuel n, ms_rescale fuel false varies avg c n = None.
Proof. exact ms_rescale_refuted. Qed.
Print Assumptions ms_terminates_refuted.

Example ms_terminates_refuted_nonvacuous : forall n : nat, ((fun _ => 0) n < 1)%Q.
Proof. intros n. reflexivity. Qed.

Theorem c01_ms_rescale_terminates : forall guarded avg (c : Q) m n,
  (n <= m)%nat -> (c <= avg m)%Q ->
  exists n', ms_rescale (S (m - n)) guarded true avg c n = Some n' /\ (n' <= m)%nat.
Proof. exact ms_rescale_terminates. Qed.
Print Assumptions c01_ms_rescale_terminates.

Theorem c01_geometric_reaches : forall t r c : Q,
  (0 < t)%Q -> (1 < r)%Q -> exists m : nat, (c <= t * r ^ (Z.of_nat m))%Q.
Proof. exact geometric_reaches. Qed.
Print Assumptions c01_geometric_reaches.

(* F20 (b): a NaN error is "progress" for `new_error >= old_error`; repaired comparison ends *)
Theorem ms_adjust_nan_refuted : forall fuel pos rounds,
  ms_adjust fuel false (fun _ => None) pos rounds = None.
Proof. exact Shapes_Proof_Term.ms_adjust_nan_refuted. Qed.
Print Assumptions ms_adjust_nan_refuted.

Theorem c01_ms_adjust_nan_repaired : forall fuel pos rounds,
  ms_adjust (S fuel) true (fun _ => None) pos rounds = Some (S rounds).
Proof. exact ms_adjust_nan_repaired. Qed.
Print Assumptions c01_ms_adjust_nan_repaired.

(* partial: each continuing round strictly decreases the error; that the error cannot decrease
   forever (finitely many doubles) is not modelled *)
Theorem c01_ms_adjust_decreases_partial : forall (err : Z -> option Q) pos e0 e1,
  err pos = Some e0 -> err (pos + 1) = Some e1 ->
  no_progress true (err (pos + 1)) (err pos) = false -> (e1 < e0)%Q.
Proof. exact ms_adjust_step_decreases_partial. Qed.
Print Assumptions c01_ms_adjust_decreases_partial.
