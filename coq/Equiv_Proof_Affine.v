(* ====================================================================== *)
(*  Equiv_Proof_Affine.v — C12: the per-method pipelines, end to end       *)
(*  (callback tables -> matrix handed to the eigen oracle -> embedding),   *)
(*  for rotations / reflections, translations and scales; the Isomap       *)
(*  stage; the Laplacian with its `neighbors[0].size()` consumer.          *)
(*  Abstract field; the eigen-solvers and sqrt are oracles (Equiv_Spec).   *)
(* ====================================================================== *)
Require Import Field Ring Arith Lia List Bool.
From TK Require Import Mat_Sums Mat_Core Equiv_Model Equiv_Spec Equiv_Proof_Perm Equiv_Proof_Rigid
                       Equiv_Proof_Spectral.
Import ListNotations.

Section Affine.
  Context {F : Type} {Fo : FieldOps F} {Ff : IsField F}.
  Add Field EquivAffineField : (@Fth F Fo Ff).
  Local Open Scope F_scope.

  (* ================================================================== *)
  (* the stages only look inside the n x n box                           *)
  (* ================================================================== *)
  Lemma dist_sq_matrix_meq n (d d' : mat F) :
    meq n n d d' -> meq n n (dist_sq_matrix d) (dist_sq_matrix d').
  Proof.
    intros H i j Hi Hj. unfold dist_sq_matrix. destruct (Nat.leb i j).
    - rewrite (H i j Hi Hj). reflexivity.
    - rewrite (H j i Hj Hi). reflexivity.
  Qed.

  Lemma kernel_matrix_meq n (k k' : mat F) :
    meq n n k k' -> meq n n (kernel_matrix k) (kernel_matrix k').
  Proof.
    intros H i j Hi Hj. unfold kernel_matrix. destruct (Nat.leb i j).
    - apply H; assumption.
    - apply H; assumption.
  Qed.

  Theorem mds_matrix_meq n (d d' : mat F) :
    meq n n d d' -> meq n n (mds_matrix n d) (mds_matrix n d').
  Proof.
    intros H i j Hi Hj. unfold mds_matrix.
    rewrite (center_matrix_meq n _ _ (dist_sq_matrix_meq n d d' H) i j Hi Hj). reflexivity.
  Qed.

  Theorem kpca_matrix_meq n (k k' : mat F) :
    meq n n k k' -> meq n n (kpca_matrix n k) (kpca_matrix n k').
  Proof.
    intros H. unfold kpca_matrix. apply center_matrix_meq. apply kernel_matrix_meq. exact H.
  Qed.

  (* equal matrices have the same set of valid oracle answers *)
  Theorem same_matrix_same_answers n d (G G' : mat F) V lam :
    meq n n G' G -> (eig_answer n d G V lam <-> eig_answer n d G' V lam).
  Proof.
    intros H. split.
    - apply eig_answer_meq. exact H.
    - apply eig_answer_meq. apply meq_sym. exact H.
  Qed.

  (* ================================================================== *)
  (* MDS (euclidean distance callback)                                   *)
  (* ================================================================== *)
  Theorem mds_orthogonal_invariant n D R fsqrt (X : mat F) :
    orthogonal D R ->
    meq n n (mds_matrix n (euclid_dist fsqrt D (rotate D R X)))
            (mds_matrix n (euclid_dist fsqrt D X)).
  Proof.
    intros Ho. apply mds_matrix_meq. intros i j _ _. apply euclid_dist_orthogonal. exact Ho.
  Qed.

  Theorem mds_translation_invariant n D t fsqrt (X : mat F) :
    meq n n (mds_matrix n (euclid_dist fsqrt D (translate t X)))
            (mds_matrix n (euclid_dist fsqrt D X)).
  Proof. apply mds_matrix_meq. intros i j _ _. apply euclid_dist_translate. Qed.

  (* sqrt oracle contract used for c >= 0:  sqrt(c^2 x) = c sqrt(x) *)
  Theorem mds_scale_equivariant n D c fsqrt (X : mat F) :
    of_nat n <> 0 -> (forall x, fsqrt (c * c * x) = c * fsqrt x) ->
    meq n n (mds_matrix n (euclid_dist fsqrt D (scale c X)))
            (mscale (c * c) (mds_matrix n (euclid_dist fsqrt D X))).
  Proof.
    intros Hn Hs. eapply meq_trans; [|apply mds_matrix_scale; exact Hn].
    apply mds_matrix_meq. intros i j _ _. unfold euclid_dist, mscale.
    rewrite sq_dist_scale. apply Hs.
  Qed.

  (* ================================================================== *)
  (* linear kernel PCA                                                   *)
  (* ================================================================== *)
  Theorem kpca_orthogonal_invariant n D R (X : mat F) :
    orthogonal D R ->
    meq n n (kpca_matrix n (lin_kernel D (rotate D R X))) (kpca_matrix n (lin_kernel D X)).
  Proof.
    intros Ho. apply kpca_matrix_meq. intros i j _ _. apply lin_kernel_orthogonal. exact Ho.
  Qed.

  Theorem kpca_scale_equivariant n D c (X : mat F) :
    of_nat n <> 0 ->
    meq n n (kpca_matrix n (lin_kernel D (scale c X)))
            (mscale (c * c) (kpca_matrix n (lin_kernel D X))).
  Proof.
    intros Hn. eapply meq_trans; [|apply kpca_matrix_scale; exact Hn].
    apply kpca_matrix_meq. intros i j _ _. unfold mscale. apply lin_kernel_scale.
  Qed.

  (* ================================================================== *)
  (* Isomap: the stage between the geodesic table and the oracle         *)
  (* ================================================================== *)
  Lemma sym_avg_pact q (S : mat F) i j : sym_avg (pact q S) i j = pact q (sym_avg S) i j.
  Proof. reflexivity. Qed.

  Theorem isomap_matrix_perm n p q (G : mat F) :
    is_bij n p q -> meq n n (isomap_matrix n (pact q G)) (pact q (isomap_matrix n G)).
  Proof.
    intros Hb i j Hi Hj. unfold isomap_matrix.
    change (sym_avg (geo_sq (pact q G))) with (pact q (sym_avg (geo_sq G))).
    rewrite (center_matrix_perm n p q) by assumption. reflexivity.
  Qed.

  Theorem isomap_matrix_scale n c (G : mat F) :
    of_nat n <> 0 -> two <> 0 ->
    meq n n (isomap_matrix n (mscale c G)) (mscale (c * c) (isomap_matrix n G)).
  Proof.
    intros Hn H2 i j Hi Hj. unfold isomap_matrix.
    rewrite (center_matrix_meq n _ (mscale (c * c) (sym_avg (geo_sq G)))).
    - rewrite center_matrix_scale by assumption. unfold mscale. ring.
    - intros a b _ _. unfold sym_avg, geo_sq, mscale, two in *. field. exact H2.
    - exact Hi.
    - exact Hj.
  Qed.

  Theorem isomap_matrix_meq n (G G' : mat F) :
    meq n n G G' -> meq n n (isomap_matrix n G) (isomap_matrix n G').
  Proof.
    intros H i j Hi Hj. unfold isomap_matrix.
    rewrite (center_matrix_meq n (sym_avg (geo_sq G)) (sym_avg (geo_sq G'))); [reflexivity| |exact Hi|exact Hj].
    intros a b Ha Hb. unfold sym_avg, geo_sq. rewrite (H a b Ha Hb), (H b a Hb Ha). reflexivity.
  Qed.

  (* ================================================================== *)
  (* PCA, end to end                                                     *)
  (* ================================================================== *)
  (* what the solver is given on the current tree is the covariance matrix *)
  Lemma pca_matrix_fixed_meq n D (X : mat F) :
    of_nat n <> 0 -> two <> 0 -> meq D D (pca_matrix_fixed n X) (cov_full n X).
  Proof. intros Hn H2 a b _ _. apply pca_matrix_fixed_is_cov_full; assumption. Qed.

  (* permutation: same matrix, same answers, rows of the embedding permuted *)
  Theorem pca_embedding_perm n D d p q (X : mat F) P lam :
    is_bij n p q -> eig_answer D d (pca_matrix_fixed n X) P lam ->
    eig_answer D d (pca_matrix_fixed n (perm_rows q X)) P lam /\
    forall i c, project D P (mean_vec n (perm_rows q X)) (perm_rows q X) i c
                = project D P (mean_vec n X) X (q i) c.
  Proof.
    intros Hb Ha. split.
    - eapply eig_answer_meq; [|exact Ha]. intros a b _ _. apply (pca_matrix_fixed_perm n p q). exact Hb.
    - intros i c. unfold project. apply sumn_ext. intros t _.
      rewrite (mean_vec_perm n p q) by assumption. reflexivity.
  Qed.

  (* translation: same matrix, same answers, SAME embedding *)
  Theorem pca_embedding_translate n D d t (X : mat F) P lam :
    of_nat n <> 0 -> eig_answer D d (pca_matrix_fixed n X) P lam ->
    eig_answer D d (pca_matrix_fixed n (translate t X)) P lam /\
    forall i c, project D P (mean_vec n (translate t X)) (translate t X) i c
                = project D P (mean_vec n X) X i c.
  Proof.
    intros Hn Ha. split.
    - eapply eig_answer_meq; [|exact Ha]. intros a b _ _. apply pca_matrix_fixed_translate. exact Hn.
    - intros i c. apply project_translate. exact Hn.
  Qed.

  (* scale: matrix c^2 C, answers (P, c^2 lam), embedding scaled by c *)
  Theorem pca_embedding_scale n D d c (X : mat F) P lam :
    of_nat n <> 0 -> two <> 0 -> eig_answer D d (pca_matrix_fixed n X) P lam ->
    eig_answer D d (pca_matrix_fixed n (scale c X)) P (fun k => c * c * lam k) /\
    forall i k, project D P (mean_vec n (scale c X)) (scale c X) i k
                = c * project D P (mean_vec n X) X i k.
  Proof.
    intros Hn H2 Ha. split.
    - eapply eig_answer_scale; [|exact Ha]. intros a b _ _. unfold mscale.
      apply pca_matrix_fixed_scale; assumption.
    - intros i k. apply project_scale. exact Hn.
  Qed.

  (* rotation / reflection: matrix R C R^T, answers (R P, lam), SAME embedding *)
  Theorem pca_embedding_orthogonal_fixed n D d R (X : mat F) P lam :
    of_nat n <> 0 -> two <> 0 -> orthogonal D R ->
    eig_answer D d (pca_matrix_fixed n X) P lam ->
    eig_answer D d (pca_matrix_fixed n (rotate D R X)) (mmul D R P) lam /\
    forall i k, project D (mmul D R P) (mean_vec n (rotate D R X)) (rotate D R X) i k
                = project D P (mean_vec n X) X i k.
  Proof.
    intros Hn H2 Ho Ha.
    assert (Ha' : eig_answer D d (cov_full n X) P lam).
    { eapply eig_answer_meq; [|exact Ha]. apply meq_sym. apply pca_matrix_fixed_meq; assumption. }
    destruct (pca_embedding_orthogonal n D d R X P lam Ho Ha') as [H1 H3]. split; [|exact H3].
    eapply eig_answer_meq; [|exact H1]. apply pca_matrix_fixed_meq; assumption.
  Qed.

  (* ================================================================== *)
  (* Laplacian Eigenmaps / LPP: the whole compute_laplacian               *)
  (* ================================================================== *)
  (* with neighbour lists of one length (what every search returns since F1/F2) the
     `k = neighbors[0].size()` consumer reads every row completely, on both sides *)
  Theorem laplacian_perm n k p q nb (h h' : nat -> nat -> F) :
    0 < n -> is_bij n p q -> uniform_rows n k nb -> rows_in_range n nb ->
    (forall a b, a < n -> b < n -> h' (p a) (p b) = h a b) ->
    exists L Dg L' Dg',
      laplacian n nb h = Ok (L, Dg) /\ laplacian n (pnbrs p q nb) h' = Ok (L', Dg') /\
      meq n n L' (pact q L) /\ veq n Dg' (pvec q Dg).
  Proof.
    intros Hn Hb Hu Hr Hh.
    exists (lap_L n nb h), (lap_D n nb h), (lap_L n (pnbrs p q nb) h'), (lap_D n (pnbrs p q nb) h').
    unfold laplacian.
    rewrite (rows_in_bounds_uniform n k nb Hn Hu).
    rewrite (rows_in_bounds_uniform n k (pnbrs p q nb) Hn (uniform_rows_pnbrs n k p q nb Hb Hu)).
    split; [reflexivity|]. split; [reflexivity|]. split.
    - eapply lap_L_perm; eauto.
    - eapply lap_D_perm; eauto.
  Qed.

  (* ================================================================== *)
  (* LLTSA built from centred features (repair F42): invariant for EVERY *)
  (* weight matrix, shifted diagonal included                            *)
  (* ================================================================== *)
  Lemma center_rows_translate n t (X : mat F) i a :
    of_nat n <> 0 -> center_rows n (translate t X) i a = center_rows n X i a.
  Proof.
    intros Hn. unfold center_rows. rewrite mean_vec_translate by assumption. unfold translate. ring.
  Qed.

  Theorem lltsa_f42_translate n (W' : mat F) t (X : mat F) a b :
    of_nat n <> 0 ->
    lltsa_lhs_f42 n W' (translate t X) a b = lltsa_lhs_f42 n W' X a b /\
    lltsa_rhs_f42 n (translate t X) a b = lltsa_rhs_f42 n X a b.
  Proof.
    intros Hn. unfold lltsa_lhs_f42, lltsa_rhs_f42, pencil_lhs, npe_rhs. split.
    - apply sumn_ext. intros r _. apply sumn_ext. intros c _.
      rewrite !center_rows_translate by assumption. reflexivity.
    - apply sumn_ext. intros i _. rewrite !center_rows_translate by assumption. reflexivity.
  Qed.

  (* the right-hand side is the same scatter matrix as before the repair *)
  Theorem lltsa_rhs_f42_is_lltsa_rhs n (X : mat F) a b :
    of_nat n <> 0 -> lltsa_rhs_f42 n X a b = lltsa_rhs n X a b.
  Proof.
    intros Hn. unfold lltsa_rhs_f42, lltsa_rhs, npe_rhs, center_rows, feat_sum, mean_vec.
    rewrite (sumn_ext n _ (fun i => X i a * X i b
                 - (sumn n (fun i0 => X i0 b) / of_nat n) * X i a
                 - (sumn n (fun i0 => X i0 a) / of_nat n) * X i b
                 + (sumn n (fun i0 => X i0 a) / of_nat n) * (sumn n (fun i0 => X i0 b) / of_nat n)))
      by (intros; ring).
    rewrite sumn_add, !sumn_sub, sumn_const, !sumn_mul_l. field. exact Hn.
  Qed.

  (* ================================================================== *)
  (* generalised problems in SAMPLE space (Laplacian eigenmaps:          *)
  (* L v = lam D v): the answer set is transported by a permutation      *)
  (* ================================================================== *)
  Theorem geig_answer_perm n d p q (A B A' B' V : mat F) lam :
    is_bij n p q -> meq n n A' (pact q A) -> meq n n B' (pact q B) ->
    geig_answer n d A B V lam -> geig_answer n d A' B' (perm_rows q V) lam.
  Proof.
    intros Hb HA HB (Hev & Hon). pose proof Hb as (Hp & Hq & Hqp & Hpq).
    assert (Hmul : forall (M M' : mat F), meq n n M' (pact q M) ->
              forall i c, i < n -> mmul n M' (perm_rows q V) i c = mmul n M V (q i) c).
    { intros M M' HM i c Hi. unfold mmul, perm_rows.
      rewrite (sumn_ext n _ (fun t => M (q i) (q t) * V (q t) c))
        by (intros t Ht; rewrite (HM i t Hi Ht); reflexivity).
      exact (sumn_perm n p q (fun t => M (q i) t * V t c) Hb). }
    split.
    - intros i c Hi Hc. rewrite (Hmul A A' HA i c Hi), (Hmul B B' HB i c Hi).
      apply Hev; [apply Hq; exact Hi|exact Hc].
    - intros c c' Hc Hc'. rewrite <- (Hon c c' Hc Hc').
      unfold mmul at 1. unfold mtrans at 1.
      rewrite (sumn_ext n _ (fun t => V (q t) c * mmul n B V (q t) c')).
      + exact (sumn_perm n p q (fun t => V t c * mmul n B V t c') Hb).
      + intros t Ht. unfold perm_rows at 1. rewrite (Hmul B B' HB t c' Ht). reflexivity.
  Qed.

  (* Laplacian eigenmaps end to end: compute_laplacian on the relabelled lists, the solver's
     answers for (L, diag D), the embedding = the eigenvectors: rows permuted *)
  Theorem laplacian_eigenmaps_perm n k d p q nb (h h' : nat -> nat -> F) V lam :
    0 < n -> is_bij n p q -> uniform_rows n k nb -> rows_in_range n nb ->
    (forall a b, a < n -> b < n -> h' (p a) (p b) = h a b) ->
    geig_answer n d (lap_L n nb h) (mdiag (lap_D n nb h)) V lam ->
    geig_answer n d (lap_L n (pnbrs p q nb) h') (mdiag (lap_D n (pnbrs p q nb) h')) (perm_rows q V) lam /\
    rows_permuted n d q V (perm_rows q V).
  Proof.
    intros Hn Hb Hu Hr Hh Ha. split; [|intros i c _ _; reflexivity].
    eapply geig_answer_perm; [exact Hb| | |exact Ha].
    - eapply lap_L_perm; eauto.
    - intros i j Hi Hj. unfold mdiag, pact.
      rewrite (lap_D_perm n k p q nb h h' Hn Hb Hu Hr Hh i Hi). unfold pvec.
      destruct (Nat.eqb i j) eqn:E1; destruct (Nat.eqb (q i) (q j)) eqn:E2; try reflexivity.
      + apply Nat.eqb_eq in E1. apply Nat.eqb_neq in E2. subst j. contradiction.
      + apply Nat.eqb_neq in E1. apply Nat.eqb_eq in E2. exfalso. apply E1.
        eapply is_bij_inj; eauto.
  Qed.

  (* the table form used for execution is the model *)
  Lemma diffusion_from_values_ok n fexp fsqrt w (dist : mat F) i j :
    diffusion_matrix fexp fsqrt w n dist i j =
    diffusion_from_values n (diff_K0 fexp w dist)
      (fun t => fsqrt (colsum n (diff_K1 n (diff_K0 fexp w dist)) t)) i j.
  Proof. reflexivity. Qed.

End Affine.
