(* CoverTree_Build_Model.v — executable model of the cover-tree construction of
   include/tapkee/neighbors/covertree.hpp (batch_create, batch_insert, split, dist_split, max_set,
   get_scale, dist_of_scale) for integer-valued distances.  No proofs in this file; the model is tied
   to the source by comparing the tree it builds with the dumped real tree, node by node.

   Numbers.  COVERTREE_BASE = 1.3 = 13/10.  `dist <= dist_of_scale(s)` is decided exactly:
             dist * 10^s <= 13^s (s >= 0), dist * 13^(-s) <= 10^(-s) (s < 0).  The C++ compares with the
             double pow(1.3, s); for an integer dist the two can only differ if 1.3^s is within one ulp of an
             integer, which happens for s = 0 only (exact).  get_scale(d) = ceil(log(d)/log(1.3)) is the least
             s with 1.3^s >= d (d >= 1: s >= 0); get_scale(0) is the minimal int: `None`.
   v_array   copies are deep copies (elements is a std::vector), `stack` only recycles empty arrays: the model
             is purely functional.  A ds_node is (sample, stack of distances, head = dist.last()).
   order     point_set.last() is the LAST element: lists are kept in array order.
   fuel      one unit per call of batch_insert; None = out of fuel. *)
From Coq Require Import List ZArith Bool.
From TK Require Import Knn_Spec CoverTree_Model.
Import ListNotations.
Local Open Scope Z_scope.

Definition dsn := (Z * list Z)%type.
Definition last_d (x : dsn) : Z := hd 0 (snd x).
Definition pop_d (x : dsn) : dsn := (fst x, tl (snd x)).
Definition push_d (v : Z) (x : dsn) : dsn := (fst x, v :: snd x).

(* max_set *)
Definition max_set (l : list dsn) : Z :=
  fold_left (fun m x => if m <? last_d x then last_d x else m) l 0.

(* pow(1.3, s) as an exact fraction (numerator, denominator) *)
Definition scale_frac (s : Z) : Z * Z :=
  if 0 <=? s then (13 ^ s, 10 ^ s) else (10 ^ (- s), 13 ^ (- s)).

(* dist <= pow(1.3, s), given the fraction *)
Definition le_frac (dv : Z) (f : Z * Z) : bool := dv * snd f <=? fst f.
Definition le_scale (dv : Z) (s : Z) : bool := le_frac dv (scale_frac s).

(* get_scale for dv >= 1: least s >= 0 with 1.3^s >= dv; (num, den) = (13^s, 10^s) is carried along *)
Fixpoint get_scale_from (fuel : nat) (dv s num den : Z) : Z :=
  match fuel with
  | O => s
  | S f => if dv * den <=? num then s else get_scale_from f dv (s + 1) (num * 13) (den * 10)
  end.
Definition get_scale (dv : Z) : Z := get_scale_from 4000 dv 0 1 1.

Definition leaf (p : Z) : ctree := CN p 0 0 100 [].
Definition set_pard (pd : Z) (t : ctree) : ctree :=
  match t with CN p m _ sc ch => CN p m pd sc ch end.

Section Build.
Variable d : dist.

(* dist_split(point_set, new_point_set, new_point, max_scale) -> (point_set', moved) *)
Fixpoint dist_split (np : Z) (fmax : Z * Z) (ps : list dsn) : list dsn * list dsn :=
  match ps with
  | [] => ([], [])
  | x :: r =>
      let '(stay, moved) := dist_split np fmax r in
      let nd := dd d np (fst x) in
      if le_frac nd fmax then (stay, push_d nd x :: moved) else (x :: stay, moved)
  end.

(* the redistribution after a new child returned *)
Fixpoint redistribute (fmax : Z * Z) (nps : list dsn) (ps far : list dsn) : list dsn * list dsn :=
  match nps with
  | [] => (ps, far)
  | x :: r =>
      let x' := pop_d x in
      if le_frac (last_d x') fmax then redistribute fmax r (ps ++ [x']) far
      else redistribute fmax r ps (far ++ [x'])
  end.

Definition split_last {A} (l : list A) : option (list A * A) :=
  match rev l with [] => None | x :: r => Some (rev r, x) end.

(* the loop `while (size(point_set) != 0)` of batch_insert; `rec` is batch_insert itself (with one unit of fuel
   less); n bounds the number of iterations (every iteration consumes at least the point it picks) *)
Definition bi_rec := Z -> Z -> Z -> list dsn -> list dsn -> option (ctree * list dsn * list dsn).

Fixpoint bi_loop (rec : bi_rec) (p max_scale top_scale next_scale : Z) (fmax : Z * Z) (n : nat)
                 (ps far cons : list dsn) (children : list ctree) {struct n}
  : option (ctree * list dsn * list dsn) :=
  match split_last ps with
  | None =>
      Some (CN p (max_set cons) 0 (Z.to_nat (top_scale - max_scale)) children, far, cons)
  | Some (ps', x) =>
      match n with
      | O => None
      | S n' =>
          let np := fst x in
          let nd := last_d x in
          let cons' := cons ++ [x] in
          let '(ps2, moved1) := dist_split np fmax ps' in
          let '(far2, moved2) := dist_split np fmax far in
          match rec np next_scale top_scale (moved1 ++ moved2) [] with
          | None => None
          | Some (nchild, nps, ncons) =>
              let '(ps3, far3) := redistribute fmax nps ps2 far2 in
              bi_loop rec p max_scale top_scale next_scale fmax n' ps3 far3 (cons' ++ map pop_d ncons)
                      (children ++ [set_pard nd nchild])
          end
      end
  end.

Fixpoint batch_insert (fuel : nat) (p : Z) (max_scale top_scale : Z) (ps cons : list dsn)
  : option (ctree * list dsn * list dsn) :=
  match fuel with
  | O => None
  | S f =>
      match ps with
      | [] => Some (leaf p, [], cons)
      | _ =>
          let max_dist := max_set ps in
          if max_dist =? 0 then
            (* points with distance 0 *)
            let children := leaf p :: map (fun x => leaf (fst x)) (rev ps) in
            Some (CN p 0 0 (Z.to_nat (Z.max 100 (top_scale - max_scale))) children, [], cons ++ rev ps)
          else
            let next_scale := Z.min (max_scale - 1) (get_scale max_dist) in
            let fmax := scale_frac max_scale in           (* dist_of_scale(max_scale) *)
            let stay := filter (fun x => le_frac (last_d x) fmax) ps in
            let far := filter (fun x => negb (le_frac (last_d x) fmax)) ps in
            match batch_insert f p next_scale top_scale stay cons with
            | None => None
            | Some (child, ps1, cons1) =>
                match ps1 with
                | [] => Some (child, far, cons1)
                | _ =>
                    (* while (size(point_set) != 0) *)
                    bi_loop (batch_insert f) p max_scale top_scale next_scale fmax
                            (S (length ps1 + length far)) ps1 far cons1 [child]
                end
            end
      end
  end.

(* batch_create(points): points = samples in order *)
Definition batch_create (fuel : nat) (points : list Z) : option ctree :=
  match points with
  | [] => None
  | p0 :: rest =>
      let ps := map (fun x => (x, [dd d p0 x])) rest in
      let max_dist := max_set ps in
      match ps with
      | [] => Some (leaf p0)
      | _ =>
          if max_dist =? 0 then
            (* get_scale(0) is the minimal int for max_scale and top_scale: the node of coincident points *)
            Some (CN p0 0 0 100 (leaf p0 :: map (fun x => leaf (fst x)) (rev ps)))
          else
            match batch_insert fuel p0 (get_scale max_dist) (get_scale max_dist) ps [] with
            | None => None
            | Some (t, _, _) => Some t
            end
      end
  end.

End Build.
