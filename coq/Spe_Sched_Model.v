(* ====================================================================== *)
(*  Spe_Sched_Model.v — the ITERATION SCHEDULE of routines/spe.hpp          *)
(*  spe_embedding (definitions only, NO proofs).                            *)
(*                                                                          *)
(*      if (max_iter == 0)                                                  *)
(*      {   max_iter = 2000 + static_cast<IndexType>(floor(0.04 * N * N));  *)
(*          if (!global_strategy) max_iter *= 3;   }                        *)
(*      ...                                                                 *)
(*      for (IndexType i = 0; i < max_iter; ++i) { ...                      *)
(*          lambda = lambda - (lambda / max_iter);   }                      *)
(*                                                                          *)
(*  max_iteration = 0 means "automatic schedule".  ONE variable (the        *)
(*  overwritten by-value parameter) bounds the loop AND divides lambda.     *)
(*  The model keeps the two uses apart (sc_loop, sc_div) so that a variant  *)
(*  in which they come from different variables can be expressed and        *)
(*  refuted (seeded change C19_3).                                          *)
(*                                                                          *)
(*  Numbers.  `0.04 * N * N` is evaluated in binary64: (fl(c * N)) * N      *)
(*  rounded again, c = 0x1.47ae147ae147bp-5 = 5764607523034235 * 2^-57.     *)
(*  The two roundings matter: floor of the double is N*N/25 for N <= 204    *)
(*  but 1680 (not 1681) at N = 205.  So the product is modelled with an     *)
(*  explicit round-to-nearest-even on (mantissa, exponent) pairs over Z     *)
(*  (positive normal numbers only: c * N * N lies in [0, 2^60) for every    *)
(*  32-bit N, far from overflow / subnormals).                              *)
(* ====================================================================== *)
Require Import List Arith Bool ZArith.
From TK Require Import Mat_Sums Mat_Core Spe_Model Spe_Run_Model.
Import ListNotations.
Local Open Scope Z_scope.

(* a non-negative binary64 value  m * 2^e  (m >= 0; not necessarily normalised) *)
Definition b64 := (Z * Z)%type.

(* round the exact value m * 2^e to a 53-bit mantissa, ties to even *)
Definition b64_round (m e : Z) : b64 :=
  let L := Z.log2 m + 1 in
  if L <=? 53 then (m, e) else
  let s := L - 53 in
  let q := Z.shiftr m s in
  let r := m - Z.shiftl q s in
  let h := Z.shiftl 1 (s - 1) in
  let q' := if r <? h then q else if h <? r then q + 1 else if Z.even q then q else q + 1 in
  (q', e + s).

(* double * int : the int converts exactly (|n| < 2^53), the exact product is rounded once *)
Definition b64_mul_int (x : b64) (n : Z) : b64 := b64_round (fst x * n) (snd x).

(* floor of a non-negative value *)
Definition b64_floor (x : b64) : Z :=
  if 0 <=? snd x then Z.shiftl (fst x) (snd x) else Z.shiftr (fst x) (- snd x).

(* the literal 0.04 *)
Definition c004 : b64 := (5764607523034235, -57).

(* static_cast<IndexType>(floor(0.04 * N * N)) *)
Definition sched_q (N : nat) : nat :=
  Z.to_nat (b64_floor (b64_mul_int (b64_mul_int c004 (Z.of_nat N)) (Z.of_nat N))).

Local Close Scope Z_scope.
Local Open Scope nat_scope.

(* the value assigned to max_iter inside `if (max_iter == 0)` *)
Definition auto_iterations (global : bool) (N : nat) : nat :=
  let m := 2000 + sched_q N in
  if global then m else m * 3.

(* max_iter after the `if (max_iter == 0) { ... }` block *)
Definition spe_iterations (global : bool) (N max_iter : nat) : nat :=
  if max_iter =? 0 then auto_iterations global N else max_iter.

(* what the main loop uses: its bound and the divisor of the annealing line *)
Record schedule := { sc_loop : nat; sc_div : nat }.

(* SHIPPED code: both are the (overwritten) max_iter *)
Definition spe_schedule (global : bool) (N max_iter : nat) : schedule :=
  {| sc_loop := spe_iterations global N max_iter; sc_div := spe_iterations global N max_iter |}.

(* REGRESSION MODEL (seeded change C19_3): the default schedule goes into a new `const iterations`
   that bounds the loop; `lambda = lambda - (lambda / max_iter)` still divides by the parameter *)
Definition spe_schedule_split (global : bool) (N max_iter : nat) : schedule :=
  {| sc_loop := spe_iterations global N max_iter; sc_div := max_iter |}.

(* specification of a schedule: the loop runs at least once per requested iteration, the annealing
   divisor is the number of iterations of the loop, and it is not zero *)
Definition schedule_ok (s : schedule) : Prop := sc_loop s = sc_div s /\ 1 <= sc_div s.
Definition schedule_ok_b (s : schedule) : bool := (sc_loop s =? sc_div s) && (1 <=? sc_div s).

(* decision procedure run on the implementation's own log: `shuffles` = number of random_shuffle
   calls (= iterations of the main loop) observed for (global, N, max_iteration) *)
Definition schedule_check (global : bool) (N max_iter shuffles : nat) : bool :=
  shuffles =? sc_loop (spe_schedule global N max_iter).

(* ---------------------------------------------------------------------- *)
(*  the whole run of spe_embedding as a function of max_iteration: the      *)
(*  oracle streams must cover exactly sc_loop iterations, lambda is         *)
(*  divided by sc_div after every iteration                                 *)
(* ---------------------------------------------------------------------- *)
Section Full.
  Context {F : Type} {Fo : FieldOps F} {Ff : IsField F}.

  Definition spe_embedding_sched (sched : bool -> nat -> nat -> schedule) (old global : bool)
             (nbrs : list (list nat)) (nupd N max_iter : nat) (its : list iter_in)
             (norms : list (list F)) (tol alpha : F) (R : nat -> nat -> F) (Y0 : pts) : res pts :=
    let sc := sched global N max_iter in
    if length its =? sc_loop sc then
      bind (spe_indices old global nbrs nupd N its) (fun outs =>
      Ok (spe_coords (sc_div sc) tol alpha R
                     (map (fun on => {| s_pairs := o_pairs (fst on); s_norms := snd on |})
                          (combine outs norms))
                     fone Y0))
    else NoStream 4.

  Definition spe_embedding_full := spe_embedding_sched spe_schedule.

  (* the values `lambda` takes at the start of iterations 0 .. n-1 when the annealing line divides by T *)
  Fixpoint run_lambdas (T n : nat) (lam : F) : list F :=
    match n with
    | O => []
    | S k => lam :: run_lambdas T k (lambda_next T lam)
    end.

  (* the coordinate side of the main loop with the lambda of every iteration given explicitly *)
  Fixpoint spe_coords_lams (tol alpha : F) (R : nat -> nat -> F) (steps : list step_in) (lams : list F)
           (Y : pts) : pts :=
    match steps, lams with
    | s :: rest, lam :: ls =>
      spe_coords_lams tol alpha R rest ls
                      (spe_step lam tol (s_pairs s) (targets alpha R (s_pairs s)) (s_norms s) Y)
    | _, _ => Y
    end.
End Full.

(* the value of lambda at the start of iteration t (lambda_0 = 1), over Q, divisor T *)
Require Import QArith.
Definition lam_seq (T : nat) (t : nat) : Q :=
  Nat.iter t (fun l => l - l / inject_Z (Z.of_nat T))%Q 1%Q.
