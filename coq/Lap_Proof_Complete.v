(* ====================================================================== *)
(*  Lap_Proof_Complete.v — the solver's answer exhausts the spectrum of   *)
(*  the pencil (property C09, "the target_dimension smallest non-zero     *)
(*  eigenvalues" are those OF THE PENCIL, not only of the answer)          *)
(*                                                                         *)
(*  spectrum_complete : for a symmetric pencil (L, Dm) and an answer       *)
(*      (V, lam) meeting gen_contract and the completeness relation        *)
(*      V (V^T Dm) = I  (the other half of "V is Dm-orthonormal and        *)
(*      square"; checked on the reference decomposition at run time),      *)
(*      a scalar mu different from every lam_c has only the trivial        *)
(*      generalised eigenvector: L y = mu Dm y  ->  y = 0.                 *)
(*      Any field, any N.                                                  *)
(* ====================================================================== *)
Require Import Arith Lia List Bool Field Ring.
From TK Require Import Mat_Sums Mat_Core Lap_Model Lap_Spec Lap_Proof_Lap.
Import ListNotations.
Local Open Scope list_scope.
Local Open Scope nat_scope.

Section Complete.
  Context {F : Type} {Fo : FieldOps F} {Ff : IsField F}.
  Add Field LapCompleteField : (@Fth F Fo Ff).
  Local Open Scope F_scope.

  Variable N : nat.
  Variable L Dm V : mat F.
  Variable lam : vec F.
  Hypothesis HLs : msym N L.
  Hypothesis HDs : msym N Dm.
  Hypothesis Hcontract : gen_contract N L Dm V lam.
  Hypothesis Hcomplete : meq N N (mmul N V (mmul N (mtrans V) Dm)) mI.

  Lemma dot_sym_mv (A : mat F) (u w : vec F) :
    msym N A -> dot N u (mv N A w) = dot N (mv N A u) w.
  Proof.
    intros HA. unfold dot, mv.
    rewrite (sumn_ext N _ (fun i => sumn N (fun j => u i * (A i j * w j)))).
    2:{ intros i _. rewrite <- sumn_mul_l. reflexivity. }
    rewrite sumn_swap. apply sumn_ext. intros j Hj.
    rewrite <- sumn_mul_r. apply sumn_ext. intros i Hi.
    rewrite (HA i j Hi Hj). ring.
  Qed.

  Lemma contract_col c : (c < N)%nat -> gen_eigvec N L Dm (lam c) (mcol V c).
  Proof.
    intros Hc i Hi. destruct Hcontract as [HAV _].
    specialize (HAV i c Hi Hc). unfold mmul in HAV. unfold mv, vscale, mcol.
    etransitivity; [exact HAV|].
    rewrite <- sumn_mul_l. apply sumn_ext. intros t Ht.
    pose proof (mmul_diag_r N V lam t c Hc) as E. unfold mmul in E. rewrite E. ring.
  Qed.

  (* the coefficient of y along column c vanishes when mu is not lam_c *)
  Lemma coeff_zero (mu : F) (y : vec F) c :
    (c < N)%nat -> gen_eigvec N L Dm mu y -> lam c <> mu ->
    dot N (mcol V c) (mv N Dm y) = 0.
  Proof.
    intros Hc Hy Hne.
    set (v := mcol V c). set (a := dot N v (mv N Dm y)).
    assert (E1 : dot N v (mv N L y) = mu * a).
    { unfold a. rewrite (dot_ext N v v (mv N L y) (vscale mu (mv N Dm y))) by (intros; auto).
      unfold vscale. rewrite (dot_comm N v), dot_scale_l, (dot_comm N _ v). reflexivity. }
    assert (E2 : dot N v (mv N L y) = lam c * a).
    { rewrite (dot_sym_mv L v y HLs).
      rewrite (dot_ext N (mv N L v) (vscale (lam c) (mv N Dm v)) y y)
        by (intros; auto; apply contract_col; assumption).
      unfold vscale. rewrite dot_scale_l. unfold a. rewrite (dot_sym_mv Dm v y HDs). reflexivity. }
    apply (field_cancel (lam c - mu)).
    - intros H. apply Hne. assert (E : lam c = (lam c - mu) + mu) by ring. rewrite E, H. ring.
    - assert (E : (lam c - mu) * a = lam c * a - mu * a) by ring. rewrite E, <- E1, <- E2. ring.
  Qed.

  (* y is the combination of the columns with those coefficients *)
  Lemma expand (y : vec F) i :
    (i < N)%nat ->
    y i = sumn N (fun c => V i c * dot N (mcol V c) (mv N Dm y)).
  Proof.
    intros Hi.
    assert (E : mv N (mmul N V (mmul N (mtrans V) Dm)) y i = y i).
    { rewrite (mv_meq N N _ mI y y Hcomplete (veq_refl N y) i Hi).
      unfold mv, mI. apply sumn_delta_l. exact Hi. }
    rewrite <- E. rewrite mmul_mv. unfold mv at 1. apply sumn_ext. intros c Hc.
    f_equal. rewrite mmul_mv. reflexivity.
  Qed.

  Theorem spectrum_complete (mu : F) (y : vec F) :
    gen_eigvec N L Dm mu y ->
    (forall c, (c < N)%nat -> lam c <> mu) ->
    forall i, (i < N)%nat -> y i = 0.
  Proof.
    intros Hy Hne i Hi. rewrite (expand y i Hi). apply sumn_zero'. intros c Hc.
    rewrite (coeff_zero mu y c Hc Hy (Hne c Hc)). ring.
  Qed.
End Complete.
